(* Sched/Static.v — executable model of the deliberately shared state of isobar/pattern/static.py and
   isobar/globals/globals.py: PStaticPattern, PCurrentTime, Globals / PGlobals.

   Time.  The timeline position handed to these patterns is Timeline.current_time; they round it to 5 decimal
   places.  [r5 U t] is that rounding for a position of t units of 1/U beat, as an integer number of 10^-5 beats
   (nearest; a position exactly half-way between two multiples of 10^-5 does not occur on the grids used).
   Static-pattern times and durations below are in 10^-5 beats.  How the pattern finds its timeline (inspect.stack)
   is not modelled: the position is an argument. *)
From Isobar Require Import Base.Prelude.

Definition r5 (U t : Z) : Z := (2 * t * 100000 + U) / (2 * U).

(* PCurrentTime.__next__: round(timeline.current_time, 5) *)
Definition pcurrent_time (U t : Z) : Z := r5 U t.

(** * PSequence cursor: next value, or exhausted *)
Definition seq_next (l : list Z) (pos : nat) (cyc : bool) : option (Z * nat) :=
  if (pos <? length l)%nat then
    let p' := S pos in Some (nth pos l 0, if cyc && (p' =? length l)%nat then 0%nat else p')
  else None.

(** * PStaticPattern(pattern, element_duration) *)
Record static := mkStatic {
  sv_vals : list Z; sv_vpos : nat; sv_vcyc : bool;      (* self.pattern: a sequence, finite or cyclic *)
  sv_durs : list Z; sv_dpos : nat;                      (* self.element_duration: a constant or a cyclic sequence *)
  sv_value : option Z;                                  (* self.value *)
  sv_start : option Z;                                  (* self.current_element_start_time *)
  sv_dur : Z }.                                         (* self.current_element_duration *)
Definition static0 (vals : list Z) (cyc : bool) (durs : list Z) : static := mkStatic vals 0 cyc durs 0 None None 0.

Inductive sres := SVal (v : Z) | SStop | SOutOfFuel.

(* "self.current_element_start_time is None or current_time - start >= self.current_element_duration" *)
Definition expired (now : Z) (s : static) : bool :=
  match sv_start s with None => true | Some st => sv_dur s <=? now - st end.

(* __next__ at (rounded) position [now]: while expired: value = next(pattern); start = now; duration = next(element_duration) *)
Fixpoint static_read (fuel : nat) (now : Z) (s : static) : sres * static :=
  match fuel with
  | O => (SOutOfFuel, s)
  | S f =>
      if expired now s then
        match seq_next (sv_vals s) (sv_vpos s) (sv_vcyc s) with
        | None => (SStop, s)                                  (* StopIteration before the assignment: state unchanged *)
        | Some (v, vp) =>
            match seq_next (sv_durs s) (sv_dpos s) true with
            | None => (SStop, mkStatic (sv_vals s) vp (sv_vcyc s) (sv_durs s) (sv_dpos s) (Some v) (Some now) (sv_dur s))
            | Some (d, dp) => static_read f now (mkStatic (sv_vals s) vp (sv_vcyc s) (sv_durs s) dp (Some v) (Some now) d)
            end
        end
      else (match sv_value s with Some v => SVal v | None => SStop end, s)
  end.

(** * Globals / PGlobals *)
Definition globals := list (Z * Z).          (* latest assignment first *)
Definition gset (k v : Z) (g : globals) : globals := (k, v) :: g.
Fixpoint gget (k d : Z) (g : globals) : Z :=      (* PGlobals(name, default).__next__ *)
  match g with [] => d | (k', v) :: r => if k' =? k then v else gget k d r end.

(** * Programs: what several readers do to the shared objects, in the order the timeline makes them do it *)
Inductive act :=
| ARead (now : Z)            (* somebody reads the shared static pattern at this (rounded) position *)
| AGet (k d : Z)             (* PGlobals(k, d) is read *)
| ASet (k v : Z)             (* Globals.set(k, v) *)
| ATime (U t : Z).           (* PCurrentTime is read at position t/U *)
Inductive out := OVal (v : Z) | OStop | OFuel | ONone.
Definition FUEL : nat := 4.
Fixpoint run_prog (s : static) (g : globals) (p : list act) : list out :=
  match p with
  | [] => []
  | ARead now :: r => let '(res, s') := static_read FUEL now s in
                      (match res with SVal v => OVal v | SStop => OStop | SOutOfFuel => OFuel end) :: run_prog s' g r
  | AGet k d :: r => OVal (gget k d g) :: run_prog s g r
  | ASet k v :: r => ONone :: run_prog s (gset k v g) r
  | ATime U t :: r => OVal (pcurrent_time U t) :: run_prog s g r
  end.

Definition out_eqb (a b : out) : bool :=
  match a, b with OVal x, OVal y => x =? y | OStop, OStop | OFuel, OFuel | ONone, ONone => true | _, _ => false end.

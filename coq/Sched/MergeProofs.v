(* Sched/MergeProofs.v — C07: phase order of Timeline.tick and THE MERGE THEOREM.

   Ownership.  A pair of predicates (qc on channels, qb on callback ids) classifies device calls; a stream
   / a pending release / a track "is within (qc, qb)" when every call it can ever cause satisfies the pair.
   For a chosen track id [i] with its predicates (pc, pb), every other track is required to be within the
   complementary pair (the distinct-channels hypothesis of the property, in its general form).

   Simulation.  [sim J S]: S is the timeline in which only track i lives; J is the joint timeline.  Track
   i's record is THE SAME in both (tracks S = the tracks of J with id i), the pending actions concerning i
   (its deferred starts, the releases it handed over when it left) are the same, in the same order, and the
   clocks and defaults agree.  Every phase of Timeline.tick and every operation preserves it, and the calls
   of S are the owned sub-sequence of the calls of J. *)
From Isobar Require Import Base.Prelude Sched.Model Sched.NoteOffProofs Sched.TimeProofs.

(** * Ownership predicates *)
Definition ekind_ok (qc : Z -> bool) (qb : nat -> bool) (k : ekind) : bool :=
  match k with
  | KNote vs => forallb (fun v => qc (v_chan v)) vs
  | KAction cb => qb cb
  | KControl _ _ ch => qc ch
  | KProgram _ ch => qc ch
  end.
Definition evres_ok qc qb (r : evres) : bool :=
  match r with REvent e => ekind_ok qc qb (e_kind e) | _ => true end.
Definition stream_ok qc qb (s : stream) : bool := forallb (evres_ok qc qb) (s_items s).
Definition offs_ok (qc : Z -> bool) (l : list noteoff) : bool := forallb (fun n => qc (no_chan n)) l.
Definition track_ok qc qb (t : track) : bool := stream_ok qc qb (t_stream t) && offs_ok qc (t_offs t).
Definition call_ok (qc : Z -> bool) (qb : nat -> bool) (c : call) : bool :=
  match c with
  | CNoteOn _ _ ch => qc ch
  | CNoteOff _ ch => qc ch
  | CControl _ _ ch => qc ch
  | CProgram _ ch => qc ch
  | CCallback id => qb id
  end.
Definition calls_ok qc qb (l : list call) : bool := forallb (call_ok qc qb) l.

Lemma forallb_filter_id {A} (p : A -> bool) l : forallb p l = true -> filter p l = l.
Proof. induction l as [|x r IH]; simpl; [reflexivity|]. intros H. apply andb_true_iff in H as [H1 H2]. rewrite H1, (IH H2). reflexivity. Qed.
Lemma forallb_filter_nil {A} (p : A -> bool) l : forallb (fun x => negb (p x)) l = true -> filter p l = [].
Proof. induction l as [|x r IH]; simpl; [reflexivity|]. intros H. apply andb_true_iff in H as [H1 H2].
  apply negb_true_iff in H1. rewrite H1. exact (IH H2). Qed.
Lemma forallb_ext' {A} (p q : A -> bool) l : (forall x, p x = q x) -> forallb p l = forallb q l.
Proof. intros H. induction l as [|x r IH]; simpl; [reflexivity|]. rewrite H, IH. reflexivity. Qed.

Lemma call_ok_neg qc qb c : call_ok (fun x => negb (qc x)) (fun x => negb (qb x)) c = negb (call_ok qc qb c).
Proof. destruct c; reflexivity. Qed.
Lemma calls_own_id qc qb l : calls_ok qc qb l = true -> filter (call_ok qc qb) l = l.
Proof. apply forallb_filter_id. Qed.
Lemma calls_foreign_nil qc qb l :
  calls_ok (fun x => negb (qc x)) (fun x => negb (qb x)) l = true -> filter (call_ok qc qb) l = [].
Proof.
  intros H. apply forallb_filter_nil. unfold calls_ok in H.
  rewrite (forallb_ext' _ (fun c => negb (call_ok qc qb c))) in H by apply call_ok_neg. exact H.
Qed.

(** * One track stays within its pair *)
Section Within.
  Variables (qc : Z -> bool) (qb : nat -> bool).
  Notation tok := (track_ok qc qb).
  Notation sok := (stream_ok qc qb).

  Lemma tok_split t : tok t = true <-> sok (t_stream t) = true /\ offs_ok qc (t_offs t) = true.
  Proof. unfold track_ok. apply andb_true_iff. Qed.

  Lemma pull_ok s : sok s = true -> evres_ok qc qb (fst (pull s)) = true /\ sok (snd (pull s)) = true.
  Proof.
    intros H. unfold pull. destruct (s_pos s <? length (s_items s))%nat eqn:E; simpl; [|split; [reflexivity|exact H]].
    split; [|exact H].
    unfold stream_ok in H. rewrite forallb_forall in H. apply H. apply nth_In. apply Nat.ltb_lt. exact E.
  Qed.

  Lemma gne_ok tr : tok tr = true ->
    tok (snd (get_next_event tr)) = true /\
    (forall e, fst (get_next_event tr) = GEvent e -> ekind_ok qc qb (e_kind e) = true).
  Proof.
    intros H. unfold get_next_event. destruct (count_exhausted tr); [split; [exact H|discriminate]|].
    apply tok_split in H as [Hs Ho]. destruct (pull_ok _ Hs) as [P1 P2].
    destruct (pull (t_stream tr)) as [[| |e] s']; simpl in *.
    - split; [apply tok_split; split; assumption|discriminate].
    - split; [apply tok_split; split; assumption|discriminate].
    - split; [apply tok_split; split; assumption|]. intros e0 E; inversion E; subst. exact P1.
  Qed.

  Lemma pull_loop_ok fu : forall tr last, tok tr = true ->
    (forall e, last = Some e -> ekind_ok qc qb (e_kind e) = true) ->
    tok (snd (pull_loop fu tr last)) = true /\
    (forall e, fst (pull_loop fu tr last) = PDone (Some e) -> ekind_ok qc qb (e_kind e) = true).
  Proof.
    induction fu as [|f IH]; intros tr last H L; simpl; [split; [exact H|discriminate]|].
    destruct (t_next tr <=? t_cur tr).
    - destruct (gne_ok tr H) as [G1 G2]. destruct (get_next_event tr) as [[e| |] tr']; simpl in *.
      + apply IH.
        * apply tok_split in G1 as [A B]. apply tok_split. split; assumption.
        * intros e0 E; inversion E; subst. apply G2. reflexivity.
      + split; [exact G1|discriminate].
      + split; [exact G1|discriminate].
    - split; [exact H|]. intros e E; inversion E; subst. apply L. reflexivity.
  Qed.

  Lemma perform_voices_ok fail nowT cur vs : forall n offs calls,
    forallb (fun v => qc (v_chan v)) vs = true -> offs_ok qc offs = true -> calls_ok qc qb calls = true ->
    let '(offs', calls', _, _) := perform_voices fail nowT cur vs n offs calls in
    offs_ok qc offs' = true /\ calls_ok qc qb calls' = true.
  Proof.
    induction vs as [|v r IH]; intros n offs calls Hv Ho Hc; simpl; [split; assumption|].
    simpl in Hv. apply andb_true_iff in Hv as [Hv1 Hv2].
    destruct (voice_on v); [|apply IH; assumption].
    destruct (dev_emit fail n); [|split; assumption].
    apply IH; [exact Hv2| |].
    - unfold offs_ok. rewrite forallb_app. simpl. rewrite Hv1. unfold offs_ok in Ho. rewrite Ho. reflexivity.
    - unfold calls_ok. rewrite forallb_app. simpl. rewrite Hv1. unfold calls_ok in Hc. rewrite Hc. reflexivity.
  Qed.

  Lemma perform_event_ok fail nowT tr e n : tok tr = true -> ekind_ok qc qb (e_kind e) = true ->
    let '(tr', calls, _, _) := perform_event fail nowT tr e n in
    tok tr' = true /\ calls_ok qc qb calls = true.
  Proof.
    intros H He. unfold perform_event. destruct (negb (e_active e)); [split; [exact H|reflexivity]|].
    destruct (t_muted tr); [split; [exact H|reflexivity]|].
    destruct (e_kind e) as [vs|cb|c v ch|pr ch]; simpl in He.
    - apply tok_split in H as [Hs Ho].
      pose proof (perform_voices_ok fail nowT (t_cur tr) vs n (t_offs tr) [] He Ho eq_refl) as P.
      destruct (perform_voices fail nowT (t_cur tr) vs n (t_offs tr) []) as [[[offs calls] n'] ok].
      destruct P as [P1 P2]. split; [|exact P2]. apply tok_split. split; assumption.
    - split; [exact H|]. simpl. rewrite He. reflexivity.
    - destruct (dev_emit fail n); (split; [exact H|]); simpl; [rewrite He|]; reflexivity.
    - destruct (dev_emit fail n); (split; [exact H|]); simpl; [rewrite He|]; reflexivity.
  Qed.

  Lemma tick_a_ok cfg nowT tr n : tok tr = true ->
    let '(tr', calls, _, _) := track_tick_a cfg nowT tr n in
    tok tr' = true /\ calls_ok qc qb calls = true.
  Proof.
    intros H. unfold track_tick_a. destruct (negb (t_started tr)); [split; [exact H|reflexivity]|].
    destruct (t_next tr <=? t_cur tr); [|split; [exact H|reflexivity]].
    destruct (pull_loop_ok (fuel cfg) tr None H) as [P1 P2]; [discriminate|].
    destruct (pull_loop (fuel cfg) tr None) as [[[e|]| | |] tr']; simpl in *; try (split; [exact P1|reflexivity]).
    pose proof (perform_event_ok (dev_fail cfg) nowT tr' e n P1 (P2 e eq_refl)) as Q.
    destruct (perform_event (dev_fail cfg) nowT tr' e n) as [[[tr'' calls] n'] pf]. exact Q.
  Qed.

  Lemma tick_b_ok cfg tr st : tok tr = true -> tok (track_tick_b cfg tr st) = true.
  Proof. intros H. unfold track_tick_b. destruct (st && _); exact H. Qed.

  Lemma process_ok tr : tok tr = true ->
    tok (fst (process_note_offs tr)) = true /\ calls_ok qc qb (snd (process_note_offs tr)) = true.
  Proof.
    intros H. apply tok_split in H as [Hs Ho]. unfold process_note_offs; simpl. split.
    - apply tok_split; simpl. split; [exact Hs|].
      unfold offs_ok in *. rewrite forallb_forall in *. intros x Hx. apply filter_In in Hx as [Hx _]. apply Ho, Hx.
    - unfold calls_ok, offs_ok in *. rewrite forallb_forall in *. intros c Hc. apply in_map_iff in Hc as [x [E Hx]]. subst c.
      apply filter_In in Hx as [Hx _]. simpl. apply Ho, Hx.
  Qed.

  Lemma start_ok tr s : tok tr = true -> sok s = true -> tok (track_start tr s) = true.
  Proof. intros H Hs. apply tok_split in H as [_ Ho]. apply tok_split. split; assumption. Qed.
End Within.

(** * Without device faults the device-call counter does not influence a track *)
Lemma perform_event_dev nowT tr e n m :
  let '(t1, c1, _, p1) := perform_event None nowT tr e n in
  let '(t2, c2, _, p2) := perform_event None nowT tr e m in
  t1 = t2 /\ c1 = c2 /\ p1 = p2.
Proof.
  unfold perform_event. destruct (negb (e_active e)); [repeat split|]. destruct (t_muted tr); [repeat split|].
  destruct (e_kind e); simpl; try (repeat split; fail).
  rewrite !perform_voices_spec. repeat split.
Qed.

Lemma tick_a_dev cfg nowT tr n m : dev_fail cfg = None ->
  let '(t1, c1, _, r1) := track_tick_a cfg nowT tr n in
  let '(t2, c2, _, r2) := track_tick_a cfg nowT tr m in
  t1 = t2 /\ c1 = c2 /\ r1 = r2.
Proof.
  intros D. unfold track_tick_a. destruct (negb (t_started tr)); [repeat split|].
  destruct (t_next tr <=? t_cur tr); [|repeat split].
  destruct (pull_loop (fuel cfg) tr None) as [[[e|]| | |] tr']; try (repeat split; fail).
  rewrite D. pose proof (perform_event_dev nowT tr' e n m) as P.
  destruct (perform_event None nowT tr' e n) as [[[t1 c1] n1] p1].
  destruct (perform_event None nowT tr' e m) as [[[t2 c2] n2] p2].
  destruct P as [-> [-> ->]]. repeat split.
Qed.

(** * Track-list utilities *)
Lemma tick_b_id cfg tr st : t_id (track_tick_b cfg tr st) = t_id tr.
Proof. unfold track_tick_b. destruct (st && _); reflexivity. Qed.
Lemma tick_b_fin_indep cfg tr st : t_rwd (track_tick_b cfg tr st) = t_rwd tr.
Proof. unfold track_tick_b. destruct (st && _); reflexivity. Qed.

(** the calls of every tick of a history, tick by tick *)
Fixpoint tick_calls (cfg : config) (tl : timeline) (h : list op) : list (list call) :=
  match h with
  | [] => []
  | o :: r => let '(tl', c, _) := step cfg tl o in
              (match o with OTick => [c] | _ => [] end) ++ tick_calls cfg tl' r
  end.

(** * The simulation *)
Section Merge.
  Variable i : nat.                      (* the track under observation *)
  Variables (pc : Z -> bool) (pb : nat -> bool).     (* the channels / callback ids it owns *)
  Definition nc (c : Z) : bool := negb (pc c).
  Definition nb (b : nat) : bool := negb (pb b).
  Notation own := (call_ok pc pb).

  Definition is_i (t : track) : bool := (t_id t =? i)%nat.
  Definition act_own (a : action) : bool :=
    match a with AStart _ t _ => (t =? i)%nat | ARelease _ _ c => pc c end.
  Definition trk_wf (t : track) : bool := if is_i t then track_ok pc pb t else track_ok nc nb t.
  Definition act_wf (a : action) : bool :=
    match a with
    | AStart _ t s => if (t =? i)%nat then stream_ok pc pb s else stream_ok nc nb s
    | ARelease _ _ _ => true
    end.

  Record sim (J S : timeline) : Prop := mkSim {
    s_now : now S = now J;
    s_trk : tracks S = filter is_i (tracks J);
    s_act : actions S = filter act_own (actions J);
    s_dq : def_q S = def_q J;
    s_dd : def_d S = def_d J;
    s_twf : forallb trk_wf (tracks J) = true;
    s_awf : forallb act_wf (actions J) = true }.

  (* list lemmas *)
  Lemma filter_find l : find_track i (filter is_i l) = find_track i l.
  Proof.
    induction l as [|x r IH]; [reflexivity|]. cbn [filter find_track]. unfold is_i.
    destruct (t_id x =? i)%nat eqn:E; [cbn [find_track]; rewrite E; reflexivity|exact IH].
  Qed.
  Lemma filter_put_own t' l : t_id t' = i -> filter is_i (put_track t' l) = put_track t' (filter is_i l).
  Proof.
    intros H. induction l as [|x r IH]; [reflexivity|]. cbn [filter put_track]. unfold is_i. rewrite H.
    destruct (t_id x =? i)%nat eqn:E.
    - cbn [filter put_track]. unfold is_i. rewrite H, Nat.eqb_refl, E. reflexivity.
    - cbn [filter]. unfold is_i. rewrite E. fold is_i. rewrite IH. reflexivity.
  Qed.
  Lemma filter_put_for t' l : t_id t' <> i -> filter is_i (put_track t' l) = filter is_i l.
  Proof.
    intros H. induction l as [|x r IH]; [reflexivity|]. cbn [filter put_track].
    destruct (t_id x =? t_id t')%nat eqn:E.
    - cbn [filter]. unfold is_i. apply Nat.eqb_eq in E. rewrite E.
      destruct (t_id t' =? i)%nat eqn:E2; [apply Nat.eqb_eq in E2; contradiction|reflexivity].
    - cbn [filter]. rewrite IH. reflexivity.
  Qed.
  Lemma filter_del_own l : filter is_i (del_track i l) = del_track i (filter is_i l).
  Proof.
    induction l as [|x r IH]; [reflexivity|]. cbn [filter del_track]. unfold is_i.
    destruct (t_id x =? i)%nat eqn:E; [cbn [del_track]; rewrite E; reflexivity|].
    cbn [filter]. unfold is_i. rewrite E. exact IH.
  Qed.
  Lemma filter_del_for id l : id <> i -> filter is_i (del_track id l) = filter is_i l.
  Proof.
    intros H. induction l as [|x r IH]; [reflexivity|]. cbn [filter del_track].
    destruct (t_id x =? id)%nat eqn:E.
    - unfold is_i. apply Nat.eqb_eq in E. rewrite E.
      destruct (id =? i)%nat eqn:E2; [apply Nat.eqb_eq in E2; contradiction|reflexivity].
    - cbn [filter]. rewrite IH. reflexivity.
  Qed.
  Lemma wf_put t' l : forallb trk_wf l = true -> trk_wf t' = true -> forallb trk_wf (put_track t' l) = true.
  Proof.
    intros H Ht. induction l as [|x r IH]; simpl in *; [reflexivity|]. apply andb_true_iff in H as [H1 H2].
    destruct (t_id x =? t_id t')%nat; simpl; [rewrite Ht, H2|rewrite H1, (IH H2)]; reflexivity.
  Qed.
  Lemma wf_del id l : forallb trk_wf l = true -> forallb trk_wf (del_track id l) = true.
  Proof.
    intros H. induction l as [|x r IH]; simpl in *; [reflexivity|]. apply andb_true_iff in H as [H1 H2].
    destruct (t_id x =? id)%nat; simpl; [exact H2|rewrite H1, (IH H2); reflexivity].
  Qed.
  Lemma wf_find id l t : forallb trk_wf l = true -> find_track id l = Some t -> trk_wf t = true.
  Proof.
    intros H. induction l as [|x r IH]; simpl in *; [discriminate|]. apply andb_true_iff in H as [H1 H2].
    destruct (t_id x =? id)%nat; [intros E; inversion E; subst; exact H1|apply IH; exact H2].
  Qed.
  Lemma wf_own t : t_id t = i -> trk_wf t = track_ok pc pb t.
  Proof. intros H. unfold trk_wf, is_i. rewrite H, Nat.eqb_refl. reflexivity. Qed.
  Lemma wf_for t : t_id t <> i -> trk_wf t = track_ok nc nb t.
  Proof. intros H. unfold trk_wf, is_i. destruct (t_id t =? i)%nat eqn:E; [apply Nat.eqb_eq in E; contradiction|reflexivity]. Qed.

  Lemma sim_find J S : sim J S -> find_track i (tracks S) = find_track i (tracks J).
  Proof. intros H. rewrite (s_trk _ _ H). apply filter_find. Qed.

  (* elementary state changes *)
  Lemma sim_dev J S n m : sim J S -> sim (set_dev J n) (set_dev S m).
  Proof. intros [A B C D E F G]. constructor; assumption. Qed.
  Lemma sim_dev_l J S n : sim J S -> sim (set_dev J n) S.
  Proof. intros [A B C D E F G]. constructor; assumption. Qed.

  Lemma sim_upd_own J S tr : sim J S -> t_id tr = i -> track_ok pc pb tr = true ->
    sim (upd_track J tr) (upd_track S tr).
  Proof.
    intros [A B C D E F G] Hi Ho. constructor; simpl; try assumption.
    - rewrite B. symmetry. apply filter_put_own. exact Hi.
    - apply wf_put; [exact F|]. rewrite wf_own; assumption.
  Qed.
  Lemma sim_upd_for J S tr : sim J S -> t_id tr <> i -> track_ok nc nb tr = true -> sim (upd_track J tr) S.
  Proof.
    intros [A B C D E F G] Hi Ho. constructor; simpl; try assumption.
    - rewrite B. symmetry. apply filter_put_for. exact Hi.
    - apply wf_put; [exact F|]. rewrite wf_for; assumption.
  Qed.

  Lemma release_own tr : offs_ok pc (t_offs tr) = true ->
    filter act_own (release_actions tr) = release_actions tr /\ forallb act_wf (release_actions tr) = true.
  Proof.
    unfold release_actions, offs_ok. induction (t_offs tr) as [|x r IH]; simpl; [split; reflexivity|].
    intros H. apply andb_true_iff in H as [H1 H2]. rewrite H1. destruct (IH H2) as [I1 I2]. rewrite I1, I2. split; reflexivity.
  Qed.
  Lemma release_for tr : offs_ok nc (t_offs tr) = true ->
    filter act_own (release_actions tr) = [] /\ forallb act_wf (release_actions tr) = true.
  Proof.
    unfold release_actions, offs_ok. induction (t_offs tr) as [|x r IH]; simpl; [split; reflexivity|].
    intros H. apply andb_true_iff in H as [H1 H2]. unfold nc in H1. apply negb_true_iff in H1. rewrite H1.
    destruct (IH H2) as [I1 I2]. rewrite I1, I2. split; reflexivity.
  Qed.

  Lemma sim_remove_own J S : sim J S -> sim (remove_track J i) (remove_track S i).
  Proof.
    intros H. unfold remove_track. rewrite (sim_find _ _ H).
    destruct (find_track i (tracks J)) as [tr|] eqn:Fd; [|exact H].
    pose proof (find_track_id _ _ _ Fd) as Hid.
    destruct H as [A B C D E F G].
    pose proof (wf_find _ _ _ F Fd) as W. rewrite (wf_own _ Hid) in W. apply andb_true_iff in W as [_ Wo].
    destruct (release_own tr Wo) as [R1 R2].
    constructor; simpl; try assumption.
    - rewrite B. symmetry. apply filter_del_own.
    - rewrite filter_app, R1, C. reflexivity.
    - apply wf_del. exact F.
    - rewrite forallb_app, G, R2. reflexivity.
  Qed.
  Lemma sim_remove_for J S id : sim J S -> id <> i -> sim (remove_track J id) S.
  Proof.
    intros H Hne. unfold remove_track.
    destruct (find_track id (tracks J)) as [tr|] eqn:Fd; [|exact H].
    pose proof (find_track_id _ _ _ Fd) as Hid.
    destruct H as [A B C D E F G].
    pose proof (wf_find _ _ _ F Fd) as W. rewrite wf_for in W by (rewrite Hid; exact Hne). apply andb_true_iff in W as [_ Wo].
    destruct (release_for tr Wo) as [R1 R2].
    constructor; simpl; try assumption.
    - rewrite B. symmetry. apply filter_del_for. exact Hne.
    - rewrite filter_app, R1, app_nil_r. exact C.
    - apply wf_del. exact F.
    - rewrite forallb_app, G, R2. reflexivity.
  Qed.

  Lemma sim_own_track J S tr : sim J S -> find_track i (tracks J) = Some tr -> t_id tr = i /\ track_ok pc pb tr = true.
  Proof.
    intros H Fd. pose proof (find_track_id _ _ _ Fd) as Hid. split; [exact Hid|].
    rewrite <- (wf_own _ Hid). exact (wf_find _ _ _ (s_twf _ _ H) Fd).
  Qed.
  Lemma sim_for_track J S id tr : sim J S -> id <> i -> find_track id (tracks J) = Some tr ->
    t_id tr <> i /\ track_ok nc nb tr = true.
  Proof.
    intros H Hne Fd. pose proof (find_track_id _ _ _ Fd) as Hid. assert (N : t_id tr <> i) by (rewrite Hid; exact Hne).
    split; [exact N|]. rewrite <- (wf_for _ N). exact (wf_find _ _ _ (s_twf _ _ H) Fd).
  Qed.

  Lemma sim_end_own J S : sim J S -> sim (end_stream J i) (end_stream S i).
  Proof.
    intros H. unfold end_stream. rewrite (sim_find _ _ H).
    destruct (find_track i (tracks J)) as [tr|] eqn:Fd; [|exact H].
    destruct (sim_own_track _ _ _ H Fd) as [Hid Hok].
    apply sim_upd_own; [exact H|exact Hid|]. apply andb_true_iff in Hok as [_ Ho]. apply andb_true_iff. split; [reflexivity|exact Ho].
  Qed.
  Lemma sim_end_for J S id : sim J S -> id <> i -> sim (end_stream J id) S.
  Proof.
    intros H Hne. unfold end_stream.
    destruct (find_track id (tracks J)) as [tr|] eqn:Fd; [|exact H].
    destruct (sim_for_track _ _ _ _ H Hne Fd) as [Hid Hok].
    apply sim_upd_for; [exact H|exact Hid|]. apply andb_true_iff in Hok as [_ Ho]. apply andb_true_iff. split; [reflexivity|exact Ho].
  Qed.

  Lemma finish_own cfg J S st : sim J S -> sim (finish_track cfg J i st) (finish_track cfg S i st).
  Proof.
    intros H. unfold finish_track. rewrite (sim_find _ _ H).
    destruct (find_track i (tracks J)) as [tr|] eqn:Fd; [|exact H].
    destruct (sim_own_track _ _ _ H Fd) as [Hid Hok].
    assert (U : sim (upd_track J (track_tick_b cfg tr st)) (upd_track S (track_tick_b cfg tr st))).
    { apply sim_upd_own; [exact H|rewrite tick_b_id; exact Hid|apply tick_b_ok; exact Hok]. }
    destruct (t_finished (track_tick_b cfg tr st) && t_rwd (track_tick_b cfg tr st)); [apply sim_remove_own|]; exact U.
  Qed.
  Lemma finish_for cfg J S id st : sim J S -> id <> i -> sim (finish_track cfg J id st) S.
  Proof.
    intros H Hne. unfold finish_track.
    destruct (find_track id (tracks J)) as [tr|] eqn:Fd; [|exact H].
    destruct (sim_for_track _ _ _ _ H Hne Fd) as [Hid Hok].
    assert (U : sim (upd_track J (track_tick_b cfg tr st)) S).
    { apply sim_upd_for; [exact H|rewrite tick_b_id; exact Hid|apply tick_b_ok; exact Hok]. }
    destruct (t_finished (track_tick_b cfg tr st) && t_rwd (track_tick_b cfg tr st)); [apply sim_remove_for|]; assumption.
  Qed.

  (** ** One track's turn *)
  Variable cfg : config.
  Hypothesis Hdev : dev_fail cfg = None.                                   (* no device faults: the call counter couples tracks *)
  Hypothesis Hcb : forall cb, snd (nth cb (cbs cfg) (CbNone, [])) = [].    (* callbacks perform no timeline operations *)

  Lemma tick_one_own J S : sim J S ->
    let '(J1, cJ, aJ) := tick_one cfg J i in
    let '(S1, cS, aS) := tick_one cfg S i in
    sim J1 S1 /\ cS = cJ /\ aS = aJ /\ calls_ok pc pb cJ = true.
  Proof.
    intros H. unfold tick_one. rewrite (sim_find _ _ H).
    destruct (find_track i (tracks J)) as [tr|] eqn:Fd; [|refine (conj H (conj eq_refl (conj eq_refl eq_refl)))].
    destruct (sim_own_track _ _ _ H Fd) as [Hid Hok].
    rewrite (s_now _ _ H).
    pose proof (tick_a_dev cfg (now J) tr (dev_calls J) (dev_calls S) Hdev) as D.
    pose proof (tick_a_ok pc pb cfg (now J) tr (dev_calls J) Hok) as K.
    pose proof (tick_a_id cfg (now J) tr (dev_calls J)) as I.
    destruct (track_tick_a cfg (now J) tr (dev_calls J)) as [[[tr1 c] n1] res].
    destruct (track_tick_a cfg (now J) tr (dev_calls S)) as [[[tr2 c2] n2] res2].
    destruct D as [<- [<- <-]]. destruct K as [K1 K2]. simpl in I. rewrite Hid in I.
    assert (U : sim (set_dev (upd_track J tr1) n1) (set_dev (upd_track S tr1) n2)).
    { apply sim_dev. apply sim_upd_own; assumption. }
    destruct res.
    - refine (conj _ (conj eq_refl (conj eq_refl K2))). destruct (t_finished tr1 && t_rwd tr1); [apply sim_remove_own|]; exact U.
    - refine (conj _ (conj eq_refl (conj eq_refl K2))). apply finish_own. exact U.
    - refine (conj _ (conj eq_refl (conj eq_refl K2))). apply finish_own. exact U.
    - destruct (ignore_exc cfg); refine (conj _ (conj eq_refl (conj eq_refl K2))); [apply sim_remove_own|]; exact U.
    - specialize (Hcb cb). destruct (nth cb (cbs cfg) (CbNone, [])) as [rk ops]. simpl in Hcb. subst ops.
      cbn [exec_cb_ops cb_completes].
      refine (conj _ (conj eq_refl (conj eq_refl K2))). apply finish_own. destruct rk; [exact U|exact U|apply sim_end_own; exact U].
    - refine (conj U (conj eq_refl (conj eq_refl K2))).
  Qed.

  Lemma tick_one_for J S id : sim J S -> id <> i ->
    let '(J1, cJ, _) := tick_one cfg J id in
    sim J1 S /\ calls_ok nc nb cJ = true.
  Proof.
    intros H Hne. unfold tick_one.
    destruct (find_track id (tracks J)) as [tr|] eqn:Fd; [|split; [exact H|reflexivity]].
    destruct (sim_for_track _ _ _ _ H Hne Fd) as [Hid Hok].
    pose proof (tick_a_ok nc nb cfg (now J) tr (dev_calls J) Hok) as K.
    pose proof (tick_a_id cfg (now J) tr (dev_calls J)) as I.
    destruct (track_tick_a cfg (now J) tr (dev_calls J)) as [[[tr1 c] n1] res].
    destruct K as [K1 K2]. simpl in I.
    assert (U : sim (set_dev (upd_track J tr1) n1) S).
    { apply sim_dev_l. apply sim_upd_for; [exact H|rewrite I; exact Hid|exact K1]. }
    destruct res.
    - split; [|exact K2]. destruct (t_finished tr1 && t_rwd tr1); [apply sim_remove_for|]; assumption.
    - split; [|exact K2]. apply finish_for; assumption.
    - split; [|exact K2]. apply finish_for; assumption.
    - destruct (ignore_exc cfg); (split; [|exact K2]); [apply sim_remove_for|]; assumption.
    - specialize (Hcb cb). destruct (nth cb (cbs cfg) (CbNone, [])) as [rk ops]. simpl in Hcb. subst ops.
      cbn [exec_cb_ops cb_completes].
      split; [|exact K2]. apply finish_for; [|exact Hne]. destruct rk; [exact U|exact U|apply sim_end_for; assumption].
    - split; assumption.
  Qed.

  Lemma tick_one_abort tl id : forall r, snd (tick_one cfg tl id) = Some r -> r <> ROk.
  Proof.
    intros r. unfold tick_one. destruct (find_track id (tracks tl)) as [tr|]; [|discriminate].
    destruct (track_tick_a cfg (now tl) tr (dev_calls tl)) as [[[tr1 c] n1] res].
    destruct res; simpl; try discriminate.
    - destruct (ignore_exc cfg); simpl; [discriminate|]. intros E; inversion E; discriminate.
    - destruct (nth cb (cbs cfg) (CbNone, [])) as [rk ops]. discriminate.
    - intros E; inversion E; discriminate.
  Qed.

  (** ** Phase 4: the tracks *)
  Lemma phase_tracks_sim ids : forall J S c, sim J S ->
    let '(J1, cJ, rJ) := phase_tracks cfg J ids c in
    let '(S1, cS, rS) := phase_tracks cfg S (filter (fun x => (x =? i)%nat) ids) (filter own c) in
    rJ = ROk -> rS = ROk /\ sim J1 S1 /\ cS = filter own cJ.
  Proof.
    induction ids as [|id r IH]; intros J S c H; [simpl; intros _; exact (conj eq_refl (conj H eq_refl))|].
    cbn [phase_tracks filter]. destruct (id =? i)%nat eqn:E.
    - apply Nat.eqb_eq in E. subst id. cbn [phase_tracks].
      pose proof (tick_one_own J S H) as T. pose proof (tick_one_abort J i) as Ab.
      destruct (tick_one cfg J i) as [[J1 cJ] aJ]. destruct (tick_one cfg S i) as [[S1 cS] aS].
      destruct T as [T1 [-> [-> T4]]].
      destruct aJ as [res|].
      + intros ->. exfalso. exact (Ab ROk eq_refl eq_refl).
      + specialize (IH J1 S1 (c ++ cJ) T1). rewrite filter_app, (calls_own_id _ _ _ T4) in IH. exact IH.
    - assert (Hne : id <> i) by (intros ->; rewrite Nat.eqb_refl in E; discriminate).
      pose proof (tick_one_for J S id H Hne) as T. pose proof (tick_one_abort J id) as Ab.
      destruct (tick_one cfg J id) as [[J1 cJ] aJ]. destruct T as [T1 T2].
      destruct aJ as [res|].
      + destruct (phase_tracks cfg S _ _) as [[S1 cS] rS]. intros ->. exfalso. exact (Ab ROk eq_refl eq_refl).
      + specialize (IH J1 S (c ++ cJ) T1). rewrite filter_app, (calls_foreign_nil _ _ _ T2), app_nil_r in IH. exact IH.
  Qed.

  (** ** Phase 1: note-offs *)
  Lemma phase_noteoffs_cons x r :
    phase_noteoffs (x :: r) = (fst (process_note_offs x) :: fst (phase_noteoffs r),
                               snd (process_note_offs x) ++ snd (phase_noteoffs r)).
  Proof. cbn [phase_noteoffs]. destruct (process_note_offs x), (phase_noteoffs r). reflexivity. Qed.

  Lemma phase_noteoffs_sim l : forallb trk_wf l = true ->
    fst (phase_noteoffs (filter is_i l)) = filter is_i (fst (phase_noteoffs l)) /\
    snd (phase_noteoffs (filter is_i l)) = filter own (snd (phase_noteoffs l)) /\
    forallb trk_wf (fst (phase_noteoffs l)) = true.
  Proof.
    induction l as [|x r IH]; intros H; [repeat split|]. cbn [forallb] in H. apply andb_true_iff in H as [H1 H2].
    destruct (IH H2) as [I1 [I2 I3]]. rewrite phase_noteoffs_cons. cbn [filter fst snd forallb].
    assert (Pid : t_id (fst (process_note_offs x)) = t_id x) by reflexivity.
    assert (Pi : is_i (fst (process_note_offs x)) = is_i x) by reflexivity.
    assert (Pw : trk_wf (fst (process_note_offs x)) = if is_i x then track_ok pc pb (fst (process_note_offs x)) else track_ok nc nb (fst (process_note_offs x))).
    { unfold trk_wf. rewrite Pi. reflexivity. }
    rewrite Pi, filter_app, Pw, I3. unfold trk_wf in H1.
    destruct (is_i x) eqn:E.
    - destruct (process_ok pc pb x H1) as [P1 P2]. rewrite phase_noteoffs_cons. cbn [fst snd].
      rewrite I1, I2, (calls_own_id _ _ _ P2), P1. repeat split.
    - destruct (process_ok nc nb x H1) as [P1 P2].
      rewrite I1, I2, (calls_foreign_nil _ _ _ P2), P1. repeat split.
  Qed.

  (** ** Phase 3: due actions *)
  Lemma fire_own J S a : sim J S -> act_own a = true -> act_wf a = true ->
    let '(J1, cJ) := fire_action J a in
    let '(S1, cS) := fire_action S a in
    sim J1 S1 /\ cS = cJ /\ calls_ok pc pb cJ = true.
  Proof.
    intros H Ho Hw. destruct a as [t id s|t n c]; simpl in *.
    - apply Nat.eqb_eq in Ho. subst id. rewrite Nat.eqb_refl in Hw. rewrite (sim_find _ _ H).
      destruct (find_track i (tracks J)) as [tr|] eqn:Fd; [|exact (conj H (conj eq_refl eq_refl))].
      destruct (sim_own_track _ _ _ H Fd) as [Hid Hok].
      refine (conj _ (conj eq_refl eq_refl)). apply sim_upd_own; [exact H|exact Hid|apply start_ok; assumption].
    - rewrite Ho. exact (conj H (conj eq_refl eq_refl)).
  Qed.
  Lemma fire_for J S a : sim J S -> act_own a = false -> act_wf a = true ->
    let '(J1, cJ) := fire_action J a in sim J1 S /\ calls_ok nc nb cJ = true.
  Proof.
    intros H Ho Hw. destruct a as [t id s|t n c]; simpl in *.
    - rewrite Ho in Hw. assert (Hne : id <> i) by (intros ->; rewrite Nat.eqb_refl in Ho; discriminate).
      destruct (find_track id (tracks J)) as [tr|] eqn:Fd; [|exact (conj H eq_refl)].
      destruct (sim_for_track _ _ _ _ H Hne Fd) as [Hid Hok].
      split; [|reflexivity]. apply sim_upd_for; [exact H|exact Hid|apply start_ok; assumption].
    - split; [exact H|]. unfold nc. rewrite Ho. reflexivity.
  Qed.

  Lemma phase_actions_sim todo : forall J S kept calls, sim J S ->
    forallb act_wf todo = true -> forallb act_wf kept = true ->
    let '(J1, kJ, cJ) := phase_actions J todo kept calls in
    let '(S1, kS, cS) := phase_actions S (filter act_own todo) (filter act_own kept) (filter own calls) in
    sim J1 S1 /\ kS = filter act_own kJ /\ cS = filter own cJ /\ forallb act_wf kJ = true.
  Proof.
    induction todo as [|a r IH]; intros J S kept calls H Wt Wk; [simpl; exact (conj H (conj eq_refl (conj eq_refl Wk)))|].
    cbn [forallb] in Wt. apply andb_true_iff in Wt as [Wa Wr]. cbn [phase_actions filter].
    destruct (act_own a) eqn:Ea.
    - cbn [phase_actions]. rewrite (s_now _ _ H). destruct (a_time a <=? now J).
      + pose proof (fire_own J S a H Ea Wa) as Fo.
        destruct (fire_action J a) as [J1 cJ]. destruct (fire_action S a) as [S1 cS]. destruct Fo as [F1 [-> F3]].
        specialize (IH J1 S1 kept (calls ++ cJ) F1 Wr Wk). rewrite filter_app, (calls_own_id _ _ _ F3) in IH. exact IH.
      + assert (Wk' : forallb act_wf (kept ++ [a]) = true) by (rewrite forallb_app; simpl; rewrite Wk, Wa; reflexivity).
        specialize (IH J S (kept ++ [a]) calls H Wr Wk'). rewrite filter_app in IH. simpl in IH. rewrite Ea in IH. exact IH.
    - destruct (a_time a <=? now J).
      + pose proof (fire_for J S a H Ea Wa) as Fo. destruct (fire_action J a) as [J1 cJ]. destruct Fo as [F1 F2].
        specialize (IH J1 S kept (calls ++ cJ) F1 Wr Wk). rewrite filter_app, (calls_foreign_nil _ _ _ F2), app_nil_r in IH. exact IH.
      + assert (Wk' : forallb act_wf (kept ++ [a]) = true) by (rewrite forallb_app; simpl; rewrite Wk, Wa; reflexivity).
        specialize (IH J S (kept ++ [a]) calls H Wr Wk'). rewrite filter_app in IH. simpl in IH. rewrite Ea, app_nil_r in IH. exact IH.
  Qed.

  (** ** The whole tick *)
  Lemma map_id_filter l : map t_id (filter is_i l) = filter (fun x => (x =? i)%nat) (map t_id l).
  Proof. induction l as [|x r IH]; simpl; [reflexivity|]. unfold is_i at 1. destruct (t_id x =? i)%nat; simpl; rewrite IH; reflexivity. Qed.

  Hypothesis Hswd : stop_when_done cfg = false.      (* a solo timeline would stop earlier than the joint one *)

  Theorem tl_tick_sim J S : sim J S ->
    let '(J', cJ, rJ) := tl_tick cfg J in
    let '(S', cS, rS) := tl_tick cfg S in
    rJ = ROk -> rS = ROk /\ sim J' S' /\ cS = filter own cJ.
  Proof.
    intros H. unfold tl_tick. rewrite (s_trk _ _ H).
    destruct (phase_noteoffs_sim (tracks J) (s_twf _ _ H)) as [N1 [N2 N3]].
    destruct (phase_noteoffs (tracks J)) as [trJ c1J]. destruct (phase_noteoffs (filter is_i (tracks J))) as [trS c1S].
    simpl in N1, N2, N3. subst trS c1S.
    assert (H1 : sim (set_actions (set_tracks J trJ) []) (set_actions (set_tracks S (filter is_i trJ)) [])).
    { destruct H as [A B C D E F G]. constructor; simpl; try assumption; reflexivity. }
    pose proof (phase_actions_sim (actions J) _ _ [] [] H1 (s_awf _ _ H) eq_refl) as PA.
    change (actions (set_tracks J trJ)) with (actions J).
    change (actions (set_tracks S (filter is_i trJ))) with (actions S). rewrite (s_act _ _ H).
    simpl (filter act_own []) in PA. simpl (filter own []) in PA.
    destruct (phase_actions (set_actions (set_tracks J trJ) []) (actions J) [] []) as [[J2 kJ] c3J].
    destruct (phase_actions (set_actions (set_tracks S (filter is_i trJ)) []) (filter act_own (actions J)) [] []) as [[S2 kS] c3S].
    destruct PA as [P1 [-> [-> P4]]].
    assert (H3 : sim (set_actions J2 (kJ ++ actions J2)) (set_actions S2 (filter act_own kJ ++ actions S2))).
    { destruct P1 as [A B C D E F G]. constructor; simpl; try assumption.
      - rewrite filter_app, C. reflexivity.
      - rewrite forallb_app, P4, G. reflexivity. }
    pose proof (phase_tracks_sim (map t_id (tracks (set_actions J2 (kJ ++ actions J2)))) _ _ [] H3) as PT.
    change (tracks (set_actions S2 (filter act_own kJ ++ actions S2))) with (tracks S2).
    change (tracks (set_actions J2 (kJ ++ actions J2))) with (tracks J2) in *.
    rewrite (s_trk _ _ P1), map_id_filter. simpl (filter own []) in PT.
    destruct (phase_tracks cfg (set_actions J2 (kJ ++ actions J2)) (map t_id (tracks J2)) []) as [[J4 c4J] rJ].
    destruct (phase_tracks cfg (set_actions S2 (filter act_own kJ ++ actions S2)) (filter (fun x => (x =? i)%nat) (map t_id (tracks J2))) []) as [[S4 c4S] rS].
    rewrite Hswd, !andb_false_r.
    destruct rJ; try (destruct rS; intros; discriminate).
    destruct (PT eq_refl) as [-> [T2 ->]].
    intros _. split; [reflexivity|]. split.
    - destruct T2 as [A B C D E F G]. constructor; simpl; try assumption. rewrite A. reflexivity.
    - rewrite !filter_app. reflexivity.
  Qed.

  (** ** Operations between ticks *)
  Hypothesis Hmax : max_tracks cfg = 0.              (* the track limit couples tracks *)

  Definition nid_rel (J S : timeline) : Prop := next_id S = if (i <? next_id J)%nat then Datatypes.S i else i.

  (* an operation is admissible when it is unnamed and its stream lies on the right side of the ownership split;
     [k] is the id the next schedule call will create in the joint timeline *)
  Definition op_wf (k : nat) (o : op) : bool :=
    match o with
    | OSchedule s _ _ _ _ name _ =>
        match name with None => if (k =? i)%nat then stream_ok pc pb s else stream_ok nc nb s | Some _ => false end
    | OUpdate t s _ _ _ => if (t =? i)%nat then stream_ok pc pb s else stream_ok nc nb s
    | _ => true
    end.
  (* does the operation belong to the solo history of track i? *)
  Definition op_keep (k : nat) (o : op) : bool :=
    match o with
    | OTick | OClear | OSetDefaults _ _ => true
    | OSchedule _ _ _ _ _ _ _ => (k =? i)%nat
    | OUpdate t _ _ _ _ | OUnschedule t | OMute t | OUnmute t | ONudge t _ => (t =? i)%nat
    end.
  Definition op_next (k : nat) (o : op) : nat := match o with OSchedule _ _ _ _ _ _ _ => Datatypes.S k | _ => k end.

  Lemma track_update_own J S tr s q d c : sim J S -> t_id tr = i -> track_ok pc pb tr = true -> stream_ok pc pb s = true ->
    let '(J1, tr1) := track_update cfg J tr s q d c in
    let '(S1, tr2) := track_update cfg S tr s q d c in
    sim J1 S1 /\ tr2 = tr1 /\ t_id tr1 = i /\ track_ok pc pb tr1 = true /\ next_id J1 = next_id J /\ next_id S1 = next_id S.
  Proof.
    intros H Hid Hok Hs. unfold track_update. rewrite (s_dq _ _ H), (s_dd _ _ H), (s_now _ _ H).
    set (tr1 := match c with Some c0 => set_max tr (Some c0) | None => tr end).
    assert (I1 : t_id tr1 = i) by (subst tr1; destruct c; exact Hid).
    assert (O1 : track_ok pc pb tr1 = true) by (subst tr1; destruct c; exact Hok).
    destruct ((_ =? 0) && (_ =? 0)).
    - refine (conj H (conj eq_refl (conj I1 (conj _ (conj eq_refl eq_refl))))). apply start_ok; assumption.
    - refine (conj _ (conj eq_refl (conj I1 (conj O1 (conj eq_refl eq_refl))))).
      destruct H as [A B C D E F G]. constructor; cbn [now tracks actions def_q def_d set_actions]; try assumption.
      + rewrite filter_app, C. cbn [filter act_own]. rewrite Hid, Nat.eqb_refl. reflexivity.
      + rewrite forallb_app, G. cbn [forallb act_wf]. rewrite Hid, Nat.eqb_refl, Hs. reflexivity.
  Qed.
  Lemma track_update_for J S tr s q d c : sim J S -> t_id tr <> i -> track_ok nc nb tr = true -> stream_ok nc nb s = true ->
    let '(J1, tr1) := track_update cfg J tr s q d c in
    sim J1 S /\ t_id tr1 = t_id tr /\ track_ok nc nb tr1 = true /\ next_id J1 = next_id J.
  Proof.
    intros H Hid Hok Hs. unfold track_update.
    set (tr1 := match c with Some c0 => set_max tr (Some c0) | None => tr end).
    assert (I1 : t_id tr1 = t_id tr) by (subst tr1; destruct c; reflexivity).
    assert (O1 : track_ok nc nb tr1 = true) by (subst tr1; destruct c; exact Hok).
    destruct ((_ =? 0) && (_ =? 0)).
    - refine (conj H (conj I1 (conj _ eq_refl))). apply start_ok; assumption.
    - refine (conj _ (conj I1 (conj O1 eq_refl))).
      assert (E : (t_id tr =? i)%nat = false) by (apply Nat.eqb_neq; exact Hid).
      destruct H as [A B C D E' F G]. constructor; cbn [now tracks actions def_q def_d set_actions]; try assumption.
      + rewrite filter_app, <- C. cbn [filter act_own]. rewrite E, app_nil_r. reflexivity.
      + rewrite forallb_app, G. cbn [forallb act_wf]. rewrite E, Hs. reflexivity.
  Qed.

  Lemma remove_next tl id : next_id (remove_track tl id) = next_id tl.
  Proof. unfold remove_track. destruct (find_track id (tracks tl)); reflexivity. Qed.
  Lemma clear_next l : forall tl, next_id (fold_left (fun tl' tr => remove_track tl' (t_id tr)) l tl) = next_id tl.
  Proof. induction l as [|x r IH]; intros tl; simpl; [reflexivity|]. rewrite IH. apply remove_next. Qed.
  Lemma clear_sim l : forall J S, sim J S ->
    sim (fold_left (fun tl' tr => remove_track tl' (t_id tr)) l J)
        (fold_left (fun tl' tr => remove_track tl' (t_id tr)) (filter is_i l) S).
  Proof.
    induction l as [|x r IH]; intros J S H; [exact H|]. cbn [filter fold_left]. unfold is_i at 1.
    destruct (t_id x =? i)%nat eqn:E.
    - apply Nat.eqb_eq in E. cbn [fold_left]. rewrite E. apply IH. apply sim_remove_own. exact H.
    - apply IH. apply sim_remove_for; [exact H|]. apply Nat.eqb_neq. exact E.
  Qed.

  Lemma new_track_ok qc qb id c rwd nm : track_ok qc qb (new_track id c rwd nm) = true.
  Proof. reflexivity. Qed.

  Lemma nid_same J S J' S' : nid_rel J S -> next_id J' = next_id J -> next_id S' = next_id S -> nid_rel J' S'.
  Proof. unfold nid_rel. intros H -> ->. exact H. Qed.

  Lemma filter_snoc_own t l : t_id t = i -> filter is_i (l ++ [t]) = filter is_i l ++ [t].
  Proof. intros H. rewrite filter_app. cbn [filter]. unfold is_i at 2. rewrite H, Nat.eqb_refl. reflexivity. Qed.
  Lemma filter_snoc_for t l : t_id t <> i -> filter is_i (l ++ [t]) = filter is_i l.
  Proof. intros H. rewrite filter_app. cbn [filter]. unfold is_i at 2. apply Nat.eqb_neq in H. rewrite H. apply app_nil_r. Qed.
  Lemma wf_snoc t l : forallb trk_wf l = true -> trk_wf t = true -> forallb trk_wf (l ++ [t]) = true.
  Proof. intros H1 H2. rewrite forallb_app, H1. cbn [forallb]. rewrite H2. reflexivity. Qed.

  Lemma exec_op_sim J S o : sim J S -> nid_rel J S -> op_wf (next_id J) o = true ->
    let J' := fst (exec_op cfg J o) in
    let S' := if op_keep (next_id J) o then fst (exec_op cfg S o) else S in
    sim J' S' /\ nid_rel J' S' /\ next_id J' = op_next (next_id J) o.
  Proof.
    intros H N W. destruct o as [|s q d c rwd nm rp|t s q d c|t| |t|t|t x|q d]; cbn [op_keep op_next].
    - (* OTick is not an exec_op *) simpl. exact (conj H (conj N eq_refl)).
    - (* OSchedule *)
      cbn [op_wf] in W. destruct nm as [n|]; [discriminate|]. cbn [exec_op]. rewrite Hmax. cbn [Z.eqb negb andb].
      destruct (next_id J =? i)%nat eqn:E.
      + apply Nat.eqb_eq in E. assert (NS : next_id S = i).
        { unfold nid_rel in N. rewrite E, Nat.ltb_irrefl in N. exact N. }
        rewrite NS, E.
        pose proof (track_update_own J S (new_track i c rwd None) s q d None H eq_refl (new_track_ok _ _ _ _ _ _) W) as U.
        destruct (track_update cfg J (new_track i c rwd None) s q d None) as [J1 tr1].
        destruct (track_update cfg S (new_track i c rwd None) s q d None) as [S1 tr2].
        destruct U as [U1 [-> [U3 [U4 [U5 U6]]]]]. cbn [fst].
        split; [|split].
        * destruct U1 as [A B C D E' F G]. constructor; cbn [now tracks actions def_q def_d]; try assumption.
          -- rewrite B. symmetry. apply filter_snoc_own. exact U3.
          -- apply wf_snoc; [exact F|]. rewrite (wf_own _ U3). exact U4.
        * unfold nid_rel. simpl. rewrite U5, U6, NS, E. replace (i <? Datatypes.S i)%nat with true by (symmetry; apply Nat.ltb_lt; lia). reflexivity.
        * simpl. rewrite U5, E. reflexivity.
      + assert (Hne : next_id J <> i) by (apply Nat.eqb_neq; exact E).
        pose proof (track_update_for J S (new_track (next_id J) c rwd None) s q d None H Hne (new_track_ok _ _ _ _ _ _) W) as U.
        destruct (track_update cfg J (new_track (next_id J) c rwd None) s q d None) as [J1 tr1].
        destruct U as [U1 [U2 [U3 U4]]]. cbn [fst]. simpl in U2.
        split; [|split].
        * destruct U1 as [A B C D E' F G]. constructor; cbn [now tracks actions def_q def_d]; try assumption.
          -- rewrite B. symmetry. apply filter_snoc_for. rewrite U2. exact Hne.
          -- apply wf_snoc; [exact F|]. rewrite wf_for by (rewrite U2; exact Hne). exact U3.
        * unfold nid_rel in *. simpl. rewrite U4, N.
          destruct (i <? next_id J)%nat eqn:L1; destruct (i <? Datatypes.S (next_id J))%nat eqn:L2; try reflexivity.
          -- apply Nat.ltb_lt in L1. apply Nat.ltb_ge in L2. lia.
          -- apply Nat.ltb_ge in L1. apply Nat.ltb_lt in L2. lia.
        * simpl. rewrite U4. reflexivity.
    - (* OUpdate *)
      cbn [op_wf] in W. cbn [exec_op]. destruct (t =? i)%nat eqn:E.
      + apply Nat.eqb_eq in E. subst t. rewrite (sim_find _ _ H).
        destruct (find_track i (tracks J)) as [tr|] eqn:Fd.
        * destruct (sim_own_track _ _ _ H Fd) as [Hid Hok].
          pose proof (track_update_own J S tr s q d c H Hid Hok W) as U.
          destruct (track_update cfg J tr s q d c) as [J1 tr1]. destruct (track_update cfg S tr s q d c) as [S1 tr2].
          destruct U as [U1 [-> [U3 [U4 [U5 U6]]]]]. cbn [fst].
          split; [apply sim_upd_own; assumption|]. split; [|exact U5]. eapply nid_same; [exact N|exact U5|exact U6].
        * assert (NE : (i <? next_id S)%nat = (i <? next_id J)%nat).
          { unfold nid_rel in N. rewrite N. destruct (i <? next_id J)%nat; [apply Nat.ltb_lt; lia|apply Nat.ltb_irrefl]. }
          rewrite NE. destruct (i <? next_id J)%nat; [|exact (conj H (conj N eq_refl))].
          pose proof (track_update_own J S (new_track i None true None) s q d c H eq_refl (new_track_ok _ _ _ _ _ _) W) as U.
          destruct (track_update cfg J (new_track i None true None) s q d c) as [J1 tr1].
          destruct (track_update cfg S (new_track i None true None) s q d c) as [S1 tr2].
          destruct U as [U1 [_ [_ [_ [U5 U6]]]]]. cbn [fst].
          split; [exact U1|]. split; [|exact U5]. eapply nid_same; [exact N|exact U5|exact U6].
      + assert (Hne : t <> i) by (apply Nat.eqb_neq; exact E).
        destruct (find_track t (tracks J)) as [tr|] eqn:Fd.
        * destruct (sim_for_track _ _ _ _ H Hne Fd) as [Hid Hok].
          pose proof (track_update_for J S tr s q d c H Hid Hok W) as U.
          destruct (track_update cfg J tr s q d c) as [J1 tr1]. destruct U as [U1 [U2 [U3 U4]]]. cbn [fst].
          split; [apply sim_upd_for; [exact U1|rewrite U2; exact Hid|exact U3]|]. split; [|exact U4].
          eapply nid_same; [exact N|exact U4|reflexivity].
        * destruct (t <? next_id J)%nat; [|exact (conj H (conj N eq_refl))].
          pose proof (track_update_for J S (new_track t None true None) s q d c H Hne (new_track_ok _ _ _ _ _ _) W) as U.
          destruct (track_update cfg J (new_track t None true None) s q d c) as [J1 tr1]. destruct U as [U1 [_ [_ U4]]]. cbn [fst].
          split; [exact U1|]. split; [|exact U4]. eapply nid_same; [exact N|exact U4|reflexivity].
    - (* OUnschedule *)
      cbn [exec_op]. destruct (t =? i)%nat eqn:E.
      + apply Nat.eqb_eq in E. subst t. rewrite (sim_find _ _ H).
        destruct (find_track i (tracks J)); cbn [fst]; [|exact (conj H (conj N eq_refl))].
        split; [apply sim_remove_own; exact H|]. split; [|apply remove_next]. eapply nid_same; [exact N|apply remove_next|apply remove_next].
      + assert (Hne : t <> i) by (apply Nat.eqb_neq; exact E).
        destruct (find_track t (tracks J)); cbn [fst]; [|exact (conj H (conj N eq_refl))].
        split; [apply sim_remove_for; assumption|]. split; [|apply remove_next]. eapply nid_same; [exact N|apply remove_next|reflexivity].
    - (* OClear *)
      cbn [exec_op fst]. rewrite (s_trk _ _ H). split; [apply clear_sim; exact H|]. split; [|apply clear_next].
      eapply nid_same; [exact N|apply clear_next|apply clear_next].
    - (* OMute *)
      cbn [exec_op]. destruct (t =? i)%nat eqn:E.
      + apply Nat.eqb_eq in E. subst t. rewrite (sim_find _ _ H).
        destruct (find_track i (tracks J)) as [tr|] eqn:Fd; cbn [fst]; [|exact (conj H (conj N eq_refl))].
        destruct (sim_own_track _ _ _ H Fd) as [Hid Hok].
        split; [apply sim_upd_own; assumption|]. split; [exact N|reflexivity].
      + assert (Hne : t <> i) by (apply Nat.eqb_neq; exact E).
        destruct (find_track t (tracks J)) as [tr|] eqn:Fd; cbn [fst]; [|exact (conj H (conj N eq_refl))].
        destruct (sim_for_track _ _ _ _ H Hne Fd) as [Hid Hok].
        split; [apply sim_upd_for; assumption|]. split; [exact N|reflexivity].
    - (* OUnmute *)
      cbn [exec_op]. destruct (t =? i)%nat eqn:E.
      + apply Nat.eqb_eq in E. subst t. rewrite (sim_find _ _ H).
        destruct (find_track i (tracks J)) as [tr|] eqn:Fd; cbn [fst]; [|exact (conj H (conj N eq_refl))].
        destruct (sim_own_track _ _ _ H Fd) as [Hid Hok].
        split; [apply sim_upd_own; assumption|]. split; [exact N|reflexivity].
      + assert (Hne : t <> i) by (apply Nat.eqb_neq; exact E).
        destruct (find_track t (tracks J)) as [tr|] eqn:Fd; cbn [fst]; [|exact (conj H (conj N eq_refl))].
        destruct (sim_for_track _ _ _ _ H Hne Fd) as [Hid Hok].
        split; [apply sim_upd_for; assumption|]. split; [exact N|reflexivity].
    - (* ONudge *)
      cbn [exec_op]. destruct (t =? i)%nat eqn:E.
      + apply Nat.eqb_eq in E. subst t. rewrite (sim_find _ _ H).
        destruct (find_track i (tracks J)) as [tr|] eqn:Fd; cbn [fst]; [|exact (conj H (conj N eq_refl))].
        destruct (sim_own_track _ _ _ H Fd) as [Hid Hok].
        split; [apply sim_upd_own; assumption|]. split; [exact N|reflexivity].
      + assert (Hne : t <> i) by (apply Nat.eqb_neq; exact E).
        destruct (find_track t (tracks J)) as [tr|] eqn:Fd; cbn [fst]; [|exact (conj H (conj N eq_refl))].
        destruct (sim_for_track _ _ _ _ H Hne Fd) as [Hid Hok].
        split; [apply sim_upd_for; assumption|]. split; [exact N|reflexivity].
    - (* OSetDefaults *)
      cbn [exec_op fst]. split; [|split; [exact N|reflexivity]].
      destruct H as [A B C D E F G]. constructor; simpl; try assumption; reflexivity.
  Qed.

  (** ** A tick creates no track (callbacks perform no operations) *)
  Lemma fire_next tl a : next_id (fst (fire_action tl a)) = next_id tl.
  Proof. destruct a; simpl; [destruct (find_track t (tracks tl))|]; reflexivity. Qed.
  Lemma phase_actions_next todo : forall tl kept calls, next_id (fst (fst (phase_actions tl todo kept calls))) = next_id tl.
  Proof.
    induction todo as [|a r IH]; intros tl kept calls; simpl; [reflexivity|].
    destruct (a_time a <=? now tl); [|apply IH].
    pose proof (fire_next tl a) as F. destruct (fire_action tl a) as [tl' c]. simpl in F. rewrite IH. exact F.
  Qed.
  Lemma finish_next tl id st : next_id (finish_track cfg tl id st) = next_id tl.
  Proof.
    unfold finish_track. destruct (find_track id (tracks tl)) as [tr|]; [|reflexivity].
    destruct (_ && _); [rewrite remove_next|]; reflexivity.
  Qed.
  Lemma tick_one_next tl id : next_id (fst (fst (tick_one cfg tl id))) = next_id tl.
  Proof.
    unfold tick_one. destruct (find_track id (tracks tl)) as [tr|]; [|reflexivity].
    destruct (track_tick_a cfg (now tl) tr (dev_calls tl)) as [[[tr1 c] n1] res].
    destruct res; simpl.
    - destruct (_ && _); [rewrite remove_next|]; reflexivity.
    - rewrite finish_next. reflexivity.
    - rewrite finish_next. reflexivity.
    - destruct (ignore_exc cfg); simpl; [rewrite remove_next|]; reflexivity.
    - specialize (Hcb cb). destruct (nth cb (cbs cfg) (CbNone, [])) as [rk ops]. simpl in Hcb. subst ops.
      cbn [exec_cb_ops cb_completes fst]. rewrite finish_next. destruct rk; try reflexivity.
      unfold end_stream. destruct (find_track id _); reflexivity.
    - reflexivity.
  Qed.
  Lemma phase_tracks_next ids : forall tl calls, next_id (fst (fst (phase_tracks cfg tl ids calls))) = next_id tl.
  Proof.
    induction ids as [|id r IH]; intros tl calls; simpl; [reflexivity|].
    pose proof (tick_one_next tl id) as T. destruct (tick_one cfg tl id) as [[tl' c] ab]. simpl in T.
    destruct ab; simpl; [exact T|]. rewrite IH. exact T.
  Qed.
  Lemma tl_tick_next tl : next_id (fst (fst (tl_tick cfg tl))) = next_id tl.
  Proof.
    unfold tl_tick. destruct (phase_noteoffs (tracks tl)) as [trs1 c1].
    pose proof (phase_actions_next (actions (set_tracks tl trs1)) (set_actions (set_tracks tl trs1) []) [] []) as PA.
    destruct (phase_actions (set_actions (set_tracks tl trs1) []) (actions (set_tracks tl trs1)) [] []) as [[tl2 kept] c3].
    simpl in PA.
    pose proof (phase_tracks_next (map t_id (tracks (set_actions tl2 (kept ++ actions tl2)))) (set_actions tl2 (kept ++ actions tl2)) []) as PT.
    destruct (phase_tracks cfg (set_actions tl2 (kept ++ actions tl2)) (map t_id (tracks (set_actions tl2 (kept ++ actions tl2)))) []) as [[tl4 c4] res].
    simpl in PT. destruct res; simpl; try (rewrite PT; exact PA).
    destruct (_ && _); simpl; rewrite PT; exact PA.
  Qed.

  (** ** Histories *)
  Fixpoint solo (k : nat) (h : list op) : list op :=
    match h with
    | [] => []
    | o :: r => (if op_keep k o then [o] else []) ++ solo (op_next k o) r
    end.
  Fixpoint hist_wf (k : nat) (h : list op) : bool :=
    match h with
    | [] => true
    | o :: r => op_wf k o && hist_wf (op_next k o) r
    end.

  Theorem merge_run h : forall J S, sim J S -> nid_rel J S -> hist_wf (next_id J) h = true ->
    all_ticks_ok cfg J h = true ->
    tick_calls cfg S (solo (next_id J) h) = map (filter own) (tick_calls cfg J h)
    /\ sim (run_state cfg J h) (run_state cfg S (solo (next_id J) h))
    /\ all_ticks_ok cfg S (solo (next_id J) h) = true.
  Proof.
    induction h as [|o r IH]; intros J S H N W A; [simpl; exact (conj eq_refl (conj H eq_refl))|].
    cbn [hist_wf] in W. apply andb_true_iff in W as [W1 W2]. cbn [solo].
    destruct o as [|s q d c rwd nm rp|t s q d c|t| |t|t|t x|q d].
    1: { (* a tick *)
      cbn [op_keep op_next app]. cbn [tick_calls run_state all_ticks_ok step] in *.
      pose proof (tl_tick_sim J S H) as T. pose proof (tl_tick_next J) as NJ. pose proof (tl_tick_next S) as NS.
      destruct (tl_tick cfg J) as [[J' cJ] rJ]. destruct (tl_tick cfg S) as [[S' cS] rS]. simpl in NJ, NS.
      apply andb_true_iff in A as [A1 A2]. destruct rJ; try discriminate.
      destruct (T eq_refl) as [-> [T2 ->]].
      assert (N' : nid_rel J' S') by (eapply nid_same; eassumption).
      rewrite <- NJ in W2. destruct (IH J' S' T2 N' W2 A2) as [I1 [I2 I3]]. rewrite NJ in *.
      cbn [app map]. rewrite I1, I3. exact (conj eq_refl (conj I2 eq_refl)). }
    all: match goal with |- context [op_keep _ ?o] =>
           pose proof (exec_op_sim J S o H N W1) as E; cbv zeta in E;
           cbn [tick_calls run_state all_ticks_ok step] in A |- *;
           destruct (exec_op cfg J o) as [J' rJ] eqn:EJ; cbn [fst] in E;
           destruct (op_keep (next_id J) o) eqn:K;
           [ cbn [app tick_calls run_state all_ticks_ok step]; destruct (exec_op cfg S o) as [S' rS] eqn:ES; cbn [fst] in E
           | cbn [app] ];
           destruct E as [E1 [E2 E3]]; rewrite <- E3 in W2 |- *;
           simpl in A; (specialize (IH _ _ E1 E2 W2 A)); destruct IH as [I1 [I2 I3]];
           cbn [app map]; rewrite ?I1, ?I3; exact (conj eq_refl (conj I2 eq_refl))
         end.
  Qed.
End Merge.

(** * The merge theorem from the empty timeline *)
(* the solo timeline starts empty; the id it will give to its only track is i, the id the track has in the
   joint run (ids are the model's names for Python object identities; they are not observable) *)
Definition tl_at (i : nat) : timeline := mkTL 0 [] [] i 0 0 0.

Definition cb_noops (cfg : config) : bool :=
  forallb (fun cb : craise * list op => match snd cb with [] => true | _ => false end) (cbs cfg).
Lemma cb_noops_nth cfg : cb_noops cfg = true -> forall cb, snd (nth cb (cbs cfg) (CbNone, [])) = [].
Proof.
  unfold cb_noops. intros H cb. rewrite forallb_forall in H.
  destruct (Nat.lt_ge_cases cb (length (cbs cfg))) as [L|L].
  - specialize (H _ (nth_In _ (CbNone, []) L)). destruct (snd (nth cb (cbs cfg) (CbNone, []))); [reflexivity|discriminate].
  - rewrite nth_overflow by exact L. reflexivity.
Qed.

(* no deliberate coupling between tracks *)
Definition uncoupled (cfg : config) : bool :=
  (match dev_fail cfg with None => true | Some _ => false end) && cb_noops cfg
  && negb (stop_when_done cfg) && (max_tracks cfg =? 0).

Theorem merge_from_empty i pc pb cfg h :
  uncoupled cfg = true -> hist_wf i pc pb 0 h = true -> all_ticks_ok cfg tl0 h = true ->
  tick_calls cfg (tl_at i) (solo i 0 h) = map (filter (call_ok pc pb)) (tick_calls cfg tl0 h)
  /\ sim i pc pb (run_state cfg tl0 h) (run_state cfg (tl_at i) (solo i 0 h))
  /\ all_ticks_ok cfg (tl_at i) (solo i 0 h) = true.
Proof.
  unfold uncoupled. intros U W A. apply andb_true_iff in U as [U U4]. apply andb_true_iff in U as [U U3].
  apply andb_true_iff in U as [U1 U2]. destruct (dev_fail cfg) eqn:D; [discriminate|].
  apply negb_true_iff in U3. apply Z.eqb_eq in U4.
  apply (merge_run i pc pb cfg D (cb_noops_nth cfg U2) U3 U4 h tl0 (tl_at i)); try assumption.
  - constructor; reflexivity.
  - unfold nid_rel. reflexivity.
Qed.

(* the record of track i and the pending actions that concern it are the same in both runs *)
Corollary merge_track_state i pc pb cfg h :
  uncoupled cfg = true -> hist_wf i pc pb 0 h = true -> all_ticks_ok cfg tl0 h = true ->
  find_track i (tracks (run_state cfg (tl_at i) (solo i 0 h))) = find_track i (tracks (run_state cfg tl0 h))
  /\ actions (run_state cfg (tl_at i) (solo i 0 h)) = filter (act_own i pc) (actions (run_state cfg tl0 h))
  /\ now (run_state cfg (tl_at i) (solo i 0 h)) = now (run_state cfg tl0 h).
Proof.
  intros U W A. destruct (merge_from_empty i pc pb cfg h U W A) as [_ [S _]].
  split; [apply (sim_find _ _ _ _ _ S)|]. split; [apply (s_act _ _ _ _ _ S)|apply (s_now _ _ _ _ _ S)].
Qed.

(** * Phase order of one tick *)
Definition is_off (c : call) : bool := match c with CNoteOff _ _ => true | _ => false end.
Definition is_event (c : call) : bool := negb (is_off c).
Definition due_offs (t : track) : list call := snd (process_note_offs t).
Definition action_calls (a : action) : list call :=
  match a with ARelease _ n c => [CNoteOff n c] | AStart _ _ _ => [] end.
(* the turns of the tracks: (id, calls made during its turn), in the order the turns are taken *)
Fixpoint track_turns (cfg : config) (tl : timeline) (ids : list nat) : list (nat * list call) :=
  match ids with
  | [] => []
  | id :: r => let '(tl', c, ab) := tick_one cfg tl id in
               (id, c) :: match ab with Some _ => [] | None => track_turns cfg tl' r end
  end.

Lemma phase_noteoffs_calls l : snd (phase_noteoffs l) = concat (map due_offs l).
Proof.
  induction l as [|x r IH]; [reflexivity|]. cbn [phase_noteoffs map concat]. unfold due_offs at 1.
  destruct (process_note_offs x) as [x' c]. destruct (phase_noteoffs r) as [r' cs]. simpl in *. rewrite IH. reflexivity.
Qed.
Lemma phase_noteoffs_ids l : map t_id (fst (phase_noteoffs l)) = map t_id l.
Proof.
  induction l as [|x r IH]; [reflexivity|]. cbn [phase_noteoffs].
  assert (P : t_id (fst (process_note_offs x)) = t_id x) by reflexivity.
  destruct (process_note_offs x) as [x' c]. destruct (phase_noteoffs r) as [r' cs]. simpl in *. rewrite IH, P. reflexivity.
Qed.
Lemma put_track_ids t' l : map t_id (put_track t' l) = map t_id l.
Proof.
  induction l as [|x r IH]; [reflexivity|]. cbn [put_track]. destruct (t_id x =? t_id t')%nat eqn:E; cbn [map].
  - apply Nat.eqb_eq in E. rewrite E. reflexivity.
  - rewrite IH. reflexivity.
Qed.
Lemma fire_action_ids tl a : map t_id (tracks (fst (fire_action tl a))) = map t_id (tracks tl) /\ now (fst (fire_action tl a)) = now tl
  /\ snd (fire_action tl a) = action_calls a.
Proof.
  destruct a as [t id s|t n c]; simpl; [|repeat split].
  destruct (find_track id (tracks tl)) as [tr|] eqn:F; simpl; [|repeat split].
  split; [|split; reflexivity]. apply put_track_ids.
Qed.
Lemma phase_actions_calls todo : forall tl kept calls,
  snd (phase_actions tl todo kept calls) = calls ++ concat (map action_calls (filter (fun a => a_time a <=? now tl) todo))
  /\ map t_id (tracks (fst (fst (phase_actions tl todo kept calls)))) = map t_id (tracks tl).
Proof.
  induction todo as [|a r IH]; intros tl kept calls; cbn [phase_actions filter]; [simpl; rewrite app_nil_r; split; reflexivity|].
  destruct (a_time a <=? now tl) eqn:E; [|apply IH].
  destruct (fire_action_ids tl a) as [F1 [F2 F3]]. destruct (fire_action tl a) as [tl' c]. simpl in F1, F2, F3.
  destruct (IH tl' kept (calls ++ c)) as [I1 I2]. rewrite I1, I2, F1, F2, F3. cbn [map concat]. rewrite <- app_assoc. split; reflexivity.
Qed.
Lemma phase_tracks_calls cfg ids : forall tl calls,
  snd (fst (phase_tracks cfg tl ids calls)) = calls ++ concat (map snd (track_turns cfg tl ids)).
Proof.
  induction ids as [|id r IH]; intros tl calls; cbn [phase_tracks track_turns]; [simpl; rewrite app_nil_r; reflexivity|].
  destruct (tick_one cfg tl id) as [[tl' c] ab]. destruct ab as [res|]; cbn [map concat snd fst].
  - rewrite app_nil_r. reflexivity.
  - rewrite IH, <- app_assoc. reflexivity.
Qed.
(* the turns are taken in the order of the list, without skipping anybody (the list ends early only if the tick aborts) *)
Lemma track_turns_order cfg ids : forall tl, exists n, map fst (track_turns cfg tl ids) = firstn n ids.
Proof.
  induction ids as [|id r IH]; intros tl; [exists O; reflexivity|]. cbn [track_turns].
  destruct (tick_one cfg tl id) as [[tl' c] ab]. destruct ab as [res|].
  - exists 1%nat. reflexivity.
  - destruct (IH tl') as [n Hn]. exists (S n). cbn [map fst firstn]. rewrite Hn. reflexivity.
Qed.

(* a track's turn makes no note-off call *)
Lemma perform_voices_events fail nowT cur vs : forall n offs calls, forallb is_event calls = true ->
  forallb is_event (snd (fst (fst (perform_voices fail nowT cur vs n offs calls)))) = true.
Proof.
  induction vs as [|v r IH]; intros n offs calls H; simpl; [exact H|].
  destruct (voice_on v); [|apply IH; exact H]. destruct (dev_emit fail n); [|exact H].
  apply IH. rewrite forallb_app, H. reflexivity.
Qed.
Lemma tick_one_events cfg tl id : forallb is_event (snd (fst (tick_one cfg tl id))) = true.
Proof.
  unfold tick_one. destruct (find_track id (tracks tl)) as [tr|]; [|reflexivity].
  assert (A : forallb is_event (snd (fst (fst (track_tick_a cfg (now tl) tr (dev_calls tl))))) = true).
  { unfold track_tick_a. destruct (negb (t_started tr)); [reflexivity|]. destruct (t_next tr <=? t_cur tr); [|reflexivity].
    destruct (pull_loop (fuel cfg) tr None) as [[[e|]| | |] tr']; try reflexivity.
    unfold perform_event. destruct (negb (e_active e)); [reflexivity|]. destruct (t_muted tr'); [reflexivity|].
    destruct (e_kind e) as [vs|cb|c v ch|pr ch].
    - pose proof (perform_voices_events (dev_fail cfg) (now tl) (t_cur tr') vs (dev_calls tl) (t_offs tr') [] eq_refl) as P.
      destruct (perform_voices (dev_fail cfg) (now tl) (t_cur tr') vs (dev_calls tl) (t_offs tr') []) as [[[o c] n'] ok]. exact P.
    - reflexivity.
    - destruct (dev_emit (dev_fail cfg) (dev_calls tl)); reflexivity.
    - destruct (dev_emit (dev_fail cfg) (dev_calls tl)); reflexivity. }
  destruct (track_tick_a cfg (now tl) tr (dev_calls tl)) as [[[tr1 c] n1] res]. simpl in A.
  destruct res; simpl; try exact A.
  - destruct (ignore_exc cfg); exact A.
  - destruct (nth cb (cbs cfg) (CbNone, [])) as [rk ops]. exact A.
Qed.
Lemma track_turns_events cfg ids : forall tl, forallb is_event (concat (map snd (track_turns cfg tl ids))) = true.
Proof.
  induction ids as [|id r IH]; intros tl; [reflexivity|]. cbn [track_turns].
  pose proof (tick_one_events cfg tl id) as T. destruct (tick_one cfg tl id) as [[tl' c] ab]. simpl in T.
  destruct ab; cbn [map concat snd]; rewrite forallb_app, T; [reflexivity|apply IH].
Qed.
Lemma due_offs_off l : forallb is_off (concat (map due_offs l)) = true.
Proof.
  induction l as [|x r IH]; [reflexivity|]. cbn [map concat]. rewrite forallb_app, IH, andb_true_r.
  unfold due_offs, process_note_offs. cbn [snd]. induction (filter _ _) as [|y s IHs]; [reflexivity|exact IHs].
Qed.
Lemma action_calls_off l : forallb is_off (concat (map action_calls l)) = true.
Proof. induction l as [|x r IH]; [reflexivity|]. cbn [map concat]. rewrite forallb_app, IH. destruct x; reflexivity. Qed.

Theorem tl_tick_phases cfg tl :
  let '(_, calls, _) := tl_tick cfg tl in
  exists tl3,
    calls = concat (map due_offs (tracks tl))
            ++ concat (map action_calls (filter (fun a => a_time a <=? now tl) (actions tl)))
            ++ concat (map snd (track_turns cfg tl3 (map t_id (tracks tl))))
    /\ map t_id (tracks tl3) = map t_id (tracks tl).
Proof.
  unfold tl_tick. pose proof (phase_noteoffs_calls (tracks tl)) as N. pose proof (phase_noteoffs_ids (tracks tl)) as NI.
  destruct (phase_noteoffs (tracks tl)) as [trs1 c1]. simpl in N, NI.
  destruct (phase_actions_calls (actions (set_tracks tl trs1)) (set_actions (set_tracks tl trs1) []) [] []) as [A AI].
  destruct (phase_actions (set_actions (set_tracks tl trs1) []) (actions (set_tracks tl trs1)) [] []) as [[tl2 kept] c3].
  simpl in A, AI.
  pose proof (phase_tracks_calls cfg (map t_id (tracks (set_actions tl2 (kept ++ actions tl2)))) (set_actions tl2 (kept ++ actions tl2)) []) as T.
  destruct (phase_tracks cfg (set_actions tl2 (kept ++ actions tl2)) (map t_id (tracks (set_actions tl2 (kept ++ actions tl2)))) []) as [[tl4 c4] res].
  simpl in T. rewrite AI, NI in T.
  assert (G : exists tl3, c1 ++ c3 ++ c4 = concat (map due_offs (tracks tl))
            ++ concat (map action_calls (filter (fun a => a_time a <=? now tl) (actions tl)))
            ++ concat (map snd (track_turns cfg tl3 (map t_id (tracks tl)))) /\ map t_id (tracks tl3) = map t_id (tracks tl)).
  { exists (set_actions tl2 (kept ++ actions tl2)). rewrite N, A, T. split; [reflexivity|]. simpl. rewrite AI, NI. reflexivity. }
  destruct res; try exact G. destruct (_ && _); exact G.
Qed.

(* hence: inside one tick every note-off call precedes every other call *)
Theorem tick_offs_first cfg tl :
  exists offs evs, snd (fst (tl_tick cfg tl)) = offs ++ evs /\ forallb is_off offs = true /\ forallb is_event evs = true.
Proof.
  pose proof (tl_tick_phases cfg tl) as P. destruct (tl_tick cfg tl) as [[tl' calls] res]. destruct P as [tl3 [E _]].
  exists (concat (map due_offs (tracks tl)) ++ concat (map action_calls (filter (fun a => a_time a <=? now tl) (actions tl)))),
         (concat (map snd (track_turns cfg tl3 (map t_id (tracks tl))))).
  simpl. rewrite E, <- app_assoc. split; [reflexivity|]. split.
  - rewrite forallb_app, due_offs_off, action_calls_off. reflexivity.
  - apply track_turns_events.
Qed.

(* legato: the release of a note and the onset of the same note on one tick come in that order *)
Theorem legato_order cfg tl n v c :
  In (CNoteOn n v c) (snd (fst (tl_tick cfg tl))) -> In (CNoteOff n c) (snd (fst (tl_tick cfg tl))) ->
  exists a b, snd (fst (tl_tick cfg tl)) = a ++ b /\ In (CNoteOff n c) a /\ In (CNoteOn n v c) b
              /\ ~ In (CNoteOff n c) b /\ ~ In (CNoteOn n v c) a.
Proof.
  destruct (tick_offs_first cfg tl) as [a [b [E [Ha Hb]]]]. rewrite E. intros Hon Hoff.
  rewrite forallb_forall in Ha, Hb.
  assert (Na : ~ In (CNoteOn n v c) a) by (intros X; specialize (Ha _ X); discriminate).
  assert (Nb : ~ In (CNoteOff n c) b) by (intros X; specialize (Hb _ X); discriminate).
  exists a, b. split; [reflexivity|]. apply in_app_or in Hon, Hoff.
  destruct Hon as [X|X]; [contradiction|]. destruct Hoff as [Y|Y]; [|contradiction]. repeat split; assumption.
Qed.

(* Sched/GlobalsPat.v — globals whose VALUES are patterns (isobar/globals/globals.py, isobar/pattern/static.py PGlobals).

   Globals.set(key, value):  Globals.dict[key] = value  - unconditionally, whatever the key held before and whatever the
                             new value is (a number, a Pattern object); the dict form sets several keys in order.
   Globals.get(key):         Pattern.value(Globals.dict[key]) - a number is returned as it is, a Pattern object is asked for
                             its next value (which advances THAT object: it is shared by everybody who reads it, under
                             whatever name); KeyError when the key was never set.
   PGlobals(key, default).__next__: Globals.get(key), the default on KeyError.

   A pattern object is a finite or cyclic sequence with a cursor (Sched/Static.v's seq_next); objects are named by their
   index in the object table (object identity: the same object may be stored under two names, or stored again later with
   the state it has then).  Extends the scalar model of Sched/Static.v (gset / gget).  No proofs in this file. *)
From Isobar Require Import Base.Prelude Sched.Static.

Inductive gval := GScalar (v : Z) | GPat (p : nat).
Record pobj := mkPobj { po_vals : list Z; po_pos : nat; po_cyc : bool }.
Record gstore := mkGS { gs_map : list (Z * gval); gs_objs : list pobj }.     (* latest assignment first *)

Definition pobj0 (vals : list Z) (cyc : bool) : pobj := mkPobj vals 0 cyc.
Definition gstore0 (objs : list pobj) : gstore := mkGS [] objs.

Fixpoint glookup (k : Z) (m : list (Z * gval)) : option gval :=
  match m with [] => None | (k', v) :: r => if k' =? k then Some v else glookup k r end.

(* Globals.set(k, v) *)
Definition gpset (k : Z) (v : gval) (st : gstore) : gstore := mkGS ((k, v) :: gs_map st) (gs_objs st).

Fixpoint set_nth {A} (n : nat) (x : A) (l : list A) : list A :=
  match l, n with
  | [], _ => []
  | _ :: r, O => x :: r
  | y :: r, S n' => y :: set_nth n' x r
  end.

Inductive gout := GVal (v : Z) | GStop | GNoObj.
(* next(object p) *)
Definition pnext (p : nat) (objs : list pobj) : gout * list pobj :=
  match nth_error objs p with
  | None => (GNoObj, objs)
  | Some o => match seq_next (po_vals o) (po_pos o) (po_cyc o) with
              | Some (v, pos') => (GVal v, set_nth p (mkPobj (po_vals o) pos' (po_cyc o)) objs)
              | None => (GStop, objs)                 (* StopIteration: the reading track ends *)
              end
  end.

(* PGlobals(k, d).__next__ *)
Definition gpread (k d : Z) (st : gstore) : gout * gstore :=
  match glookup k (gs_map st) with
  | None => (GVal d, st)
  | Some (GScalar v) => (GVal v, st)
  | Some (GPat p) => let '(o, objs') := pnext p (gs_objs st) in (o, mkGS (gs_map st) objs')
  end.

(** * Programs: what the tracks of a timeline do to the globals, in the order the timeline makes them do it *)
Inductive gact := GASet (k : Z) (v : gval) | GARead (k d : Z).
Fixpoint gp_run (st : gstore) (p : list gact) : list (option gout) :=
  match p with
  | [] => []
  | GASet k v :: r => None :: gp_run (gpset k v st) r
  | GARead k d :: r => let '(o, st') := gpread k d st in Some o :: gp_run st' r
  end.
Fixpoint gp_state (st : gstore) (p : list gact) : gstore :=
  match p with
  | [] => st
  | GASet k v :: r => gp_state (gpset k v st) r
  | GARead k d :: r => gp_state (snd (gpread k d st)) r
  end.

(* the value last set for k by a program (None: never set) *)
Fixpoint latest (k : Z) (p : list gact) : option gval :=
  match p with
  | [] => None
  | GASet k' v :: r => match latest k r with Some x => Some x | None => if k' =? k then Some v else None end
  | GARead _ _ :: r => latest k r
  end.
(* how many times object q has been asked for a value by a program that starts in store st *)
Fixpoint reads_of (q : nat) (st : gstore) (p : list gact) : nat :=
  match p with
  | [] => O
  | GASet k v :: r => reads_of q (gpset k v st) r
  | GARead k d :: r =>
      (match glookup k (gs_map st) with Some (GPat p') => if (p' =? q)%nat then 1 else 0 | _ => 0 end
       + reads_of q (snd (gpread k d st)) r)%nat
  end.

Definition gout_eqb (a b : option gout) : bool :=
  match a, b with
  | None, None => true
  | Some (GVal x), Some (GVal y) => x =? y
  | Some GStop, Some GStop | Some GNoObj, Some GNoObj => true
  | _, _ => false
  end.

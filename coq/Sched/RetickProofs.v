(* Sched/RetickProofs.v — C01 for histories in which (e) the tick length changes between ticks and
   (f) events nudge their own track from inside their own performance.

   Setting: a timeline whose only track [id] has been started and whose stream yields ev 0, ev 1, ... (at least
   L of them); during tick i configuration [cf i] is in force (any tick length tau (cf i) > 0: the resolution may be
   re-configured before every tick); event k, when performed, nudges its own track by nx k (0 for events that are
   not self-nudging actions).  The statements are about Timeline.tick itself ([tl_tick]: note-off phase, action
   phase, track phase with the callback run re-entrantly by [tick_one], clock), not about a track in isolation.

   Main result [onset_iff_v]: on tick j the event handed to perform_event is ev k  iff
        Tm cf j - gap cf j  <  sh + NX ev nx k  <=  Tm cf j
   i.e. tick j is the first tick at or after (start + exact sum of the preceding durations and self-nudges), where
   the time of a tick is the exact sum of the lengths of the ticks before it. *)
From Isobar Require Import Base.Prelude Sched.Model Sched.Obs Sched.OnsetProofs Sched.TimeProofs Sched.Retick.
#[local] Arguments Z.mul : simpl never.
#[local] Arguments Z.add : simpl never.
#[local] Arguments Z.sub : simpl never.
#[local] Arguments Z.of_nat : simpl never.

(** * perform_event: what it keeps, and when it runs a callback *)
Lemma perform_keeps2 fail nowT tr e n :
  let '(tr', _, _, _) := perform_event fail nowT tr e n in
  t_id tr' = t_id tr /\ t_muted tr' = t_muted tr /\ t_finished tr' = t_finished tr /\ t_rwd tr' = t_rwd tr.
Proof.
  unfold perform_event. destruct (negb (e_active e)); [repeat split|].
  destruct (t_muted tr) eqn:Em; [repeat split; exact Em|].
  destruct (e_kind e) as [vs|cb|c v ch|pr ch].
  - destruct (perform_voices fail nowT (t_cur tr) vs n (t_offs tr) []) as [[[offs calls] n'] ok].
    repeat split; exact Em.
  - repeat split; exact Em.
  - destruct (dev_emit fail n); repeat split; exact Em.
  - destruct (dev_emit fail n); repeat split; exact Em.
Qed.

(* the outcome is PfCallback cb exactly for an active action event on an unmuted track, and then the track is untouched *)
Lemma perform_cases nowT tr e n : t_muted tr = false ->
  let '(tr', _, _, pf) := perform_event None nowT tr e n in
  match pf with
  | PfOk => match e_kind e with KAction _ => e_active e = false | _ => True end
  | PfCallback cb => e_active e = true /\ e_kind e = KAction cb /\ tr' = tr
  | PfRaise => False
  end.
Proof.
  intros Hm. unfold perform_event. destruct (e_active e) eqn:Ea; cbn [negb].
  2: { destruct (e_kind e); auto. }
  rewrite Hm. destruct (e_kind e) as [vs|cb|c v ch|pr ch] eqn:Ek.
  - pose proof (voices_ok nowT (t_cur tr) vs n (t_offs tr) []) as H.
    destruct (perform_voices None nowT (t_cur tr) vs n (t_offs tr) []) as [[[offs calls] n'] ok].
    simpl in H. subst ok. exact I.
  - auto.
  - simpl. exact I.
  - simpl. exact I.
Qed.

(** * Timeline.tick on a timeline with a single track and no pending action *)
Lemma upd_single nw t0 t1 nid dq dd dc : t_id t0 = t_id t1 ->
  upd_track (mkTL nw [t0] [] nid dq dd dc) t1 = mkTL nw [t1] [] nid dq dd dc.
Proof.
  intros H. unfold upd_track, set_tracks. cbn [tracks put_track now actions next_id def_q def_d dev_calls].
  rewrite H, Nat.eqb_refl. reflexivity.
Qed.

(* second half of Track.tick for a track that goes on: the clock advances, the track stays *)
Lemma finish_single cfg nw t nid dq dd dc id : t_id t = id -> t_finished t = false ->
  finish_track cfg (mkTL nw [t] [] nid dq dd dc) id false
  = mkTL nw [set_cur t (t_cur t + tau cfg)] [] nid dq dd dc.
Proof.
  intros Hid Hf. unfold finish_track. cbn [tracks find_track]. rewrite Hid, Nat.eqb_refl.
  unfold track_tick_b. cbn [andb].
  replace (t_finished (set_cur t (t_cur t + tau cfg))) with (t_finished t) by reflexivity.
  rewrite Hf. cbn [andb]. apply upd_single. reflexivity.
Qed.

(* the track's turn: Track.tick's try-block, then (re-entrantly) the callback of an action event, then the clock *)
Lemma tick_one_single cfg nw tr0 nid dq dd dc id tr1 c n' res x :
  t_id tr0 = id ->
  track_tick_a cfg nw tr0 dc = (tr1, c, n', res) ->
  t_id tr1 = id -> t_finished tr1 = false ->
  (res = TNormal /\ x = 0
   \/ exists cb, res = TCallback cb /\ nth cb (cbs cfg) (CbNone, []) = (CbNone, [ONudge id x])) ->
  tick_one cfg (mkTL nw [tr0] [] nid dq dd dc) id
  = (mkTL nw [set_cur (set_next tr1 (t_next tr1 + x)) (t_cur tr1 + tau cfg)] [] nid dq dd n', c, None).
Proof.
  intros Hid0 Ha Hid Hfin Hres.
  unfold tick_one. cbn [tracks find_track]. rewrite Hid0, Nat.eqb_refl.
  cbn [now dev_calls]. rewrite Ha.
  assert (E1 : set_dev (upd_track (mkTL nw [tr0] [] nid dq dd dc) tr1) n' = mkTL nw [tr1] [] nid dq dd n').
  { rewrite upd_single by congruence. reflexivity. }
  rewrite E1.
  destruct Hres as [[-> ->]|[cb [-> Hcb]]].
  - rewrite (finish_single cfg nw tr1 nid dq dd n' id Hid Hfin).
    destruct tr1; unfold set_cur, set_next; simpl.
    rewrite Z.add_0_r. reflexivity.
  - rewrite Hcb. cbn [exec_cb_ops exec_op tracks find_track]. rewrite Hid, Nat.eqb_refl.
    rewrite upd_single by reflexivity.
    rewrite (finish_single cfg nw (set_next tr1 (t_next tr1 + x)) nid dq dd n' id); [reflexivity|exact Hid|exact Hfin].
Qed.

(* Timeline.tick: note-offs of the track, no action to fire, the track's turn, the timeline's clock *)
Lemma tl_tick_single cfg tl tr tr1 c n' res x :
  tracks tl = [tr] -> actions tl = [] ->
  track_tick_a cfg (now tl) (fst (process_note_offs tr)) (dev_calls tl) = (tr1, c, n', res) ->
  t_id tr1 = t_id tr -> t_finished tr1 = false ->
  (res = TNormal /\ x = 0
   \/ exists cb, res = TCallback cb /\ nth cb (cbs cfg) (CbNone, []) = (CbNone, [ONudge (t_id tr) x])) ->
  exists calls, tl_tick cfg tl =
    (mkTL (now tl + tau cfg) [set_cur (set_next tr1 (t_next tr1 + x)) (t_cur tr1 + tau cfg)] []
          (next_id tl) (def_q tl) (def_d tl) n', calls, ROk).
Proof.
  intros Htr Hact Ha Hid Hfin Hres.
  destruct tl as [nw trs acts nid dq dd dc]. simpl in Htr, Hact, Ha |- *. subst trs acts.
  unfold tl_tick. cbn [tracks phase_noteoffs]. unfold process_note_offs.
  unfold set_actions, set_tracks.
  cbn [actions tracks phase_actions app map now next_id def_q def_d dev_calls t_id set_offs phase_tracks].
  match type of Ha with track_tick_a _ _ ?t _ = _ =>
    rewrite (tick_one_single cfg nw t nid dq dd dc (t_id tr) tr1 c n' res x eq_refl Ha Hid Hfin Hres) end.
  cbn [tracks andb now actions next_id def_q def_d dev_calls]. eexists. reflexivity.
Qed.

(** * The schedule of tick lengths *)
Section Clock.
  Variable cf : nat -> config.
  Hypothesis Htau : forall j, 0 < tau (cf j).

  Lemma gap_pos j : 0 < gap cf j.
  Proof. destruct j; simpl; apply Htau. Qed.
  Lemma Tm_prev j : Tm cf (S j) - gap cf (S j) = Tm cf j.
  Proof. simpl. lia. Qed.
  Lemma Tm_mono a b : (a <= b)%nat -> Tm cf a <= Tm cf b.
  Proof. induction 1 as [|b Hab IH]; [lia|]. simpl. specialize (Htau b). lia. Qed.
  Lemma Tm_prev_le j : Tm cf j - gap cf j <= Tm cf j.
  Proof. pose proof (gap_pos j). lia. Qed.
End Clock.

Section Retick.
  Variable cf : nat -> config.          (* configuration in force during tick j *)
  Variable ev : nat -> event.
  Variable nx : nat -> Z.               (* event k nudges its own track by nx k while it is performed *)
  Variable L : nat.                     (* the stream is known to deliver at least L events *)
  Variable id : nat.                    (* the track *)
  Variable c0 : Z.                      (* the track's clock at the beginning of tick 0 *)
  Variable sh : Z.                      (* next_event_time - current_time at that moment *)
  Hypothesis Htau : forall j, 0 < tau (cf j).
  Hypothesis Hfuel : forall j, (2 <= fuel (cf j))%nat.
  Hypothesis Hfail : forall j, dev_fail (cf j) = None.
  (* every event lasts at least one tick at every resolution in use, also after its own nudge *)
  Hypothesis Hdur : forall k j, (k < L)%nat -> tau (cf j) <= e_dur (ev k) /\ tau (cf j) <= e_dur (ev k) + nx k.
  Hypothesis Hself : forall k, (k < L)%nat -> self_nudge cf id ev nx k.

  Notation NXk := (NX ev nx).

  Lemma Hdur_gap k j : (k < L)%nat -> gap cf j <= e_dur (ev k) /\ gap cf j <= e_dur (ev k) + nx k.
  Proof. intros Hk. destruct j; simpl; apply Hdur; exact Hk. Qed.

  Lemma NX_le a b : (a <= b)%nat -> (b <= L)%nat -> NXk a <= NXk b.
  Proof.
    induction 1 as [|b Hab IH]; intros Hb; [lia|].
    simpl. destruct (Hdur b 0%nat ltac:(lia)) as [_ H]. specialize (Htau 0%nat). specialize (IH ltac:(lia)). lia.
  Qed.
  Lemma NX_lt a b j : (a < b)%nat -> (b <= L)%nat -> NXk a + gap cf j <= NXk b.
  Proof.
    intros Hab Hb. pose proof (NX_le (S a) b ltac:(lia) Hb) as H. simpl in H.
    destruct (Hdur_gap a j ltac:(lia)) as [_ H2]. lia.
  Qed.

  Lemma fed_step' s p : fed ev L s p -> (p < L)%nat ->
    fst (pull s) = REvent (ev p) /\ fed ev L (snd (pull s)) (S p).
  Proof.
    intros H Hp. split.
    - specialize (H 0%nat). rewrite Nat.add_0_r in H. apply H. lia.
    - intros i Hi. specialize (H (S i)). simpl in H. rewrite <- plus_n_Sm in H. apply H. lia.
  Qed.

  Lemma gne_event' tr p : fed ev L (t_stream tr) p -> (p < L)%nat -> (t_max tr = None \/ t_max tr = Some 0) ->
    get_next_event tr = (GEvent (ev p), set_count (set_stream tr (snd (pull (t_stream tr)))) (t_count tr + 1)).
  Proof.
    intros Hf Hp Hm. unfold get_next_event. rewrite (unb _ Hm).
    destruct (fed_step' _ _ Hf Hp) as [E _].
    destruct (pull (t_stream tr)) as [r s'] eqn:Epull. simpl in E. subst r. reflexivity.
  Qed.

  (** the try-block of Track.tick when the next event is due: exactly one event is pulled and performed;
      it is either an ordinary event (no nudge) or an active action whose callback nudges this very track *)
  Lemma tick_a_due cfg tr p nowT n :
    (2 <= fuel cfg)%nat -> dev_fail cfg = None ->
    t_started tr = true -> t_muted tr = false -> fed ev L (t_stream tr) p -> (p < L)%nat ->
    (t_max tr = None \/ t_max tr = Some 0) ->
    t_next tr <= t_cur tr -> t_cur tr < t_next tr + e_dur (ev p) ->
    tick_event cfg tr = Some (ev p) /\
    exists tr1 calls n' res, track_tick_a cfg nowT tr n = (tr1, calls, n', res) /\
      (res = TNormal /\ nx p = 0
       \/ exists cb, res = TCallback cb /\ forall j, nth cb (cbs (cf j)) (CbNone, []) = (CbNone, [ONudge id (nx p)])) /\
      t_id tr1 = t_id tr /\ t_started tr1 = true /\ t_muted tr1 = false /\ t_finished tr1 = t_finished tr /\
      t_cur tr1 = t_cur tr /\ t_next tr1 = t_next tr + e_dur (ev p) /\ fed ev L (t_stream tr1) (S p) /\
      t_max tr1 = t_max tr /\ t_count tr1 = t_count tr + 1.
  Proof.
    intros Hfu Hfl Hst Hmu Hfed Hp Hmax Hdue Hnext.
    assert (D1 : (t_next tr <=? t_cur tr) = true) by lia.
    pose proof (gne_event' tr p Hfed Hp Hmax) as G.
    destruct (fed_step' _ _ Hfed Hp) as [_ Hfed'].
    set (trg := set_count (set_stream tr (snd (pull (t_stream tr)))) (t_count tr + 1)) in *.
    assert (D2 : (t_next trg + e_dur (ev p) <=? t_cur trg) = false) by (unfold trg; simpl; lia).
    pose proof (pull_loop_once (fuel cfg) tr (ev p) trg Hfu D1 G D2) as Hpl.
    set (trp := set_next trg (t_next trg + e_dur (ev p))) in *.
    split.
    - unfold tick_event. rewrite Hst, D1, Hpl. reflexivity.
    - unfold track_tick_a. rewrite Hst. cbn [negb]. rewrite D1, Hpl, Hfl.
      assert (Hmp : t_muted trp = false) by exact Hmu.
      pose proof (perform_keeps None nowT trp (ev p) n) as K.
      pose proof (perform_keeps2 None nowT trp (ev p) n) as K'.
      pose proof (perform_cases nowT trp (ev p) n Hmp) as C.
      destruct (perform_event None nowT trp (ev p) n) as [[[tr2 calls] n'] pf].
      destruct K as [K1 [K2 [K3 [K4 [K5 K6]]]]]. destruct K' as [K7 [K8 [K9 K10]]].
      exists tr2, calls, n'.
      pose proof (Hself p Hp) as Sn. unfold self_nudge in Sn.
      assert (Hfields : t_id tr2 = t_id tr /\ t_started tr2 = true /\ t_muted tr2 = false /\ t_finished tr2 = t_finished tr /\
                t_cur tr2 = t_cur tr /\ t_next tr2 = t_next tr + e_dur (ev p) /\ fed ev L (t_stream tr2) (S p) /\
                t_max tr2 = t_max tr /\ t_count tr2 = t_count tr + 1).
      { rewrite K1, K2, K3, K4, K5, K6, K7, K8, K9. unfold trp, trg; simpl. repeat split; auto. }
      destruct pf as [| |cb].
      + exists TNormal. split; [reflexivity|]. split; [|exact Hfields].
        left. split; [reflexivity|]. destruct (e_kind (ev p)); try exact Sn. rewrite C in Sn. exact Sn.
      + destruct C.
      + destruct C as [Ca [Ck _]]. exists (TCallback cb). split; [reflexivity|]. split; [|exact Hfields].
        right. exists cb. split; [reflexivity|]. rewrite Ck, Ca in Sn. exact Sn.
  Qed.

  (** invariant at the beginning of tick j, p events pulled so far *)
  Record TrInv (j p : nat) (tr : track) : Prop := {
    v_id : t_id tr = id;
    v_started : t_started tr = true;
    v_muted : t_muted tr = false;
    v_fin : t_finished tr = false;
    v_cur : t_cur tr = c0 + Tm cf j;
    v_next : t_next tr = c0 + sh + NXk p;
    v_fed : fed ev L (t_stream tr) p;
    v_max : t_max tr = None \/ t_max tr = Some 0;
    v_le : (p <= L)%nat;
    v_lo : Tm cf j - gap cf j < sh + NXk p;
    v_hi : p = 0%nat \/ sh + NXk (p - 1) <= Tm cf j - gap cf j }.

  (* the single-track timeline *)
  Definition TInv (j p : nat) (tl : timeline) (tr : track) : Prop :=
    tracks tl = [tr] /\ actions tl = [] /\ TrInv j p tr.

  (** one Timeline.tick when the next event is due: it is performed, its own nudge is kept *)
  Lemma tl_tick_due j p tl tr : TInv j p tl tr -> (p < L)%nat -> sh + NXk p <= Tm cf j ->
    tick_event (cf j) tr = Some (ev p) /\
    exists tl' calls tr', tl_tick (cf j) tl = (tl', calls, ROk) /\ now tl' = now tl + tau (cf j) /\
      TInv (S j) (S p) tl' tr' /\ t_count tr' = t_count tr + 1.
  Proof.
    intros [Htr [Hact I]] Hp Hdue. destruct I.
    destruct (Hdur_gap p j Hp) as [Hd1 Hd2].
    set (tr0 := fst (process_note_offs tr)).
    assert (A : tick_event (cf j) tr0 = Some (ev p) /\
      exists tr1 calls n' res, track_tick_a (cf j) (now tl) tr0 (dev_calls tl) = (tr1, calls, n', res) /\
      (res = TNormal /\ nx p = 0
       \/ exists cb, res = TCallback cb /\ forall j, nth cb (cbs (cf j)) (CbNone, []) = (CbNone, [ONudge id (nx p)])) /\
      t_id tr1 = t_id tr0 /\ t_started tr1 = true /\ t_muted tr1 = false /\ t_finished tr1 = t_finished tr0 /\
      t_cur tr1 = t_cur tr0 /\ t_next tr1 = t_next tr0 + e_dur (ev p) /\ fed ev L (t_stream tr1) (S p) /\
      t_max tr1 = t_max tr0 /\ t_count tr1 = t_count tr0 + 1).
    { apply tick_a_due; unfold tr0; simpl; auto; lia. }
    destruct A as [Hte [tr1 [calls [n' [res [Ha [Hres [F1 [F2 [F3 [F4 [F5 [F6 [F7 [F8 F9]]]]]]]]]]]]]]].
    unfold tr0 in F1, F4, F5, F6, F8, F9; simpl in F1, F4, F5, F6, F8, F9.
    split.
    { apply (tick_a_due (cf j) tr p (now tl) (dev_calls tl)); auto; lia. }
    assert (Hres' : res = TNormal /\ nx p = 0
       \/ exists cb, res = TCallback cb /\ nth cb (cbs (cf j)) (CbNone, []) = (CbNone, [ONudge (t_id tr) (nx p)])).
    { destruct Hres as [H|[cb [H1 H2]]]; [left; exact H|right; exists cb; split; [exact H1|]]. rewrite v_id0. apply H2. }
    destruct (tl_tick_single (cf j) tl tr tr1 calls n' res (nx p) Htr Hact Ha F1 ltac:(congruence) Hres') as [cs E].
    eexists _, cs, _. split; [exact E|]. split; [reflexivity|]. split.
    - split; [reflexivity|]. split; [reflexivity|]. constructor; simpl; auto; try congruence; try lia.
      right. replace (p - 0)%nat with p by lia. lia.
    - simpl. exact F9.
  Qed.

  (** one Timeline.tick when nothing is due: no event is performed, only the clocks move *)
  Lemma tl_tick_idle j p tl tr : TInv j p tl tr -> Tm cf j < sh + NXk p ->
    tick_event (cf j) tr = None /\
    exists tl' calls tr', tl_tick (cf j) tl = (tl', calls, ROk) /\ now tl' = now tl + tau (cf j) /\
      TInv (S j) p tl' tr' /\ t_count tr' = t_count tr.
  Proof.
    intros [Htr [Hact I]] Hnd. destruct I.
    assert (D1 : (t_next tr <=? t_cur tr) = false) by lia.
    split.
    - unfold tick_event. rewrite v_started0, D1. reflexivity.
    - set (tr0 := fst (process_note_offs tr)).
      assert (Ha : track_tick_a (cf j) (now tl) tr0 (dev_calls tl) = (tr0, [], dev_calls tl, TNormal)).
      { unfold track_tick_a, tr0; simpl. rewrite v_started0. cbn [negb]. rewrite D1. reflexivity. }
      destruct (tl_tick_single (cf j) tl tr tr0 [] (dev_calls tl) TNormal 0 Htr Hact Ha eq_refl v_fin0
                  (or_introl (conj eq_refl eq_refl))) as [cs E].
      eexists _, cs, _. split; [exact E|]. split; [reflexivity|]. split.
      + split; [reflexivity|]. split; [reflexivity|]. unfold tr0.
        constructor; simpl; auto; try lia.
        destruct v_hi0 as [->|H]; [left; reflexivity|right]. pose proof (Tm_prev_le cf Htau j). lia.
      + reflexivity.
  Qed.

  (** the state after j ticks, whatever the tick lengths were *)
  Theorem run_inv_v tl0' tr0 : TInv 0 0 tl0' tr0 ->
    forall j, Tm cf j - gap cf j < sh + NXk L ->
    exists p tr, TInv j p (ticks_v cf tl0' 0 j) tr /\ t_count tr = t_count tr0 + Z.of_nat p
                 /\ now (ticks_v cf tl0' 0 j) = now tl0' + Tm cf j.
  Proof.
    intros I0 jj Hh.
    assert (G : forall j j0 p0 tl tr, TInv j0 p0 tl tr ->
              Tm cf (j0 + j) - gap cf (j0 + j) < sh + NXk L ->
              exists p tr', TInv (j0 + j) p (ticks_v cf tl j0 j) tr'
                        /\ t_count tr' = t_count tr + Z.of_nat p - Z.of_nat p0
                        /\ now (ticks_v cf tl j0 j) = now tl + Tm cf (j0 + j) - Tm cf j0).
    { intros j. induction j as [|j IH]; intros j0 p0 tl tr I Hh'.
      - exists p0, tr. rewrite Nat.add_0_r. simpl. split; [exact I|]. split; lia.
      - cbn [ticks_v].
        assert (Hh2 : Tm cf (S j0 + j) - gap cf (S j0 + j) < sh + NXk L)
          by (replace (S j0 + j)%nat with (j0 + S j)%nat by lia; exact Hh').
        destruct (Z_le_gt_dec (sh + NXk p0) (Tm cf j0)) as [Hdue|Hnd].
        + assert (Hp : (p0 < L)%nat).
          { destruct (Nat.lt_ge_cases p0 L) as [H|H]; [exact H|]. exfalso.
            destruct I as [_ [_ I]]. pose proof (v_le _ _ _ I). assert (p0 = L) by lia. subst p0.
            pose proof (Tm_mono cf Htau j0 (j0 + j) ltac:(lia)) as M.
            replace (j0 + S j)%nat with (S (j0 + j)) in Hh' by lia. rewrite (Tm_prev cf Htau) in Hh'. lia. }
          destruct (tl_tick_due j0 p0 tl tr I Hp Hdue) as [_ [tl' [cs [tr' [E [Hnow [I' Hc]]]]]]].
          rewrite E. cbn [fst].
          destruct (IH (S j0) (S p0) tl' tr' I' Hh2) as [p [tr'' [Ip [Hcp Hn]]]].
          exists p, tr''. replace (j0 + S j)%nat with (S j0 + j)%nat by lia.
          split; [exact Ip|]. split; [rewrite Hcp, Hc; lia|]. rewrite Hn, Hnow. simpl. lia.
        + destruct (tl_tick_idle j0 p0 tl tr I ltac:(lia)) as [_ [tl' [cs [tr' [E [Hnow [I' Hc]]]]]]].
          rewrite E. cbn [fst].
          destruct (IH (S j0) p0 tl' tr' I' Hh2) as [p [tr'' [Ip [Hcp Hn]]]].
          exists p, tr''. replace (j0 + S j)%nat with (S j0 + j)%nat by lia.
          split; [exact Ip|]. split; [rewrite Hcp, Hc; lia|]. rewrite Hn, Hnow. simpl. lia. }
    destruct (G jj 0%nat 0%nat tl0' tr0 I0 Hh) as [p [tr [Ip [Hc Hn]]]].
    exists p, tr. simpl in *. split; [exact Ip|]. split; lia.
  Qed.

  (** on tick j the event handed to perform_event is ev k  iff  tick j is the first tick at or after sh + NX k *)
  Theorem onset_iff_v tl0' tr0 : TInv 0 0 tl0' tr0 ->
    forall j k, (k < L)%nat -> Tm cf j < sh + NXk L ->
    exists trj, tracks (ticks_v cf tl0' 0 j) = [trj] /\
      t_cur trj = c0 + Tm cf j /\ now (ticks_v cf tl0' 0 j) = now tl0' + Tm cf j /\
      (Tm cf j - gap cf j < sh + NXk k <= Tm cf j
         -> tick_event (cf j) trj = Some (ev k) /\ t_count trj = t_count tr0 + Z.of_nat k)
      /\ (~ (Tm cf j - gap cf j < sh + NXk k <= Tm cf j)
         -> tick_event (cf j) trj = None \/ t_count trj <> t_count tr0 + Z.of_nat k).
  Proof.
    intros I0 j k Hk Hh.
    pose proof (gap_pos cf Htau j) as Hg.
    destruct (run_inv_v tl0' tr0 I0 j ltac:(lia)) as [p [trj [Ip [Hc Hn]]]].
    exists trj. pose proof Ip as [Htr [Hact Itr]].
    pose proof (v_le _ _ _ Itr) as Hle. pose proof (v_lo _ _ _ Itr) as Hlo. pose proof (v_hi _ _ _ Itr) as Hhi.
    split; [exact Htr|]. split; [exact (v_cur _ _ _ Itr)|]. split; [exact Hn|]. split.
    - intros [Hk1 Hk2].
      assert (p = k).
      { destruct (Nat.lt_trichotomy p k) as [H|[H|H]]; [|exact H|].
        - pose proof (NX_lt p k j H ltac:(lia)). lia.
        - destruct Hhi as [->|Hhi]; [lia|]. pose proof (NX_le k (p - 1) ltac:(lia) ltac:(lia)). lia. }
      subst p. split; [|exact Hc].
      apply (tl_tick_due j k _ trj Ip Hk Hk2).
    - intros Hn'. destruct (Z_le_gt_dec (sh + NXk p) (Tm cf j)) as [Hdue|Hnd].
      + right. rewrite Hc. intros E. assert (p = k) by lia. subst p. lia.
      + left. apply (tl_tick_idle j p _ trj Ip ltac:(lia)).
  Qed.
End Retick.

(** * Corollaries: readable starting point, two segments, constant resolution with self-nudges *)
Lemma start_inv_v cf ev nx L id tl tr sh :
  single_started tl tr id sh -> - tau (cf 0%nat) < sh -> fed ev L (t_stream tr) 0 ->
  TInv cf ev nx L id (t_cur tr) sh 0 0 tl tr.
Proof.
  intros [Htr [Hact [Hid [Hst [Hmu [Hfi [Hn Hm]]]]]]] Hsh Hf.
  split; [exact Htr|]. split; [exact Hact|]. constructor; simpl; auto; lia.
Qed.

Lemma plain_self_nudge cf id ev k : plain_event (ev k) -> self_nudge cf id ev (fun _ => 0) k.
Proof.
  unfold plain_event, self_nudge. destruct (e_kind (ev k)); auto. intros ->. reflexivity.
Qed.

Lemma NX_split ev nx k : NX ev nx k = N ev k + XS nx k.
Proof. induction k as [|k IH]; simpl; [reflexivity|]. rewrite IH. lia. Qed.

Lemma NX_plain ev k : NX ev (fun _ => 0) k = N ev k.
Proof. induction k as [|k IH]; simpl; [reflexivity|]. rewrite IH. lia. Qed.

(* schedules *)
Lemma ticks_v_ext cf cf' : forall j tl j0, (forall i, (j0 <= i < j0 + j)%nat -> cf i = cf' i) ->
  ticks_v cf tl j0 j = ticks_v cf' tl j0 j.
Proof.
  induction j as [|j IH]; intros tl j0 H; [reflexivity|].
  cbn [ticks_v]. rewrite (H j0) by lia. apply IH. intros i Hi. apply H. lia.
Qed.
Lemma ticks_v_add cf : forall a b tl j0,
  ticks_v cf tl j0 (a + b) = ticks_v cf (ticks_v cf tl j0 a) (j0 + a) b.
Proof.
  induction a as [|a IH]; intros b tl j0.
  - simpl. rewrite Nat.add_0_r. reflexivity.
  - cbn [Nat.add ticks_v]. rewrite IH. replace (S j0 + a)%nat with (j0 + S a)%nat by lia. reflexivity.
Qed.
Lemma ticks_v_const cfg : forall j tl j0,
  ticks_v (fun _ => cfg) tl j0 j = run_state cfg tl (repeat OTick j).
Proof.
  induction j as [|j IH]; intros tl j0; [reflexivity|].
  cbn [ticks_v repeat run_state step]. destruct (tl_tick cfg tl) as [[tl' c] res]. cbn [fst]. apply IH.
Qed.
Lemma ticks_v_two cfg1 cfg2 n1 j tl :
  ticks_v (two_cfg cfg1 cfg2 n1) tl 0 (n1 + j)
  = run_state cfg2 (run_state cfg1 tl (repeat OTick n1)) (repeat OTick j).
Proof.
  rewrite ticks_v_add. cbn [Nat.add].
  rewrite (ticks_v_ext (two_cfg cfg1 cfg2 n1) (fun _ => cfg1) n1 tl 0).
  2: { intros i Hi. unfold two_cfg. destruct (i <? n1)%nat eqn:E; [reflexivity|]. apply Nat.ltb_ge in E. lia. }
  rewrite ticks_v_const.
  rewrite (ticks_v_ext (two_cfg cfg1 cfg2 n1) (fun _ => cfg2) j _ n1).
  2: { intros i Hi. unfold two_cfg. destruct (i <? n1)%nat eqn:E; [|reflexivity]. apply Nat.ltb_lt in E. lia. }
  apply ticks_v_const.
Qed.

Lemma Tm_const cfg j : Tm (fun _ => cfg) j = Z.of_nat j * tau cfg.
Proof. induction j as [|j IH]; simpl; [lia|]. rewrite IH. lia. Qed.
Lemma Tm_two_lo cfg1 cfg2 n1 i : (i <= n1)%nat -> Tm (two_cfg cfg1 cfg2 n1) i = Z.of_nat i * tau cfg1.
Proof.
  induction i as [|i IH]; intros Hi; simpl; [lia|]. rewrite IH by lia.
  unfold two_cfg. destruct (i <? n1)%nat eqn:E; [lia|]. apply Nat.ltb_ge in E. lia.
Qed.
Lemma Tm_two cfg1 cfg2 n1 j :
  Tm (two_cfg cfg1 cfg2 n1) (n1 + j) = Z.of_nat n1 * tau cfg1 + Z.of_nat j * tau cfg2.
Proof.
  induction j as [|j IH].
  - rewrite Nat.add_0_r, Tm_two_lo by lia. lia.
  - replace (n1 + S j)%nat with (S (n1 + j)) by lia. simpl. rewrite IH.
    unfold two_cfg. destruct (n1 + j <? n1)%nat eqn:E; [apply Nat.ltb_lt in E; lia|]. lia.
Qed.
(* the tick before tick n1 + j: the last tick of the first segment for j = 0, a tick of the second otherwise *)
Lemma gap_two cfg1 cfg2 n1 j : (1 <= n1)%nat ->
  gap (two_cfg cfg1 cfg2 n1) (n1 + j) = if (j =? 0)%nat then tau cfg1 else tau cfg2.
Proof.
  intros Hn. destruct j as [|j].
  - rewrite Nat.add_0_r. destruct n1 as [|m]; [lia|]. simpl. unfold two_cfg.
    destruct (m <? S m)%nat eqn:E; [reflexivity|]. apply Nat.ltb_ge in E. lia.
  - replace (n1 + S j)%nat with (S (n1 + j)) by lia. simpl. unfold two_cfg.
    destruct (n1 + j <? n1)%nat eqn:E; [apply Nat.ltb_lt in E; lia|]. reflexivity.
Qed.
Lemma two_cfg_cases cfg1 cfg2 n1 (P : config -> Prop) : P cfg1 -> P cfg2 -> forall j, P (two_cfg cfg1 cfg2 n1 j).
Proof. intros H1 H2 j. unfold two_cfg. destruct (j <? n1)%nat; assumption. Qed.

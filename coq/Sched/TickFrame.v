(* Sched/TickFrame.v — a proof scheme shared by C05 (QuantizeProofs.v) and C06 (LifecycleProofs.v):
   any reflexive-transitive relation Q on timelines that is preserved by the primitive steps of the track
   phase of Timeline.tick (replace a track by its ticked version, remove a track, count a device call, run an
   operation of a callback) is preserved by the whole track phase (tick_one, phase_tracks), whatever the
   tracks do: raise, finish, run callbacks that schedule / update / unschedule / clear.
   Small facts about find_track / put_track / del_track used by both files are collected here too. *)
From Isobar Require Import Base.Prelude Sched.Model Sched.NoteOffProofs.

(** * Track lists *)
Lemma find_put_same t' l tr : find_track (t_id t') l = Some tr -> find_track (t_id t') (put_track t' l) = Some t'.
Proof.
  induction l as [|x r IH]; simpl; [discriminate|].
  destruct (t_id x =? t_id t')%nat eqn:E; intros H.
  - simpl. rewrite Nat.eqb_refl. reflexivity.
  - simpl. rewrite E. apply IH. exact H.
Qed.
Lemma find_put_other t' l id : t_id t' <> id -> find_track id (put_track t' l) = find_track id l.
Proof.
  intros Hne. induction l as [|x r IH]; simpl; [reflexivity|].
  destruct (t_id x =? t_id t')%nat eqn:E.
  - simpl. apply Nat.eqb_eq in E.
    destruct (t_id t' =? id)%nat eqn:E1; [apply Nat.eqb_eq in E1; contradiction|].
    destruct (t_id x =? id)%nat eqn:E2; [apply Nat.eqb_eq in E2; congruence|]. reflexivity.
  - simpl. destruct (t_id x =? id)%nat; [reflexivity|exact IH].
Qed.
Lemma find_del_other id' l id : id' <> id -> find_track id (del_track id' l) = find_track id l.
Proof.
  intros Hne. induction l as [|x r IH]; simpl; [reflexivity|].
  destruct (t_id x =? id')%nat eqn:E.
  - apply Nat.eqb_eq in E. destruct (t_id x =? id)%nat eqn:E2; [apply Nat.eqb_eq in E2; congruence|]. reflexivity.
  - simpl. destruct (t_id x =? id)%nat; [reflexivity|exact IH].
Qed.
Lemma put_length t' l : length (put_track t' l) = length l.
Proof. induction l as [|x r IH]; simpl; [reflexivity|]. destruct (t_id x =? t_id t')%nat; simpl; congruence. Qed.
Lemma put_ids t' l : map t_id (put_track t' l) = map t_id l.
Proof.
  induction l as [|x r IH]; simpl; [reflexivity|].
  destruct (t_id x =? t_id t')%nat eqn:E; simpl; [apply Nat.eqb_eq in E; congruence|congruence].
Qed.
Lemma del_length_le id l : (length (del_track id l) <= length l)%nat.
Proof. induction l as [|x r IH]; simpl; [lia|]. destruct (t_id x =? id)%nat; simpl; lia. Qed.
Lemma del_incl id l : incl (del_track id l) l.
Proof.
  induction l as [|x r IH]; simpl; [apply incl_refl|].
  destruct (t_id x =? id)%nat; [apply incl_tl, incl_refl|].
  intros y [->|Hy]; [left; reflexivity|right; apply IH; exact Hy].
Qed.
Lemma find_none_notin id l : find_track id l = None <-> ~ In id (map t_id l).
Proof.
  induction l as [|x r IH]; simpl; [tauto|].
  destruct (t_id x =? id)%nat eqn:E.
  - apply Nat.eqb_eq in E. split; [discriminate|]. intros H. exfalso. apply H. left. exact E.
  - apply Nat.eqb_neq in E. rewrite IH. tauto.
Qed.
Lemma find_some_in id l tr : find_track id l = Some tr -> In tr l.
Proof.
  induction l as [|x r IH]; simpl; [discriminate|].
  destruct (t_id x =? id)%nat; [intros H; inversion H; left; reflexivity|intros H; right; apply IH; exact H].
Qed.
Lemma tick_b_id cfg tr st : t_id (track_tick_b cfg tr st) = t_id tr.
Proof. unfold track_tick_b. destruct (st && _); reflexivity. Qed.

Lemma del_none id l : find_track id l = None -> del_track id l = l.
Proof.
  induction l as [|x r IH]; simpl; [reflexivity|].
  destruct (t_id x =? id)%nat; [discriminate|]. intros F. rewrite (IH F). reflexivity.
Qed.
Lemma remove_track_tracks tl id : tracks (remove_track tl id) = del_track id (tracks tl).
Proof.
  unfold remove_track. destruct (find_track id (tracks tl)) eqn:F; [reflexivity|].
  rewrite (del_none _ _ F). reflexivity.
Qed.

Section Phase4.
  Variable cfg : config.
  Variable Q : timeline -> timeline -> Prop.
  Variable TR : track -> track -> Prop.
  Hypothesis Q_refl : forall tl, Q tl tl.
  Hypothesis Q_trans : forall a b c, Q a b -> Q b c -> Q a c.
  (* the operations that callbacks of this configuration perform *)
  Hypothesis Q_op : forall cb o tl, In o (snd (nth cb (cbs cfg) (CbNone, []))) -> Q tl (fst (exec_op cfg tl o)).
  Hypothesis Q_upd : forall tl id tr tr', find_track id (tracks tl) = Some tr -> t_id tr' = id -> TR tr tr' ->
    Q tl (upd_track tl tr').
  Hypothesis Q_rm : forall tl id, Q tl (remove_track tl id).
  Hypothesis Q_dev : forall tl n, Q tl (set_dev tl n).
  Hypothesis TR_a : forall nowT tr n, TR tr (fst (fst (fst (track_tick_a cfg nowT tr n)))).
  Hypothesis TR_b : forall tr st, TR tr (track_tick_b cfg tr st).
  (* a callback's StopIteration ends the track's stream (Model.end_stream) *)
  Hypothesis TR_end : forall tr, (exists cb, fst (nth cb (cbs cfg) (CbNone, [])) = CbStop) -> TR tr (set_stream tr empty_stream).

  Lemma Q_end_stream tl id : (exists cb, fst (nth cb (cbs cfg) (CbNone, [])) = CbStop) -> Q tl (end_stream tl id).
  Proof.
    intros Hs. unfold end_stream. destruct (find_track id (tracks tl)) as [t|] eqn:F; [|apply Q_refl].
    apply (Q_upd tl id t); [exact F| |apply TR_end; exact Hs]. simpl. apply (find_track_id _ _ _ F).
  Qed.

  Lemma Q_cb_ops ops : (forall o, In o ops -> forall tl, Q tl (fst (exec_op cfg tl o))) ->
    forall tl, Q tl (exec_cb_ops cfg tl ops).
  Proof.
    induction ops as [|o r IH]; intros H tl; simpl; [apply Q_refl|].
    pose proof (H o (or_introl eq_refl) tl) as Ho.
    destruct (exec_op cfg tl o) as [tl' res]. simpl in Ho.
    destruct res; try exact Ho.
    apply (Q_trans _ _ _ Ho). apply IH. intros o' Ho'. apply H. right. exact Ho'.
  Qed.

  Lemma Q_finish tl id st : Q tl (finish_track cfg tl id st).
  Proof.
    unfold finish_track. destruct (find_track id (tracks tl)) as [tr2|] eqn:F; [|apply Q_refl].
    assert (E : Q tl (upd_track tl (track_tick_b cfg tr2 st))).
    { apply (Q_upd tl id tr2); [exact F| |apply TR_b]. rewrite tick_b_id. apply (find_track_id _ _ _ F). }
    destruct (t_finished (track_tick_b cfg tr2 st) && t_rwd (track_tick_b cfg tr2 st)); [|exact E].
    apply (Q_trans _ _ _ E). apply Q_rm.
  Qed.

  Lemma Q_tick_one tl id : Q tl (fst (fst (tick_one cfg tl id))).
  Proof.
    unfold tick_one. destruct (find_track id (tracks tl)) as [tr|] eqn:F; [|apply Q_refl].
    pose proof (TR_a (now tl) tr (dev_calls tl)) as A.
    pose proof (tick_a_id cfg (now tl) tr (dev_calls tl)) as Aid.
    destruct (track_tick_a cfg (now tl) tr (dev_calls tl)) as [[[tr1 c] n'] res]. simpl in A, Aid.
    assert (E1 : Q tl (set_dev (upd_track tl tr1) n')).
    { apply (Q_trans _ (upd_track tl tr1)); [|apply Q_dev].
      apply (Q_upd tl id tr); [exact F| |exact A]. rewrite Aid. apply (find_track_id _ _ _ F). }
    destruct res; simpl.
    - destruct (t_finished tr1 && t_rwd tr1); [|exact E1]. apply (Q_trans _ _ _ E1). apply Q_rm.
    - apply (Q_trans _ _ _ E1). apply Q_finish.
    - apply (Q_trans _ _ _ E1). apply Q_finish.
    - destruct (ignore_exc cfg); simpl; [|exact E1]. apply (Q_trans _ _ _ E1). apply Q_rm.
    - destruct (nth cb (cbs cfg) (CbNone, [])) as [rk ops] eqn:En. simpl.
      apply (Q_trans _ _ _ E1).
      assert (Ec : Q (set_dev (upd_track tl tr1) n') (exec_cb_ops cfg (set_dev (upd_track tl tr1) n') ops)).
      { apply Q_cb_ops. intros o Ho tl0. apply (Q_op cb). rewrite En. exact Ho. }
      destruct rk.
      + apply (Q_trans _ _ _ Ec). apply Q_finish.
      + apply (Q_trans _ _ _ Ec). apply Q_finish.
      + assert (Hs : exists cb0, fst (nth cb0 (cbs cfg) (CbNone, [])) = CbStop) by (exists cb; rewrite En; reflexivity).
        destruct (cb_completes cfg (set_dev (upd_track tl tr1) n') ops).
        * apply (Q_trans _ _ _ Ec). apply (Q_trans _ (end_stream (exec_cb_ops cfg (set_dev (upd_track tl tr1) n') ops) id)); [apply Q_end_stream; exact Hs|apply Q_finish].
        * apply (Q_trans _ _ _ Ec). apply Q_finish.
    - exact E1.
  Qed.

  Lemma Q_phase_tracks ids : forall tl calls, Q tl (fst (fst (phase_tracks cfg tl ids calls))).
  Proof.
    induction ids as [|id r IH]; intros tl calls; simpl; [apply Q_refl|].
    pose proof (Q_tick_one tl id) as H.
    destruct (tick_one cfg tl id) as [[tl' c] abort]. simpl in H.
    destruct abort; simpl; [exact H|]. apply (Q_trans _ _ _ H). apply IH.
  Qed.
End Phase4.

(* callbacks that perform no timeline operation (they may still raise) *)
Definition no_cb_ops (cfg : config) : Prop := forall cb, snd (nth cb (cbs cfg) (CbNone, [])) = [].
(* no callback of the configuration raises StopIteration (which would end its track's stream) *)
Definition no_cb_stop (cfg : config) : Prop := forall cb, fst (nth cb (cbs cfg) (CbNone, [])) <> CbStop.

(** * Well-formed timelines: track ids are distinct and below next_id (an invariant of every history) *)
Definition wf (tl : timeline) : Prop :=
  NoDup (map t_id (tracks tl)) /\ Forall (fun i => (i < next_id tl)%nat) (map t_id (tracks tl)).

Lemma wf_tl0 : wf tl0.
Proof. split; constructor. Qed.

Lemma del_ids_incl id l : incl (map t_id (del_track id l)) (map t_id l).
Proof. intros x Hx. apply in_map_iff in Hx as [t [<- Ht]]. apply in_map. apply (del_incl id l). exact Ht. Qed.
Lemma del_nodup id l : NoDup (map t_id l) -> NoDup (map t_id (del_track id l)).
Proof.
  induction l as [|x r IH]; simpl; [auto|]. intros H. inversion H as [|? ? Hn Hr]; subst.
  destruct (t_id x =? id)%nat; [exact Hr|]. simpl. constructor; [|apply IH; exact Hr].
  intros Hi. apply Hn. apply (del_ids_incl id r). exact Hi.
Qed.
Lemma find_del_same id l : NoDup (map t_id l) -> find_track id (del_track id l) = None.
Proof.
  induction l as [|x r IH]; simpl; [reflexivity|]. intros H. inversion H as [|? ? Hn Hr]; subst.
  destruct (t_id x =? id)%nat eqn:E.
  - apply Nat.eqb_eq in E. subst id. apply find_none_notin. exact Hn.
  - simpl. rewrite E. apply IH. exact Hr.
Qed.

Lemma wf_same tl tl' : map t_id (tracks tl') = map t_id (tracks tl) -> (next_id tl <= next_id tl')%nat -> wf tl -> wf tl'.
Proof.
  intros E N [H1 H2]. split; rewrite E; [exact H1|].
  eapply Forall_impl; [|exact H2]. simpl. intros. lia.
Qed.
Lemma wf_upd tl tr' : wf tl -> wf (upd_track tl tr').
Proof. apply wf_same; [apply put_ids|simpl; lia]. Qed.
Lemma wf_remove tl id : wf tl -> wf (remove_track tl id).
Proof.
  intros [H1 H2]. split; rewrite remove_track_tracks.
  - apply del_nodup. exact H1.
  - assert (N : next_id (remove_track tl id) = next_id tl) by (unfold remove_track; destruct (find_track id (tracks tl)); reflexivity).
    rewrite N. rewrite Forall_forall in *. intros x Hx. apply H2. apply (del_ids_incl id _ _ Hx).
Qed.
Lemma wf_clear l : forall tl, wf tl -> wf (fold_left (fun tl' tr => remove_track tl' (t_id tr)) l tl).
Proof. induction l as [|t r IH]; intros tl H; simpl; [exact H|]. apply IH. apply wf_remove. exact H. Qed.

Lemma track_update_sched cfg tl tr s q d c :
  let '(tl1, tr1) := track_update cfg tl tr s q d c in
  tracks tl1 = tracks tl /\ next_id tl1 = next_id tl /\ t_id tr1 = t_id tr /\ t_name tr1 = t_name tr
  /\ def_q tl1 = def_q tl /\ def_d tl1 = def_d tl /\ dev_calls tl1 = dev_calls tl /\ now tl1 = now tl.
Proof. unfold track_update. destruct ((_ =? 0) && (_ =? 0)); destruct c; repeat split. Qed.

Lemma put_named_ids nm t' l tr : find_named nm l = Some tr -> t_id t' = t_id tr ->
  map t_id (put_named nm t' l) = map t_id l.
Proof.
  induction l as [|x r IH]; simpl; [discriminate|].
  destruct (t_name x) as [n|].
  - destruct (n =? nm).
    + intros H E. inversion H; subst. simpl. congruence.
    + intros H E. simpl. rewrite (IH H E). reflexivity.
  - intros H E. simpl. rewrite (IH H E). reflexivity.
Qed.
Lemma put_named_length nm t' l : length (put_named nm t' l) = length l.
Proof.
  induction l as [|x r IH]; simpl; [reflexivity|].
  destruct (t_name x) as [n|]; [destruct (n =? nm)|]; simpl; congruence.
Qed.

(* the named-replace lookup of Timeline.schedule *)
Definition named_target (tl : timeline) (name : option Z) (replace : bool) : option (Z * track) :=
  match name with
  | Some nm => if replace then match find_named nm (tracks tl) with Some tr => Some (nm, tr) | None => None end else None
  | None => None
  end.
Lemma named_target_find tl name replace nm tr : named_target tl name replace = Some (nm, tr) ->
  name = Some nm /\ replace = true /\ find_named nm (tracks tl) = Some tr.
Proof.
  unfold named_target. destruct name as [n|]; [|discriminate]. destruct replace; [|discriminate].
  destruct (find_named n (tracks tl)) eqn:F; [|discriminate]. intros H. inversion H; subst. auto.
Qed.

Lemma nodup_snoc (l : list nat) x : NoDup l -> ~ In x l -> NoDup (l ++ [x]).
Proof.
  induction l as [|y r IH]; simpl; intros H Hn; [constructor; [intros []|constructor]|].
  inversion H as [|? ? Hy Hr]; subst. constructor; [|apply IH; [exact Hr|tauto]].
  rewrite in_app_iff. simpl. intros [Hi|[->|[]]]; tauto.
Qed.

Lemma exec_op_wf cfg tl o : wf tl -> wf (fst (exec_op cfg tl o)).
Proof.
  intros W.
  destruct o as [|s q d count rwd name replace|t s q d count|t| |t|t|t x|q d]; cbn [exec_op fst]; try exact W.
  - fold (named_target tl name replace). destruct (named_target tl name replace) as [[nm tr]|] eqn:NT.
    + apply named_target_find in NT as [_ [_ F]].
      pose proof (track_update_sched cfg tl tr s q d count) as U.
      destruct (track_update cfg tl tr s q d count) as [tl1 tr1]. destruct U as [U1 [U2 [U3 _]]]. cbn [fst].
      revert W. apply wf_same; cbn [tracks set_tracks next_id]; [|lia].
      rewrite U1. apply (put_named_ids _ _ _ tr F). exact U3.
    + destruct (negb (max_tracks cfg =? 0) && (max_tracks cfg <=? Z.of_nat (length (tracks tl)))); [exact W|].
      pose proof (track_update_sched cfg tl (new_track (next_id tl) count rwd name) s q d None) as U.
      destruct (track_update cfg tl (new_track (next_id tl) count rwd name) s q d None) as [tl1 tr1].
      destruct U as [U1 [U2 [U3 _]]]. cbn [fst]. destruct W as [W1 W2].
      split; cbn [tracks next_id]; rewrite U1, map_app; cbn [map]; rewrite U3; cbn [new_track t_id].
      * apply nodup_snoc; [exact W1|]. intros Hx. rewrite Forall_forall in W2. specialize (W2 _ Hx). lia.
      * rewrite U2. apply Forall_app. split; [|constructor; [lia|constructor]].
        eapply Forall_impl; [|exact W2]. simpl. intros. lia.
  - destruct (find_track t (tracks tl)) as [tr|].
    + pose proof (track_update_sched cfg tl tr s q d count) as U.
      destruct (track_update cfg tl tr s q d count) as [tl1 tr1]. destruct U as [U1 [U2 _]]. cbn [fst].
      apply wf_upd. revert W. apply wf_same; [rewrite U1; reflexivity|lia].
    + destruct (t <? next_id tl)%nat; [|exact W].
      pose proof (track_update_sched cfg tl (new_track t None true None) s q d count) as U.
      destruct (track_update cfg tl (new_track t None true None) s q d count) as [tl1 tr1]. destruct U as [U1 [U2 _]]. cbn [fst].
      revert W. apply wf_same; [rewrite U1; reflexivity|lia].
  - destruct (find_track t (tracks tl)); cbn [fst]; [apply wf_remove|]; exact W.
  - apply wf_clear. exact W.
  - destruct (find_track t (tracks tl)); cbn [fst]; [apply wf_upd|]; exact W.
  - destruct (find_track t (tracks tl)); cbn [fst]; [apply wf_upd|]; exact W.
  - destruct (find_track t (tracks tl)); cbn [fst]; [apply wf_upd|]; exact W.
Qed.

Lemma phase_tracks_wf cfg ids tl calls : wf tl -> wf (fst (fst (phase_tracks cfg tl ids calls))).
Proof.
  apply (Q_phase_tracks cfg (fun a b => wf a -> wf b) (fun _ _ => True)); auto.
  - intros cb o tl0 _. apply exec_op_wf.
  - intros. apply wf_upd. assumption.
  - intros. apply wf_remove. assumption.
Qed.

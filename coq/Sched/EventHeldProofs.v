(* Sched/EventHeldProofs.v — lemmas about Sched/EventHeld.v: an event whose key is a held Key object is resolved with the
   definition the object has when the event is due; as long as nothing is re-tuned a held key is the same as a key given by
   value. *)
From Isobar Require Import Base.Prelude Tonal.Key Tonal.Held Tonal.HeldProofs Generated.Tables Generated.TablesC03
  Sched.Event Sched.EventSpec Sched.EventProofs Sched.EventCfg Sched.EventCfgProofs Sched.EventHeld.
From Coq Require Import String Ascii QArith.
Local Open Scope Z_scope.
Local Notation length := List.length (only parsing).

(** * the dictionary that is due is resolved with every held key AS IT IS NOW - after every in-place operation and
      every assignment made so far - in every state of the track *)
Lemma hplay_performs N muted ch ms n t h d rest e dur :
  let hs := apply_muts ms (t - 1) (h_store h) in
  let defs := apply_changes ch (t - 1) (c_defs (h_c h)) in
  c_stream (h_c h) = d :: rest ->
  Qle_bool (c_next (h_c h)) (t # N) = true ->
  flat_defaults defs = true ->
  resolve (deref_dict hs defs) (deref_dict hs d) = Ok e ->
  py_float (e_duration e) = Ok dur ->
  Qle_bool (Qred (c_next (h_c h) + dur)) (t # N) = false ->
  snd (hplay N muted ch ms (S n) t h) <> Unmodelled ->
  exists offs tr, fst (hplay N muted ch ms (S n) t h) = tag t (offs ++ p_calls (dispatch muted e)) ++ tr
                  /\ only_note_offs offs.
Proof.
  cbn zeta. intros Hs Hd Hf Hr Hdur Hnext.
  cbn [hplay c_stream c_next c_defs c_pend]. rewrite Hs.
  cbn [length hfetch c_next c_stream c_defs c_pend]. rewrite Hd, Hr, Hf. cbn [negb]. rewrite Hdur. cbn [bind].
  cbn [hfetch c_next c_stream c_defs c_pend]. rewrite Hnext.
  cbn [c_next c_stream c_defs c_pend].
  destruct (all_ok _) as [pend'| |]; cbn [snd fst].
  - destruct (p_end (dispatch muted e)) as [u|c|]; cbn [snd fst].
    + destruct (hplay N muted ch ms n (t + 1) _) as [tr o]. cbn [snd fst]. intros _.
      eexists. exists tr. split; [reflexivity|apply offs_only].
    + intros _. eexists. exists []. split; [rewrite app_nil_r; reflexivity|apply offs_only].
    + intros H; contradiction H; reflexivity.
  - intros H; contradiction H; reflexivity.
  - intros H; contradiction H; reflexivity.
Qed.

Lemma hplay_reject N muted ch ms n t h d rest c :
  let hs := apply_muts ms (t - 1) (h_store h) in
  c_stream (h_c h) = d :: rest ->
  Qle_bool (c_next (h_c h)) (t # N) = true ->
  resolve (deref_dict hs (apply_changes ch (t - 1) (c_defs (h_c h)))) (deref_dict hs d) = Raise c ->
  String.eqb c StopIteration = false ->
  exists offs, hplay N muted ch ms (S n) t h = (tag t offs, Raise c) /\ only_note_offs offs.
Proof.
  cbn zeta. intros Hs Hd Hr Hc. eexists. split; [|apply offs_only].
  cbn [hplay c_stream c_next c_defs c_pend]. rewrite Hs.
  cbn [length hfetch c_next c_stream c_defs]. rewrite Hd, Hr, Hc. reflexivity.
Qed.

(** * what the dictionary says, read in the store of the moment *)
(* the value of entry k read in st *)
Definition read_val (st : store) (k : string) (v : val) : val := snd (deref_entry st (k, v)).

Lemma dget_deref st d k : dget (deref_dict st d) k = option_map (read_val st k) (dget d k).
Proof.
  induction d as [|[k' v] r IH]; [reflexivity|]. cbn [deref_dict map dget deref_entry fst snd].
  destruct (String.eqb k k') eqn:E; [|exact IH]. apply String.eqb_eq in E. subst k'. reflexivity.
Qed.
Lemma dhas_deref st d k : dhas (deref_dict st d) k = dhas d k.
Proof. unfold dhas. rewrite dget_deref. destruct (dget d k); reflexivity. Qed.
Lemma deref_fst st d : map fst (deref_dict st d) = map fst d.
Proof. unfold deref_dict. rewrite map_map. reflexivity. Qed.

Lemma read_key st v : read_val st K_KEY v = key_val st v.
Proof. reflexivity. Qed.
Lemma read_other st k v : String.eqb k K_KEY = false -> read_val st k v = deref_val st v.
Proof. intros H. unfold read_val, deref_entry. cbn [fst snd]. rewrite H. reflexivity. Qed.

Lemma deref_held_ref st slot k : Held.key_of st slot = Some k -> key_val st (held_ref slot) = VKey k.
Proof. intros H. cbn. rewrite Nat2Z.id, H. reflexivity. Qed.
Lemma key_val_name st s k : key_of_name_reg st s = Ok k -> key_val st (VStr s) = VKey k.
Proof. intros H. cbn. rewrite H. reflexivity. Qed.

(* the key of the event is a held object: the event is completed with that object's present definition *)
Lemma held_key_given st defs d slot k :
  dget d K_KEY = Some (held_ref slot) -> Held.key_of st slot = Some k ->
  spec_param (deref_dict st defs) (deref_dict st d) [K_KEY] K_KEY = Some (VKey k).
Proof.
  intros Hd Hk. apply spec_param_explicit. rewrite dget_deref, Hd. cbn [option_map].
  rewrite read_key, (deref_held_ref st slot k Hk). reflexivity.
Qed.
(* the event says nothing and the timeline's default key is a held object *)
Lemma held_key_default st defs d slot k :
  dget d K_KEY = None -> dget defs K_KEY = Some (held_ref slot) -> Held.key_of st slot = Some k ->
  spec_param (deref_dict st defs) (deref_dict st d) [K_KEY] K_KEY = Some (VKey k).
Proof.
  intros Hd Hdef Hk. apply (spec_param_default _ _ _ _ (VKey k)).
  - intros k0 [<-|[]]. rewrite dget_deref, Hd. reflexivity.
  - rewrite dget_deref, Hdef. cbn [option_map]. rewrite read_key, (deref_held_ref st slot k Hk). reflexivity.
  - reflexivity.
Qed.
(* the key of the event is a NAME: the event is completed with the key the name denotes in the registry of the moment *)
Lemma named_key_given st defs d s k :
  dget d K_KEY = Some (VStr s) -> key_of_name_reg st s = Ok k ->
  spec_param (deref_dict st defs) (deref_dict st d) [K_KEY] K_KEY = Some (VKey k).
Proof.
  intros Hd Hk. apply spec_param_explicit. rewrite dget_deref, Hd. cbn [option_map].
  rewrite read_key, (key_val_name st s k Hk). reflexivity.
Qed.
Lemma named_key_default st defs d s k :
  dget d K_KEY = None -> dget defs K_KEY = Some (VStr s) -> key_of_name_reg st s = Ok k ->
  spec_param (deref_dict st defs) (deref_dict st d) [K_KEY] K_KEY = Some (VKey k).
Proof.
  intros Hd Hdef Hk. apply (spec_param_default _ _ _ _ (VKey k)).
  - intros k0 [<-|[]]. rewrite dget_deref, Hd. reflexivity.
  - rewrite dget_deref, Hdef. cbn [option_map]. rewrite read_key, (key_val_name st s k Hk). reflexivity.
  - reflexivity.
Qed.

(** * names: in the freshly imported library a name means what Sched/Event.v says; constructing objects never changes it *)
Lemma scale_byname_reg_init name : scale_byname_reg init_store name = scale_byname name.
Proof.
  unfold scale_byname_reg, scale_byname. rewrite init_reg_scale.
  destruct (find _ builtin_scales) as [[n s]|]; reflexivity.
Qed.
Lemma key_of_name_reg_init name : key_of_name_reg init_store name = key_of_name name.
Proof.
  unfold key_of_name_reg, key_of_name. destruct (count_spaces _) as [|[|n]]; [| |reflexivity].
  - rewrite scale_byname_reg_init. reflexivity.
  - destruct (split_space _ _) as [a b]. rewrite scale_byname_reg_init. reflexivity.
Qed.
(* the meaning of a key name depends on the store only through what its scale name (or "major") denotes there *)
Definition scale_name_of (name : string) : option string :=
  let cs := list_ascii_of_string name in
  match count_spaces cs with
  | O => Some "major"%string
  | S O => Some (string_of_list_ascii (snd (split_space cs [])))
  | _ => None
  end.
Lemma key_of_name_reg_ext st st' name :
  (forall sn, scale_name_of name = Some sn -> reg_scale st' sn = reg_scale st sn) ->
  key_of_name_reg st' name = key_of_name_reg st name.
Proof.
  unfold scale_name_of, key_of_name_reg, scale_byname_reg. intros H.
  destruct (count_spaces _) as [|[|n]]; [| |reflexivity].
  - rewrite (H _ eq_refl). reflexivity.
  - destruct (split_space _ _) as [a b]. cbn [snd] in H. rewrite (H _ eq_refl). reflexivity.
Qed.
(* ... so: whatever is constructed or re-tuned in between - scales and weighted scales under ANY name (also this one),
   copies, keys -, as long as the registered Scale object itself is not written, the name denotes the same key *)
Lemma key_name_stable st ops name sn r :
  scale_name_of name = Some sn -> reg_of st sn = Some r ->
  Forall (fun o => op_oid o <> Some r) ops ->
  key_of_name_reg (hrun st ops) name = key_of_name_reg st name.
Proof.
  intros Hn Hr F. apply key_of_name_reg_ext. intros sn' E. rewrite Hn in E. inversion E; subst sn'.
  apply (name_stable_run ops st sn r Hr F).
Qed.

(** * as long as nothing is re-tuned or constructed, a held key / a key name is a key given by value *)
Lemma has_pat_deref1 st v : has_pat (deref1 st v) = has_pat v.
Proof.
  destruct v; try reflexivity. cbn [deref1]. destruct (String.eqb kind HELD); [|reflexivity].
  destruct (Held.key_of st (Z.to_nat id)); reflexivity.
Qed.
Lemma has_pat_key1 st v : has_pat (key1 st v) = has_pat v.
Proof.
  destruct v; try apply has_pat_deref1. cbn [key1]. destruct (key_of_name_reg st s); reflexivity.
Qed.

Lemma pull_deref_val st v : deref_val st (pull_default v) = pull_default (deref_val st v).
Proof.
  destruct v as [| | | | | | | | | |[|x l]]; try reflexivity.
  cbn [pull_default deref_val deref1]. destruct (String.eqb kind HELD); [|reflexivity].
  destruct (Held.key_of st (Z.to_nat id)); reflexivity.
Qed.
Lemma pull_key_val st v : key_val st (pull_default v) = pull_default (key_val st v).
Proof.
  destruct v as [| | | | | | | | | |[|x l]]; try reflexivity.
  - cbn [pull_default key_val key1]. destruct (key_of_name_reg st s); reflexivity.
  - cbn [pull_default key_val key1 deref1]. destruct (String.eqb kind HELD); [|reflexivity].
    destruct (Held.key_of st (Z.to_nat id)); reflexivity.
Qed.
Lemma deref_pull st defs : deref_dict st (pull_defaults defs) = pull_defaults (deref_dict st defs).
Proof.
  unfold deref_dict, pull_defaults. rewrite !map_map. apply map_ext. intros [k v]. unfold deref_entry. cbn [fst snd].
  destruct (String.eqb k K_KEY); [rewrite pull_key_val|rewrite pull_deref_val]; reflexivity.
Qed.

Lemma existsb_has_pat_deref st l : existsb has_pat (map (deref1 st) l) = existsb has_pat l.
Proof. induction l as [|x r IH]; [reflexivity|]. cbn [map existsb]. rewrite has_pat_deref1, IH. reflexivity. Qed.
Lemma existsb_has_pat_key st l : existsb has_pat (map (key1 st) l) = existsb has_pat l.
Proof. induction l as [|x r IH]; [reflexivity|]. cbn [map existsb]. rewrite has_pat_key1, IH. reflexivity. Qed.
Lemma flat_deref_val st v : flat_default (deref_val st v) = flat_default v.
Proof.
  destruct v; try reflexivity.
  - cbn [deref_val deref1]. destruct (String.eqb kind HELD); [|reflexivity]. destruct (Held.key_of st (Z.to_nat id)); reflexivity.
  - cbn [deref_val flat_default]. rewrite existsb_has_pat_deref. reflexivity.
Qed.
Lemma flat_key_val st v : flat_default (key_val st v) = flat_default v.
Proof.
  destruct v; try reflexivity.
  - cbn [key_val key1]. destruct (key_of_name_reg st s); reflexivity.
  - cbn [key_val key1 deref1]. destruct (String.eqb kind HELD); [|reflexivity]. destruct (Held.key_of st (Z.to_nat id)); reflexivity.
  - cbn [key_val flat_default]. rewrite existsb_has_pat_key. reflexivity.
Qed.
Lemma flat_deref st defs : flat_defaults (deref_dict st defs) = flat_defaults defs.
Proof.
  unfold flat_defaults, deref_dict. induction defs as [|[k v] r IH]; [reflexivity|].
  cbn [map forallb fst snd deref_entry]. rewrite IH.
  destruct (String.eqb k K_KEY); [rewrite flat_key_val|rewrite flat_deref_val]; reflexivity.
Qed.

Lemma deref_dset st d k v : deref_dict st (dset d k v) = dset (deref_dict st d) k (read_val st k v).
Proof.
  induction d as [|[k' v'] r IH]; [reflexivity|]. cbn [dset deref_dict map fst snd deref_entry].
  destruct (String.eqb k k') eqn:E; cbn [map fst snd deref_entry].
  - apply String.eqb_eq in E. subst k'. reflexivity.
  - unfold deref_dict in IH. rewrite IH. reflexivity.
Qed.
Lemma deref_assign st kvs : forall defs,
  deref_dict st (assign defs kvs) = assign (deref_dict st defs) (map (deref_entry st) kvs).
Proof.
  unfold assign. induction kvs as [|[k v] r IH]; intros defs; [reflexivity|].
  cbn [fold_left map fst snd deref_entry]. rewrite IH, deref_dset. reflexivity.
Qed.
Lemma deref_apply_changes st ch t : forall defs,
  deref_dict st (apply_changes ch t defs) = apply_changes (deref_changes st ch) t (deref_dict st defs).
Proof.
  unfold apply_changes, deref_changes. induction ch as [|c r IH]; intros defs; [reflexivity|].
  cbn [fold_left map fst snd]. rewrite IH. destruct (fst c =? t); [rewrite deref_assign|]; reflexivity.
Qed.

Definition ores_sim (hs : store) (a b : outcome (option event * cstate)) : Prop :=
  match a, b with
  | Ok (oe, c'), Ok (oe', c'') => oe = oe' /\ c'' = deref_cstate hs c'
  | Raise x, Raise x' => x = x'
  | Unmodelled, Unmodelled => True
  | _, _ => False
  end.

Lemma hfetch_cfetch hs fuel now : forall c cur,
  ores_sim hs (hfetch fuel now hs c cur) (cfetch fuel now (deref_cstate hs c) cur).
Proof.
  induction fuel as [|f IH]; intros c cur; cbn [hfetch cfetch]; [exact I|].
  cbn [deref_cstate c_next c_stream c_defs c_pend].
  destruct (Qle_bool (c_next c) now); [|split; reflexivity].
  destruct (c_stream c) as [|d rest] eqn:Es; cbn [map].
  - split; [reflexivity|]. unfold deref_cstate. rewrite Es. reflexivity.
  - destruct (resolve (deref_dict hs (c_defs c)) (deref_dict hs d)) as [e|x|]; [| |exact I].
    + rewrite flat_deref. destruct (negb (flat_defaults (c_defs c))); [exact I|].
      destruct (py_float (e_duration e)) as [dur|x|]; cbn [bind]; [|reflexivity|exact I].
      specialize (IH (mkC (Qred (c_next c + dur)) (c_pend c) rest (pull_defaults (c_defs c))) (Some e)).
      unfold deref_cstate in IH at 1. cbn [c_next c_stream c_defs c_pend] in IH. rewrite deref_pull in IH. exact IH.
    + destruct (String.eqb x StopIteration); [exact I|reflexivity].
Qed.

Lemma apply_muts_nil t st : apply_muts [] t st = st.
Proof. reflexivity. Qed.

Lemma hplay_cplay N muted ch hs : forall n t c,
  hplay N muted ch [] n t (mkH c hs) = cplay N muted (deref_changes hs ch) n t (deref_cstate hs c).
Proof.
  induction n as [|n IH]; intros t c; [reflexivity|].
  cbn [hplay cplay h_c h_store]. rewrite apply_muts_nil.
  cbn [deref_cstate c_next c_stream c_defs c_pend]. rewrite <- deref_apply_changes, map_length.
  set (c1 := mkC (c_next c) _ (c_stream c) (apply_changes ch (t - 1) (c_defs c))).
  pose proof (hfetch_cfetch hs (S (length (c_stream c))) (t # N) c1 None) as F.
  unfold deref_cstate in F at 1. cbn [c_next c_stream c_defs c_pend] in F. subst c1. cbn [c_next c_stream c_defs c_pend] in F.
  destruct (hfetch _ _ hs _ None) as [[oe c']|x|]; destruct (cfetch _ _ _ None) as [[oe' c'']|x'|]; cbn [ores_sim] in F; try contradiction.
  - destruct F as [<- ->]. destruct oe as [e|].
    + destruct (all_ok _) as [pend'| |]; [|reflexivity|reflexivity].
      destruct (p_end (dispatch muted e)); [|reflexivity|reflexivity].
      rewrite IH. reflexivity.
    + rewrite IH. reflexivity.
  - subst x'. reflexivity.
  - reflexivity.
Qed.

(** * pitch of an event whose key is a held object *)
Lemma find_ext {A} (f g : A -> bool) l : (forall x, f x = g x) -> find f l = find g l.
Proof. intros H. induction l as [|x r IH]; [reflexivity|]. cbn [find]. rewrite H, IH. reflexivity. Qed.
Lemma spec_selecting_key_ext f g : (forall k, f k = g k) -> spec_selecting_key f = spec_selecting_key g.
Proof. intros H. unfold spec_selecting_key. rewrite (find_ext f g _ H), !H. reflexivity. Qed.
Lemma selecting_deref st d : spec_selecting_key (dhas (deref_dict st d)) = spec_selecting_key (dhas d).
Proof. apply spec_selecting_key_ext. intros k. apply dhas_deref. Qed.
Lemma shape_deref st defs : defaults_shape defs -> defaults_shape (deref_dict st defs).
Proof. unfold defaults_shape. rewrite deref_fst. exact (fun H => H). Qed.
Lemma degree_floor_deref st dv z : degree_floor dv = Some z -> read_val st K_DEGREE dv = dv.
Proof. destruct dv; try discriminate; reflexivity. Qed.

Definition key_is_held (defs d : dict) (slot : nat) : Prop :=
  dget d K_KEY = Some (held_ref slot) \/ (dget d K_KEY = None /\ dget defs K_KEY = Some (held_ref slot)).
Definition key_is_named (defs d : dict) (s : string) : Prop :=
  dget d K_KEY = Some (VStr s) \/ (dget d K_KEY = None /\ dget defs K_KEY = Some (VStr s)).

Lemma held_key_param st defs d slot k : key_is_held defs d slot -> Held.key_of st slot = Some k ->
  spec_param (deref_dict st defs) (deref_dict st d) [K_KEY] K_KEY = Some (VKey k).
Proof.
  intros [H|[H1 H2]] Hk; [apply (held_key_given st defs d slot k H Hk)|apply (held_key_default st defs d slot k H1 H2 Hk)].
Qed.

Lemma held_scalar_pitch st defs d e slot k dv z ov tv oc tr :
  defaults_shape defs -> resolve (deref_dict st defs) (deref_dict st d) = Ok e ->
  spec_selecting_key (dhas d) = Some K_NOTE ->
  dget d K_NOTE = None -> dget d K_DEGREE = Some dv -> degree_floor dv = Some z ->
  key_is_held defs d slot -> Held.key_of st slot = Some k ->
  spec_param (deref_dict st defs) (deref_dict st d) [K_OCTAVE] K_OCTAVE = Some ov -> py_int ov = Ok oc ->
  spec_param (deref_dict st defs) (deref_dict st d) [K_TRANSPOSE] K_TRANSPOSE = Some tv -> py_int tv = Ok tr ->
  exists a g ch pb, e_body e = BNote (VInt (spec_pitch k z oc tr)) a g ch pb.
Proof.
  intros Hs H Hsel Hn Hd Hf Hheld Hk Ho Hoi Ht Hti.
  pose proof (shape_deref st defs Hs) as Hs'.
  assert (Hsel' : spec_selecting_key (dhas (deref_dict st d)) = Some K_NOTE) by (rewrite selecting_deref; exact Hsel).
  destruct (note_field (deref_dict st defs) (deref_dict st d) e Hs' H Hsel') as (n & a & g & ch & pb & Eb & En).
  rewrite (degree_scalar_pitch (deref_dict st defs) (deref_dict st d) e dv z (VKey k) k ov tv oc tr) in En; try assumption.
  - inversion En; subst n. exists a, g, ch, pb. exact Eb.
  - rewrite dget_deref, Hn. reflexivity.
  - rewrite dget_deref, Hd. cbn [option_map]. rewrite (degree_floor_deref st dv z Hf). reflexivity.
  - apply (held_key_param st defs d slot k Hheld Hk).
  - reflexivity.
Qed.

Lemma held_chord_pitch st defs d e slot k l zs ov tv oc tr :
  defaults_shape defs -> resolve (deref_dict st defs) (deref_dict st d) = Ok e ->
  spec_selecting_key (dhas d) = Some K_NOTE ->
  dget d K_NOTE = None -> (dget d K_DEGREE = Some (VTup l) \/ dget d K_DEGREE = Some (VList l)) -> l <> [] ->
  degree_floors l = Some zs ->
  key_is_held defs d slot -> Held.key_of st slot = Some k ->
  spec_param (deref_dict st defs) (deref_dict st d) [K_OCTAVE] K_OCTAVE = Some ov -> py_int ov = Ok oc ->
  spec_param (deref_dict st defs) (deref_dict st d) [K_TRANSPOSE] K_TRANSPOSE = Some tv -> py_int tv = Ok tr ->
  exists a g ch pb, e_body e = BNote (VList (map (fun z => VInt (spec_pitch k z oc tr)) zs)) a g ch pb.
Proof.
  intros Hs H Hsel Hn Hd Hne Hf Hheld Hk Ho Hoi Ht Hti.
  pose proof (shape_deref st defs Hs) as Hs'.
  assert (Hsel' : spec_selecting_key (dhas (deref_dict st d)) = Some K_NOTE) by (rewrite selecting_deref; exact Hsel).
  destruct (note_field (deref_dict st defs) (deref_dict st d) e Hs' H Hsel') as (n & a & g & ch & pb & Eb & En).
  rewrite (degree_chord_pitch (deref_dict st defs) (deref_dict st d) e l zs (VKey k) k ov tv oc tr) in En; try assumption.
  - inversion En; subst n. exists a, g, ch, pb. exact Eb.
  - rewrite dget_deref, Hn. reflexivity.
  - rewrite !dget_deref. destruct Hd as [Hd|Hd]; rewrite Hd; [left|right]; reflexivity.
  - apply (held_key_param st defs d slot k Hheld Hk).
  - reflexivity.
Qed.

(* an unknown key is an unknown key whatever the held objects are *)
Lemma in_deref st d k v : In (k, v) d -> In (k, read_val st k v) (deref_dict st d).
Proof. intros H. unfold deref_dict. apply in_map_iff. exists (k, v). split; [reflexivity|exact H]. Qed.

(** * pitch of an event whose key is given BY NAME, in the registry of the moment *)
Lemma named_key_param st defs d s k : key_is_named defs d s -> key_of_name_reg st s = Ok k ->
  spec_param (deref_dict st defs) (deref_dict st d) [K_KEY] K_KEY = Some (VKey k).
Proof.
  intros [H|[H1 H2]] Hk; [apply (named_key_given st defs d s k H Hk)|apply (named_key_default st defs d s k H1 H2 Hk)].
Qed.

Lemma named_scalar_pitch st defs d e s k dv z ov tv oc tr :
  defaults_shape defs -> resolve (deref_dict st defs) (deref_dict st d) = Ok e ->
  spec_selecting_key (dhas d) = Some K_NOTE ->
  dget d K_NOTE = None -> dget d K_DEGREE = Some dv -> degree_floor dv = Some z ->
  key_is_named defs d s -> key_of_name_reg st s = Ok k ->
  spec_param (deref_dict st defs) (deref_dict st d) [K_OCTAVE] K_OCTAVE = Some ov -> py_int ov = Ok oc ->
  spec_param (deref_dict st defs) (deref_dict st d) [K_TRANSPOSE] K_TRANSPOSE = Some tv -> py_int tv = Ok tr ->
  exists a g ch pb, e_body e = BNote (VInt (spec_pitch k z oc tr)) a g ch pb.
Proof.
  intros Hs H Hsel Hn Hd Hf Hnamed Hk Ho Hoi Ht Hti.
  pose proof (shape_deref st defs Hs) as Hs'.
  assert (Hsel' : spec_selecting_key (dhas (deref_dict st d)) = Some K_NOTE) by (rewrite selecting_deref; exact Hsel).
  destruct (note_field (deref_dict st defs) (deref_dict st d) e Hs' H Hsel') as (n & a & g & ch & pb & Eb & En).
  rewrite (degree_scalar_pitch (deref_dict st defs) (deref_dict st d) e dv z (VKey k) k ov tv oc tr) in En; try assumption.
  - inversion En; subst n. exists a, g, ch, pb. exact Eb.
  - rewrite dget_deref, Hn. reflexivity.
  - rewrite dget_deref, Hd. cbn [option_map]. rewrite (degree_floor_deref st dv z Hf). reflexivity.
  - apply (named_key_param st defs d s k Hnamed Hk).
  - reflexivity.
Qed.

Lemma named_chord_pitch st defs d e s k l zs ov tv oc tr :
  defaults_shape defs -> resolve (deref_dict st defs) (deref_dict st d) = Ok e ->
  spec_selecting_key (dhas d) = Some K_NOTE ->
  dget d K_NOTE = None -> (dget d K_DEGREE = Some (VTup l) \/ dget d K_DEGREE = Some (VList l)) -> l <> [] ->
  degree_floors l = Some zs ->
  key_is_named defs d s -> key_of_name_reg st s = Ok k ->
  spec_param (deref_dict st defs) (deref_dict st d) [K_OCTAVE] K_OCTAVE = Some ov -> py_int ov = Ok oc ->
  spec_param (deref_dict st defs) (deref_dict st d) [K_TRANSPOSE] K_TRANSPOSE = Some tv -> py_int tv = Ok tr ->
  exists a g ch pb, e_body e = BNote (VList (map (fun z => VInt (spec_pitch k z oc tr)) zs)) a g ch pb.
Proof.
  intros Hs H Hsel Hn Hd Hne Hf Hnamed Hk Ho Hoi Ht Hti.
  pose proof (shape_deref st defs Hs) as Hs'.
  assert (Hsel' : spec_selecting_key (dhas (deref_dict st d)) = Some K_NOTE) by (rewrite selecting_deref; exact Hsel).
  destruct (note_field (deref_dict st defs) (deref_dict st d) e Hs' H Hsel') as (n & a & g & ch & pb & Eb & En).
  rewrite (degree_chord_pitch (deref_dict st defs) (deref_dict st d) e l zs (VKey k) k ov tv oc tr) in En; try assumption.
  - inversion En; subst n. exists a, g, ch, pb. exact Eb.
  - rewrite dget_deref, Hn. reflexivity.
  - rewrite !dget_deref. destruct Hd as [Hd|Hd]; rewrite Hd; [left|right]; reflexivity.
  - apply (named_key_param st defs d s k Hnamed Hk).
  - reflexivity.
Qed.

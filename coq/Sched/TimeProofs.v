(* Sched/TimeProofs.v — the timeline's clock: only Timeline.tick advances it, by exactly one tick,
   and only when the tick completes (C01 "Timeline.current_time after each tick", C17 "its time keeps
   advancing by one tick per tick"). *)
From Isobar Require Import Base.Prelude Sched.Model.

Lemma remove_track_now tl id : now (remove_track tl id) = now tl.
Proof. unfold remove_track. destruct (find_track id (tracks tl)); reflexivity. Qed.

Lemma track_update_now cfg tl tr s q d c : now (fst (track_update cfg tl tr s q d c)) = now tl.
Proof. unfold track_update. destruct ((_ =? 0) && (_ =? 0)); reflexivity. Qed.

Lemma clear_now l : forall tl, now (fold_left (fun tl' tr => remove_track tl' (t_id tr)) l tl) = now tl.
Proof. induction l as [|t r IH]; intros tl; simpl; [reflexivity|]. rewrite IH. apply remove_track_now. Qed.

Lemma exec_op_now cfg tl o : now (fst (exec_op cfg tl o)) = now tl.
Proof.
  destruct o as [|s q d count rwd name replace|t s q d count|t| |t|t|t x|q d]; simpl; try reflexivity.
  - destruct (match name with
              | Some nm => if replace then match find_named nm (tracks tl) with Some tr => Some (nm, tr) | None => None end else None
              | None => None end) as [[nm tr]|].
    + pose proof (track_update_now cfg tl tr s q d count) as H.
      destruct (track_update cfg tl tr s q d count) as [tl1 tr1]. simpl in *. exact H.
    + destruct (negb (max_tracks cfg =? 0) && (max_tracks cfg <=? Z.of_nat (length (tracks tl)))); [reflexivity|].
      pose proof (track_update_now cfg tl (new_track (next_id tl) count rwd name) s q d None) as H.
      destruct (track_update cfg tl (new_track (next_id tl) count rwd name) s q d None) as [tl1 tr1]. simpl in *. exact H.
  - destruct (find_track t (tracks tl)) as [tr|].
    + pose proof (track_update_now cfg tl tr s q d count) as H.
      destruct (track_update cfg tl tr s q d count) as [tl1 tr1]. simpl in *. exact H.
    + destruct (t <? next_id tl)%nat; [|reflexivity].
      pose proof (track_update_now cfg tl (new_track t None true None) s q d count) as H.
      destruct (track_update cfg tl (new_track t None true None) s q d count) as [tl1 tr1]. simpl in *. exact H.
  - destruct (find_track t (tracks tl)); simpl; [apply remove_track_now|reflexivity].
  - apply clear_now.
  - destruct (find_track t (tracks tl)); reflexivity.
  - destruct (find_track t (tracks tl)); reflexivity.
  - destruct (find_track t (tracks tl)); reflexivity.
Qed.

Lemma exec_cb_ops_now cfg ops : forall tl, now (exec_cb_ops cfg tl ops) = now tl.
Proof.
  induction ops as [|o r IH]; intros tl; simpl; [reflexivity|].
  pose proof (exec_op_now cfg tl o) as H. destruct (exec_op cfg tl o) as [tl' res]. simpl in H.
  destruct res; try exact H. rewrite IH. exact H.
Qed.

Lemma phase_actions_now todo : forall tl kept calls,
  now (fst (fst (phase_actions tl todo kept calls))) = now tl.
Proof.
  induction todo as [|a r IH]; intros tl kept calls; simpl; [reflexivity|].
  destruct (a_time a <=? now tl).
  - destruct a as [t id s|t n c]; simpl.
    + destruct (find_track id (tracks tl)); rewrite IH; reflexivity.
    + rewrite IH. reflexivity.
  - apply IH.
Qed.

Lemma finish_track_now cfg tl id st : now (finish_track cfg tl id st) = now tl.
Proof.
  unfold finish_track. destruct (find_track id (tracks tl)) as [tr2|]; [|reflexivity].
  destruct (t_finished (track_tick_b cfg tr2 st) && t_rwd (track_tick_b cfg tr2 st));
    [rewrite remove_track_now|]; reflexivity.
Qed.

Lemma end_stream_now tl id : now (end_stream tl id) = now tl.
Proof. unfold end_stream. destruct (find_track id (tracks tl)); reflexivity. Qed.

Lemma tick_one_now cfg tl id : now (fst (fst (tick_one cfg tl id))) = now tl.
Proof.
  unfold tick_one. destruct (find_track id (tracks tl)) as [tr|]; [|reflexivity].
  destruct (track_tick_a cfg (now tl) tr (dev_calls tl)) as [[[tr1 c] n'] res].
  destruct res; simpl.
  - destruct (t_finished tr1 && t_rwd tr1); [rewrite remove_track_now|]; reflexivity.
  - rewrite finish_track_now. reflexivity.
  - rewrite finish_track_now. reflexivity.
  - destruct (ignore_exc cfg); simpl; [rewrite remove_track_now|]; reflexivity.
  - destruct (nth cb (cbs cfg) (CbNone, [])) as [rk ops]. simpl.
    rewrite finish_track_now.
    match goal with |- context [if ?b then _ else _] => destruct b end; [rewrite end_stream_now|]; rewrite exec_cb_ops_now; reflexivity.
  - reflexivity.
Qed.

Lemma phase_tracks_now cfg ids : forall tl calls,
  now (fst (fst (phase_tracks cfg tl ids calls))) = now tl.
Proof.
  induction ids as [|id r IH]; intros tl calls; simpl; [reflexivity|].
  pose proof (tick_one_now cfg tl id) as H.
  destruct (tick_one cfg tl id) as [[tl' c] abort]. simpl in H.
  destruct abort; simpl; [exact H|]. rewrite IH. exact H.
Qed.

(* Timeline.tick: the clock advances by exactly one tick iff the tick completes *)
Theorem tl_tick_now cfg tl :
  let '(tl', _, res) := tl_tick cfg tl in
  now tl' = match res with ROk => now tl + tau cfg | _ => now tl end.
Proof.
  unfold tl_tick.
  destruct (phase_noteoffs (tracks tl)) as [trs1 c1].
  pose proof (phase_actions_now (actions (set_tracks tl trs1)) (set_actions (set_tracks tl trs1) []) [] []) as HA.
  destruct (phase_actions (set_actions (set_tracks tl trs1) []) (actions (set_tracks tl trs1)) [] []) as [[tl2 kept] c3].
  simpl in HA.
  pose proof (phase_tracks_now cfg (map t_id (tracks (set_actions tl2 (kept ++ actions tl2)))) (set_actions tl2 (kept ++ actions tl2)) []) as HT.
  destruct (phase_tracks cfg (set_actions tl2 (kept ++ actions tl2)) (map t_id (tracks (set_actions tl2 (kept ++ actions tl2)))) []) as [[tl4 c4] res].
  simpl in HT.
  destruct res; try (simpl; congruence).
  destruct ((match tracks tl4, actions tl4 with [], [] => true | _, _ => false end) && stop_when_done cfg); simpl; congruence.
Qed.

(* any other operation leaves the clock alone *)
Theorem step_now cfg tl o :
  let '(tl', _, res) := step cfg tl o in
  now tl' = match o, res with OTick, ROk => now tl + tau cfg | _, _ => now tl end.
Proof.
  destruct o.
  1: { simpl. pose proof (tl_tick_now cfg tl) as H. destruct (tl_tick cfg tl) as [[tl' c] res]. destruct res; exact H. }
  all: unfold step;
    match goal with |- context [exec_op ?c ?t ?o] =>
      pose proof (exec_op_now c t o) as H; destruct (exec_op c t o) as [tl' r]; simpl in *; exact H end.
Qed.

(* after a history in which every tick completed, the clock reads (number of ticks) * tau *)
Fixpoint ticks_in (ops : list op) : Z :=
  match ops with [] => 0 | OTick :: r => 1 + ticks_in r | _ :: r => ticks_in r end.
Fixpoint all_ticks_ok (cfg : config) (tl : timeline) (ops : list op) : bool :=
  match ops with
  | [] => true
  | o :: r => let '(tl', _, res) := step cfg tl o in
              (match o, res with OTick, ROk => true | OTick, _ => false | _, _ => true end) && all_ticks_ok cfg tl' r
  end.
Theorem run_now cfg ops : forall tl, all_ticks_ok cfg tl ops = true ->
  now (run_state cfg tl ops) = now tl + ticks_in ops * tau cfg.
Proof.
  induction ops as [|o r IH]; intros tl H; [simpl; lia|].
  cbn [run_state all_ticks_ok] in *.
  pose proof (step_now cfg tl o) as S. destruct (step cfg tl o) as [[tl' c] res].
  apply andb_true_iff in H as [H1 H2]. rewrite (IH tl' H2).
  destruct o; cbn [ticks_in]; try (rewrite S; lia).
  destruct res; try discriminate. rewrite S. lia.
Qed.

(* Sched/DevFile.v — C17 with a REAL, STATEFUL output device behind the scheduler.

   In Sched/Model.v the device is a recording stub with a scripted fault: the [dev_fail]-th note_on / control /
   program_change call raises.  A real device keeps state of its own between calls - MidiFileOutputDevice
   (isobar/io/midifile/output.py) the running time and the time of the last message written, from which it computes
   the delta time of the next one - and it is the device that refuses a call: mido.Message(...) raises ValueError for a
   data byte outside 0..127 (a line that climbs past note 127, an amplitude above 127).  "Every other track's output is
   identical to a run without the failing track" is then a statement about what ends up IN THE FILE / ON THE WIRE, and it
   needs, besides the scheduler removing the failing track, that the refused call left the device's state untouched.

   This file composes the scheduler model with the device state machine of IO/FileWire.v (read-only reuse: [fdev],
   [f_step]: a request mido rejects is [FReq m] with [msg_valid m = false] and leaves the device as it was):
     [msg_of_call]   the request a scheduler call makes on the device (Track.perform_event / process_note_offs);
     [wire_ops k]    what the device receives during a run: per timeline tick the requests of that tick (refused ones
                     included), then k device ticks (Timeline.tick: `for tick in range(ticks): device.tick()`, k = device
                     ticks per timeline tick, 480 / ticks_per_beat for the MIDI file);
     [placed k]      the requests the device accepts, each with the device tick it was made on - by
                     FileWire.file_absolute_ticks the absolute position of every message of the written file; for
                     MidiOutputDevice (stateless: mido.Message, then port.send) the tick on which the bytes reach the port;
     [sched_file]    the file written by a scheduler history.
   The fault of the scheduler model stays the counter [dev_fail = Some j]; that the j-th call is the one the real device
   refuses (the first call whose data mido rejects) is established per run by the correspondence check.
   [own_clean cfg i tl h]: throughout the history the refused call is never one of track i's (executable; implied by "all of
   track i's data is valid").  Definitions only; theorems in Sched/DevFileProofs.v. *)
From Isobar Require Import Base.Prelude Sched.Model Sched.Obs Sched.MergeProofs Sched.ReachProofs IO.MidiBytes IO.FileWire.
Open Scope Z_scope.

(* the same configuration with a device that refuses nothing *)
Definition no_fail (cfg : config) : config :=
  mkConfig (tau cfg) (cbs cfg) (latency cfg) (max_tracks cfg) (stop_when_done cfg) (ignore_exc cfg) None (fuel cfg).

(** * From scheduler calls to device requests *)
Definition msg_of_call (c : call) : list midi_msg :=
  match c with
  | CNoteOn n v ch => [NoteOn ch n v]
  | CNoteOff n ch => [NoteOff ch n default_release_velocity]
  | CControl k v ch => [ControlChange ch k v]
  | CProgram p ch => [ProgramChange ch p]
  | CCallback _ => []                           (* an action callback is not a device call *)
  end.
Definition msgs_of_calls (cs : list call) : list midi_msg := flat_map msg_of_call cs.

Definition msg_chan (m : midi_msg) : Z :=
  match m with
  | NoteOn c _ _ | NoteOff c _ _ | ControlChange c _ _ | ProgramChange c _ | ChannelPressure c _ | PitchWheel c _ => c
  end.
Definition msg_on (pc : Z -> bool) (m : midi_msg) : bool := pc (msg_chan m).

(** * What the device receives, and where the accepted requests land *)
Definition wire_ops (k : Z) (ticks : list (list midi_msg)) : list fop :=
  flat_map (fun ms => map FReq ms ++ [FTicks k]) ticks.

Fixpoint placed (k t0 : Z) (ticks : list (list midi_msg)) : list tmsg :=
  match ticks with
  | [] => []
  | ms :: r => map (pair t0) (filter msg_valid ms) ++ placed k (t0 + k) r
  end.

(* the MIDI file written by the history h under cfg (delta times), and the per-tick requests behind it *)
Definition sched_ticks (cfg : config) (h : list op) : list (list midi_msg) := map msgs_of_calls (tick_calls cfg tl0 h).
Definition sched_file (k : Z) (cfg : config) (h : list op) : list tmsg := file_written (wire_ops k (sched_ticks cfg h)).

(** * The refused call is never one of track i's *)
(* does the scripted refusal fall into this turn?  (the turn's calls are numbered n, n+1, ... below the counter the turn
   would reach on a device that refuses nothing) *)
Definition in_turn (cfg : config) (nowT : Z) (tr : track) (n : nat) : bool :=
  match dev_fail cfg with
  | None => false
  | Some j => let '(_, _, n', _) := track_tick_a (no_fail cfg) nowT tr n in (n <=? j)%nat && (j <? n')%nat
  end.
Definition turn_clean (cfg : config) (tl : timeline) (i : nat) : bool :=
  match find_track i (tracks tl) with
  | Some tr => negb (in_turn cfg (now tl) tr (dev_calls tl))
  | None => true
  end.
Fixpoint clean_phase (cfg : config) (i : nat) (tl : timeline) (ids : list nat) : bool :=
  match ids with
  | [] => true
  | id :: r =>
      (if (id =? i)%nat then turn_clean cfg tl i else true) &&
      (let '(tl', _, ab) := tick_one cfg tl id in
       match ab with Some _ => true | None => clean_phase cfg i tl' r end)
  end.
Definition clean_tick (cfg : config) (i : nat) (tl : timeline) : bool :=
  clean_phase cfg i (tick_pre tl) (map t_id (tracks (tick_pre tl))).
Fixpoint own_clean (cfg : config) (i : nat) (tl : timeline) (h : list op) : bool :=
  match h with
  | [] => true
  | o :: r => (match o with OTick => clean_tick cfg i tl | _ => true end)
              && own_clean cfg i (fst (fst (step cfg tl o))) r
  end.

(** * For the correspondence check *)
(* the saved file (delta time, bytes of every channel message, in file order) is the file of the model *)
Definition sched_file_agrees (k : Z) (cfg : config) (h : list (op * Z)) (observed : list (Z * list Z)) : bool :=
  all2f tmsg_agrees (sched_file k cfg (expand h)) observed.
(* the bytes that reached the port during each timeline tick *)
Definition sched_port_agrees (cfg : config) (h : list (op * Z)) (observed : list (list (list Z))) : bool :=
  all2f (fun (ms : list midi_msg) (bs : list (list Z)) => all2f same_request (filter msg_valid ms) bs)
        (sched_ticks cfg (expand h)) observed.

(* Sched/Reconf.v — C17: histories in which the tolerance switch is re-configured on an existing Timeline.

   `Timeline.ignore_exceptions` is a public attribute: isobar/shorthand/setup.py builds the Timeline first and assigns
   the attribute afterwards, and a live coder flips it during a performance.  Timeline.tick reads the attribute when a
   track raises ("except Exception as e: if self.ignore_exceptions: ... else: raise"), so the mode that counts is the one
   in force when the fault strikes, not the one the constructor was given.

   In Sched/Model.v the switch is the field [ignore_exc] of the configuration, which [run] keeps fixed.  Here the
   history alphabet is widened by one letter, [RFlag b] = `timeline.ignore_exceptions = b`, which changes the
   configuration the rest of the history runs under ([set_ignore]); every other letter is an operation of
   Sched/Model.v, executed by Sched/Model.v's own [step].  A flip between two segments is
       run (set_ignore cfg b) (run_state cfg tl ops1) ops2        (theorem rrun_two_segments).
   Definitions only; the theorems are in Sched/ReconfProofs.v. *)
From Isobar Require Import Base.Prelude Sched.Model Sched.Obs.

Definition set_ignore (cfg : config) (b : bool) : config :=
  mkConfig (tau cfg) (cbs cfg) (latency cfg) (max_tracks cfg) (stop_when_done cfg) b (dev_fail cfg) (fuel cfg).

Inductive rop :=
| RO (o : op)               (* an operation of Sched/Model.v *)
| RFlag (b : bool).         (* timeline.ignore_exceptions = b *)

(* the observation of an assignment: no call, no exception, the scheduled tracks unchanged *)
Fixpoint rrun (cfg : config) (tl : timeline) (l : list rop) : list obs :=
  match l with
  | [] => []
  | RO o :: r => let '(tl', c, res) := step cfg tl o in (c, res, map t_id (tracks tl')) :: rrun cfg tl' r
  | RFlag b :: r => ([], ROk, map t_id (tracks tl)) :: rrun (set_ignore cfg b) tl r
  end.
Fixpoint rrun_state (cfg : config) (tl : timeline) (l : list rop) : timeline :=
  match l with
  | [] => tl
  | RO o :: r => let '(tl', _, _) := step cfg tl o in rrun_state cfg tl' r
  | RFlag b :: r => rrun_state (set_ignore cfg b) tl r
  end.
(* the configuration in force after the history *)
Fixpoint rrun_cfg (cfg : config) (l : list rop) : config :=
  match l with
  | [] => cfg
  | RO _ :: r => rrun_cfg cfg r
  | RFlag b :: r => rrun_cfg (set_ignore cfg b) r
  end.
(* the value of the switch when each letter of the history is executed *)
Fixpoint rflags (cfg : config) (l : list rop) : list bool :=
  match l with
  | [] => []
  | RO _ :: r => ignore_exc cfg :: rflags cfg r
  | RFlag b :: r => ignore_exc cfg :: rflags (set_ignore cfg b) r
  end.

(* the calls of every tick, tick by tick (as MergeProofs.tick_calls) *)
Fixpoint rtick_calls (cfg : config) (tl : timeline) (l : list rop) : list (list call) :=
  match l with
  | [] => []
  | RO o :: r => let '(tl', c, _) := step cfg tl o in
                 (match o with OTick => [c] | _ => [] end) ++ rtick_calls cfg tl' r
  | RFlag b :: r => rtick_calls (set_ignore cfg b) tl r
  end.
Fixpoint rticks_in (l : list rop) : Z :=
  match l with [] => 0 | RO OTick :: r => 1 + rticks_in r | _ :: r => rticks_in r end.
(* every tick of the history completed *)
Fixpoint rall_ticks_ok (cfg : config) (tl : timeline) (l : list rop) : bool :=
  match l with
  | [] => true
  | RO o :: r => let '(tl', _, res) := step cfg tl o in
                 (match o, res with OTick, ROk => true | OTick, _ => false | _, _ => true end) && rall_ticks_ok cfg tl' r
  | RFlag b :: r => rall_ticks_ok (set_ignore cfg b) tl r
  end.
(* no tick ran into the model's own fuel bound *)
Fixpoint rno_fuel_out (cfg : config) (tl : timeline) (l : list rop) : bool :=
  match l with
  | [] => true
  | RO o :: r => let '(tl', _, res) := step cfg tl o in
                 (match o, res with OTick, ROutOfFuel => false | _, _ => true end) && rno_fuel_out cfg tl' r
  | RFlag b :: r => rno_fuel_out (set_ignore cfg b) tl r
  end.
(* every tick of the history runs while the switch is on *)
Fixpoint rticks_tolerant (cfg : config) (l : list rop) : bool :=
  match l with
  | [] => true
  | RO OTick :: r => ignore_exc cfg && rticks_tolerant cfg r
  | RO _ :: r => rticks_tolerant cfg r
  | RFlag b :: r => rticks_tolerant (set_ignore cfg b) r
  end.

(** * For the correspondence check: histories with repeat counts, sparse comparison (as Sched/Obs.v) *)
Fixpoint rexpand (l : list (rop * Z)) : list rop :=
  match l with
  | [] => []
  | (o, n) :: r => repeat o (Z.to_nat n) ++ rexpand r
  end.
Definition rhop (o : rop) (n : Z) : rop * Z := (o, n).
Definition ragrees (cfg : config) (h : list (rop * Z)) (expected : list sobs) : bool :=
  list_eqb sobs_eqb (sparse (rrun cfg tl0 (rexpand h))) expected.
Definition rout_of_fuel (cfg : config) (h : list (rop * Z)) : bool :=
  existsb (fun o => opres_eqb (snd (fst o)) ROutOfFuel) (rrun cfg tl0 (rexpand h)).

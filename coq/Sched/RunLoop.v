(* Sched/RunLoop.v — C17 over the whole LIFE of a Timeline object: run() on top of tick(), and a timeline used for several runs.

   Timeline.run() (isobar/timelines/timeline.py) adds one thing to tick(): the clock source calls tick() until something is
   raised, and run() decides what becomes of it,
       except StopIteration:   return                                  ("Timeline: Finished", stop_when_done)
       except Exception as e:  print(...); if not self.ignore_exceptions: raise e
   Timeline.background() / start() run the same run() on a thread of its own; stop() stops devices and clock; reset() rewinds
   the clock (and the tracks).  None of these keeps anything that the NEXT run may consult: the specification of run() is a
   function of the configuration in force and of the state the timeline is in when it is called - whatever runs the object has
   been through before (in the foreground or in the background, ended by itself or stopped, reset or not).

   [run_loop] is that specification over Sched/Model.v's tick; the life of a timeline is a history over the alphabet [lop]
   (operations of Sched/Model.v, foreground runs, background runs, stop, reset), every letter executed by Sched/Model.v's own
   functions from the state the previous letters left: `run cfg (run_state cfg tl ops1) ops2` with runs in between.
   Definitions only; theorems in Sched/RunLoopProofs.v. *)
From Isobar Require Import Base.Prelude Sched.Model Sched.Obs.

(** * run(): tick until something is raised, then decide *)
Inductive run_end :=
| RunReturned        (* StopIteration: every track has finished (stop_when_done) - run() returns *)
| RunSwallowed       (* an exception reached run() with ignore_exceptions set: printed, run() returns *)
| RunRaised          (* an exception reached run() with ignore_exceptions unset: re-raised to the caller of run() *)
| RunBudget          (* the model's bound on the number of ticks of one run (the code has none) *)
| RunOutOfFuel.      (* the model's own fuel bound inside a tick *)

(* the decision, as a function of the switch and of what the tick raised: no other state enters *)
Definition run_decision (ignore : bool) (res : opres) : run_end :=
  match res with
  | RStopIteration => RunReturned
  | RException => if ignore then RunSwallowed else RunRaised
  | _ => RunOutOfFuel
  end.

(* the calls of every tick of the run (the tick that raised included), the state afterwards, how the run ended *)
Fixpoint run_loop (cfg : config) (budget : nat) (tl : timeline) : timeline * list (list call) * run_end :=
  match budget with
  | O => (tl, [], RunBudget)
  | S b =>
      let '(tl', c, res) := tl_tick cfg tl in
      match res with
      | ROk => let '(tl'', cs, e) := run_loop cfg b tl' in (tl'', c :: cs, e)
      | _ => (tl', [c], run_decision (ignore_exc cfg) res)
      end
  end.

(* the result of the first tick of the run that does not complete *)
Fixpoint first_stop (cfg : config) (budget : nat) (tl : timeline) : option opres :=
  match budget with
  | O => None
  | S b => let '(tl', _, res) := tl_tick cfg tl in
           match res with ROk => first_stop cfg b tl' | _ => Some res end
  end.

(** * The life of a timeline object *)
Inductive lop :=
| LOp (o : op)                 (* schedule / update / unschedule / ... / a hand-made tick() *)
| LRun (budget : nat)          (* timeline.run() in the foreground *)
| LBackground (budget : nat)   (* timeline.background() / start(): run() on a thread; here: until that run has ended *)
| LStop                        (* timeline.stop(): devices and clock are stopped; the timeline's own state is untouched *)
| LReset.                      (* timeline.reset(): current_time = 0, every track rewound *)

(* Track.reset: current_time = 0, next_event_time = 0, the patterns of the event stream reset *)
Definition track_reset (tr : track) : track :=
  mkTrack (t_id tr) (mkStream (s_items (t_stream tr)) 0 (s_cyclic (t_stream tr))) 0 0 (t_max tr) (t_count tr) (t_offs tr)
          (t_muted tr) (t_started tr) (t_finished tr) (t_rwd tr) (t_name tr).
Definition tl_reset (tl : timeline) : timeline :=
  mkTL 0 (map track_reset (tracks tl)) (actions tl) (next_id tl) (def_q tl) (def_d tl) (dev_calls tl).

Inductive lobs :=
| OOp (c : list call) (r : opres)
| ORun (ticks : list (list call)) (e : run_end)
| OQuiet.

Definition lstep (cfg : config) (tl : timeline) (o : lop) : timeline * lobs :=
  match o with
  | LOp o => let '(tl', c, r) := step cfg tl o in (tl', OOp c r)
  | LRun b | LBackground b => let '(tl', cs, e) := run_loop cfg b tl in (tl', ORun cs e)
  | LStop => (tl, OQuiet)
  | LReset => (tl_reset tl, OQuiet)
  end.

Fixpoint life (cfg : config) (tl : timeline) (l : list lop) : list lobs :=
  match l with
  | [] => []
  | o :: r => let '(tl', ob) := lstep cfg tl o in ob :: life cfg tl' r
  end.
Fixpoint life_state (cfg : config) (tl : timeline) (l : list lop) : timeline :=
  match l with
  | [] => tl
  | o :: r => life_state cfg (fst (lstep cfg tl o)) r
  end.

(* the same life with every background run made in the foreground *)
Definition in_foreground (o : lop) : lop := match o with LBackground b => LRun b | _ => o end.

(** * For the correspondence check: the runs of a life (calls per tick, how each ended) and the clock at the end *)
Definition run_end_eqb (a b : run_end) : bool :=
  match a, b with
  | RunReturned, RunReturned | RunSwallowed, RunSwallowed | RunRaised, RunRaised | RunBudget, RunBudget | RunOutOfFuel, RunOutOfFuel => true
  | _, _ => false
  end.
Fixpoint runs_of (l : list lobs) : list (list (list call) * run_end) :=
  match l with
  | [] => []
  | ORun cs e :: r => (cs, e) :: runs_of r
  | _ :: r => runs_of r
  end.
Definition lrun_obs (cs : list (list call)) (e : run_end) : list (list call) * run_end := (cs, e).
Definition life_agrees (cfg : config) (l : list lop) (expected : list (list (list call) * run_end)) (now_end : Z) : bool :=
  list_eqb (fun a b => list_eqb (list_eqb call_eqb) (fst a) (fst b) && run_end_eqb (snd a) (snd b)) (runs_of (life cfg tl0 l)) expected
  && (now (life_state cfg tl0 l) =? now_end).
Definition life_unknown (cfg : config) (l : list lop) : bool :=
  existsb (fun r => match snd r with RunBudget | RunOutOfFuel => true | _ => false end) (runs_of (life cfg tl0 l)).

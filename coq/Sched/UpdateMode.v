(* Sched/UpdateMode.v — C05, updates that change more than the event stream (definitions; proofs in Props/C05Widened.v).

   (k) Track.update(events, quantize, delay, interpolate=...) requests a deferred replacement of the PAIR (event stream,
       settings of the track that travel with it: the interpolation mode).  track.py: update() hands `interpolate` to the
       immediate / deferred start(); start() installs the stream, sets next_event_time = current_time and then the mode.
       Nothing of it may show before the switch tick.  The statement is independent of what a track does in a tick, so the
       track is an arbitrary machine [step : M -> S -> O * S] (M = settings, S = state incl. stream, O = what is heard in a
       tick): Sched/Model.v's stepped track, Sched/Interp.v's interpolating [tick cospi tpb mode maxc], or both glued.
       [utick] is the track with at most one pending replacement; [w] = ticks still to go before the switch tick.

   (l) Several output devices.  Track.update adds the latency compensation of `self.output_device` - the device the TRACK
       plays on - to the delay.  Model.v's configuration has one [latency]; [track_update_on] selects it per device. *)
From Isobar Require Import Base.Prelude Sched.Model.

Section Deferred.
  Variables (M St Out : Type).
  Variable step : M -> St -> Out * St.

  Record ustate := mkU { u_cfg : M; u_st : St; u_pend : option (nat * M * St) }.

  (* one tick of the timeline for this track: a due start() runs in the action phase, before the track's turn *)
  Definition utick (u : ustate) : Out * ustate :=
    match u_pend u with
    | Some (O, m', s') => let (o, s'') := step m' s' in (o, mkU m' s'' None)
    | Some (S w, m', s') => let (o, s1) := step (u_cfg u) (u_st u) in (o, mkU (u_cfg u) s1 (Some (w, m', s')))
    | None => let (o, s1) := step (u_cfg u) (u_st u) in (o, mkU (u_cfg u) s1 None)
    end.
  Fixpoint utrace (n : nat) (u : ustate) : list Out :=
    match n with O => [] | S k => let (o, u') := utick u in o :: utrace k u' end.
  (* the machine left alone *)
  Fixpoint trace (m : M) (n : nat) (s : St) : list Out :=
    match n with O => [] | S k => let (o, s') := step m s in o :: trace m k s' end.
End Deferred.
Arguments mkU {M St}. Arguments utick {M St Out}. Arguments utrace {M St Out}. Arguments trace {M St Out}.

(** (l) per-device latency compensation *)
Definition with_latency (cfg : config) (l : Z) : config :=
  mkConfig (tau cfg) (cbs cfg) l (max_tracks cfg) (stop_when_done cfg) (ignore_exc cfg) (dev_fail cfg) (fuel cfg).
(* lats: added latency of the timeline's output devices in units, device 0 = the default device *)
Definition device_latency (lats : list Z) (dev : nat) : Z := nth dev lats 0.
(* Track.update of a track that plays on device [dev] *)
Definition track_update_on (cfg : config) (lats : list Z) (dev : nat) (tl : timeline) (tr : track) (s : stream)
  (q d count : option Z) : timeline * track :=
  track_update (with_latency cfg (device_latency lats dev)) tl tr s q d count.

(* Sched/InterpLoopProofs.v - a looped sequence of control points gives the same segment curve on every pass. *)
From Isobar Require Import Base.Prelude Sched.Interp Sched.InterpProofs Sched.InterpLoop.
From Coq Require Import QArith String.
Local Notation length := List.length (only parsing).
Local Open Scope Z_scope.

Lemma nth_pass {A} (P : list A) d : forall n k j tail, (k < n)%nat -> (j < length P)%nat ->
  nth (k * length P + j) (List.concat (repeat P n) ++ tail) d = nth j P d.
Proof.
  induction n as [|n IH]; intros k j tail Hk Hj; [lia|].
  cbn [repeat List.concat]. rewrite <- app_assoc. destruct k as [|k].
  - simpl. apply app_nth1. exact Hj.
  - replace (S k * length P + j)%nat with (length P + (k * length P + j))%nat by lia.
    rewrite app_nth2_plus. apply IH; [lia|exact Hj].
Qed.

Lemma concat_repeat_length {A} (P : list A) n : length (List.concat (repeat P n)) = (n * length P)%nat.
Proof. induction n; simpl; [reflexivity|]. rewrite app_length, IHn. reflexivity. Qed.

Section Loop.
Variable cospi : Q -> Q.
Variable tpb : Z.
Variable mode : imode.

Notation all_segsM := (all_segs cospi tpb mode).
Notation passM := (pass_curve cospi tpb mode).

Lemma all_segs_looped e r n :
  all_segsM e (r ++ looped (e :: r) n) = List.concat (repeat (passM e r) n) ++ all_segsM e r.
Proof.
  induction n as [|n IH].
  - unfold looped. simpl. rewrite app_nil_r. reflexivity.
  - unfold looped in *. cbn [repeat List.concat].
    change ((e :: r) ++ List.concat (repeat (e :: r) n)) with (e :: (r ++ List.concat (repeat (e :: r) n))).
    rewrite all_segs_app, IH, app_assoc. reflexivity.
Qed.

Lemma segs_looped e r n :
  segs cospi tpb mode (looped (e :: r) (S n)) = List.concat (repeat (passM e r) n) ++ all_segsM e r.
Proof. unfold looped. cbn [repeat List.concat]. simpl. apply all_segs_looped. Qed.

Lemma pass_curve_length e r : length (passM e r) = ticks_of tpb (e :: r).
Proof.
  unfold pass_curve. rewrite all_segs_length.
  change (e :: r ++ [e]) with ((e :: r) ++ [e]). rewrite removelast_last. reflexivity.
Qed.

(* the whole trace of the looped track: first message, then n times the curve of one pass, then the last (open) pass *)
Lemma run_looped maxc e r n : (maxc = None \/ maxc = Some 0) ->
  let l := looped (e :: r) (S n) in
  all_num l -> chain_ok_list l = true ->
  forall m, run cospi tpb mode maxc m (init l)
            = pad m (first_list tpb l ++ List.concat (repeat (passM e r) n) ++ all_segsM e r).
Proof.
  cbv zeta. intros Hm Hn Hok m. rewrite (run_spec cospi tpb mode maxc _ Hn m).
  rewrite (eff_unlimited maxc Hm), (spec_ok _ _ _ _ Hok), segs_looped. reflexivity.
Qed.

(* message j of pass k is message j of the one-pass curve, whatever k *)
Lemma looped_pass_msg maxc e r n k j m : (maxc = None \/ maxc = Some 0) ->
  let l := looped (e :: r) (S n) in
  all_num l -> chain_ok_list l = true ->
  (1 <= ticks_of tpb (e :: r))%nat ->
  (k < n)%nat -> (j < ticks_of tpb (e :: r))%nat ->
  (pass_tick (ticks_of tpb (e :: r)) k j < m)%nat ->
  nth (pass_tick (ticks_of tpb (e :: r)) k j) (run cospi tpb mode maxc m (init l)) ONone = nth j (passM e r) ONone.
Proof.
  cbv zeta. intros Hm Hn Hok HP Hk Hj Hlt. rewrite (run_looped maxc e r n Hm Hn Hok m).
  rewrite (nth_pad _ _ _ Hlt). set (l := looped (e :: r) (S n)).
  assert (HF : length (first_list tpb l) = 1%nat).
  { rewrite first_list_length. unfold l, looped. cbn [repeat List.concat].
    destruct (Nat.eqb_spec (ticks_of tpb (removelast ((e :: r) ++ List.concat (repeat (e :: r) n)))) 0%nat) as [E|]; [|reflexivity].
    exfalso. destruct n as [|n']; [lia|]. cbn [repeat List.concat] in E.
    rewrite removelast_app in E by discriminate. rewrite ticks_of_app in E. lia. }
  unfold pass_tick. replace (1 + k * ticks_of tpb (e :: r) + j)%nat
    with (length (first_list tpb l) + (k * length (passM e r) + j))%nat by (rewrite HF, pass_curve_length; lia).
  rewrite app_nth2_plus. apply nth_pass; [exact Hk|rewrite pass_curve_length; exact Hj].
Qed.

End Loop.

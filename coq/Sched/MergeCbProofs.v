(* Sched/MergeCbProofs.v — C07, the merge theorem for configurations whose CALLBACKS PERFORM TIMELINE OPERATIONS, i.e. for
   histories in which the set of tracks changes DURING the track phase of a tick (an action event of one track
   unschedules / mutes / updates / nudges another track, stops its own track, or schedules a new track, while the
   neighbours have events due on that very tick), and the snapshot semantics of the track phase.

   Sched/MergeProofs.v proves the merge theorem under [cb_noops] (callbacks perform no operation).  Here that hypothesis
   is replaced by the weakest one the statement allows for the observed track i:
     - a callback OWNED by i (pb cb = true) performs only operations aimed at i itself (stop / mute / unmute / nudge /
       update of track i) - they happen in the solo run as well;
     - every other callback performs only operations that do not concern i: unschedule / mute / unmute / nudge / update
       of tracks other than i, unnamed schedule calls whose streams stay outside i's channels - none of them happens in
       the solo run.
   [sim], [solo], [hist_wf], [tl_at] are those of Sched/MergeProofs.v, unchanged. *)
From Isobar Require Import Base.Prelude Sched.Model Sched.NoteOffProofs Sched.TimeProofs Sched.MergeProofs.

(** * exec_op does not look at the callback table *)
Definition no_cbs (cfg : config) : config :=
  mkConfig (tau cfg) [] (latency cfg) (max_tracks cfg) (stop_when_done cfg) (ignore_exc cfg) (dev_fail cfg) (fuel cfg).
Lemma track_update_no_cbs cfg tl tr s q d c : track_update (no_cbs cfg) tl tr s q d c = track_update cfg tl tr s q d c.
Proof. reflexivity. Qed.
Lemma track_update_next cfg tl tr s q d c : next_id (fst (track_update cfg tl tr s q d c)) = next_id tl.
Proof. unfold track_update. destruct ((_ =? 0) && (_ =? 0)); reflexivity. Qed.
Lemma exec_op_no_cbs cfg tl o : exec_op (no_cbs cfg) tl o = exec_op cfg tl o.
Proof. destruct o; reflexivity. Qed.

Section MergeCb.
  Variable i : nat.
  Variables (pc : Z -> bool) (pb : nat -> bool).
  Notation own := (call_ok pc pb).
  Notation simi := (sim i pc pb).
  Variable cfg : config.
  Hypothesis Hdev : dev_fail cfg = None.
  Hypothesis Hswd : stop_when_done cfg = false.
  Hypothesis Hmax : max_tracks cfg = 0.

  (* operations a callback of ANOTHER track may perform *)
  Definition cb_op_for (o : op) : bool :=
    match o with
    | OSchedule s _ _ _ _ None _ => stream_ok (nc pc) (nb pb) s
    | OUpdate t s _ _ _ => negb (t =? i)%nat && stream_ok (nc pc) (nb pb) s
    | OUnschedule t | OMute t | OUnmute t | ONudge t _ => negb (t =? i)%nat
    | _ => false
    end.
  (* operations a callback of track i may perform *)
  Definition cb_op_own (o : op) : bool :=
    match o with
    | OUpdate t s _ _ _ => (t =? i)%nat && stream_ok pc pb s
    | OUnschedule t | OMute t | OUnmute t | ONudge t _ => (t =? i)%nat
    | _ => false
    end.
  Definition is_sched (o : op) : bool := match o with OSchedule _ _ _ _ _ _ _ => true | _ => false end.
  Definition cb_ops (cb : nat) : list op := snd (nth cb (cbs cfg) (CbNone, [])).
  Definition cb_wf (cb : nat) : bool := if pb cb then forallb cb_op_own (cb_ops cb) else forallb cb_op_for (cb_ops cb).
  (* no callback schedules a track: then a tick hands out no id *)
  Definition cb_sched_free : bool := forallb (fun c : craise * list op => forallb (fun o => negb (is_sched o)) (snd c)) (cbs cfg).

  Hypothesis Hcb : forall cb, cb_wf cb = true.

  Lemma sched_free_nth cb : cb_sched_free = true -> forallb (fun o => negb (is_sched o)) (cb_ops cb) = true.
  Proof.
    unfold cb_sched_free, cb_ops. intros H. rewrite forallb_forall in H.
    destruct (Nat.lt_ge_cases cb (length (cbs cfg))) as [L|L].
    - exact (H _ (nth_In _ (CbNone, []) L)).
    - rewrite nth_overflow by exact L. reflexivity.
  Qed.

  (** ** Operations performed by callbacks *)
  Lemma exec_op_sim' J S o : simi J S -> nid_rel i J S -> op_wf i pc pb (next_id J) o = true ->
    let J' := fst (exec_op cfg J o) in
    let S' := if op_keep i (next_id J) o then fst (exec_op cfg S o) else S in
    simi J' S' /\ nid_rel i J' S' /\ next_id J' = op_next (next_id J) o.
  Proof.
    intros H N W. rewrite <- !(exec_op_no_cbs cfg).
    apply (exec_op_sim i pc pb (no_cbs cfg)); try assumption.
    intros cb. cbn [no_cbs cbs]. destruct cb; reflexivity.
  Qed.

  Lemma for_spec k o : cb_op_for o = true -> ((i < k)%nat \/ is_sched o = false) ->
    op_wf i pc pb k o = true /\ op_keep i k o = false /\ (k <= op_next k o)%nat /\ (is_sched o = false -> op_next k o = k).
  Proof.
    intros W K. destruct o as [|s q d c rwd nm rp|t s q d c|t| |t|t|t x|q d]; cbn [cb_op_for] in W; try discriminate;
      cbn [op_wf op_keep op_next is_sched].
    - destruct nm; [discriminate|]. destruct K as [K|K]; [|discriminate].
      assert (E : (k =? i)%nat = false) by (apply Nat.eqb_neq; lia). rewrite E. repeat split; [exact W|lia|discriminate].
    - apply andb_true_iff in W as [W1 W2]. apply negb_true_iff in W1. rewrite W1. repeat split; [exact W2|lia].
    - apply negb_true_iff in W. rewrite W. repeat split; lia.
    - apply negb_true_iff in W. rewrite W. repeat split; lia.
    - apply negb_true_iff in W. rewrite W. repeat split; lia.
    - apply negb_true_iff in W. rewrite W. repeat split; lia.
  Qed.
  Lemma own_spec k o : cb_op_own o = true -> op_wf i pc pb k o = true /\ op_keep i k o = true /\ op_next k o = k.
  Proof.
    intros W. destruct o as [|s q d c rwd nm rp|t s q d c|t| |t|t|t x|q d]; cbn [cb_op_own] in W; try discriminate;
      cbn [op_wf op_keep op_next].
    - apply andb_true_iff in W as [W1 W2]. rewrite W1. repeat split. exact W2.
    - rewrite W. repeat split.
    - rewrite W. repeat split.
    - rewrite W. repeat split.
    - rewrite W. repeat split.
  Qed.

  (* the operations of a foreign callback leave the solo timeline alone *)
  Lemma exec_cb_for ops : forall J S, simi J S -> nid_rel i J S ->
    ((i < next_id J)%nat \/ forallb (fun o => negb (is_sched o)) ops = true) ->
    forallb cb_op_for ops = true ->
    let J' := exec_cb_ops cfg J ops in
    simi J' S /\ nid_rel i J' S /\ (next_id J <= next_id J')%nat
    /\ (forallb (fun o => negb (is_sched o)) ops = true -> next_id J' = next_id J).
  Proof.
    induction ops as [|o r IH]; intros J S H N K W; [cbn [exec_cb_ops]; cbv zeta; split; [exact H|split; [exact N|split; [lia|reflexivity]]]|].
    cbn [forallb] in W. apply andb_true_iff in W as [W1 W2]. cbn [exec_cb_ops].
    assert (K1 : (i < next_id J)%nat \/ is_sched o = false).
    { destruct K as [K|K]; [left; exact K|right]. cbn [forallb] in K. apply andb_true_iff in K as [K _]. apply negb_true_iff in K. exact K. }
    destruct (for_spec (next_id J) o W1 K1) as [F1 [F2 [F3 F4]]].
    pose proof (exec_op_sim' J S o H N F1) as E. cbv zeta in E. rewrite F2 in E.
    destruct (exec_op cfg J o) as [J1 res]. cbn [fst] in E. destruct E as [E1 [E2 E3]].
    assert (K2 : (i < next_id J1)%nat \/ forallb (fun o => negb (is_sched o)) r = true).
    { destruct K as [K|K]; [left; lia|right]. cbn [forallb] in K. apply andb_true_iff in K as [_ K]. exact K. }
    assert (G : simi J1 S /\ nid_rel i J1 S /\ (next_id J <= next_id J1)%nat
                /\ (forallb (fun o0 => negb (is_sched o0)) (o :: r) = true -> next_id J1 = next_id J)).
    { split; [exact E1|split; [exact E2|split; [lia|]]]. cbn [forallb]. intros Q. apply andb_true_iff in Q as [Q _]. apply negb_true_iff in Q.
      rewrite E3. apply F4. exact Q. }
    destruct res; try exact G.
    destruct (IH J1 S E1 E2 K2 W2) as [I1 [I2 [I3 I4]]]. split; [exact I1|split; [exact I2|split; [lia|]]].
    cbn [forallb]. intros Q. apply andb_true_iff in Q as [Q1 Q2]. rewrite (I4 Q2). apply negb_true_iff in Q1. rewrite E3. apply F4. exact Q1.
  Qed.

  (* an own operation has the same result in both timelines *)
  Lemma own_res J S o : simi J S -> cb_op_own o = true -> snd (exec_op cfg J o) = snd (exec_op cfg S o).
  Proof.
    intros H W. destruct o as [|s q d c rwd nm rp|t s q d c|t| |t|t|t x|q d]; cbn [cb_op_own] in W; try discriminate; cbn [exec_op].
    - apply andb_true_iff in W as [W _]. apply Nat.eqb_eq in W. subst t. rewrite (sim_find _ _ _ _ _ H).
      destruct (find_track i (tracks J)) as [tr|].
      + destruct (track_update cfg J tr s q d c), (track_update cfg S tr s q d c). reflexivity.
      + destruct (i <? next_id J)%nat, (i <? next_id S)%nat;
          repeat match goal with |- context [track_update ?a ?b ?c ?d ?e ?f ?g] => destruct (track_update a b c d e f g) end; reflexivity.
    - apply Nat.eqb_eq in W. subst t. rewrite (sim_find _ _ _ _ _ H). destruct (find_track i (tracks J)); reflexivity.
    - apply Nat.eqb_eq in W. subst t. rewrite (sim_find _ _ _ _ _ H). destruct (find_track i (tracks J)); reflexivity.
    - apply Nat.eqb_eq in W. subst t. rewrite (sim_find _ _ _ _ _ H). destruct (find_track i (tracks J)); reflexivity.
    - apply Nat.eqb_eq in W. subst t. rewrite (sim_find _ _ _ _ _ H). destruct (find_track i (tracks J)); reflexivity.
  Qed.

  Lemma exec_cb_own ops : forall J S, simi J S -> nid_rel i J S -> forallb cb_op_own ops = true ->
    simi (exec_cb_ops cfg J ops) (exec_cb_ops cfg S ops)
    /\ nid_rel i (exec_cb_ops cfg J ops) (exec_cb_ops cfg S ops)
    /\ next_id (exec_cb_ops cfg J ops) = next_id J
    /\ cb_completes cfg J ops = cb_completes cfg S ops.
  Proof.
    induction ops as [|o r IH]; intros J S H N W; [cbn [exec_cb_ops cb_completes]; split; [exact H|split; [exact N|split; reflexivity]]|].
    cbn [forallb] in W. apply andb_true_iff in W as [W1 W2]. cbn [exec_cb_ops cb_completes].
    destruct (own_spec (next_id J) o W1) as [F1 [F2 F3]].
    pose proof (exec_op_sim' J S o H N F1) as E. cbv zeta in E. rewrite F2 in E.
    pose proof (own_res J S o H W1) as R.
    destruct (exec_op cfg J o) as [J1 rJ]. destruct (exec_op cfg S o) as [S1 rS]. cbn [fst snd] in *. subst rS.
    destruct E as [E1 [E2 E3]]. rewrite F3 in E3.
    destruct rJ; try (split; [exact E1|split; [exact E2|split; [exact E3|reflexivity]]]).
    destruct (IH J1 S1 E1 E2 W2) as [I1 [I2 [I3 I4]]]. split; [exact I1|split; [exact I2|split; [lia|exact I4]]].
  Qed.

  (** ** One track's turn *)
  Lemma tick_a_callback nowT tr n tr1 c n1 cb :
    track_tick_a cfg nowT tr n = (tr1, c, n1, TCallback cb) -> c = [CCallback cb].
  Proof.
    unfold track_tick_a. destruct (negb (t_started tr)); [discriminate|]. destruct (t_next tr <=? t_cur tr); [|discriminate].
    destruct (pull_loop (fuel cfg) tr None) as [[[e|]| | |] tr']; try discriminate.
    unfold perform_event. destruct (negb (e_active e)); [discriminate|]. destruct (t_muted tr'); [discriminate|].
    destruct (e_kind e) as [vs|cb'|c0 v ch|p ch].
    - destruct (perform_voices (dev_fail cfg) nowT (t_cur tr') vs n (t_offs tr') []) as [[[offs calls] n'] ok]. destruct ok; discriminate.
    - intros E. inversion E; subst. reflexivity.
    - destruct (dev_emit (dev_fail cfg) n); discriminate.
    - destruct (dev_emit (dev_fail cfg) n); discriminate.
  Qed.

  Lemma end_next tl id : next_id (end_stream tl id) = next_id tl.
  Proof. unfold end_stream. destruct (find_track id (tracks tl)); reflexivity. Qed.
  Lemma nid_same' J S J' S' : nid_rel i J S -> next_id J' = next_id J -> next_id S' = next_id S -> nid_rel i J' S'.
  Proof. unfold nid_rel. intros H -> ->. exact H. Qed.
  Lemma nid_grow J S J' : nid_rel i J S -> (i < next_id J)%nat -> (next_id J <= next_id J')%nat -> nid_rel i J' S.
  Proof.
    unfold nid_rel. intros H L G. replace (i <? next_id J)%nat with true in H by (symmetry; apply Nat.ltb_lt; exact L).
    replace (i <? next_id J')%nat with true by (symmetry; apply Nat.ltb_lt; lia). exact H.
  Qed.

  Lemma own_ops_next ops : forall tl, forallb cb_op_own ops = true -> next_id (exec_cb_ops cfg tl ops) = next_id tl.
  Proof.
    induction ops as [|o r IH]; intros tl W; [reflexivity|]. cbn [forallb] in W. apply andb_true_iff in W as [W1 W2].
    cbn [exec_cb_ops].
    assert (E : next_id (fst (exec_op cfg tl o)) = next_id tl).
    { destruct o as [|s q d c rwd nm rp|t s q d c|t| |t|t|t x|q d]; cbn [cb_op_own] in W1; try discriminate; cbn [exec_op].
      - destruct (find_track t (tracks tl)) as [tr|].
        + pose proof (track_update_next cfg tl tr s q d c) as U. destruct (track_update cfg tl tr s q d c) as [tl1 tr1]. exact U.
        + destruct (t <? next_id tl)%nat; [|reflexivity].
          pose proof (track_update_next cfg tl (new_track t None true None) s q d c) as U.
          destruct (track_update cfg tl (new_track t None true None) s q d c) as [tl1 tr1]. exact U.
      - destruct (find_track t (tracks tl)); cbn [fst]; [apply remove_next|reflexivity].
      - destruct (find_track t (tracks tl)); reflexivity.
      - destruct (find_track t (tracks tl)); reflexivity.
      - destruct (find_track t (tracks tl)); reflexivity. }
    destruct (exec_op cfg tl o) as [tl1 res]. cbn [fst] in E. destruct res; try exact E. rewrite (IH tl1 W2). exact E.
  Qed.

  Lemma tick_one_own' J S : simi J S -> nid_rel i J S ->
    let '(J1, cJ, aJ) := tick_one cfg J i in
    let '(S1, cS, aS) := tick_one cfg S i in
    simi J1 S1 /\ cS = cJ /\ aS = aJ /\ calls_ok pc pb cJ = true /\ next_id J1 = next_id J /\ next_id S1 = next_id S.
  Proof.
    intros H N. unfold tick_one. rewrite (sim_find _ _ _ _ _ H).
    destruct (find_track i (tracks J)) as [tr|] eqn:Fd;
      [|split; [exact H|split; [reflexivity|split; [reflexivity|split; [reflexivity|split; reflexivity]]]]].
    destruct (sim_own_track _ _ _ _ _ _ H Fd) as [Hid Hok].
    rewrite (s_now _ _ _ _ _ H).
    pose proof (tick_a_dev cfg (now J) tr (dev_calls J) (dev_calls S) Hdev) as D.
    pose proof (tick_a_ok pc pb cfg (now J) tr (dev_calls J) Hok) as K.
    pose proof (tick_a_id cfg (now J) tr (dev_calls J)) as I.
    pose proof (tick_a_callback (now J) tr (dev_calls J)) as CB.
    destruct (track_tick_a cfg (now J) tr (dev_calls J)) as [[[tr1 c] n1] res].
    destruct (track_tick_a cfg (now J) tr (dev_calls S)) as [[[tr2 c2] n2] res2].
    destruct D as [<- [<- <-]]. destruct K as [K1 K2]. simpl in I. rewrite Hid in I.
    assert (U : simi (set_dev (upd_track J tr1) n1) (set_dev (upd_track S tr1) n2)).
    { apply sim_dev. apply sim_upd_own; assumption. }
    destruct res.
    - split; [destruct (t_finished tr1 && t_rwd tr1); [apply sim_remove_own|]; exact U|].
      split; [reflexivity|split; [reflexivity|split; [exact K2|]]].
      split; (destruct (t_finished tr1 && t_rwd tr1); [rewrite remove_next|]; reflexivity).
    - split; [apply finish_own; exact U|]. split; [reflexivity|split; [reflexivity|split; [exact K2|]]].
      split; rewrite finish_next; reflexivity.
    - split; [apply finish_own; exact U|]. split; [reflexivity|split; [reflexivity|split; [exact K2|]]].
      split; rewrite finish_next; reflexivity.
    - destruct (ignore_exc cfg).
      + split; [apply sim_remove_own; exact U|]. split; [reflexivity|split; [reflexivity|split; [exact K2|]]].
        split; rewrite remove_next; reflexivity.
      + split; [exact U|]. split; [reflexivity|split; [reflexivity|split; [exact K2|]]]. split; reflexivity.
    - specialize (CB tr1 c n1 cb eq_refl). subst c. cbn [calls_ok forallb call_ok] in K2. rewrite andb_true_r in K2.
      pose proof (Hcb cb) as W. unfold cb_wf, cb_ops in W. rewrite K2 in W.
      destruct (nth cb (cbs cfg) (CbNone, [])) as [rk ops]. cbn [snd] in W.
      assert (N1 : nid_rel i (set_dev (upd_track J tr1) n1) (set_dev (upd_track S tr1) n2)) by (eapply nid_same'; [exact N|reflexivity|reflexivity]).
      destruct (exec_cb_own ops _ _ U N1 W) as [X1 [X2 [X3 X4]]].
      pose proof (own_ops_next ops (set_dev (upd_track S tr1) n2) W) as X5.
      rewrite <- X4.
      set (stop := match rk with CbStop => cb_completes cfg (set_dev (upd_track J tr1) n1) ops | _ => false end).
      assert (V : simi (if stop then end_stream (exec_cb_ops cfg (set_dev (upd_track J tr1) n1) ops) i else exec_cb_ops cfg (set_dev (upd_track J tr1) n1) ops)
                       (if stop then end_stream (exec_cb_ops cfg (set_dev (upd_track S tr1) n2) ops) i else exec_cb_ops cfg (set_dev (upd_track S tr1) n2) ops)).
      { destruct stop; [apply sim_end_own|]; exact X1. }
      split; [apply finish_own; exact V|]. split; [reflexivity|split; [reflexivity|split; [cbn [calls_ok forallb call_ok]; rewrite K2; reflexivity|]]].
      split; rewrite finish_next; (destruct stop; [rewrite end_next|]); [rewrite X3| rewrite X3|rewrite X5|rewrite X5]; reflexivity.
    - split; [exact U|]. split; [reflexivity|split; [reflexivity|split; [exact K2|]]]. split; reflexivity.
  Qed.

  Lemma tick_one_for' J S id : simi J S -> nid_rel i J S -> ((i < next_id J)%nat \/ cb_sched_free = true) -> id <> i ->
    let '(J1, cJ, _) := tick_one cfg J id in
    simi J1 S /\ calls_ok (nc pc) (nb pb) cJ = true /\ nid_rel i J1 S /\ (next_id J <= next_id J1)%nat
    /\ (cb_sched_free = true -> next_id J1 = next_id J).
  Proof.
    intros H N Kk Hne. unfold tick_one.
    destruct (find_track id (tracks J)) as [tr|] eqn:Fd;
      [|split; [exact H|split; [reflexivity|split; [exact N|split; [lia|reflexivity]]]]].
    destruct (sim_for_track _ _ _ _ _ _ _ H Hne Fd) as [Hid Hok].
    pose proof (tick_a_ok (nc pc) (nb pb) cfg (now J) tr (dev_calls J) Hok) as K.
    pose proof (tick_a_id cfg (now J) tr (dev_calls J)) as I.
    pose proof (tick_a_callback (now J) tr (dev_calls J)) as CB.
    destruct (track_tick_a cfg (now J) tr (dev_calls J)) as [[[tr1 c] n1] res].
    destruct K as [K1 K2]. simpl in I.
    assert (U : simi (set_dev (upd_track J tr1) n1) S).
    { apply sim_dev_l. apply sim_upd_for; [exact H|rewrite I; exact Hid|exact K1]. }
    assert (N1 : nid_rel i (set_dev (upd_track J tr1) n1) S) by (eapply nid_same'; [exact N|reflexivity|reflexivity]).
    assert (Same : forall J1, simi J1 S -> next_id J1 = next_id J ->
              simi J1 S /\ calls_ok (nc pc) (nb pb) c = true /\ nid_rel i J1 S /\ (next_id J <= next_id J1)%nat
              /\ (cb_sched_free = true -> next_id J1 = next_id J)).
    { intros J1 A B. split; [exact A|split; [exact K2|split; [eapply nid_same'; [exact N|exact B|reflexivity]|split; [lia|intros _; exact B]]]]. }
    destruct res.
    - apply Same.
      + destruct (t_finished tr1 && t_rwd tr1); [apply sim_remove_for|]; assumption.
      + destruct (t_finished tr1 && t_rwd tr1); [rewrite remove_next|]; reflexivity.
    - apply Same; [apply finish_for; assumption|rewrite finish_next; reflexivity].
    - apply Same; [apply finish_for; assumption|rewrite finish_next; reflexivity].
    - destruct (ignore_exc cfg); apply Same; [apply sim_remove_for; assumption|rewrite remove_next; reflexivity|exact U|reflexivity].
    - specialize (CB tr1 c n1 cb eq_refl). subst c. pose proof K2 as K3. cbn [calls_ok forallb call_ok] in K3. rewrite andb_true_r in K3.
      unfold nb in K3. apply negb_true_iff in K3.
      pose proof (Hcb cb) as W. unfold cb_wf in W. rewrite K3 in W.
      assert (Kf : (i < next_id (set_dev (upd_track J tr1) n1))%nat \/ forallb (fun o => negb (is_sched o)) (cb_ops cb) = true).
      { destruct Kk as [Kk|Kk]; [left; exact Kk|right; apply sched_free_nth; exact Kk]. }
      pose proof (sched_free_nth cb) as Qs.
      unfold cb_ops in *. destruct (nth cb (cbs cfg) (CbNone, [])) as [rk ops]. cbn [snd] in *.
      destruct (exec_cb_for ops _ _ U N1 Kf W) as [X1 [X2 [X3 X4]]]. cbn [next_id set_dev upd_track set_tracks] in X3, X4.
      set (stop := match rk with CbStop => cb_completes cfg (set_dev (upd_track J tr1) n1) ops | _ => false end).
      assert (V : simi (if stop then end_stream (exec_cb_ops cfg (set_dev (upd_track J tr1) n1) ops) id else exec_cb_ops cfg (set_dev (upd_track J tr1) n1) ops) S).
      { destruct stop; [apply sim_end_for|]; assumption. }
      assert (E : next_id (if stop then end_stream (exec_cb_ops cfg (set_dev (upd_track J tr1) n1) ops) id else exec_cb_ops cfg (set_dev (upd_track J tr1) n1) ops)
                  = next_id (exec_cb_ops cfg (set_dev (upd_track J tr1) n1) ops)) by (destruct stop; [apply end_next|reflexivity]).
      split; [apply finish_for; assumption|]. split; [exact K2|].
      split; [eapply nid_same'; [exact X2|rewrite finish_next; exact E|reflexivity]|].
      split; [rewrite finish_next, E; exact X3|].
      intros Q. rewrite finish_next, E. apply X4. apply Qs. exact Q.
    - apply Same; [exact U|reflexivity].
  Qed.

  (** ** Phase 4: the tracks, over the snapshot of the ids - whatever the callbacks do to the track list meanwhile *)
  Definition nid_ok (J S : timeline) : Prop := nid_rel i J S /\ ((i < next_id J)%nat \/ cb_sched_free = true).

  Lemma phase_tracks_sim' ids : forall J S c, simi J S -> nid_ok J S ->
    let '(J1, cJ, rJ) := phase_tracks cfg J ids c in
    let '(S1, cS, rS) := phase_tracks cfg S (filter (fun x => (x =? i)%nat) ids) (filter own c) in
    rJ = ROk -> rS = ROk /\ simi J1 S1 /\ cS = filter own cJ /\ nid_ok J1 S1 /\ (next_id J <= next_id J1)%nat
                /\ (cb_sched_free = true -> next_id J1 = next_id J).
  Proof.
    induction ids as [|id r IH]; intros J S c H [N Kk];
      [simpl; intros _; split; [reflexivity|split; [exact H|split; [reflexivity|split; [exact (conj N Kk)|split; [lia|reflexivity]]]]]|].
    cbn [phase_tracks filter]. destruct (id =? i)%nat eqn:E.
    - apply Nat.eqb_eq in E. subst id. cbn [phase_tracks].
      pose proof (tick_one_own' J S H N) as T. pose proof (tick_one_abort cfg J i) as Ab.
      destruct (tick_one cfg J i) as [[J1 cJ] aJ]. destruct (tick_one cfg S i) as [[S1 cS] aS].
      destruct T as [T1 [-> [-> [T4 [T5 T6]]]]].
      destruct aJ as [res|].
      + intros ->. exfalso. exact (Ab ROk eq_refl eq_refl).
      + assert (N1 : nid_ok J1 S1).
        { split; [eapply nid_same'; [exact N|exact T5|exact T6]|rewrite T5; exact Kk]. }
        specialize (IH J1 S1 (c ++ cJ) T1 N1). rewrite filter_app, (calls_own_id _ _ _ T4) in IH. rewrite T5 in IH. exact IH.
    - assert (Hne : id <> i) by (intros ->; rewrite Nat.eqb_refl in E; discriminate).
      pose proof (tick_one_for' J S id H N Kk Hne) as T. pose proof (tick_one_abort cfg J id) as Ab.
      destruct (tick_one cfg J id) as [[J1 cJ] aJ]. destruct T as [T1 [T2 [T3 [T4 T5]]]].
      destruct aJ as [res|].
      + destruct (phase_tracks cfg S _ _) as [[S1 cS] rS]. intros ->. exfalso. exact (Ab ROk eq_refl eq_refl).
      + assert (N1 : nid_ok J1 S).
        { split; [exact T3|]. destruct Kk as [Kk|Kk]; [left; lia|right; exact Kk]. }
        specialize (IH J1 S (c ++ cJ) T1 N1). rewrite filter_app, (calls_foreign_nil _ _ _ T2), app_nil_r in IH.
        destruct (phase_tracks cfg J1 r (c ++ cJ)) as [[J2 cJ2] rJ2].
        destruct (phase_tracks cfg S (filter (fun x => (x =? i)%nat) r) (filter own c)) as [[S2 cS2] rS2].
        intros R. destruct (IH R) as [I1 [I2 [I3 [I4 [I5 I6]]]]].
        split; [exact I1|split; [exact I2|split; [exact I3|split; [exact I4|split; [lia|]]]]].
        intros Q. rewrite (I6 Q). apply T5. exact Q.
  Qed.

  (** ** The whole tick *)
  Theorem tl_tick_sim' J S : simi J S -> nid_ok J S ->
    let '(J', cJ, rJ) := tl_tick cfg J in
    let '(S', cS, rS) := tl_tick cfg S in
    rJ = ROk -> rS = ROk /\ simi J' S' /\ cS = filter own cJ /\ nid_ok J' S' /\ (next_id J <= next_id J')%nat
                /\ (cb_sched_free = true -> next_id J' = next_id J).
  Proof.
    intros H [N Kk]. unfold tl_tick. rewrite (s_trk _ _ _ _ _ H).
    destruct (phase_noteoffs_sim i pc pb (tracks J) (s_twf _ _ _ _ _ H)) as [N1 [N2 N3]].
    destruct (phase_noteoffs (tracks J)) as [trJ c1J]. destruct (phase_noteoffs (filter (is_i i) (tracks J))) as [trS c1S].
    simpl in N1, N2, N3. subst trS c1S.
    assert (H1 : simi (set_actions (set_tracks J trJ) []) (set_actions (set_tracks S (filter (is_i i) trJ)) [])).
    { destruct H as [A B C D E F G]. constructor; simpl; try assumption; reflexivity. }
    pose proof (phase_actions_sim i pc pb (actions J) _ _ [] [] H1 (s_awf _ _ _ _ _ H) eq_refl) as PA.
    pose proof (phase_actions_next (actions J) (set_actions (set_tracks J trJ) []) [] []) as PNJ.
    pose proof (phase_actions_next (filter (act_own i pc) (actions J)) (set_actions (set_tracks S (filter (is_i i) trJ)) []) [] []) as PNS.
    change (actions (set_tracks J trJ)) with (actions J).
    change (actions (set_tracks S (filter (is_i i) trJ))) with (actions S). rewrite (s_act _ _ _ _ _ H).
    simpl (filter (act_own i pc) []) in PA. simpl (filter own []) in PA.
    destruct (phase_actions (set_actions (set_tracks J trJ) []) (actions J) [] []) as [[J2 kJ] c3J].
    destruct (phase_actions (set_actions (set_tracks S (filter (is_i i) trJ)) []) (filter (act_own i pc) (actions J)) [] []) as [[S2 kS] c3S].
    destruct PA as [P1 [-> [-> P4]]]. cbn [fst next_id set_actions set_tracks] in PNJ, PNS.
    assert (H3 : simi (set_actions J2 (kJ ++ actions J2)) (set_actions S2 (filter (act_own i pc) kJ ++ actions S2))).
    { destruct P1 as [A B C D E F G]. constructor; simpl; try assumption.
      - rewrite filter_app, C. reflexivity.
      - rewrite forallb_app, P4, G. reflexivity. }
    assert (N3' : nid_ok (set_actions J2 (kJ ++ actions J2)) (set_actions S2 (filter (act_own i pc) kJ ++ actions S2))).
    { split; [eapply nid_same'; [exact N|exact PNJ|exact PNS]|]. cbn [next_id set_actions]. rewrite PNJ. exact Kk. }
    pose proof (phase_tracks_sim' (map t_id (tracks (set_actions J2 (kJ ++ actions J2)))) _ _ [] H3 N3') as PT.
    change (tracks (set_actions S2 (filter (act_own i pc) kJ ++ actions S2))) with (tracks S2).
    change (tracks (set_actions J2 (kJ ++ actions J2))) with (tracks J2) in *.
    rewrite (s_trk _ _ _ _ _ P1), map_id_filter. simpl (filter own []) in PT.
    destruct (phase_tracks cfg (set_actions J2 (kJ ++ actions J2)) (map t_id (tracks J2)) []) as [[J4 c4J] rJ].
    destruct (phase_tracks cfg (set_actions S2 (filter (act_own i pc) kJ ++ actions S2)) (filter (fun x => (x =? i)%nat) (map t_id (tracks J2))) []) as [[S4 c4S] rS].
    rewrite Hswd, !andb_false_r.
    destruct rJ; try (destruct rS; intros; discriminate).
    destruct (PT eq_refl) as [-> [T2 [-> [[T4 T4'] [T5 T6]]]]]. cbn [next_id set_actions] in T5, T6, T4'.
    intros _. split; [reflexivity|]. split; [|split; [rewrite !filter_app; reflexivity|]].
    - destruct T2 as [A B C D E F G]. constructor; simpl; try assumption. rewrite A. reflexivity.
    - split; [split|split].
      + eapply nid_same'; [exact T4|reflexivity|reflexivity].
      + exact T4'.
      + cbn [next_id]. lia.
      + cbn [next_id]. intros Q. rewrite (T6 Q). exact PNJ.
  Qed.

  (** ** Histories *)
  (* every tick happens after track i got its id, unless no callback schedules: then the ids are handed out by the
     schedule calls of the history alone *)
  Fixpoint ticks_wf (k : nat) (h : list op) : bool :=
    match h with
    | [] => true
    | OTick :: r => ((i <? k)%nat || cb_sched_free) && ticks_wf k r
    | o :: r => ticks_wf (op_next k o) r
    end.
  (* k: the ids handed out by the schedule calls of the history so far; exact as long as i has not been handed out *)
  Definition krel (k : nat) (J : timeline) : Prop :=
    ((i < k)%nat /\ (i < next_id J)%nat) \/ ((k <= i)%nat /\ next_id J = k).

  Lemma op_wf_gt k k' o : (i < k)%nat -> (i < k')%nat -> op_wf i pc pb k o = op_wf i pc pb k' o /\ op_keep i k o = op_keep i k' o.
  Proof.
    intros A B. assert (E : (k =? i)%nat = false) by (apply Nat.eqb_neq; lia). assert (E' : (k' =? i)%nat = false) by (apply Nat.eqb_neq; lia).
    destruct o; cbn [op_wf op_keep]; rewrite ?E, ?E'; split; reflexivity.
  Qed.
  Lemma hist_wf_gt h : forall k k', (i < k)%nat -> (i < k')%nat -> hist_wf i pc pb k h = hist_wf i pc pb k' h.
  Proof.
    induction h as [|o r IH]; intros k k' A B; [reflexivity|]. cbn [hist_wf].
    rewrite (proj1 (op_wf_gt k k' o A B)). rewrite (IH (op_next k o) (op_next k' o)); [reflexivity| |]; destruct o; cbn [op_next]; lia.
  Qed.
  Lemma solo_gt h : forall k k', (i < k)%nat -> (i < k')%nat -> solo i k h = solo i k' h.
  Proof.
    induction h as [|o r IH]; intros k k' A B; [reflexivity|]. cbn [solo].
    rewrite (proj2 (op_wf_gt k k' o A B)). rewrite (IH (op_next k o) (op_next k' o)); [reflexivity| |]; destruct o; cbn [op_next]; lia.
  Qed.
  Lemma ticks_wf_gt h : forall k k', (i < k)%nat -> (i < k')%nat -> ticks_wf k h = ticks_wf k' h.
  Proof.
    induction h as [|o r IH]; intros k k' A B; [reflexivity|].
    destruct o; cbn [ticks_wf op_next]; try (apply IH; lia).
    replace (i <? k)%nat with true by (symmetry; apply Nat.ltb_lt; exact A).
    replace (i <? k')%nat with true by (symmetry; apply Nat.ltb_lt; exact B). rewrite (IH k k' A B). reflexivity.
  Qed.

  Theorem merge_cb_run h : forall k J S, simi J S -> nid_rel i J S -> krel k J ->
    hist_wf i pc pb k h = true -> ticks_wf k h = true -> all_ticks_ok cfg J h = true ->
    tick_calls cfg S (solo i k h) = map (filter own) (tick_calls cfg J h)
    /\ simi (run_state cfg J h) (run_state cfg S (solo i k h))
    /\ all_ticks_ok cfg S (solo i k h) = true.
  Proof.
    induction h as [|o r IH]; intros k J S H N Kr W Tw A; [simpl; exact (conj eq_refl (conj H eq_refl))|].
    cbn [hist_wf] in W. apply andb_true_iff in W as [W1 W2]. cbn [solo].
    destruct o as [|s q d c rwd nm rp|t s q d c|t| |t|t|t x|q d].
    1: { (* a tick *)
      cbn [op_keep op_next app]. cbn [tick_calls run_state all_ticks_ok step ticks_wf] in *.
      apply andb_true_iff in Tw as [Tw1 Tw2].
      assert (Kk : (i < next_id J)%nat \/ cb_sched_free = true).
      { destruct Kr as [[_ Kr]|[Kr1 Kr2]]; [left; exact Kr|]. apply orb_true_iff in Tw1 as [Tw1|Tw1]; [apply Nat.ltb_lt in Tw1; lia|right; exact Tw1]. }
      pose proof (tl_tick_sim' J S H (conj N Kk)) as T.
      destruct (tl_tick cfg J) as [[J' cJ] rJ]. destruct (tl_tick cfg S) as [[S' cS] rS].
      apply andb_true_iff in A as [A1 A2]. destruct rJ; try discriminate.
      destruct (T eq_refl) as [-> [T2 [-> [[T4 T4'] [T5 T6]]]]].
      assert (Kr' : krel k J').
      { destruct Kr as [[Kr1 Kr2]|[Kr1 Kr2]]; [left; split; [exact Kr1|lia]|]. right. split; [exact Kr1|].
        apply orb_true_iff in Tw1 as [Tw1|Tw1]; [apply Nat.ltb_lt in Tw1; lia|]. rewrite (T6 Tw1). exact Kr2. }
      destruct (IH k J' S' T2 T4 Kr' W2 Tw2 A2) as [I1 [I2 I3]].
      cbn [app map]. rewrite I1, I3. exact (conj eq_refl (conj I2 eq_refl)). }
    all: match goal with |- context [op_keep _ _ ?o] =>
           assert (WK : op_wf i pc pb (next_id J) o = op_wf i pc pb k o /\ op_keep i (next_id J) o = op_keep i k o)
             by (destruct Kr as [[Kr1 Kr2]|[Kr1 Kr2]]; [apply op_wf_gt; assumption|rewrite Kr2; split; reflexivity]);
           destruct WK as [WK1 WK2]; rewrite <- WK1 in W1; rewrite <- WK2;
           pose proof (exec_op_sim' J S o H N W1) as E; cbv zeta in E;
           cbn [tick_calls run_state all_ticks_ok step ticks_wf] in A, Tw |- *;
           destruct (exec_op cfg J o) as [J' rJ] eqn:EJ; cbn [fst] in E;
           assert (Kr' : krel (op_next k o) J')
             by (destruct E as [_ [_ E3]]; destruct Kr as [[Kr1 Kr2]|[Kr1 Kr2]];
                 [left; split; [cbn [op_next]; lia|rewrite E3; cbn [op_next]; lia]
                 |rewrite Kr2 in E3; destruct (Nat.lt_ge_cases i (op_next k o)) as [L|L];
                  [left; split; [exact L|rewrite E3; exact L]|right; split; [exact L|exact E3]]]);
           destruct (op_keep i (next_id J) o) eqn:K;
           [ cbn [app tick_calls run_state all_ticks_ok step]; destruct (exec_op cfg S o) as [S' rS] eqn:ES; cbn [fst] in E
           | cbn [app] ];
           destruct E as [E1 [E2 E3]];
           simpl in A; (specialize (IH _ _ _ E1 E2 Kr' W2 Tw A)); destruct IH as [I1 [I2 I3]];
           cbn [app map]; rewrite ?I1, ?I3; exact (conj eq_refl (conj I2 eq_refl))
         end.
  Qed.
End MergeCb.

(** * From the empty timeline *)
Definition cbs_wf (i : nat) (pc : Z -> bool) (pb : nat -> bool) (cfg : config) : bool :=
  forallb (cb_wf i pc pb cfg) (seq 0 (length (cbs cfg))).
Lemma cbs_wf_nth i pc pb cfg : cbs_wf i pc pb cfg = true -> forall cb, cb_wf i pc pb cfg cb = true.
Proof.
  unfold cbs_wf. intros H cb. rewrite forallb_forall in H.
  destruct (Nat.lt_ge_cases cb (length (cbs cfg))) as [L|L].
  - apply H. apply in_seq. lia.
  - unfold cb_wf, cb_ops. rewrite nth_overflow by exact L. destruct (pb cb); reflexivity.
Qed.

(* no deliberate coupling that involves track i: no device fault, no track limit, no stop-when-done; the callbacks of i act
   on i only, the other callbacks act on other tracks only *)
Definition uncoupled_cb (i : nat) (pc : Z -> bool) (pb : nat -> bool) (cfg : config) : bool :=
  (match dev_fail cfg with None => true | Some _ => false end) && cbs_wf i pc pb cfg
  && negb (stop_when_done cfg) && (max_tracks cfg =? 0).

Theorem merge_cb_from_empty i pc pb cfg h :
  uncoupled_cb i pc pb cfg = true -> hist_wf i pc pb 0 h = true -> ticks_wf i cfg 0 h = true -> all_ticks_ok cfg tl0 h = true ->
  tick_calls cfg (tl_at i) (solo i 0 h) = map (filter (call_ok pc pb)) (tick_calls cfg tl0 h)
  /\ sim i pc pb (run_state cfg tl0 h) (run_state cfg (tl_at i) (solo i 0 h))
  /\ all_ticks_ok cfg (tl_at i) (solo i 0 h) = true.
Proof.
  unfold uncoupled_cb. intros U W Tw A. apply andb_true_iff in U as [U U4]. apply andb_true_iff in U as [U U3].
  apply andb_true_iff in U as [U1 U2]. destruct (dev_fail cfg) eqn:D; [discriminate|].
  apply negb_true_iff in U3. apply Z.eqb_eq in U4.
  apply (merge_cb_run i pc pb cfg D U3 U4 (cbs_wf_nth i pc pb cfg U2) h 0%nat tl0 (tl_at i)); try assumption.
  - constructor; reflexivity.
  - unfold nid_rel. reflexivity.
  - right. split; [lia|reflexivity].
Qed.

(* the old hypothesis is an instance: callbacks that perform nothing *)
Lemma cb_noops_wf i pc pb cfg : cb_noops cfg = true -> cbs_wf i pc pb cfg = true /\ cb_sched_free cfg = true.
Proof.
  intros H. split.
  - unfold cbs_wf. apply forallb_forall. intros cb _. unfold cb_wf, cb_ops. rewrite (cb_noops_nth cfg H cb). destruct (pb cb); reflexivity.
  - unfold cb_sched_free. unfold cb_noops in H. rewrite forallb_forall in *. intros c Hc. specialize (H c Hc).
    destruct (snd c); [reflexivity|discriminate].
Qed.

(** * The snapshot semantics of the track phase, for EVERY configuration (callbacks may do anything) *)
(* only the ids of the snapshot take a turn: a track scheduled during the phase does not play in this tick *)
Theorem turns_within_snapshot cfg ids tl id : In id (map fst (track_turns cfg tl ids)) -> In id ids.
Proof.
  intros H. destruct (track_turns_order cfg ids tl) as [n E]. rewrite E in H. clear E. revert ids H.
  induction n as [|n IH]; intros [|x r]; simpl; try tauto. intros [H|H]; [left; exact H|right; apply IH; exact H].
Qed.
(* nobody is skipped: when the phase runs through, EVERY id of the snapshot has taken its turn, in order - whatever the
   turns before it did to the track list *)
Theorem turns_cover_snapshot cfg ids : forall tl c, snd (phase_tracks cfg tl ids c) = ROk -> map fst (track_turns cfg tl ids) = ids.
Proof.
  induction ids as [|id r IH]; intros tl c H; [reflexivity|]. cbn [phase_tracks track_turns] in *.
  pose proof (tick_one_abort cfg tl id) as Ab.
  destruct (tick_one cfg tl id) as [[tl' c'] ab]. destruct ab as [res|].
  - cbn [snd] in H. subst res. exfalso. exact (Ab ROk eq_refl eq_refl).
  - cbn [map fst]. rewrite (IH tl' (c ++ c') H). reflexivity.
Qed.
(* a track removed from the list before its turn comes (unscheduled by an earlier track's callback) makes no call and is not
   touched; a track still in the list is looked up in the CURRENT state: it sees everything the earlier turns did *)
Theorem turn_of_removed cfg tl id : find_track id (tracks tl) = None -> tick_one cfg tl id = (tl, [], None).
Proof. intros F. unfold tick_one. rewrite F. reflexivity. Qed.

(* Sched/ExcClass.v — C17: the CLASS of the exception raised at a fault site.

   Sched/Model.v has one class-less stream item [RRaise] ("an exception while evaluating the pattern or constructing
   the Event"), one class-less callback outcome [CbExc] and a class-less device fault.  The property quantifies over
   failing pattern expressions of any kind (`60 + None` is a TypeError, `1 / 0` a ZeroDivisionError, int("x") a
   ValueError, a user's own exception class ...), so this file adds the layer that says which classes those class-less
   items stand for, by transcribing the `except` clauses an exception travelling out of next(event_stream) meets:

     Track.get_next_event   no handler around next(self.event_stream) / Event(...)
     Track.tick             except StopIteration:   -> end of stream (is_finished when nothing is pending)
     Timeline.tick          except Exception:       -> tolerant: remove the track; otherwise re-raise THE SAME exception
     Track.perform_event    (action callbacks)  except StopIteration: end the track; except Exception: swallowed

   An exception object is known to an `except` clause through the method resolution order of its class only
   (`except C` catches e iff C is in type(e).__mro__), so a raised exception is represented by that list of class ids,
   the class itself first.  Definitions only; lemmas in Sched/ExcClassProofs.v. *)
From Isobar Require Import Base.Prelude Sched.Model.

(** class ids.  Only three classes are named by the except clauses on the way; every other id is an arbitrary class
    (TypeError, ValueError, a user-defined one ...) *)
Definition cBaseException : Z := 0.
Definition cException : Z := 1.
Definition cStopIteration : Z := 2.

(* `except C` applied to an exception whose class has the given MRO *)
Definition catches (c : Z) (mro : list Z) : bool := existsb (Z.eqb c) mro.

(** * Stream items with a class *)
Inductive citem :=
| CPlain (r : evres)                (* an event, or the end of the stream, as in Sched/Model.v *)
| CRaiseCls (mro : list Z).         (* next(event_stream) / Event(...) raises an exception of this class *)

(* what becomes of it: a StopIteration (or a subclass) is the iterator protocol's end-of-stream signal, caught by
   Track.tick; any other exception passes Track.tick untouched and reaches Timeline.tick's handler *)
Definition classify (mro : list Z) : evres :=
  if catches cStopIteration mro then RStopIter else RRaise.

(* the scope of the model (and of the property's "exception"): classes derived from Exception.  KeyboardInterrupt,
   SystemExit and GeneratorExit are not caught by `except Exception` in either mode *)
Definition in_scope (mro : list Z) : bool := catches cException mro.

Definition erase (c : citem) : evres :=
  match c with CPlain r => r | CRaiseCls mro => classify mro end.

Definition cstream (cs : list citem) (pos : nat) (cyclic : bool) : stream := mkStream (map erase cs) pos cyclic.

(* two items that differ at most in the class of the exception raised, both classes being ordinary exceptions or both
   being StopIterations *)
Definition same_kind (a b : citem) : Prop :=
  match a, b with
  | CPlain r, CPlain r' => r = r'
  | CRaiseCls m, CRaiseCls m' => catches cStopIteration m = catches cStopIteration m'
  | _, _ => False
  end.

(** * Histories whose streams carry classes *)
Inductive cop :=
| COSchedule (cs : list citem) (cyclic : bool) (q d : option Z) (count : option Z) (rwd : bool) (name : option Z) (replace : bool)
| COUpdate (t : nat) (cs : list citem) (cyclic : bool) (q d : option Z) (count : option Z)
| COther (o : op).

Definition erase_op (o : cop) : op :=
  match o with
  | COSchedule cs cyc q d count rwd name replace => OSchedule (cstream cs 0 cyc) q d count rwd name replace
  | COUpdate t cs cyc q d count => OUpdate t (cstream cs 0 cyc) q d count
  | COther o => o
  end.

Definition same_kind_op (a b : cop) : Prop :=
  match a, b with
  | COSchedule cs cyc q d count rwd name replace, COSchedule cs' cyc' q' d' count' rwd' name' replace' =>
      Forall2 same_kind cs cs' /\ cyc = cyc' /\ q = q' /\ d = d' /\ count = count' /\ rwd = rwd' /\ name = name' /\ replace = replace'
  | COUpdate t cs cyc q d count, COUpdate t' cs' cyc' q' d' count' =>
      t = t' /\ Forall2 same_kind cs cs' /\ cyc = cyc' /\ q = q' /\ d = d' /\ count = count'
  | COther o, COther o' => o = o'
  | _, _ => False
  end.

(** * Action callbacks: what the callback raises, with its class *)
(* perform_event: "except StopIteration: self.event_stream = None; raise StopIteration()  /  except Exception as e: print(...)" *)
Definition classify_cb (mro : list Z) : craise :=
  if catches cStopIteration mro then CbStop else CbExc.

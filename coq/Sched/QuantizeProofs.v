(* Sched/QuantizeProofs.v — C05: quantize / delay / update.
   1. closed form of Timeline._schedule_action's time (sched_time);
   2. what Track.update / Timeline.schedule request (immediate start iff quantize = delay = 0, otherwise an
      AStart action at sched_time now q d; defaults, latency);
   3. a requested start stays pending over ANY history whose ticks all begin before its time (calls made
      between ticks or by callbacks, tracks raising, finishing ...);
   4. the first tick that begins at or after its time fires it in the action phase: the track (if still
      scheduled) gets the new stream with next_event_time = current_time, pending note-offs untouched;
      of several due starts for one track the last requested wins; the first event of the new stream is
      the event performed by that tick;
   5. a tick on which no start for the track is due only pulls from the stream the track already has. *)
From Isobar Require Import Base.Prelude Sched.Model Sched.OnsetProofs Sched.TimeProofs Sched.NoteOffProofs Sched.TickFrame.
#[local] Arguments Z.mul : simpl never.
#[local] Arguments Z.add : simpl never.

(** * 1. sched_time *)
Lemma sched_time_q0 t d : sched_time t 0 d = t + d.
Proof. reflexivity. Qed.

(* for q > 0: the least multiple of q that is >= t, plus d *)
Lemma sched_time_spec t q d : 0 < q ->
  exists m, sched_time t q d = q * m + d /\ q * (m - 1) < t <= q * m.
Proof.
  intros Hq. exists (cdiv t q). unfold sched_time. destruct (q =? 0) eqn:E; [lia|].
  split; [reflexivity|]. pose proof (cdiv_spec t q Hq). nia.
Qed.
Lemma sched_time_least t q d m : 0 < q -> t <= q * m -> sched_time t q d <= q * m + d.
Proof.
  intros Hq Hm. unfold sched_time. destruct (q =? 0) eqn:E; [lia|].
  pose proof (cdiv_spec t q Hq). assert (cdiv t q <= m) by nia. nia.
Qed.
Lemma sched_time_grid t q d : 0 < q -> t mod q = 0 -> sched_time t q d = t + d.
Proof.
  intros Hq Hm. destruct (sched_time_spec t q d Hq) as [m [E [H1 H2]]]. rewrite E.
  assert (t = q * (t / q)) by (pose proof (Z.div_mod t q ltac:(lia)); lia).
  assert (m = t / q) by nia. subst m. lia.
Qed.
Lemma sched_time_bounds t q d : 0 <= q -> t + d <= sched_time t q d /\ (sched_time t q d < t + q + d \/ q = 0).
Proof.
  intros Hq. destruct (Z.eq_dec q 0) as [->|Hne]; [rewrite sched_time_q0; lia|].
  destruct (sched_time_spec t q d ltac:(lia)) as [m [E [H1 H2]]]. rewrite E. lia.
Qed.

(** * 2. what update / schedule request *)
(* Track.update: None -> timeline defaults; positive device latency (in beats) is added to the delay *)
Definition res_q (tl : timeline) (q : option Z) : Z := match q with Some x => x | None => def_q tl end.
Definition res_d (cfg : config) (tl : timeline) (d : option Z) : Z :=
  let d0 := match d with Some x => x | None => def_d tl end in
  if 0 <? latency cfg then d0 + latency cfg else d0.
Definition immediate (cfg : config) (tl : timeline) (q d : option Z) : bool :=
  (res_q tl q =? 0) && (res_d cfg tl d =? 0).
Definition with_count (tr : track) (count : option Z) : track :=
  match count with Some c => set_max tr (Some c) | None => tr end.

Lemma track_update_spec cfg tl tr s q d count :
  track_update cfg tl tr s q d count =
    if immediate cfg tl q d then (tl, track_start (with_count tr count) s)
    else (set_actions tl (actions tl ++ [AStart (sched_time (now tl) (res_q tl q) (res_d cfg tl d)) (t_id tr) s]),
          with_count tr count).
Proof. reflexivity. Qed.

Lemma immediate_iff cfg tl q d : immediate cfg tl q d = true <-> res_q tl q = 0 /\ res_d cfg tl d = 0.
Proof. unfold immediate. rewrite andb_true_iff, !Z.eqb_eq. tauto. Qed.

Lemma with_count_id tr c : t_id (with_count tr c) = t_id tr.
Proof. destruct c; reflexivity. Qed.

(* update of a scheduled track, deferred: the start is appended to the pending actions, the track keeps
   its stream, its clock, its position and its pending note-offs *)
Lemma update_deferred cfg tl t tr s q d count :
  find_track t (tracks tl) = Some tr -> immediate cfg tl q d = false ->
  let tl' := fst (exec_op cfg tl (OUpdate t s q d count)) in
  snd (exec_op cfg tl (OUpdate t s q d count)) = ROk
  /\ actions tl' = actions tl ++ [AStart (sched_time (now tl) (res_q tl q) (res_d cfg tl d)) t s]
  /\ find_track t (tracks tl') = Some (with_count tr count) /\ now tl' = now tl.
Proof.
  intros F I. pose proof (find_track_id _ _ _ F) as Eid.
  cbn [exec_op]. rewrite F, track_update_spec, I. cbn [fst snd]. rewrite Eid.
  split; [reflexivity|]. split; [reflexivity|]. split; [|reflexivity].
  unfold upd_track. cbn [tracks set_tracks set_actions].
  assert (F2 : find_track (t_id (with_count tr count)) (tracks tl) = Some tr) by (rewrite with_count_id, Eid; exact F).
  replace t with (t_id (with_count tr count)) by (rewrite with_count_id; exact Eid).
  apply (find_put_same _ _ _ F2).
Qed.

(* immediate: Track.start runs inside the call *)
Lemma update_immediate cfg tl t tr s q d count :
  find_track t (tracks tl) = Some tr -> immediate cfg tl q d = true ->
  let tl' := fst (exec_op cfg tl (OUpdate t s q d count)) in
  actions tl' = actions tl /\ find_track t (tracks tl') = Some (track_start (with_count tr count) s).
Proof.
  intros F I. pose proof (find_track_id _ _ _ F) as Eid.
  cbn [exec_op]. rewrite F, track_update_spec, I. cbn [fst snd]. split; [reflexivity|].
  unfold upd_track. cbn [tracks set_tracks].
  assert (E : t_id (track_start (with_count tr count) s) = t) by (destruct count; exact Eid).
  assert (F2 : find_track (t_id (track_start (with_count tr count) s)) (tracks tl) = Some tr) by (rewrite E; exact F).
  rewrite <- E at 1. apply (find_put_same _ _ _ F2).
Qed.

(* schedule of a new track (no track of that name to replace, limit not reached) *)
Definition accepts_new (cfg : config) (tl : timeline) : bool :=
  negb (negb (max_tracks cfg =? 0) && (max_tracks cfg <=? Z.of_nat (length (tracks tl)))).

Lemma schedule_new cfg tl s q d count rwd name replace :
  named_target tl name replace = None -> accepts_new cfg tl = true ->
  let tr := new_track (next_id tl) count rwd name in
  exec_op cfg tl (OSchedule s q d count rwd name replace) =
    if immediate cfg tl q d
    then (mkTL (now tl) (tracks tl ++ [track_start tr s]) (actions tl) (S (next_id tl)) (def_q tl) (def_d tl) (dev_calls tl), ROk)
    else (mkTL (now tl) (tracks tl ++ [tr])
               (actions tl ++ [AStart (sched_time (now tl) (res_q tl q) (res_d cfg tl d)) (next_id tl) s])
               (S (next_id tl)) (def_q tl) (def_d tl) (dev_calls tl), ROk).
Proof.
  intros Hn Hacc. unfold accepts_new in Hacc. apply negb_true_iff in Hacc. cbn [exec_op].
  fold (named_target tl name replace). rewrite Hn, Hacc, track_update_spec. destruct (immediate cfg tl q d); reflexivity.
Qed.

(** * 3. pending starts survive *)
(* the action list only grows at its end, except in the action phase of a tick *)
Definition ext (tl tl' : timeline) : Prop := exists e, actions tl' = actions tl ++ e.
Lemma ext_refl tl : ext tl tl.
Proof. exists []. rewrite app_nil_r. reflexivity. Qed.
Lemma ext_trans a b c : ext a b -> ext b c -> ext a c.
Proof. intros [e1 H1] [e2 H2]. exists (e1 ++ e2). rewrite H2, H1, app_assoc. reflexivity. Qed.
Lemma ext_same tl tl' : actions tl' = actions tl -> ext tl tl'.
Proof. intros H. exists []. rewrite app_nil_r. exact H. Qed.

Lemma remove_track_ext tl id : ext tl (remove_track tl id).
Proof. unfold remove_track. destruct (find_track id (tracks tl)); [eexists; reflexivity|apply ext_refl]. Qed.
Lemma clear_ext l : forall tl, ext tl (fold_left (fun tl' tr => remove_track tl' (t_id tr)) l tl).
Proof.
  induction l as [|t r IH]; intros tl; simpl; [apply ext_refl|].
  apply (ext_trans _ (remove_track tl (t_id t))); [apply remove_track_ext|apply IH].
Qed.
Lemma track_update_ext cfg tl tr s q d c : ext tl (fst (track_update cfg tl tr s q d c)).
Proof. rewrite track_update_spec. destruct (immediate cfg tl q d); [apply ext_refl|eexists; reflexivity]. Qed.

Lemma exec_op_ext cfg tl o : ext tl (fst (exec_op cfg tl o)).
Proof.
  destruct o as [|s q d count rwd name replace|t s q d count|t| |t|t|t x|q d]; cbn [exec_op fst]; try apply ext_refl.
  - destruct (match name with
              | Some nm => if replace then match find_named nm (tracks tl) with Some tr => Some (nm, tr) | None => None end else None
              | None => None end) as [[nm tr]|].
    + pose proof (track_update_ext cfg tl tr s q d count) as H.
      destruct (track_update cfg tl tr s q d count) as [tl1 tr1]. exact H.
    + destruct (negb (max_tracks cfg =? 0) && (max_tracks cfg <=? Z.of_nat (length (tracks tl)))); [apply ext_refl|].
      pose proof (track_update_ext cfg tl (new_track (next_id tl) count rwd name) s q d None) as H.
      destruct (track_update cfg tl (new_track (next_id tl) count rwd name) s q d None) as [tl1 tr1]. exact H.
  - destruct (find_track t (tracks tl)) as [tr|].
    + pose proof (track_update_ext cfg tl tr s q d count) as H.
      destruct (track_update cfg tl tr s q d count) as [tl1 tr1]. exact H.
    + destruct (t <? next_id tl)%nat; [|apply ext_refl].
      pose proof (track_update_ext cfg tl (new_track t None true None) s q d count) as H.
      destruct (track_update cfg tl (new_track t None true None) s q d count) as [tl1 tr1]. exact H.
  - destruct (find_track t (tracks tl)); cbn [fst]; [apply remove_track_ext|apply ext_refl].
  - apply clear_ext.
  - destruct (find_track t (tracks tl)); cbn [fst]; apply ext_same; reflexivity.
  - destruct (find_track t (tracks tl)); cbn [fst]; apply ext_same; reflexivity.
  - destruct (find_track t (tracks tl)); cbn [fst]; apply ext_same; reflexivity.
  - apply ext_same; reflexivity.
Qed.

Lemma phase_tracks_ext cfg ids tl calls : ext tl (fst (fst (phase_tracks cfg tl ids calls))).
Proof.
  apply (Q_phase_tracks cfg ext (fun _ _ => True)); auto.
  - apply ext_refl.
  - apply ext_trans.
  - intros cb o tl0 _. apply exec_op_ext.
  - intros. apply ext_same. reflexivity.
  - apply remove_track_ext.
  - intros. apply ext_same. reflexivity.
Qed.
Lemma exec_cb_ops_ext cfg ops tl : ext tl (exec_cb_ops cfg tl ops).
Proof.
  apply (Q_cb_ops cfg ext); [apply ext_refl|apply ext_trans|]. intros o _ tl0. apply exec_op_ext.
Qed.

(** * 4. the action phase *)
(* the stream of the last due start for track [id] in the list *)
Fixpoint last_start (nw : Z) (id : nat) (acts : list action) (acc : option stream) : option stream :=
  match acts with
  | [] => acc
  | a :: r => last_start nw id r (match a with
                                  | AStart t i s => if (t <=? nw) && (i =? id)%nat then Some s else acc
                                  | ARelease _ _ _ => acc
                                  end)
  end.
Lemma last_start_app nw id l1 : forall l2 acc, last_start nw id (l1 ++ l2) acc = last_start nw id l2 (last_start nw id l1 acc).
Proof. induction l1 as [|a r IH]; intros l2 acc; simpl; [reflexivity|apply IH]. Qed.
Lemma last_start_acc nw id l : forall s, last_start nw id l (Some s) =
  match last_start nw id l None with Some s' => Some s' | None => Some s end.
Proof.
  induction l as [|a r IH]; intros s; simpl; [reflexivity|].
  destruct a as [t i s0|t n c]; [|apply IH].
  destruct ((t <=? nw) && (i =? id)%nat); [|apply IH]. rewrite (IH s0). destruct (last_start nw id r None); reflexivity.
Qed.
(* a due start for [id] that is followed by no other due start for [id] is the one that wins *)
Definition no_due_start (nw : Z) (id : nat) (l : list action) : Prop :=
  forall t s, In (AStart t id s) l -> nw < t.
Lemma last_start_none nw id l : no_due_start nw id l -> forall acc, last_start nw id l acc = acc.
Proof.
  induction l as [|a r IH]; intros H acc; simpl; [reflexivity|].
  assert (Hr : no_due_start nw id r) by (intros t s Hi; apply (H t s); right; exact Hi).
  destruct a as [t i s|t n c]; [|apply IH; exact Hr].
  destruct ((t <=? nw) && (i =? id)%nat) eqn:E; [|apply IH; exact Hr].
  apply andb_true_iff in E as [E1 E2]. apply Nat.eqb_eq in E2. subst i.
  specialize (H t s (or_introl eq_refl)). lia.
Qed.
Lemma last_start_wins nw id l1 t s l2 : t <= nw -> no_due_start nw id l2 ->
  last_start nw id (l1 ++ AStart t id s :: l2) None = Some s.
Proof.
  intros Ht H. rewrite last_start_app. simpl.
  replace (t <=? nw) with true by lia. rewrite Nat.eqb_refl. simpl. apply last_start_none. exact H.
Qed.
Lemma last_start_some nw id l : forall acc s, last_start nw id l acc = Some s ->
  acc = Some s \/ exists t, In (AStart t id s) l /\ t <= nw.
Proof.
  induction l as [|a r IH]; intros acc s H; simpl in H; [left; exact H|].
  destruct (IH _ _ H) as [E|[t [Hi Ht]]]; [|right; exists t; split; [right; exact Hi|exact Ht]].
  destruct a as [t i s0|t n c]; [|left; exact E].
  destruct ((t <=? nw) && (i =? id)%nat) eqn:C; [|left; exact E].
  apply andb_true_iff in C as [C1 C2]. apply Nat.eqb_eq in C2. subst i. inversion E; subst s0.
  right. exists t. split; [left; reflexivity|lia].
Qed.

Lemma track_start_twice tr s s' : track_start (track_start tr s) s' = track_start tr s'.
Proof. reflexivity. Qed.

Definition started_with (o : option stream) (tr : track) : track :=
  match o with Some s => track_start tr s | None => tr end.

Definition not_due (nw : Z) (a : action) : bool := negb (a_time a <=? nw).

Lemma phase_actions_spec todo : forall tl kept calls,
  let '(tl', kept', _) := phase_actions tl todo kept calls in
  kept' = kept ++ filter (not_due (now tl)) todo
  /\ actions tl' = actions tl /\ now tl' = now tl /\ next_id tl' = next_id tl
  /\ map t_id (tracks tl') = map t_id (tracks tl)
  /\ forall id, find_track id (tracks tl') =
                option_map (started_with (last_start (now tl) id todo None)) (find_track id (tracks tl)).
Proof.
  induction todo as [|a r IH]; intros tl kept calls.
  - simpl. rewrite app_nil_r. repeat split. intros id. destruct (find_track id (tracks tl)); reflexivity.
  - cbn [phase_actions filter]. unfold not_due at 1. destruct (a_time a <=? now tl) eqn:D; cbn [negb].
    + destruct a as [t i s|t n c]; cbn [fire_action].
      * destruct (find_track i (tracks tl)) as [tr|] eqn:F.
        -- specialize (IH (upd_track tl (track_start tr s)) kept (calls ++ [])).
           destruct (phase_actions (upd_track tl (track_start tr s)) r kept (calls ++ [])) as [[tl' kept'] calls'].
           destruct IH as [K [A [Nw [Ni [Ids Fd]]]]]. cbn [upd_track set_tracks now actions next_id tracks] in *.
           split; [exact K|]. split; [exact A|]. split; [exact Nw|]. split; [exact Ni|].
           split; [rewrite Ids; apply put_ids|].
           intros id. rewrite Fd. cbn [last_start a_time] in *. rewrite D. cbn [andb].
           assert (Ei : t_id (track_start tr s) = i) by (apply (find_track_id _ _ _ F)).
           destruct (i =? id)%nat eqn:E.
           ++ apply Nat.eqb_eq in E. subst id.
              assert (F2 : find_track (t_id (track_start tr s)) (tracks tl) = Some tr) by (rewrite Ei; exact F).
              pose proof (find_put_same _ _ _ F2) as F3. rewrite Ei in F3. rewrite F3, F. cbn [option_map].
              rewrite last_start_acc. destruct (last_start (now tl) i r None); reflexivity.
           ++ apply Nat.eqb_neq in E. rewrite find_put_other by (rewrite Ei; exact E). reflexivity.
        -- specialize (IH tl kept (calls ++ [])).
           destruct (phase_actions tl r kept (calls ++ [])) as [[tl' kept'] calls'].
           destruct IH as [K [A [Nw [Ni [Ids Fd]]]]].
           repeat (split; [assumption|]).
           intros id. rewrite Fd. cbn [last_start a_time] in *. rewrite D. cbn [andb].
           destruct (i =? id)%nat eqn:E; [|reflexivity].
           apply Nat.eqb_eq in E. subst id. rewrite F. reflexivity.
      * specialize (IH tl kept (calls ++ [CNoteOff n c])).
        destruct (phase_actions tl r kept (calls ++ [CNoteOff n c])) as [[tl' kept'] calls'].
        exact IH.
    + specialize (IH tl (kept ++ [a]) calls).
      destruct (phase_actions tl r (kept ++ [a]) calls) as [[tl' kept'] calls'].
      destruct IH as [K [A [Nw [Ni [Ids Fd]]]]].
      split; [rewrite K, <- app_assoc; reflexivity|]. repeat (split; [assumption|]).
      intros id. rewrite Fd. cbn [last_start]. destruct a as [t i s|t n c]; [|reflexivity].
      cbn [a_time] in D. rewrite D. reflexivity.
Qed.

Lemma phase_noteoffs_find l id :
  find_track id (fst (phase_noteoffs l)) = option_map (fun tr => fst (process_note_offs tr)) (find_track id l)
  /\ map t_id (fst (phase_noteoffs l)) = map t_id l.
Proof.
  induction l as [|t r IH]; [split; reflexivity|].
  cbn [phase_noteoffs]. destruct (process_note_offs t) as [t' c] eqn:P.
  destruct (phase_noteoffs r) as [r' cs]. cbn [fst] in *.
  assert (Et : t' = fst (process_note_offs t)) by (rewrite P; reflexivity).
  assert (Eid : t_id t' = t_id t) by (rewrite Et; reflexivity).
  destruct IH as [IH1 IH2]. split.
  - cbn [find_track]. rewrite Eid. destruct (t_id t =? id)%nat; [rewrite Et; reflexivity|exact IH1].
  - cbn [map]. rewrite Eid, IH2. reflexivity.
Qed.

(* everything Timeline.tick does before the tracks get their turn *)
Definition tick_pre (tl : timeline) : timeline * list call :=
  let '(trs1, c1) := phase_noteoffs (tracks tl) in
  let tl1 := set_tracks tl trs1 in
  let '(tl2, kept, c3) := phase_actions (set_actions tl1 []) (actions tl1) [] [] in
  (set_actions tl2 (kept ++ actions tl2), c1 ++ c3).

Lemma tl_tick_pre cfg tl :
  tl_tick cfg tl =
  let '(tl3, c13) := tick_pre tl in
  let '(tl4, c4, res) := phase_tracks cfg tl3 (map t_id (tracks tl3)) [] in
  match res with
  | ROk =>
      if (match tracks tl4, actions tl4 with [], [] => true | _, _ => false end) && stop_when_done cfg
      then (tl4, c13 ++ c4, RStopIteration)
      else (mkTL (now tl4 + tau cfg) (tracks tl4) (actions tl4) (next_id tl4) (def_q tl4) (def_d tl4) (dev_calls tl4), c13 ++ c4, ROk)
  | _ => (tl4, c13 ++ c4, res)
  end.
Proof.
  unfold tl_tick, tick_pre. destruct (phase_noteoffs (tracks tl)) as [trs1 c1].
  destruct (phase_actions (set_actions (set_tracks tl trs1) []) (actions (set_tracks tl trs1)) [] []) as [[tl2 kept] c3].
  destruct (phase_tracks cfg (set_actions tl2 (kept ++ actions tl2)) (map t_id (tracks (set_actions tl2 (kept ++ actions tl2)))) []) as [[tl4 c4] res].
  rewrite <- app_assoc. reflexivity.
Qed.

(* the state in which the tracks get their turn *)
Theorem tick_pre_spec tl :
  let tl3 := fst (tick_pre tl) in
  now tl3 = now tl /\ next_id tl3 = next_id tl
  /\ actions tl3 = filter (not_due (now tl)) (actions tl)
  /\ map t_id (tracks tl3) = map t_id (tracks tl)
  /\ forall id, find_track id (tracks tl3) =
       option_map (fun tr => started_with (last_start (now tl) id (actions tl) None) (fst (process_note_offs tr)))
                  (find_track id (tracks tl)).
Proof.
  unfold tick_pre.
  pose proof (phase_noteoffs_find (tracks tl)) as PN.
  destruct (phase_noteoffs (tracks tl)) as [trs1 c1]. cbn [fst] in PN.
  pose proof (phase_actions_spec (actions (set_tracks tl trs1)) (set_actions (set_tracks tl trs1) []) [] []) as PA.
  destruct (phase_actions (set_actions (set_tracks tl trs1) []) (actions (set_tracks tl trs1)) [] []) as [[tl2 kept] c3].
  destruct PA as [K [A [Nw [Ni [Ids Fd]]]]]. cbn [fst set_actions set_tracks now actions next_id tracks] in *.
  rewrite A, app_nil_r. split; [exact Nw|]. split; [exact Ni|]. split; [exact K|].
  split; [rewrite Ids; apply (proj2 (PN 0%nat))|].
  intros id. rewrite Fd, (proj1 (PN id)). destruct (find_track id (tracks tl)); reflexivity.
Qed.

(* Track.start leaves the pending note-offs alone, and so does requesting it *)
Lemma track_start_offs tr s : t_offs (track_start tr s) = t_offs tr.
Proof. reflexivity. Qed.
Lemma with_count_offs tr c : t_offs (with_count tr c) = t_offs tr.
Proof. destruct c; reflexivity. Qed.
Lemma started_with_offs o tr : t_offs (started_with o tr) = t_offs tr.
Proof. destruct o; reflexivity. Qed.
Lemma started_with_fresh s tr : let tr' := started_with (Some s) tr in
  t_stream tr' = s /\ t_started tr' = true /\ t_next tr' = t_cur tr' /\ t_cur tr' = t_cur tr
  /\ t_count tr' = t_count tr /\ t_max tr' = t_max tr /\ t_muted tr' = t_muted tr /\ t_offs tr' = t_offs tr.
Proof. repeat split. Qed.

(** the first event of the new stream is what the track performs on that tick *)
Lemma fresh_first_event cfg tr e s' :
  (2 <= fuel cfg)%nat -> t_started tr = true -> t_next tr = t_cur tr -> count_exhausted tr = false ->
  pull (t_stream tr) = (REvent e, s') -> 0 < e_dur e ->
  tick_event cfg tr = Some e.
Proof.
  intros Hf Hs Hn Hc Hp Hd. unfold tick_event. rewrite Hs. cbn [negb].
  assert (D1 : (t_next tr <=? t_cur tr) = true) by lia. rewrite D1.
  assert (G : get_next_event tr = (GEvent e, set_count (set_stream tr s') (t_count tr + 1))).
  { unfold get_next_event. rewrite Hc, Hp. reflexivity. }
  rewrite (pull_loop_once (fuel cfg) tr e _ Hf D1 G); [reflexivity|]. cbn [t_next t_cur set_count set_stream]. lia.
Qed.
Lemma fresh_exhausted cfg tr nowT n :
  (1 <= fuel cfg)%nat -> t_started tr = true -> t_next tr = t_cur tr ->
  (count_exhausted tr = true \/ fst (pull (t_stream tr)) = RStopIter) ->
  snd (track_tick_a cfg nowT tr n) = TStop /\ snd (fst (fst (track_tick_a cfg nowT tr n))) = [].
Proof.
  intros Hf Hs Hn Hc. unfold track_tick_a. rewrite Hs. cbn [negb].
  assert (D1 : (t_next tr <=? t_cur tr) = true) by lia. rewrite D1.
  destruct (fuel cfg) as [|f]; [lia|]. cbn [pull_loop]. rewrite D1.
  unfold get_next_event. destruct Hc as [Hc|Hc]; [rewrite Hc; split; reflexivity|].
  destruct (count_exhausted tr); [split; reflexivity|].
  destruct (pull (t_stream tr)) as [r s']. cbn [fst] in Hc. subst r. split; reflexivity.
Qed.

(* what Track.tick does with the event tick_event names *)
Lemma tick_a_of_event cfg nowT tr n e : tick_event cfg tr = Some e ->
  exists trp, pull_loop (fuel cfg) tr None = (PDone (Some e), trp) /\
    track_tick_a cfg nowT tr n =
      (let '(tr'', calls, n', pf) := perform_event (dev_fail cfg) nowT trp e n in
       (tr'', calls, n', match pf with PfOk => TNormal | PfRaise => TRaise | PfCallback cb => TCallback cb end)).
Proof.
  unfold tick_event, track_tick_a. destruct (negb (t_started tr)); [discriminate|].
  destruct (t_next tr <=? t_cur tr); [|discriminate].
  destruct (pull_loop (fuel cfg) tr None) as [[[e'|]| | |] trp]; try discriminate.
  intros H. inversion H; subst e'. exists trp. split; reflexivity.
Qed.

(** * 5. without a due start a tick only pulls from the stream the track has *)
Definition pulls (tr tr' : track) : Prop := exists k, t_stream tr' = pull_n (t_stream tr) k.
Lemma pull_n_add s a : forall b, pull_n (pull_n s a) b = pull_n s (a + b).
Proof. revert s. induction a as [|a IH]; intros s b; simpl; [reflexivity|apply IH]. Qed.
Lemma pulls_refl tr : pulls tr tr.
Proof. exists 0%nat. reflexivity. Qed.
Lemma pulls_trans a b c : pulls a b -> pulls b c -> pulls a c.
Proof. intros [k1 H1] [k2 H2]. exists (k1 + k2)%nat. rewrite H2, H1. apply pull_n_add. Qed.
Lemma pulls_same a b : t_stream b = t_stream a -> pulls a b.
Proof. intros H. exists 0%nat. exact H. Qed.

Lemma gne_pulls tr : pulls tr (snd (get_next_event tr)).
Proof.
  unfold get_next_event. destruct (count_exhausted tr); [apply pulls_refl|].
  destruct (pull (t_stream tr)) as [r s'] eqn:P.
  assert (pulls tr (set_stream tr s')) by (exists 1%nat; simpl; rewrite P; reflexivity).
  destruct r; cbn [snd]; exact H.
Qed.
Lemma pull_loop_pulls fu : forall tr last, pulls tr (snd (pull_loop fu tr last)).
Proof.
  induction fu as [|f IH]; intros tr last; simpl; [apply pulls_refl|].
  destruct (t_next tr <=? t_cur tr); [|apply pulls_refl].
  pose proof (gne_pulls tr) as G. destruct (get_next_event tr) as [[e| |] tr']; cbn [snd] in *; try exact G.
  apply (pulls_trans _ _ _ G). apply (pulls_trans _ (set_next tr' (t_next tr' + e_dur e))); [apply pulls_same; reflexivity|apply IH].
Qed.
Lemma tick_a_pulls cfg nowT tr n : pulls tr (fst (fst (fst (track_tick_a cfg nowT tr n)))).
Proof.
  unfold track_tick_a. destruct (negb (t_started tr)); [apply pulls_refl|].
  destruct (t_next tr <=? t_cur tr); [|apply pulls_refl].
  pose proof (pull_loop_pulls (fuel cfg) tr None) as P.
  destruct (pull_loop (fuel cfg) tr None) as [[[e|]| | |] tr']; cbn [snd fst] in *; try exact P.
  pose proof (perform_keeps (dev_fail cfg) nowT tr' e n) as K.
  destruct (perform_event (dev_fail cfg) nowT tr' e n) as [[[tr'' calls] n'] pf]. cbn [fst].
  apply (pulls_trans _ _ _ P). apply pulls_same. apply K.
Qed.
Lemma tick_b_pulls cfg tr st : pulls tr (track_tick_b cfg tr st).
Proof. apply pulls_same. unfold track_tick_b. destruct (st && _); reflexivity. Qed.

(* relation between the versions of track [id] before and after: still there -> only pulled; gone stays gone *)
Definition kept_pulling (id : nat) (tl tl' : timeline) : Prop :=
  match find_track id (tracks tl), find_track id (tracks tl') with
  | Some a, Some b => pulls a b
  | _, None => True
  | None, Some _ => False
  end.
Lemma kp_refl id tl : kept_pulling id tl tl.
Proof. unfold kept_pulling. destruct (find_track id (tracks tl)); [apply pulls_refl|exact I]. Qed.
Lemma kp_trans id a b c : kept_pulling id a b -> kept_pulling id b c -> kept_pulling id a c.
Proof.
  unfold kept_pulling. destruct (find_track id (tracks a)), (find_track id (tracks b)), (find_track id (tracks c)); try tauto.
  apply pulls_trans.
Qed.
Lemma kp_same id tl tl' : tracks tl' = tracks tl -> kept_pulling id tl tl'.
Proof. intros E. unfold kept_pulling. rewrite E. destruct (find_track id (tracks tl)); [apply pulls_refl|exact I]. Qed.

Definition kp_wf (id : nat) (tl tl' : timeline) : Prop := wf tl -> wf tl' /\ kept_pulling id tl tl'.

Lemma phase_tracks_kp cfg id ids tl calls : no_cb_ops cfg -> no_cb_stop cfg -> kp_wf id tl (fst (fst (phase_tracks cfg tl ids calls))).
Proof.
  intros NC NS. apply (Q_phase_tracks cfg (kp_wf id) pulls).
  - intros tl0 W. split; [exact W|apply kp_refl].
  - intros a b c H1 H2 W. destruct (H1 W) as [Wb K1]. destruct (H2 Wb) as [Wc K2].
    split; [exact Wc|apply (kp_trans id a b c K1 K2)].
  - intros cb o tl0 Hi. rewrite NC in Hi. destruct Hi.
  - intros tl0 i tr tr' F E P W. split; [apply wf_upd; exact W|]. subst i.
    unfold kept_pulling, upd_track. cbn [tracks set_tracks].
    destruct (Nat.eq_dec (t_id tr') id) as [E2|Hne].
    + rewrite <- E2. rewrite F, (find_put_same _ _ _ F). exact P.
    + rewrite (find_put_other _ _ _ Hne). destruct (find_track id (tracks tl0)); [apply pulls_refl|exact I].
  - intros tl0 i W. split; [apply wf_remove; exact W|].
    unfold kept_pulling. rewrite remove_track_tracks.
    destruct (Nat.eq_dec i id) as [->|Hne].
    + rewrite (find_del_same _ _ (proj1 W)). destruct (find_track id (tracks tl0)); exact I.
    + rewrite (find_del_other _ _ _ Hne). destruct (find_track id (tracks tl0)); [apply pulls_refl|exact I].
  - intros tl0 n W. split; [exact W|]. apply kp_same. reflexivity.
  - intros. apply tick_a_pulls.
  - intros. apply tick_b_pulls.
  - intros tr [cb Hcb]. exfalso. exact (NS cb Hcb).
Qed.

(* the timeline a tick leaves behind has the tracks and actions the track phase left *)
Lemma tl_tick_result cfg tl :
  let '(tl3, _) := tick_pre tl in
  let tl4 := fst (fst (phase_tracks cfg tl3 (map t_id (tracks tl3)) [])) in
  let tl' := fst (fst (tl_tick cfg tl)) in
  tracks tl' = tracks tl4 /\ actions tl' = actions tl4 /\ next_id tl' = next_id tl4.
Proof.
  rewrite tl_tick_pre. destruct (tick_pre tl) as [tl3 c13].
  destruct (phase_tracks cfg tl3 (map t_id (tracks tl3)) []) as [[tl4 c4] res]. cbn [fst].
  cbv zeta. destruct res; cbn [fst]; try (split; [reflexivity|split; reflexivity]).
  destruct ((match tracks tl4, actions tl4 with [], [] => true | _, _ => false end) && stop_when_done cfg);
    cbn [fst]; (split; [reflexivity|split; reflexivity]).
Qed.

Lemma tick_pre_wf tl : wf tl -> wf (fst (tick_pre tl)).
Proof.
  destruct (tick_pre_spec tl) as [_ [Ni [_ [Ids _]]]]. apply wf_same; [exact Ids|]. rewrite Ni. lia.
Qed.

Theorem tl_tick_wf cfg tl : wf tl -> wf (fst (fst (tl_tick cfg tl))).
Proof.
  intros W. pose proof (tl_tick_result cfg tl) as R. pose proof (tick_pre_wf tl W) as W3.
  destruct (tick_pre tl) as [tl3 c13]. cbn [fst] in *. destruct R as [R1 [_ R3]].
  pose proof (phase_tracks_wf cfg (map t_id (tracks tl3)) tl3 [] W3) as W4.
  revert W4. apply wf_same; [rewrite R1; reflexivity|rewrite R3; lia].
Qed.

(* one tick on which no start for [id] is due: the track, if it survives, has only been pulled from *)
Theorem tl_tick_kp cfg tl id : wf tl -> no_cb_ops cfg -> no_cb_stop cfg -> last_start (now tl) id (actions tl) None = None ->
  kept_pulling id tl (fst (fst (tl_tick cfg tl))).
Proof.
  intros W NC NS L. pose proof (tl_tick_result cfg tl) as R. pose proof (tick_pre_wf tl W) as W3.
  destruct (tick_pre_spec tl) as [_ [_ [_ [_ Fd]]]]. specialize (Fd id). rewrite L in Fd.
  destruct (tick_pre tl) as [tl3 c13]. cbn [fst] in *. destruct R as [R1 _].
  destruct (phase_tracks_kp cfg id (map t_id (tracks tl3)) tl3 [] NC NS W3) as [_ K].
  unfold kept_pulling in *. rewrite R1. rewrite Fd in K.
  destruct (find_track id (tracks tl)) as [tr|]; cbn [option_map started_with] in K; [|exact K].
  destruct (find_track id (tracks (fst (fst (phase_tracks cfg tl3 (map t_id (tracks tl3)) []))))) as [tr'|]; [|exact I].
  apply (pulls_trans _ (fst (process_note_offs tr))); [apply pulls_same; reflexivity|exact K].
Qed.

(** * 3'. over histories *)
Lemma step_keeps cfg tl o a : In a (actions tl) -> (o = OTick -> now tl < a_time a) ->
  In a (actions (fst (fst (step cfg tl o)))).
Proof.
  intros Hi Ht. destruct o.
  1: { cbn [step]. pose proof (tl_tick_result cfg tl) as R.
       destruct (tick_pre_spec tl) as [_ [_ [A _]]].
       destruct (tick_pre tl) as [tl3 c13]. cbn [fst] in *. destruct R as [_ [R2 _]]. rewrite R2.
       destruct (phase_tracks_ext cfg (map t_id (tracks tl3)) tl3 []) as [e E]. rewrite E, A.
       apply in_or_app. left. apply filter_In. split; [exact Hi|]. unfold not_due. specialize (Ht eq_refl). lia. }
  all: unfold step;
    match goal with |- context [exec_op ?c ?t ?o] =>
      destruct (exec_op_ext c t o) as [e E]; destruct (exec_op c t o) as [tl' r]; cbn [fst] in *;
      rewrite E; apply in_or_app; left; exact Hi end.
Qed.

Lemma ticks_in_nonneg ops : 0 <= ticks_in ops.
Proof. induction ops as [|o r IH]; simpl; [lia|]. destruct o; lia. Qed.

(* a pending action stays pending over any history all of whose ticks begin before its time *)
Theorem run_keeps cfg a : 0 < tau cfg -> forall ops tl, In a (actions tl) ->
  (ticks_in ops = 0 \/ now tl + (ticks_in ops - 1) * tau cfg < a_time a) ->
  In a (actions (run_state cfg tl ops)).
Proof.
  intros Htau. induction ops as [|o r IH]; intros tl Hi Hc; [exact Hi|].
  cbn [run_state]. pose proof (step_keeps cfg tl o a Hi) as K. pose proof (step_now cfg tl o) as Nw.
  pose proof (ticks_in_nonneg r) as Hr.
  destruct (step cfg tl o) as [[tl' c] res]. cbn [fst] in K.
  assert (Ho : o = OTick -> now tl < a_time a).
  { intros ->. cbn [ticks_in] in Hc. destruct Hc as [Hc|Hc]; [lia|]. nia. }
  apply IH; [apply K; exact Ho|].
  destruct (Z.eq_dec (ticks_in r) 0) as [E|E]; [left; exact E|right].
  destruct o; cbn [ticks_in] in Hc; try (rewrite Nw; destruct Hc as [Hc|Hc]; [lia|exact Hc]).
  destruct Hc as [Hc|Hc]; [lia|]. destruct res; rewrite Nw; nia.
Qed.

(* the first tick that begins at or after X, counted from a tick that begins at t *)
Lemma first_tick_arith tau t X : 0 < tau ->
  let n := Z.max 0 (cdiv (X - t) tau) in
  X <= t + n * tau /\ (0 < n -> t + (n - 1) * tau < X).
Proof.
  intros Htau n. pose proof (cdiv_spec (X - t) tau Htau). unfold n. split; [nia|]. intros Hn. nia.
Qed.

(** additions to the action list by a tick whose callbacks perform no operation are note releases *)
Definition is_release (a : action) : Prop := match a with ARelease _ _ _ => True | AStart _ _ _ => False end.
Definition only_releases (tl tl' : timeline) : Prop :=
  forall a, In a (actions tl') -> In a (actions tl) \/ is_release a.
Lemma phase_tracks_only_releases cfg ids tl calls : no_cb_ops cfg ->
  only_releases tl (fst (fst (phase_tracks cfg tl ids calls))).
Proof.
  intros NC. apply (Q_phase_tracks cfg only_releases (fun _ _ => True)); auto.
  - intros tl0 a Ha. left. exact Ha.
  - intros a b c H1 H2 x Hx. destruct (H2 x Hx) as [Hb|Hr]; [|right; exact Hr]. apply H1. exact Hb.
  - intros cb o tl0 Hi. rewrite NC in Hi. destruct Hi.
  - intros tl0 i tr tr' _ _ _ a Ha. left. exact Ha.
  - intros tl0 i a Ha. unfold remove_track in Ha. destruct (find_track i (tracks tl0)) as [tr|]; [|left; exact Ha].
    cbn [actions set_actions] in Ha. apply in_app_or in Ha as [Ha|Ha]; [left; exact Ha|right].
    unfold release_actions in Ha. apply in_map_iff in Ha as [x [<- _]]. exact I.
  - intros tl0 n a Ha. left. exact Ha.
Qed.

Definition starts_from (X : Z) (id : nat) (tl : timeline) : Prop :=
  forall t s, In (AStart t id s) (actions tl) -> X <= t.

Lemma tl_tick_starts_from cfg tl X id : no_cb_ops cfg -> starts_from X id tl ->
  starts_from X id (fst (fst (tl_tick cfg tl))).
Proof.
  intros NC H t s Hi. pose proof (tl_tick_result cfg tl) as R.
  destruct (tick_pre_spec tl) as [_ [_ [A _]]].
  destruct (tick_pre tl) as [tl3 c13]. cbn [fst] in *. destruct R as [_ [R2 _]]. rewrite R2 in Hi.
  destruct (phase_tracks_only_releases cfg (map t_id (tracks tl3)) tl3 [] NC _ Hi) as [Hi3|[]].
  rewrite A in Hi3. apply filter_In in Hi3 as [Hi3 _]. apply (H t s Hi3).
Qed.

(* until the first tick that begins at or after X, the earliest pending start for track [id]: the track
   keeps pulling from the stream it has (n plain ticks, callbacks without operations) *)
Theorem ticks_kp cfg id X : no_cb_ops cfg -> no_cb_stop cfg -> 0 < tau cfg -> forall n tl, wf tl -> starts_from X id tl ->
  (n = 0%nat \/ now tl + (Z.of_nat n - 1) * tau cfg < X) ->
  kept_pulling id tl (run_state cfg tl (repeat OTick n)).
Proof.
  intros NC NS Htau. induction n as [|n IH]; intros tl W S Hn; [apply kp_refl|].
  cbn [repeat run_state step].
  assert (Hnow : now tl < X) by (destruct Hn as [Hn|Hn]; [discriminate|nia]).
  assert (L : last_start (now tl) id (actions tl) None = None).
  { apply last_start_none. intros t s Hi. specialize (S t s Hi). lia. }
  pose proof (tl_tick_kp cfg tl id W NC NS L) as K. pose proof (tl_tick_wf cfg tl W) as W'.
  pose proof (tl_tick_starts_from cfg tl X id NC S) as S'. pose proof (tl_tick_now cfg tl) as Nw.
  destruct (tl_tick cfg tl) as [[tl' c] res]. cbn [fst] in *.
  apply (kp_trans id _ _ _ K). apply IH; [exact W'|exact S'|].
  destruct n as [|n]; [left; reflexivity|right]. destruct Hn as [Hn|Hn]; [discriminate|].
  destruct res; rewrite Nw; nia.
Qed.

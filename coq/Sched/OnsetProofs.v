(* Sched/OnsetProofs.v — C01: on which tick each event of a track is performed.
   For a started track whose stream yields events ev 0, ev 1, ... (at least L of them) with durations
   >= one tick, the event performed on the j-th tick after the start is ev k iff
   (j-1)*tau < N k <= j*tau, where N k is the exact sum of the first k durations. *)
From Isobar Require Import Base.Prelude Sched.Model.
#[local] Arguments Z.mul : simpl never.
#[local] Arguments Z.add : simpl never.
#[local] Arguments Z.sub : simpl never.
#[local] Arguments Z.of_nat : simpl never.

(** which event (if any) Track.tick hands to perform_event on this tick *)
Definition tick_event (cfg : config) (tr : track) : option event :=
  if negb (t_started tr) then None else
  if t_next tr <=? t_cur tr then
    match pull_loop (fuel cfg) tr None with
    | (PDone e, _) => e
    | _ => None
    end
  else None.

(** one whole Track.tick for a track whose events are not actions (no callback runs in between) *)
Definition track_tick (cfg : config) (nowT : Z) (tr : track) (n : nat) : track * list call * nat * ticked :=
  let '(tr1, c, n', res) := track_tick_a cfg nowT tr n in
  match res with
  | TNotStarted | TRaise | TOutOfFuel => (tr1, c, n', res)
  | TStop => (track_tick_b cfg tr1 true, c, n', res)
  | _ => (track_tick_b cfg tr1 false, c, n', res)
  end.

(* j ticks in a row; the timeline's clock advances with the track's *)
Fixpoint track_run (cfg : config) (nowT : Z) (tr : track) (n : nat) (j : nat) : track * nat :=
  match j with
  | O => (tr, n)
  | S j' => let '(tr', _, n', _) := track_tick cfg nowT tr n in track_run cfg (nowT + tau cfg) tr' n' j'
  end.

(** the stream: iterated pulls *)
Fixpoint pull_n (s : stream) (i : nat) : stream :=
  match i with O => s | S i' => pull_n (snd (pull s)) i' end.

Lemma pull_loop_once fu tr e tr1 : (2 <= fu)%nat ->
  (t_next tr <=? t_cur tr) = true -> get_next_event tr = (GEvent e, tr1) ->
  (t_next tr1 + e_dur e <=? t_cur tr1) = false ->
  pull_loop fu tr None = (PDone (Some e), set_next tr1 (t_next tr1 + e_dur e)).
Proof.
  intros Hfu D1 G D2. destruct fu as [|[|f]]; [lia|lia|].
  cbn [pull_loop]. rewrite D1, G.
  replace (t_next (set_next tr1 (t_next tr1 + e_dur e)) <=? t_cur (set_next tr1 (t_next tr1 + e_dur e)))
    with (t_next tr1 + e_dur e <=? t_cur tr1) by reflexivity.
  rewrite D2. reflexivity.
Qed.

Section Onsets.
  Variable cfg : config.
  Variable ev : nat -> event.
  Variable L : nat.                      (* the stream is known to deliver at least L events *)
  Variable c0 : Z.                       (* the track's clock when the stream starts *)
  Variable sh : Z.                       (* next_event_time - current_time at that moment (0 after start(); x after nudge(x)) *)
  Hypothesis Htau : 0 < tau cfg.
  Hypothesis Hfuel : (2 <= fuel cfg)%nat.
  Hypothesis Hdur : forall k, (k < L)%nat -> tau cfg <= e_dur (ev k).
  Hypothesis Hfail : dev_fail cfg = None.
  Hypothesis Hsh : - tau cfg < sh.

  (* exact cumulative duration *)
  Fixpoint N (k : nat) : Z := match k with O => 0 | S k' => N k' + e_dur (ev k') end.

  Lemma N_le a b : (a <= b)%nat -> (b <= L)%nat -> N a <= N b.
  Proof.
    induction 1 as [|b Hab IH]; intros Hb; [lia|].
    simpl. specialize (Hdur b ltac:(lia)). specialize (IH ltac:(lia)). lia.
  Qed.
  Lemma N_lt a b : (a < b)%nat -> (b <= L)%nat -> N a + tau cfg <= N b.
  Proof.
    intros Hab Hb. pose proof (N_le (S a) b ltac:(lia) Hb) as H. simpl in H.
    specialize (Hdur a ltac:(lia)). lia.
  Qed.

  (* the stream s delivers ev p, ev (p+1), ... up to index L *)
  Definition fed (s : stream) (p : nat) : Prop :=
    forall i, (p + i < L)%nat -> fst (pull (pull_n s i)) = REvent (ev (p + i)).

  Lemma fed_step s p : fed s p -> (p < L)%nat ->
    fst (pull s) = REvent (ev p) /\ fed (snd (pull s)) (S p).
  Proof.
    intros H Hp. split.
    - specialize (H 0%nat). rewrite Nat.add_0_r in H. apply H. lia.
    - intros i Hi. specialize (H (S i)). simpl in H. rewrite <- plus_n_Sm in H. apply H. lia.
  Qed.

  (* invariant at the beginning of the j-th tick (j = 0, 1, ...), p events pulled so far *)
  Record Inv (j : nat) (p : nat) (tr : track) : Prop := {
    i_started : t_started tr = true;
    i_cur : t_cur tr = c0 + Z.of_nat j * tau cfg;
    i_next : t_next tr = c0 + sh + N p;
    i_fed : fed (t_stream tr) p;
    i_max : t_max tr = None \/ t_max tr = Some 0;
    i_le : (p <= L)%nat;
    i_lo : (Z.of_nat j - 1) * tau cfg < sh + N p;
    i_hi : p = 0%nat \/ sh + N (p - 1) <= (Z.of_nat j - 1) * tau cfg }.

  Lemma unb tr : t_max tr = None \/ t_max tr = Some 0 -> count_exhausted tr = false.
  Proof. unfold count_exhausted. intros [-> | ->]; reflexivity. Qed.

  Lemma gne_event tr p : fed (t_stream tr) p -> (p < L)%nat -> (t_max tr = None \/ t_max tr = Some 0) ->
    get_next_event tr = (GEvent (ev p), set_count (set_stream tr (snd (pull (t_stream tr)))) (t_count tr + 1)).
  Proof.
    intros Hf Hp Hm. unfold get_next_event. rewrite (unb _ Hm).
    destruct (fed_step _ _ Hf Hp) as [E _].
    destruct (pull (t_stream tr)) as [r s'] eqn:Epull. simpl in E. subst r. reflexivity.
  Qed.

  (* when the next event is due, the loop pulls exactly one event *)
  Lemma pull_loop_due j p tr : Inv j p tr -> (p < L)%nat -> sh + N p <= Z.of_nat j * tau cfg ->
    exists tr', pull_loop (fuel cfg) tr None = (PDone (Some (ev p)), tr')
      /\ t_started tr' = true /\ t_cur tr' = t_cur tr /\ t_next tr' = c0 + sh + N (S p)
      /\ fed (t_stream tr') (S p) /\ t_max tr' = t_max tr /\ t_count tr' = t_count tr + 1.
  Proof.
    intros I Hp Hdue. destruct I.
    assert (D1 : (t_next tr <=? t_cur tr) = true) by lia.
    pose proof (gne_event tr p i_fed0 Hp i_max0) as G.
    destruct (fed_step _ _ i_fed0 Hp) as [_ Hfed'].
    set (tr1 := set_count (set_stream tr (snd (pull (t_stream tr)))) (t_count tr + 1)) in *.
    assert (D2 : (t_next tr1 + e_dur (ev p) <=? t_cur tr1) = false).
    { unfold tr1; simpl. specialize (Hdur p Hp). lia. }
    rewrite (pull_loop_once (fuel cfg) tr (ev p) tr1 Hfuel D1 G D2).
    eexists. split; [reflexivity|]. unfold tr1; simpl. repeat split; auto. lia.
  Qed.

  Lemma perform_keeps fail nowT tr e n :
    let '(tr', _, _, _) := perform_event fail nowT tr e n in
    t_started tr' = t_started tr /\ t_cur tr' = t_cur tr /\ t_next tr' = t_next tr /\ t_stream tr' = t_stream tr
    /\ t_max tr' = t_max tr /\ t_count tr' = t_count tr.
  Proof.
    unfold perform_event. destruct (negb (e_active e)); [repeat split|].
    destruct (t_muted tr); [repeat split|].
    destruct (e_kind e) as [vs|cb|c v ch|pr ch].
    - destruct (perform_voices fail nowT (t_cur tr) vs n (t_offs tr) []) as [[[offs calls] n'] ok]. repeat split.
    - repeat split.
    - destruct (dev_emit fail n); repeat split.
    - destruct (dev_emit fail n); repeat split.
  Qed.

  Lemma voices_ok nowT cur vs : forall n offs calls,
    snd (perform_voices None nowT cur vs n offs calls) = true.
  Proof.
    induction vs as [|v r IH]; intros n offs calls; simpl; [reflexivity|].
    destruct (voice_on v); apply IH.
  Qed.

  Lemma perform_no_raise nowT tr e n :
    let '(_, _, _, pf) := perform_event None nowT tr e n in pf <> PfRaise.
  Proof.
    unfold perform_event. destruct (negb (e_active e)); [discriminate|].
    destruct (t_muted tr); [discriminate|].
    destruct (e_kind e) as [vs|cb|c v ch|pr ch]; simpl; try discriminate.
    pose proof (voices_ok nowT (t_cur tr) vs n (t_offs tr) []) as H.
    destruct (perform_voices None nowT (t_cur tr) vs n (t_offs tr) []) as [[[offs calls] n'] ok].
    simpl in H. subst ok. discriminate.
  Qed.

  (* one tick when the next event is due: it is performed and the invariant moves on *)
  Lemma tick_due j p tr nowT n : Inv j p tr -> (p < L)%nat -> sh + N p <= Z.of_nat j * tau cfg ->
    tick_event cfg tr = Some (ev p) /\
    let '(tr', _, _, _) := track_tick cfg nowT tr n in
    Inv (S j) (S p) tr' /\ t_count tr' = t_count tr + 1.
  Proof.
    intros I Hp Hdue.
    destruct (pull_loop_due j p tr I Hp Hdue) as [trp [Hpl [Hst [Hcur [Hnext [Hfed [Hmax Hcnt]]]]]]].
    pose proof I as I0. destruct I.
    assert (D1 : (t_next tr <=? t_cur tr) = true) by lia.
    split.
    - unfold tick_event. rewrite i_started0, D1, Hpl. reflexivity.
    - unfold track_tick, track_tick_a. rewrite i_started0. cbn [negb]. rewrite D1, Hpl, Hfail.
      pose proof (perform_keeps None nowT trp (ev p) n) as K.
      pose proof (perform_no_raise nowT trp (ev p) n) as NR.
      destruct (perform_event None nowT trp (ev p) n) as [[[tr2 calls] n'] pf].
      destruct K as [K1 [K2 [K3 [K4 [K5 K6]]]]].
      assert (Hgoal : Inv (S j) (S p) (track_tick_b cfg tr2 false) /\ t_count (track_tick_b cfg tr2 false) = t_count tr + 1).
      { unfold track_tick_b. cbn [andb]. simpl. split; [constructor; simpl|].
        - congruence.
        - rewrite K2, Hcur, i_cur0. lia.
        - rewrite K3. exact Hnext.
        - rewrite K4. exact Hfed.
        - rewrite K5, Hmax. exact i_max0.
        - lia.
        - specialize (Hdur p Hp). lia.
        - right. replace (p - 0)%nat with p by lia. lia.
        - rewrite K6. exact Hcnt. }
      destruct pf; try exact Hgoal. congruence.
  Qed.

  (* one tick when nothing is due: nothing is performed *)
  Lemma tick_idle j p tr nowT n : Inv j p tr -> Z.of_nat j * tau cfg < sh + N p ->
    tick_event cfg tr = None /\
    let '(tr', c, _, _) := track_tick cfg nowT tr n in
    Inv (S j) p tr' /\ t_count tr' = t_count tr /\ c = [].
  Proof.
    intros I Hnd. destruct I.
    assert (D1 : (t_next tr <=? t_cur tr) = false) by lia.
    split.
    - unfold tick_event. rewrite i_started0, D1. reflexivity.
    - unfold track_tick, track_tick_a. rewrite i_started0. cbn [negb]. rewrite D1.
      unfold track_tick_b. cbn [andb]. split; [constructor; simpl; auto; try lia|split; reflexivity].
      all: try (destruct i_hi0 as [->|H]; [left; reflexivity|right; lia]).
  Qed.

  (** the state after j ticks *)
  Theorem run_inv tr0 nowT n0 : Inv 0 0 tr0 ->
    forall j, (Z.of_nat j - 1) * tau cfg < sh + N L ->
    exists p, Inv j p (fst (track_run cfg nowT tr0 n0 j))
              /\ t_count (fst (track_run cfg nowT tr0 n0 j)) = t_count tr0 + Z.of_nat p.
  Proof.
    intros I0 jj. revert tr0 nowT n0 I0.
    (* generalise the starting point: from any state satisfying the invariant at tick j0 *)
    assert (G : forall j j0 p0 tr nowT n, Inv j0 p0 tr ->
              (Z.of_nat (j0 + j) - 1) * tau cfg < sh + N L ->
              exists p, Inv (j0 + j) p (fst (track_run cfg nowT tr n j))
                        /\ t_count (fst (track_run cfg nowT tr n j)) = t_count tr + Z.of_nat p - Z.of_nat p0).
    { intros j. induction j as [|j IH]; intros j0 p0 tr nowT n I Hh.
      - exists p0. rewrite Nat.add_0_r. simpl. split; [exact I|lia].
      - cbn [track_run].
        destruct (Z_le_gt_dec (sh + N p0) (Z.of_nat j0 * tau cfg)) as [Hdue|Hnd].
        + assert (Hp : (p0 < L)%nat).
          { destruct (Nat.lt_ge_cases p0 L) as [H|H]; [exact H|]. exfalso.
            pose proof (i_le _ _ _ I). assert (p0 = L) by lia. subst p0. nia. }
          destruct (tick_due j0 p0 tr nowT n I Hp Hdue) as [_ T].
          destruct (track_tick cfg nowT tr n) as [[[tr' c] n'] res]. destruct T as [I' Hc].
          destruct (IH (S j0) (S p0) tr' (nowT + tau cfg) n' I') as [p [Ip Hcp]].
          { replace (S j0 + j)%nat with (j0 + S j)%nat by lia. exact Hh. }
          exists p. replace (j0 + S j)%nat with (S j0 + j)%nat by lia. split; [exact Ip|]. rewrite Hcp, Hc. lia.
        + destruct (tick_idle j0 p0 tr nowT n I ltac:(lia)) as [_ T].
          destruct (track_tick cfg nowT tr n) as [[[tr' c] n'] res]. destruct T as [I' [Hc _]].
          destruct (IH (S j0) p0 tr' (nowT + tau cfg) n' I') as [p [Ip Hcp]].
          { replace (S j0 + j)%nat with (j0 + S j)%nat by lia. exact Hh. }
          exists p. replace (j0 + S j)%nat with (S j0 + j)%nat by lia. split; [exact Ip|]. rewrite Hcp, Hc. lia. }
    intros tr0 nowT n0 I0 Hh. destruct (G jj 0%nat 0%nat tr0 nowT n0 I0 Hh) as [p [Ip Hc]].
    exists p. simpl in *. split; [exact Ip|lia].
  Qed.

  (** the event performed on tick j is the unique k with (j-1)*tau < sh + N k <= j*tau *)
  Theorem onset_iff tr0 nowT n0 : Inv 0 0 tr0 ->
    forall j k, (k < L)%nat -> Z.of_nat j * tau cfg < sh + N L ->
    let trj := fst (track_run cfg nowT tr0 n0 j) in
    ((Z.of_nat j - 1) * tau cfg < sh + N k <= Z.of_nat j * tau cfg
       -> tick_event cfg trj = Some (ev k) /\ t_count trj = t_count tr0 + Z.of_nat k)
    /\ (~ ((Z.of_nat j - 1) * tau cfg < sh + N k <= Z.of_nat j * tau cfg)
       -> tick_event cfg trj = None \/ t_count trj <> t_count tr0 + Z.of_nat k).
  Proof.
    intros I0 j k Hk Hh trj.
    destruct (run_inv tr0 nowT n0 I0 j ltac:(lia)) as [p [Ip Hc]]. fold trj in Ip, Hc.
    pose proof (i_le _ _ _ Ip) as Hle. pose proof (i_lo _ _ _ Ip) as Hlo. pose proof (i_hi _ _ _ Ip) as Hhi.
    split.
    - intros [Hk1 Hk2].
      assert (p = k).
      { destruct (Nat.lt_trichotomy p k) as [H|[H|H]]; [|exact H|].
        - pose proof (N_lt p k H ltac:(lia)). lia.
        - destruct Hhi as [->|Hhi]; [lia|]. pose proof (N_le k (p - 1) ltac:(lia) ltac:(lia)). lia. }
      subst p. split; [|exact Hc].
      apply (tick_due j k trj nowT n0 Ip Hk Hk2).
    - intros Hn. destruct (Z_le_gt_dec (sh + N p) (Z.of_nat j * tau cfg)) as [Hdue|Hnd].
      + right. rewrite Hc. intros E. assert (p = k) by lia. subst p. lia.
      + left. apply (tick_idle j p trj nowT n0 Ip ltac:(lia)).
  Qed.
End Onsets.

(** a track on which start() has just been called (next_event_time = current_time), and more generally a
    started track whose next event is not overdue by a whole tick: the invariant holds with j = 0, p = 0 *)
Lemma start_inv cfg ev L tr sh :
  t_started tr = true -> t_next tr = t_cur tr + sh -> - tau cfg < sh ->
  fed ev L (t_stream tr) 0 -> (t_max tr = None \/ t_max tr = Some 0) ->
  Inv cfg ev L (t_cur tr) sh 0 0 tr.
Proof.
  intros Hs Hn Hsh Hf Hm. constructor; auto; simpl; try lia.
Qed.

(* Track.nudge(x) adds x to next_event_time and touches nothing else *)
Lemma nudge_shift cfg ev L tr sh x :
  t_started tr = true -> t_next tr = t_cur tr + sh -> - tau cfg < sh + x ->
  fed ev L (t_stream tr) 0 -> (t_max tr = None \/ t_max tr = Some 0) ->
  Inv cfg ev L (t_cur tr) (sh + x) 0 0 (set_next tr (t_next tr + x)).
Proof.
  intros Hs Hn Hsh Hf Hm. constructor; auto; simpl; try lia.
Qed.

(* ceil for a positive divisor *)
Lemma cdiv_spec t q : 0 < q -> (cdiv t q - 1) * q < t <= cdiv t q * q.
Proof. intros Hq. unfold cdiv. pose proof (Z.div_mod (- t) q ltac:(lia)). pose proof (Z.mod_pos_bound (- t) q Hq). nia. Qed.

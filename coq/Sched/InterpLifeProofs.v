(* Sched/InterpLifeProofs.v — C06 for interpolating tracks: a muted, unscheduled or not-yet-started interpolating
   track makes no device call, on ANY tick of ANY history; muting never changes what the track does to itself
   (its position on the curve, its event count, the tick on which it finishes): the outcome of an audible tick is
   the outcome the never-muted track has on that tick. *)
From Isobar Require Import Base.Prelude Sched.Interp Sched.InterpLife.
From Coq Require Import QArith String.
Local Notation length := List.length (only parsing).
Local Open Scope Z_scope.

Lemma silence_not_call o : is_call (silence o) = false.
Proof. destruct o; reflexivity. Qed.
Lemma silence_idem o : silence (silence o) = silence o.
Proof. destruct o; reflexivity. Qed.
Lemma silence_keeps o : is_call o = false -> silence o = o.
Proof. destruct o; simpl; [discriminate| | |]; reflexivity. Qed.

Section Life.
Variable cospi : Q -> Q.
Variable tpb : Z.
Variable mode : imode.
Variable maxc : option Z.
Notation tickM := (tick cospi tpb mode maxc).
Notation runM := (run cospi tpb mode maxc).
Notation lstepM := (lstep cospi tpb mode maxc).
Notation ltraceM := (ltrace cospi tpb mode maxc).
Notation lfinalM := (lfinal cospi tpb mode maxc).

(** * One tick *)
(* a tick of a muted track makes no control call - whatever the state of the track: in the middle of a segment, on
   the tick that opens the next segment, on its first tick *)
Theorem muted_tick_silent st : l_muted st = true ->
  match fst (lstepM st LTick) with Some o => is_call o = false | None => False end.
Proof.
  intros M. unfold lstep. destruct (negb (l_sched st)); [reflexivity|]. destruct (l_wait st); [|reflexivity].
  destruct (tickM (l_track st)) as [out tr']. rewrite M. apply silence_not_call.
Qed.

(* neither does a tick of a track that is not scheduled, or not started yet; and it leaves the track as it is *)
Theorem idle_tick_silent st : l_sched st = false \/ (0 < l_wait st)%nat ->
  fst (lstepM st LTick) = Some ONone /\ l_track (snd (lstepM st LTick)) = l_track st.
Proof.
  intros H. unfold lstep. destruct (l_sched st); cbn [negb].
  - destruct H as [H|H]; [discriminate|]. destruct (l_wait st); [lia|]. split; reflexivity.
  - split; reflexivity.
Qed.

(* the mute flag is invisible to the track: same successor state of the Interp.v machine, muted or not *)
Theorem mute_invisible tr m m' s w :
  l_track (snd (lstepM (mkL tr m s w) LTick)) = l_track (snd (lstepM (mkL tr m' s w) LTick))
  /\ l_wait (snd (lstepM (mkL tr m s w) LTick)) = l_wait (snd (lstepM (mkL tr m' s w) LTick)).
Proof.
  unfold lstep. cbn [l_sched l_wait l_track l_muted]. destruct (negb s); [split; reflexivity|].
  destruct w; [|split; reflexivity]. destruct (tickM tr) as [out tr']. split; reflexivity.
Qed.

(* an audible tick is the tick of Sched/Interp.v *)
Theorem audible_tick tr : lstepM (mkL tr false true O) LTick = (Some (fst (tickM tr)), mkL (snd (tickM tr)) false true O).
Proof. unfold lstep. cbn [l_sched l_wait l_track l_muted negb]. destruct (tickM tr); reflexivity. Qed.

(* mute / unmute / unschedule set exactly their flag and make no call *)
Theorem flag_ops st :
  lstepM st LMute = (None, mkL (l_track st) true (l_sched st) (l_wait st))
  /\ lstepM st LUnmute = (None, mkL (l_track st) false (l_sched st) (l_wait st))
  /\ lstepM st LUnschedule = (None, mkL (l_track st) (l_muted st) false (l_wait st)).
Proof. repeat split. Qed.

(** * Histories *)
Lemma run_S n st : runM (S n) st = fst (tickM st) :: runM n (snd (tickM st)).
Proof. cbn [run]. destruct (tickM st). reflexivity. Qed.

Lemma apply_gates_nil g : apply_gates g [] = repeat ONone (length g).
Proof. induction g as [|x r IH]; [reflexivity|]. destruct x; cbn [apply_gates length repeat]; rewrite IH; reflexivity. Qed.

(* THE GATE THEOREM.  For every history h of ticks / mute / unmute / unschedule and every state: the per-tick
   outcomes are those of the plain (never muted, never unscheduled, started) run of the same track, handed out one per
   running tick, silenced on the muted ones; nothing on the ticks on which the track does not run.  The gates are a
   function of the history alone. *)
Theorem life_gates h : forall st,
  let g := gates h (l_muted st) (l_sched st) (l_wait st) in
  ltraceM h st = apply_gates g (runM (n_running g) (l_track st)).
Proof.
  induction h as [|o r IH]; intros st; [reflexivity|].
  destruct o; cbn [ltrace gates].
  - (* tick *)
    unfold lstep. destruct (l_sched st) eqn:Sd; cbn [negb].
    + destruct (l_wait st) as [|w] eqn:W.
      * destruct (tickM (l_track st)) as [out tr'] eqn:T.
        cbn zeta. specialize (IH (mkL tr' (l_muted st) true O)). cbn [l_muted l_sched l_wait l_track] in IH.
        unfold n_running. cbn [filter running length]. fold (n_running (gates r (l_muted st) true 0)).
        rewrite run_S, T. cbn [fst snd apply_gates]. rewrite IH. reflexivity.
      * specialize (IH (mkL (l_track st) (l_muted st) true w)). cbn [l_muted l_sched l_wait l_track] in IH.
        cbn zeta. unfold n_running. cbn [filter running]. fold (n_running (gates r (l_muted st) true w)).
        cbn [apply_gates]. rewrite IH. reflexivity.
    + specialize (IH st). rewrite Sd in IH. cbn zeta. unfold n_running. cbn [filter running].
      fold (n_running (gates r (l_muted st) false (l_wait st))). cbn [apply_gates]. rewrite IH. reflexivity.
  - specialize (IH (mkL (l_track st) true (l_sched st) (l_wait st))). exact IH.
  - specialize (IH (mkL (l_track st) false (l_sched st) (l_wait st))). exact IH.
  - specialize (IH (mkL (l_track st) (l_muted st) false (l_wait st))). exact IH.
Qed.

Lemma gates_length h : forall m s w, length (gates h m s w) = length (filter (fun o => match o with LTick => true | _ => false end) h).
Proof.
  induction h as [|o r IH]; intros m s w; [reflexivity|]. destruct o; cbn [gates filter]; try apply IH.
  destruct (negb s); [cbn [length]; rewrite IH; reflexivity|]. destruct w; cbn [length]; rewrite IH; reflexivity.
Qed.

Lemma apply_gates_length g : forall outs, length (apply_gates g outs) = length g.
Proof.
  induction g as [|x r IH]; intros outs; [reflexivity|]. destruct x; cbn [apply_gates length]; [rewrite IH; reflexivity|].
  destruct outs; cbn [length]; rewrite IH; reflexivity.
Qed.

Lemma run_length n : forall st, length (runM n st) = n.
Proof. induction n as [|k IH]; intros st; [reflexivity|]. rewrite run_S. cbn [length]. rewrite IH. reflexivity. Qed.

(* tick k of the gated trace, in terms of the plain run *)
Lemma apply_gates_nth g : forall outs k, (n_running g <= length outs)%nat ->
  nth k (apply_gates g outs) ONone =
    match nth k g GOff with
    | GOff => ONone
    | GOn m => let o := nth (run_index g k) outs ONone in if m then silence o else o
    end.
Proof.
  induction g as [|x r IH]; intros outs k L; [destruct k; reflexivity|].
  destruct x as [|m].
  - cbn [apply_gates]. destruct k; [reflexivity|]. cbn [nth]. rewrite IH by exact L.
    unfold run_index. cbn [firstn]. unfold n_running. cbn [filter running]. reflexivity.
  - unfold n_running in L. cbn [filter running length] in L. fold (n_running r) in L.
    destruct outs as [|o outs']; [cbn [length] in L; lia|]. cbn [length] in L.
    cbn [apply_gates]. destruct k; [reflexivity|]. cbn [nth]. rewrite IH by lia.
    unfold run_index. cbn [firstn]. unfold n_running. cbn [filter running length nth]. reflexivity.
Qed.

(* SILENCE: on every tick of every history on which the track is muted, unscheduled or not yet started, no call *)
Theorem life_silent h st k :
  audible (nth k (gates h (l_muted st) (l_sched st) (l_wait st)) GOff) = false ->
  is_call (nth k (ltraceM h st) ONone) = false.
Proof.
  intros A. rewrite life_gates. cbv zeta. rewrite apply_gates_nth by (rewrite run_length; lia).
  destruct (nth k (gates h (l_muted st) (l_sched st) (l_wait st)) GOff) as [|m]; [reflexivity|].
  destruct m; [apply silence_not_call|discriminate].
Qed.

(* AND NOTHING ELSE CHANGES: on every audible tick the outcome is the one the plain run of the track has on the
   running tick of the same index - muting does not shift the curve, does not hold the track back, and does not
   change the number of events it takes from its stream *)
Theorem life_audible h st k :
  let g := gates h (l_muted st) (l_sched st) (l_wait st) in
  audible (nth k g GOff) = true ->
  nth k (ltraceM h st) ONone = nth (run_index g k) (runM (n_running g) (l_track st)) ONone.
Proof.
  intros g A. rewrite life_gates. fold g. rewrite apply_gates_nth by (rewrite run_length; lia).
  destruct (nth k g GOff) as [|m]; [discriminate|]. destruct m; [discriminate|]. reflexivity.
Qed.

(* the same in one statement for the common case: a started, scheduled track whose history contains no
   unschedule - the trace is the plain trace with the muted ticks silenced *)
Fixpoint no_unschedule (h : list lop) : bool :=
  match h with [] => true | LUnschedule :: _ => false | _ :: r => no_unschedule r end.
Fixpoint mute_flags (h : list lop) (m : bool) : list bool :=
  match h with
  | [] => []
  | LTick :: r => m :: mute_flags r m
  | LMute :: r => mute_flags r true
  | LUnmute :: r => mute_flags r false
  | LUnschedule :: r => mute_flags r m
  end.
Fixpoint mask (flags : list bool) (outs : list outcome) : list outcome :=
  match flags, outs with
  | m :: fr, o :: r => (if m then silence o else o) :: mask fr r
  | _, _ => []
  end.
Theorem life_mask h : forall tr m, no_unschedule h = true ->
  ltraceM h (mkL tr m true O) = mask (mute_flags h m) (runM (length (mute_flags h m)) tr).
Proof.
  induction h as [|o r IH]; intros tr m N; [reflexivity|]. destruct o; cbn [no_unschedule] in N; try discriminate.
  - cbn [ltrace mute_flags length]. unfold lstep. cbn [l_sched l_wait l_track l_muted negb].
    rewrite run_S. destruct (tickM tr) as [out tr']. cbn [fst snd mask]. rewrite (IH tr' m N). reflexivity.
  - cbn [ltrace mute_flags lstep]. apply (IH tr true N).
  - cbn [ltrace mute_flags lstep]. apply (IH tr false N).
Qed.

(* the state of the track machine after a history does not depend on the mute / unmute calls in it *)
Fixpoint strip_mutes (h : list lop) : list lop :=
  match h with
  | [] => []
  | LMute :: r | LUnmute :: r => strip_mutes r
  | o :: r => o :: strip_mutes r
  end.
Theorem mutes_do_not_move_the_track h : forall st m',
  l_track (lfinalM h st) = l_track (lfinalM (strip_mutes h) (mkL (l_track st) m' (l_sched st) (l_wait st))).
Proof.
  induction h as [|o r IH]; intros st m'; [reflexivity|]. destruct o; cbn [strip_mutes lfinal].
  - unfold lstep. cbn [l_sched l_wait l_track l_muted]. destruct (negb (l_sched st)) eqn:Sd.
    + cbn [snd]. rewrite (IH st m'). reflexivity.
    + destruct (l_wait st) as [|w].
      * destruct (tickM (l_track st)) as [out tr']. cbn [snd]. rewrite (IH _ m'). reflexivity.
      * cbn [snd]. rewrite (IH _ m'). reflexivity.
  - cbn [lstep snd]. rewrite (IH _ m'). reflexivity.
  - cbn [lstep snd]. rewrite (IH _ m'). reflexivity.
  - cbn [lstep snd]. rewrite (IH _ m'). reflexivity.
Qed.

(* once unscheduled, for good: after an unschedule no tick of ANY later history makes a call or moves the track *)
Theorem unscheduled_for_good h : forall st, l_sched st = false ->
  Forall (fun o => o = ONone) (ltraceM h st) /\ l_track (lfinalM h st) = l_track st.
Proof.
  induction h as [|o r IH]; intros st Sd; [split; [constructor|reflexivity]|].
  destruct o; cbn [ltrace lfinal].
  - unfold lstep. rewrite Sd. cbn [negb snd]. destruct (IH st Sd) as [I1 I2]. split; [constructor; [reflexivity|exact I1]|exact I2].
  - cbn [lstep snd]. apply (IH (mkL (l_track st) true (l_sched st) (l_wait st))). exact Sd.
  - cbn [lstep snd]. apply (IH (mkL (l_track st) false (l_sched st) (l_wait st))). exact Sd.
  - cbn [lstep snd]. apply (IH (mkL (l_track st) (l_muted st) false (l_wait st))). reflexivity.
Qed.

End Life.

(* Sched/InterpCheck.v — helpers of the C15 correspondence check: decoding of the implementation's
   trace literals, the cos(pi x) table, and the comparison of a model trace with an implementation trace.
   Not part of the model and not used by any theorem (Props/C15.v does not import this file). *)
From Isobar Require Import Base.Prelude Sched.Interp.
From Coq Require Import QArith Qround Qabs String Uint63.
Local Notation length := List.length (only parsing).
Local Open Scope Z_scope.

(** doubles are written as two machine integers (fast to parse): mantissa m < 2^53 and k = 2 * (e + 1100) + sign,
    meaning (-1)^sign * m * 2^e *)
Definition dq (m k : int) : Q :=
  let kz := Uint63.to_Z k in
  let e := kz / 2 - 1100 in
  let z := if kz mod 2 =? 1 then - Uint63.to_Z m else Uint63.to_Z m in
  if 0 <=? e then (z * 2 ^ e) # 1 else z # Z.to_pos (2 ^ (- e)).

Fixpoint dqs (l : list int) : list Q :=
  match l with
  | m :: k :: r => dq m k :: dqs r
  | _ => []
  end.


(* cos(pi * x) from a table supplied by the harness: rows (d, [cos(pi*0/d); ...; cos(pi*d/d)]), looked up at
   the reduced fraction *)
Definition cos_table := list (Z * list Q).
Fixpoint zlookup {A} (k : Z) (l : list (Z * A)) : option A :=
  match l with
  | [] => None
  | (k', v) :: r => if k =? k' then Some v else zlookup k r
  end.
Definition cospi_tab (tab : cos_table) (x : Q) : Q :=
  let r := Qred x in
  match zlookup (Z.pos (Qden r)) tab with
  | Some row => nth (Z.to_nat (Qnum r)) row 2%Q     (* 2 = "not in the table": can never pass for a cosine *)
  | None => 2%Q
  end.

(* the float computation of a value is exact when the exact value is a double with room to spare:
   dyadic, small numerator and denominator *)
Fixpoint pow2_pos (fuel : nat) (p : positive) : bool :=
  match fuel, p with
  | _, xH => true
  | S f, xO p' => pow2_pos f p'
  | _, _ => false
  end.
Definition exact_float (q : Q) : bool :=
  let r := Qred q in
  pow2_pos 40 (Qden r) && (Z.abs (Qnum r) <? 2 ^ 50).

Definition num_close (exact : bool) (model impl : Q) : bool :=
  if exact && exact_float model then Qeq_bool model impl
  else Qle_bool (Qabs (model - impl)) (1 # 1000000000).

Definition fval_eq (a b : fval) : bool :=
  match a, b with
  | VNum x, VNum y => Qeq_bool x y
  | VOpq s, VOpq t => s =? t
  | _, _ => false
  end.
Definition fval_close (exact : bool) (model impl : fval) : bool :=
  match model, impl with
  | VNum x, VNum y => num_close exact x y
  | VOpq s, VOpq t => s =? t
  | _, _ => false
  end.

(* implementation trace: (tick, code, control, value, channel); code 0 = control call, 1 = InvalidEventException,
   2 = any other exception.  Model trace -> same shape. *)
Definition obs := (Z * Z * fval * fval * fval)%type.
Fixpoint stamp (k : Z) (l : list outcome) : list obs :=
  match l with
  | [] => []
  | OCall c v ch :: r => (k, 0, c, v, ch) :: stamp (k + 1) r
  | ONone :: r => stamp (k + 1) r
  | OInvalid :: r => (k, 1, VOpq 0, VOpq 0, VOpq 0) :: stamp (k + 1) r
  | OErr :: r => (k, 2, VOpq 0, VOpq 0, VOpq 0) :: stamp (k + 1) r
  end.
Definition obs_ok (exact : bool) (m i : obs) : bool :=
  let '(k1, c1, a1, v1, h1) := m in
  let '(k2, c2, a2, v2, h2) := i in
  (k1 =? k2) && (c1 =? c2) && fval_close exact a1 a2 && fval_close exact v1 v2 && fval_close exact h1 h2.
Definition trace_ok (exact : bool) (model : list outcome) (impl : list obs) : bool :=
  list_eqb (obs_ok exact) (stamp 0 model) impl.

(* first position at which the two traces differ (for replays/diagnostics) *)
Fixpoint first_bad (exact : bool) (m i : list obs) : option (option obs * option obs) :=
  match m, i with
  | [], [] => None
  | x :: r, y :: s => if obs_ok exact x y then first_bad exact r s else Some (Some x, Some y)
  | x :: _, [] => Some (Some x, None)
  | [], y :: _ => Some (None, Some y)
  end.

(* compact literal for implementation traces whose control and channel are the same in every call *)
(* calls on consecutive ticks t0, t0+1, ... *)
Fixpoint calls_from (c h : fval) (t : Z) (l : list int) : list obs :=
  match l with
  | m :: k :: r => (t, 0, c, VNum (dq m k), h) :: calls_from c h (t + 1) r
  | _ => []
  end.
(* calls on arbitrary ticks: flat triples tick, m, k *)
Fixpoint calls_at (c h : fval) (l : list int) : list obs :=
  match l with
  | t :: m :: k :: r => (Uint63.to_Z t, 0, c, VNum (dq m k), h) :: calls_at c h r
  | _ => []
  end.
(* rows of the cos table *)
Definition crow (d : Z) (l : list int) : Z * list Q := (d, dqs l).

(* Sched/EventCfgProofs.v — lemmas about Sched/EventCfg.v (a track on a timeline whose defaults are re-assigned while
   it runs; dictionaries rejected at ANY position of a stream). *)
From Isobar Require Import Base.Prelude Tonal.Key Generated.Tables Generated.TablesC03 Sched.Event Sched.EventSpec Sched.EventProofs Sched.EventCfg.
From Coq Require Import String Ascii QArith.
Local Open Scope Z_scope.
Local Notation length := List.length (only parsing).

Definition only_note_offs (cs : list call) : Prop := forall c, In c cs -> exists a, c = Call "note_off" a.

Lemma offs_only (l : list (Q * val * val)) :
  only_note_offs (map (fun p => Call "note_off" [snd (fst p); snd p]) l).
Proof. intros x Hx. apply in_map_iff in Hx. destruct Hx as [p [<- _]]. eexists; reflexivity. Qed.

(** * a rejected dictionary, wherever it stands in the stream and whatever has been played or assigned before *)
Lemma cplay_reject N muted ch n t st d rest c :
  c_stream st = d :: rest ->
  Qle_bool (c_next st) (t # N) = true ->
  resolve (apply_changes ch (t - 1) (c_defs st)) d = Raise c ->
  String.eqb c StopIteration = false ->
  exists offs, cplay N muted ch (S n) t st = (tag t offs, Raise c) /\ only_note_offs offs.
Proof.
  intros Hs Hd Hr Hc. eexists. split; [|apply offs_only].
  cbn [cplay c_stream c_next c_defs c_pend]. rewrite Hs.
  cbn [length cfetch c_next c_stream c_defs]. rewrite Hd, Hr, Hc. reflexivity.
Qed.

(** * the dictionary that is due is completed by the defaults as they are NOW (after every assignment made so far) *)
Lemma cplay_performs N muted ch n t st d rest e dur :
  c_stream st = d :: rest ->
  Qle_bool (c_next st) (t # N) = true ->
  flat_defaults (apply_changes ch (t - 1) (c_defs st)) = true ->
  resolve (apply_changes ch (t - 1) (c_defs st)) d = Ok e ->
  py_float (e_duration e) = Ok dur ->
  Qle_bool (Qred (c_next st + dur)) (t # N) = false ->
  snd (cplay N muted ch (S n) t st) <> Unmodelled ->
  exists offs tr, fst (cplay N muted ch (S n) t st) = tag t (offs ++ p_calls (dispatch muted e)) ++ tr
                  /\ only_note_offs offs.
Proof.
  intros Hs Hd Hf Hr Hdur Hnext.
  cbn [cplay c_stream c_next c_defs c_pend]. rewrite Hs.
  cbn [length cfetch c_next c_stream c_defs c_pend]. rewrite Hd, Hr, Hf. cbn [negb]. rewrite Hdur. cbn [bind].
  cbn [cfetch c_next c_stream c_defs c_pend]. rewrite Hnext.
  cbn [c_next c_stream c_defs c_pend].
  destruct (all_ok _) as [pend'| |]; cbn [snd fst].
  - destruct (p_end (dispatch muted e)) as [u|c|]; cbn [snd fst].
    + destruct (cplay N muted ch n (t + 1) _) as [tr o]. cbn [snd fst]. intros _.
      eexists. exists tr. split; [reflexivity|apply offs_only].
    + intros _. eexists. exists []. split; [rewrite app_nil_r; reflexivity|apply offs_only].
    + intros H; contradiction H; reflexivity.
  - intros H; contradiction H; reflexivity.
  - intros H; contradiction H; reflexivity.
Qed.

(** * assignments to the defaults object *)
Lemma dget_dset_same d k v : dget (dset d k v) k = Some v.
Proof.
  induction d as [|[k' v'] r IH]; cbn [dset dget].
  - rewrite String.eqb_refl. reflexivity.
  - destruct (String.eqb k k') eqn:E; cbn [dget]; rewrite E; [reflexivity|exact IH].
Qed.
Lemma dget_dset_other d k v k' : String.eqb k' k = false -> dget (dset d k v) k' = dget d k'.
Proof.
  intros Hne. induction d as [|[k0 v0] r IH]; cbn [dset dget].
  - rewrite Hne. reflexivity.
  - destruct (String.eqb k k0) eqn:E; cbn [dget].
    + apply String.eqb_eq in E. subst k0. rewrite Hne. reflexivity.
    + destruct (String.eqb k' k0); [reflexivity|exact IH].
Qed.
Lemma assign_app defs a b : assign defs (a ++ b) = assign (assign defs a) b.
Proof. unfold assign. apply fold_left_app. Qed.
(* the last assignment to a name wins, and touches no other name *)
Lemma assign_last defs kvs k v : dget (assign defs (kvs ++ [(k, v)])) k = Some v.
Proof. rewrite assign_app. cbn [assign fold_left fst snd]. apply dget_dset_same. Qed.
Lemma assign_one_other defs k v k' : String.eqb k' k = false -> dget (assign defs [(k, v)]) k' = dget defs k'.
Proof. intros H. cbn [assign fold_left fst snd]. apply dget_dset_other. exact H. Qed.

(* the attribute names of the defaults object stay those of the library (EventDefaults.__setattr__ refuses others) *)
Lemma dset_shape d k v : dhas d k = true -> map fst (dset d k v) = map fst d.
Proof.
  induction d as [|[k' v'] r IH]; cbn [dset dhas dget map fst].
  - discriminate.
  - unfold dhas in *. cbn [dget]. destruct (String.eqb k k') eqn:E; cbn [map fst]; [reflexivity|].
    intros H. rewrite IH by exact H. reflexivity.
Qed.
Lemma dhas_shape d d' k : map fst d = map fst d' -> dhas d k = dhas d' k.
Proof.
  revert d'. induction d as [|[k1 v1] r IH]; intros [|[k2 v2] r'] H; try discriminate; [reflexivity|].
  cbn [map fst] in H. injection H as -> Hr. unfold dhas in *. cbn [dget].
  destruct (String.eqb k k2); [reflexivity|]. apply IH. exact Hr.
Qed.
Lemma assign_shape defs kvs : defaults_shape defs ->
  (forall kv, In kv kvs -> dhas lib_defaults (fst kv) = true) -> defaults_shape (assign defs kvs).
Proof.
  revert defs. induction kvs as [|[k v] r IH]; intros defs Hs Hk; [exact Hs|].
  cbn [assign fold_left fst snd]. apply IH.
  - unfold defaults_shape in *. rewrite dset_shape; [exact Hs|].
    rewrite (dhas_shape defs lib_defaults).
    + apply (Hk (k, v)). left; reflexivity.
    + rewrite Hs. unfold lib_defaults. rewrite map_map. reflexivity.
  - intros kv Hin. apply Hk. right. exact Hin.
Qed.
Lemma apply_changes_shape ch t defs : defaults_shape defs ->
  (forall c kv, In c ch -> In kv (snd c) -> dhas lib_defaults (fst kv) = true) -> defaults_shape (apply_changes ch t defs).
Proof.
  revert defs. induction ch as [|c r IH]; intros defs Hs Hk; [exact Hs|].
  cbn [apply_changes fold_left]. apply IH.
  - destruct (fst c =? t); [|exact Hs]. apply assign_shape; [exact Hs|]. intros kv Hin. apply (Hk c kv); [left; reflexivity|exact Hin].
  - intros c' kv H1 H2. apply (Hk c' kv); [right; exact H1|exact H2].
Qed.
Lemma pull_shape defs : defaults_shape defs -> defaults_shape (pull_defaults defs).
Proof. unfold defaults_shape, pull_defaults. intros H. rewrite map_map. cbn [fst]. exact H. Qed.

(** * without re-assignment the model is Sched/Event.v's run_track on the paired-up stream *)
Lemma flat_pull defs : flat_defaults defs = true -> flat_defaults (pull_defaults defs) = true.
Proof.
  unfold flat_defaults, pull_defaults. induction defs as [|[k v] r IH]; [reflexivity|].
  cbn [map forallb fst snd]. intros H. apply andb_true_iff in H. destruct H as [H1 H2].
  rewrite (IH H2), andb_true_r.
  destruct v as [| | | | | | | | | |[|x l]]; try exact H1.
  cbn [pull_default flat_default existsb] in *. destruct (has_pat x); [discriminate|exact H1].
Qed.
Lemma pair_up_length ds : forall defs, length (pair_up defs ds) = length ds.
Proof. induction ds as [|d r IH]; intros defs; cbn [pair_up length]; [reflexivity|rewrite IH; reflexivity]. Qed.

Definition sim (c : cstate) (s : tstate) : Prop :=
  c_next c = t_next s /\ c_pend c = t_pend s /\ t_stream s = pair_up (c_defs c) (c_stream c) /\ flat_defaults (c_defs c) = true.

Lemma cfetch_fetch fuel now : forall c s cur, sim c s ->
  match cfetch fuel now c cur, fetch fuel now s cur with
  | Ok (oe, c'), Ok (oe', s') => oe = oe' /\ sim c' s'
  | Raise x, Raise x' => x = x'
  | Unmodelled, Unmodelled => True
  | _, _ => False
  end.
Proof.
  induction fuel as [|f IH]; intros c s cur (Hn & Hp & Hst & Hfl); cbn [cfetch fetch]; [exact I|].
  rewrite <- Hn. destruct (Qle_bool (c_next c) now).
  - rewrite Hst. destruct (c_stream c) as [|d rest] eqn:Es; cbn [pair_up].
    + split; [reflexivity|]. repeat split; try assumption. rewrite Es. exact Hst.
    + destruct (resolve (c_defs c) d) as [e|x|].
      * rewrite Hfl. cbn [negb]. destruct (py_float (e_duration e)) as [dur|x|]; cbn [bind]; [|reflexivity|exact I].
        apply IH. repeat split; cbn [c_next c_pend c_stream c_defs t_next t_pend t_stream]; try assumption; try reflexivity.
        apply flat_pull. exact Hfl.
      * destruct (String.eqb x StopIteration); [exact I|reflexivity].
      * exact I.
  - split; [reflexivity|]. repeat split; assumption.
Qed.

Lemma cplay_play N muted : forall n t c s, sim c s -> cplay N muted [] n t c = play N muted n t s.
Proof.
  induction n as [|n IH]; intros t c s Hsim; [reflexivity|].
  destruct Hsim as (Hn & Hp & Hst & Hfl).
  cbn [cplay play]. cbn [apply_changes fold_left c_next c_pend c_stream c_defs t_next t_pend t_stream].
  rewrite <- Hp, <- Hn. rewrite Hst, pair_up_length.
  set (c1 := mkC _ _ _ _). set (s1 := mkT _ _ _).
  assert (sim c1 s1) as H1 by (repeat split; assumption).
  pose proof (cfetch_fetch (S (length (c_stream c))) (t # N) c1 s1 None H1) as F.
  destruct (cfetch _ _ c1 None) as [[oe c']|x|]; destruct (fetch _ _ s1 None) as [[oe' s']|x'|]; try contradiction.
  - destruct F as [<- Hs']. destruct oe as [e|].
    + destruct (all_ok _) as [pend'| |]; [|reflexivity|reflexivity].
      destruct (p_end (dispatch muted e)); [|reflexivity|reflexivity].
      destruct Hs' as (Hn' & Hp' & Hst' & Hfl').
      rewrite (IH (t + 1) _ (mkT (t_next s') (t_pend s' ++ pend') (t_stream s'))); [reflexivity|].
      repeat split; cbn [c_next c_pend c_stream c_defs t_next t_pend t_stream]; try assumption. rewrite Hp'. reflexivity.
    + rewrite (IH (t + 1) c' s' Hs'). reflexivity.
  - subst x'. reflexivity.
  - reflexivity.
Qed.

Lemma run_cfg_run_track N muted n defs ds : flat_defaults defs = true ->
  run_cfg N muted n defs [] ds = run_track N muted n (pair_up defs ds).
Proof. intros H. unfold run_cfg, run_track. apply cplay_play. repeat split; try reflexivity. exact H. Qed.

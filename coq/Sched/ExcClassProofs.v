(* Sched/ExcClassProofs.v — C17: the behaviour at a fault does not depend on the class of the exception raised
   (any class derived from Exception that is not a StopIteration), in either tolerance mode; a StopIteration subclass
   coming out of the pattern is the end of the stream. *)
From Isobar Require Import Base.Prelude Sched.Model Sched.NoteOffProofs Sched.TimeProofs Sched.MergeProofs Sched.FaultProofs Sched.ExcClass.

(** * Every ordinary exception class is the same stream item *)
Lemma classify_plain m : catches cStopIteration m = false -> classify m = RRaise.
Proof. unfold classify. intros ->. reflexivity. Qed.
Lemma classify_stop m : catches cStopIteration m = true -> classify m = RStopIter.
Proof. unfold classify. intros ->. reflexivity. Qed.
Lemma classify_blind m m' : catches cStopIteration m = catches cStopIteration m' -> classify m = classify m'.
Proof. unfold classify. intros ->. reflexivity. Qed.
Lemma classify_cb_blind m m' : catches cStopIteration m = catches cStopIteration m' -> classify_cb m = classify_cb m'.
Proof. unfold classify_cb. intros ->. reflexivity. Qed.
Lemma classify_cb_plain m : catches cStopIteration m = false -> classify_cb m = CbExc.
Proof. unfold classify_cb. intros ->. reflexivity. Qed.

Lemma same_kind_erase a b : same_kind a b -> erase a = erase b.
Proof. destruct a as [r|m], b as [r'|m']; simpl; try contradiction; [intros ->; reflexivity|apply classify_blind]. Qed.
Lemma same_kind_map cs cs' : Forall2 same_kind cs cs' -> map erase cs = map erase cs'.
Proof. induction 1 as [|a b r r' H _ IH]; [reflexivity|]. simpl. rewrite (same_kind_erase _ _ H), IH. reflexivity. Qed.
Lemma same_kind_op_erase a b : same_kind_op a b -> erase_op a = erase_op b.
Proof.
  destruct a, b; simpl; try contradiction.
  - intros [H [-> [-> [-> [-> [-> [-> ->]]]]]]]. unfold cstream. rewrite (same_kind_map _ _ H). reflexivity.
  - intros [-> [H [-> [-> [-> ->]]]]]. unfold cstream. rewrite (same_kind_map _ _ H). reflexivity.
  - intros ->. reflexivity.
Qed.

(* two histories that differ only in the classes of the exceptions their patterns raise (ordinary exceptions replaced
   by ordinary exceptions) are the same history for the scheduler: same calls, same results, same tracks after every
   operation, in either mode *)
Theorem class_irrelevant cfg tl h h' : Forall2 same_kind_op h h' ->
  run cfg tl (map erase_op h) = run cfg tl (map erase_op h').
Proof.
  intros H. replace (map erase_op h') with (map erase_op h); [reflexivity|].
  induction H as [|a b r r' Hab _ IH]; [reflexivity|]. simpl. rewrite (same_kind_op_erase _ _ Hab), IH. reflexivity.
Qed.

(** * The turn of a track whose pattern raises an exception of class [m] on this pull *)
Lemma pull_cstream cs p cyc c : nth_error cs p = Some c -> fst (pull (cstream cs p cyc)) = erase c.
Proof.
  intros H. unfold pull, cstream. cbn [s_items s_pos s_cyclic]. rewrite map_length.
  assert (L : (p < length cs)%nat) by (apply nth_error_Some; congruence).
  replace (p <? length cs)%nat with true by (symmetry; apply Nat.ltb_lt; exact L). cbn [fst].
  rewrite (nth_indep _ RStopIter (erase c)) by (rewrite map_length; exact L).
  rewrite map_nth. f_equal. apply nth_error_nth. exact H.
Qed.

(* whatever the class (not a StopIteration): the turn raises *)
Theorem any_class_raises cfg nowT tr n cs p cyc m :
  t_stream tr = cstream cs p cyc -> nth_error cs p = Some (CRaiseCls m) -> catches cStopIteration m = false ->
  t_started tr = true -> t_next tr <= t_cur tr -> count_exhausted tr = false -> (1 <= fuel cfg)%nat ->
  track_tick_a cfg nowT tr n = (set_stream tr (snd (pull (t_stream tr))), [], n, TRaise).
Proof.
  intros S N C St L Ce Fu. apply stream_fault_raises; try assumption.
  rewrite S, (pull_cstream _ _ _ _ N). simpl. apply classify_plain. exact C.
Qed.

(* ... with tolerance disabled it aborts the loop over the tracks with the exception (the tracks behind it do not run) ... *)
Theorem any_class_propagates cfg tl id r tr calls cs p cyc m : ignore_exc cfg = false ->
  find_track id (tracks tl) = Some tr ->
  t_stream tr = cstream cs p cyc -> nth_error cs p = Some (CRaiseCls m) -> catches cStopIteration m = false ->
  t_started tr = true -> t_next tr <= t_cur tr -> count_exhausted tr = false -> (1 <= fuel cfg)%nat ->
  phase_tracks cfg tl (id :: r) calls =
    (set_dev (upd_track tl (set_stream tr (snd (pull (t_stream tr))))) (dev_calls tl), calls ++ [], RException).
Proof.
  intros I F S N C St L Ce Fu.
  apply (fault_propagates cfg I tl id r tr _ [] (dev_calls tl) calls F).
  exact (any_class_raises cfg (now tl) tr (dev_calls tl) cs p cyc m S N C St L Ce Fu).
Qed.

(* ... and with tolerance enabled the track is removed on that turn and the loop goes on *)
Theorem any_class_contained cfg tl id tr cs p cyc m : ignore_exc cfg = true ->
  find_track id (tracks tl) = Some tr -> NoDup (map t_id (tracks tl)) ->
  t_stream tr = cstream cs p cyc -> nth_error cs p = Some (CRaiseCls m) -> catches cStopIteration m = false ->
  t_started tr = true -> t_next tr <= t_cur tr -> count_exhausted tr = false -> (1 <= fuel cfg)%nat ->
  let '(tl', _, ab) := tick_one cfg tl id in
  ab = None /\ find_track id (tracks tl') = None
  /\ (forall id', id' <> id -> find_track id' (tracks tl') = find_track id' (tracks tl))
  /\ now tl' = now tl.
Proof.
  intros I F ND S N C St L Ce Fu.
  pose proof (fault_turn cfg I tl id tr _ [] (dev_calls tl) F ND
                (any_class_raises cfg (now tl) tr (dev_calls tl) cs p cyc m S N C St L Ce Fu)) as H.
  destruct (tick_one cfg tl id) as [[tl' c'] ab]. destruct H as [H1 [_ [H3 [H4 [_ H6]]]]]. auto.
Qed.

(* a StopIteration (or a subclass of it) coming out of the pattern is the normal end of the stream *)
Theorem stop_class_ends_stream tr cs p cyc m :
  t_stream tr = cstream cs p cyc -> nth_error cs p = Some (CRaiseCls m) -> catches cStopIteration m = true ->
  count_exhausted tr = false -> fst (get_next_event tr) = GStop.
Proof.
  intros S N C Ce. unfold get_next_event. rewrite Ce.
  pose proof (pull_cstream cs p cyc _ N) as P. rewrite <- S in P.
  destruct (pull (t_stream tr)) as [r s']. simpl in P. subst r. simpl. rewrite (classify_stop _ C). reflexivity.
Qed.

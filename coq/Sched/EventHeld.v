(* Sched/EventHeld.v — extension of Sched/EventCfg.v: the `key` of an event (or the timeline's default key) is a Key OBJECT
   that the user holds and RE-TUNES IN PLACE while the track is running (key.tonic = ..., key.scale = ...,
   key.scale.semitones = ..., key.scale.shuffle() / change()).

   Sched/Event.v's values carry a key by value ([VKey k]).  Here a dictionary (or the defaults object) may hold a
   REFERENCE to a Key object of the store of Tonal/Held.v: [held_ref slot] = the opaque value VObj "heldkey" slot [].
   Event.__init__ (event.py) does "key = event_values[EVENT_KEY] ... key[n]" when the dictionary is due: the object is
   asked as it is AT THAT MOMENT ([deref_dict] with the store of that tick).  The store is part of the STATE ([hstate]);
   the list [muts] says after which tick which in-place operations (Tonal/Held.v [hop]) are performed on the held objects.
   Assignments to timeline.defaults between ticks ([changes]) are kept as in Sched/EventCfg.v.
   The same store carries the REGISTRY of scale names (Scale.dict): a key given by name ("C minor", "D myscale") is looked
   up in the registry as it is when the event is due ([key_of_name_reg]), so scales, weighted scales, copies and keys
   constructed between two events ([muts]: HScale ..., HScaleCopy ..., HKeyNamed ...) are part of the history.
   No proofs here (Sched/EventHeldProofs.v). *)
From Isobar Require Import Base.Prelude Tonal.Key Tonal.Held Generated.Tables Generated.TablesC03 Sched.Event Sched.EventCfg.
From Coq Require Import String Ascii QArith.
Local Open Scope Z_scope.
Local Notation length := List.length (only parsing).

Definition HELD : string := "heldkey".
Definition held_ref (slot : nat) : val := VObj HELD (Z.of_nat slot) [].

(* what a value stands for when it is looked at in the store st: a reference to a held Key object is that object's
   present definition; a pattern of references (timeline.defaults.key = PSequence([k1, k2])) yields such objects *)
Definition deref1 (st : store) (v : val) : val :=
  match v with
  | VObj kind id _ =>
      if String.eqb kind HELD then match key_of st (Z.to_nat id) with Some k => VKey k | None => v end else v
  | _ => v
  end.
Definition deref_val (st : store) (v : val) : val :=
  match v with
  | VPat l => VPat (map (deref1 st) l)
  | _ => deref1 st v
  end.

(* a key given BY NAME: "key = event_values[EVENT_KEY]; if isinstance(key, str): key = Key(key)" (event.py) and
   Key.__init__ / Scale.byname (key.py, scale.py) look the scale name up in Scale.dict AS IT IS when the event is
   resolved - the registry of the store (Tonal/Held.v st_reg), not the table of the freshly imported library that
   Sched/Event.v's scale_byname knows *)
Definition scale_byname_reg (st : store) (name : string) : outcome scale :=
  match reg_scale st name with
  | Some s => Ok s
  | None => Raise UnknownScaleName
  end.
Definition key_of_name_reg (st : store) (name : string) : outcome key :=
  let cs := list_ascii_of_string name in
  match count_spaces cs with
  | O => do t <- note_of_name name; do s <- scale_byname_reg st "major"; Ok (mkKey t s)
  | S O => let '(a, b) := split_space cs [] in
           do t <- note_of_name (string_of_list_ascii a);
           do s <- scale_byname_reg st (string_of_list_ascii b);
           Ok (mkKey t s)
  | _ => Raise ValueError
  end.
(* the value of the `key` entry read in the store st: a name that denotes a key there is that key (a string that denotes
   none stays a string: Event.__init__ raises for it if and when it needs the key, as Sched/Event.v describes) *)
Definition key1 (st : store) (v : val) : val :=
  match v with
  | VStr s => match key_of_name_reg st s with Ok k => VKey k | _ => v end
  | _ => deref1 st v
  end.
Definition key_val (st : store) (v : val) : val :=
  match v with
  | VPat l => VPat (map (key1 st) l)
  | _ => key1 st v
  end.
Definition deref_entry (st : store) (kv : string * val) : string * val :=
  (fst kv, if String.eqb (fst kv) K_KEY then key_val st (snd kv) else deref_val st (snd kv)).
Definition deref_dict (st : store) (d : dict) : dict := map (deref_entry st) d.

(* (t, ops): the in-place operations ops are performed on the held objects after tick t and before tick t + 1 *)
Definition muts := list (Z * list hop).
Definition apply_muts (ms : muts) (t : Z) (st : store) : store :=
  fold_left (fun s m => if fst m =? t then hrun s (snd m) else s) ms st.

Record hstate := mkH { h_c : cstate; h_store : store }.

(* the while loop of Track.tick (cf. EventCfg.cfetch): each dictionary is resolved against the CURRENT defaults, and
   every held key in either is asked as it is NOW *)
Fixpoint hfetch (fuel : nat) (now : Q) (hs : store) (st : cstate) (cur : option event) : outcome (option event * cstate) :=
  match fuel with
  | O => Unmodelled
  | S f =>
      if Qle_bool (c_next st) now then
        match c_stream st with
        | [] => Ok (None, st)
        | d :: rest =>
            match resolve (deref_dict hs (c_defs st)) (deref_dict hs d) with
            | Ok e => if negb (flat_defaults (c_defs st)) then Unmodelled else
                      do dur <- py_float (e_duration e);
                      hfetch f now hs (mkC (Qred (c_next st + dur)) (c_pend st) rest (pull_defaults (c_defs st))) (Some e)
            | Raise c => if String.eqb c StopIteration then Unmodelled else Raise c
            | Unmodelled => Unmodelled
            end
        end
      else Ok (cur, st)
  end.

(* cf. EventCfg.cplay; the assignments and the in-place operations due after tick t - 1 are performed first *)
Fixpoint hplay (N : positive) (muted : bool) (ch : changes) (ms : muts) (nticks : nat) (t : Z) (h : hstate)
  : trace * outcome unit :=
  match nticks with
  | O => ([], Ok tt)
  | S n =>
      let now := t # N in
      let st := h_c h in
      let hs := apply_muts ms (t - 1) (h_store h) in
      let defs := apply_changes ch (t - 1) (c_defs st) in
      let due := filter (fun p => Qle_bool (fst (fst p)) now) (c_pend st) in
      let keep := filter (fun p => negb (Qle_bool (fst (fst p)) now)) (c_pend st) in
      let offs := map (fun p => Call "note_off" [snd (fst p); snd p]) due in
      let st := mkC (c_next st) keep (c_stream st) defs in
      match hfetch (S (length (c_stream st))) now hs st None with
      | Ok (None, st') =>
          let '(tr, o) := hplay N muted ch ms n (t + 1) (mkH st' hs) in (tag t offs ++ tr, o)
      | Ok (Some e, st') =>
          let p := dispatch muted e in
          match all_ok (map (fun x => do len <- py_float (fst (fst x)); Ok (Qred (now + len), snd (fst x), snd x)) (p_offs p)) with
          | Ok pend' =>
              match p_end p with
              | Ok _ =>
                  let '(tr, o) := hplay N muted ch ms n (t + 1)
                                    (mkH (mkC (c_next st') (c_pend st' ++ pend') (c_stream st') (c_defs st')) hs) in
                  (tag t (offs ++ p_calls p) ++ tr, o)
              | Raise c => (tag t (offs ++ p_calls p), Raise c)
              | Unmodelled => (tag t offs, Unmodelled)
              end
          | _ => (tag t offs, Unmodelled)
          end
      | Raise c => (tag t offs, Raise c)
      | Unmodelled => (tag t offs, Unmodelled)
      end
  end.

(* a track scheduled at time 0 on a timeline whose defaults are defs0; the held objects are built by [init] (in the
   process right after `import isobar`) before the track is scheduled *)
Definition run_held (N : positive) (muted : bool) (nticks : nat) (defs0 : dict) (ch : changes)
                    (init : list hop) (ms : muts) (ds : list dict) : trace * outcome unit :=
  hplay N muted ch ms nticks 0 (mkH (mkC 0 [] ds defs0) (hrun init_store init)).

Definition held_agrees (N : positive) (muted : bool) (nticks : nat) (defs0 : dict) (ch : changes)
                       (init : list hop) (ms : muts) (ds : list dict)
                       (exp_exn : option string) (exp : trace) : option bool :=
  match run_held N muted nticks defs0 ch init ms ds, exp_exn with
  | (_, Unmodelled), _ => None
  | (tr, Raise c), Some c' => Some (String.eqb c c' && trace_eqb tr exp)
  | (tr, Ok _), None => Some (trace_eqb tr exp)
  | _, _ => Some false
  end.

(* the same state with every reference replaced by what it stands for in st (used to say: as long as nothing is
   re-tuned, holding a key object is the same as giving the key by value) *)
Definition deref_cstate (st : store) (c : cstate) : cstate :=
  mkC (c_next c) (c_pend c) (map (deref_dict st) (c_stream c)) (deref_dict st (c_defs c)).
Definition deref_changes (st : store) (ch : changes) : changes :=
  map (fun c => (fst c, map (deref_entry st) (snd c))) ch.

(* Sched/GlobalsPatProofs.v — C07, globals whose values are patterns: a read returns what the LATEST set stored for the name
   (or the default) - whatever kind of value was stored before and after: number over pattern, pattern over number, pattern
   over pattern; a stored number is returned as it is, a stored pattern object is asked for its next value; the object is
   shared: its cursor counts the reads made through ANY name bound to it, by any reader. *)
From Isobar Require Import Base.Prelude Sched.Static Sched.GlobalsPat.

(** * set / lookup *)
Lemma lookup_set_same k v st : glookup k (gs_map (gpset k v st)) = Some v.
Proof. cbn [gpset gs_map glookup]. rewrite Z.eqb_refl. reflexivity. Qed.
Lemma lookup_set_other k k' v st : k <> k' -> glookup k' (gs_map (gpset k v st)) = glookup k' (gs_map st).
Proof. intros N. cbn [gpset gs_map glookup]. destruct (Z.eqb_spec k k'); [contradiction|reflexivity]. Qed.
Lemma set_objs k v st : gs_objs (gpset k v st) = gs_objs st.
Proof. reflexivity. Qed.
(* a read never changes what is stored under any name *)
Lemma read_map k d st : gs_map (snd (gpread k d st)) = gs_map st.
Proof.
  unfold gpread. destruct (glookup k (gs_map st)) as [[v|p]|]; try reflexivity.
  destruct (pnext p (gs_objs st)) as [o objs']. reflexivity.
Qed.

(* after ANY program: under every name, the value of the last set of that name (else what was there before) *)
Theorem lookup_after_program p : forall st k,
  glookup k (gs_map (gp_state st p)) = match latest k p with Some v => Some v | None => glookup k (gs_map st) end.
Proof.
  induction p as [|a r IH]; intros st k; [reflexivity|]. destruct a as [k' v|k' d]; cbn [gp_state latest].
  - rewrite IH. destruct (latest k r); [reflexivity|]. cbn [gpset gs_map glookup]. destruct (k' =? k); reflexivity.
  - rewrite IH, read_map. reflexivity.
Qed.

(** * read *)
(* THE LATEST VALUE OR THE DEFAULT: the read that follows any program, from the empty store *)
Theorem read_latest p k d objs :
  fst (gpread k d (gp_state (gstore0 objs) p)) =
    match latest k p with
    | None => GVal d
    | Some (GScalar v) => GVal v
    | Some (GPat q) => fst (pnext q (gs_objs (gp_state (gstore0 objs) p)))
    end.
Proof.
  unfold gpread. rewrite lookup_after_program. cbn [gstore0 gs_map glookup].
  destruct (latest k p) as [[v|q]|]; try reflexivity.
  destruct (pnext q _) as [o objs']. reflexivity.
Qed.

(* in particular a set always takes effect, over whatever was stored: the next read of that name sees the new value *)
Theorem set_then_read k v d st :
  fst (gpread k d (gpset k v st)) = match v with GScalar x => GVal x | GPat q => fst (pnext q (gs_objs st)) end.
Proof.
  unfold gpread. rewrite lookup_set_same. destruct v as [x|q]; [reflexivity|]. rewrite set_objs.
  destruct (pnext q (gs_objs st)) as [o objs']. reflexivity.
Qed.

(** * pattern objects are shared: the cursor counts every read of the object *)
Lemma nth_set_same {A} (x : A) : forall n l, (n < length l)%nat -> nth_error (set_nth n x l) n = Some x.
Proof. induction n as [|n IH]; intros [|y r] L; simpl in *; try lia; [reflexivity|]. apply IH. lia. Qed.
Lemma nth_set_other {A} (x : A) : forall n m l, n <> m -> nth_error (set_nth n x l) m = nth_error l m.
Proof.
  induction n as [|n IH]; intros m [|y r] N; simpl; try reflexivity.
  - destruct m; [contradiction|reflexivity].
  - destruct m; [reflexivity|]. simpl. apply IH. lia.
Qed.
Lemma seq_next_cyclic l pos : (pos < length l)%nat ->
  seq_next l pos true = Some (nth pos l 0, (S pos mod length l)%nat).
Proof.
  intros L. unfold seq_next. replace (pos <? length l)%nat with true by (symmetry; apply Nat.ltb_lt; exact L). cbn [andb].
  destruct (S pos =? length l)%nat eqn:E.
  - apply Nat.eqb_eq in E. rewrite E, Nat.mod_same by lia. reflexivity.
  - apply Nat.eqb_neq in E. rewrite Nat.mod_small by lia. reflexivity.
Qed.

Definition cyclic_obj (o : pobj) : Prop := po_cyc o = true /\ (po_pos o < length (po_vals o))%nat.

Lemma pnext_cyclic q objs o : nth_error objs q = Some o -> cyclic_obj o ->
  pnext q objs = (GVal (nth (po_pos o) (po_vals o) 0),
                  set_nth q (mkPobj (po_vals o) (S (po_pos o) mod length (po_vals o)) true) objs).
Proof. intros F [C L]. unfold pnext. rewrite F, C, (seq_next_cyclic _ _ L). reflexivity. Qed.
Lemma pnext_other q q' objs : q <> q' -> nth_error (snd (pnext q objs)) q' = nth_error objs q'.
Proof.
  intros N. unfold pnext. destruct (nth_error objs q) as [o|]; [|reflexivity].
  destruct (seq_next (po_vals o) (po_pos o) (po_cyc o)) as [[v pos']|]; [|reflexivity]. cbn [snd]. apply nth_set_other. exact N.
Qed.

Lemma mod_step a n : (0 < n)%nat -> (S (a mod n) mod n = S a mod n)%nat.
Proof. intros H. rewrite <- (Nat.add_1_l (a mod n)), <- (Nat.add_1_l a). rewrite Nat.add_mod_idemp_r by lia. reflexivity. Qed.

(* For EVERY program: a cyclic object q stands, at the end, at (start + number of reads that reached q) mod its length -
   reads through any name bound to it at that moment, by any reader; sets and reads of other objects do not move it. *)
Theorem object_after_program p : forall st q vals pos, nth_error (gs_objs st) q = Some (mkPobj vals pos true) -> (pos < length vals)%nat ->
  nth_error (gs_objs (gp_state st p)) q = Some (mkPobj vals ((pos + reads_of q st p) mod length vals) true).
Proof.
  induction p as [|a r IH]; intros st q vals pos F L.
  - cbn [gp_state reads_of]. rewrite Nat.add_0_r, Nat.mod_small by exact L. exact F.
  - destruct a as [k v|k d]; cbn [gp_state reads_of].
    + apply IH; [rewrite set_objs; exact F|exact L].
    + destruct (glookup k (gs_map st)) as [[v|p']|] eqn:G.
      * assert (X : snd (gpread k d st) = st) by (unfold gpread; rewrite G; reflexivity).
        rewrite X, Nat.add_0_l. apply IH; assumption.
      * destruct (p' =? q)%nat eqn:E.
        -- apply Nat.eqb_eq in E. subst p'.
           assert (L' : (S pos mod length vals < length vals)%nat) by (apply Nat.mod_upper_bound; lia).
           assert (Q : (q < length (gs_objs st))%nat) by (apply nth_error_Some; rewrite F; discriminate).
           assert (X : snd (gpread k d st) = mkGS (gs_map st) (set_nth q (mkPobj vals (S pos mod length vals) true) (gs_objs st))).
           { unfold gpread. rewrite G, (pnext_cyclic q (gs_objs st) _ F (conj eq_refl L)). reflexivity. }
           rewrite X.
           rewrite (IH (mkGS (gs_map st) (set_nth q (mkPobj vals (S pos mod length vals)%nat true) (gs_objs st))) q vals (S pos mod length vals)%nat (nth_set_same _ q _ Q) L').
           f_equal. f_equal. rewrite Nat.add_mod_idemp_l by lia. f_equal. lia.
        -- apply Nat.eqb_neq in E. rewrite Nat.add_0_l.
           pose proof (pnext_other p' q (gs_objs st) E) as O. destruct (pnext p' (gs_objs st)) as [o objs'] eqn:P. cbn [snd] in *.
           assert (X : snd (gpread k d st) = mkGS (gs_map st) objs') by (unfold gpread; rewrite G, P; reflexivity).
           rewrite X. apply IH; [cbn [gs_objs]; rewrite O; exact F|exact L].
      * assert (X : snd (gpread k d st) = st) by (unfold gpread; rewrite G; reflexivity).
        rewrite X, Nat.add_0_l. apply IH; assumption.
Qed.

(* hence the value a read gets from a pattern-valued global: the readers take the values of the object in turn *)
Theorem read_pattern_value p k d objs q vals pos :
  latest k p = Some (GPat q) -> nth_error objs q = Some (mkPobj vals pos true) -> (pos < length vals)%nat ->
  fst (gpread k d (gp_state (gstore0 objs) p)) = GVal (nth ((pos + reads_of q (gstore0 objs) p) mod length vals) vals 0).
Proof.
  intros La F L. rewrite read_latest, La.
  pose proof (object_after_program p (gstore0 objs) q vals pos F L) as O.
  assert (Lm : ((pos + reads_of q (gstore0 objs) p) mod length vals < length vals)%nat) by (apply Nat.mod_upper_bound; lia).
  rewrite (pnext_cyclic q _ _ O (conj eq_refl Lm)). reflexivity.
Qed.

(* scalars only: the model of Sched/Static.v *)
Fixpoint scalar_map (m : list (Z * gval)) : globals :=
  match m with [] => [] | (k, GScalar v) :: r => (k, v) :: scalar_map r | (k, GPat _) :: r => scalar_map r end.
Fixpoint all_scalar (m : list (Z * gval)) : bool :=
  match m with [] => true | (_, GScalar _) :: r => all_scalar r | (_, GPat _) :: _ => false end.
Lemma lookup_scalar k d m : all_scalar m = true ->
  match glookup k m with Some (GScalar v) => gget k d (scalar_map m) = v | Some (GPat _) => False | None => gget k d (scalar_map m) = d end.
Proof.
  induction m as [|[k' [v|p]] r IH]; cbn [all_scalar scalar_map glookup gget]; intros H; [reflexivity| |discriminate].
  destruct (k' =? k); [reflexivity|]. apply IH. exact H.
Qed.
Theorem scalar_read_is_gget k d st : all_scalar (gs_map st) = true -> fst (gpread k d st) = GVal (gget k d (scalar_map (gs_map st))).
Proof.
  intros H. pose proof (lookup_scalar k d (gs_map st) H) as L. unfold gpread.
  destruct (glookup k (gs_map st)) as [[v|p]|]; [rewrite L; reflexivity|contradiction|rewrite L; reflexivity].
Qed.

(* Sched/Model.v — executable model of isobar's scheduler: Track (isobar/timelines/track.py, the
   non-interpolating branch) and Timeline (isobar/timelines/timeline.py).

   Time is exact: every time is an integer number of UNITS; [tau] is the tick length in units.  The
   implementation compares times after round(., 8); on a grid of fewer than 10^8 units per beat that
   comparison coincides with the exact one (Base/Round8.v), so the model compares exactly.

   Events are already-resolved event dictionaries (resolution itself is property C03's model):
   a note event is a list of voices (note, amplitude, channel, duration*gate), an action event refers to
   a callback of the scenario's callback table (which performs timeline operations, and may raise),
   control/program-change events carry their arguments.  An event stream is an explicit list of results
   of next(event_stream) — an event, StopIteration, or an exception raised while evaluating the pattern
   or constructing the Event — optionally cyclic.  *)
From Isobar Require Import Base.Prelude.

(** * Observable device calls *)
Inductive call :=
| CNoteOn (note vel chan : Z)
| CNoteOff (note chan : Z)
| CControl (ctl val chan : Z)
| CProgram (prog chan : Z)
| CCallback (id : nat).

(** * Events and streams *)
Record voice := mkVoice { v_note : Z; v_amp : option Z; v_chan : Z; v_glen : option Z }.
(* perform_event: "(amp is not None and amp > 0) and (gate is not None and gate > 0)";
   v_glen = duration * gate in units (same sign as gate, durations being positive) *)
Definition voice_on (v : voice) : bool :=
  match v_amp v, v_glen v with
  | Some a, Some l => (0 <? a) && (0 <? l)
  | _, _ => false
  end.

Inductive ekind :=
| KNote (vs : list voice)
| KAction (cb : nat)
| KControl (ctl val chan : Z)
| KProgram (prog chan : Z).
Record event := mkEvent { e_dur : Z; e_active : bool; e_kind : ekind }.
Inductive evres := RStopIter | RRaise | REvent (e : event).

Record stream := mkStream { s_items : list evres; s_pos : nat; s_cyclic : bool }.
Definition empty_stream := mkStream [] 0 false.

(* next(event_stream) *)
Definition pull (s : stream) : evres * stream :=
  let n := length (s_items s) in
  if (s_pos s <? n)%nat then
    let p' := S (s_pos s) in
    (nth (s_pos s) (s_items s) RStopIter,
     mkStream (s_items s) (if s_cyclic s && (p' =? n)%nat then 0%nat else p') (s_cyclic s))
  else (RStopIter, s).

(** * Operations on a timeline (the history alphabet) *)
Inductive op :=
| OTick
| OSchedule (s : stream) (q d : option Z) (count : option Z) (rwd : bool) (name : option Z) (replace : bool)
| OUpdate (t : nat) (s : stream) (q d : option Z) (count : option Z)
| OUnschedule (t : nat)
| OClear
| OMute (t : nat)
| OUnmute (t : nat)
| ONudge (t : nat) (x : Z)
| OSetDefaults (q d : Z).

Inductive craise := CbNone | CbExc | CbStop.     (* what the callback raises after doing its operations *)

(** * State *)
Record noteoff := mkNO { no_time : Z; no_abs : Z; no_note : Z; no_chan : Z }.
   (* no_time: due time on the track's clock; no_abs: the same instant on the timeline's clock *)

Definition MAXSIZE : Z := 9223372036854775807.

Record track := mkTrack {
  t_id : nat; t_stream : stream; t_cur : Z; t_next : Z;
  t_max : option Z; t_count : Z; t_offs : list noteoff;
  t_muted : bool; t_started : bool; t_finished : bool; t_rwd : bool; t_name : option Z }.

Inductive action :=
| AStart (time : Z) (t : nat) (s : stream)          (* Track.update's deferred start() *)
| ARelease (time : Z) (note chan : Z).              (* note-off taken over from a track that left the timeline *)
Definition a_time (a : action) : Z := match a with AStart t _ _ => t | ARelease t _ _ => t end.

Record config := mkConfig {
  tau : Z;                                 (* tick length in units *)
  cbs : list (craise * list op);           (* action callbacks: operations performed, then what is raised *)
  latency : Z;                             (* output device latency compensation, in units (beats * U) *)
  max_tracks : Z; stop_when_done : bool; ignore_exc : bool;
  dev_fail : option nat;                   (* the n-th note_on/control/program_change call raises *)
  fuel : nat }.

Record timeline := mkTL {
  now : Z; tracks : list track; actions : list action;
  next_id : nat; def_q : Z; def_d : Z; dev_calls : nat }.

Definition tl0 : timeline := mkTL 0 [] [] 0 0 0 0.

Inductive opres := ROk | RStopIteration | RException | RTrackLimit | RTrackNotFound | ROutOfFuel.

(** * Track *)
Definition set_stream (tr : track) (s : stream) : track :=
  mkTrack (t_id tr) s (t_cur tr) (t_next tr) (t_max tr) (t_count tr) (t_offs tr)
          (t_muted tr) (t_started tr) (t_finished tr) (t_rwd tr) (t_name tr).
Definition set_next (tr : track) (x : Z) : track :=
  mkTrack (t_id tr) (t_stream tr) (t_cur tr) x (t_max tr) (t_count tr) (t_offs tr)
          (t_muted tr) (t_started tr) (t_finished tr) (t_rwd tr) (t_name tr).
Definition set_cur (tr : track) (x : Z) : track :=
  mkTrack (t_id tr) (t_stream tr) x (t_next tr) (t_max tr) (t_count tr) (t_offs tr)
          (t_muted tr) (t_started tr) (t_finished tr) (t_rwd tr) (t_name tr).
Definition set_count (tr : track) (c : Z) : track :=
  mkTrack (t_id tr) (t_stream tr) (t_cur tr) (t_next tr) (t_max tr) c (t_offs tr)
          (t_muted tr) (t_started tr) (t_finished tr) (t_rwd tr) (t_name tr).
Definition set_max (tr : track) (m : option Z) : track :=
  mkTrack (t_id tr) (t_stream tr) (t_cur tr) (t_next tr) m (t_count tr) (t_offs tr)
          (t_muted tr) (t_started tr) (t_finished tr) (t_rwd tr) (t_name tr).
Definition set_offs (tr : track) (l : list noteoff) : track :=
  mkTrack (t_id tr) (t_stream tr) (t_cur tr) (t_next tr) (t_max tr) (t_count tr) l
          (t_muted tr) (t_started tr) (t_finished tr) (t_rwd tr) (t_name tr).
Definition set_muted (tr : track) (b : bool) : track :=
  mkTrack (t_id tr) (t_stream tr) (t_cur tr) (t_next tr) (t_max tr) (t_count tr) (t_offs tr)
          b (t_started tr) (t_finished tr) (t_rwd tr) (t_name tr).
Definition set_finished (tr : track) (b : bool) : track :=
  mkTrack (t_id tr) (t_stream tr) (t_cur tr) (t_next tr) (t_max tr) (t_count tr) (t_offs tr)
          (t_muted tr) (t_started tr) b (t_rwd tr) (t_name tr).

Definition new_track (id : nat) (count : option Z) (rwd : bool) (name : option Z) : track :=
  mkTrack id empty_stream 0 MAXSIZE count 0 [] false false false rwd name.

(* Track.start: event_stream = events; is_started = True; next_event_time = current_time *)
Definition track_start (tr : track) (s : stream) : track :=
  mkTrack (t_id tr) s (t_cur tr) (t_cur tr) (t_max tr) (t_count tr) (t_offs tr)
          (t_muted tr) true (t_finished tr) (t_rwd tr) (t_name tr).

(* Track.process_note_offs: release, in list order, every entry with timestamp <= current_time *)
Definition no_due (cur : Z) (n : noteoff) : bool := no_time n <=? cur.
Definition process_note_offs (tr : track) : track * list call :=
  (set_offs tr (filter (fun n => negb (no_due (t_cur tr) n)) (t_offs tr)),
   map (fun n => CNoteOff (no_note n) (no_chan n)) (filter (no_due (t_cur tr)) (t_offs tr))).

(* Track.get_next_event *)
Inductive got := GEvent (e : event) | GStop | GRaise.
Definition count_exhausted (tr : track) : bool :=
  match t_max tr with
  | None => false
  | Some m => negb (m =? 0) && (m <=? t_count tr)
  end.
Definition get_next_event (tr : track) : got * track :=
  if count_exhausted tr then (GStop, tr) else
  match pull (t_stream tr) with
  | (RStopIter, s') => (GStop, set_stream tr s')
  | (RRaise, s') => (GRaise, set_stream tr s')
  | (REvent e, s') => (GEvent e, set_count (set_stream tr s') (t_count tr + 1))
  end.

(* the loop "while round(current_time, 8) >= round(next_event_time, 8)" of Track.tick *)
Inductive pulled := PDone (last : option event) | PStop | PRaise | POutOfFuel.
Fixpoint pull_loop (fuel : nat) (tr : track) (last : option event) : pulled * track :=
  match fuel with
  | O => (POutOfFuel, tr)
  | S f =>
      if t_next tr <=? t_cur tr then
        match get_next_event tr with
        | (GEvent e, tr') => pull_loop f (set_next tr' (t_next tr' + e_dur e)) (Some e)
        | (GStop, tr') => (PStop, tr')
        | (GRaise, tr') => (PRaise, tr')
        end
      else (PDone last, tr)
  end.

(* a call on the output device: the [dev_fail]-th one raises instead of being delivered *)
Definition dev_emit (fail : option nat) (n : nat) : bool :=      (* true = delivered *)
  match fail with Some j => negb (j =? n)%nat | None => true end.

(* the voice loop of perform_event for a note event; stops at the first failing device call *)
Fixpoint perform_voices (fail : option nat) (nowT cur : Z) (vs : list voice) (n : nat)
         (offs : list noteoff) (calls : list call) : list noteoff * list call * nat * bool :=
  match vs with
  | [] => (offs, calls, n, true)
  | v :: r =>
      if voice_on v then
        if dev_emit fail n then
          let l := match v_glen v with Some l => l | None => 0 end in
          perform_voices fail nowT cur r (S n)
            (offs ++ [mkNO (cur + l) (nowT + l) (v_note v) (v_chan v)])
            (calls ++ [CNoteOn (v_note v) (match v_amp v with Some a => a | None => 0 end) (v_chan v)])
        else (offs, calls, S n, false)
      else perform_voices fail nowT cur r n offs calls
  end.

Inductive performed := PfOk | PfRaise | PfCallback (cb : nat).
(* Track.perform_event; returns the track, the calls made, the device-call counter, the outcome *)
Definition perform_event (fail : option nat) (nowT : Z) (tr : track) (e : event) (n : nat)
  : track * list call * nat * performed :=
  if negb (e_active e) then (tr, [], n, PfOk) else
  if t_muted tr then (tr, [], n, PfOk) else
  match e_kind e with
  | KNote vs =>
      let '(offs, calls, n', ok) := perform_voices fail nowT (t_cur tr) vs n (t_offs tr) [] in
      (set_offs tr offs, calls, n', if ok then PfOk else PfRaise)
  | KAction cb => (tr, [CCallback cb], n, PfCallback cb)
  | KControl c v ch => if dev_emit fail n then (tr, [CControl c v ch], S n, PfOk) else (tr, [], S n, PfRaise)
  | KProgram p ch => if dev_emit fail n then (tr, [CProgram p ch], S n, PfOk) else (tr, [], S n, PfRaise)
  end.

(* first half of Track.tick: everything inside the try block *)
Inductive ticked := TNotStarted | TNormal | TStop | TRaise | TCallback (cb : nat) | TOutOfFuel.
Definition track_tick_a (cfg : config) (nowT : Z) (tr : track) (n : nat) : track * list call * nat * ticked :=
  if negb (t_started tr) then (tr, [], n, TNotStarted) else
  if t_next tr <=? t_cur tr then
    match pull_loop (fuel cfg) tr None with
    | (PDone (Some e), tr') =>
        let '(tr'', calls, n', pf) := perform_event (dev_fail cfg) nowT tr' e n in
        (tr'', calls, n', match pf with PfOk => TNormal | PfRaise => TRaise | PfCallback cb => TCallback cb end)
    | (PDone None, tr') => (tr', [], n, TNormal)
    | (PStop, tr') => (tr', [], n, TStop)
    | (PRaise, tr') => (tr', [], n, TRaise)
    | (POutOfFuel, tr') => (tr', [], n, TOutOfFuel)
    end
  else (tr, [], n, TNormal).

(* second half: "except StopIteration: if len(note_offs) == 0: is_finished = True"; advance the clock *)
Definition track_tick_b (cfg : config) (tr : track) (stopped : bool) : track :=
  let tr1 := if stopped && (match t_offs tr with [] => true | _ => false end) then set_finished tr true else tr in
  set_cur tr1 (t_cur tr1 + tau cfg).

(** * Timeline *)
Fixpoint find_track (id : nat) (l : list track) : option track :=
  match l with [] => None | t :: r => if (t_id t =? id)%nat then Some t else find_track id r end.
Fixpoint put_track (t' : track) (l : list track) : list track :=
  match l with [] => [] | t :: r => if (t_id t =? t_id t')%nat then t' :: r else t :: put_track t' r end.
Fixpoint del_track (id : nat) (l : list track) : list track :=
  match l with [] => [] | t :: r => if (t_id t =? id)%nat then r else t :: del_track id r end.
Definition set_tracks (tl : timeline) (l : list track) : timeline :=
  mkTL (now tl) l (actions tl) (next_id tl) (def_q tl) (def_d tl) (dev_calls tl).
Definition set_actions (tl : timeline) (l : list action) : timeline :=
  mkTL (now tl) (tracks tl) l (next_id tl) (def_q tl) (def_d tl) (dev_calls tl).
Definition set_dev (tl : timeline) (n : nat) : timeline :=
  mkTL (now tl) (tracks tl) (actions tl) (next_id tl) (def_q tl) (def_d tl) n.
Definition upd_track (tl : timeline) (t : track) : timeline := set_tracks tl (put_track t (tracks tl)).

(* ceil(t / q) for q > 0 *)
Definition cdiv (t q : Z) : Z := - ((- t) / q).
(* Timeline._schedule_action: quantize * ceil(current_time / quantize) + delay  (current_time + delay when quantize is 0) *)
Definition sched_time (t q d : Z) : Z := (if q =? 0 then t else q * cdiv t q) + d.

(* a track leaving the timeline hands its pending note-offs over to the timeline (Timeline._release_pending_notes) *)
Definition release_actions (tr : track) : list action :=
  map (fun n => ARelease (no_abs n) (no_note n) (no_chan n)) (t_offs tr).
Definition remove_track (tl : timeline) (id : nat) : timeline :=
  match find_track id (tracks tl) with
  | None => tl
  | Some tr => set_actions (set_tracks tl (del_track id (tracks tl))) (actions tl ++ release_actions tr)
  end.

(* Track.update(events, quantize, delay, count) on a track object [tr]; [present] says whether the object is
   still in Timeline.tracks (an update of a track that has left only leaves a pending action behind) *)
Definition track_update (cfg : config) (tl : timeline) (tr : track) (s : stream) (q d count : option Z)
  : timeline * track :=
  let q' := match q with Some x => x | None => def_q tl end in
  let d0 := match d with Some x => x | None => def_d tl end in
  let d' := if 0 <? latency cfg then d0 + latency cfg else d0 in
  let tr1 := match count with Some c => set_max tr (Some c) | None => tr end in
  if (q' =? 0) && (d' =? 0) then (tl, track_start tr1 s)
  else (set_actions tl (actions tl ++ [AStart (sched_time (now tl) q' d') (t_id tr) s]), tr1).

Fixpoint find_named (nm : Z) (l : list track) : option track :=
  match l with
  | [] => None
  | t :: r => match t_name t with
              | Some n => if n =? nm then Some t else find_named nm r
              | None => find_named nm r
              end
  end.

Fixpoint put_named (nm : Z) (t' : track) (l : list track) : list track :=
  match l with
  | [] => []
  | t :: r => match t_name t with
              | Some n => if n =? nm then t' :: r else t :: put_named nm t' r
              | None => t :: put_named nm t' r
              end
  end.

(* every operation except OTick; used both for calls made between ticks and for calls made by callbacks *)
Definition exec_op (cfg : config) (tl : timeline) (o : op) : timeline * opres :=
  match o with
  | OTick => (tl, ROk)
  | OSchedule s q d count rwd name replace =>
      let existing := match name with
                      | Some nm => if replace then
                                     match find_named nm (tracks tl) with Some tr => Some (nm, tr) | None => None end
                                   else None
                      | None => None end in
      match existing with
      | Some (nm, tr) =>
          let '(tl1, tr1) := track_update cfg tl tr s q d count in
          (set_tracks tl1 (put_named nm (set_muted (set_count tr1 0) false) (tracks tl1)), ROk)
      | None =>
          if negb (max_tracks cfg =? 0) && (max_tracks cfg <=? Z.of_nat (length (tracks tl))) then (tl, RTrackLimit)
          else
            let tr := new_track (next_id tl) count rwd name in
            let '(tl1, tr1) := track_update cfg tl tr s q d None in
            (mkTL (now tl1) (tracks tl1 ++ [tr1]) (actions tl1) (S (next_id tl1)) (def_q tl1) (def_d tl1) (dev_calls tl1), ROk)
      end
  | OUpdate t s q d count =>
      match find_track t (tracks tl) with
      | Some tr => let '(tl1, tr1) := track_update cfg tl tr s q d count in (upd_track tl1 tr1, ROk)
      | None =>   (* the object is no longer scheduled: only the deferred start (if any) is left behind;
                     an index that no schedule call has created yet denotes no object at all: no-op *)
          if (t <? next_id tl)%nat then
            let '(tl1, _) := track_update cfg tl (new_track t None true None) s q d count in (tl1, ROk)
          else (tl, ROk)
      end
  | OUnschedule t =>
      match find_track t (tracks tl) with
      | Some _ => (remove_track tl t, ROk)
      | None => (tl, RTrackNotFound)
      end
  | OClear => (fold_left (fun tl' tr => remove_track tl' (t_id tr)) (tracks tl) tl, ROk)
  | OMute t => match find_track t (tracks tl) with Some tr => (upd_track tl (set_muted tr true), ROk) | None => (tl, ROk) end
  | OUnmute t => match find_track t (tracks tl) with Some tr => (upd_track tl (set_muted tr false), ROk) | None => (tl, ROk) end
  | ONudge t x => match find_track t (tracks tl) with Some tr => (upd_track tl (set_next tr (t_next tr + x)), ROk) | None => (tl, ROk) end
  | OSetDefaults q d => (mkTL (now tl) (tracks tl) (actions tl) (next_id tl) q d (dev_calls tl), ROk)
  end.

(* a callback's operations: executed in order until one raises (which aborts the callback; the
   exception is swallowed by perform_event) *)
Fixpoint exec_cb_ops (cfg : config) (tl : timeline) (ops : list op) : timeline :=
  match ops with
  | [] => tl
  | o :: r => let '(tl', res) := exec_op cfg tl o in
              match res with ROk => exec_cb_ops cfg tl' r | _ => tl' end
  end.

(* did every operation of the callback succeed?  (an operation that raises aborts the callback with THAT
   exception, so the callback's own final raise - StopIteration included - does not happen) *)
Fixpoint cb_completes (cfg : config) (tl : timeline) (ops : list op) : bool :=
  match ops with
  | [] => true
  | o :: r => let '(tl', res) := exec_op cfg tl o in
              match res with ROk => cb_completes cfg tl' r | _ => false end
  end.

(* phase 1: note-offs of every track, in track order *)
Fixpoint phase_noteoffs (l : list track) : list track * list call :=
  match l with
  | [] => ([], [])
  | t :: r => let '(t', c) := process_note_offs t in
              let '(r', cs) := phase_noteoffs r in (t' :: r', c ++ cs)
  end.

(* phase 3: due actions, in request order *)
Definition fire_action (tl : timeline) (a : action) : timeline * list call :=
  match a with
  | AStart _ id s =>
      match find_track id (tracks tl) with
      | Some tr => (upd_track tl (track_start tr s), [])
      | None => (tl, [])
      end
  | ARelease _ n c => (tl, [CNoteOff n c])
  end.
Fixpoint phase_actions (tl : timeline) (todo : list action) (kept : list action) (calls : list call)
  : timeline * list action * list call :=
  match todo with
  | [] => (tl, kept, calls)
  | a :: r =>
      if a_time a <=? now tl then
        let '(tl', c) := fire_action tl a in phase_actions tl' r kept (calls ++ c)
      else phase_actions tl r (kept ++ [a]) calls
  end.

(* phase 4: the tracks, over a snapshot of the ids present when the phase starts *)
(* end of one track's turn: second half of Track.tick, then removal if finished *)
Definition finish_track (cfg : config) (tl : timeline) (id : nat) (stopped : bool) : timeline :=
  match find_track id (tracks tl) with
  | None => tl
  | Some tr2 =>
      let tr3 := track_tick_b cfg tr2 stopped in
      let tl3 := upd_track tl tr3 in
      if t_finished tr3 && t_rwd tr3 then remove_track tl3 id else tl3
  end.

(* perform_event, action branch, "except StopIteration: self.event_stream = None; raise StopIteration()": a callback
   that raises StopIteration ends its track for good - no further event is drawn from the stream *)
Definition end_stream (tl : timeline) (id : nat) : timeline :=
  match find_track id (tracks tl) with
  | Some t => upd_track tl (set_stream t empty_stream)
  | None => tl
  end.

(* one track's turn in the loop of Timeline.tick; Some res = the tick is aborted with that result *)
Definition tick_one (cfg : config) (tl : timeline) (id : nat) : timeline * list call * option opres :=
  match find_track id (tracks tl) with
  | None => (tl, [], None)
  | Some tr =>
      let '(tr1, c, n', res) := track_tick_a cfg (now tl) tr (dev_calls tl) in
      let tl1 := set_dev (upd_track tl tr1) n' in
      match res with
      | TNotStarted => (if t_finished tr1 && t_rwd tr1 then remove_track tl1 id else tl1, c, None)
      | TNormal => (finish_track cfg tl1 id false, c, None)
      | TStop => (finish_track cfg tl1 id true, c, None)
      | TCallback cb =>
          let '(rk, ops) := nth cb (cbs cfg) (CbNone, []) in
          let tl2 := exec_cb_ops cfg tl1 ops in
          let stop := match rk with CbStop => cb_completes cfg tl1 ops | _ => false end in
          (finish_track cfg (if stop then end_stream tl2 id else tl2) id stop, c, None)
      | TRaise =>
          if ignore_exc cfg then (remove_track tl1 id, c, None) else (tl1, c, Some RException)
      | TOutOfFuel => (tl1, c, Some ROutOfFuel)
      end
  end.

Fixpoint phase_tracks (cfg : config) (tl : timeline) (ids : list nat) (calls : list call)
  : timeline * list call * opres :=
  match ids with
  | [] => (tl, calls, ROk)
  | id :: r =>
      let '(tl', c, abort) := tick_one cfg tl id in
      match abort with
      | Some res => (tl', calls ++ c, res)
      | None => phase_tracks cfg tl' r (calls ++ c)
      end
  end.

(* Timeline.tick *)
Definition tl_tick (cfg : config) (tl : timeline) : timeline * list call * opres :=
  let '(trs1, c1) := phase_noteoffs (tracks tl) in
  let tl1 := set_tracks tl trs1 in
  let '(tl2, kept, c3) := phase_actions (set_actions tl1 []) (actions tl1) [] [] in
  (* actions requested while firing are appended behind the kept ones *)
  let tl3 := set_actions tl2 (kept ++ actions tl2) in
  let '(tl4, c4, res) := phase_tracks cfg tl3 (map t_id (tracks tl3)) [] in
  let calls := c1 ++ c3 ++ c4 in
  match res with
  | ROk =>
      if (match tracks tl4, actions tl4 with [], [] => true | _, _ => false end) && stop_when_done cfg
      then (tl4, calls, RStopIteration)
      else (mkTL (now tl4 + tau cfg) (tracks tl4) (actions tl4) (next_id tl4) (def_q tl4) (def_d tl4) (dev_calls tl4), calls, ROk)
  | _ => (tl4, calls, res)
  end.

Definition step (cfg : config) (tl : timeline) (o : op) : timeline * list call * opres :=
  match o with
  | OTick => tl_tick cfg tl
  | _ => let '(tl', r) := exec_op cfg tl o in (tl', [], r)
  end.

(* the observation after each operation: calls made, result, ids of the scheduled tracks in order *)
Definition obs := (list call * opres * list nat)%type.
Fixpoint run (cfg : config) (tl : timeline) (ops : list op) : list obs :=
  match ops with
  | [] => []
  | o :: r => let '(tl', c, res) := step cfg tl o in
              (c, res, map t_id (tracks tl')) :: run cfg tl' r
  end.
Fixpoint run_state (cfg : config) (tl : timeline) (ops : list op) : timeline :=
  match ops with
  | [] => tl
  | o :: r => let '(tl', _, _) := step cfg tl o in run_state cfg tl' r
  end.

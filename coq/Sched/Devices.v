(* Sched/Devices.v — timelines with SEVERAL OUTPUT DEVICES, judged per device.

   The scheduler model (Sched/Model.v) passes channel numbers through unread: a call carries (note, channel), a pending
   release entry carries (note, channel), and nothing ever computes with the channel.  A track on output device d that plays on
   MIDI channel c is therefore the model's track on the TAGGED channel  c + D * d  (D = number of channels of a device, 16):
   the device is part of the key.  What device d receives is the sub-trace of the calls whose tag is d, with the tag removed
   ([dev_trace]).  A release entry keeps the tag of the device on which its note was switched on, wherever the entry is held
   (by the track, or by the timeline after the track left - Timeline._release_pending_notes) and whatever happens to the track
   afterwards: the note-off belongs to THAT device.

   The conservation theorem of Sched/NoteOffProofs.v holds for an ARBITRARY weight on (note, channel); restricting the weight
   to the channels of one device gives the pairing invariant PER DEVICE.  No change to Sched/Model.v. *)
From Isobar Require Import Base.Prelude Sched.Model Sched.NoteOffProofs.
#[local] Arguments Z.add : simpl never.

Section Dev.
  Variable D : Z.                       (* channels per device *)

  Definition dev_of (c : Z) : Z := c / D.
  Definition chan_of (c : Z) : Z := c mod D.
  Definition tagged (d c : Z) : Z := c + D * d.

  (* what device d receives of one call *)
  Definition dev_call (d : Z) (c : call) : option call :=
    match c with
    | CNoteOn n v ch => if dev_of ch =? d then Some (CNoteOn n v (chan_of ch)) else None
    | CNoteOff n ch => if dev_of ch =? d then Some (CNoteOff n (chan_of ch)) else None
    | CControl k v ch => if dev_of ch =? d then Some (CControl k v (chan_of ch)) else None
    | CProgram p ch => if dev_of ch =? d then Some (CProgram p (chan_of ch)) else None
    | CCallback _ => None
    end.
  Fixpoint dev_trace (d : Z) (l : list call) : list call :=
    match l with
    | [] => []
    | c :: r => match dev_call d c with Some x => x :: dev_trace d r | None => dev_trace d r end
    end.

  (* a weight on (note, channel) of device d, as a weight on tagged channels *)
  Definition on_dev (d : Z) (w : Z -> Z -> Z) (n c : Z) : Z := if dev_of c =? d then w n (chan_of c) else 0.

  Lemma Won_dev d w l : Won w (dev_trace d l) = Won (on_dev d w) l.
  Proof.
    induction l as [|c r IH]; [reflexivity|]. cbn [dev_trace].
    destruct c as [n v ch|n ch|k v ch|p ch|i]; cbn [dev_call]; unfold on_dev; cbn [Won fold_right won];
      try (destruct (dev_of ch =? d); cbn [Won fold_right won]; fold (Won w (dev_trace d r)); fold (Won (on_dev d w) r);
           rewrite IH; unfold on_dev; reflexivity).
    fold (Won (on_dev d w) r). rewrite IH. reflexivity.
  Qed.

  Lemma Woff_dev d w l : Woff w (dev_trace d l) = Woff (on_dev d w) l.
  Proof.
    induction l as [|c r IH]; [reflexivity|]. cbn [dev_trace].
    destruct c as [n v ch|n ch|k v ch|p ch|i]; cbn [dev_call]; unfold on_dev; cbn [Woff fold_right woff];
      try (destruct (dev_of ch =? d); cbn [Woff fold_right woff]; fold (Woff w (dev_trace d r)); fold (Woff (on_dev d w) r);
           rewrite IH; unfold on_dev; reflexivity).
    fold (Woff (on_dev d w) r). rewrite IH. reflexivity.
  Qed.

  (* conservation per device, over ALL histories: what is pending FOR device d + the note-offs device d received
     = what was pending for it + the note-ons it received *)
  Theorem device_conservation d w cfg ops tl :
    Pend (on_dev d w) (run_state cfg tl ops) + Woff w (dev_trace d (run_calls cfg tl ops))
    = Pend (on_dev d w) tl + Won w (dev_trace d (run_calls cfg tl ops)).
  Proof. rewrite Won_dev, Woff_dev. apply run_cons. Qed.

  Lemma on_dev_ind d n0 c0 : 0 < D -> 0 <= c0 < D ->
    forall n c, on_dev d (ind n0 c0) n c = ind n0 (tagged d c0) n c.
  Proof.
    intros HD Hc n c. unfold on_dev, ind, dev_of, chan_of, tagged.
    destruct (c / D =? d) eqn:E1; destruct (n =? n0) eqn:E2; simpl; try reflexivity.
    - destruct (c mod D =? c0) eqn:E3; destruct (c =? c0 + D * d) eqn:E4; try reflexivity; exfalso.
      + apply Z.eqb_eq in E1, E3. apply Z.eqb_neq in E4. apply E4. rewrite (Z.div_mod c D) at 1 by lia. lia.
      + apply Z.eqb_eq in E4. apply Z.eqb_neq in E3. apply E3. subst c.
        replace (c0 + D * d) with (c0 + d * D) by lia. rewrite Z.mod_add by lia. apply Z.mod_small. lia.
    - destruct (c =? c0 + D * d) eqn:E4; [|reflexivity]. exfalso. apply Z.eqb_eq in E4. apply Z.eqb_neq in E1. apply E1.
      subst c. replace (c0 + D * d) with (c0 + d * D) by lia. rewrite Z.div_add by lia. rewrite (Z.div_small c0 D) by lia. lia.
  Qed.

  Lemma Won_ext w1 w2 l : (forall n c, w1 n c = w2 n c) -> Won w1 l = Won w2 l.
  Proof. intros H. induction l as [|c r IH]; [reflexivity|]. cbn [Won fold_right]. fold (Won w1 r). fold (Won w2 r). rewrite IH. destruct c; cbn [won]; rewrite ?H; reflexivity. Qed.
  Lemma Woff_ext w1 w2 l : (forall n c, w1 n c = w2 n c) -> Woff w1 l = Woff w2 l.
  Proof. intros H. induction l as [|c r IH]; [reflexivity|]. cbn [Woff fold_right]. fold (Woff w1 r). fold (Woff w2 r). rewrite IH. destruct c; cbn [woff]; rewrite ?H; reflexivity. Qed.

  (* counting form per device, from the empty timeline: on every device, for every (note, channel), after every history,
     #note-ons - #note-offs received by THAT device = #release entries pending for that device and key, >= 0 *)
  Theorem device_pending_is_sounding d n0 c0 cfg ops : 0 < D -> 0 <= c0 < D ->
    Won (ind n0 c0) (dev_trace d (run_calls cfg tl0 ops)) - Woff (ind n0 c0) (dev_trace d (run_calls cfg tl0 ops))
      = Pend (ind n0 (tagged d c0)) (run_state cfg tl0 ops)
    /\ 0 <= Pend (ind n0 (tagged d c0)) (run_state cfg tl0 ops).
  Proof.
    intros HD Hc. rewrite Won_dev, Woff_dev.
    rewrite (Won_ext _ _ _ (on_dev_ind d n0 c0 HD Hc)), (Woff_ext _ _ _ (on_dev_ind d n0 c0 HD Hc)).
    pose proof (run_cons (ind n0 (tagged d c0)) cfg ops tl0) as H.
    assert (P0 : Pend (ind n0 (tagged d c0)) tl0 = 0) by reflexivity.
    split; [lia|apply Pend_ind_nonneg].
  Qed.
End Dev.

(** * A track without events *)
(* Track.start(None) / start({}): event_stream = PDict({}); next() returns {} every time and Event({}) raises
   InvalidEventException("No event type specified"): an endless stream of raising events *)
Definition blank_stream : stream := mkStream [RRaise] 0 true.

Lemma pull_blank : pull blank_stream = (RRaise, blank_stream).
Proof. reflexivity. Qed.

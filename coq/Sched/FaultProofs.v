(* Sched/FaultProofs.v — C17: a failing track cannot take the rest of the performance down.
   Fault sites of the model: a stream item RRaise (exception while evaluating the pattern or constructing the Event),
   the [dev_fail]-th device call raising (PfRaise), an action callback raising (CbExc) or raising StopIteration (CbStop). *)
From Isobar Require Import Base.Prelude Sched.Model Sched.NoteOffProofs Sched.TimeProofs Sched.MergeProofs.

(** * Track-list facts *)
Lemma find_put_same t' l : (exists t, find_track (t_id t') l = Some t) -> find_track (t_id t') (put_track t' l) = Some t'.
Proof.
  intros [t H]. induction l as [|x r IH]; simpl in *; [discriminate|].
  destruct (t_id x =? t_id t')%nat eqn:E; simpl; [rewrite Nat.eqb_refl; reflexivity|rewrite E; apply IH; exact H].
Qed.
Lemma find_put_other id t' l : id <> t_id t' -> find_track id (put_track t' l) = find_track id l.
Proof.
  intros N. induction l as [|x r IH]; simpl; [reflexivity|].
  destruct (t_id x =? t_id t')%nat eqn:E; simpl.
  - apply Nat.eqb_eq in E. rewrite E. destruct (t_id t' =? id)%nat eqn:E2; [apply Nat.eqb_eq in E2; congruence|reflexivity].
  - destruct (t_id x =? id)%nat; [reflexivity|exact IH].
Qed.
Lemma find_del_other id id' l : id <> id' -> find_track id (del_track id' l) = find_track id l.
Proof.
  intros N. induction l as [|x r IH]; simpl; [reflexivity|].
  destruct (t_id x =? id')%nat eqn:E; simpl.
  - apply Nat.eqb_eq in E. destruct (t_id x =? id)%nat eqn:E2; [apply Nat.eqb_eq in E2; congruence|reflexivity].
  - destruct (t_id x =? id)%nat; [reflexivity|exact IH].
Qed.
Lemma find_none_notin id l : ~ In id (map t_id l) -> find_track id l = None.
Proof.
  induction l as [|x r IH]; simpl; [reflexivity|]. intros N.
  destruct (t_id x =? id)%nat eqn:E; [apply Nat.eqb_eq in E; exfalso; apply N; left; exact E|].
  apply IH. intros X. apply N. right. exact X.
Qed.
Lemma find_del_same id l : NoDup (map t_id l) -> find_track id (del_track id l) = None.
Proof.
  induction l as [|x r IH]; simpl; [reflexivity|]. intros N. inversion N as [|a b N1 N2]; subst.
  destruct (t_id x =? id)%nat eqn:E.
  - apply Nat.eqb_eq in E. subst id. apply find_none_notin. exact N1.
  - simpl. rewrite E. apply IH. exact N2.
Qed.
Lemma put_ids t' l : map t_id (put_track t' l) = map t_id l.
Proof. apply put_track_ids. Qed.

(* removing a track: it is gone (ids are unique), nobody else is touched, its pending releases become timeline actions *)
Lemma remove_track_spec tl id tr : find_track id (tracks tl) = Some tr -> NoDup (map t_id (tracks tl)) ->
  find_track id (tracks (remove_track tl id)) = None
  /\ (forall id', id' <> id -> find_track id' (tracks (remove_track tl id)) = find_track id' (tracks tl))
  /\ actions (remove_track tl id) = actions tl ++ release_actions tr.
Proof.
  intros F N. unfold remove_track. rewrite F. simpl. split; [apply find_del_same; exact N|]. split; [|reflexivity].
  intros id' Hne. apply find_del_other. exact Hne.
Qed.

(** * Fault sites: when does a track's turn raise? *)
(* the stream raises on the pull of this tick (pattern evaluation or Event construction) *)
Lemma stream_fault_raises cfg nowT tr n : t_started tr = true -> t_next tr <= t_cur tr -> count_exhausted tr = false ->
  fst (pull (t_stream tr)) = RRaise -> (1 <= fuel cfg)%nat ->
  track_tick_a cfg nowT tr n = (set_stream tr (snd (pull (t_stream tr))), [], n, TRaise).
Proof.
  intros S L C P Fu. unfold track_tick_a. rewrite S. cbn [negb]. replace (t_next tr <=? t_cur tr) with true by lia.
  destruct (fuel cfg) as [|f]; [lia|]. cbn [pull_loop]. replace (t_next tr <=? t_cur tr) with true by lia.
  unfold get_next_event. rewrite C. destruct (pull (t_stream tr)) as [r s']. simpl in P. subst r. reflexivity.
Qed.
(* the device raises on a control / program change (the call is counted, nothing is delivered) *)
Lemma device_fault_raises j nowT tr e : e_active e = true -> t_muted tr = false ->
  (exists c v ch, e_kind e = KControl c v ch) \/ (exists p ch, e_kind e = KProgram p ch) ->
  perform_event (Some j) nowT tr e j = (tr, [], S j, PfRaise).
Proof.
  intros A M K. unfold perform_event. rewrite A, M. cbn [negb].
  destruct K as [[c [v [ch K]]]|[p [ch K]]]; rewrite K; unfold dev_emit; rewrite Nat.eqb_refl; reflexivity.
Qed.
(* ... or on the note-on of the first sounding voice of a note event *)
Lemma device_fault_note j nowT cur v r offs calls : voice_on v = true ->
  perform_voices (Some j) nowT cur (v :: r) j offs calls = (offs, calls, S j, false).
Proof. intros V. cbn [perform_voices]. rewrite V. unfold dev_emit. rewrite Nat.eqb_refl. reflexivity. Qed.

(** * Tolerant mode: containment *)
Section Tolerant.
  Variable cfg : config.
  Hypothesis Htol : ignore_exc cfg = true.

  Lemma tick_one_tolerant tl id : snd (tick_one cfg tl id) <> Some RException.
  Proof.
    unfold tick_one. destruct (find_track id (tracks tl)) as [tr|]; [|discriminate].
    destruct (track_tick_a cfg (now tl) tr (dev_calls tl)) as [[[tr1 c] n1] res].
    destruct res; simpl; try discriminate.
    - rewrite Htol. discriminate.
    - destruct (nth cb (cbs cfg) (CbNone, [])) as [rk ops]. discriminate.
  Qed.

  Lemma phase_tracks_tolerant ids : forall tl calls, snd (phase_tracks cfg tl ids calls) <> RException.
  Proof.
    induction ids as [|id r IH]; intros tl calls; simpl; [discriminate|].
    pose proof (tick_one_tolerant tl id) as T. destruct (tick_one cfg tl id) as [[tl' c] ab]. simpl in T.
    destruct ab as [res|]; [simpl; intros ->; apply T; reflexivity|apply IH].
  Qed.

  (* the outcome of a whole tick in tolerant mode: never an exception *)
  Theorem tl_tick_tolerant tl : snd (tl_tick cfg tl) <> RException.
  Proof.
    unfold tl_tick. destruct (phase_noteoffs (tracks tl)) as [trs1 c1].
    destruct (phase_actions (set_actions (set_tracks tl trs1) []) (actions (set_tracks tl trs1)) [] []) as [[tl2 kept] c3].
    pose proof (phase_tracks_tolerant (map t_id (tracks (set_actions tl2 (kept ++ actions tl2)))) (set_actions tl2 (kept ++ actions tl2)) []) as P.
    destruct (phase_tracks cfg (set_actions tl2 (kept ++ actions tl2)) (map t_id (tracks (set_actions tl2 (kept ++ actions tl2)))) []) as [[tl4 c4] res].
    simpl in P. destruct res; simpl; try discriminate; [|exact P].
    destruct (_ && _); discriminate.
  Qed.

  (* the possible outcomes, precisely *)
  Theorem tl_tick_tolerant_outcomes tl :
    let res := snd (tl_tick cfg tl) in
    res = ROk \/ (res = RStopIteration /\ stop_when_done cfg = true) \/ res = ROutOfFuel.
  Proof.
    pose proof (tl_tick_tolerant tl) as T. cbv zeta. revert T. unfold tl_tick.
    destruct (phase_noteoffs (tracks tl)) as [trs1 c1].
    destruct (phase_actions (set_actions (set_tracks tl trs1) []) (actions (set_tracks tl trs1)) [] []) as [[tl2 kept] c3].
    pose proof (phase_tracks_not_stop cfg (map t_id (tracks (set_actions tl2 (kept ++ actions tl2)))) (set_actions tl2 (kept ++ actions tl2)) []) as NS.
    assert (NL : forall ids tl calls r, snd (phase_tracks cfg tl ids calls) = r -> r = ROk \/ r = RException \/ r = ROutOfFuel).
    { induction ids as [|id r IH]; intros t cs rr; simpl; [intros <-; left; reflexivity|].
      assert (TO : forall x, snd (tick_one cfg t id) = Some x -> x = RException \/ x = ROutOfFuel).
      { unfold tick_one. destruct (find_track id (tracks t)) as [tr|]; [|discriminate].
        destruct (track_tick_a cfg (now t) tr (dev_calls t)) as [[[tr1 c] n1] res0]. intros x.
        destruct res0; simpl; try discriminate.
        - destruct (ignore_exc cfg); simpl; [discriminate|]. intros E; inversion E; left; reflexivity.
        - destruct (nth cb (cbs cfg) (CbNone, [])) as [rk ops]. discriminate.
        - intros E; inversion E; right; reflexivity. }
      destruct (tick_one cfg t id) as [[t' c] ab]. simpl in TO. destruct ab as [x|].
      - simpl. intros <-. right. apply TO. reflexivity.
      - apply IH. }
    specialize (NL (map t_id (tracks (set_actions tl2 (kept ++ actions tl2)))) (set_actions tl2 (kept ++ actions tl2)) []).
    destruct (phase_tracks cfg (set_actions tl2 (kept ++ actions tl2)) (map t_id (tracks (set_actions tl2 (kept ++ actions tl2)))) []) as [[tl4 c4] res].
    simpl in NS, NL. specialize (NL res eq_refl).
    destruct res; simpl; intros T.
    - destruct (match tracks tl4, actions tl4 with [], [] => true | _, _ => false end); simpl; [|left; reflexivity].
      destruct (stop_when_done cfg); simpl; [right; left; split; reflexivity|left; reflexivity].
    - exfalso. apply NS. reflexivity.
    - exfalso. apply T. reflexivity.
    - destruct NL as [X|[X|X]]; discriminate.
    - destruct NL as [X|[X|X]]; discriminate.
    - right. right. reflexivity.
  Qed.

  (* the turn of a track that faults (at ANY site: its stream raised, or a device call raised): the track is removed
     on that very turn, the tick goes on (no abort), the other tracks' records are untouched, the pending releases of
     the removed track become actions of the timeline *)
  Theorem fault_turn tl id tr tr1 c n1 :
    find_track id (tracks tl) = Some tr -> NoDup (map t_id (tracks tl)) ->
    track_tick_a cfg (now tl) tr (dev_calls tl) = (tr1, c, n1, TRaise) ->
    let '(tl', c', ab) := tick_one cfg tl id in
    ab = None /\ c' = c
    /\ find_track id (tracks tl') = None
    /\ (forall id', id' <> id -> find_track id' (tracks tl') = find_track id' (tracks tl))
    /\ actions tl' = actions tl ++ release_actions tr1
    /\ now tl' = now tl.
  Proof.
    intros F N A. unfold tick_one. rewrite F, A, Htol.
    pose proof (tick_a_id cfg (now tl) tr (dev_calls tl)) as I. rewrite A in I. simpl in I.
    pose proof (find_track_id _ _ _ F) as Hid.
    assert (F1 : find_track id (tracks (set_dev (upd_track tl tr1) n1)) = Some tr1).
    { simpl. rewrite <- Hid, <- I. apply find_put_same. exists tr. rewrite I, Hid. exact F. }
    assert (N1 : NoDup (map t_id (tracks (set_dev (upd_track tl tr1) n1)))) by (simpl; rewrite put_ids; exact N).
    destruct (remove_track_spec _ id tr1 F1 N1) as [R1 [R2 R3]].
    split; [reflexivity|]. split; [reflexivity|]. split; [exact R1|]. split; [|split; [exact R3|rewrite remove_track_now; reflexivity]].
    intros id' Hne. rewrite (R2 id' Hne). simpl. apply find_put_other. rewrite I, Hid. exact Hne.
  Qed.
End Tolerant.

(** * Intolerant mode: propagation *)
Section Intolerant.
  Variable cfg : config.
  Hypothesis Hint : ignore_exc cfg = false.

  (* the faulting turn aborts the loop over the tracks: the tracks behind it are not run *)
  Theorem fault_propagates tl id r tr tr1 c n1 calls :
    find_track id (tracks tl) = Some tr ->
    track_tick_a cfg (now tl) tr (dev_calls tl) = (tr1, c, n1, TRaise) ->
    phase_tracks cfg tl (id :: r) calls = (set_dev (upd_track tl tr1) n1, calls ++ c, RException).
  Proof. intros F A. cbn [phase_tracks]. unfold tick_one. rewrite F, A, Hint. reflexivity. Qed.

  (* and the tick as a whole returns the exception without advancing the clock *)
  Theorem exception_aborts_tick tl :
    let '(tl', _, res) := tl_tick cfg tl in res = RException -> now tl' = now tl.
  Proof.
    pose proof (tl_tick_now cfg tl) as H. destruct (tl_tick cfg tl) as [[tl' c] res]. intros ->. exact H.
  Qed.

  (* if the track phase returns an exception, so does the tick *)
  Lemma tl_tick_exception tl :
    let '(trs1, _) := phase_noteoffs (tracks tl) in
    let '(tl2, kept, _) := phase_actions (set_actions (set_tracks tl trs1) []) (actions tl) [] [] in
    let tl3 := set_actions tl2 (kept ++ actions tl2) in
    snd (phase_tracks cfg tl3 (map t_id (tracks tl3)) []) = RException -> snd (tl_tick cfg tl) = RException.
  Proof.
    unfold tl_tick. destruct (phase_noteoffs (tracks tl)) as [trs1 c1].
    change (actions (set_tracks tl trs1)) with (actions tl).
    destruct (phase_actions (set_actions (set_tracks tl trs1) []) (actions tl) [] []) as [[tl2 kept] c3]. cbv zeta.
    destruct (phase_tracks cfg (set_actions tl2 (kept ++ actions tl2)) (map t_id (tracks (set_actions tl2 (kept ++ actions tl2)))) []) as [[tl4 c4] res].
    simpl. intros ->. reflexivity.
  Qed.
End Intolerant.

(** * Action callbacks *)
(* the turn of a track whose event is an action: whatever the callback raises, the turn never aborts the tick, in either
   mode; an Exception (CbExc) leaves exactly the state a non-raising callback leaves *)
Theorem callback_turn cfg tl id tr tr1 c n1 cb : find_track id (tracks tl) = Some tr ->
  track_tick_a cfg (now tl) tr (dev_calls tl) = (tr1, c, n1, TCallback cb) ->
  let tl1 := set_dev (upd_track tl tr1) n1 in
  let rk := fst (nth cb (cbs cfg) (CbNone, [])) in
  let ops := snd (nth cb (cbs cfg) (CbNone, [])) in
  let tl2 := exec_cb_ops cfg tl1 ops in
  let stop := match rk with CbStop => cb_completes cfg tl1 ops | _ => false end in
  tick_one cfg tl id = (finish_track cfg (if stop then end_stream tl2 id else tl2) id stop, c, None).
Proof.
  intros F A. unfold tick_one. rewrite F, A. destruct (nth cb (cbs cfg) (CbNone, [])) as [rk ops]. reflexivity.
Qed.

Corollary callback_exception_swallowed cfg tl id tr tr1 c n1 cb : find_track id (tracks tl) = Some tr ->
  track_tick_a cfg (now tl) tr (dev_calls tl) = (tr1, c, n1, TCallback cb) ->
  fst (nth cb (cbs cfg) (CbNone, [])) <> CbStop ->
  tick_one cfg tl id =
    (finish_track cfg (exec_cb_ops cfg (set_dev (upd_track tl tr1) n1) (snd (nth cb (cbs cfg) (CbNone, [])))) id false, c, None).
Proof.
  intros F A N. rewrite (callback_turn cfg tl id tr tr1 c n1 cb F A). cbv zeta.
  destruct (fst (nth cb (cbs cfg) (CbNone, []))); [reflexivity|reflexivity|contradiction].
Qed.

(* a turn that is not stopped only advances the track's clock: the track stays scheduled, unfinished, with its stream *)
Lemma finish_continue cfg tl id tr : find_track id (tracks tl) = Some tr -> t_finished tr = false ->
  find_track id (tracks (finish_track cfg tl id false)) = Some (set_cur tr (t_cur tr + tau cfg)).
Proof.
  intros F Fin. unfold finish_track. rewrite F. unfold track_tick_b. cbn [andb].
  assert (E : t_finished (set_cur tr (t_cur tr + tau cfg)) = false) by exact Fin. rewrite E. cbn [andb].
  pose proof (find_track_id _ _ _ F) as Hid. simpl. rewrite <- Hid.
  change (t_id tr) with (t_id (set_cur tr (t_cur tr + tau cfg))). apply find_put_same.
  exists tr. simpl. rewrite Hid. exact F.
Qed.

(* StopIteration from the callback (callbacks without operations): a track with nothing pending is finished on that
   tick; it is removed if remove_when_done, otherwise it stays, finished, with an exhausted stream *)
Theorem callback_stop_ends_track cfg tl id tr tr1 c n1 cb : find_track id (tracks tl) = Some tr ->
  NoDup (map t_id (tracks tl)) ->
  track_tick_a cfg (now tl) tr (dev_calls tl) = (tr1, c, n1, TCallback cb) ->
  nth cb (cbs cfg) (CbNone, []) = (CbStop, []) -> t_offs tr1 = [] ->
  let '(tl', _, ab) := tick_one cfg tl id in
  ab = None /\
  if t_rwd tr1 then find_track id (tracks tl') = None
  else exists tr', find_track id (tracks tl') = Some tr' /\ t_finished tr' = true /\ t_stream tr' = empty_stream.
Proof.
  intros F N A C O. rewrite (callback_turn cfg tl id tr tr1 c n1 cb F A). rewrite C. cbv zeta. cbn [fst snd exec_cb_ops cb_completes].
  split; [reflexivity|].
  pose proof (tick_a_id cfg (now tl) tr (dev_calls tl)) as I. rewrite A in I. simpl in I.
  pose proof (find_track_id _ _ _ F) as Hid.
  set (tl1 := set_dev (upd_track tl tr1) n1).
  assert (F1 : find_track id (tracks tl1) = Some tr1).
  { simpl. rewrite <- Hid, <- I. apply find_put_same. exists tr. rewrite I, Hid. exact F. }
  assert (N1 : NoDup (map t_id (tracks tl1))) by (simpl; rewrite put_ids; exact N).
  unfold end_stream. rewrite F1.
  set (tr2 := set_stream tr1 empty_stream).
  assert (I2 : t_id tr2 = id) by (simpl; rewrite I; exact Hid).
  assert (F2 : find_track id (tracks (upd_track tl1 tr2)) = Some tr2).
  { simpl. rewrite <- I2. apply find_put_same. exists tr1. rewrite I2. exact F1. }
  assert (N2 : NoDup (map t_id (tracks (upd_track tl1 tr2)))) by (simpl; rewrite !put_ids; exact N).
  unfold finish_track. rewrite F2. unfold track_tick_b. replace (t_offs tr2) with (@nil noteoff) by (symmetry; exact O).
  cbn [andb]. set (tr3 := set_cur (set_finished tr2 true) (t_cur (set_finished tr2 true) + tau cfg)).
  assert (I3 : t_id tr3 = id) by exact I2.
  assert (F3 : find_track id (tracks (upd_track (upd_track tl1 tr2) tr3)) = Some tr3).
  { simpl. rewrite <- I3. apply find_put_same. exists tr2. rewrite I3. exact F2. }
  change (t_finished tr3) with true. change (t_rwd tr3) with (t_rwd tr1). cbn [andb].
  destruct (t_rwd tr1).
  - assert (N3 : NoDup (map t_id (tracks (upd_track (upd_track tl1 tr2) tr3)))) by (simpl; rewrite !put_ids; exact N).
    exact (proj1 (remove_track_spec _ id tr3 F3 N3)).
  - exists tr3. split; [exact F3|]. split; reflexivity.
Qed.

(* an exhausted stream never yields an event again *)
Lemma empty_stream_stops tr : t_stream tr = empty_stream -> fst (get_next_event tr) = GStop.
Proof. intros E. unfold get_next_event. destruct (count_exhausted tr); [reflexivity|]. rewrite E. reflexivity. Qed.

(** * Locality: a turn touches only its own track (callbacks without operations) *)
Lemma remove_other tl id id' : id' <> id -> find_track id' (tracks (remove_track tl id)) = find_track id' (tracks tl).
Proof.
  intros Hne. unfold remove_track. destruct (find_track id (tracks tl)); [|reflexivity]. simpl. apply find_del_other. exact Hne.
Qed.

Lemma finish_other cfg tl id st id' : id' <> id ->
  find_track id' (tracks (finish_track cfg tl id st)) = find_track id' (tracks tl).
Proof.
  intros Hne. unfold finish_track. destruct (find_track id (tracks tl)) as [tr|] eqn:F; [|reflexivity].
  pose proof (find_track_id _ _ _ F) as Hid.
  assert (P : find_track id' (tracks (upd_track tl (track_tick_b cfg tr st))) = find_track id' (tracks tl)).
  { simpl. apply find_put_other. rewrite tick_b_id, Hid. exact Hne. }
  destruct (_ && _); [|exact P]. rewrite remove_other by exact Hne. exact P.
Qed.

Theorem turn_is_local cfg tl id id' : cb_noops cfg = true -> id' <> id ->
  find_track id' (tracks (fst (fst (tick_one cfg tl id)))) = find_track id' (tracks tl).
Proof.
  intros Hcb Hne. pose proof (cb_noops_nth cfg Hcb) as Hc. unfold tick_one.
  destruct (find_track id (tracks tl)) as [tr|] eqn:F; [|reflexivity].
  pose proof (tick_a_id cfg (now tl) tr (dev_calls tl)) as I. pose proof (find_track_id _ _ _ F) as Hid.
  destruct (track_tick_a cfg (now tl) tr (dev_calls tl)) as [[[tr1 c] n1] res]. simpl in I.
  assert (P : find_track id' (tracks (set_dev (upd_track tl tr1) n1)) = find_track id' (tracks tl)).
  { simpl. apply find_put_other. rewrite I, Hid. exact Hne. }
  assert (R : find_track id' (tracks (remove_track (set_dev (upd_track tl tr1) n1) id)) = find_track id' (tracks tl)).
  { rewrite remove_other by exact Hne. exact P. }
  destruct res; simpl.
  - destruct (_ && _); [exact R|exact P].
  - rewrite finish_other by exact Hne. exact P.
  - rewrite finish_other by exact Hne. exact P.
  - destruct (ignore_exc cfg); simpl; [exact R|exact P].
  - specialize (Hc cb). destruct (nth cb (cbs cfg) (CbNone, [])) as [rk ops]. simpl in Hc. subst ops. cbn [exec_cb_ops cb_completes fst].
    rewrite finish_other by exact Hne. destruct rk; try exact P.
    unfold end_stream. destruct (find_track id (tracks (set_dev (upd_track tl tr1) n1))) as [t|] eqn:F1; [|exact P].
    pose proof (find_track_id _ _ _ F1) as Hid1.
    transitivity (find_track id' (tracks (set_dev (upd_track tl tr1) n1))); [|exact P].
    apply find_put_other. simpl. rewrite Hid1. exact Hne.
  - exact P.
Qed.

(** * In tolerant mode, without stop-when-done, only running out of fuel can stop a tick from completing *)
Fixpoint no_fuel_out (cfg : config) (tl : timeline) (ops : list op) : bool :=
  match ops with
  | [] => true
  | o :: r => let '(tl', _, res) := step cfg tl o in
              (match o, res with OTick, ROutOfFuel => false | _, _ => true end) && no_fuel_out cfg tl' r
  end.
Lemma tolerant_all_ok cfg ops : ignore_exc cfg = true -> stop_when_done cfg = false ->
  forall tl, no_fuel_out cfg tl ops = true -> all_ticks_ok cfg tl ops = true.
Proof.
  intros T W. induction ops as [|o r IH]; intros tl H; [reflexivity|]. cbn [no_fuel_out all_ticks_ok] in *.
  destruct o; try (destruct (step cfg tl _) as [[tl' c] res]; apply andb_true_iff in H as [_ H2]; rewrite (IH _ H2); reflexivity).
  cbn [step] in *. pose proof (tl_tick_tolerant_outcomes cfg T tl) as O. cbv zeta in O.
  destruct (tl_tick cfg tl) as [[tl' c] res]. simpl in O. apply andb_true_iff in H as [H1 H2]. rewrite (IH _ H2).
  destruct O as [O|[[O X]|O]]; rewrite O in *; [reflexivity|congruence|discriminate].
Qed.

(* two joint histories with the same solo history for track i make the same calls for it *)
Corollary same_solo_same_calls i pc pb cfg h h' :
  uncoupled cfg = true -> hist_wf i pc pb 0 h = true -> hist_wf i pc pb 0 h' = true ->
  all_ticks_ok cfg tl0 h = true -> all_ticks_ok cfg tl0 h' = true -> solo i 0 h = solo i 0 h' ->
  map (filter (call_ok pc pb)) (tick_calls cfg tl0 h) = map (filter (call_ok pc pb)) (tick_calls cfg tl0 h').
Proof.
  intros U W W' A A' E.
  destruct (merge_from_empty i pc pb cfg h U W A) as [M _]. destruct (merge_from_empty i pc pb cfg h' U W' A') as [M' _].
  rewrite <- M, <- M', E. reflexivity.
Qed.

(* Sched/RunLoopProofs.v — C17 for run() and for a timeline object used for several runs (Sched/RunLoop.v):
   what run() does with what tick() raises depends on the switch in force and on nothing else; containment and propagation hold
   for a run started from ANY state an earlier life of the object may have left. *)
From Isobar Require Import Base.Prelude Sched.Model Sched.Obs Sched.NoteOffProofs Sched.TimeProofs Sched.TickFrame Sched.MergeProofs
  Sched.FaultProofs Sched.ReachProofs Sched.RunLoop.

(** * run() *)
Lemma run_loop_end cfg b : forall tl,
  snd (run_loop cfg b tl) = match first_stop cfg b tl with Some r => run_decision (ignore_exc cfg) r | None => RunBudget end.
Proof.
  induction b as [|b IH]; intros tl; [reflexivity|]. cbn [run_loop first_stop].
  destruct (tl_tick cfg tl) as [[tl' c] res]. destruct res; try reflexivity.
  specialize (IH tl'). destruct (run_loop cfg b tl') as [[tl'' cs] e]. exact IH.
Qed.

Lemma first_stop_not_ok cfg b : forall tl, first_stop cfg b tl <> Some ROk.
Proof.
  induction b as [|b IH]; intros tl; [discriminate|]. cbn [first_stop].
  destruct (tl_tick cfg tl) as [[tl' c] res]. destruct res; try discriminate. apply IH.
Qed.

(* tolerance enabled: whatever state the run starts from, no tick of it returns an exception, so run() neither raises nor has
   anything to swallow: it ends when the tracks are done (the model's bounds aside) *)
Theorem run_loop_contained cfg b tl : ignore_exc cfg = true ->
  first_stop cfg b tl <> Some RException
  /\ (let e := snd (run_loop cfg b tl) in e = RunReturned \/ e = RunBudget \/ e = RunOutOfFuel).
Proof.
  intros H.
  assert (N : forall b tl, first_stop cfg b tl <> Some RException).
  { clear b tl. induction b as [|b IH]; intros tl; [discriminate|]. cbn [first_stop].
    pose proof (tl_tick_tolerant cfg H tl) as T. destruct (tl_tick cfg tl) as [[tl' c] res]. simpl in T.
    destruct res; try discriminate; [apply IH|]. exfalso. apply T. reflexivity. }
  split; [apply N|]. cbv zeta. rewrite run_loop_end. specialize (N b tl). pose proof (first_stop_not_ok cfg b tl) as K.
  destruct (first_stop cfg b tl) as [[| | | | |]|]; cbn [run_decision]; auto; contradiction.
Qed.

(* tolerance disabled: run() raises to its caller exactly when a tick of the run returns an exception *)
Theorem run_loop_propagates cfg b tl : ignore_exc cfg = false ->
  (snd (run_loop cfg b tl) = RunRaised <-> first_stop cfg b tl = Some RException).
Proof.
  intros H. rewrite run_loop_end, H. pose proof (first_stop_not_ok cfg b tl) as K.
  destruct (first_stop cfg b tl) as [[| | | | |]|]; cbn [run_decision]; split; intros E; try discriminate; try reflexivity; contradiction.
Qed.
(* and never swallows it *)
Theorem run_loop_never_swallows cfg b tl : ignore_exc cfg = false -> snd (run_loop cfg b tl) <> RunSwallowed.
Proof.
  intros H. rewrite run_loop_end, H. destruct (first_stop cfg b tl) as [[| | | | |]|]; cbn [run_decision]; discriminate.
Qed.

(* the run whose first tick already faults *)
Theorem run_loop_first_tick cfg b tl : ignore_exc cfg = false -> snd (tl_tick cfg tl) = RException ->
  run_loop cfg (S b) tl = (fst (fst (tl_tick cfg tl)), [snd (fst (tl_tick cfg tl))], RunRaised).
Proof.
  intros H E. cbn [run_loop]. destruct (tl_tick cfg tl) as [[tl' c] res]. simpl in E. subst res. cbn [run_decision]. rewrite H. reflexivity.
Qed.

(* the clock after a run that ended (not by the model's budget): one tick per completed tick *)
Theorem run_loop_now cfg b : forall tl,
  let '(tl', cs, e) := run_loop cfg b tl in
  e <> RunBudget -> now tl' = now tl + (Z.of_nat (length cs) - 1) * tau cfg.
Proof.
  induction b as [|b IH]; intros tl; cbn [run_loop]; [intros K; contradiction|].
  pose proof (tl_tick_now cfg tl) as T. destruct (tl_tick cfg tl) as [[tl' c] res].
  destruct res; try (intros _; cbn [length]; rewrite T; lia).
  specialize (IH tl'). destruct (run_loop cfg b tl') as [[tl'' cs] e]. intros K. rewrite (IH K), T. cbn [length]. lia.
Qed.

(** * The life of a timeline object *)
Lemma life_state_app cfg l1 : forall tl l2, life_state cfg tl (l1 ++ l2) = life_state cfg (life_state cfg tl l1) l2.
Proof. induction l1 as [|o r IH]; intros tl l2; [reflexivity|]. cbn [app life_state]. apply IH. Qed.
Lemma life_app cfg l1 : forall tl l2, life cfg tl (l1 ++ l2) = life cfg tl l1 ++ life cfg (life_state cfg tl l1) l2.
Proof.
  induction l1 as [|o r IH]; intros tl l2; [reflexivity|]. cbn [app life life_state].
  destruct (lstep cfg tl o) as [tl' ob]. cbn [fst]. rewrite IH. reflexivity.
Qed.

(* a run made at the end of any life is run() from the state that life left - nothing else of the past enters *)
Theorem life_later_run cfg l b tl :
  life cfg tl (l ++ [LRun b]) =
    life cfg tl l ++ [ORun (snd (fst (run_loop cfg b (life_state cfg tl l)))) (snd (run_loop cfg b (life_state cfg tl l)))].
Proof.
  rewrite life_app. cbn [life lstep]. destruct (run_loop cfg b (life_state cfg tl l)) as [[tl' cs] e]. reflexivity.
Qed.

(* whether earlier runs were made in the foreground or on a background thread makes no difference to anything later *)
Theorem life_background_is_foreground cfg l : forall tl,
  life cfg tl (map in_foreground l) = life cfg tl l /\ life_state cfg tl (map in_foreground l) = life_state cfg tl l.
Proof.
  induction l as [|o r IH]; intros tl; [split; reflexivity|]. cbn [map life life_state].
  assert (E : lstep cfg tl (in_foreground o) = lstep cfg tl o) by (destruct o; reflexivity). rewrite E.
  destruct (lstep cfg tl o) as [tl' ob]. cbn [fst]. destruct (IH tl') as [I1 I2]. rewrite I1, I2. split; reflexivity.
Qed.

(** ** the states of a life keep track ids distinct: the per-turn theorems apply in every later run *)
Inductive lreachable (cfg : config) : timeline -> Prop :=
| LR_init : lreachable cfg tl0
| LR_step tl o : lreachable cfg tl -> lreachable cfg (fst (lstep cfg tl o))        (* after any letter of the life *)
| LR_tick tl : lreachable cfg tl -> lreachable cfg (fst (fst (tl_tick cfg tl)))    (* between two ticks of a run *)
| LR_pre tl : lreachable cfg tl -> lreachable cfg (tick_pre tl)                    (* inside a tick, before the first turn *)
| LR_turn tl id : lreachable cfg tl -> lreachable cfg (fst (fst (tick_one cfg tl id))).

Lemma run_loop_wf cfg b : forall tl, wf tl -> wf (fst (fst (run_loop cfg b tl))).
Proof.
  induction b as [|b IH]; intros tl W; [exact W|]. cbn [run_loop].
  pose proof (tl_tick_wf cfg tl W) as W1. destruct (tl_tick cfg tl) as [[tl' c] res]. cbn [fst] in W1.
  destruct res; try exact W1. specialize (IH tl' W1). destruct (run_loop cfg b tl') as [[tl'' cs] e]. exact IH.
Qed.
Lemma tl_reset_wf tl : wf tl -> wf (tl_reset tl).
Proof.
  apply wf_same; [|simpl; lia]. cbn [tl_reset tracks]. rewrite map_map. reflexivity.
Qed.
Lemma lstep_wf cfg tl o : wf tl -> wf (fst (lstep cfg tl o)).
Proof.
  intros W. destruct o as [o|b|b| |]; cbn [lstep].
  - pose proof (step_wf cfg tl o W) as S. destruct (step cfg tl o) as [[tl' c] r]. exact S.
  - pose proof (run_loop_wf cfg b tl W) as R. destruct (run_loop cfg b tl) as [[tl' cs] e]. exact R.
  - pose proof (run_loop_wf cfg b tl W) as R. destruct (run_loop cfg b tl) as [[tl' cs] e]. exact R.
  - exact W.
  - apply tl_reset_wf. exact W.
Qed.
Theorem lreachable_wf cfg tl : lreachable cfg tl -> wf tl.
Proof.
  induction 1 as [|tl o R IH|tl R IH|tl R IH|tl id R IH];
    [exact wf_tl0|apply lstep_wf|apply tl_tick_wf|apply tick_pre_wf|apply tick_one_wf]; exact IH.
Qed.
Lemma lreachable_life cfg l : forall tl, lreachable cfg tl -> lreachable cfg (life_state cfg tl l).
Proof. induction l as [|o r IH]; intros tl R; [exact R|]. cbn [life_state]. apply IH. apply LR_step. exact R. Qed.
Theorem life_reachable cfg l : lreachable cfg (life_state cfg tl0 l).
Proof. apply lreachable_life. constructor. Qed.

(* tolerance enabled, any state of any life: the turn of a track that faults removes that track only *)
Theorem life_fault_removed cfg tl id tr tr1 c n1 : lreachable cfg tl -> ignore_exc cfg = true ->
  find_track id (tracks tl) = Some tr ->
  track_tick_a cfg (now tl) tr (dev_calls tl) = (tr1, c, n1, TRaise) ->
  let '(tl', c', ab) := tick_one cfg tl id in
  ab = None /\ c' = c
  /\ find_track id (tracks tl') = None
  /\ (forall id', id' <> id -> find_track id' (tracks tl') = find_track id' (tracks tl))
  /\ actions tl' = actions tl ++ release_actions tr1
  /\ now tl' = now tl.
Proof. intros R H F. exact (fault_turn cfg H tl id tr tr1 c n1 F (proj1 (lreachable_wf cfg tl R))). Qed.

(* tolerance disabled, a run started from the state ANY earlier life left: if the loop over the tracks of its first tick is
   aborted by a fault, run() raises to its caller (after however many runs, in whichever mode they were made) *)
Theorem life_later_run_raises cfg l b : ignore_exc cfg = false ->
  let tl := life_state cfg tl0 l in
  snd (phase_tracks cfg (tick_pre tl) (map t_id (tracks (tick_pre tl))) []) = RException ->
  snd (run_loop cfg (S b) tl) = RunRaised.
Proof.
  intros H tl E. rewrite (run_loop_first_tick cfg b tl H); [reflexivity|].
  pose proof (tl_tick_exception cfg tl) as T. unfold tick_pre in E.
  destruct (phase_noteoffs (tracks tl)) as [trs1 c1].
  change (actions (set_tracks tl trs1)) with (actions tl) in E.
  destruct (phase_actions (set_actions (set_tracks tl trs1) []) (actions tl) [] []) as [[tl2 kept] c3]. exact (T E).
Qed.

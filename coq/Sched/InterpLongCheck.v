(* Sched/InterpLongCheck.v — helpers of the C15 correspondence check for segments longer than any internal limit of the library:
   the model is read at chosen ticks through the pointwise closed form [spec_at] (Sched/InterpAt.v), cos(pi x) comes from a
   SPARSE table (only the arguments of the chosen ticks).  Not part of the model, not used by any theorem. *)
From Isobar Require Import Base.Prelude Sched.Interp Sched.InterpProofs Sched.InterpAt Sched.InterpCheck.
From Coq Require Import QArith String Uint63.
Local Open Scope Z_scope.

Definition cos_sparse := list (Z * Z * Q).
Definition cospi_sp (tab : cos_sparse) (x : Q) : Q :=
  let r := Qred x in
  match find (fun e => (fst (fst e) =? Qnum r) && (snd (fst e) =? Z.pos (Qden r))) tab with
  | Some e => snd e
  | None => 2%Q
  end.
Definition centry (n d : Z) (m k : int) : Z * Z * Q := (n, d, dq m k).

Definition out_obs (k : Z) (o : outcome) : option obs :=
  match o with
  | OCall c v h => Some (k, 0, c, v, h)
  | ONone => None
  | OInvalid => Some (k, 1, VOpq 0, VOpq 0, VOpq 0)
  | OErr => Some (k, 2, VOpq 0, VOpq 0, VOpq 0)
  end.
Definition obs_tick (o : obs) : Z := match o with (k, _, _, _, _) => k end.

(* t0: the tick of the track's first message; samples: calls of the implementation (absolute ticks); silent: absolute ticks
   on which the implementation made no call; n_calls: how many calls it made in all *)
Definition long_ok (exact : bool) (cospi : Q -> Q) (tpb : Z) (mode : imode) (events : list event) (t0 n_calls : Z)
           (samples : list obs) (silent : list Z) : bool :=
  (n_calls =? 1 + span tpb events)
  && forallb (fun s => match out_obs (obs_tick s) (spec_at cospi tpb mode events (obs_tick s - t0)) with
                       | Some m => obs_ok exact m s
                       | None => false
                       end) samples
  && forallb (fun k => match spec_at cospi tpb mode events (k - t0) with ONone => true | _ => false end) silent.

Definition long_diff (cospi : Q -> Q) (tpb : Z) (mode : imode) (events : list event) (t0 : Z) (samples : list obs) :=
  map (fun s => (s, out_obs (obs_tick s) (spec_at cospi tpb mode events (obs_tick s - t0)))) samples.

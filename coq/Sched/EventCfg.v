(* Sched/EventCfg.v — extension of Sched/Event.v: one track on a timeline whose defaults object is re-configured
   while the track is running.

   Sched/Event.v's [run_track] takes the stream as (defaults, dictionary) pairs fixed up front.  Here the stream is
   the list of dictionaries alone and the timeline's EventDefaults object is part of the STATE:
     - Track.get_next_event (track.py) builds Event(event_values, self.timeline.defaults, track=self): every dictionary
       is resolved - validated, folded, completed, classified - against the defaults object as it is at that moment;
     - Event.__init__'s "for key, value in defaults.__dict__.items(): event_values.setdefault(key, Pattern.value(value))"
       pulls one value from every pattern-valued default per event ([pull_defaults]);
     - "timeline.defaults.<name> = v" (EventDefaults.__setattr__, event.py) executed by the user between two ticks
       replaces the attribute ([assign]); the list [changes] says after which tick each assignment happens.
   No proofs here (Sched/EventCfgProofs.v). *)
From Isobar Require Import Base.Prelude Tonal.Key Generated.Tables Generated.TablesC03 Sched.Event.
From Coq Require Import String Ascii QArith.
Local Open Scope Z_scope.
Local Notation length := List.length (only parsing).

(* timeline.defaults.k = v for each (k, v), in order *)
Definition assign (defs : dict) (kvs : list (string * val)) : dict :=
  fold_left (fun d kv => dset d (fst kv) (snd kv)) kvs defs.

(* (t, kvs): the assignments kvs are performed after tick t and before tick t + 1 (t = -1: after schedule(), before
   the first tick) *)
Definition changes := list (Z * list (string * val)).
Definition apply_changes (ch : changes) (t : Z) (defs : dict) : dict :=
  fold_left (fun d c => if fst c =? t then assign d (snd c) else d) ch defs.

(* one Pattern.value per default and event: a pattern-valued default moves on by one value.  Only flat patterns are
   modelled (a pattern nested in a pattern or in a tuple would carry state of its own): [flat_defaults] *)
Fixpoint has_pat (v : val) : bool :=
  match v with
  | VPat _ => true
  | VTup l | VList l => existsb has_pat l
  | _ => false
  end.
Definition flat_default (v : val) : bool :=
  match v with VPat l => negb (existsb has_pat l) | _ => negb (has_pat v) end.
Definition flat_defaults (defs : dict) : bool := forallb (fun kv => flat_default (snd kv)) defs.
Definition pull_default (v : val) : val := match v with VPat (_ :: r) => VPat r | _ => v end.
Definition pull_defaults (defs : dict) : dict := map (fun kv => (fst kv, pull_default (snd kv))) defs.

Record cstate := mkC { c_next : Q; c_pend : list (Q * val * val); c_stream : list dict; c_defs : dict }.

(* the while loop of Track.tick (cf. Event.fetch): each dictionary is resolved against the CURRENT defaults *)
Fixpoint cfetch (fuel : nat) (now : Q) (st : cstate) (cur : option event) : outcome (option event * cstate) :=
  match fuel with
  | O => Unmodelled
  | S f =>
      if Qle_bool (c_next st) now then
        match c_stream st with
        | [] => Ok (None, st)
        | d :: rest =>
            match resolve (c_defs st) d with
            | Ok e => if negb (flat_defaults (c_defs st)) then Unmodelled else
                      do dur <- py_float (e_duration e);
                      cfetch f now (mkC (Qred (c_next st + dur)) (c_pend st) rest (pull_defaults (c_defs st))) (Some e)
            | Raise c => if String.eqb c StopIteration then Unmodelled else Raise c
            | Unmodelled => Unmodelled
            end
        end
      else Ok (cur, st)
  end.

(* cf. Event.play; the assignments due after tick t - 1 are performed first *)
Fixpoint cplay (N : positive) (muted : bool) (ch : changes) (nticks : nat) (t : Z) (st : cstate) : trace * outcome unit :=
  match nticks with
  | O => ([], Ok tt)
  | S n =>
      let now := t # N in
      let defs := apply_changes ch (t - 1) (c_defs st) in
      let due := filter (fun p => Qle_bool (fst (fst p)) now) (c_pend st) in
      let keep := filter (fun p => negb (Qle_bool (fst (fst p)) now)) (c_pend st) in
      let offs := map (fun p => Call "note_off" [snd (fst p); snd p]) due in
      let st := mkC (c_next st) keep (c_stream st) defs in
      match cfetch (S (length (c_stream st))) now st None with
      | Ok (None, st') =>
          let '(tr, o) := cplay N muted ch n (t + 1) st' in (tag t offs ++ tr, o)
      | Ok (Some e, st') =>
          let p := dispatch muted e in
          match all_ok (map (fun x => do len <- py_float (fst (fst x)); Ok (Qred (now + len), snd (fst x), snd x)) (p_offs p)) with
          | Ok pend' =>
              match p_end p with
              | Ok _ =>
                  let '(tr, o) := cplay N muted ch n (t + 1) (mkC (c_next st') (c_pend st' ++ pend') (c_stream st') (c_defs st')) in
                  (tag t (offs ++ p_calls p) ++ tr, o)
              | Raise c => (tag t (offs ++ p_calls p), Raise c)
              | Unmodelled => (tag t offs, Unmodelled)
              end
          | _ => (tag t offs, Unmodelled)
          end
      | Raise c => (tag t offs, Raise c)
      | Unmodelled => (tag t offs, Unmodelled)
      end
  end.

(* a track scheduled at time 0 on a timeline whose defaults are defs0 at schedule() time *)
Definition run_cfg (N : positive) (muted : bool) (nticks : nat) (defs0 : dict) (ch : changes) (ds : list dict)
  : trace * outcome unit :=
  cplay N muted ch nticks 0 (mkC 0 [] ds defs0).

(* the (defaults, dictionary) pairs of Event.run_track when nothing is re-assigned *)
Fixpoint pair_up (defs : dict) (ds : list dict) : list (dict * dict) :=
  match ds with
  | [] => []
  | d :: r => (defs, d) :: pair_up (pull_defaults defs) r
  end.

Definition cfg_agrees (N : positive) (muted : bool) (nticks : nat) (defs0 : dict) (ch : changes) (ds : list dict)
                      (exp_exn : option string) (exp : trace) : option bool :=
  match run_cfg N muted nticks defs0 ch ds, exp_exn with
  | (_, Unmodelled), _ => None
  | (tr, Raise c), Some c' => Some (String.eqb c c' && trace_eqb tr exp)
  | (tr, Ok _), None => Some (trace_eqb tr exp)
  | _, _ => Some false
  end.

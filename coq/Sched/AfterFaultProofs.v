(* Sched/AfterFaultProofs.v — C17: what happens AFTER a contained fault.  The failing track has left [tracks]; operations that
   refer to it later find no such track: a schedule() under its name creates a FRESH track (Sched/Model.v's named replace looks
   names up in [tracks] - there is no other table of names), exactly the track the same call creates in a run in which the
   failing track never existed; unschedule() of the removed track reports that it is not scheduled; the track limit counts the
   tracks that are left. *)
From Isobar Require Import Base.Prelude Sched.Model Sched.NoteOffProofs Sched.TimeProofs Sched.TickFrame Sched.MergeProofs Sched.FaultProofs Sched.ReachProofs.

(* no track of the list bears the name *)
Definition name_free (nm : Z) (l : list track) : Prop := find_named nm l = None.
(* the track [id] is the only one of the list that bears the name *)
Definition only_named (nm : Z) (id : nat) (l : list track) : Prop :=
  forall t, In t l -> t_name t = Some nm -> t_id t = id.

Lemma find_named_none nm l : (forall t, In t l -> t_name t <> Some nm) -> find_named nm l = None.
Proof.
  induction l as [|x r IH]; intros H; [reflexivity|]. cbn [find_named].
  destruct (t_name x) as [n|] eqn:E.
  - destruct (n =? nm) eqn:En; [exfalso; apply (H x (or_introl eq_refl)); rewrite E; f_equal; lia|].
    apply IH. intros t Ht. apply H. right. exact Ht.
  - apply IH. intros t Ht. apply H. right. exact Ht.
Qed.

Lemma in_del id l t : In t (del_track id l) -> In t l.
Proof. apply del_incl. Qed.

Lemma del_not_id id l : NoDup (map t_id l) -> forall t, In t (del_track id l) -> t_id t <> id.
Proof.
  induction l as [|x r IH]; intros N t Ht; [contradiction|]. cbn [del_track] in Ht. inversion N as [|a b N1 N2]; subst.
  destruct (t_id x =? id)%nat eqn:E.
  - apply Nat.eqb_eq in E. subst id. intros Ex. apply N1. rewrite <- Ex. apply in_map. exact Ht.
  - destruct Ht as [<-|Ht]; [apply Nat.eqb_neq; exact E|apply IH; assumption].
Qed.

(* removing the only bearer of a name frees the name *)
Lemma remove_frees_name tl id nm : NoDup (map t_id (tracks tl)) -> only_named nm id (tracks tl) ->
  name_free nm (tracks (remove_track tl id)).
Proof.
  intros N O. unfold name_free. rewrite remove_track_tracks. apply find_named_none. intros t Ht E.
  apply (del_not_id id _ N t Ht). apply O; [apply (in_del id); exact Ht|exact E].
Qed.

Lemma put_preserves_names t' l nm id : t_id t' = id -> only_named nm id l -> only_named nm id (put_track t' l).
Proof.
  intros Hid O. induction l as [|x r IH]; [exact O|]. cbn [put_track].
  destruct (t_id x =? t_id t')%nat eqn:E.
  - intros t [<-|Ht] En; [exact Hid|apply O; [right; exact Ht|exact En]].
  - intros t [<-|Ht] En; [apply O; [left; reflexivity|exact En]|].
    apply IH; [|exact Ht|exact En]. intros t0 H0. apply O. right. exact H0.
Qed.

Section AfterFault.
  Variable cfg : config.
  Hypothesis Htol : ignore_exc cfg = true.

  (* the tolerant faulting turn of the only track called nm leaves the name free *)
  Theorem fault_frees_name tl id tr tr1 c n1 nm :
    find_track id (tracks tl) = Some tr -> NoDup (map t_id (tracks tl)) -> only_named nm id (tracks tl) ->
    track_tick_a cfg (now tl) tr (dev_calls tl) = (tr1, c, n1, TRaise) ->
    name_free nm (tracks (fst (fst (tick_one cfg tl id)))).
  Proof.
    intros F N O A. unfold tick_one. rewrite F, A, Htol. cbn [fst].
    pose proof (tick_a_id cfg (now tl) tr (dev_calls tl)) as I. rewrite A in I. simpl in I.
    pose proof (find_track_id _ _ _ F) as Hid.
    apply remove_frees_name.
    - simpl. rewrite put_track_ids. exact N.
    - simpl. apply put_preserves_names; [rewrite I; exact Hid|exact O].
  Qed.
End AfterFault.

(* a schedule() under a free name - replace or not - creates a fresh track: it is the unnamed-lookup branch of schedule() *)
Theorem schedule_under_free_name cfg tl s q d count rwd nm replace : name_free nm (tracks tl) ->
  exec_op cfg tl (OSchedule s q d count rwd (Some nm) replace) = exec_op cfg tl (OSchedule s q d count rwd (Some nm) false).
Proof. intros H. unfold name_free in H. cbn [exec_op]. rewrite H. destruct replace; reflexivity. Qed.

(* ... appended behind the tracks that are left, with the next fresh id; the limit counts the tracks that are left *)
Theorem schedule_creates_fresh cfg tl s q d count rwd nm :
  (max_tracks cfg = 0 \/ Z.of_nat (length (tracks tl)) < max_tracks cfg) ->
  let '(tl1, tr1) := track_update cfg tl (new_track (next_id tl) count rwd (Some nm)) s q d None in
  exec_op cfg tl (OSchedule s q d count rwd (Some nm) false) =
    (mkTL (now tl1) (tracks tl1 ++ [tr1]) (actions tl1) (S (next_id tl1)) (def_q tl1) (def_d tl1) (dev_calls tl1), ROk).
Proof.
  intros L. cbn [exec_op].
  replace (negb (max_tracks cfg =? 0) && (max_tracks cfg <=? Z.of_nat (length (tracks tl)))) with false by (destruct L; lia).
  destruct (track_update cfg tl (new_track (next_id tl) count rwd (Some nm)) s q d None) as [tl1 tr1]. reflexivity.
Qed.

(* the new track's record does not depend on which tracks are or were scheduled, only on the clock and the defaults: it is the
   record the same call creates in the run in which the failing track never existed (up to the id, the model's name for the
   object) *)
Theorem fresh_track_same_record cfg tlA tlB idA idB s q d count rwd nm :
  now tlA = now tlB -> def_q tlA = def_q tlB -> def_d tlA = def_d tlB ->
  let trA := snd (track_update cfg tlA (new_track idA count rwd (Some nm)) s q d None) in
  let trB := snd (track_update cfg tlB (new_track idB count rwd (Some nm)) s q d None) in
  trA = mkTrack idA (t_stream trB) (t_cur trB) (t_next trB) (t_max trB) (t_count trB) (t_offs trB)
                (t_muted trB) (t_started trB) (t_finished trB) (t_rwd trB) (t_name trB).
Proof.
  intros Hn Hq Hd. unfold track_update. rewrite Hq, Hd.
  destruct ((_ =? 0) && (_ =? 0)); reflexivity.
Qed.

(* unschedule() of a track that has left reports that it is not scheduled, and changes nothing *)
Theorem unschedule_removed cfg tl id : find_track id (tracks tl) = None -> exec_op cfg tl (OUnschedule id) = (tl, RTrackNotFound).
Proof. intros H. cbn [exec_op]. rewrite H. reflexivity. Qed.

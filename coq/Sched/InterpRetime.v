(* Sched/InterpRetime.v — interpolated control tracks on a timeline whose resolution is re-configured after the
   track was scheduled (before its first tick, between two segments, in the middle of a segment):

       timeline.ticks_per_beat = n            (Timeline.set_ticks_per_beat hands n to the clock source)
       timeline.clock_source = <a clock with another ticks_per_beat>
       timeline.clock_source.ticks_per_beat = n

   all change what the property Timeline.ticks_per_beat returns from then on.  The interpolating branch of
   Track.tick reads  self.timeline.ticks_per_beat  afresh, and only in the `except StopIteration:` arm, i.e. on
   the tick on which a segment is planned:
       while int(round(self.current_event.duration * self.timeline.ticks_per_beat, 8)) <= 0: ...
       duration_ticks = int(round(duration * self.timeline.ticks_per_beat, 8))
   The number of steps then lives in the PInterpolate objects of interpolating_event; a segment that is under way
   never looks at the resolution again.  (The third read, at the end of Track.tick, only moves Track.current_time,
   which the interpolating branch does not use.)

   The existing step function [tick cospi tpb mode maxc] (Sched/Interp.v) already takes the resolution as an
   argument of every single tick, and the planned step count is part of the state ([t_ie]).  A history in which the
   resolution changes is therefore a run in which that argument is carried in the state and replaced by the
   operation [RTpb n] ([rt_trace]); equivalently a run in which tick k is made at the resolution [R k] ([runv]).
   The track state is carried over unchanged.  No proofs in this file. *)
From Isobar Require Import Base.Prelude Sched.Interp.
From Coq Require Import QArith Qround Qabs String.
Local Notation length := List.length (only parsing).
Local Open Scope Z_scope.

(** * Histories: ticks and changes of the resolution *)
Inductive rt_op :=
| RTick                    (* one tick of the track *)
| RTpb (n : Z).            (* timeline.ticks_per_beat = n / a clock source with resolution n, between two ticks *)

(* state: the resolution in force and the track *)
Definition rt_step (cospi : Q -> Q) (mode : imode) (maxc : option Z) (st : Z * tstate) (o : rt_op)
  : option outcome * (Z * tstate) :=
  match o with
  | RTick => let (out, t') := tick cospi (fst st) mode maxc (snd st) in (Some out, (fst st, t'))
  | RTpb n => (None, (n, snd st))
  end.

(* what the track does on the ticks of a history (one outcome per RTick) *)
Fixpoint rt_trace (cospi : Q -> Q) (mode : imode) (maxc : option Z) (st : Z * tstate) (ops : list rt_op)
  : list outcome :=
  match ops with
  | [] => []
  | o :: r => match rt_step cospi mode maxc st o with
              | (Some out, st') => out :: rt_trace cospi mode maxc st' r
              | (None, st') => rt_trace cospi mode maxc st' r
              end
  end.

(* the number of ticks of a history, and the resolution in force on its k-th tick (k = 0, 1, ...; after the
   last tick: the resolution set last) *)
Fixpoint rt_ticks (ops : list rt_op) : nat :=
  match ops with
  | [] => 0%nat
  | RTick :: r => S (rt_ticks r)
  | RTpb _ :: r => rt_ticks r
  end.
Fixpoint rt_res (tpb : Z) (ops : list rt_op) (k : nat) : Z :=
  match ops with
  | [] => tpb
  | RTpb n :: r => rt_res n r k
  | RTick :: r => match k with O => tpb | S k' => rt_res tpb r k' end
  end.

(* the same run, the resolution given tick by tick: ticks t, t+1, ..., t+n-1 of a track in state st, tick k made
   at the resolution R k *)
Fixpoint runv (cospi : Q -> Q) (R : nat -> Z) (mode : imode) (maxc : option Z) (t n : nat) (st : tstate)
  : list outcome :=
  match n with
  | O => []
  | S k => let (o, st') := tick cospi (R t) mode maxc st in o :: runv cospi R mode maxc (S t) k st'
  end.

(** * The plan: on which tick each segment is planned, and with how many steps *)

Definition set_dur (e : event) (D : Z) : event := mkEvent (e_ctl e) (inject_Z D) (e_fields e).
Definition b2n (b : bool) : nat := if b then 1%nat else 0%nat.

(* [vplan R t first pre]: the track is about to plan a segment on tick t (first = it has sent nothing yet) and
   the points pre lie ahead; result: the tick on which the segment after pre is planned, and whether the track
   still has sent nothing then.  A point of D >= 1 steps planned on tick t: if the track has sent nothing yet, tick t
   carries the point's own value and the ticks t+1 .. t+D the D steps; otherwise the point's value went out on tick
   t-1 and the ticks t .. t+D-1 carry the steps.  Either way the next segment is planned on the tick after the last
   step.  A point whose duration rounds to 0 ticks at the resolution in force on the planning tick is skipped on
   that same tick. *)
Fixpoint vplan (R : nat -> Z) (t : nat) (first : bool) (pre : list event) : nat * bool :=
  match pre with
  | [] => (t, first)
  | e :: r => let D := dur_steps (R t) (e_dur e) in
              if D <=? 0 then vplan R t first r
              else vplan R (t + b2n first + Z.to_nat D)%nat false r
  end.

(* the stream with every duration replaced by the number of steps planned for it (in ticks: a duration in beats
   at 1 tick per beat) *)
Fixpoint retime_g (R : nat -> Z) (t : nat) (first : bool) (l : list event) : list event :=
  match l with
  | [] => []
  | e :: r => let D := dur_steps (R t) (e_dur e) in
              set_dur e D :: (if D <=? 0 then retime_g R t first r
                              else retime_g R (t + b2n first + Z.to_nat D)%nat false r)
  end.
Definition retime (R : nat -> Z) (l : list event) : list event := retime_g R 0 true l.

(* the tick (counted from the track's first tick = 0) on which the segment that starts at the point after pre is
   planned: the resolution in force on THAT tick fixes its length *)
Definition plan_tick (R : nat -> Z) (pre : list event) : nat := fst (vplan R 0 true pre).

(** * The timeline around the track *)

(* Timeline.tick, last line (repaired code):
     self.current_time, self._tick_grid = advance_on_tick_grid(self.current_time, self.ticks_per_beat, self._tick_grid)
   isobar/util.py advance_on_tick_grid keeps the time at  origin + n / ticks_per_beat;  when the resolution differs
   from the one of the previous tick the origin is re-anchored at the time reached, so that in exact arithmetic
   EVERY tick advances the time by exactly 1 / (the resolution in force on that tick): after a change at the exact
   time t0 the time m ticks later is t0 + m / tpb2 (no rounding onto the new grid).  That the float computation
   stays within rounding error of this exact value is Base/FloatGrid.v, retick_run_exact.
   Qred keeps the representation small; it does not change the value. *)
Definition tl_next (tpb : Z) (now : Q) : Q := Qred (now + 1 / inject_Z tpb).

(* Timeline.current_time at the beginning of tick k (tick j < k made at the resolution R j) *)
Fixpoint tl_time (R : nat -> Z) (k : nat) : Q :=
  match k with
  | O => 0
  | S j => tl_next (R j) (tl_time R j)
  end.

(* the due test is the one of Sched/Interp.v: round(action.time - self.current_time, 8) <= 0 *)
Definition action_due_v (time now : Q) : bool := action_due time now.

Fixpoint find_start_v (fuel : nat) (R : nat -> Z) (time : Q) (k : nat) (now : Q) : option nat :=
  match fuel with
  | O => None
  | S f => if action_due_v time now then Some k
           else find_start_v f R time (S k) (tl_next (R k) now)
  end.

(* schedule() is called after s ticks; with quantize = delay = 0 the track is started inside schedule() itself *)
Definition start_tick_v (fuel : nat) (R : nat -> Z) (s : nat) (quantize delay : Q) : option nat :=
  if Qeq_bool quantize 0 && Qeq_bool delay 0 then Some s
  else find_start_v fuel R (sched_time (tl_time R s) quantize delay) s (tl_time R s).

(* per-tick outcomes of ticks 0 .. n-1 of a timeline on which the track is scheduled before tick s, tick k being
   made at the resolution R k *)
Definition timeline_runv (cospi : Q -> Q) (n : nat) (R : nat -> Z) (mode : imode) (maxc : option Z) (s : nat)
           (quantize delay : Q) (events : list event) : list outcome :=
  match start_tick_v (S n) R s quantize delay with
  | None => repeat ONone n
  | Some t0 =>
      let pre := Nat.min n t0 in
      repeat ONone pre ++ runv cospi R mode maxc pre (n - pre) (init events)
  end.

(* the resolution in force on tick k: tpb until the first change, each change (tick, n) (ascending ticks) made
   before that tick *)
Fixpoint res_of (tpb : Z) (changes : list (Z * Z)) (k : nat) : Z :=
  match changes with
  | [] => tpb
  | (t, n) :: r => if t <=? Z.of_nat k then res_of n r k else tpb
  end.

(* Sched/StaticMulti.v — the shared static objects of Sched/Static.v (PStaticPattern, PCurrentTime, Globals) used by
   tracks of SEVERAL Timeline objects of one process: one after the other (a first performance on timeline 0, then the
   same event dictionaries - the same pattern objects, with the state the first run left in them - scheduled on a fresh
   timeline 1) or alternately.

   isobar/pattern/core.py   Pattern.timeline: walks the call stack and returns the innermost frame whose `self` is a
                            Timeline - the timeline whose tick() is reading the pattern right now.  It is looked up
                            at EVERY read; nothing is remembered on the pattern.
   isobar/pattern/static.py PCurrentTime.__next__  = round(timeline.current_time, 5) of THAT timeline;
                            PStaticPattern.__next__ compares ITS current_time with the element span.

   A timeline is its resolution U (ticks per beat) and its position in ticks.  The state of the patterns is the one of
   Sched/Static.v: a [static] record, the globals; a PCurrentTime object has no state.  No proofs in this file. *)
From Isobar Require Import Base.Prelude Sched.Static.

Record mtl := mkMtl { m_U : Z; m_pos : Z }.        (* ticks per beat; position in ticks *)

Inductive mact :=
| MTick (k : nat)            (* timeline k ends a tick: its position advances by one tick *)
| MRead (k : nat)            (* a track (or callback) of timeline k reads the shared static pattern *)
| MTime (k : nat)            (* a track of timeline k reads a PCurrentTime object (whoever read it before) *)
| MGet (key d : Z)           (* PGlobals(key, d) is read (globals are process-wide: no timeline involved) *)
| MSet (key v : Z).          (* Globals.set(key, v) *)

Definition mtl0 (U : Z) : mtl := mkMtl U 0.
Definition nth_tl (k : nat) (tls : list mtl) : mtl := nth k tls (mkMtl 1 0).
Fixpoint tick_tl (k : nat) (tls : list mtl) : list mtl :=
  match tls, k with
  | [], _ => []
  | t :: r, O => mkMtl (m_U t) (m_pos t + 1) :: r
  | t :: r, S k' => t :: tick_tl k' r
  end.

(* round(timeline.current_time, 5) of timeline k, in 10^-5 beats *)
Definition pos5 (k : nat) (tls : list mtl) : Z := r5 (m_U (nth_tl k tls)) (m_pos (nth_tl k tls)).

Fixpoint run_multi (tls : list mtl) (s : static) (g : globals) (p : list mact) : list out :=
  match p with
  | [] => []
  | MTick k :: r => ONone :: run_multi (tick_tl k tls) s g r
  | MRead k :: r => let '(res, s') := static_read FUEL (pos5 k tls) s in
                    (match res with SVal v => OVal v | SStop => OStop | SOutOfFuel => OFuel end) :: run_multi tls s' g r
  | MTime k :: r => OVal (pos5 k tls) :: run_multi tls s g r
  | MGet key d :: r => OVal (gget key d g) :: run_multi tls s g r
  | MSet key v :: r => ONone :: run_multi tls s (gset key v g) r
  end.

(* the state of the static pattern after a program *)
Fixpoint static_after (tls : list mtl) (s : static) (p : list mact) : static :=
  match p with
  | [] => s
  | MTick k :: r => static_after (tick_tl k tls) s r
  | MRead k :: r => static_after tls (snd (static_read FUEL (pos5 k tls) s)) r
  | _ :: r => static_after tls s r
  end.
Fixpoint tls_after (tls : list mtl) (p : list mact) : list mtl :=
  match p with
  | [] => tls
  | MTick k :: r => tls_after (tick_tl k tls) r
  | _ :: r => tls_after tls r
  end.

(** * The same program as a program of Sched/Static.v: every read carries the position of ITS reader's timeline *)
Fixpoint linearize (tls : list mtl) (p : list mact) : list act :=
  match p with
  | [] => []
  | MTick k :: r => linearize (tick_tl k tls) r
  | MRead k :: r => ARead (pos5 k tls) :: linearize tls r
  | MTime k :: r => ATime (m_U (nth_tl k tls)) (m_pos (nth_tl k tls)) :: linearize tls r
  | MGet key d :: r => AGet key d :: linearize tls r
  | MSet key v :: r => ASet key v :: linearize tls r
  end.
Definition is_tick (a : mact) : bool := match a with MTick _ => true | _ => false end.
(* the outputs of the non-tick actions *)
Fixpoint drop_ticks (p : list mact) (o : list out) : list out :=
  match p, o with
  | a :: r, x :: xs => if is_tick a then drop_ticks r xs else x :: drop_ticks r xs
  | _, _ => []
  end.

(** * What concerns timeline k *)
Definition on_tl (k : nat) (a : mact) : bool :=
  match a with MTick j | MTime j => (j =? k)%nat | _ => false end.
(* the values PCurrentTime shows to the tracks of timeline k, in order *)
Fixpoint times_of (k : nat) (tls : list mtl) (p : list mact) : list Z :=
  match p with
  | [] => []
  | MTick j :: r => times_of k (tick_tl j tls) r
  | MTime j :: r => if (j =? k)%nat then pos5 k tls :: times_of k tls r else times_of k tls r
  | _ :: r => times_of k tls r
  end.
Definition count_ticks (k : nat) (p : list mact) : Z :=
  Z.of_nat (length (filter (fun a => match a with MTick j => (j =? k)%nat | _ => false end) p)).

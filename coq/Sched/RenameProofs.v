(* Sched/RenameProofs.v — track ids are names: a run is invariant under an order-preserving renaming of them.

   Track ids are the model's names for Python object identities.  They enter the model only through
   find_track / put_track / del_track, the id arguments of OUpdate / OUnschedule / OMute / OUnmute / ONudge and of the
   deferred AStart actions, the counter next_id that names the next scheduled track, and the test "t < next_id" of
   OUpdate (has that object been created yet?).  For a strictly increasing f : nat -> nat that commutes with
   successor from some n0 <= next_id on (so that fresh ids are renamed to fresh ids), every operation - a tick
   with all of its phases included - commutes with the renaming: the device calls and the result are THE SAME, the
   state is the renamed state.  *)
From Isobar Require Import Base.Prelude Sched.Model Sched.NoteOffProofs Sched.TimeProofs Sched.TickFrame Sched.MergeProofs.

Section Rename.
  Variable f : nat -> nat.

  Definition rn_track (tr : track) : track :=
    mkTrack (f (t_id tr)) (t_stream tr) (t_cur tr) (t_next tr) (t_max tr) (t_count tr) (t_offs tr)
            (t_muted tr) (t_started tr) (t_finished tr) (t_rwd tr) (t_name tr).
  Definition rn_action (a : action) : action :=
    match a with AStart t id s => AStart t (f id) s | ARelease t n c => ARelease t n c end.
  Definition rn_tl (tl : timeline) : timeline :=
    mkTL (now tl) (map rn_track (tracks tl)) (map rn_action (actions tl)) (f (next_id tl)) (def_q tl) (def_d tl) (dev_calls tl).
  Definition rn_op (o : op) : op :=
    match o with
    | OUpdate t s q d c => OUpdate (f t) s q d c
    | OUnschedule t => OUnschedule (f t)
    | OMute t => OMute (f t)
    | OUnmute t => OUnmute (f t)
    | ONudge t x => ONudge (f t) x
    | _ => o
    end.
  Definition rn_cb (cb : craise * list op) : craise * list op := (fst cb, map rn_op (snd cb)).
  Definition rn_cfg (cfg : config) : config :=
    mkConfig (tau cfg) (map rn_cb (cbs cfg)) (latency cfg) (max_tracks cfg) (stop_when_done cfg) (ignore_exc cfg)
             (dev_fail cfg) (fuel cfg).

  (** ** One track: nothing in Track looks at the id *)
  Lemma rn_gne tr : get_next_event (rn_track tr) = (fst (get_next_event tr), rn_track (snd (get_next_event tr))).
  Proof.
    unfold get_next_event. change (count_exhausted (rn_track tr)) with (count_exhausted tr).
    destruct (count_exhausted tr); [reflexivity|]. change (t_stream (rn_track tr)) with (t_stream tr).
    destruct (pull (t_stream tr)) as [[| |e] s']; reflexivity.
  Qed.

  Lemma rn_pull_loop fu : forall tr last,
    pull_loop fu (rn_track tr) last = (fst (pull_loop fu tr last), rn_track (snd (pull_loop fu tr last))).
  Proof.
    induction fu as [|fu IH]; intros tr last; [reflexivity|]. cbn [pull_loop].
    change (t_next (rn_track tr)) with (t_next tr). change (t_cur (rn_track tr)) with (t_cur tr).
    destruct (t_next tr <=? t_cur tr); [|reflexivity]. rewrite rn_gne.
    destruct (get_next_event tr) as [[e| |] tr']; cbn [fst snd]; try reflexivity.
    exact (IH (set_next tr' (t_next tr' + e_dur e)) (Some e)).
  Qed.

  Lemma rn_perform fail nowT tr e n : perform_event fail nowT (rn_track tr) e n =
    let '(tr', c, n', p) := perform_event fail nowT tr e n in (rn_track tr', c, n', p).
  Proof.
    unfold perform_event. destruct (negb (e_active e)); [reflexivity|].
    change (t_muted (rn_track tr)) with (t_muted tr). destruct (t_muted tr); [reflexivity|].
    destruct (e_kind e) as [vs|cb|c v ch|p ch]; try reflexivity.
    - change (t_cur (rn_track tr)) with (t_cur tr). change (t_offs (rn_track tr)) with (t_offs tr).
      destruct (perform_voices fail nowT (t_cur tr) vs n (t_offs tr) []) as [[[o c] n'] ok]. reflexivity.
    - destruct (dev_emit fail n); reflexivity.
    - destruct (dev_emit fail n); reflexivity.
  Qed.

  Lemma rn_tick_a cfg nowT tr n : track_tick_a (rn_cfg cfg) nowT (rn_track tr) n =
    let '(tr', c, n', r) := track_tick_a cfg nowT tr n in (rn_track tr', c, n', r).
  Proof.
    unfold track_tick_a. change (t_started (rn_track tr)) with (t_started tr). destruct (negb (t_started tr)); [reflexivity|].
    change (t_next (rn_track tr)) with (t_next tr). change (t_cur (rn_track tr)) with (t_cur tr).
    destruct (t_next tr <=? t_cur tr); [|reflexivity].
    change (fuel (rn_cfg cfg)) with (fuel cfg). change (dev_fail (rn_cfg cfg)) with (dev_fail cfg).
    rewrite rn_pull_loop. destruct (pull_loop (fuel cfg) tr None) as [[[e|]| | |] tr']; cbn [fst snd]; try reflexivity.
    rewrite rn_perform. destruct (perform_event (dev_fail cfg) nowT tr' e n) as [[[tr'' c] n'] pf]. reflexivity.
  Qed.

  Lemma rn_tick_b cfg tr st : track_tick_b (rn_cfg cfg) (rn_track tr) st = rn_track (track_tick_b cfg tr st).
  Proof.
    unfold track_tick_b. change (t_offs (rn_track tr)) with (t_offs tr). change (tau (rn_cfg cfg)) with (tau cfg).
    destruct (st && match t_offs tr with [] => true | _ => false end); reflexivity.
  Qed.

  Lemma rn_release tr : release_actions (rn_track tr) = release_actions tr.
  Proof. reflexivity. Qed.
  Lemma rn_release_map tr : map rn_action (release_actions tr) = release_actions tr.
  Proof. unfold release_actions. rewrite map_map. reflexivity. Qed.

  Lemma rn_phase_noteoffs l : phase_noteoffs (map rn_track l) = (map rn_track (fst (phase_noteoffs l)), snd (phase_noteoffs l)).
  Proof.
    induction l as [|x r IH]; [reflexivity|]. cbn [map phase_noteoffs]. rewrite IH.
    destruct (phase_noteoffs r) as [r' cs]. reflexivity.
  Qed.

  (** ** Lists of tracks: here injectivity is what matters *)
  Hypothesis f_mono : forall a b, (a < b)%nat -> (f a < f b)%nat.

  Lemma f_inj a b : f a = f b -> a = b.
  Proof.
    intros E. destruct (Nat.lt_trichotomy a b) as [H|[H|H]]; [apply f_mono in H; lia|exact H|apply f_mono in H; lia].
  Qed.
  Lemma f_eqb a b : (f a =? f b)%nat = (a =? b)%nat.
  Proof.
    destruct (a =? b)%nat eqn:E.
    - apply Nat.eqb_eq in E. subst. apply Nat.eqb_refl.
    - apply Nat.eqb_neq. intros H. apply f_inj in H. apply Nat.eqb_neq in E. contradiction.
  Qed.
  Lemma f_ltb a b : (f a <? f b)%nat = (a <? b)%nat.
  Proof.
    destruct (a <? b)%nat eqn:E.
    - apply Nat.ltb_lt. apply f_mono. apply Nat.ltb_lt. exact E.
    - apply Nat.ltb_ge in E. apply Nat.ltb_ge. destruct (Nat.eq_dec a b) as [->|N]; [lia|].
      assert (H : (b < a)%nat) by lia. apply f_mono in H. lia.
  Qed.

  Lemma rn_find id l : find_track (f id) (map rn_track l) = option_map rn_track (find_track id l).
  Proof.
    induction l as [|x r IH]; [reflexivity|]. cbn [map find_track]. change (t_id (rn_track x)) with (f (t_id x)).
    rewrite f_eqb. destruct (t_id x =? id)%nat; [reflexivity|exact IH].
  Qed.
  Lemma rn_put t' l : put_track (rn_track t') (map rn_track l) = map rn_track (put_track t' l).
  Proof.
    induction l as [|x r IH]; [reflexivity|]. cbn [map put_track].
    change (t_id (rn_track x)) with (f (t_id x)). change (t_id (rn_track t')) with (f (t_id t')).
    rewrite f_eqb. destruct (t_id x =? t_id t')%nat; [reflexivity|]. cbn [map]. rewrite <- IH. reflexivity.
  Qed.
  Lemma rn_del id l : del_track (f id) (map rn_track l) = map rn_track (del_track id l).
  Proof.
    induction l as [|x r IH]; [reflexivity|]. cbn [map del_track]. change (t_id (rn_track x)) with (f (t_id x)).
    rewrite f_eqb. destruct (t_id x =? id)%nat; [reflexivity|]. cbn [map]. rewrite IH. reflexivity.
  Qed.
  Lemma rn_find_named nm l : find_named nm (map rn_track l) = option_map rn_track (find_named nm l).
  Proof.
    induction l as [|x r IH]; [reflexivity|]. cbn [map find_named]. change (t_name (rn_track x)) with (t_name x).
    destruct (t_name x) as [n|]; [destruct (n =? nm); [reflexivity|exact IH]|exact IH].
  Qed.
  Lemma rn_put_named nm t' l : put_named nm (rn_track t') (map rn_track l) = map rn_track (put_named nm t' l).
  Proof.
    induction l as [|x r IH]; [reflexivity|]. cbn [map put_named]. change (t_name (rn_track x)) with (t_name x).
    destruct (t_name x) as [n|]; [destruct (n =? nm); [reflexivity|]|]; cbn [map]; rewrite IH; reflexivity.
  Qed.

  (** ** Timeline pieces *)
  Lemma rn_upd tl t : upd_track (rn_tl tl) (rn_track t) = rn_tl (upd_track tl t).
  Proof. unfold upd_track, set_tracks, rn_tl. cbn [now tracks actions next_id def_q def_d dev_calls]. rewrite rn_put. reflexivity. Qed.

  Lemma rn_remove tl id : remove_track (rn_tl tl) (f id) = rn_tl (remove_track tl id).
  Proof.
    unfold remove_track. change (tracks (rn_tl tl)) with (map rn_track (tracks tl)). rewrite rn_find.
    destruct (find_track id (tracks tl)) as [tr|]; [|reflexivity]. cbn [option_map].
    unfold set_actions, set_tracks, rn_tl. cbn [now tracks actions next_id def_q def_d dev_calls].
    rewrite rn_del, map_app, rn_release, rn_release_map. reflexivity.
  Qed.

  Lemma rn_clear l : forall tl,
    fold_left (fun tl' tr => remove_track tl' (t_id tr)) (map rn_track l) (rn_tl tl)
    = rn_tl (fold_left (fun tl' tr => remove_track tl' (t_id tr)) l tl).
  Proof.
    induction l as [|x r IH]; intros tl; [reflexivity|]. cbn [map fold_left].
    change (t_id (rn_track x)) with (f (t_id x)). rewrite rn_remove. apply IH.
  Qed.

  Lemma rn_track_update cfg tl tr s q d c : track_update (rn_cfg cfg) (rn_tl tl) (rn_track tr) s q d c =
    (rn_tl (fst (track_update cfg tl tr s q d c)), rn_track (snd (track_update cfg tl tr s q d c))).
  Proof.
    unfold track_update. change (latency (rn_cfg cfg)) with (latency cfg).
    change (def_q (rn_tl tl)) with (def_q tl). change (def_d (rn_tl tl)) with (def_d tl). change (now (rn_tl tl)) with (now tl).
    destruct ((_ =? 0) && (_ =? 0)); cbn [fst snd].
    - destruct c; reflexivity.
    - unfold set_actions, rn_tl. cbn [now tracks actions next_id def_q def_d dev_calls]. rewrite map_app.
      destruct c; reflexivity.
  Qed.

  Lemma rn_fire tl a : fire_action (rn_tl tl) (rn_action a) = (rn_tl (fst (fire_action tl a)), snd (fire_action tl a)).
  Proof.
    destruct a as [t id s|t n c]; cbn [rn_action fire_action]; [|reflexivity].
    change (tracks (rn_tl tl)) with (map rn_track (tracks tl)). rewrite rn_find.
    destruct (find_track id (tracks tl)) as [tr|]; cbn [option_map fst snd]; [|reflexivity].
    change (track_start (rn_track tr) s) with (rn_track (track_start tr s)). rewrite rn_upd. reflexivity.
  Qed.

  Lemma rn_phase_actions todo : forall tl kept calls,
    phase_actions (rn_tl tl) (map rn_action todo) (map rn_action kept) calls =
    let '(tl', k, c) := phase_actions tl todo kept calls in (rn_tl tl', map rn_action k, c).
  Proof.
    induction todo as [|a r IH]; intros tl kept calls; [reflexivity|]. cbn [map phase_actions].
    replace (a_time (rn_action a)) with (a_time a) by (destruct a; reflexivity).
    change (now (rn_tl tl)) with (now tl). destruct (a_time a <=? now tl).
    - rewrite rn_fire. destruct (fire_action tl a) as [tl' c]. cbn [fst snd]. apply IH.
    - specialize (IH tl (kept ++ [a]) calls). rewrite map_app in IH. exact IH.
  Qed.

  Lemma rn_finish cfg tl id st : finish_track (rn_cfg cfg) (rn_tl tl) (f id) st = rn_tl (finish_track cfg tl id st).
  Proof.
    unfold finish_track. change (tracks (rn_tl tl)) with (map rn_track (tracks tl)). rewrite rn_find.
    destruct (find_track id (tracks tl)) as [tr2|]; cbn [option_map]; [|reflexivity].
    rewrite rn_tick_b, rn_upd.
    change (t_finished (rn_track (track_tick_b cfg tr2 st))) with (t_finished (track_tick_b cfg tr2 st)).
    change (t_rwd (rn_track (track_tick_b cfg tr2 st))) with (t_rwd (track_tick_b cfg tr2 st)).
    destruct (_ && _); [apply rn_remove|reflexivity].
  Qed.

  Lemma rn_end_stream tl id : end_stream (rn_tl tl) (f id) = rn_tl (end_stream tl id).
  Proof.
    unfold end_stream. change (tracks (rn_tl tl)) with (map rn_track (tracks tl)). rewrite rn_find.
    destruct (find_track id (tracks tl)) as [t|]; cbn [option_map]; [|reflexivity].
    change (set_stream (rn_track t) empty_stream) with (rn_track (set_stream t empty_stream)). apply rn_upd.
  Qed.

  Lemma rn_set_dev tl n : set_dev (rn_tl tl) n = rn_tl (set_dev tl n).
  Proof. reflexivity. Qed.

  (** ** Operations: fresh ids must be renamed to fresh ids *)
  Variable n0 : nat.
  Hypothesis f_shift : forall m, (n0 <= m)%nat -> f (S m) = S (f m).

  Lemma rn_exec_op cfg tl o : (n0 <= next_id tl)%nat ->
    exec_op (rn_cfg cfg) (rn_tl tl) (rn_op o) = (rn_tl (fst (exec_op cfg tl o)), snd (exec_op cfg tl o)).
  Proof.
    intros N. destruct o as [|s q d c rwd nm rp|t s q d c|t| |t|t|t x|q d]; cbn [rn_op exec_op].
    - reflexivity.
    - change (tracks (rn_tl tl)) with (map rn_track (tracks tl)). change (max_tracks (rn_cfg cfg)) with (max_tracks cfg).
      change (next_id (rn_tl tl)) with (f (next_id tl)).
      assert (Ex : match nm with
                   | Some nm0 => if rp then match find_named nm0 (map rn_track (tracks tl)) with Some tr => Some (nm0, tr) | None => None end else None
                   | None => None end
                 = option_map (fun p : Z * track => (fst p, rn_track (snd p)))
                   (match nm with
                    | Some nm0 => if rp then match find_named nm0 (tracks tl) with Some tr => Some (nm0, tr) | None => None end else None
                    | None => None end)).
      { destruct nm as [nm0|]; [|reflexivity]. destruct rp; [|reflexivity]. rewrite rn_find_named.
        destruct (find_named nm0 (tracks tl)); reflexivity. }
      rewrite Ex. clear Ex.
      destruct (match nm with
                | Some nm0 => if rp then match find_named nm0 (tracks tl) with Some tr => Some (nm0, tr) | None => None end else None
                | None => None end) as [[nm0 tr]|]; cbn [option_map fst snd].
      + rewrite rn_track_update. destruct (track_update cfg tl tr s q d c) as [tl1 tr1]. cbn [fst snd].
        change (tracks (rn_tl tl1)) with (map rn_track (tracks tl1)).
        change (set_muted (set_count (rn_track tr1) 0) false) with (rn_track (set_muted (set_count tr1 0) false)).
        rewrite rn_put_named. reflexivity.
      + rewrite map_length.
        destruct (negb (max_tracks cfg =? 0) && (max_tracks cfg <=? Z.of_nat (length (tracks tl)))); [reflexivity|].
        change (new_track (f (next_id tl)) c rwd nm) with (rn_track (new_track (next_id tl) c rwd nm)).
        rewrite rn_track_update.
        pose proof (track_update_sched cfg tl (new_track (next_id tl) c rwd nm) s q d None) as U.
        destruct (track_update cfg tl (new_track (next_id tl) c rwd nm) s q d None) as [tl1 tr1]. cbn [fst snd].
        destruct U as [_ [U2 _]].
        unfold rn_tl. cbn [now tracks actions next_id def_q def_d dev_calls]. rewrite map_app. cbn [map].
        rewrite f_shift by lia. reflexivity.
    - change (tracks (rn_tl tl)) with (map rn_track (tracks tl)). rewrite rn_find.
      destruct (find_track t (tracks tl)) as [tr|]; cbn [option_map].
      + rewrite rn_track_update. destruct (track_update cfg tl tr s q d c) as [tl1 tr1]. cbn [fst snd]. rewrite rn_upd. reflexivity.
      + change (next_id (rn_tl tl)) with (f (next_id tl)). rewrite f_ltb. destruct (t <? next_id tl)%nat; [|reflexivity].
        change (new_track (f t) None true None) with (rn_track (new_track t None true None)). rewrite rn_track_update.
        destruct (track_update cfg tl (new_track t None true None) s q d c) as [tl1 tr1]. reflexivity.
    - change (tracks (rn_tl tl)) with (map rn_track (tracks tl)). rewrite rn_find.
      destruct (find_track t (tracks tl)); cbn [option_map fst snd]; [rewrite rn_remove|]; reflexivity.
    - change (tracks (rn_tl tl)) with (map rn_track (tracks tl)). rewrite rn_clear. reflexivity.
    - change (tracks (rn_tl tl)) with (map rn_track (tracks tl)). rewrite rn_find.
      destruct (find_track t (tracks tl)) as [tr|]; cbn [option_map fst snd]; [|reflexivity].
      change (set_muted (rn_track tr) true) with (rn_track (set_muted tr true)). rewrite rn_upd. reflexivity.
    - change (tracks (rn_tl tl)) with (map rn_track (tracks tl)). rewrite rn_find.
      destruct (find_track t (tracks tl)) as [tr|]; cbn [option_map fst snd]; [|reflexivity].
      change (set_muted (rn_track tr) false) with (rn_track (set_muted tr false)). rewrite rn_upd. reflexivity.
    - change (tracks (rn_tl tl)) with (map rn_track (tracks tl)). rewrite rn_find.
      destruct (find_track t (tracks tl)) as [tr|]; cbn [option_map fst snd]; [|reflexivity].
      change (set_next (rn_track tr) (t_next (rn_track tr) + x)) with (rn_track (set_next tr (t_next tr + x))). rewrite rn_upd. reflexivity.
    - reflexivity.
  Qed.
End Rename.

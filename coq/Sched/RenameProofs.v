(* Sched/RenameProofs.v — track ids are names: a run is invariant under an order-preserving renaming of them.

   Track ids are the model's names for Python object identities.  They enter the model only through
   find_track / put_track / del_track, the id arguments of OUpdate / OUnschedule / OMute / OUnmute / ONudge and of the
   deferred AStart actions, the counter next_id that names the next scheduled track, and the test "t < next_id" of
   OUpdate (has that object been created yet?).  For a strictly increasing f : nat -> nat that commutes with
   successor from some n0 <= next_id on (so that fresh ids are renamed to fresh ids), every operation - a tick
   with all of its phases included - commutes with the renaming: the device calls and the result are THE SAME, the
   state is the renamed state.  *)
From Isobar Require Import Base.Prelude Sched.Model Sched.NoteOffProofs Sched.TimeProofs Sched.TickFrame Sched.MergeProofs.

Section Rename.
  Variable f : nat -> nat.

  Definition rn_track (tr : track) : track :=
    mkTrack (f (t_id tr)) (t_stream tr) (t_cur tr) (t_next tr) (t_max tr) (t_count tr) (t_offs tr)
            (t_muted tr) (t_started tr) (t_finished tr) (t_rwd tr) (t_name tr).
  Definition rn_action (a : action) : action :=
    match a with AStart t id s => AStart t (f id) s | ARelease t n c => ARelease t n c end.
  Definition rn_tl (tl : timeline) : timeline :=
    mkTL (now tl) (map rn_track (tracks tl)) (map rn_action (actions tl)) (f (next_id tl)) (def_q tl) (def_d tl) (dev_calls tl).
  Definition rn_op (o : op) : op :=
    match o with
    | OUpdate t s q d c => OUpdate (f t) s q d c
    | OUnschedule t => OUnschedule (f t)
    | OMute t => OMute (f t)
    | OUnmute t => OUnmute (f t)
    | ONudge t x => ONudge (f t) x
    | _ => o
    end.
  Definition rn_cb (cb : craise * list op) : craise * list op := (fst cb, map rn_op (snd cb)).
  Definition rn_cfg (cfg : config) : config :=
    mkConfig (tau cfg) (map rn_cb (cbs cfg)) (latency cfg) (max_tracks cfg) (stop_when_done cfg) (ignore_exc cfg)
             (dev_fail cfg) (fuel cfg).

  (** ** One track: nothing in Track looks at the id *)
  Lemma rn_gne tr : get_next_event (rn_track tr) = (fst (get_next_event tr), rn_track (snd (get_next_event tr))).
  Proof.
    unfold get_next_event. change (count_exhausted (rn_track tr)) with (count_exhausted tr).
    destruct (count_exhausted tr); [reflexivity|]. change (t_stream (rn_track tr)) with (t_stream tr).
    destruct (pull (t_stream tr)) as [[| |e] s']; reflexivity.
  Qed.

  Lemma rn_pull_loop fu : forall tr last,
    pull_loop fu (rn_track tr) last = (fst (pull_loop fu tr last), rn_track (snd (pull_loop fu tr last))).
  Proof.
    induction fu as [|fu IH]; intros tr last; [reflexivity|]. cbn [pull_loop].
    change (t_next (rn_track tr)) with (t_next tr). change (t_cur (rn_track tr)) with (t_cur tr).
    destruct (t_next tr <=? t_cur tr); [|reflexivity]. rewrite rn_gne.
    destruct (get_next_event tr) as [[e| |] tr']; cbn [fst snd]; try reflexivity.
    exact (IH (set_next tr' (t_next tr' + e_dur e)) (Some e)).
  Qed.

  Lemma rn_perform fail nowT tr e n : perform_event fail nowT (rn_track tr) e n =
    let '(tr', c, n', p) := perform_event fail nowT tr e n in (rn_track tr', c, n', p).
  Proof.
    unfold perform_event. destruct (negb (e_active e)); [reflexivity|].
    change (t_muted (rn_track tr)) with (t_muted tr). destruct (t_muted tr); [reflexivity|].
    destruct (e_kind e) as [vs|cb|c v ch|p ch]; try reflexivity.
    - change (t_cur (rn_track tr)) with (t_cur tr). change (t_offs (rn_track tr)) with (t_offs tr).
      destruct (perform_voices fail nowT (t_cur tr) vs n (t_offs tr) []) as [[[o c] n'] ok]. reflexivity.
    - destruct (dev_emit fail n); reflexivity.
    - destruct (dev_emit fail n); reflexivity.
  Qed.

  Lemma rn_tick_a cfg nowT tr n : track_tick_a (rn_cfg cfg) nowT (rn_track tr) n =
    let '(tr', c, n', r) := track_tick_a cfg nowT tr n in (rn_track tr', c, n', r).
  Proof.
    unfold track_tick_a. change (t_started (rn_track tr)) with (t_started tr). destruct (negb (t_started tr)); [reflexivity|].
    change (t_next (rn_track tr)) with (t_next tr). change (t_cur (rn_track tr)) with (t_cur tr).
    destruct (t_next tr <=? t_cur tr); [|reflexivity].
    change (fuel (rn_cfg cfg)) with (fuel cfg). change (dev_fail (rn_cfg cfg)) with (dev_fail cfg).
    rewrite rn_pull_loop. destruct (pull_loop (fuel cfg) tr None) as [[[e|]| | |] tr']; cbn [fst snd]; try reflexivity.
    rewrite rn_perform. destruct (perform_event (dev_fail cfg) nowT tr' e n) as [[[tr'' c] n'] pf]. reflexivity.
  Qed.

  Lemma rn_tick_b cfg tr st : track_tick_b (rn_cfg cfg) (rn_track tr) st = rn_track (track_tick_b cfg tr st).
  Proof.
    unfold track_tick_b. change (t_offs (rn_track tr)) with (t_offs tr). change (tau (rn_cfg cfg)) with (tau cfg).
    destruct (st && match t_offs tr with [] => true | _ => false end); reflexivity.
  Qed.

  Lemma rn_release tr : release_actions (rn_track tr) = release_actions tr.
  Proof. reflexivity. Qed.
  Lemma rn_release_map tr : map rn_action (release_actions tr) = release_actions tr.
  Proof. unfold release_actions. rewrite map_map. reflexivity. Qed.

  Lemma rn_phase_noteoffs l : phase_noteoffs (map rn_track l) = (map rn_track (fst (phase_noteoffs l)), snd (phase_noteoffs l)).
  Proof.
    induction l as [|x r IH]; [reflexivity|]. cbn [map phase_noteoffs]. rewrite IH.
    destruct (phase_noteoffs r) as [r' cs]. reflexivity.
  Qed.

  (** ** Lists of tracks: here injectivity is what matters *)
  Hypothesis f_mono : forall a b, (a < b)%nat -> (f a < f b)%nat.

  Lemma f_inj a b : f a = f b -> a = b.
  Proof.
    intros E. destruct (Nat.lt_trichotomy a b) as [H|[H|H]]; [apply f_mono in H; lia|exact H|apply f_mono in H; lia].
  Qed.
  Lemma f_eqb a b : (f a =? f b)%nat = (a =? b)%nat.
  Proof.
    destruct (a =? b)%nat eqn:E.
    - apply Nat.eqb_eq in E. subst. apply Nat.eqb_refl.
    - apply Nat.eqb_neq. intros H. apply f_inj in H. apply Nat.eqb_neq in E. contradiction.
  Qed.
  Lemma f_ltb a b : (f a <? f b)%nat = (a <? b)%nat.
  Proof.
    destruct (a <? b)%nat eqn:E.
    - apply Nat.ltb_lt. apply f_mono. apply Nat.ltb_lt. exact E.
    - apply Nat.ltb_ge in E. apply Nat.ltb_ge. destruct (Nat.eq_dec a b) as [->|N]; [lia|].
      assert (H : (b < a)%nat) by lia. apply f_mono in H. lia.
  Qed.

  Lemma rn_find id l : find_track (f id) (map rn_track l) = option_map rn_track (find_track id l).
  Proof.
    induction l as [|x r IH]; [reflexivity|]. cbn [map find_track]. change (t_id (rn_track x)) with (f (t_id x)).
    rewrite f_eqb. destruct (t_id x =? id)%nat; [reflexivity|exact IH].
  Qed.
  Lemma rn_put t' l : put_track (rn_track t') (map rn_track l) = map rn_track (put_track t' l).
  Proof.
    induction l as [|x r IH]; [reflexivity|]. cbn [map put_track].
    change (t_id (rn_track x)) with (f (t_id x)). change (t_id (rn_track t')) with (f (t_id t')).
    rewrite f_eqb. destruct (t_id x =? t_id t')%nat; [reflexivity|]. cbn [map]. rewrite <- IH. reflexivity.
  Qed.
  Lemma rn_del id l : del_track (f id) (map rn_track l) = map rn_track (del_track id l).
  Proof.
    induction l as [|x r IH]; [reflexivity|]. cbn [map del_track]. change (t_id (rn_track x)) with (f (t_id x)).
    rewrite f_eqb. destruct (t_id x =? id)%nat; [reflexivity|]. cbn [map]. rewrite IH. reflexivity.
  Qed.
  Lemma rn_find_named nm l : find_named nm (map rn_track l) = option_map rn_track (find_named nm l).
  Proof.
    induction l as [|x r IH]; [reflexivity|]. cbn [map find_named]. change (t_name (rn_track x)) with (t_name x).
    destruct (t_name x) as [n|]; [destruct (n =? nm); [reflexivity|exact IH]|exact IH].
  Qed.
  Lemma rn_put_named nm t' l : put_named nm (rn_track t') (map rn_track l) = map rn_track (put_named nm t' l).
  Proof.
    induction l as [|x r IH]; [reflexivity|]. cbn [map put_named]. change (t_name (rn_track x)) with (t_name x).
    destruct (t_name x) as [n|]; [destruct (n =? nm); [reflexivity|]|]; cbn [map]; rewrite IH; reflexivity.
  Qed.

  (** ** Timeline pieces *)
  Lemma rn_upd tl t : upd_track (rn_tl tl) (rn_track t) = rn_tl (upd_track tl t).
  Proof. unfold upd_track, set_tracks, rn_tl. cbn [now tracks actions next_id def_q def_d dev_calls]. rewrite rn_put. reflexivity. Qed.

  Lemma rn_remove tl id : remove_track (rn_tl tl) (f id) = rn_tl (remove_track tl id).
  Proof.
    unfold remove_track. change (tracks (rn_tl tl)) with (map rn_track (tracks tl)). rewrite rn_find.
    destruct (find_track id (tracks tl)) as [tr|]; [|reflexivity]. cbn [option_map].
    unfold set_actions, set_tracks, rn_tl. cbn [now tracks actions next_id def_q def_d dev_calls].
    rewrite rn_del, map_app, rn_release, rn_release_map. reflexivity.
  Qed.

  Lemma rn_clear l : forall tl,
    fold_left (fun tl' tr => remove_track tl' (t_id tr)) (map rn_track l) (rn_tl tl)
    = rn_tl (fold_left (fun tl' tr => remove_track tl' (t_id tr)) l tl).
  Proof.
    induction l as [|x r IH]; intros tl; [reflexivity|]. cbn [map fold_left].
    change (t_id (rn_track x)) with (f (t_id x)). rewrite rn_remove. apply IH.
  Qed.

  Lemma rn_track_update cfg tl tr s q d c : track_update (rn_cfg cfg) (rn_tl tl) (rn_track tr) s q d c =
    (rn_tl (fst (track_update cfg tl tr s q d c)), rn_track (snd (track_update cfg tl tr s q d c))).
  Proof.
    unfold track_update. change (latency (rn_cfg cfg)) with (latency cfg).
    change (def_q (rn_tl tl)) with (def_q tl). change (def_d (rn_tl tl)) with (def_d tl). change (now (rn_tl tl)) with (now tl).
    destruct ((_ =? 0) && (_ =? 0)); cbn [fst snd].
    - destruct c; reflexivity.
    - unfold set_actions, rn_tl. cbn [now tracks actions next_id def_q def_d dev_calls]. rewrite map_app.
      destruct c; reflexivity.
  Qed.

  Lemma rn_fire tl a : fire_action (rn_tl tl) (rn_action a) = (rn_tl (fst (fire_action tl a)), snd (fire_action tl a)).
  Proof.
    destruct a as [t id s|t n c]; cbn [rn_action fire_action]; [|reflexivity].
    change (tracks (rn_tl tl)) with (map rn_track (tracks tl)). rewrite rn_find.
    destruct (find_track id (tracks tl)) as [tr|]; cbn [option_map fst snd]; [|reflexivity].
    change (track_start (rn_track tr) s) with (rn_track (track_start tr s)). rewrite rn_upd. reflexivity.
  Qed.

  Lemma rn_phase_actions todo : forall tl kept calls,
    phase_actions (rn_tl tl) (map rn_action todo) (map rn_action kept) calls =
    let '(tl', k, c) := phase_actions tl todo kept calls in (rn_tl tl', map rn_action k, c).
  Proof.
    induction todo as [|a r IH]; intros tl kept calls; [reflexivity|]. cbn [map phase_actions].
    replace (a_time (rn_action a)) with (a_time a) by (destruct a; reflexivity).
    change (now (rn_tl tl)) with (now tl). destruct (a_time a <=? now tl).
    - rewrite rn_fire. destruct (fire_action tl a) as [tl' c]. cbn [fst snd]. apply IH.
    - specialize (IH tl (kept ++ [a]) calls). rewrite map_app in IH. exact IH.
  Qed.

  Lemma rn_finish cfg tl id st : finish_track (rn_cfg cfg) (rn_tl tl) (f id) st = rn_tl (finish_track cfg tl id st).
  Proof.
    unfold finish_track. change (tracks (rn_tl tl)) with (map rn_track (tracks tl)). rewrite rn_find.
    destruct (find_track id (tracks tl)) as [tr2|]; cbn [option_map]; [|reflexivity].
    rewrite rn_tick_b, rn_upd.
    change (t_finished (rn_track (track_tick_b cfg tr2 st))) with (t_finished (track_tick_b cfg tr2 st)).
    change (t_rwd (rn_track (track_tick_b cfg tr2 st))) with (t_rwd (track_tick_b cfg tr2 st)).
    destruct (_ && _); [apply rn_remove|reflexivity].
  Qed.

  Lemma rn_end_stream tl id : end_stream (rn_tl tl) (f id) = rn_tl (end_stream tl id).
  Proof.
    unfold end_stream. change (tracks (rn_tl tl)) with (map rn_track (tracks tl)). rewrite rn_find.
    destruct (find_track id (tracks tl)) as [t|]; cbn [option_map]; [|reflexivity].
    change (set_stream (rn_track t) empty_stream) with (rn_track (set_stream t empty_stream)). apply rn_upd.
  Qed.

  Lemma rn_set_dev tl n : set_dev (rn_tl tl) n = rn_tl (set_dev tl n).
  Proof. reflexivity. Qed.

  (** ** Operations: fresh ids must be renamed to fresh ids *)
  Variable n0 : nat.
  Hypothesis f_shift : forall m, (n0 <= m)%nat -> f (S m) = S (f m).

  Lemma rn_exec_op cfg tl o : (n0 <= next_id tl)%nat ->
    exec_op (rn_cfg cfg) (rn_tl tl) (rn_op o) = (rn_tl (fst (exec_op cfg tl o)), snd (exec_op cfg tl o)).
  Proof.
    intros N. destruct o as [|s q d c rwd nm rp|t s q d c|t| |t|t|t x|q d]; cbn [rn_op exec_op].
    - reflexivity.
    - change (tracks (rn_tl tl)) with (map rn_track (tracks tl)). change (max_tracks (rn_cfg cfg)) with (max_tracks cfg).
      change (next_id (rn_tl tl)) with (f (next_id tl)).
      assert (Ex : match nm with
                   | Some nm0 => if rp then match find_named nm0 (map rn_track (tracks tl)) with Some tr => Some (nm0, tr) | None => None end else None
                   | None => None end
                 = option_map (fun p : Z * track => (fst p, rn_track (snd p)))
                   (match nm with
                    | Some nm0 => if rp then match find_named nm0 (tracks tl) with Some tr => Some (nm0, tr) | None => None end else None
                    | None => None end)).
      { destruct nm as [nm0|]; [|reflexivity]. destruct rp; [|reflexivity]. rewrite rn_find_named.
        destruct (find_named nm0 (tracks tl)); reflexivity. }
      rewrite Ex. clear Ex.
      destruct (match nm with
                | Some nm0 => if rp then match find_named nm0 (tracks tl) with Some tr => Some (nm0, tr) | None => None end else None
                | None => None end) as [[nm0 tr]|]; cbn [option_map fst snd].
      + rewrite rn_track_update. destruct (track_update cfg tl tr s q d c) as [tl1 tr1]. cbn [fst snd].
        change (tracks (rn_tl tl1)) with (map rn_track (tracks tl1)).
        change (set_muted (set_count (rn_track tr1) 0) false) with (rn_track (set_muted (set_count tr1 0) false)).
        rewrite rn_put_named. reflexivity.
      + rewrite map_length.
        destruct (negb (max_tracks cfg =? 0) && (max_tracks cfg <=? Z.of_nat (length (tracks tl)))); [reflexivity|].
        change (new_track (f (next_id tl)) c rwd nm) with (rn_track (new_track (next_id tl) c rwd nm)).
        rewrite rn_track_update.
        pose proof (track_update_sched cfg tl (new_track (next_id tl) c rwd nm) s q d None) as U.
        destruct (track_update cfg tl (new_track (next_id tl) c rwd nm) s q d None) as [tl1 tr1]. cbn [fst snd].
        destruct U as [_ [U2 _]].
        unfold rn_tl. cbn [now tracks actions next_id def_q def_d dev_calls]. rewrite map_app. cbn [map].
        rewrite f_shift by lia. reflexivity.
    - change (tracks (rn_tl tl)) with (map rn_track (tracks tl)). rewrite rn_find.
      destruct (find_track t (tracks tl)) as [tr|]; cbn [option_map].
      + rewrite rn_track_update. destruct (track_update cfg tl tr s q d c) as [tl1 tr1]. cbn [fst snd]. rewrite rn_upd. reflexivity.
      + change (next_id (rn_tl tl)) with (f (next_id tl)). rewrite f_ltb. destruct (t <? next_id tl)%nat; [|reflexivity].
        change (new_track (f t) None true None) with (rn_track (new_track t None true None)). rewrite rn_track_update.
        destruct (track_update cfg tl (new_track t None true None) s q d c) as [tl1 tr1]. reflexivity.
    - change (tracks (rn_tl tl)) with (map rn_track (tracks tl)). rewrite rn_find.
      destruct (find_track t (tracks tl)); cbn [option_map fst snd]; [rewrite rn_remove|]; reflexivity.
    - change (tracks (rn_tl tl)) with (map rn_track (tracks tl)). rewrite rn_clear. reflexivity.
    - change (tracks (rn_tl tl)) with (map rn_track (tracks tl)). rewrite rn_find.
      destruct (find_track t (tracks tl)) as [tr|]; cbn [option_map fst snd]; [|reflexivity].
      change (set_muted (rn_track tr) true) with (rn_track (set_muted tr true)). rewrite rn_upd. reflexivity.
    - change (tracks (rn_tl tl)) with (map rn_track (tracks tl)). rewrite rn_find.
      destruct (find_track t (tracks tl)) as [tr|]; cbn [option_map fst snd]; [|reflexivity].
      change (set_muted (rn_track tr) false) with (rn_track (set_muted tr false)). rewrite rn_upd. reflexivity.
    - change (tracks (rn_tl tl)) with (map rn_track (tracks tl)). rewrite rn_find.
      destruct (find_track t (tracks tl)) as [tr|]; cbn [option_map fst snd]; [|reflexivity].
      change (set_next (rn_track tr) (t_next (rn_track tr) + x)) with (rn_track (set_next tr (t_next tr + x))). rewrite rn_upd. reflexivity.
    - reflexivity.
  Qed.

  (** ** next_id never decreases (so the ids that are fresh stay within the range where f commutes with successor) *)
  Lemma exec_op_next_le cfg tl o : (next_id tl <= next_id (fst (exec_op cfg tl o)))%nat.
  Proof.
    destruct o as [|s q d count rwd name replace|t s q d count|t| |t|t|t x|q d]; cbn [exec_op fst]; try (cbn [next_id]; lia).
    - fold (named_target tl name replace). destruct (named_target tl name replace) as [[nm tr]|].
      + pose proof (track_update_sched cfg tl tr s q d count) as U.
        destruct (track_update cfg tl tr s q d count) as [tl1 tr1]. destruct U as [_ [U2 _]]. cbn [fst set_tracks next_id]. lia.
      + destruct (negb (max_tracks cfg =? 0) && (max_tracks cfg <=? Z.of_nat (length (tracks tl)))); [cbn [fst]; lia|].
        pose proof (track_update_sched cfg tl (new_track (next_id tl) count rwd name) s q d None) as U.
        destruct (track_update cfg tl (new_track (next_id tl) count rwd name) s q d None) as [tl1 tr1].
        destruct U as [_ [U2 _]]. cbn [fst next_id]. lia.
    - destruct (find_track t (tracks tl)) as [tr|].
      + pose proof (track_update_sched cfg tl tr s q d count) as U.
        destruct (track_update cfg tl tr s q d count) as [tl1 tr1]. destruct U as [_ [U2 _]].
        cbn [fst upd_track set_tracks next_id]. lia.
      + destruct (t <? next_id tl)%nat; [|cbn [fst]; lia].
        pose proof (track_update_sched cfg tl (new_track t None true None) s q d count) as U.
        destruct (track_update cfg tl (new_track t None true None) s q d count) as [tl1 tr1]. destruct U as [_ [U2 _]].
        cbn [fst]. lia.
    - destruct (find_track t (tracks tl)); cbn [fst]; [rewrite remove_next|]; lia.
    - rewrite clear_next. lia.
    - destruct (find_track t (tracks tl)); cbn [fst upd_track set_tracks next_id]; lia.
    - destruct (find_track t (tracks tl)); cbn [fst upd_track set_tracks next_id]; lia.
    - destruct (find_track t (tracks tl)); cbn [fst upd_track set_tracks next_id]; lia.
  Qed.

  Lemma exec_cb_ops_next_le cfg ops : forall tl, (next_id tl <= next_id (exec_cb_ops cfg tl ops))%nat.
  Proof.
    induction ops as [|o r IH]; intros tl; cbn [exec_cb_ops]; [lia|].
    pose proof (exec_op_next_le cfg tl o) as L. destruct (exec_op cfg tl o) as [tl' res]. cbn [fst] in L.
    destruct res; try lia. specialize (IH tl'). lia.
  Qed.

  Lemma phase_tracks_next_le cfg ids tl calls : (next_id tl <= next_id (fst (fst (phase_tracks cfg tl ids calls))))%nat.
  Proof.
    apply (Q_phase_tracks cfg (fun a b => (next_id a <= next_id b)%nat) (fun _ _ => True)); auto.
    - intros. lia.
    - intros cb o tl0 _. apply exec_op_next_le.
    - intros. rewrite remove_next. lia.
  Qed.
  Lemma tick_one_next_le cfg tl id : (next_id tl <= next_id (fst (fst (tick_one cfg tl id))))%nat.
  Proof.
    pose proof (phase_tracks_next_le cfg [id] tl []) as H. cbn [phase_tracks] in H.
    destruct (tick_one cfg tl id) as [[tl' c] ab]. destruct ab; exact H.
  Qed.

  Lemma tl_tick_next_le cfg tl : (next_id tl <= next_id (fst (fst (tl_tick cfg tl))))%nat.
  Proof.
    unfold tl_tick. destruct (phase_noteoffs (tracks tl)) as [trs1 c1].
    pose proof (phase_actions_next (actions (set_tracks tl trs1)) (set_actions (set_tracks tl trs1) []) [] []) as PA.
    destruct (phase_actions (set_actions (set_tracks tl trs1) []) (actions (set_tracks tl trs1)) [] []) as [[tl2 kept] c3].
    cbn [fst] in PA.
    pose proof (phase_tracks_next_le cfg (map t_id (tracks (set_actions tl2 (kept ++ actions tl2)))) (set_actions tl2 (kept ++ actions tl2)) []) as PT.
    destruct (phase_tracks cfg (set_actions tl2 (kept ++ actions tl2)) (map t_id (tracks (set_actions tl2 (kept ++ actions tl2)))) []) as [[tl4 c4] res].
    cbn [fst set_actions set_tracks next_id] in PT, PA.
    destruct res; cbn [fst]; try lia. destruct (_ && _); cbn [fst next_id]; lia.
  Qed.

  Lemma step_exec cfg tl o : o <> OTick -> step cfg tl o = (fst (exec_op cfg tl o), [], snd (exec_op cfg tl o)).
  Proof. destruct o; [congruence|..]; intros _; unfold step; destruct (exec_op cfg tl _); reflexivity. Qed.

  Lemma step_next_le cfg tl o : (next_id tl <= next_id (fst (fst (step cfg tl o))))%nat.
  Proof.
    destruct o; [exact (tl_tick_next_le cfg tl)|..];
      (rewrite step_exec by discriminate; cbn [fst]; apply exec_op_next_le).
  Qed.

  (** ** Callbacks, the turn of one track, the tick *)
  Lemma rn_exec_cb_ops cfg ops : forall tl, (n0 <= next_id tl)%nat ->
    exec_cb_ops (rn_cfg cfg) (rn_tl tl) (map rn_op ops) = rn_tl (exec_cb_ops cfg tl ops).
  Proof.
    induction ops as [|o r IH]; intros tl N; [reflexivity|]. cbn [map exec_cb_ops]. rewrite rn_exec_op by exact N.
    pose proof (exec_op_next_le cfg tl o) as L. destruct (exec_op cfg tl o) as [tl' res]. cbn [fst snd] in *.
    destruct res; try reflexivity. apply IH. lia.
  Qed.
  Lemma rn_cb_completes cfg ops : forall tl, (n0 <= next_id tl)%nat ->
    cb_completes (rn_cfg cfg) (rn_tl tl) (map rn_op ops) = cb_completes cfg tl ops.
  Proof.
    induction ops as [|o r IH]; intros tl N; [reflexivity|]. cbn [map cb_completes]. rewrite rn_exec_op by exact N.
    pose proof (exec_op_next_le cfg tl o) as L. destruct (exec_op cfg tl o) as [tl' res]. cbn [fst snd] in *.
    destruct res; try reflexivity. apply IH. lia.
  Qed.
  Lemma rn_nth_cb cfg cb : nth cb (cbs (rn_cfg cfg)) (CbNone, []) = rn_cb (nth cb (cbs cfg) (CbNone, [])).
  Proof. exact (map_nth rn_cb (cbs cfg) (CbNone, []) cb). Qed.

  Lemma rn_tick_one cfg tl id : (n0 <= next_id tl)%nat ->
    tick_one (rn_cfg cfg) (rn_tl tl) (f id) = let '(tl', c, ab) := tick_one cfg tl id in (rn_tl tl', c, ab).
  Proof.
    intros N. unfold tick_one. change (tracks (rn_tl tl)) with (map rn_track (tracks tl)). rewrite rn_find.
    destruct (find_track id (tracks tl)) as [tr|]; cbn [option_map]; [|reflexivity].
    change (now (rn_tl tl)) with (now tl). change (dev_calls (rn_tl tl)) with (dev_calls tl). rewrite rn_tick_a.
    destruct (track_tick_a cfg (now tl) tr (dev_calls tl)) as [[[tr1 c] n'] res]. cbv beta iota.
    rewrite rn_upd, rn_set_dev.
    change (t_finished (rn_track tr1)) with (t_finished tr1). change (t_rwd (rn_track tr1)) with (t_rwd tr1).
    change (ignore_exc (rn_cfg cfg)) with (ignore_exc cfg).
    destruct res.
    - destruct (t_finished tr1 && t_rwd tr1); [rewrite rn_remove|]; reflexivity.
    - rewrite rn_finish. reflexivity.
    - rewrite rn_finish. reflexivity.
    - destruct (ignore_exc cfg); [rewrite rn_remove|]; reflexivity.
    - rewrite rn_nth_cb. destruct (nth cb (cbs cfg) (CbNone, [])) as [rk ops]. unfold rn_cb. cbn [fst snd].
      assert (N1 : (n0 <= next_id (set_dev (upd_track tl tr1) n'))%nat) by exact N.
      rewrite rn_exec_cb_ops by exact N1. rewrite rn_cb_completes by exact N1.
      destruct (match rk with CbStop => cb_completes cfg (set_dev (upd_track tl tr1) n') ops | _ => false end);
        [rewrite rn_end_stream|]; rewrite rn_finish; reflexivity.
    - reflexivity.
  Qed.

  Lemma rn_phase_tracks cfg ids : forall tl calls, (n0 <= next_id tl)%nat ->
    phase_tracks (rn_cfg cfg) (rn_tl tl) (map f ids) calls =
    let '(tl', c, r) := phase_tracks cfg tl ids calls in (rn_tl tl', c, r).
  Proof.
    induction ids as [|id r IH]; intros tl calls N; [reflexivity|]. cbn [map phase_tracks]. rewrite rn_tick_one by exact N.
    pose proof (tick_one_next_le cfg tl id) as L. destruct (tick_one cfg tl id) as [[tl' c] ab]. cbn [fst] in L.
    destruct ab; [reflexivity|]. apply IH. lia.
  Qed.

  Theorem rn_tl_tick cfg tl : (n0 <= next_id tl)%nat ->
    tl_tick (rn_cfg cfg) (rn_tl tl) = let '(tl', c, r) := tl_tick cfg tl in (rn_tl tl', c, r).
  Proof.
    intros N. unfold tl_tick. change (tracks (rn_tl tl)) with (map rn_track (tracks tl)). rewrite rn_phase_noteoffs.
    destruct (phase_noteoffs (tracks tl)) as [trs1 c1]. cbn [fst snd].
    change (set_actions (set_tracks (rn_tl tl) (map rn_track trs1)) []) with (rn_tl (set_actions (set_tracks tl trs1) [])).
    change (actions (set_tracks (rn_tl tl) (map rn_track trs1))) with (map rn_action (actions (set_tracks tl trs1))).
    pose proof (rn_phase_actions (actions (set_tracks tl trs1)) (set_actions (set_tracks tl trs1) []) [] []) as PA.
    change (map rn_action []) with (@nil action) in PA. rewrite PA. clear PA.
    pose proof (phase_actions_next (actions (set_tracks tl trs1)) (set_actions (set_tracks tl trs1) []) [] []) as PN.
    destruct (phase_actions (set_actions (set_tracks tl trs1) []) (actions (set_tracks tl trs1)) [] []) as [[tl2 kept] c3].
    cbn [fst set_actions set_tracks next_id] in PN.
    change (actions (rn_tl tl2)) with (map rn_action (actions tl2)). rewrite <- map_app.
    change (set_actions (rn_tl tl2) (map rn_action (kept ++ actions tl2))) with (rn_tl (set_actions tl2 (kept ++ actions tl2))).
    set (tl3 := set_actions tl2 (kept ++ actions tl2)).
    assert (N3 : (n0 <= next_id tl3)%nat) by (subst tl3; cbn [set_actions next_id]; lia).
    change (tracks (rn_tl tl3)) with (map rn_track (tracks tl3)). rewrite map_map.
    change (map (fun x => t_id (rn_track x)) (tracks tl3)) with (map (fun x => f (t_id x)) (tracks tl3)).
    rewrite <- (map_map t_id f). rewrite rn_phase_tracks by exact N3.
    destruct (phase_tracks cfg tl3 (map t_id (tracks tl3)) []) as [[tl4 c4] res].
    change (stop_when_done (rn_cfg cfg)) with (stop_when_done cfg). change (tau (rn_cfg cfg)) with (tau cfg).
    destruct res; try reflexivity.
    change (tracks (rn_tl tl4)) with (map rn_track (tracks tl4)). change (actions (rn_tl tl4)) with (map rn_action (actions tl4)).
    destruct (tracks tl4); destruct (actions tl4); cbn [map andb]; destruct (stop_when_done cfg); reflexivity.
  Qed.

  Theorem rn_step cfg tl o : (n0 <= next_id tl)%nat ->
    step (rn_cfg cfg) (rn_tl tl) (rn_op o) = let '(tl', c, r) := step cfg tl o in (rn_tl tl', c, r).
  Proof.
    intros N. destruct o; [exact (rn_tl_tick cfg tl N)|..];
      (rewrite (step_exec (rn_cfg cfg)) by (cbn [rn_op]; discriminate); rewrite rn_exec_op by exact N;
       rewrite (step_exec cfg) by discriminate; reflexivity).
  Qed.

  (** ** Histories *)
  Theorem rn_run_state cfg ops : forall tl, (n0 <= next_id tl)%nat ->
    run_state (rn_cfg cfg) (rn_tl tl) (map rn_op ops) = rn_tl (run_state cfg tl ops).
  Proof.
    induction ops as [|o r IH]; intros tl N; [reflexivity|]. cbn [map run_state]. rewrite rn_step by exact N.
    pose proof (step_next_le cfg tl o) as L. destruct (step cfg tl o) as [[tl' c] res]. cbn [fst] in L. apply IH. lia.
  Qed.
  Theorem rn_tick_calls cfg ops : forall tl, (n0 <= next_id tl)%nat ->
    tick_calls (rn_cfg cfg) (rn_tl tl) (map rn_op ops) = tick_calls cfg tl ops.
  Proof.
    induction ops as [|o r IH]; intros tl N; [reflexivity|]. cbn [map tick_calls]. rewrite rn_step by exact N.
    pose proof (step_next_le cfg tl o) as L. destruct (step cfg tl o) as [[tl' c] res]. cbn [fst] in L.
    rewrite IH by lia. destruct o; reflexivity.
  Qed.
  Theorem rn_all_ticks_ok cfg ops : forall tl, (n0 <= next_id tl)%nat ->
    all_ticks_ok (rn_cfg cfg) (rn_tl tl) (map rn_op ops) = all_ticks_ok cfg tl ops.
  Proof.
    induction ops as [|o r IH]; intros tl N; [reflexivity|]. cbn [map all_ticks_ok]. rewrite rn_step by exact N.
    pose proof (step_next_le cfg tl o) as L. destruct (step cfg tl o) as [[tl' c] res]. cbn [fst] in L.
    rewrite IH by lia. destruct o; reflexivity.
  Qed.
  (* the full observation: calls and results are the same, the ids of the scheduled tracks are the renamed ids *)
  Theorem rn_run cfg ops : forall tl, (n0 <= next_id tl)%nat ->
    run (rn_cfg cfg) (rn_tl tl) (map rn_op ops) = map (fun ob : obs => (fst ob, map f (snd ob))) (run cfg tl ops).
  Proof.
    induction ops as [|o r IH]; intros tl N; [reflexivity|]. cbn [map run]. rewrite rn_step by exact N.
    pose proof (step_next_le cfg tl o) as L. destruct (step cfg tl o) as [[tl' c] res]. cbn [fst] in L.
    rewrite IH by lia. cbn [map fst snd]. change (tracks (rn_tl tl')) with (map rn_track (tracks tl')).
    rewrite !map_map. reflexivity.
  Qed.
End Rename.

(** * Solo runs: the id of the only track is immaterial *)
(* the same operation on the track named [a] *)
Definition retarget (a : nat) (o : op) : op :=
  match o with
  | OUpdate _ s q d c => OUpdate a s q d c
  | OUnschedule _ => OUnschedule a
  | OMute _ => OMute a
  | OUnmute _ => OUnmute a
  | ONudge _ x => ONudge a x
  | _ => o
  end.

Lemma rn_retarget f a o : rn_op f (retarget a o) = retarget (f a) o.
Proof. destruct o; reflexivity. Qed.

(* every operation of the solo history of track i names track i *)
Lemma solo_targets i h : forall k, map (retarget i) (solo i k h) = solo i k h.
Proof.
  induction h as [|o r IH]; intros k; [reflexivity|]. cbn [solo]. rewrite map_app, IH. f_equal.
  destruct o; cbn [op_keep]; try reflexivity;
    match goal with |- context [(?t =? i)%nat] => destruct (t =? i)%nat eqn:E; [apply Nat.eqb_eq in E; subst; reflexivity|reflexivity] end.
Qed.

Lemma rn_solo f i k h : map (rn_op f) (solo i k h) = map (retarget (f i)) (solo i k h).
Proof.
  rewrite <- (solo_targets i h k) at 1. rewrite map_map. apply map_ext. intros o. apply rn_retarget.
Qed.

Lemma rn_cfg_noops f cfg : cb_noops cfg = true -> rn_cfg f cfg = cfg.
Proof.
  intros H. destruct cfg as [ta cb la mt sw ig df fu]. unfold rn_cfg, cb_noops in *. cbn in *. f_equal.
  induction cb as [|[rk ops] r IH]; [reflexivity|]. cbn in *. destruct ops; [|discriminate]. rewrite (IH H). reflexivity.
Qed.

Definition shift (k x : nat) : nat := (x + k)%nat.
Lemma shift_mono k a b : (a < b)%nat -> (shift k a < shift k b)%nat.
Proof. unfold shift. lia. Qed.
Lemma shift_S k m : (0 <= m)%nat -> shift k (S m) = S (shift k m).
Proof. reflexivity. Qed.

(* the solo run of a track scheduled as number i+k is the solo run of the track scheduled as number i, renamed *)
Theorem solo_shift cfg i k h : cb_noops cfg = true ->
  tick_calls cfg (tl_at (i + k)) (map (retarget (i + k)%nat) (solo i 0 h)) = tick_calls cfg (tl_at i) (solo i 0 h)
  /\ run_state cfg (tl_at (i + k)) (map (retarget (i + k)%nat) (solo i 0 h)) = rn_tl (shift k) (run_state cfg (tl_at i) (solo i 0 h))
  /\ all_ticks_ok cfg (tl_at (i + k)) (map (retarget (i + k)%nat) (solo i 0 h)) = all_ticks_ok cfg (tl_at i) (solo i 0 h).
Proof.
  intros C.
  pose proof (rn_tick_calls (shift k) (shift_mono k) 0%nat (shift_S k) cfg (solo i 0 h) (tl_at i) (Nat.le_0_l _)) as T.
  pose proof (rn_run_state (shift k) (shift_mono k) 0%nat (shift_S k) cfg (solo i 0 h) (tl_at i) (Nat.le_0_l _)) as R.
  pose proof (rn_all_ticks_ok (shift k) (shift_mono k) 0%nat (shift_S k) cfg (solo i 0 h) (tl_at i) (Nat.le_0_l _)) as A.
  rewrite (rn_cfg_noops _ _ C), rn_solo in T, R, A.
  change (rn_tl (shift k) (tl_at i)) with (tl_at (i + k)) in T, R, A. change (shift k i) with (i + k)%nat in T, R, A.
  exact (conj T (conj R A)).
Qed.

(* in either direction *)
Theorem solo_retarget cfg i i' h : cb_noops cfg = true ->
  tick_calls cfg (tl_at i') (map (retarget i') (solo i 0 h)) = tick_calls cfg (tl_at i) (solo i 0 h).
Proof.
  intros C. destruct (Nat.le_ge_cases i i') as [L|L].
  - replace i' with (i + (i' - i))%nat by lia. apply solo_shift. exact C.
  - pose proof (rn_tick_calls (shift (i - i')) (shift_mono _) 0%nat (shift_S _) cfg (map (retarget i') (solo i 0 h)) (tl_at i') (Nat.le_0_l _)) as T.
    rewrite (rn_cfg_noops _ _ C), map_map in T.
    rewrite (map_ext _ (retarget (shift (i - i') i')) (fun o => rn_retarget _ _ o)) in T.
    change (rn_tl (shift (i - i')) (tl_at i')) with (tl_at (i' + (i - i'))) in T. unfold shift in T.
    replace (i' + (i - i'))%nat with i in T by lia. rewrite solo_targets in T. symmetry. exact T.
Qed.

Lemma uncoupled_noops cfg : uncoupled cfg = true -> cb_noops cfg = true.
Proof.
  unfold uncoupled. intros U. apply andb_true_iff in U as [U _]. apply andb_true_iff in U as [U _].
  apply andb_true_iff in U as [_ U]. exact U.
Qed.

(* two joint histories whose solo histories for the observed track agree up to the NAME of the track (it is track i in
   h, track i' in h') make the same calls for it *)
Theorem same_solo_renamed_same_calls i i' pc pb cfg h h' :
  uncoupled cfg = true -> hist_wf i pc pb 0 h = true -> hist_wf i' pc pb 0 h' = true ->
  all_ticks_ok cfg tl0 h = true -> all_ticks_ok cfg tl0 h' = true ->
  solo i' 0 h' = map (retarget i') (solo i 0 h) ->
  map (filter (call_ok pc pb)) (tick_calls cfg tl0 h) = map (filter (call_ok pc pb)) (tick_calls cfg tl0 h').
Proof.
  intros U W W' A A' E.
  destruct (merge_from_empty i pc pb cfg h U W A) as [M _]. destruct (merge_from_empty i' pc pb cfg h' U W' A') as [M' _].
  rewrite <- M, <- M', E. symmetry. apply solo_retarget. apply uncoupled_noops. exact U.
Qed.

(** * The history in which track j was never scheduled *)
(* ids of the tracks scheduled after j move down by one *)
Definition dn (j t : nat) : nat := if (j <? t)%nat then Nat.pred t else t.
(* [k]: the id the next schedule call creates in the original history *)
Definition drop_op (j k : nat) (o : op) : list op :=
  match o with
  | OSchedule _ _ _ _ _ _ _ => if (k =? j)%nat then [] else [o]
  | OUpdate t s q d c => if (t =? j)%nat then [] else [OUpdate (dn j t) s q d c]
  | OUnschedule t => if (t =? j)%nat then [] else [OUnschedule (dn j t)]
  | OMute t => if (t =? j)%nat then [] else [OMute (dn j t)]
  | OUnmute t => if (t =? j)%nat then [] else [OUnmute (dn j t)]
  | ONudge t x => if (t =? j)%nat then [] else [ONudge (dn j t) x]
  | _ => [o]
  end.
Fixpoint drop_track (j k : nat) (h : list op) : list op :=
  match h with
  | [] => []
  | o :: r => drop_op j k o ++ drop_track j (op_next k o) r
  end.

Lemma dn_eqb j a b : a <> j -> b <> j -> (dn j a =? dn j b)%nat = (a =? b)%nat.
Proof.
  intros Ha Hb. unfold dn. destruct (j <? a)%nat eqn:E1; destruct (j <? b)%nat eqn:E2;
    destruct (a =? b)%nat eqn:E3; try (apply Nat.eqb_eq); try (apply Nat.eqb_neq); lia.
Qed.
Lemma dn_S j k : k <> j -> dn j (S k) = S (dn j k).
Proof. intros H. unfold dn. destruct (j <? S k)%nat eqn:E1; destruct (j <? k)%nat eqn:E2; lia. Qed.
Lemma dn_Sj j : dn j (S j) = dn j j.
Proof. unfold dn. destruct (j <? S j)%nat eqn:E1; destruct (j <? j)%nat eqn:E2; lia. Qed.

Lemma drop_solo i j h : j <> i -> forall k,
  solo (dn j i) (dn j k) (drop_track j k h) = map (retarget (dn j i)) (solo i k h).
Proof.
  intros Hji. induction h as [|o r IH]; intros k; [reflexivity|]. cbn [drop_track solo]. rewrite map_app, <- IH. clear IH.
  destruct o as [|s q d c rwd nm rp|t s q d c|t| |t|t|t x|q d]; cbn [drop_op op_keep op_next app map]; try reflexivity.
  - destruct (k =? j)%nat eqn:E.
    + apply Nat.eqb_eq in E. subst k. assert (Ei : (j =? i)%nat = false) by (apply Nat.eqb_neq; exact Hji).
      rewrite Ei. cbn [app map]. rewrite dn_Sj. reflexivity.
    + apply Nat.eqb_neq in E. cbn [app solo op_keep op_next]. rewrite (dn_eqb j k i E (not_eq_sym Hji)), (dn_S j k E).
      destruct (k =? i)%nat; reflexivity.
  - destruct (t =? j)%nat eqn:E.
    + apply Nat.eqb_eq in E. subst t. assert (Ei : (j =? i)%nat = false) by (apply Nat.eqb_neq; exact Hji). rewrite Ei. reflexivity.
    + apply Nat.eqb_neq in E. cbn [app solo op_keep op_next]. rewrite (dn_eqb j t i E (not_eq_sym Hji)).
      destruct (t =? i)%nat eqn:E2; [apply Nat.eqb_eq in E2; subst t|]; reflexivity.
  - destruct (t =? j)%nat eqn:E.
    + apply Nat.eqb_eq in E. subst t. assert (Ei : (j =? i)%nat = false) by (apply Nat.eqb_neq; exact Hji). rewrite Ei. reflexivity.
    + apply Nat.eqb_neq in E. cbn [app solo op_keep op_next]. rewrite (dn_eqb j t i E (not_eq_sym Hji)).
      destruct (t =? i)%nat eqn:E2; [apply Nat.eqb_eq in E2; subst t|]; reflexivity.
  - destruct (t =? j)%nat eqn:E.
    + apply Nat.eqb_eq in E. subst t. assert (Ei : (j =? i)%nat = false) by (apply Nat.eqb_neq; exact Hji). rewrite Ei. reflexivity.
    + apply Nat.eqb_neq in E. cbn [app solo op_keep op_next]. rewrite (dn_eqb j t i E (not_eq_sym Hji)).
      destruct (t =? i)%nat eqn:E2; [apply Nat.eqb_eq in E2; subst t|]; reflexivity.
  - destruct (t =? j)%nat eqn:E.
    + apply Nat.eqb_eq in E. subst t. assert (Ei : (j =? i)%nat = false) by (apply Nat.eqb_neq; exact Hji). rewrite Ei. reflexivity.
    + apply Nat.eqb_neq in E. cbn [app solo op_keep op_next]. rewrite (dn_eqb j t i E (not_eq_sym Hji)).
      destruct (t =? i)%nat eqn:E2; [apply Nat.eqb_eq in E2; subst t|]; reflexivity.
  - destruct (t =? j)%nat eqn:E.
    + apply Nat.eqb_eq in E. subst t. assert (Ei : (j =? i)%nat = false) by (apply Nat.eqb_neq; exact Hji). rewrite Ei. reflexivity.
    + apply Nat.eqb_neq in E. cbn [app solo op_keep op_next]. rewrite (dn_eqb j t i E (not_eq_sym Hji)).
      destruct (t =? i)%nat eqn:E2; [apply Nat.eqb_eq in E2; subst t|]; reflexivity.
Qed.

Lemma drop_wf i j pc pb h : j <> i -> forall k, hist_wf i pc pb k h = true ->
  hist_wf (dn j i) pc pb (dn j k) (drop_track j k h) = true.
Proof.
  intros Hji. induction h as [|o r IH]; intros k W; [reflexivity|]. cbn [hist_wf] in W. apply andb_true_iff in W as [W1 W2].
  specialize (IH _ W2). cbn [drop_track].
  destruct o as [|s q d c rwd nm rp|t s q d c|t| |t|t|t x|q d]; cbn [drop_op op_next app hist_wf op_wf] in *; try exact IH.
  - destruct (k =? j)%nat eqn:E.
    + apply Nat.eqb_eq in E. subst k. cbn [app]. rewrite <- dn_Sj. exact IH.
    + apply Nat.eqb_neq in E. cbn [app hist_wf op_wf op_next]. rewrite (dn_eqb j k i E (not_eq_sym Hji)), <- (dn_S j k E), W1. exact IH.
  - destruct (t =? j)%nat eqn:E; [exact IH|].
    apply Nat.eqb_neq in E. cbn [app hist_wf op_wf op_next]. rewrite (dn_eqb j t i E (not_eq_sym Hji)), W1. exact IH.
  - destruct (t =? j)%nat; exact IH.
  - destruct (t =? j)%nat; exact IH.
  - destruct (t =? j)%nat; exact IH.
  - destruct (t =? j)%nat; exact IH.
Qed.

(* the calls of track i are the same in the run from which another track j - scheduled before OR after i - has been
   left out altogether *)
Theorem same_calls_without i j pc pb cfg h : j <> i ->
  uncoupled cfg = true -> hist_wf i pc pb 0 h = true ->
  all_ticks_ok cfg tl0 h = true -> all_ticks_ok cfg tl0 (drop_track j 0 h) = true ->
  map (filter (call_ok pc pb)) (tick_calls cfg tl0 h) = map (filter (call_ok pc pb)) (tick_calls cfg tl0 (drop_track j 0 h)).
Proof.
  intros Hji U W A A'.
  apply (same_solo_renamed_same_calls i (dn j i) pc pb cfg h (drop_track j 0 h) U W); try assumption.
  - exact (drop_wf i j pc pb h Hji 0%nat W).
  - exact (drop_solo i j h Hji 0%nat).
Qed.

(* Sched/NotationTracks.v — tracks whose event values are written in STRING SHORTHAND (C07, composition of the notation
   model Notation/Parser.v + Notation/PSeq.v with the scheduler model Sched/Model.v).

   isobar/pattern/core.py   PDict.__init__: every value of an event dictionary goes through Pattern.pattern(v); a str is
                            handed to parse_notation (a ValueError falls back to PConstant(str)).  parse_notation BUILDS
                            a new tree of PSequence objects at every call: nothing is kept between calls.
                            PDict.__next__ asks every value pattern for ONE value per event.
   So an event dictionary {note: sn, duration: sd, amplitude: sa, gate: g, channel: ch} given to Timeline.schedule yields
   the event stream whose k-th event is built from the k-th outputs of the three freshly parsed trees.

   1. [obj store]  the pattern objects of a process: NNew s creates a NEW object from the string (never shares with an
      earlier one), NNext o asks object o for its next value.  
   2. [notation_stream]  the stream of Sched/Model.v that such a dictionary yields (first N events).  No proofs here. *)
From Isobar Require Import Base.Prelude Notation.Lexer Notation.Parser Notation.PSeq Sched.Model.
Local Notation length := List.length (only parsing).

(** * The pattern objects of a process *)
(* Pattern.pattern(s) for a str s: the object it returns, in its initial state *)
Definition object_of (uw : Z -> bool) (s : str) : outcome pnode :=
  match patternify uw s with
  | Ok (PatSeq g) => Ok (pattern_of g)
  | Ok (PatConst t) => Ok (PLeaf (VStr t))         (* PConstant(s) *)
  | Reject => Reject | Crash => Crash | OutOfFuel => OutOfFuel
  end.

Inductive nact :=
| NNew (s : str)         (* Pattern.pattern(s): a track is scheduled / updated / a PSequence(s) is built *)
| NNext (o : nat).       (* next(object o): the o-th object created *)
Inductive nout := NVal (v : value) | NStop | NNoObj | NBad | NCreated.

Fixpoint set_obj (n : nat) (x : pnode) (l : list pnode) : list pnode :=
  match l, n with
  | [], _ => []
  | _ :: r, O => x :: r
  | y :: r, S n' => y :: set_obj n' x r
  end.

Fixpoint nrun (uw : Z -> bool) (st : list pnode) (p : list nact) : list nout :=
  match p with
  | [] => []
  | NNew s :: r => match object_of uw s with
                   | Ok ob => NCreated :: nrun uw (st ++ [ob]) r
                   | _ => NBad :: nrun uw st r
                   end
  | NNext o :: r => match nth_error st o with
                    | None => NNoObj :: nrun uw st r
                    | Some ob => match pnext ob with
                                 | Some (v, ob') => NVal v :: nrun uw (set_obj o ob' st) r
                                 | None => NStop :: nrun uw st r
                                 end
                    end
  end.
Fixpoint nstate (uw : Z -> bool) (st : list pnode) (p : list nact) : list pnode :=
  match p with
  | [] => st
  | NNew s :: r => match object_of uw s with Ok ob => nstate uw (st ++ [ob]) r | _ => nstate uw st r end
  | NNext o :: r => match nth_error st o with
                    | None => nstate uw st r
                    | Some ob => match pnext ob with Some (_, ob') => nstate uw (set_obj o ob' st) r | None => nstate uw st r end
                    end
  end.
(* how often object o is asked by a program *)
Fixpoint asks (o : nat) (p : list nact) : nat :=
  match p with
  | [] => O
  | NNext o' :: r => ((if (o' =? o)%nat then 1 else 0) + asks o r)%nat
  | _ :: r => asks o r
  end.

(** * The event stream of a track scheduled from a dictionary of notation strings *)
(* a duration written as an integer or a decimal, in units of 1/U beat (None: not a whole number of units) *)
Fixpoint digits_val (acc : Z) (s : str) : Z := match s with [] => acc | c :: r => digits_val (acc * 10 + (c - 48)) r end.
Fixpoint split_dot (s : str) : str * str :=
  match s with
  | [] => ([], [])
  | c :: r => if c =? ch_dot then ([], r) else let '(a, b) := split_dot r in (c :: a, b)
  end.
Definition units (U : Z) (v : value) : option Z :=
  match v with
  | VInt z => Some (z * U)
  | VFloat text =>
      let neg := match text with c :: _ => c =? ch_minus | [] => false end in
      let body := if neg then tl text else text in
      let '(a, b) := split_dot body in
      let den := 10 ^ Z.of_nat (length b) in
      let num := digits_val 0 a * den + digits_val 0 b in
      if (num * U) mod den =? 0 then Some ((if neg then -1 else 1) * (num * U / den)) else None
  | VStr _ => None
  end.

(* the event built from one value of each pattern: Event(...) of a note dictionary; anything but an integer note /
   amplitude or a duration off the unit grid is outside the modelled domain (RRaise) *)
Definition note_event (U chan gnum gden : Z) (n d a : value) : evres :=
  match n, units U d, a with
  | VInt note, Some du, VInt amp =>
      if (du * gnum) mod gden =? 0
      then REvent (mkEvent du true (KNote [mkVoice note (Some amp) chan (Some (du * gnum / gden))]))
      else RRaise
  | _, _, _ => RRaise
  end.
Fixpoint zip3 (f : value -> value -> value -> evres) (a b c : list value) : list evres :=
  match a, b, c with
  | x :: a', y :: b', z :: c' => f x y z :: zip3 f a' b' c'
  | _, _, _ => []
  end.
(* first N events of the dictionary {note: sn, duration: sd, amplitude: sa, gate: gnum/gden, channel: chan} *)
Definition notation_stream (uw : Z -> bool) (U chan gnum gden : Z) (N : nat) (sn sd sa : str) : outcome stream :=
  bind (object_of uw sn) (fun pn => bind (object_of uw sd) (fun pd => bind (object_of uw sa) (fun pa =>
    Ok (mkStream (zip3 (note_event U chan gnum gden) (fst (pnextn N pn)) (fst (pnextn N pd)) (fst (pnextn N pa))) 0 false)))).
Definition stream_or_empty (o : outcome stream) : stream := match o with Ok s => s | _ => empty_stream end.

(* Sched/InterpRetimeProofs.v — lemmas about interpolated control tracks under a changing resolution
   (Sched/InterpRetime.v).  Main result: [runv_spec] — for EVERY assignment R of a resolution to every tick and every
   event stream, the per-tick trace of the track machine is the closed form [spec] of Sched/InterpProofs.v at 1 tick
   per beat of the RE-TIMED stream, in which every duration has been replaced by the number of steps that the
   resolution in force on the segment's planning tick gives it.  Everything the fixed-resolution lemmas say about
   [spec] therefore carries over. *)
From Isobar Require Import Base.Prelude Sched.Interp Sched.InterpProofs Sched.InterpRetime.
From Coq Require Import QArith Qround Qabs String Lqa Lra Psatz.
Local Notation length := List.length (only parsing).
Local Open Scope Z_scope.

(** * Traces under a resolution that depends on the tick *)

Section RTraces.
Variable cospi : Q -> Q.
Variable R : nat -> Z.
Variable mode : imode.
Variable maxc : option Z.

Notation runV := (runv cospi R mode maxc).
Notation tickV t := (tick cospi (R t) mode maxc).

Definition tracesv (t : nat) (st : tstate) (L : list outcome) : Prop := forall n, runV t n st = pad n L.
Definition emitsv (t : nat) (st : tstate) (L : list outcome) (st' : tstate) : Prop :=
  forall n, runV t n st = firstn n L ++ runV (t + length L) (n - length L) st'.

Lemma runv_S t n st : runV t (S n) st = fst (tickV t st) :: runV (S t) n (snd (tickV t st)).
Proof. simpl. destruct (tick cospi (R t) mode maxc st); reflexivity. Qed.

Lemma tracesv_dead t : tracesv t dead [].
Proof.
  intros n. unfold pad. rewrite firstn_nil. simpl. rewrite Nat.sub_0_r.
  revert t. induction n; intros t; [reflexivity|]. rewrite runv_S. simpl. f_equal. apply IHn.
Qed.

Lemma tracesv_tick t st o st' L : tickV t st = (o, st') -> tracesv (S t) st' L -> tracesv t st (o :: L).
Proof.
  intros Ht H [|n]; [reflexivity|]. rewrite runv_S, Ht. simpl. unfold pad. simpl. f_equal. apply H.
Qed.

Lemma tracesv_tick_none t st st' : tickV t st = (ONone, st') -> tracesv (S t) st' [] -> tracesv t st [].
Proof.
  intros Ht H [|n]; [reflexivity|]. rewrite runv_S, Ht. simpl.
  rewrite (H n). unfold pad. rewrite !firstn_nil. simpl. rewrite Nat.sub_0_r. reflexivity.
Qed.

Lemma emitsv_nil t st : emitsv t st [] st.
Proof. intros n. rewrite firstn_nil. simpl. rewrite Nat.sub_0_r, Nat.add_0_r. reflexivity. Qed.

Lemma emitsv_tick t st o st' L st'' : tickV t st = (o, st') -> emitsv (S t) st' L st'' -> emitsv t st (o :: L) st''.
Proof.
  intros Ht H [|n]; [reflexivity|]. rewrite runv_S, Ht. simpl. f_equal. rewrite (H n).
  replace (S t + length L)%nat with (t + S (length L))%nat by lia. reflexivity.
Qed.

Lemma emitsv_tracesv t st L1 st1 L2 : emitsv t st L1 st1 -> tracesv (t + length L1) st1 L2 -> tracesv t st (L1 ++ L2).
Proof.
  intros H1 H2 n. rewrite (H1 n), (H2 (n - length L1)%nat). unfold pad.
  rewrite firstn_app, app_length, <- app_assoc. f_equal. f_equal. f_equal. lia.
Qed.

(** * One segment of D steps: the resolution is not looked at while it is under way *)

Definition seg_outs_d (D : Z) (cur nxt : event) : list outcome :=
  map (fun j => emit (fun a b => step_value cospi mode a b D j) cur nxt) (seq 0 (Z.to_nat D)).

Lemma seg_emits_v cur nxt s c nx D : 1 <= D ->
  forall m j t fs, (j + m = Z.to_nat D)%nat ->
  build_with (seg_state cospi mode D j) (e_fields cur) (e_fields nxt) = Some fs ->
  exists fs', build_with (seg_state cospi mode D (Z.to_nat D)) (e_fields cur) (e_fields nxt) = Some fs' /\
    emitsv t (mkT s c nx (Some (D, fs)) false)
           (map (fun j => emit (fun a b => step_value cospi mode a b D j) cur nxt) (seq j m))
           (mkT s c nx (Some (D, fs')) false).
Proof.
  intros HD. induction m as [|m IH]; intros j t fs Hj Hb.
  - replace j with (Z.to_nat D) in Hb by lia. exists fs. split; [exact Hb|]. apply emitsv_nil.
  - destruct (pd_step cospi mode D (seg_state cospi mode D j) (seg_state cospi mode D (S j))
                (fun a b => step_value cospi mode a b D j) (e_fields nxt)
                ltac:(intros a b; apply pi_seg_next; [exact HD|lia]) _ _ Hb) as [fs1 [E1 E2]].
    destruct (IH (S j) (S t) fs1 ltac:(lia) E2) as [fs' [E3 E4]].
    exists fs'. split; [exact E3|]. simpl. eapply emitsv_tick; [|exact E4].
    unfold tick. cbn [t_dead t_ie t_stream t_count t_next]. rewrite E1. reflexivity.
Qed.

(** * The track: what a stream of events makes it send *)

(* what the track sends from tick t on, on which cur becomes the current point; rest = the points after it.
   The number of steps of a segment is fixed by the resolution in force on the tick on which it is planned. *)
Fixpoint vspec_open (t : nat) (first : bool) (cur : event) (rest : list event) : list outcome :=
  match rest with
  | [] => []
  | nxt :: rest' =>
      let D := dur_steps (R t) (e_dur cur) in
      if D <=? 0 then vspec_open t first nxt rest'
      else if negb (e_ctl cur && e_ctl nxt) then [OInvalid]
      else match build_fields (e_fields cur) (e_fields nxt) with
           | None => [OErr]
           | Some _ => (if first then [emit raw_val cur nxt] else [])
                       ++ seg_outs_d D cur nxt ++ vspec_open (t + b2n first + Z.to_nat D)%nat false nxt rest'
           end
  end.

Definition goodv (t : nat) (p : outcome * tstate) (L : list outcome) : Prop :=
  (L = [] /\ fst p = ONone /\ tracesv (S t) (snd p) []) \/ (exists L', L = fst p :: L' /\ tracesv (S t) (snd p) L').

Lemma tick_goodv t st L : goodv t (tickV t st) L -> tracesv t st L.
Proof.
  destruct (tick cospi (R t) mode maxc st) as [o st'] eqn:Et. intros [[-> [Ho H]]|[L' [-> H]]]; simpl in *.
  - subst o. eapply tracesv_tick_none; eauto.
  - eapply tracesv_tick; eauto.
Qed.

Lemma open_segment_good_v : forall stream t first cur count,
  has_num (e_fields cur) = true -> all_num stream ->
  goodv t (open_segment cospi (R t) mode maxc first cur stream count)
        (vspec_open t first cur (eff maxc count stream)).
Proof.
  induction stream as [|nxt rest IH]; intros t first cur count Hc Hs.
  - left. unfold open_segment, get_next. simpl. destruct (limit_reached maxc count); simpl;
      (split; [reflexivity|split; [reflexivity|apply tracesv_dead]]).
  - simpl eff. destruct (limit_reached maxc count) eqn:El.
    + left. unfold open_segment, get_next. rewrite El. simpl.
      split; [reflexivity|split; [reflexivity|apply tracesv_dead]].
    + inversion Hs as [|x y Hn Hr]; subst.
      cbn [vspec_open]. set (D := dur_steps (R t) (e_dur cur)). destruct (D <=? 0) eqn:Ez.
      * rewrite open_skip by assumption. apply IH; assumption.
      * assert (HD : 1 <= D) by lia.
        unfold open_segment, get_next. rewrite El.
        assert (Esk : skip_zero (R t) maxc cur nxt rest (count + 1) = Some (cur, nxt, rest, count + 1))
          by (destruct rest; simpl; fold D; rewrite Ez; reflexivity).
        rewrite Esk; clear Esk.
        destruct (negb (e_ctl cur && e_ctl nxt)) eqn:Ectl;
          [right; exists []; split; [reflexivity|apply tracesv_dead]|].
        rewrite build_fields_with.
        destruct (build_with pi_fresh (e_fields cur) (e_fields nxt)) as [fs|] eqn:Eb;
          [|right; exists []; split; [reflexivity|apply tracesv_dead]].
        right. fold D.
        destruct (pd_step cospi mode D pi_fresh (seg_state cospi mode D 0) raw_val (e_fields nxt)
                    ltac:(intros a b; apply pi_fresh_next) _ _ Eb) as [fs0 [E1 E2]].
        (* the boundary tick after the segment: the next segment is planned at the resolution in force THEN *)
        assert (Hboundary : forall t' fsD,
                 build_with (seg_state cospi mode D (Z.to_nat D)) (e_fields cur) (e_fields nxt) = Some fsD ->
                 tracesv t' (mkT rest (count + 1) (Some nxt) (Some (D, fsD)) false)
                         (vspec_open t' false nxt (eff maxc (count + 1) rest)))
          by (intros t' fsD HfsD; apply tick_goodv; unfold tick; cbn [t_dead t_ie t_stream t_count t_next];
              rewrite (pd_stop cospi mode D _ (e_fields nxt) ltac:(intros a b; apply pi_seg_stop; exact HD) _ _ Hc HfsD);
              unfold advance; cbn [t_next t_stream t_count]; apply IH; assumption).
        destruct first.
        -- rewrite E1.
           destruct (seg_emits_v cur nxt rest (count + 1) (Some nxt) D HD (Z.to_nat D) 0%nat (S t) fs0 ltac:(lia) E2)
             as [fsD [E3 E4]].
           eexists. split; [reflexivity|]. cbn [snd]. eapply emitsv_tracesv; [exact E4|].
           unfold seg_outs_d. rewrite map_length, seq_length.
           replace (S t + Z.to_nat D)%nat with (t + b2n true + Z.to_nat D)%nat by (simpl; lia).
           apply Hboundary. exact E3.
        -- rewrite E1.
           destruct (pd_step cospi mode D (seg_state cospi mode D 0) (seg_state cospi mode D 1)
                       (fun a b => step_value cospi mode a b D 0) (e_fields nxt)
                       ltac:(intros a b; apply pi_seg_next; [exact HD|lia]) _ _ E2) as [fs1 [E5 E6]].
           rewrite E5.
           destruct (seg_emits_v cur nxt rest (count + 1) (Some nxt) D HD (Z.to_nat D - 1)%nat 1%nat (S t) fs1 ltac:(lia) E6)
             as [fsD [E3 E4]].
           unfold seg_outs_d. destruct (Z.to_nat D) as [|m] eqn:Em; [lia|].
           cbn [seq map app fst snd]. eexists. split; [reflexivity|].
           replace (S m - 1)%nat with m in E4 by lia.
           eapply emitsv_tracesv; [exact E4|].
           rewrite map_length, seq_length.
           replace (S t + m)%nat with (t + b2n false + S m)%nat by (simpl; lia).
           apply Hboundary. exact E3.
Qed.

Definition vspec (t : nat) (events : list event) : list outcome :=
  match events with [] => [] | e :: r => vspec_open t true e r end.

Theorem runv_vspec t events : all_num events -> tracesv t (init events) (vspec t (eff maxc 0 events)).
Proof.
  intros Hn. apply tick_goodv. unfold tick, init. cbn [t_dead t_ie]. unfold advance. cbn [t_next t_stream t_count].
  destruct events as [|e r].
  - left. unfold get_next. destruct (limit_reached maxc 0); simpl;
      (split; [reflexivity|split; [reflexivity|apply tracesv_dead]]).
  - unfold get_next. simpl eff. destruct (limit_reached maxc 0) eqn:El.
    + left. split; [reflexivity|split; [reflexivity|apply tracesv_dead]].
    + inversion Hn; subst. simpl vspec. apply open_segment_good_v; assumption.
Qed.

End RTraces.

(** * The re-timed stream *)

Lemma dur_set D : dur_steps 1 (inject_Z D) = D.
Proof.
  apply dur_steps_whole; change (inject_Z 1) with 1%Q; rewrite Qmult_1_r.
  - apply Qplus_lt_l with (z := (1 # 200000000)%Q). ring_simplify.
    rewrite <- (Qplus_0_r (inject_Z D)) at 1. apply Qplus_lt_r. reflexivity.
  - rewrite <- (Qplus_0_r (inject_Z D)) at 1. apply Qplus_lt_r. reflexivity.
Qed.

Lemma dsteps_set e D : dur_steps 1 (e_dur (set_dur e D)) = D.
Proof. apply dur_set. Qed.

Section Retimed.
Variable cospi : Q -> Q.
Variable R : nat -> Z.
Variable mode : imode.

Lemma seg_outs_set cur nxt D D' :
  seg_outs cospi 1 mode (set_dur cur D) (set_dur nxt D') = seg_outs_d cospi mode D cur nxt.
Proof. unfold seg_outs, seg_outs_d. rewrite dsteps_set. reflexivity. Qed.

(* the closed form under R is the fixed-resolution closed form of the re-timed stream *)
Lemma vspec_retime : forall rest t first cur,
  vspec_open cospi R mode t first cur rest =
  match retime_g R t first (cur :: rest) with
  | c' :: r' => spec_open cospi 1 mode first c' r'
  | [] => []
  end.
Proof.
  induction rest as [|nxt rest IH]; intros t first cur.
  - simpl. destruct (dur_steps (R t) (e_dur cur) <=? 0); reflexivity.
  - cbn [vspec_open]. cbn [retime_g]. set (D := dur_steps (R t) (e_dur cur)).
    destruct (D <=? 0) eqn:Ez.
    + rewrite IH. cbn [retime_g]. cbn [spec_open]. rewrite dsteps_set, Ez. reflexivity.
    + rewrite IH. cbn [retime_g]. cbn [spec_open]. rewrite dsteps_set, Ez.
      cbn [set_dur e_ctl e_fields]. rewrite <- (seg_outs_set cur nxt D (dur_steps (R (t + b2n first + Z.to_nat D)%nat) (e_dur nxt))).
      reflexivity.
Qed.

End Retimed.

(* MAIN: the per-tick trace of a track started on [events], tick k being made at the resolution R k, is [spec] at one
   tick per beat of the re-timed stream (of the events the count limit lets through), followed by silence *)
Theorem runv_spec cospi R mode maxc events : all_num events ->
  forall n, runv cospi R mode maxc 0 n (init events) = pad n (spec cospi 1 mode (retime R (eff maxc 0 events))).
Proof.
  intros Hn n. rewrite (runv_vspec cospi R mode maxc 0 events Hn n). f_equal.
  unfold vspec, spec, retime. destruct (eff maxc 0 events) as [|e r]; [reflexivity|].
  rewrite vspec_retime. reflexivity.
Qed.

(** * Properties of the plan *)

Lemma retime_g_length R : forall l t f, length (retime_g R t f l) = length l.
Proof.
  induction l as [|e r IH]; intros t f; [reflexivity|]. cbn [retime_g length].
  destruct (dur_steps (R t) (e_dur e) <=? 0); rewrite IH; reflexivity.
Qed.

Lemma retime_g_app R : forall l1 t f l2,
  retime_g R t f (l1 ++ l2) = retime_g R t f l1 ++ retime_g R (fst (vplan R t f l1)) (snd (vplan R t f l1)) l2.
Proof.
  induction l1 as [|e r IH]; intros t f l2; [reflexivity|].
  cbn [app retime_g vplan]. destruct (dur_steps (R t) (e_dur e) <=? 0); rewrite IH; reflexivity.
Qed.

(* ticks taken by the points of a re-timed stream, and the planning tick behind them *)
Lemma vplan_ticks R : forall l t f,
  vplan R t f l = let S := ticks_of 1 (retime_g R t f l) in
                  ((t + S + (if f then if (S =? 0)%nat then 0 else 1 else 0))%nat, f && (S =? 0)%nat).
Proof.
  induction l as [|e r IH]; intros t f.
  - simpl. rewrite Nat.add_0_r. destruct f; simpl; rewrite ?Nat.add_0_r; reflexivity.
  - cbn [vplan retime_g]. set (D := dur_steps (R t) (e_dur e)). destruct (D <=? 0) eqn:Ez.
    + rewrite IH. cbv zeta. cbn [ticks_of fold_right]. rewrite dsteps_set.
      replace (Z.to_nat D) with 0%nat by lia. reflexivity.
    + rewrite IH. cbv zeta. cbn [ticks_of fold_right]. rewrite dsteps_set.
      fold (ticks_of 1 (retime_g R (t + b2n f + Z.to_nat D) false r)).
      generalize (ticks_of 1 (retime_g R (t + b2n f + Z.to_nat D) false r)). intros S.
      destruct (Nat.eqb_spec (Z.to_nat D + S) 0); [lia|].
      destruct f; cbn [b2n andb]; f_equal; lia.
Qed.

Lemma all_ctl_retime R : forall l t f, map e_ctl (retime_g R t f l) = map e_ctl l.
Proof.
  induction l as [|e r IH]; intros t f; [reflexivity|]. cbn [retime_g map].
  destruct (dur_steps (R t) (e_dur e) <=? 0); rewrite IH; reflexivity.
Qed.

Lemma fields_retime R : forall l t f, map e_fields (retime_g R t f l) = map e_fields l.
Proof.
  induction l as [|e r IH]; intros t f; [reflexivity|]. cbn [retime_g map].
  destruct (dur_steps (R t) (e_dur e) <=? 0); rewrite IH; reflexivity.
Qed.

(* well-formedness looks at the types and the fields only *)
Lemma chain_ok_same : forall r r' c c',
  e_ctl c = e_ctl c' -> e_fields c = e_fields c' -> map e_ctl r = map e_ctl r' -> map e_fields r = map e_fields r' ->
  chain_ok c r = chain_ok c' r'.
Proof.
  induction r as [|x r IH]; intros [|x' r'] c c' H1 H2 H3 H4; try discriminate; [reflexivity|].
  cbn [map] in H3, H4. injection H3 as Hx Hr. injection H4 as Hy Hs.
  cbn [chain_ok]. unfold pair_ok. rewrite H1, H2, Hx, Hy. f_equal. apply IH; assumption.
Qed.

Lemma chain_ok_retime R l t f : chain_ok_list (retime_g R t f l) = chain_ok_list l.
Proof.
  destruct l as [|e r]; [reflexivity|]. cbn [retime_g chain_ok_list].
  apply chain_ok_same; try reflexivity; destruct (dur_steps (R t) (e_dur e) <=? 0);
    first [apply all_ctl_retime|apply fields_retime].
Qed.

Lemma has_keys_retime R : forall l t f,
  Forall (fun e => has_keys e = true) l -> Forall (fun e => has_keys e = true) (retime_g R t f l).
Proof.
  induction l as [|e r IH]; intros t f H; [constructor|]. inversion H; subst. cbn [retime_g].
  constructor; [assumption|]. destruct (dur_steps (R t) (e_dur e) <=? 0); apply IH; assumption.
Qed.

Lemma retime_g_removelast R l t f : retime_g R t f (removelast l) = removelast (retime_g R t f l).
Proof.
  destruct l as [|e0 r0]; [reflexivity|].
  destruct (@exists_last _ (e0 :: r0) ltac:(discriminate)) as [l' [x E]]. rewrite E.
  rewrite removelast_last, retime_g_app. cbn [retime_g].
  destruct (dur_steps _ (e_dur x) <=? 0); rewrite removelast_last; reflexivity.
Qed.

(* the plan depends on R only through its values on the planning ticks *)
Lemma retime_g_ext R R' : forall l t f,
  (forall l1 e l2, l = l1 ++ e :: l2 -> R (fst (vplan R t f l1)) = R' (fst (vplan R t f l1))) ->
  retime_g R t f l = retime_g R' t f l.
Proof.
  induction l as [|e r IH]; intros t f H; [reflexivity|].
  cbn [retime_g]. pose proof (H [] e r eq_refl) as H0. cbn [vplan fst] in H0. rewrite <- H0.
  f_equal. destruct (dur_steps (R t) (e_dur e) <=? 0) eqn:Ez.
  - apply IH. intros l1 e' l2 E. specialize (H (e :: l1) e' l2). cbn [vplan app] in H. rewrite Ez in H.
    apply H. rewrite E. reflexivity.
  - apply IH. intros l1 e' l2 E. specialize (H (e :: l1) e' l2). cbn [vplan app] in H. rewrite Ez in H.
    apply H. rewrite E. reflexivity.
Qed.

(** * Constant resolution, histories of operations, shifting *)

Lemma runv_const cospi tpb mode maxc : forall n t st,
  runv cospi (fun _ => tpb) mode maxc t n st = run cospi tpb mode maxc n st.
Proof.
  induction n as [|n IH]; intros t st; [reflexivity|]. simpl.
  destruct (tick cospi tpb mode maxc st). rewrite IH. reflexivity.
Qed.

Lemma runv_ext cospi mode maxc : forall n R R' t t' st,
  (forall k, (k < n)%nat -> R (t + k)%nat = R' (t' + k)%nat) ->
  runv cospi R mode maxc t n st = runv cospi R' mode maxc t' n st.
Proof.
  induction n as [|n IH]; intros R R' t t' st H; [reflexivity|]. simpl.
  pose proof (H 0%nat ltac:(lia)) as H0. rewrite !Nat.add_0_r in H0. rewrite H0.
  destruct (tick cospi (R' t') mode maxc st). f_equal. apply IH.
  intros k Hk. specialize (H (S k) ltac:(lia)). replace (S t + k)%nat with (t + S k)%nat by lia.
  replace (S t' + k)%nat with (t' + S k)%nat by lia. exact H.
Qed.

Lemma rt_trace_runv cospi mode maxc : forall ops tpb st,
  rt_trace cospi mode maxc (tpb, st) ops = runv cospi (rt_res tpb ops) mode maxc 0 (rt_ticks ops) st.
Proof.
  induction ops as [|[|m] r IH]; intros tpb st; [reflexivity| |].
  - cbn [rt_trace rt_step fst snd rt_ticks]. cbn [runv]. cbn [rt_res].
    destruct (tick cospi tpb mode maxc st) as [o st']. f_equal. rewrite IH.
    apply runv_ext. intros k _. reflexivity.
  - cbn [rt_trace rt_step fst snd rt_ticks rt_res]. apply IH.
Qed.

Lemma timeline_runv_started cospi n R mode maxc s q d events t0 :
  start_tick_v (S n) R s q d = Some t0 ->
  timeline_runv cospi n R mode maxc s q d events =
  repeat ONone (Nat.min n t0)
  ++ runv cospi (fun k => R (Nat.min n t0 + k)%nat) mode maxc 0 (n - Nat.min n t0) (init events).
Proof.
  intros H. unfold timeline_runv. rewrite H. cbv zeta. f_equal. apply runv_ext. intros k _. f_equal.
Qed.

(** * Pointwise view under a changing resolution *)

(* the tick (counted from the track's first tick = 0) of the point that follows pre: the sum of the planned steps *)
Definition point_tick (R : nat -> Z) (pre : list event) : nat := ticks_of 1 (retime R pre).

(* the first segment is planned on the track's first tick (the tick of its first point), every later one on the
   tick after its starting point was sent *)
Lemma plan_tick_point R pre :
  plan_tick R pre = if (point_tick R pre =? 0)%nat then 0%nat else S (point_tick R pre).
Proof.
  unfold plan_tick, point_tick, retime. rewrite vplan_ticks. cbv zeta. cbn [fst].
  destruct (ticks_of 1 (retime_g R 0 true pre) =? 0)%nat eqn:E.
  - apply Nat.eqb_eq in E. rewrite E. reflexivity.
  - lia.
Qed.

Lemma retime_snoc R pre e :
  retime R (pre ++ [e]) = retime R pre ++ [set_dur e (dur_steps (R (plan_tick R pre)) (e_dur e))].
Proof.
  unfold retime, plan_tick. rewrite retime_g_app. cbn [retime_g].
  destruct (dur_steps _ (e_dur e) <=? 0); reflexivity.
Qed.

(* each point lies as many ticks after the one before as that one's segment was planned to have steps *)
Lemma point_tick_snoc R pre e :
  point_tick R (pre ++ [e]) = (point_tick R pre + Z.to_nat (dur_steps (R (plan_tick R pre)) (e_dur e)))%nat.
Proof.
  unfold point_tick. rewrite retime_snoc, ticks_of_app. cbn [ticks_of fold_right]. rewrite dsteps_set. lia.
Qed.

Lemma retime_split R pre cur nxt post :
  exists D2 post',
    retime R (pre ++ cur :: nxt :: post) =
    retime R pre ++ set_dur cur (dur_steps (R (plan_tick R pre)) (e_dur cur)) :: set_dur nxt D2 :: post'.
Proof.
  unfold retime, plan_tick. rewrite retime_g_app. cbn [retime_g].
  destruct (dur_steps _ (e_dur cur) <=? 0); do 2 eexists; reflexivity.
Qed.

Lemma emit_set val cur nxt D D' : emit val (set_dur cur D) (set_dur nxt D') = emit val cur nxt.
Proof. reflexivity. Qed.

Section RMsgs.
Variable cospi : Q -> Q.
Variable R : nat -> Z.
Variable mode : imode.
Variable maxc : option Z.

(* the message j steps (0-based) into the segment cur -> nxt *)
Lemma runv_segment events pre cur nxt post (j n : nat) :
  all_num events ->
  eff maxc 0 events = pre ++ cur :: nxt :: post ->
  chain_ok_list (pre ++ cur :: nxt :: post) = true ->
  let D := dur_steps (R (plan_tick R pre)) (e_dur cur) in
  (j < Z.to_nat D)%nat -> (1 + point_tick R pre + j < n)%nat ->
  nth (1 + point_tick R pre + j) (runv cospi R mode maxc 0 n (init events)) ONone
  = emit (fun a b => step_value cospi mode a b D j) cur nxt.
Proof.
  intros Hn He Hok D Hj Hlt. rewrite (runv_spec cospi R mode maxc events Hn n), nth_pad by exact Hlt.
  rewrite He. destruct (retime_split R pre cur nxt post) as [D2 [post' E]]. fold D in E.
  assert (Hok' : chain_ok_list (retime R (pre ++ cur :: nxt :: post)) = true)
    by (unfold retime; rewrite chain_ok_retime; exact Hok).
  unfold point_tick.
  rewrite (msg_segment cospi 1 mode _ (retime R pre) (set_dur cur D) (set_dur nxt D2) post' j E Hok')
    by (rewrite dsteps_set; exact Hj).
  rewrite dsteps_set. apply emit_set.
Qed.

(* the first message *)
Lemma runv_first events pre cur nxt post (n : nat) :
  all_num events ->
  eff maxc 0 events = pre ++ cur :: nxt :: post ->
  chain_ok_list (pre ++ cur :: nxt :: post) = true ->
  point_tick R pre = 0%nat -> 1 <= dur_steps (R 0%nat) (e_dur cur) -> (0 < n)%nat ->
  nth 0 (runv cospi R mode maxc 0 n (init events)) ONone = emit raw_val cur nxt.
Proof.
  intros Hn He Hok Hz HD Hlt. rewrite (runv_spec cospi R mode maxc events Hn n), nth_pad by exact Hlt.
  rewrite He. destruct (retime_split R pre cur nxt post) as [D2 [post' E]].
  assert (Ep : plan_tick R pre = 0%nat) by (rewrite plan_tick_point, Hz; reflexivity).
  rewrite Ep in E.
  assert (Hok' : chain_ok_list (retime R (pre ++ cur :: nxt :: post)) = true)
    by (unfold retime; rewrite chain_ok_retime; exact Hok).
  rewrite (msg_first cospi 1 mode _ (retime R pre) _ _ post' E Hok' Hz) by (rewrite dsteps_set; exact HD).
  apply emit_set.
Qed.

(* one call on every tick from the first point to the last, none after *)
Lemma runv_one_per_tick events :
  all_num events ->
  chain_ok_list (eff maxc 0 events) = true ->
  Forall (fun e => has_keys e = true) (eff maxc 0 events) ->
  let S := point_tick R (removelast (eff maxc 0 events)) in
  exists L, (forall n, runv cospi R mode maxc 0 n (init events) = pad n L)
         /\ length L = (if (S =? 0)%nat then 0 else 1 + S)%nat
         /\ Forall is_call L.
Proof.
  intros Hn Hok Hk S.
  exists (spec cospi 1 mode (retime R (eff maxc 0 events))). split; [intros n; apply runv_spec; exact Hn|].
  assert (Hok' : chain_ok_list (retime R (eff maxc 0 events)) = true)
    by (unfold retime; rewrite chain_ok_retime; exact Hok).
  assert (Hk' : Forall (fun e => has_keys e = true) (retime R (eff maxc 0 events)))
    by (apply has_keys_retime; exact Hk).
  rewrite (spec_ok _ _ _ _ Hok'). split.
  - rewrite app_length, first_list_length, segs_length. unfold retime. rewrite <- retime_g_removelast.
    fold (retime R (removelast (eff maxc 0 events))). fold (point_tick R (removelast (eff maxc 0 events))). fold S.
    destruct (S =? 0)%nat eqn:E; [|reflexivity]. apply Nat.eqb_eq in E. rewrite E. reflexivity.
  - apply Forall_app. destruct (retime R (eff maxc 0 events)) as [|p ps]; [split; constructor|].
    split; [apply first_part_calls|apply all_segs_calls]; assumption.
Qed.

(* a segment with a non-control end *)
Lemma runv_reject events pre cur nxt post :
  all_num events ->
  eff maxc 0 events = pre ++ cur :: nxt :: post ->
  chain_ok_list (pre ++ [cur]) = true ->
  1 <= dur_steps (R (plan_tick R pre)) (e_dur cur) ->
  e_ctl cur && e_ctl nxt = false ->
  let A := spec cospi 1 mode (retime R (pre ++ [cur])) in
  (forall n, runv cospi R mode maxc 0 n (init events) = pad n (A ++ [OInvalid]))
  /\ length A = (if (point_tick R pre =? 0)%nat then 0 else 1 + point_tick R pre)%nat.
Proof.
  intros Hn He Hok HD Hctl A.
  assert (Hok' : chain_ok_list (retime R (pre ++ [cur])) = true)
    by (unfold retime; rewrite chain_ok_retime; exact Hok).
  split.
  - intros n. rewrite (runv_spec cospi R mode maxc events Hn n). rewrite He. f_equal.
    destruct (retime_split R pre cur nxt post) as [D2 [post' E]]. rewrite E.
    subst A. rewrite retime_snoc in *.
    set (cur' := set_dur cur (dur_steps (R (plan_tick R pre)) (e_dur cur))) in *.
    assert (HD' : 1 <= dur_steps 1 (e_dur cur')) by (unfold cur'; rewrite dsteps_set; exact HD).
    assert (Hctl' : e_ctl cur' && e_ctl (set_dur nxt D2) = false) by exact Hctl.
    set (nxt' := set_dur nxt D2) in *. clearbody cur' nxt'.
    destruct (retime R pre) as [|p pre'].
    + cbn [app spec spec_open]. destruct (dur_steps 1 (e_dur cur') <=? 0) eqn:E0; [lia|]. rewrite Hctl'. reflexivity.
    + change (spec_open cospi 1 mode true p (pre' ++ cur' :: nxt' :: post')
              = spec_open cospi 1 mode true p (pre' ++ [cur']) ++ [OInvalid]).
      rewrite (spec_open_invalid cospi 1 mode cur' nxt' post' HD' Hctl' pre' p true Hok').
      rewrite (spec_open_ok cospi 1 mode (pre' ++ [cur']) true p Hok'). rewrite <- app_assoc. reflexivity.
  - subst A. rewrite (spec_ok _ _ _ _ Hok'), app_length, first_list_length, segs_length.
    rewrite retime_snoc, removelast_last. fold (point_tick R pre).
    destruct (point_tick R pre =? 0)%nat eqn:E; [|reflexivity]. apply Nat.eqb_eq in E. rewrite E. reflexivity.
Qed.

(* two assignments of resolutions that agree on every planning tick give the same trace: what the resolution
   does while a segment is under way is never looked at *)
Lemma runv_plan_kept R' events :
  all_num events ->
  (forall pre e post, eff maxc 0 events = pre ++ e :: post -> R (plan_tick R pre) = R' (plan_tick R pre)) ->
  forall n, runv cospi R' mode maxc 0 n (init events) = runv cospi R mode maxc 0 n (init events).
Proof.
  intros Hn H n. rewrite (runv_spec cospi R mode maxc events Hn n), (runv_spec cospi R' mode maxc events Hn n).
  unfold retime. rewrite (retime_g_ext R R' (eff maxc 0 events) 0 true); [reflexivity|].
  intros l1 e l2 E. apply (H l1 e l2 E).
Qed.

End RMsgs.

(* Sched/DevFileProofs.v — C17 behind a real, stateful output device (Sched/DevFile.v):
   (1) a refused request leaves the device's state, and hence the written file, exactly as if it had never been made;
   (2) the absolute position of every message of the file is the device tick of its request ([placed]), so the part of the file
       that belongs to a track is a function of that track's calls per tick alone;
   (3) the merge theorem of C07 for a run in which the device refuses a call of ANOTHER track (two configurations: the joint
       run under [dev_fail = Some j], the solo run on a device that refuses nothing);
   (4) hence: the file with the failing track = the file without it, for every healthy track's messages and their absolute
       ticks - for a track that fails in its pattern (stream fault) and for a track whose call the device refuses. *)
From Isobar Require Import Base.Prelude Sched.Model Sched.Obs Sched.NoteOffProofs Sched.TimeProofs Sched.TickFrame Sched.MergeProofs
  Sched.FaultProofs Sched.RenameProofs Sched.ReachProofs IO.MidiBytes IO.FileWire IO.FileWireProofs Sched.DevFile.
Open Scope Z_scope.

(** * (1) a refused request changes nothing *)
Lemma f_step_refused d m : msg_valid m = false -> f_step d (FReq m) = d.
Proof. intros H. cbn [f_step]. unfold f_emit. rewrite H. reflexivity. Qed.

Theorem file_refused_irrelevant a m b : msg_valid m = false ->
  file_written (a ++ FReq m :: b) = file_written (a ++ b).
Proof.
  intros H. unfold file_written, f_run. rewrite !fold_left_app. cbn [fold_left]. rewrite (f_step_refused _ m H). reflexivity.
Qed.

(** * (2) where the accepted requests land *)
Lemma timed_reqs ms : forall t0 rest, timed t0 (map FReq ms ++ rest) = map (pair t0) (filter msg_valid ms) ++ timed t0 rest.
Proof.
  induction ms as [|m r IH]; intros t0 rest; [reflexivity|]. cbn [map app timed filter].
  destruct (msg_valid m); cbn [map app]; rewrite IH; reflexivity.
Qed.

Lemma timed_wire k ticks : forall t0,
  timed t0 (wire_ops k ticks) = placed k t0 ticks ++ [(t0 + k * Z.of_nat (length ticks), closing)].
Proof.
  induction ticks as [|ms r IH]; intros t0.
  - unfold wire_ops. cbn [flat_map timed placed length app]. replace (t0 + k * Z.of_nat 0) with t0 by lia. reflexivity.
  - unfold wire_ops in *. cbn [flat_map placed length]. rewrite <- app_assoc, timed_reqs. cbn [app timed].
    rewrite IH, <- app_assoc. replace (t0 + k + k * Z.of_nat (length r)) with (t0 + k * Z.of_nat (S (length r))) by lia. reflexivity.
Qed.

(* the file read back: every accepted request at the device tick it was made on, then the closing message at the end *)
Theorem file_placed k ticks :
  absolute 0 (file_written (wire_ops k ticks)) = placed k 0 ticks ++ [(k * Z.of_nat (length ticks), closing)].
Proof. rewrite file_absolute_ticks, timed_wire. reflexivity. Qed.

(* requests the device refuses do not appear and displace nothing *)
Theorem placed_ignores_refused k ticks : forall t0, placed k t0 (map (filter msg_valid) ticks) = placed k t0 ticks.
Proof.
  induction ticks as [|ms r IH]; intros t0; [reflexivity|]. cbn [map placed]. rewrite IH. do 2 f_equal.
  induction ms as [|m l IHl]; [reflexivity|]. cbn [filter]. destruct (msg_valid m) eqn:E; cbn [filter]; [rewrite E|]; rewrite ?IHl; reflexivity.
Qed.

Lemma filter_pair {A} (P : A -> bool) (t : Z) l :
  filter (fun tm : Z * A => P (snd tm)) (map (pair t) l) = map (pair t) (filter P l).
Proof. induction l as [|x r IH]; [reflexivity|]. cbn [map filter snd]. destruct (P x); cbn [map]; rewrite IH; reflexivity. Qed.
Lemma filter_comm {A} (P Q : A -> bool) l : filter P (filter Q l) = filter Q (filter P l).
Proof.
  induction l as [|x r IH]; [reflexivity|]. cbn [filter].
  destruct (Q x) eqn:EQ, (P x) eqn:EP; cbn [filter]; rewrite ?EQ, ?EP, IH; reflexivity.
Qed.

(* the messages of one track (any predicate P on messages) with their positions depend on that track's requests only *)
Theorem placed_part (P : midi_msg -> bool) k ticks : forall t0,
  filter (fun tm => P (snd tm)) (placed k t0 ticks) = placed k t0 (map (filter P) ticks).
Proof.
  induction ticks as [|ms r IH]; intros t0; [reflexivity|]. cbn [map placed]. rewrite filter_app, IH, filter_pair, filter_comm. reflexivity.
Qed.

Lemma msgs_of_calls_part pc pb cs : filter (msg_on pc) (msgs_of_calls cs) = msgs_of_calls (filter (call_ok pc pb) cs).
Proof.
  induction cs as [|c r IH]; [reflexivity|]. unfold msgs_of_calls in *. cbn [flat_map filter]. rewrite filter_app, IH.
  destruct c as [n v ch|n ch|k v ch|p ch|b]; cbn [msg_of_call call_ok filter app].
  1-4: unfold msg_on at 1; cbn [msg_chan]; destruct (pc ch); cbn [flat_map msg_of_call app]; reflexivity.
  destruct (pb b); reflexivity.
Qed.

(* two runs that give a track the same calls in every tick write the same messages at the same absolute ticks for it *)
Theorem same_calls_same_file_part pc pb k (A B : list (list call)) :
  map (filter (call_ok pc pb)) A = map (filter (call_ok pc pb)) B ->
  filter (fun tm => msg_on pc (snd tm)) (placed k 0 (map msgs_of_calls A)) =
  filter (fun tm => msg_on pc (snd tm)) (placed k 0 (map msgs_of_calls B)).
Proof.
  intros H. rewrite !placed_part, !map_map.
  rewrite (map_ext _ (fun cs => msgs_of_calls (filter (call_ok pc pb) cs)) (fun cs => msgs_of_calls_part pc pb cs)).
  rewrite (map_ext (fun x => filter (msg_on pc) (msgs_of_calls x)) (fun cs => msgs_of_calls (filter (call_ok pc pb) cs)) (fun cs => msgs_of_calls_part pc pb cs)).
  rewrite <- !(map_map (filter (call_ok pc pb)) msgs_of_calls), H. reflexivity.
Qed.

(** * (3) the merge theorem when the device refuses a call of another track *)
(* [no_fail] changes the device only *)
Lemma exec_op_no_fail cfg tl o : exec_op (no_fail cfg) tl o = exec_op cfg tl o.
Proof. destruct o; reflexivity. Qed.

Lemma pv_none_mono nowT cur vs : forall n offs calls,
  (n <= snd (fst (perform_voices None nowT cur vs n offs calls)))%nat.
Proof.
  induction vs as [|v r IH]; intros n offs calls; cbn [perform_voices]; [cbn; lia|].
  destruct (voice_on v); [|apply IH]. cbn [dev_emit]. etransitivity; [|apply IH]. lia.
Qed.

(* a turn whose calls do not include the j-th is the turn on a device that refuses nothing *)
Lemma pv_clean j nowT cur vs : forall n offs calls,
  ((n <=? j) && (j <? snd (fst (perform_voices None nowT cur vs n offs calls))))%nat = false ->
  perform_voices (Some j) nowT cur vs n offs calls = perform_voices None nowT cur vs n offs calls.
Proof.
  induction vs as [|v r IH]; intros n offs calls H; [reflexivity|]. cbn [perform_voices] in *.
  destruct (voice_on v); [|apply IH; exact H]. cbn [dev_emit] in *.
  pose proof (pv_none_mono nowT cur r (S n) (offs ++ [mkNO (cur + match v_glen v with Some l => l | None => 0 end)
      (nowT + match v_glen v with Some l => l | None => 0 end) (v_note v) (v_chan v)])
      (calls ++ [CNoteOn (v_note v) (match v_amp v with Some a => a | None => 0 end) (v_chan v)])) as M.
  destruct (j =? n)%nat eqn:E.
  - exfalso. apply Nat.eqb_eq in E. subst j. apply andb_false_iff in H as [H|H].
    + apply Nat.leb_gt in H. lia.
    + apply Nat.ltb_ge in H. lia.
  - cbn [negb]. apply IH. apply andb_false_iff in H as [H|H]; apply andb_false_iff.
    + left. apply Nat.leb_gt in H. apply Nat.leb_gt. lia.
    + right. exact H.
Qed.

Lemma perform_event_clean j nowT tr e n :
  ((n <=? j) && (j <? snd (fst (perform_event None nowT tr e n))))%nat = false ->
  perform_event (Some j) nowT tr e n = perform_event None nowT tr e n.
Proof.
  unfold perform_event. destruct (negb (e_active e)); [reflexivity|]. destruct (t_muted tr); [reflexivity|].
  destruct (e_kind e) as [vs|cb|c v ch|p ch]; [| reflexivity | |].
  - intros H. rewrite (pv_clean j nowT (t_cur tr) vs n (t_offs tr) []); [reflexivity|].
    destruct (perform_voices None nowT (t_cur tr) vs n (t_offs tr) []) as [[[o c] n'] ok]. exact H.
  - cbn [dev_emit fst snd]. intros H. destruct (j =? n)%nat eqn:E; [|reflexivity].
    exfalso. apply Nat.eqb_eq in E. subst j. apply andb_false_iff in H as [H|H]; [apply Nat.leb_gt in H|apply Nat.ltb_ge in H]; lia.
  - cbn [dev_emit fst snd]. intros H. destruct (j =? n)%nat eqn:E; [|reflexivity].
    exfalso. apply Nat.eqb_eq in E. subst j. apply andb_false_iff in H as [H|H]; [apply Nat.leb_gt in H|apply Nat.ltb_ge in H]; lia.
Qed.

Lemma tick_a_clean cfg nowT tr n : in_turn cfg nowT tr n = false ->
  track_tick_a cfg nowT tr n = track_tick_a (no_fail cfg) nowT tr n.
Proof.
  unfold in_turn. destruct (dev_fail cfg) as [j|] eqn:D.
  2: { intros _. unfold track_tick_a. cbn [no_fail fuel dev_fail]. rewrite D. reflexivity. }
  unfold track_tick_a. cbn [no_fail fuel dev_fail]. rewrite D.
  destruct (negb (t_started tr)); [reflexivity|]. destruct (t_next tr <=? t_cur tr); [|reflexivity].
  destruct (pull_loop (fuel cfg) tr None) as [[[e|]| | |] tr']; try reflexivity.
  intros H. rewrite (perform_event_clean j nowT tr' e n); [reflexivity|].
  destruct (perform_event None nowT tr' e n) as [[[t1 c1] n1] p1]. exact H.
Qed.

Section Refusal.
  Variable i : nat.
  Variables (pc : Z -> bool) (pb : nat -> bool).
  Variable cfg : config.
  Hypothesis Hcb : forall cb, snd (nth cb (cbs cfg) (CbNone, [])) = [].
  Hypothesis Hswd : stop_when_done cfg = false.
  Hypothesis Hmax : max_tracks cfg = 0.
  Notation own := (call_ok pc pb).
  Notation sim := (sim i pc pb).

  Lemma tick_one_clean J : turn_clean cfg J i = true -> tick_one cfg J i = tick_one (no_fail cfg) J i.
  Proof.
    unfold turn_clean, tick_one. destruct (find_track i (tracks J)) as [tr|]; [|reflexivity].
    intros H. apply negb_true_iff in H. rewrite (tick_a_clean cfg (now J) tr (dev_calls J) H).
    destruct (track_tick_a (no_fail cfg) (now J) tr (dev_calls J)) as [[[tr1 c] n1] res].
    destruct res; try reflexivity.
    change (cbs (no_fail cfg)) with (cbs cfg). specialize (Hcb cb).
    destruct (nth cb (cbs cfg) (CbNone, [])) as [rk ops]. simpl in Hcb. subst ops. reflexivity.
  Qed.

  Lemma phase_tracks_sim2 ids : forall J S c, sim J S -> clean_phase cfg i J ids = true ->
    let '(J1, cJ, rJ) := phase_tracks cfg J ids c in
    let '(S1, cS, rS) := phase_tracks (no_fail cfg) S (filter (fun x => (x =? i)%nat) ids) (filter own c) in
    rJ = ROk -> rS = ROk /\ sim J1 S1 /\ cS = filter own cJ.
  Proof.
    induction ids as [|id r IH]; intros J S c H Cl; [simpl; intros _; exact (conj eq_refl (conj H eq_refl))|].
    cbn [clean_phase] in Cl. apply andb_true_iff in Cl as [Cl1 Cl2].
    cbn [phase_tracks filter]. destruct (id =? i)%nat eqn:E.
    - apply Nat.eqb_eq in E. subst id. cbn [phase_tracks].
      pose proof (tick_one_own i pc pb (no_fail cfg) eq_refl Hcb J S H) as T. pose proof (tick_one_abort cfg J i) as Ab.
      rewrite <- (tick_one_clean J Cl1) in T.
      destruct (tick_one cfg J i) as [[J1 cJ] aJ]. destruct (tick_one (no_fail cfg) S i) as [[S1 cS] aS].
      destruct T as [T1 [-> [-> T4]]].
      destruct aJ as [res|].
      + intros ->. exfalso. exact (Ab ROk eq_refl eq_refl).
      + specialize (IH J1 S1 (c ++ cJ) T1 Cl2). rewrite filter_app, (calls_own_id _ _ _ T4) in IH. exact IH.
    - assert (Hne : id <> i) by (intros ->; rewrite Nat.eqb_refl in E; discriminate).
      pose proof (tick_one_for i pc pb cfg Hcb J S id H Hne) as T. pose proof (tick_one_abort cfg J id) as Ab.
      destruct (tick_one cfg J id) as [[J1 cJ] aJ]. destruct T as [T1 T2].
      destruct aJ as [res|].
      + destruct (phase_tracks (no_fail cfg) S _ _) as [[S1 cS] rS]. intros ->. exfalso. exact (Ab ROk eq_refl eq_refl).
      + specialize (IH J1 S (c ++ cJ) T1 Cl2). rewrite filter_app, (calls_foreign_nil _ _ _ T2), app_nil_r in IH. exact IH.
  Qed.

  Theorem tl_tick_sim2 J S : sim J S -> clean_tick cfg i J = true ->
    let '(J', cJ, rJ) := tl_tick cfg J in
    let '(S', cS, rS) := tl_tick (no_fail cfg) S in
    rJ = ROk -> rS = ROk /\ sim J' S' /\ cS = filter own cJ.
  Proof.
    intros H Cl. unfold clean_tick, tick_pre in Cl. unfold tl_tick. rewrite (s_trk _ _ _ _ _ H).
    destruct (phase_noteoffs_sim i pc pb (tracks J) (s_twf _ _ _ _ _ H)) as [N1 [N2 N3]].
    destruct (phase_noteoffs (tracks J)) as [trJ c1J]. destruct (phase_noteoffs (filter (is_i i) (tracks J))) as [trS c1S].
    simpl in N1, N2, N3. subst trS c1S.
    assert (H1 : sim (set_actions (set_tracks J trJ) []) (set_actions (set_tracks S (filter (is_i i) trJ)) [])).
    { destruct H as [A B C D E F G]. constructor; simpl; try assumption; reflexivity. }
    pose proof (phase_actions_sim i pc pb (actions J) _ _ [] [] H1 (s_awf _ _ _ _ _ H) eq_refl) as PA.
    change (actions (set_tracks J trJ)) with (actions J) in *.
    change (actions (set_tracks S (filter (is_i i) trJ))) with (actions S). rewrite (s_act _ _ _ _ _ H).
    simpl (filter (act_own i pc) []) in PA. simpl (filter own []) in PA.
    destruct (phase_actions (set_actions (set_tracks J trJ) []) (actions J) [] []) as [[J2 kJ] c3J].
    destruct (phase_actions (set_actions (set_tracks S (filter (is_i i) trJ)) []) (filter (act_own i pc) (actions J)) [] []) as [[S2 kS] c3S].
    destruct PA as [P1 [-> [-> P4]]].
    assert (H3 : sim (set_actions J2 (kJ ++ actions J2)) (set_actions S2 (filter (act_own i pc) kJ ++ actions S2))).
    { destruct P1 as [A B C D E F G]. constructor; simpl; try assumption.
      - rewrite filter_app, C. reflexivity.
      - rewrite forallb_app, P4, G. reflexivity. }
    pose proof (phase_tracks_sim2 (map t_id (tracks (set_actions J2 (kJ ++ actions J2)))) _ _ [] H3 Cl) as PT.
    change (tracks (set_actions S2 (filter (act_own i pc) kJ ++ actions S2))) with (tracks S2).
    change (tracks (set_actions J2 (kJ ++ actions J2))) with (tracks J2) in *.
    rewrite (s_trk _ _ _ _ _ P1), (map_id_filter i). simpl (filter own []) in PT.
    destruct (phase_tracks cfg (set_actions J2 (kJ ++ actions J2)) (map t_id (tracks J2)) []) as [[J4 c4J] rJ].
    destruct (phase_tracks (no_fail cfg) (set_actions S2 (filter (act_own i pc) kJ ++ actions S2)) (filter (fun x => (x =? i)%nat) (map t_id (tracks J2))) []) as [[S4 c4S] rS].
    change (stop_when_done (no_fail cfg)) with (stop_when_done cfg). rewrite Hswd, !andb_false_r.
    destruct rJ; try (destruct rS; intros; discriminate).
    destruct (PT eq_refl) as [-> [T2 ->]].
    intros _. split; [reflexivity|]. split.
    - destruct T2 as [A B C D E F G]. constructor; simpl; try assumption. rewrite A. reflexivity.
    - rewrite !filter_app. reflexivity.
  Qed.

  Theorem merge_run2 h : forall J S, sim J S -> nid_rel i J S -> hist_wf i pc pb (next_id J) h = true ->
    all_ticks_ok cfg J h = true -> own_clean cfg i J h = true ->
    tick_calls (no_fail cfg) S (solo i (next_id J) h) = map (filter own) (tick_calls cfg J h)
    /\ sim (run_state cfg J h) (run_state (no_fail cfg) S (solo i (next_id J) h))
    /\ all_ticks_ok (no_fail cfg) S (solo i (next_id J) h) = true.
  Proof.
    induction h as [|o r IH]; intros J S H N W A Cl; [simpl; exact (conj eq_refl (conj H eq_refl))|].
    cbn [hist_wf] in W. apply andb_true_iff in W as [W1 W2]. cbn [solo].
    cbn [own_clean] in Cl. apply andb_true_iff in Cl as [Cl1 Cl2].
    destruct o as [|s q d c rwd nm rp|t s q d c|t| |t|t|t x|q d].
    1: { (* a tick *)
      cbn [op_keep op_next app]. cbn [tick_calls run_state all_ticks_ok step fst] in *.
      pose proof (tl_tick_sim2 J S H Cl1) as T.
      pose proof (tl_tick_next cfg Hcb J) as NJ. pose proof (tl_tick_next (no_fail cfg) Hcb S) as NS.
      destruct (tl_tick cfg J) as [[J' cJ] rJ]. destruct (tl_tick (no_fail cfg) S) as [[S' cS] rS]. simpl in NJ, NS.
      cbn [fst] in Cl2.
      apply andb_true_iff in A as [A1 A2]. destruct rJ; try discriminate.
      destruct (T eq_refl) as [-> [T2 ->]].
      assert (N' : nid_rel i J' S') by (eapply nid_same; eassumption).
      rewrite <- NJ in W2. destruct (IH J' S' T2 N' W2 A2 Cl2) as [I1 [I2 I3]]. rewrite NJ in *.
      cbn [app map]. rewrite I1, I3. exact (conj eq_refl (conj I2 eq_refl)). }
    all: match goal with |- context [op_keep _ _ ?o] =>
           pose proof (exec_op_sim i pc pb cfg Hcb Hmax J S o H N W1) as E; cbv zeta in E;
           cbn [tick_calls run_state all_ticks_ok step] in A, Cl2 |- *;
           destruct (exec_op cfg J o) as [J' rJ] eqn:EJ; cbn [fst] in E, Cl2;
           destruct (op_keep i (next_id J) o) eqn:K;
           [ cbn [app tick_calls run_state all_ticks_ok step]; rewrite exec_op_no_fail;
             destruct (exec_op cfg S o) as [S' rS] eqn:ES; cbn [fst] in E
           | cbn [app] ];
           destruct E as [E1 [E2 E3]]; rewrite <- E3 in W2 |- *;
           simpl in A; (specialize (IH _ _ E1 E2 W2 A Cl2)); destruct IH as [I1 [I2 I3]];
           cbn [app map]; rewrite ?I1, ?I3; exact (conj eq_refl (conj I2 eq_refl))
         end.
  Qed.
End Refusal.

(* from the empty timeline: the device refuses the j-th call, which is not one of track i's; the calls of track i in every
   tick of the joint run are those of its solo run on a device that refuses nothing *)
Theorem refusal_merge_from_empty i pc pb cfg h :
  uncoupled (no_fail cfg) = true -> hist_wf i pc pb 0 h = true -> all_ticks_ok cfg tl0 h = true ->
  own_clean cfg i tl0 h = true ->
  tick_calls (no_fail cfg) (tl_at i) (solo i 0 h) = map (filter (call_ok pc pb)) (tick_calls cfg tl0 h).
Proof.
  unfold uncoupled. intros U W A Cl. apply andb_true_iff in U as [U U4]. apply andb_true_iff in U as [U U3].
  apply andb_true_iff in U as [_ U2]. apply negb_true_iff in U3. apply Z.eqb_eq in U4.
  change (cb_noops (no_fail cfg)) with (cb_noops cfg) in U2. change (stop_when_done (no_fail cfg)) with (stop_when_done cfg) in U3.
  change (max_tracks (no_fail cfg)) with (max_tracks cfg) in U4.
  destruct (merge_run2 i pc pb cfg (cb_noops_nth cfg U2) U3 U4 h tl0 (tl_at i)) as [M _]; try assumption.
  - constructor; reflexivity.
  - unfold nid_rel. reflexivity.
Qed.

(* the run WITH the track whose call is refused (device: dev_fail = Some j) and the run WITHOUT that track (on a device that
   refuses nothing) give every other track i the same calls in every tick *)
Theorem refusal_same_calls_without i f pc pb cfg h : f <> i ->
  uncoupled (no_fail cfg) = true -> hist_wf i pc pb 0 h = true ->
  all_ticks_ok cfg tl0 h = true -> all_ticks_ok (no_fail cfg) tl0 (drop_track f 0 h) = true ->
  own_clean cfg i tl0 h = true ->
  map (filter (call_ok pc pb)) (tick_calls cfg tl0 h) =
  map (filter (call_ok pc pb)) (tick_calls (no_fail cfg) tl0 (drop_track f 0 h)).
Proof.
  intros Hfi U W A A' Cl.
  rewrite <- (refusal_merge_from_empty i pc pb cfg h U W A Cl).
  assert (DW : hist_wf (dn f i) pc pb 0 (drop_track f 0 h) = true) by exact (drop_wf i f pc pb h Hfi 0%nat W).
  assert (DS : solo (dn f i) 0 (drop_track f 0 h) = map (retarget (dn f i)) (solo i 0 h)) by exact (drop_solo i f h Hfi 0%nat).
  destruct (merge_from_empty (dn f i) pc pb (no_fail cfg) (drop_track f 0 h) U DW A') as [M' _].
  rewrite <- M', DS. symmetry. apply solo_retarget. apply uncoupled_noops. exact U.
Qed.

(** * (4) the file with the failing track = the file without it, for the healthy tracks *)
(* what is in the file a history writes: every accepted request at k * (the timeline tick it was made on), then the closing message *)
Theorem sched_file_positions k cfg h :
  absolute 0 (sched_file k cfg h) =
    placed k 0 (sched_ticks cfg h) ++ [(k * Z.of_nat (length (sched_ticks cfg h)), closing)].
Proof. apply file_placed. Qed.

(* the device refuses a call of track f: the messages of every other track i (by channel), with their absolute file ticks, are
   those of the file written by the history from which track f has been left out *)
Theorem file_same_as_without_refused k i f pc pb cfg h : f <> i ->
  uncoupled (no_fail cfg) = true -> hist_wf i pc pb 0 h = true ->
  all_ticks_ok cfg tl0 h = true -> all_ticks_ok (no_fail cfg) tl0 (drop_track f 0 h) = true ->
  own_clean cfg i tl0 h = true ->
  filter (fun tm => msg_on pc (snd tm)) (placed k 0 (sched_ticks cfg h)) =
  filter (fun tm => msg_on pc (snd tm)) (placed k 0 (sched_ticks (no_fail cfg) (drop_track f 0 h))).
Proof.
  intros Hfi U W A A' Cl. unfold sched_ticks. apply (same_calls_same_file_part pc pb).
  exact (refusal_same_calls_without i f pc pb cfg h Hfi U W A A' Cl).
Qed.

(* the failing track fails in its pattern / in Event() (no device fault): the same, from the merge theorem of C07 *)
Theorem file_same_as_without_stream k i f pc pb cfg h : f <> i ->
  uncoupled cfg = true -> hist_wf i pc pb 0 h = true ->
  all_ticks_ok cfg tl0 h = true -> all_ticks_ok cfg tl0 (drop_track f 0 h) = true ->
  filter (fun tm => msg_on pc (snd tm)) (placed k 0 (sched_ticks cfg h)) =
  filter (fun tm => msg_on pc (snd tm)) (placed k 0 (sched_ticks cfg (drop_track f 0 h))).
Proof.
  intros Hfi U W A A'. unfold sched_ticks. apply (same_calls_same_file_part pc pb).
  exact (same_calls_without i f pc pb cfg h Hfi U W A A').
Qed.

(* whatever requests the device refused on the way (in any tick, at any place among the requests of that tick), the file is the
   file of the accepted requests *)
Theorem sched_file_ignores_refused k ticks :
  absolute 0 (file_written (wire_ops k (map (filter msg_valid) ticks))) = absolute 0 (file_written (wire_ops k ticks)).
Proof. rewrite !file_placed, placed_ignores_refused, !map_length. reflexivity. Qed.

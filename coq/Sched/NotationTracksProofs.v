(* Sched/NotationTracksProofs.v — C07 for tracks written in string shorthand: Pattern.pattern(str) builds a NEW object at
   every call, so (1) what an object yields depends on how often IT has been asked and on nothing else in the process -
   not on other objects built from the same string, not on what happened before it was built; (2) the event stream of a
   track scheduled from notation strings is a function of its own strings; (3) the merge theorem applies to such tracks:
   two tracks written with the same strings on different channels produce, together, exactly what each produces alone. *)
From Isobar Require Import Base.Prelude Notation.Lexer Notation.Parser Notation.PSeq Notation.PSeqProofs
  Sched.Model Sched.NoteOffProofs Sched.TimeProofs Sched.MergeProofs Sched.NotationTracks.
Local Notation length := List.length (only parsing).

(** * Objects do not move each other *)
Lemma set_obj_same x : forall n l, (n < length l)%nat -> nth_error (set_obj n x l) n = Some x.
Proof. induction n as [|n IH]; intros [|y r] L; simpl in *; try lia; [reflexivity|]. apply IH. lia. Qed.
Lemma set_obj_other x : forall n m l, n <> m -> nth_error (set_obj n x l) m = nth_error l m.
Proof.
  induction n as [|n IH]; intros m [|y r] N; simpl; try reflexivity.
  - destruct m; [contradiction|reflexivity].
  - destruct m; [reflexivity|]. simpl. apply IH. lia.
Qed.
Lemma after_stopped k p : pnext p = None -> after k p = p.
Proof. intros H. destruct k; [reflexivity|]. rewrite after_S, H. reflexivity. Qed.

(* For EVERY program: object o is, at the end, what it was at the beginning advanced by the number of times IT was asked;
   creating other objects (from the same string or not) and asking them does not move it *)
Theorem object_after_program uw p : forall st o ob, nth_error st o = Some ob ->
  nth_error (nstate uw st p) o = Some (after (asks o p) ob).
Proof.
  induction p as [|a r IH]; intros st o ob F; [exact F|]. destruct a as [s|o']; cbn [nstate asks].
  - destruct (object_of uw s) as [nw| | |]; try (apply IH; exact F).
    apply IH. rewrite nth_error_app1; [exact F|]. apply nth_error_Some. rewrite F. discriminate.
  - destruct (o' =? o)%nat eqn:E.
    + apply Nat.eqb_eq in E. subst o'. rewrite F. cbn [Nat.add]. rewrite after_S.
      destruct (pnext ob) as [[v ob']|] eqn:P.
      * apply IH. apply set_obj_same. apply nth_error_Some. rewrite F. discriminate.
      * rewrite (IH st o ob F). rewrite after_stopped by exact P. reflexivity.
    + apply Nat.eqb_neq in E. cbn [Nat.add]. destruct (nth_error st o') as [ob2|]; [|apply IH; exact F].
      destruct (pnext ob2) as [[v ob2']|]; [|apply IH; exact F]. apply IH. rewrite set_obj_other by exact E. exact F.
Qed.

Lemma nrun_app uw p1 : forall p2 st, nrun uw st (p1 ++ p2) = nrun uw st p1 ++ nrun uw (nstate uw st p1) p2.
Proof.
  induction p1 as [|a r IH]; intros p2 st; [reflexivity|]. destruct a as [s|o]; cbn [app nrun nstate].
  - destruct (object_of uw s); cbn [app]; rewrite IH; reflexivity.
  - destruct (nth_error st o) as [ob|]; [|cbn [app]; rewrite IH; reflexivity].
    destruct (pnext ob) as [[v ob']|]; cbn [app]; rewrite IH; reflexivity.
Qed.
Lemma nrun_length uw p : forall st, length (nrun uw st p) = length p.
Proof.
  induction p as [|a r IH]; intros st; [reflexivity|]. destruct a as [s|o]; cbn [nrun length].
  - destruct (object_of uw s); cbn [length]; rewrite IH; reflexivity.
  - destruct (nth_error st o) as [ob|]; [|cbn [length]; rewrite IH; reflexivity].
    destruct (pnext ob) as [[v ob']|]; cbn [length]; rewrite IH; reflexivity.
Qed.

(* the value object o yields after any program p: the (number of earlier asks of o)-th value of its own sequence *)
Theorem value_after_program uw p st o ob : nth_error st o = Some ob -> live ob = true ->
  nth (length p) (nrun uw st (p ++ [NNext o])) NNoObj = match kth (asks o p) ob with Some v => NVal v | None => NStop end.
Proof.
  intros F L. rewrite nrun_app, app_nth2 by (rewrite nrun_length; lia). rewrite nrun_length, Nat.sub_diag.
  cbn [nrun]. rewrite (object_after_program uw p st o ob F).
  replace (asks o p) with (asks o p + 0)%nat at 2 by lia. rewrite (kth_after (asks o p) 0 ob L).
  cbn [kth]. destruct (pnext (after (asks o p) ob)) as [[v ob']|]; reflexivity.
Qed.

(* an object created after ANY program starts at the beginning of its string's sequence: what happened before - to
   objects built from the same string or any other - leaves no trace in it *)
Theorem new_object_is_fresh uw p s st ob : object_of uw s = Ok ob ->
  nstate uw st (p ++ [NNew s]) = nstate uw st p ++ [ob].
Proof.
  intros O. revert st. induction p as [|a r IH]; intros st; cbn [app nstate]; [rewrite O; reflexivity|].
  destruct a as [s'|o].
  - destruct (object_of uw s'); apply IH.
  - destruct (nth_error st o) as [ob2|]; [|apply IH]. destruct (pnext ob2) as [[v ob2']|]; apply IH.
Qed.

(* hence: two objects built from the same string - at any two moments of a process - yield the same values, ask by ask,
   however the asks are interleaved with anything else *)
Theorem same_string_same_values uw s ob st o1 o2 p1 p2 :
  object_of uw s = Ok ob -> live ob = true -> nth_error st o1 = Some ob -> nth_error st o2 = Some ob ->
  asks o1 p1 = asks o2 p2 ->
  nth (length p1) (nrun uw st (p1 ++ [NNext o1])) NNoObj = nth (length p2) (nrun uw st (p2 ++ [NNext o2])) NNoObj.
Proof.
  intros _ L F1 F2 E. rewrite (value_after_program uw p1 st o1 ob F1 L), (value_after_program uw p2 st o2 ob F2 L), E. reflexivity.
Qed.

(** * The streams stay on their channel *)
Lemma note_event_ok U chan gnum gden qb n d a :
  evres_ok (fun c => c =? chan) qb (note_event U chan gnum gden n d a) = true.
Proof.
  unfold note_event. destruct n; try reflexivity. destruct (units U d); try reflexivity. destruct a; try reflexivity.
  destruct (_ =? 0); [|reflexivity]. cbn. rewrite Z.eqb_refl. reflexivity.
Qed.
Lemma note_event_other U chan gnum gden (qc : Z -> bool) qb n d a : qc chan = true ->
  evres_ok qc qb (note_event U chan gnum gden n d a) = true.
Proof.
  intros Q. unfold note_event. destruct n; try reflexivity. destruct (units U d); try reflexivity. destruct a; try reflexivity.
  destruct (_ =? 0); [|reflexivity]. cbn. rewrite Q. reflexivity.
Qed.
Lemma zip3_ok (qc : Z -> bool) qb f : (forall x y z, evres_ok qc qb (f x y z) = true) ->
  forall a b c, forallb (evres_ok qc qb) (zip3 f a b c) = true.
Proof.
  intros H. induction a as [|x a IH]; intros [|y b] [|z c]; try reflexivity. cbn [zip3 forallb]. rewrite H, IH. reflexivity.
Qed.
Theorem notation_stream_ok uw U chan gnum gden N sn sd sa (qc : Z -> bool) qb : qc chan = true ->
  stream_ok qc qb (stream_or_empty (notation_stream uw U chan gnum gden N sn sd sa)) = true.
Proof.
  intros Q. unfold notation_stream, stream_or_empty, bind.
  destruct (object_of uw sn); try reflexivity. destruct (object_of uw sd); try reflexivity. destruct (object_of uw sa); try reflexivity.
  unfold stream_ok. cbn [s_items]. apply zip3_ok. intros. apply note_event_other. exact Q.
Qed.

(** * The merge theorem for two tracks written with THE SAME strings *)
Section TwoTracks.
  Variables (uw : Z -> bool) (U gnum gden : Z) (N : nat) (sn sd sa : str).
  Variables (chA chB : Z).
  Variables (qA dA cA qB dB cB : option Z) (rA rB : bool).
  Let A := stream_or_empty (notation_stream uw U chA gnum gden N sn sd sa).
  Let B := stream_or_empty (notation_stream uw U chB gnum gden N sn sd sa).
  Definition two_tracks (n : nat) : list op :=
    OSchedule A qA dA cA rA None true :: OSchedule B qB dB cB rB None true :: repeat OTick n.

  Lemma two_wf_A n : chA <> chB -> hist_wf 0 (fun c => c =? chA) (fun _ => false) 0 (two_tracks n) = true.
  Proof.
    intros Ne. unfold two_tracks, A, B. cbn [hist_wf op_wf op_next Nat.eqb].
    rewrite (notation_stream_ok uw U chA gnum gden N sn sd sa (fun c => c =? chA) (fun _ => false) (Z.eqb_refl chA)).
    assert (Q : nc (fun c => c =? chA) chB = true) by (unfold nc; apply negb_true_iff; apply Z.eqb_neq; congruence).
    rewrite (notation_stream_ok uw U chB gnum gden N sn sd sa (nc (fun c => c =? chA)) (nb (fun _ => false)) Q). cbn [andb].
    induction n as [|n IH]; [reflexivity|]. cbn [repeat hist_wf op_wf op_next andb]. exact IH.
  Qed.
  Lemma two_wf_B n : chA <> chB -> hist_wf 1 (fun c => c =? chB) (fun _ => false) 0 (two_tracks n) = true.
  Proof.
    intros Ne. unfold two_tracks, A, B. cbn [hist_wf op_wf op_next Nat.eqb].
    assert (Q : nc (fun c => c =? chB) chA = true) by (unfold nc; apply negb_true_iff; apply Z.eqb_neq; congruence).
    rewrite (notation_stream_ok uw U chA gnum gden N sn sd sa (nc (fun c => c =? chB)) (nb (fun _ => false)) Q).
    rewrite (notation_stream_ok uw U chB gnum gden N sn sd sa (fun c => c =? chB) (fun _ => false) (Z.eqb_refl chB)). cbn [andb].
    induction n as [|n IH]; [reflexivity|]. cbn [repeat hist_wf op_wf op_next andb]. exact IH.
  Qed.
  Lemma solo_ticks i : forall n k, solo i k (repeat OTick n) = repeat OTick n.
  Proof. induction n as [|n IH]; intros k; [reflexivity|]. cbn [repeat solo op_keep op_next app]. rewrite IH. reflexivity. Qed.

  (* both tracks are written with the same three strings; their channels differ.  In the joint run each produces, tick by
     tick, exactly the calls of the run in which it is alone - and the two solo runs differ in the channel only, because
     both streams are the same function of the same strings *)
  Theorem same_strings_merge cfg n : chA <> chB -> uncoupled cfg = true -> all_ticks_ok cfg tl0 (two_tracks n) = true ->
    tick_calls cfg (tl_at 0) (OSchedule A qA dA cA rA None true :: repeat OTick n)
      = map (filter (call_ok (fun c => c =? chA) (fun _ => false))) (tick_calls cfg tl0 (two_tracks n))
    /\ tick_calls cfg (tl_at 1) (OSchedule B qB dB cB rB None true :: repeat OTick n)
      = map (filter (call_ok (fun c => c =? chB) (fun _ => false))) (tick_calls cfg tl0 (two_tracks n)).
  Proof.
    intros Ne Un Ok. split.
    - destruct (merge_from_empty 0 _ _ cfg (two_tracks n) Un (two_wf_A n Ne) Ok) as [M _]. rewrite <- M.
      unfold two_tracks. cbn [solo op_keep op_next Nat.eqb app]. rewrite solo_ticks. reflexivity.
    - destruct (merge_from_empty 1 _ _ cfg (two_tracks n) Un (two_wf_B n Ne) Ok) as [M _]. rewrite <- M.
      unfold two_tracks. cbn [solo op_keep op_next Nat.eqb app]. rewrite solo_ticks. reflexivity.
  Qed.
End TwoTracks.

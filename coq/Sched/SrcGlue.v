(* Sched/SrcGlue.v — TRUSTED GLUE of the scheduler-core translator (harness/gen_tables_track.py, docs/TRANSLATOR3.md).

   The generated file Generated/TablesTrack.v renders method bodies of isobar/timelines/track.py and timeline.py over the
   record types of Sched/Model.v.  Everything the rendering needs that is NOT read from the source text and is NOT a
   definition of Model.v is in this file, so that the hand-written part of the reading can be reviewed in one place:

   * how Python's list operations on lists of objects are read (list.remove(x): first element == x; == on a dataclass is
     field-wise equality, on a Track identity = the model's t_id);
   * how `None` in Track.event_stream is represented (the model has no optional stream: the empty stream stands for it);
   * the outcomes of calls that may raise (an exception is a value of [opres]/[got], not control flow);
   * what the two kinds of closures stored in Timeline.actions do when called ([fire_action] of Model.v is used as is).

   No axioms; everything here is a definition or a proved lemma. *)
From Isobar Require Import Base.Prelude Sched.Model.
Local Open Scope Z_scope.

(* the Coq type names, under names no Python local clashes with (a Python local may be called `track` or `action`) *)
Notation track_t := track (only parsing).
Notation timeline_t := timeline (only parsing).
Notation action_t := action (only parsing).
Notation noteoff_t := noteoff (only parsing).

(** * list.remove(x): removes the first element that is == x *)
Section RemoveFirst.
  Context {A : Type} (dec : forall a b : A, {a = b} + {a <> b}).
  Fixpoint remove_first (x : A) (l : list A) : list A :=
    match l with
    | [] => []
    | y :: r => if dec x y then r else y :: remove_first x r
    end.

  (* the element found is the one under the cursor when nothing before it equals it *)
  Lemma remove_first_skip : forall (a : list A) x s, ~ In x a -> remove_first x (a ++ x :: s) = a ++ s.
  Proof.
    induction a as [|y a IH]; intros x s H; cbn [remove_first app].
    - destruct (dec x x); [reflexivity|congruence].
    - destruct (dec x y) as [E|E]; [exfalso; apply H; left; symmetry; exact E|].
      rewrite IH; [reflexivity|]. intros I. apply H. right. exact I.
  Qed.
End RemoveFirst.

(** * == on the dataclasses NoteOffEvent and Action: field-wise (decidable) equality *)
Definition noteoff_dec : forall a b : noteoff, {a = b} + {a <> b}.
Proof. repeat decide equality. Defined.
Definition action_dec : forall a b : action, {a = b} + {a <> b}.
Proof. repeat decide equality. Defined.
(* (Python compares the `function` fields of two Actions by identity of the closures, which is finer than the structural
   equality of the model's [action]; the tie lemmas only use that equal actions are due together, so any decidable
   equality gives the same list - see ModelSrc.v src_phase_actions_is.) *)

(** * Track objects: identity is the id *)
Definition track_in (x : track) (l : list track) : bool :=           (* `x in self.tracks` (Track defines no __eq__) *)
  match find_track (t_id x) l with Some _ => true | None => false end.
Definition tracks_remove (x : track) (l : list track) : list track := (* self.tracks.remove(x) *)
  del_track (t_id x) l.

(** * Track.event_stream = None is the empty stream *)
Definition stream_is_none (s : stream) : bool :=
  match s_items s, s_pos s, s_cyclic s with [], O, false => true | _, _, _ => false end.
Definition stream_none : stream := empty_stream.

Lemma stream_is_none_iff s : stream_is_none s = true <-> s = empty_stream.
Proof.
  destruct s as [it p c]. unfold stream_is_none, empty_stream. cbn.
  split; [destruct it; [destruct p; [destruct c; [discriminate|reflexivity]|discriminate]|discriminate] | intros E; inversion E; reflexivity].
Qed.

(** * Track.tick() as an operation on the timeline that holds the track object   (the CALLBACK MECHANISM; trusted)
   `track.tick()` in the loop of Timeline.tick mutates the Track object AND - through the callback of an action event, which
   runs in the middle of Track.tick, inside perform_event - the timeline, possibly the very track that is ticking (mute,
   update, unschedule ...).  The model splits Track.tick at that point (track_tick_a / the callback's operations /
   track_tick_b on the object as the callback left it).  [obj_tick] is that composition and nothing else: it performs NO
   part of Timeline.tick's own loop body (no removal, no exception handling), which is translated from the source.
   Outcome: TickOk (tick() returned; a StopIteration was handled inside Track.tick), TickRaise (it raised an Exception),
   TickFuel (model artefact: the `while` of Track.tick ran out of fuel).  The last component is the Track object after the
   call, whether or not it is still scheduled (an object that left the timeline is otherwise not represented). *)
Inductive tick_out := TickOk | TickRaise | TickFuel.

Definition obj_tick (cfg : config) (tl : timeline) (tr : track) : timeline * list call * tick_out * track :=
  let id := t_id tr in
  let '(tr1, c, n', res) := track_tick_a cfg (now tl) tr (dev_calls tl) in
  let tl1 := set_dev (upd_track tl tr1) n' in
  let rest (tl : timeline) (stopped : bool) :=    (* `except StopIteration: ...` and the clock, on the object as it is now *)
    match find_track id (tracks tl) with
    | Some tr2 => let tr3 := track_tick_b cfg tr2 stopped in (upd_track tl tr3, tr3)
    | None => (tl, track_tick_b cfg tr1 stopped)
    end in
  match res with
  | TNotStarted => (tl1, c, TickOk, tr1)
  | TNormal => let '(tl2, o) := rest tl1 false in (tl2, c, TickOk, o)
  | TStop => let '(tl2, o) := rest tl1 true in (tl2, c, TickOk, o)
  | TCallback cb =>
      let '(rk, ops) := nth cb (cbs cfg) (CbNone, []) in
      let tl2 := exec_cb_ops cfg tl1 ops in
      let stop := match rk with CbStop => cb_completes cfg tl1 ops | _ => false end in
      let '(tl3, o) := rest (if stop then end_stream tl2 id else tl2) stop in (tl3, c, TickOk, o)
  | TRaise => (tl1, c, TickRaise, tr1)
  | TOutOfFuel => (tl1, c, TickFuel, tr1)
  end.

(** * Track.perform_event: the branches that are NOT translated   (trusted)
   The two guards (`if not event.active`, `if self.is_muted`), the dispatch on event.type and the control / program-change
   branches are read from the source (Generated/TablesTrack.v src_track_perform_event).  The action branch (the try/except
   around the callback: the callback itself runs in obj_tick) is the model's, taken over as it is; of the note branch the
   body of the voice loop is read from the source and the loop around it is [perform_note_with] below. *)
Definition perform_action (self : track) (calls : list call) (n : nat) (cb : nat) : track * list call * nat * performed :=
  (self, calls ++ [CCallback cb], n, PfCallback cb).

(* the note branch: `for index, note in enumerate(notes): amp = ...; channel = ...; gate = ...; <body>` runs <body> - which IS
   translated (Generated/TablesTrack.v src_track_perform_voice) - once per voice, the voice being (note, amp, channel,
   duration * gate) as resolved from the event (v_note, v_amp, v_chan, v_glen: Model.v; `gate > 0` is read as
   `duration * gate > 0`, durations being positive); a device call that raises ends the loop (state component ok = false) *)
Definition perform_note_with (step : track * list call * nat * bool -> voice -> track * list call * nat * bool)
  (self : track) (calls : list call) (n : nat) (vs : list voice) : track * list call * nat * performed :=
  let '(self, calls, n, ok) := fold_left step vs (self, calls, n, true) in
  (self, calls, n, if ok then PfOk else PfRaise).

(** * Timeline.schedule: names, new Track objects   (trusted)
   `existing_track.name == name` on the model's optional integer names; `Track(self, max_event_count=count, ...,
   remove_when_done=..., name=...)` is Model.v new_track with the next free id (object identity); appending the NEW object to
   Timeline.tracks consumes that id; the in-place mutation of an element of Timeline.tracks reached through a loop variable
   is written back with upd_track (identity = id). *)
Definition name_is (x : track) (nm : Z) : bool := match t_name x with Some n => n =? nm | None => false end.
Definition register_track (tl : timeline) (x : track) : timeline :=
  mkTL (now tl) (tracks tl ++ [x]) (actions tl) (S (next_id tl)) (def_q tl) (def_d tl) (dev_calls tl).

(* Sched/Interp.v — executable model of interpolated control tracks:
     isobar/pattern/sequence.py  PInterpolate (reset, __next__: linear and cosine step tables)
     isobar/pattern/core.py      PDict.__next__ over the per-field PInterpolate patterns
     isobar/timelines/track.py   Track.tick, interpolating branch (+ get_next_event, the control call of perform_event)
     isobar/timelines/track.py   Track.update / timeline.py Timeline._schedule_action (tick on which the track starts)
   Values are exact rationals (Q).  cos(pi * x) enters as the Section variable [cospi]; nothing is assumed
   about it here (the theorems that need facts about it take them as hypotheses).
   No proofs in this file. *)
From Isobar Require Import Base.Prelude.
From Coq Require Import QArith Qround Qabs String.
Local Notation length := List.length (only parsing).
Local Open Scope Z_scope.

(** * Data *)

(* A field value of an event dict.  The type test of Track.tick
      if type(value) is not float and type(value) is not int: continue
   splits values into numbers (interpolated) and everything else (strings, None, bools, objects:
   copied unchanged; identified here by a token). *)
Inductive fval := VNum (q : Q) | VOpq (tok : Z).

Inductive imode := Linear | Cosine.   (* INTERPOLATION_LINEAR / INTERPOLATION_COSINE *)

(* One event pulled from the track's event stream:
   e_ctl    event.type == EVENT_TYPE_CONTROL
   e_dur    event.duration, in beats (exact value of the int/float)
   e_fields event.fields without the keys "type" and "duration", which the loop skips
              if key == EVENT_TYPE or key == EVENT_DURATION: continue *)
Record event := mkEvent { e_ctl : bool; e_dur : Q; e_fields : list (string * fval) }.

Fixpoint lookup {A} (k : string) (l : list (string * A)) : option A :=
  match l with
  | [] => None
  | (k', v) :: r => if String.eqb k k' then Some v else lookup k r
  end.

(** * Durations in ticks *)

(* Python round(x, 8) on an exact value (ties are not reachable from the durations considered) *)
Definition round8 (x : Q) : Q := Qfloor (x * (100000000 # 1) + (1 # 2)) # 100000000.

(* int(round(duration * ticks_per_beat, 8)).  int() truncates towards zero and Qfloor rounds down; the
   two differ only for negative non-integers, where both results are <= 0 (the point is skipped). *)
Definition dur_steps (tpb : Z) (d : Q) : Z := Qfloor (round8 (d * inject_Z tpb)).

(** * PInterpolate, PDict *)

Inductive pres (A : Type) := PVal (x : A) | PStop | PErr.
Arguments PVal {A} x.
Arguments PStop {A}.
Arguments PErr {A}.

Section WithCos.
Variable cospi : Q -> Q.          (* x |-> cos(pi * x), supplied by the environment (libm) *)

(* PInterpolate.__next__, the entries of step_values:
     linear: self.value + dt * (n + 1) / vsteps
     cosine: self.value + dt * 0.5 * (1.0 - math.cos(math.pi * (n + 1) / vsteps))        n = 0 .. vsteps-1 *)
Definition step_value (mode : imode) (a b : Q) (vsteps : Z) (n : nat) : Q :=
  let dt := (b - a)%Q in
  match mode with
  | Linear => (a + dt * inject_Z (Z.of_nat n + 1) / inject_Z vsteps)%Q
  | Cosine => (a + dt * (1 # 2) * (1 - cospi ((Z.of_nat n + 1) # Z.to_pos vsteps)))%Q
  end.

Definition step_table (mode : imode) (a b : Q) (vsteps : Z) : list Q :=
  map (step_value mode a b vsteps) (seq 0 (Z.to_nat vsteps)).

(* state of one PInterpolate: what is left of its input pattern, self.value, self.step_values, self.pos *)
Record pistate := mkPi { pi_pat : list Q; pi_val : Q; pi_tab : list Q; pi_pos : nat }.

(* PInterpolate(PSequence([a, b], 1), steps, mode) after reset(): value = next(pattern) = a *)
Definition pi_fresh (a b : Q) : pistate := mkPi [b] a [a] 0.

Definition pi_next (mode : imode) (steps : Z) (s : pistate) : pres (Q * pistate) :=
  if (pi_pos s =? length (pi_tab s))%nat then
    if steps =? 0 then PStop        (* while vsteps == 0: self.value = next(self.pattern) -- drains the finite input: StopIteration *)
    else match pi_pat s with
         | [] => PStop              (* target = next(self.pattern): StopIteration *)
         | target :: rest =>
             let tab := step_table mode (pi_val s) target steps in
             match tab with
             | [] => PErr           (* negative steps: empty table, IndexError *)
             | v :: _ => PVal (v, mkPi rest v tab 1)
             end
         end
  else
    let v := nth (pi_pos s) (pi_tab s) 0%Q in
    PVal (v, mkPi (pi_pat s) v (pi_tab s) (S (pi_pos s))).

(* a field of Track.interpolating_event: a constant or a PInterpolate *)
Inductive fstate := FConst (v : fval) | FInterp (s : pistate).

(* PDict.__next__: rv = dict([(k, Pattern.value(vdict[k])) for k in vdict]); a StopIteration of any field
   ends the whole dict (the partly advanced dict is then discarded by the caller) *)
Fixpoint pd_next (mode : imode) (steps : Z) (fs : list (string * fstate))
  : pres (list (string * fval) * list (string * fstate)) :=
  match fs with
  | [] => PVal ([], [])
  | (k, FConst v) :: r =>
      match pd_next mode steps r with
      | PVal (vs, r') => PVal ((k, v) :: vs, (k, FConst v) :: r')
      | PStop => PStop
      | PErr => PErr
      end
  | (k, FInterp s) :: r =>
      match pi_next mode steps s with
      | PVal (q, s') =>
          match pd_next mode steps r with
          | PVal (vs, r') => PVal ((k, VNum q) :: vs, (k, FInterp s') :: r')
          | PStop => PStop
          | PErr => PErr
          end
      | PStop => PStop
      | PErr => PErr
      end
  end.

(* for key, value in self.current_event.fields.items():
       if type(value) is not float and type(value) is not int: continue
       fields[key] = PInterpolate(PSequence([current.fields[key], next.fields[key]], 1), duration_ticks, mode)
   None: the next event has no number under that key (KeyError now / TypeError one tick later) — outside
   the modelled domain, reported as OErr. *)
Fixpoint build_fields (cur nxt : list (string * fval)) : option (list (string * fstate)) :=
  match cur with
  | [] => Some []
  | (k, VOpq t) :: r => option_map (cons (k, FConst (VOpq t))) (build_fields r nxt)
  | (k, VNum a) :: r =>
      match lookup k nxt with
      | Some (VNum b) => option_map (cons (k, FInterp (pi_fresh a b))) (build_fields r nxt)
      | _ => None
      end
  end.

(** * Track.tick, interpolating branch *)

(* what one tick of the track does to the output device *)
Inductive outcome :=
| OCall (control value channel : fval)   (* output_device.control(event.control, event.value, event.channel) *)
| ONone                                  (* no call *)
| OInvalid                               (* InvalidEventException raised *)
| OErr.                                  (* some other exception: input outside the modelled domain *)

(* perform_event on a control event *)
Definition perform (vals : list (string * fval)) : outcome :=
  match lookup "control"%string vals, lookup "value"%string vals, lookup "channel"%string vals with
  | Some c, Some v, Some ch => OCall c v ch
  | _, _, _ => OErr
  end.

Record tstate := mkT {
  t_stream : list event;                              (* what is left of event_stream *)
  t_count : Z;                                        (* current_event_count *)
  t_next : option event;                              (* next_event *)
  t_ie : option (Z * list (string * fstate));         (* interpolating_event (with its step count); None = the initial PSequence([], 0) *)
  t_dead : bool                                       (* finished (removed from the timeline) or stopped by an exception *)
}.

Section Track.
Variable tpb : Z.                (* timeline.ticks_per_beat *)
Variable mode : imode.           (* track.interpolate *)
Variable maxc : option Z.        (* track.max_event_count *)

(* if self.max_event_count not in (None, 0) and self.current_event_count >= self.max_event_count: raise StopIteration *)
Definition limit_reached (count : Z) : bool :=
  match maxc with
  | None => false
  | Some m => negb (m =? 0) && (m <=? count)
  end.

(* get_next_event; None = StopIteration *)
Definition get_next (stream : list event) (count : Z) : option (event * list event * Z) :=
  if limit_reached count then None
  else match stream with
       | [] => None
       | e :: r => Some (e, r, count + 1)
       end.

(* while int(round(self.current_event.duration * ticks_per_beat, 8)) <= 0:
       self.current_event = self.next_event; self.next_event = self.get_next_event() *)
Fixpoint skip_zero (cur nxt : event) (stream : list event) (count : Z)
  : option (event * event * list event * Z) :=
  if dur_steps tpb (e_dur cur) <=? 0 then
    if limit_reached count then None
    else match stream with
         | [] => None
         | e :: r => skip_zero nxt e r (count + 1)
         end
  else Some (cur, nxt, stream, count).

(* the track after it has finished (is_finished: the timeline removes it) or after an exception stopped it *)
Definition dead : tstate := mkT [] 0 None None true.

(* the `except StopIteration:` arm of the interpolating branch, from `self.current_event = self.next_event` on:
   cur is the event that becomes current_event, (stream, count) what get_next_event will see *)
Definition open_segment (is_first : bool) (cur : event) (stream : list event) (count : Z) : outcome * tstate :=
  match get_next stream count with                      (* self.next_event = self.get_next_event() *)
  | None => (ONone, dead)                                (* StopIteration: is_finished *)
  | Some (nxt, s2, c2) =>
      match skip_zero cur nxt s2 c2 with
      | None => (ONone, dead)
      | Some (cur', nxt', s3, c3) =>
          (* if current.type != EVENT_TYPE_CONTROL or next.type != EVENT_TYPE_CONTROL: raise InvalidEventException *)
          if negb (e_ctl cur' && e_ctl nxt') then (OInvalid, dead)
          else
            let steps := dur_steps tpb (e_dur cur') in
            match build_fields (e_fields cur') (e_fields nxt') with
            | None => (OErr, dead)
            | Some fs =>
                (* if not is_first_event: next(self.interpolating_event) *)
                match (if is_first then PVal fs
                       else match pd_next mode steps fs with
                            | PVal (_, fs') => PVal fs'
                            | PStop => PStop
                            | PErr => PErr
                            end) with
                | PVal fs1 =>
                    (* event = Event(next(self.interpolating_event), ...); self.perform_event(event) *)
                    match pd_next mode steps fs1 with
                    | PVal (vals, fs2) => (perform vals, mkT s3 c3 (Some nxt') (Some (steps, fs2)) false)
                    | PStop => (ONone, dead)
                    | PErr => (OErr, dead)
                    end
                | PStop => (ONone, dead)
                | PErr => (OErr, dead)
                end
            end
      end
  end.

Definition advance (st : tstate) : outcome * tstate :=
  match t_next st with
  | Some e => open_segment false e (t_stream st) (t_count st)
  | None =>                                              (* no events obtained yet: pull the first one; is_first_event = True *)
      match get_next (t_stream st) (t_count st) with
      | Some (e, r, c) => open_segment true e r c
      | None => (ONone, dead)
      end
  end.

Definition tick (st : tstate) : outcome * tstate :=
  if t_dead st then (ONone, st)
  else match t_ie st with
       | None => advance st
       | Some (steps, fs) =>
           match pd_next mode steps fs with
           | PVal (vals, fs') =>
               (perform vals, mkT (t_stream st) (t_count st) (t_next st) (Some (steps, fs')) false)
           | PStop => advance st
           | PErr => (OErr, dead)
           end
       end.

Fixpoint run (n : nat) (st : tstate) : list outcome :=
  match n with
  | O => []
  | S k => let (o, st') := tick st in o :: run k st'
  end.

Definition init (events : list event) : tstate := mkT events 0 None None false.

End Track.

(** * Start of the track: Track.update / Timeline._schedule_action / the action loop of Timeline.tick *)

(* scheduled_time = quantize * ceil(round(now / quantize, 8)) if quantize else now;  + delay *)
Definition sched_time (now quantize delay : Q) : Q :=
  ((if Qeq_bool quantize 0 then now
    else quantize * inject_Z (Qceiling (round8 (now / quantize)))) + delay)%Q.

(* if round(action.time - self.current_time, 8) <= 0
   (the code rounds the difference; for times on a tick grid of fewer than 10^8 ticks per beat this and the earlier
   form round(action.time, 8) <= round(self.current_time, 8) both equal the exact comparison: Base/Round8.v,
   r8_diff_compare) *)
Definition action_due (time now : Q) : bool := Qle_bool (round8 (time - now)) 0.

(* the first tick k >= s (s = tick index at which schedule() is called) on which the track runs;
   with quantize = delay = 0 the track is started inside schedule() itself *)
Fixpoint find_start (fuel : nat) (tpb : Z) (time : Q) (k : Z) : option Z :=
  match fuel with
  | O => None
  | S f => if action_due time (k # Z.to_pos tpb) then Some k else find_start f tpb time (k + 1)
  end.

Definition start_tick (fuel : nat) (tpb s : Z) (quantize delay : Q) : option Z :=
  if Qeq_bool quantize 0 && Qeq_bool delay 0 then Some s
  else find_start fuel tpb (sched_time (s # Z.to_pos tpb) quantize delay) s.

(* per-tick outcomes of ticks 0 .. n-1 of a timeline on which the track is scheduled before tick s *)
Definition timeline_run (n : nat) (tpb : Z) (mode : imode) (maxc : option Z) (s : Z) (quantize delay : Q)
           (events : list event) : list outcome :=
  match start_tick (S n) tpb s quantize delay with
  | None => repeat ONone n
  | Some t0 =>
      let pre := Nat.min n (Z.to_nat t0) in
      repeat ONone pre ++ run tpb mode maxc (n - pre) (init events)
  end.

End WithCos.

(* Sched/ModelSrc.v — the method bodies of the scheduler core as translated from the SOURCE TEXT of
   isobar/timelines/track.py and timeline.py (Generated/TablesTrack.v, rewritten by harness/gen_tables_track.py on every run
   of ./check C02|C05|C06|C07|C17) against the hand-written functions of Sched/Model.v.  A change of a translated method body
   breaks a lemma of this file, i.e. a proof obligation of the property it serves.   docs/TRANSLATOR3.md.

   The hand-written, TRUSTED part of the reading is Sched/SrcGlue.v (which the generated file has to import, so it cannot
   live here) plus the section "Glue" at the end of this file.  Everything else is proved. *)
From Isobar Require Import Base.Prelude Sched.Model Sched.NoteOffProofs Sched.SrcGlue Generated.TablesTrack.
Local Open Scope Z_scope.

(** * 1. Track.mute / unmute / nudge   (C06) *)
Lemma src_track_mute_is tr : src_track_mute tr = set_muted tr true.
Proof. reflexivity. Qed.
Lemma src_track_unmute_is tr : src_track_unmute tr = set_muted tr false.
Proof. reflexivity. Qed.
Lemma src_track_nudge_is tr x : src_track_nudge tr x = set_next tr (t_next tr + x).
Proof. reflexivity. Qed.

(* the model's operations are the methods applied to the track object found *)
Lemma exec_mute_src cfg tl t :
  exec_op cfg tl (OMute t) = match find_track t (tracks tl) with Some tr => (upd_track tl (src_track_mute tr), ROk) | None => (tl, ROk) end.
Proof. reflexivity. Qed.
Lemma exec_unmute_src cfg tl t :
  exec_op cfg tl (OUnmute t) = match find_track t (tracks tl) with Some tr => (upd_track tl (src_track_unmute tr), ROk) | None => (tl, ROk) end.
Proof. reflexivity. Qed.
Lemma exec_nudge_src cfg tl t x :
  exec_op cfg tl (ONudge t x) = match find_track t (tracks tl) with Some tr => (upd_track tl (src_track_nudge tr x), ROk) | None => (tl, ROk) end.
Proof. reflexivity. Qed.

(** * 2. Track.process_note_offs   (C02, C07)
   source: a loop over a COPY of note_offs that removes the due entries from the list one by one (list.remove: first
   element == the entry); model: a partition (filter).  *)
Lemma no_due_not_in cur x kept :
  no_due cur x = true -> Forall (fun n => no_due cur n = false) kept -> ~ In x kept.
Proof. intros D F I. rewrite Forall_forall in F. specialize (F x I). congruence. Qed.

Lemma note_off_loop (step : list call * track -> noteoff -> list call * track) :
  (forall calls tr0 x, step (calls, tr0) x =
     if no_time x <=? t_cur tr0
     then (calls ++ [CNoteOff (no_note x) (no_chan x)], w_t_offs tr0 (remove_first noteoff_dec x (t_offs tr0)))
     else (calls, tr0)) ->
  forall todo kept calls tr0, t_offs tr0 = kept ++ todo -> Forall (fun n => no_due (t_cur tr0) n = false) kept ->
    fold_left step todo (calls, tr0)
    = (calls ++ map (fun n => CNoteOff (no_note n) (no_chan n)) (filter (no_due (t_cur tr0)) todo),
       w_t_offs tr0 (kept ++ filter (fun n => negb (no_due (t_cur tr0) n)) todo)).
Proof.
  intros Hstep. induction todo as [|x todo IH]; intros kept calls tr0 Ho Hk; cbn [fold_left filter map].
  - rewrite app_nil_r in Ho. rewrite !app_nil_r, <- Ho. destruct tr0; reflexivity.
  - rewrite Hstep. fold (no_due (t_cur tr0) x). destruct (no_due (t_cur tr0) x) eqn:D; cbn [negb map].
    + rewrite Ho, (remove_first_skip noteoff_dec kept x todo (no_due_not_in _ _ _ D Hk)).
      rewrite (IH kept); [|reflexivity|exact Hk]. cbn [t_cur t_offs w_t_offs]. rewrite <- app_assoc. reflexivity.
    + rewrite (IH (kept ++ [x])).
      * rewrite <- !app_assoc. reflexivity.
      * rewrite Ho, <- app_assoc. reflexivity.
      * apply Forall_app. split; [exact Hk|]. constructor; [exact D|constructor].
Qed.

Theorem src_track_process_note_offs_is tr : src_track_process_note_offs tr = process_note_offs tr.
Proof.
  unfold src_track_process_note_offs, process_note_offs.
  match goal with |- context [fold_left ?f _ _] => set (step := f) end.
  rewrite (note_off_loop step) with (kept := []); [reflexivity| |reflexivity|constructor].
  intros calls tr0 x. reflexivity.
Qed.

(* the first phase of Timeline.tick: `for track in self.tracks[:]: track.process_note_offs()` *)
Lemma phase_noteoffs_src : forall l,
  phase_noteoffs l = (map (fun t => fst (src_track_process_note_offs t)) l, flat_map (fun t => snd (src_track_process_note_offs t)) l).
Proof.
  induction l as [|t r IH]; [reflexivity|]. cbn [phase_noteoffs map flat_map].
  rewrite IH, src_track_process_note_offs_is. reflexivity.
Qed.

(** * 3. Timeline._release_pending_notes / unschedule / clear   (C02, C06) *)
Lemma release_loop (f : noteoff -> action) : forall l tl,
  fold_left (fun self n => let self := w_actions self (actions self ++ [f n]) in self) l tl = w_actions tl (actions tl ++ map f l).
Proof.
  induction l as [|x l IH]; intros tl; cbn [fold_left map].
  - rewrite app_nil_r. destruct tl; reflexivity.
  - rewrite IH. cbn [w_actions actions now tracks next_id def_q def_d dev_calls]. rewrite <- app_assoc. reflexivity.
Qed.

Theorem src_timeline_release_pending_notes_is tl tr :
  src_timeline_release_pending_notes tl tr = (set_actions tl (actions tl ++ release_actions tr), set_offs tr []).
Proof.
  unfold src_timeline_release_pending_notes. rewrite (release_loop (fun n => ARelease (no_abs n) (no_note n) (no_chan n))). reflexivity.
Qed.

(* the track object [tr] is the one scheduled under its id: unschedule is the model's remove_track *)
Theorem src_timeline_unschedule_found tl tr :
  find_track (t_id tr) (tracks tl) = Some tr -> src_timeline_unschedule tl tr = (remove_track tl (t_id tr), ROk).
Proof.
  intros H. unfold src_timeline_unschedule, track_in, remove_track. rewrite H. cbn [negb].
  rewrite src_timeline_release_pending_notes_is. reflexivity.
Qed.
Theorem src_timeline_unschedule_missing tl tr :
  find_track (t_id tr) (tracks tl) = None -> src_timeline_unschedule tl tr = (tl, RTrackNotFound).
Proof. intros H. unfold src_timeline_unschedule, track_in. rewrite H. reflexivity. Qed.

Theorem exec_unschedule_src cfg tl t :
  exec_op cfg tl (OUnschedule t) = match find_track t (tracks tl) with
                                   | Some tr => src_timeline_unschedule tl tr
                                   | None => (tl, RTrackNotFound) end.
Proof.
  cbn [exec_op]. destruct (find_track t (tracks tl)) as [tr|] eqn:H; [|reflexivity].
  pose proof (find_track_id _ _ _ H) as E. subst t. rewrite src_timeline_unschedule_found by exact H. reflexivity.
Qed.

Lemma clear_loop (step : timeline * opres -> track -> timeline * opres) :
  (forall tl0 x, step (tl0, ROk) x = let '(self, res) := src_timeline_unschedule tl0 x in (self, res)) ->
  forall s tl0, tracks tl0 = s ->
    fold_left step s (tl0, ROk) = (fold_left (fun tl' tr => remove_track tl' (t_id tr)) s tl0, ROk).
Proof.
  intros Hstep. induction s as [|x s IH]; intros tl0 Ht; cbn [fold_left]; [reflexivity|].
  assert (F : find_track (t_id x) (tracks tl0) = Some x) by (rewrite Ht; cbn [find_track]; rewrite Nat.eqb_refl; reflexivity).
  rewrite Hstep, (src_timeline_unschedule_found _ _ F). apply IH.
  unfold remove_track. rewrite F. cbn [set_actions set_tracks tracks]. rewrite Ht. cbn [del_track]. rewrite Nat.eqb_refl. reflexivity.
Qed.

Theorem src_timeline_clear_is cfg tl : src_timeline_clear tl = exec_op cfg tl OClear.
Proof.
  unfold src_timeline_clear. cbn [exec_op].
  match goal with |- context [fold_left ?f (tracks tl) (tl, ROk)] => set (step := f) end.
  rewrite (clear_loop step) with (s := tracks tl); [reflexivity| |reflexivity].
  intros tl0 x. subst step. cbn beta iota. destruct (src_timeline_unschedule tl0 x) as [s r]. destruct r; reflexivity.
Qed.

(** * 4. Track.get_next_event   (C06, C17) *)
Lemma set_stream_same tr : set_stream tr (t_stream tr) = tr.
Proof. destruct tr; reflexivity. Qed.

Theorem src_track_get_next_event_is tr : src_track_get_next_event tr = get_next_event tr.
Proof.
  unfold src_track_get_next_event, get_next_event, count_exhausted.
  destruct (stream_is_none (t_stream tr)) eqn:N.
  - apply stream_is_none_iff in N.
    assert (P : pull (t_stream tr) = (RStopIter, t_stream tr)) by (rewrite N; reflexivity).
    rewrite P, set_stream_same. destruct (t_max tr) as [m|]; [|reflexivity].
    destruct (negb (m =? 0) && (m <=? t_count tr)); reflexivity.
  - destruct (t_max tr) as [m|].
    + rewrite Z.geb_leb. destruct (negb (m =? 0)); cbn [andb]; [destruct (m <=? t_count tr); [reflexivity|]|];
        destruct (pull (t_stream tr)) as [[| |e] s']; reflexivity.
    + destruct (pull (t_stream tr)) as [[| |e] s']; reflexivity.
Qed.

(** * 5. Track.start / Track.update   (C05)
   events: an already built stream (the normalisation dict -> PDict of the argument is not translated); interpolate = None;
   `self.timeline._schedule_action(function=lambda: self.start(events, ...), quantize=, delay=)` appends
   AStart (sched_time now q d) id events - the scheduled time of the source is tied to sched_time in Sched/SchedTimeSrc.v;
   the output-device latency (seconds -> beats) is the model's `latency cfg`. *)
Theorem src_track_start_is tr s : src_track_start tr s = track_start tr s.
Proof. reflexivity. Qed.

Theorem src_track_update_is cfg tl tr s q d count : src_track_update cfg tl tr s q d count = track_update cfg tl tr s q d count.
Proof.
  unfold src_track_update, track_update.
  destruct q as [q|], d as [d|], count as [c|]; destruct (0 <? latency cfg);
    match goal with |- context [?a =? 0] => destruct (a =? 0) end; cbn [andb];
    try match goal with |- context [?a =? 0] => destruct (a =? 0) end; reflexivity.
Qed.

Theorem exec_update_src cfg tl t s q d count tr : find_track t (tracks tl) = Some tr ->
  exec_op cfg tl (OUpdate t s q d count) = let '(tl1, tr1) := src_track_update cfg tl tr s q d count in (upd_track tl1 tr1, ROk).
Proof. intros H. cbn [exec_op]. rewrite H, src_track_update_is. reflexivity. Qed.

(* what the stored closure of a deferred update does when the timeline calls it: Track.start *)
Lemma fire_start_src tl t id s : fire_action tl (AStart t id s)
  = match find_track id (tracks tl) with Some tr => (upd_track tl (src_track_start tr s), []) | None => (tl, []) end.
Proof. reflexivity. Qed.

Print Assumptions src_track_update_is.
Print Assumptions src_track_process_note_offs_is.
Print Assumptions src_timeline_clear_is.
Print Assumptions src_track_get_next_event_is.

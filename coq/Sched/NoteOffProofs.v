(* Sched/NoteOffProofs.v — C02: conservation of sounding notes.
   For an ARBITRARY weight w on (note, channel) pairs, every operation of the timeline satisfies
       W(pending after) + W(note-offs emitted) = W(pending before) + W(note-ons emitted)
   where "pending" are the release entries held by the scheduled tracks and by the timeline itself
   (entries taken over from tracks that left).  Instantiating w with the indicator of one (note, channel)
   gives: #note-ons - #note-offs = #pending entries, for every key, after every history. *)
From Isobar Require Import Base.Prelude Sched.Model.
#[local] Arguments Z.add : simpl never.

Section Weights.
  Variable w : Z -> Z -> Z.

  Definition Wo (l : list noteoff) : Z := fold_right (fun n a => w (no_note n) (no_chan n) + a) 0 l.
  Definition Wt (l : list track) : Z := fold_right (fun t a => Wo (t_offs t) + a) 0 l.
  Definition wa (a : action) : Z := match a with ARelease _ n c => w n c | AStart _ _ _ => 0 end.
  Definition Wa (l : list action) : Z := fold_right (fun x a => wa x + a) 0 l.
  Definition Pend (tl : timeline) : Z := Wt (tracks tl) + Wa (actions tl).
  Definition won (c : call) : Z := match c with CNoteOn n _ ch => w n ch | _ => 0 end.
  Definition woff (c : call) : Z := match c with CNoteOff n ch => w n ch | _ => 0 end.
  Definition Won (l : list call) : Z := fold_right (fun c a => won c + a) 0 l.
  Definition Woff (l : list call) : Z := fold_right (fun c a => woff c + a) 0 l.

  Lemma Wo_app a b : Wo (a ++ b) = Wo a + Wo b.
  Proof. induction a as [|x r IH]; simpl; [lia|]. rewrite IH. lia. Qed.
  Lemma Wt_app a b : Wt (a ++ b) = Wt a + Wt b.
  Proof. induction a as [|x r IH]; simpl; [lia|]. rewrite IH. lia. Qed.
  Lemma Wa_app a b : Wa (a ++ b) = Wa a + Wa b.
  Proof. induction a as [|x r IH]; simpl; [lia|]. rewrite IH. lia. Qed.
  Lemma Won_app a b : Won (a ++ b) = Won a + Won b.
  Proof. induction a as [|x r IH]; simpl; [lia|]. rewrite IH. lia. Qed.
  Lemma Woff_app a b : Woff (a ++ b) = Woff a + Woff b.
  Proof. induction a as [|x r IH]; simpl; [lia|]. rewrite IH. lia. Qed.

  (** ** Track level *)
  Lemma filter_split f (l : list noteoff) : Wo (filter f l) + Wo (filter (fun n => negb (f n)) l) = Wo l.
  Proof. induction l as [|x r IH]; simpl; [lia|]. destruct (f x); simpl; lia. Qed.

  Lemma Woff_map_offs l : Woff (map (fun n => CNoteOff (no_note n) (no_chan n)) l) = Wo l.
  Proof. induction l as [|x r IH]; simpl; [reflexivity|]. rewrite IH. reflexivity. Qed.
  Lemma Won_map_offs l : Won (map (fun n => CNoteOff (no_note n) (no_chan n)) l) = 0.
  Proof. induction l as [|x r IH]; simpl; [reflexivity|]. rewrite IH. reflexivity. Qed.

  Lemma process_cons tr :
    let '(tr', c) := process_note_offs tr in
    Wo (t_offs tr') + Woff c = Wo (t_offs tr) /\ Won c = 0.
  Proof.
    unfold process_note_offs. simpl. rewrite Woff_map_offs, Won_map_offs.
    pose proof (filter_split (no_due (t_cur tr)) (t_offs tr)). split; [lia|reflexivity].
  Qed.

  Lemma voices_cons fail nowT cur vs : forall n offs calls,
    let '(offs', calls', _, _) := perform_voices fail nowT cur vs n offs calls in
    Wo offs' - Wo offs = Won calls' - Won calls /\ Woff calls' = Woff calls.
  Proof.
    induction vs as [|v r IH]; intros n offs calls; simpl; [split; lia|].
    destruct (voice_on v); [|apply IH].
    destruct (dev_emit fail n); [|split; lia].
    specialize (IH (S n) (offs ++ [mkNO (cur + match v_glen v with Some l => l | None => 0 end)
                                         (nowT + match v_glen v with Some l => l | None => 0 end) (v_note v) (v_chan v)])
                   (calls ++ [CNoteOn (v_note v) (match v_amp v with Some a => a | None => 0 end) (v_chan v)])).
    destruct (perform_voices fail nowT cur r (S n) _ _) as [[[offs' calls'] n'] ok].
    rewrite Wo_app, Won_app, Woff_app in IH. simpl in IH. split; lia.
  Qed.

  Lemma perform_cons fail nowT tr e n :
    let '(tr', c, _, _) := perform_event fail nowT tr e n in
    Wo (t_offs tr') + Woff c = Wo (t_offs tr) + Won c.
  Proof.
    unfold perform_event. destruct (negb (e_active e)); [simpl; lia|].
    destruct (t_muted tr); [simpl; lia|].
    destruct (e_kind e) as [vs|cb|c v ch|pr ch].
    - pose proof (voices_cons fail nowT (t_cur tr) vs n (t_offs tr) []) as H.
      destruct (perform_voices fail nowT (t_cur tr) vs n (t_offs tr) []) as [[[offs calls] n'] ok].
      simpl in *. lia.
    - simpl. lia.
    - destruct (dev_emit fail n); simpl; lia.
    - destruct (dev_emit fail n); simpl; lia.
  Qed.

  Lemma gne_offs tr : t_offs (snd (get_next_event tr)) = t_offs tr.
  Proof.
    unfold get_next_event. destruct (count_exhausted tr); [reflexivity|].
    destruct (pull (t_stream tr)) as [[| |e] s']; reflexivity.
  Qed.
  Lemma pull_loop_offs fu : forall tr last, t_offs (snd (pull_loop fu tr last)) = t_offs tr.
  Proof.
    induction fu as [|f IH]; intros tr last; simpl; [reflexivity|].
    destruct (t_next tr <=? t_cur tr); [|reflexivity].
    pose proof (gne_offs tr) as G. destruct (get_next_event tr) as [[e| |] tr']; simpl in *; try exact G.
    rewrite IH. simpl. exact G.
  Qed.

  Lemma tick_a_cons cfg nowT tr n :
    let '(tr', c, _, _) := track_tick_a cfg nowT tr n in
    Wo (t_offs tr') + Woff c = Wo (t_offs tr) + Won c.
  Proof.
    unfold track_tick_a. destruct (negb (t_started tr)); [simpl; lia|].
    destruct (t_next tr <=? t_cur tr); [|simpl; lia].
    pose proof (pull_loop_offs (fuel cfg) tr None) as P.
    destruct (pull_loop (fuel cfg) tr None) as [[[e|]| | |] tr']; simpl in P; try (simpl; rewrite P; lia).
    pose proof (perform_cons (dev_fail cfg) nowT tr' e n) as H.
    destruct (perform_event (dev_fail cfg) nowT tr' e n) as [[[tr'' calls] n'] pf]. rewrite P in H. simpl. lia.
  Qed.

  Lemma tick_b_offs cfg tr st : t_offs (track_tick_b cfg tr st) = t_offs tr.
  Proof. unfold track_tick_b. destruct (st && _); reflexivity. Qed.

  (** ** Track lists *)
  Lemma Wt_put t' l : forall t, find_track (t_id t') l = Some t ->
    Wt (put_track t' l) = Wt l - Wo (t_offs t) + Wo (t_offs t').
  Proof.
    induction l as [|x r IH]; intros t H; simpl in *; [discriminate|].
    destruct (t_id x =? t_id t')%nat.
    - inversion H; subst. simpl. lia.
    - simpl. rewrite (IH t H). lia.
  Qed.
  Lemma Wt_put_none t' l : find_track (t_id t') l = None -> put_track t' l = l.
  Proof.
    induction l as [|x r IH]; intros H; simpl in *; [reflexivity|].
    destruct (t_id x =? t_id t')%nat; [discriminate|]. rewrite (IH H). reflexivity.
  Qed.
  Lemma Wt_del id l : forall t, find_track id l = Some t -> Wt (del_track id l) = Wt l - Wo (t_offs t).
  Proof.
    induction l as [|x r IH]; intros t H; simpl in *; [discriminate|].
    destruct (t_id x =? id)%nat.
    - inversion H; subst. lia.
    - simpl. rewrite (IH t H). lia.
  Qed.
  Lemma find_track_id id l t : find_track id l = Some t -> t_id t = id.
  Proof.
    induction l as [|x r IH]; simpl; [discriminate|].
    destruct (t_id x =? id)%nat eqn:E; [|exact IH]. intros H; inversion H; subst. apply Nat.eqb_eq. exact E.
  Qed.

  Lemma Wa_release l : Wa (map (fun n => ARelease (no_abs n) (no_note n) (no_chan n)) l) = Wo l.
  Proof. induction l as [|x r IH]; simpl; [reflexivity|]. rewrite IH. reflexivity. Qed.

  Lemma remove_track_pend tl id : Pend (remove_track tl id) = Pend tl.
  Proof.
    unfold remove_track. destruct (find_track id (tracks tl)) as [tr|] eqn:E; [|reflexivity].
    unfold Pend. simpl. rewrite Wa_app. unfold release_actions. rewrite Wa_release, (Wt_del id _ tr E). lia.
  Qed.

  (* replacing a scheduled track by a version of itself with the same pending entries *)
  Lemma upd_same tl tr tr' : find_track (t_id tr') (tracks tl) = Some tr -> Wo (t_offs tr') = Wo (t_offs tr) ->
    Pend (upd_track tl tr') = Pend tl.
  Proof. intros F E. unfold Pend, upd_track. simpl. rewrite (Wt_put tr' _ tr F). lia. Qed.

  Lemma upd_pend tl tr tr' : find_track (t_id tr') (tracks tl) = Some tr ->
    Pend (upd_track tl tr') = Pend tl - Wo (t_offs tr) + Wo (t_offs tr').
  Proof. intros F. unfold Pend, upd_track. simpl. rewrite (Wt_put tr' _ tr F). lia. Qed.

  (** ** Operations *)
  Lemma track_update_cons cfg tl tr s q d c :
    let '(tl', tr') := track_update cfg tl tr s q d c in
    Pend tl' = Pend tl /\ tracks tl' = tracks tl /\ t_offs tr' = t_offs tr /\ t_id tr' = t_id tr.
  Proof.
    unfold track_update.
    destruct ((_ =? 0) && (_ =? 0)).
    - destruct c; simpl; repeat split.
    - unfold Pend. simpl. rewrite Wa_app. simpl. destruct c; simpl; repeat split; lia.
  Qed.

  Lemma clear_pend l : forall tl, Pend (fold_left (fun tl' tr => remove_track tl' (t_id tr)) l tl) = Pend tl.
  Proof. induction l as [|t r IH]; intros tl; simpl; [reflexivity|]. rewrite IH. apply remove_track_pend. Qed.

  Lemma Wt_put_named nm t' l : forall t, find_named nm l = Some t ->
    Wt (put_named nm t' l) = Wt l - Wo (t_offs t) + Wo (t_offs t').
  Proof.
    induction l as [|x r IH]; intros t H; simpl in *; [discriminate|].
    destruct (t_name x) as [n|].
    - destruct (n =? nm).
      + inversion H; subst. simpl. lia.
      + simpl. rewrite (IH t H). lia.
    - simpl. rewrite (IH t H). lia.
  Qed.

  Lemma exec_op_pend cfg tl o : Pend (fst (exec_op cfg tl o)) = Pend tl.
  Proof.
    destruct o as [|s q d count rwd name replace|t s q d count|t| |t|t|t x|q d]; simpl; try reflexivity.
    - destruct (match name with
                | Some nm => if replace then match find_named nm (tracks tl) with Some tr => Some (nm, tr) | None => None end else None
                | None => None end) as [[nm tr]|] eqn:En.
      + assert (F : find_named nm (tracks tl) = Some tr).
        { destruct name as [nm'|]; [|discriminate]. destruct replace; [|discriminate].
          destruct (find_named nm' (tracks tl)) as [tr'|] eqn:F; [|discriminate]. inversion En; subst. exact F. }
        pose proof (track_update_cons cfg tl tr s q d count) as H.
        destruct (track_update cfg tl tr s q d count) as [tl1 tr1]. destruct H as [H1 [H2 [H3 H4]]]. simpl.
        unfold Pend in *. simpl. rewrite H2, (Wt_put_named nm _ _ tr F). simpl. rewrite H3. rewrite H2 in H1.
        assert (X : forall a b c dd, a + c = a + dd -> a - b + b + c = a + dd) by (intros; lia). apply X. exact H1.
      + destruct (negb (max_tracks cfg =? 0) && (max_tracks cfg <=? Z.of_nat (length (tracks tl)))); [reflexivity|].
        pose proof (track_update_cons cfg tl (new_track (next_id tl) count rwd name) s q d None) as H.
        destruct (track_update cfg tl (new_track (next_id tl) count rwd name) s q d None) as [tl1 tr1].
        destruct H as [H1 [H2 [H3 H4]]]. unfold Pend in *. simpl in *. rewrite Wt_app. simpl. rewrite H3. simpl. lia.
    - destruct (find_track t (tracks tl)) as [tr|] eqn:F.
      + pose proof (track_update_cons cfg tl tr s q d count) as H.
        destruct (track_update cfg tl tr s q d count) as [tl1 tr1]. destruct H as [H1 [H2 [H3 H4]]]. simpl.
        rewrite (upd_same tl1 tr tr1); [exact H1| |rewrite H3; reflexivity].
        rewrite H2, H4, (find_track_id _ _ _ F). exact F.
      + destruct (t <? next_id tl)%nat; [|reflexivity].
        pose proof (track_update_cons cfg tl (new_track t None true None) s q d count) as H.
        destruct (track_update cfg tl (new_track t None true None) s q d count) as [tl1 tr1]. simpl. apply H.
    - destruct (find_track t (tracks tl)); simpl; [apply remove_track_pend|reflexivity].
    - apply clear_pend.
    - destruct (find_track t (tracks tl)) as [tr|] eqn:F; simpl; [|reflexivity].
      apply (upd_same tl tr); [simpl; rewrite (find_track_id _ _ _ F); exact F|reflexivity].
    - destruct (find_track t (tracks tl)) as [tr|] eqn:F; simpl; [|reflexivity].
      apply (upd_same tl tr); [simpl; rewrite (find_track_id _ _ _ F); exact F|reflexivity].
    - destruct (find_track t (tracks tl)) as [tr|] eqn:F; simpl; [|reflexivity].
      apply (upd_same tl tr); [simpl; rewrite (find_track_id _ _ _ F); exact F|reflexivity].
  Qed.

  Lemma exec_cb_ops_pend cfg ops : forall tl, Pend (exec_cb_ops cfg tl ops) = Pend tl.
  Proof.
    induction ops as [|o r IH]; intros tl; simpl; [reflexivity|].
    pose proof (exec_op_pend cfg tl o) as H. destruct (exec_op cfg tl o) as [tl' res]. simpl in H.
    destruct res; try exact H. rewrite IH. exact H.
  Qed.

  (** ** The phases of Timeline.tick *)
  Lemma phase_noteoffs_cons l :
    let '(l', c) := phase_noteoffs l in Wt l' + Woff c = Wt l /\ Won c = 0.
  Proof.
    induction l as [|t r IH]; [simpl; split; reflexivity|]. cbn [phase_noteoffs].
    pose proof (process_cons t) as H. destruct (process_note_offs t) as [t' c].
    destruct (phase_noteoffs r) as [r' cs]. rewrite Woff_app, Won_app.
    change (Wt (t' :: r')) with (Wo (t_offs t') + Wt r'). change (Wt (t :: r)) with (Wo (t_offs t) + Wt r).
    destruct H as [Ha Hb]. destruct IH as [Ia Ib]. split; lia.
  Qed.

  Lemma fire_action_cons tl a :
    let '(tl', c) := fire_action tl a in
    Pend tl' + Woff c = Pend tl + wa a /\ Won c = 0 /\ actions tl' = actions tl.
  Proof.
    destruct a as [t id s|t n c]; simpl.
    - destruct (find_track id (tracks tl)) as [tr|] eqn:F; simpl; [|repeat split; lia].
      rewrite (upd_same tl tr); [repeat split; lia| |reflexivity].
      simpl. rewrite (find_track_id _ _ _ F). exact F.
    - repeat split; lia.
  Qed.

  Lemma phase_actions_cons todo : forall tl kept calls, actions tl = [] ->
    let '(tl', kept', calls') := phase_actions tl todo kept calls in
    Pend tl' + Wa kept' + Woff calls' = Pend tl + Wa kept + Wa todo + Woff calls
    /\ Won calls' = Won calls /\ actions tl' = [].
  Proof.
    induction todo as [|a r IH]; intros tl kept calls Hnil; simpl; [repeat split; [lia|exact Hnil]|].
    destruct (a_time a <=? now tl).
    - pose proof (fire_action_cons tl a) as F. destruct (fire_action tl a) as [tl' c]. destruct F as [F1 [F2 F3]].
      specialize (IH tl' kept (calls ++ c) ltac:(congruence)).
      destruct (phase_actions tl' r kept (calls ++ c)) as [[tl'' kept'] calls'].
      rewrite Woff_app, Won_app in IH. destruct IH as [I1 [I2 I3]]. repeat split; [lia|lia|exact I3].
    - specialize (IH tl (kept ++ [a]) calls Hnil).
      destruct (phase_actions tl r (kept ++ [a]) calls) as [[tl'' kept'] calls'].
      rewrite Wa_app in IH. simpl in IH. destruct IH as [I1 [I2 I3]]. repeat split; [lia|lia|exact I3].
  Qed.

  Lemma finish_track_pend cfg tl id st : Pend (finish_track cfg tl id st) = Pend tl.
  Proof.
    unfold finish_track. destruct (find_track id (tracks tl)) as [tr2|] eqn:F; [|reflexivity].
    assert (E : Pend (upd_track tl (track_tick_b cfg tr2 st)) = Pend tl).
    { apply (upd_same tl tr2); [|rewrite tick_b_offs; reflexivity].
      replace (t_id (track_tick_b cfg tr2 st)) with (t_id tr2) by (unfold track_tick_b; destruct (st && _); reflexivity).
      rewrite (find_track_id _ _ _ F). exact F. }
    destruct (t_finished (track_tick_b cfg tr2 st) && t_rwd (track_tick_b cfg tr2 st));
      [rewrite remove_track_pend|]; exact E.
  Qed.

  Lemma tick_a_id cfg nowT tr n : t_id (fst (fst (fst (track_tick_a cfg nowT tr n)))) = t_id tr.
  Proof.
    assert (G : forall tr, t_id (snd (get_next_event tr)) = t_id tr).
    { intros t. unfold get_next_event. destruct (count_exhausted t); [reflexivity|].
      destruct (pull (t_stream t)) as [[| |e] s']; reflexivity. }
    assert (P : forall fu tr last, t_id (snd (pull_loop fu tr last)) = t_id tr).
    { induction fu as [|f IH]; intros t last; simpl; [reflexivity|].
      destruct (t_next t <=? t_cur t); [|reflexivity].
      specialize (G t). destruct (get_next_event t) as [[e| |] t']; simpl in *; try exact G. rewrite IH. exact G. }
    unfold track_tick_a. destruct (negb (t_started tr)); [reflexivity|].
    destruct (t_next tr <=? t_cur tr); [|reflexivity].
    specialize (P (fuel cfg) tr None).
    destruct (pull_loop (fuel cfg) tr None) as [[[e|]| | |] tr']; simpl in P; try exact P.
    unfold perform_event. destruct (negb (e_active e)); [exact P|]. destruct (t_muted tr'); [exact P|].
    destruct (e_kind e) as [vs|cb|c v ch|pr ch].
    - destruct (perform_voices (dev_fail cfg) nowT (t_cur tr') vs n (t_offs tr') []) as [[[offs calls] n'] ok]. exact P.
    - exact P.
    - destruct (dev_emit (dev_fail cfg) n); exact P.
    - destruct (dev_emit (dev_fail cfg) n); exact P.
  Qed.

  Lemma end_stream_pend tl id : Pend (end_stream tl id) = Pend tl.
  Proof.
    unfold end_stream. destruct (find_track id (tracks tl)) as [t|] eqn:F; [|reflexivity].
    apply (upd_same tl t); [|reflexivity]. change (t_id (set_stream t empty_stream)) with (t_id t).
    rewrite (find_track_id _ _ _ F). exact F.
  Qed.

  Lemma tick_one_cons cfg tl id :
    let '(tl', c, _) := tick_one cfg tl id in Pend tl' + Woff c = Pend tl + Won c.
  Proof.
    unfold tick_one. destruct (find_track id (tracks tl)) as [tr|] eqn:F; [|simpl; lia].
    pose proof (tick_a_cons cfg (now tl) tr (dev_calls tl)) as A.
    pose proof (tick_a_id cfg (now tl) tr (dev_calls tl)) as Aid.
    destruct (track_tick_a cfg (now tl) tr (dev_calls tl)) as [[[tr1 c] n'] res]. simpl in Aid.
    assert (E1 : Pend (set_dev (upd_track tl tr1) n') = Pend tl - Wo (t_offs tr) + Wo (t_offs tr1)).
    { change (Pend (set_dev (upd_track tl tr1) n')) with (Pend (upd_track tl tr1)).
      apply upd_pend. rewrite Aid, (find_track_id _ _ _ F). exact F. }
    destruct res.
    - destruct (t_finished tr1 && t_rwd tr1); [rewrite remove_track_pend|]; lia.
    - rewrite finish_track_pend. lia.
    - rewrite finish_track_pend. lia.
    - destruct (ignore_exc cfg); [rewrite remove_track_pend|]; lia.
    - destruct (nth cb (cbs cfg) (CbNone, [])) as [rk ops]. cbv zeta. rewrite finish_track_pend.
      match goal with |- context [if ?b then _ else _] => destruct b end; [rewrite end_stream_pend|]; rewrite exec_cb_ops_pend; lia.
    - lia.
  Qed.

  Lemma phase_tracks_cons cfg ids : forall tl calls,
    let '(tl', calls', _) := phase_tracks cfg tl ids calls in
    Pend tl' + Woff calls' - Woff calls = Pend tl + Won calls' - Won calls.
  Proof.
    induction ids as [|id r IH]; intros tl calls; simpl; [lia|].
    pose proof (tick_one_cons cfg tl id) as H.
    destruct (tick_one cfg tl id) as [[tl' c] abort].
    destruct abort as [res|].
    - rewrite Woff_app, Won_app. lia.
    - specialize (IH tl' (calls ++ c)). destruct (phase_tracks cfg tl' r (calls ++ c)) as [[tl'' calls'] res].
      rewrite Woff_app, Won_app in IH. lia.
  Qed.

  (** Timeline.tick conserves sounding notes *)
  Theorem tl_tick_cons cfg tl :
    let '(tl', c, _) := tl_tick cfg tl in Pend tl' + Woff c = Pend tl + Won c.
  Proof.
    unfold tl_tick.
    pose proof (phase_noteoffs_cons (tracks tl)) as H1.
    destruct (phase_noteoffs (tracks tl)) as [trs1 c1]. destruct H1 as [H1 H1'].
    pose proof (phase_actions_cons (actions (set_tracks tl trs1)) (set_actions (set_tracks tl trs1) []) [] [] eq_refl) as H3.
    destruct (phase_actions (set_actions (set_tracks tl trs1) []) (actions (set_tracks tl trs1)) [] []) as [[tl2 kept] c3].
    destruct H3 as [H3 [H3' H3'']].
    pose proof (phase_tracks_cons cfg (map t_id (tracks (set_actions tl2 (kept ++ actions tl2)))) (set_actions tl2 (kept ++ actions tl2)) []) as H4.
    destruct (phase_tracks cfg (set_actions tl2 (kept ++ actions tl2)) (map t_id (tracks (set_actions tl2 (kept ++ actions tl2)))) []) as [[tl4 c4] res].
    assert (E : Pend tl4 + Woff (c1 ++ c3 ++ c4) = Pend tl + Won (c1 ++ c3 ++ c4)).
    { rewrite !Woff_app, !Won_app. unfold Pend in *. simpl in *. rewrite H3'' in *. rewrite app_nil_r in H4. simpl in *. lia. }
    destruct res; try exact E.
    destruct ((match tracks tl4, actions tl4 with [], [] => true | _, _ => false end) && stop_when_done cfg); exact E.
  Qed.

  Theorem step_cons cfg tl o :
    let '(tl', c, _) := step cfg tl o in Pend tl' + Woff c = Pend tl + Won c.
  Proof.
    destruct o.
    1: { simpl. apply tl_tick_cons. }
    all: unfold step;
      match goal with |- context [exec_op ?c ?t ?o] =>
        pose proof (exec_op_pend c t o) as H; destruct (exec_op c t o) as [tl' r]; simpl in *; lia end.
  Qed.

  (* all calls of a history *)
  Fixpoint run_calls (cfg : config) (tl : timeline) (ops : list op) : list call :=
    match ops with
    | [] => []
    | o :: r => let '(tl', c, _) := step cfg tl o in c ++ run_calls cfg tl' r
    end.

  Theorem run_cons cfg ops : forall tl,
    Pend (run_state cfg tl ops) + Woff (run_calls cfg tl ops) = Pend tl + Won (run_calls cfg tl ops).
  Proof.
    induction ops as [|o r IH]; intros tl; simpl; [lia|].
    pose proof (step_cons cfg tl o) as H. destruct (step cfg tl o) as [[tl' c] res].
    specialize (IH tl'). rewrite Woff_app, Won_app. lia.
  Qed.
End Weights.

(** * Counting form: #note-ons - #note-offs = #pending, for every (note, channel) *)
Definition ind (n0 c0 n c : Z) : Z := if (n =? n0) && (c =? c0) then 1 else 0.

Lemma Wo_ind_nonneg n0 c0 l : 0 <= Wo (ind n0 c0) l.
Proof. induction l as [|x r IH]; simpl; [lia|]. unfold ind at 1. destruct ((_ =? _) && (_ =? _)); lia. Qed.
Lemma Wt_ind_nonneg n0 c0 l : 0 <= Wt (ind n0 c0) l.
Proof. induction l as [|x r IH]; simpl; [lia|]. pose proof (Wo_ind_nonneg n0 c0 (t_offs x)). lia. Qed.
Lemma Wa_ind_nonneg n0 c0 l : 0 <= Wa (ind n0 c0) l.
Proof.
  induction l as [|x r IH]; simpl; [lia|]. destruct x; simpl; [lia|].
  unfold ind at 1. destruct ((_ =? _) && (_ =? _)); lia.
Qed.
Lemma Pend_ind_nonneg n0 c0 tl : 0 <= Pend (ind n0 c0) tl.
Proof. unfold Pend. pose proof (Wt_ind_nonneg n0 c0 (tracks tl)). pose proof (Wa_ind_nonneg n0 c0 (actions tl)). lia. Qed.

(** * Silence *)
(* without a device fault, the voice loop emits exactly one note-on and registers exactly one release entry,
   due duration*gate after the onset, for each voice that is "on" (amplitude and gate positive), in order;
   voices that are off contribute nothing *)
Definition voice_call (v : voice) : call :=
  CNoteOn (v_note v) (match v_amp v with Some a => a | None => 0 end) (v_chan v).
Definition voice_entry (nowT cur : Z) (v : voice) : noteoff :=
  let l := match v_glen v with Some l => l | None => 0 end in mkNO (cur + l) (nowT + l) (v_note v) (v_chan v).

Lemma perform_voices_spec nowT cur vs : forall n offs calls,
  perform_voices None nowT cur vs n offs calls =
    (offs ++ map (voice_entry nowT cur) (filter voice_on vs),
     calls ++ map voice_call (filter voice_on vs),
     (n + length (filter voice_on vs))%nat, true).
Proof.
  induction vs as [|v r IH]; intros n offs calls; simpl.
  - rewrite !app_nil_r, Nat.add_0_r. reflexivity.
  - destruct (voice_on v); simpl.
    + rewrite IH, <- !app_assoc. simpl. repeat f_equal. lia.
    + apply IH.
Qed.

Lemma perform_silent fail nowT tr e n :
  e_active e = false \/ t_muted tr = true ->
  perform_event fail nowT tr e n = (tr, [], n, PfOk).
Proof.
  intros [H|H]; unfold perform_event; [rewrite H; reflexivity|].
  destruct (negb (e_active e)); [reflexivity|]. rewrite H. reflexivity.
Qed.

(** * On-time release, on the track's clock *)
(* one scheduler cycle of a track: its note-offs (phase 1 of Timeline.tick), then Track.tick *)
Definition no_overdue (tau : Z) (tr : track) : Prop :=
  forall n, In n (t_offs tr) -> t_cur tr - tau < no_time n.

Lemma process_spec tr :
  let '(tr', c) := process_note_offs tr in
  t_offs tr' = filter (fun n => negb (no_time n <=? t_cur tr)) (t_offs tr)
  /\ c = map (fun n => CNoteOff (no_note n) (no_chan n)) (filter (fun n => no_time n <=? t_cur tr) (t_offs tr))
  /\ t_cur tr' = t_cur tr.
Proof. unfold process_note_offs. simpl. repeat split. Qed.

(* what is released on a tick was due within the last tick: never early, never late *)
Lemma released_on_time tau tr : no_overdue tau tr ->
  forall n, In n (filter (fun n => no_time n <=? t_cur tr) (t_offs tr)) ->
  t_cur tr - tau < no_time n <= t_cur tr.
Proof. intros H n Hn. apply filter_In in Hn as [Hin Hd]. specialize (H n Hin). lia. Qed.

(* after its note-offs have been processed nothing a track holds is due yet *)
Lemma after_process tr : forall n, In n (t_offs (fst (process_note_offs tr))) -> t_cur tr < no_time n.
Proof. unfold process_note_offs. simpl. intros n Hn. apply filter_In in Hn as [_ Hd]. unfold no_due in Hd. lia. Qed.

Lemma perform_entries fail nowT tr e n :
  let '(tr', _, _, _) := perform_event fail nowT tr e n in
  t_cur tr' = t_cur tr /\
  forall x, In x (t_offs tr') -> In x (t_offs tr) \/ t_cur tr < no_time x.
Proof.
  unfold perform_event. destruct (negb (e_active e)); [split; auto|].
  destruct (t_muted tr); [split; auto|].
  destruct (e_kind e) as [vs|cb|c v ch|pr ch]; try (split; auto; fail);
    try (destruct (dev_emit fail n); split; auto; fail).
  assert (G : forall vs n offs calls,
            forall x, In x (fst (fst (fst (perform_voices fail nowT (t_cur tr) vs n offs calls)))) ->
                      In x offs \/ t_cur tr < no_time x).
  { clear. induction vs as [|v r IH]; intros n offs calls x Hx; simpl in *; [auto|].
    destruct (voice_on v) eqn:Von; [|apply (IH _ _ _ _ Hx)].
    destruct (dev_emit fail n); [|simpl in Hx; auto].
    apply IH in Hx. destruct Hx as [Hx|Hx]; [|auto].
    apply in_app_or in Hx as [Hx|[<-|[]]]; [auto|]. right. simpl.
    unfold voice_on in Von. destruct (v_amp v); [|discriminate]. destruct (v_glen v) as [l|]; [|discriminate]. lia. }
  specialize (G vs n (t_offs tr) []).
  destruct (perform_voices fail nowT (t_cur tr) vs n (t_offs tr) []) as [[[offs calls] n'] ok].
  simpl in *. split; [reflexivity|exact G].
Qed.

Lemma gne_cur tr : t_cur (snd (get_next_event tr)) = t_cur tr.
Proof.
  unfold get_next_event. destruct (count_exhausted tr); [reflexivity|].
  destruct (pull (t_stream tr)) as [[| |e] s']; reflexivity.
Qed.
Lemma pull_loop_cur fu : forall tr last, t_cur (snd (pull_loop fu tr last)) = t_cur tr.
Proof.
  induction fu as [|f IH]; intros tr last; simpl; [reflexivity|].
  destruct (t_next tr <=? t_cur tr); [|reflexivity].
  pose proof (gne_cur tr) as G. destruct (get_next_event tr) as [[e| |] tr']; simpl in *; try exact G.
  rewrite IH. simpl. exact G.
Qed.

Lemma tick_a_entries cfg nowT tr n :
  let '(tr', _, _, _) := track_tick_a cfg nowT tr n in
  t_cur tr' = t_cur tr /\ forall x, In x (t_offs tr') -> In x (t_offs tr) \/ t_cur tr < no_time x.
Proof.
  unfold track_tick_a. destruct (negb (t_started tr)); [split; auto|].
  destruct (t_next tr <=? t_cur tr); [|split; auto].
  pose proof (pull_loop_offs (fuel cfg) tr None) as P. pose proof (pull_loop_cur (fuel cfg) tr None) as C.
  destruct (pull_loop (fuel cfg) tr None) as [[[e|]| | |] tr']; simpl in P, C; try (rewrite P; split; auto; fail).
  pose proof (perform_entries (dev_fail cfg) nowT tr' e n) as H.
  destruct (perform_event (dev_fail cfg) nowT tr' e n) as [[[tr'' calls] n'] pf].
  destruct H as [H1 H2]. rewrite P, C in *. split; [exact H1|exact H2].
Qed.

(* the invariant "nothing is overdue by a whole tick" is re-established by every cycle
   (note-offs processed, then the track ticked and its clock advanced by tau) *)
Theorem cycle_no_overdue cfg nowT tr n st : 0 < tau cfg ->
  let tr1 := fst (process_note_offs tr) in
  let '(tr2, _, _, _) := track_tick_a cfg nowT tr1 n in
  no_overdue (tau cfg) (track_tick_b cfg tr2 st).
Proof.
  intros Htau tr1.
  pose proof (tick_a_entries cfg nowT tr1 n) as H.
  destruct (track_tick_a cfg nowT tr1 n) as [[[tr2 c] n'] res]. destruct H as [H1 H2].
  intros x Hx. rewrite tick_b_offs in Hx.
  assert (Hc : t_cur (track_tick_b cfg tr2 st) = t_cur tr2 + tau cfg).
  { unfold track_tick_b. destruct (st && _); reflexivity. }
  rewrite Hc, H1. assert (t_cur tr1 = t_cur tr) by reflexivity.
  destruct (H2 x Hx) as [Hin|Hlt]; [|lia].
  pose proof (after_process tr x Hin). lia.
Qed.

(* arithmetic of the release tick: an entry due g > 0 after the onset is first due
   max(1, ceil(g / tau)) ticks after the onset tick — never in the onset's own tick *)
Lemma release_tick_arith tau g i : 0 < tau -> 0 < g -> 1 <= i ->
  (g <= i * tau <-> Z.max 1 (- ((- g) / tau)) <= i).
Proof.
  intros Ht Hg Hi. pose proof (Z.div_mod (- g) tau ltac:(lia)). pose proof (Z.mod_pos_bound (- g) tau Ht).
  split; intros H1; nia.
Qed.

(** * A stop-when-done timeline only stops with nothing pending *)
Lemma phase_tracks_not_stop cfg ids : forall tl calls, snd (phase_tracks cfg tl ids calls) <> RStopIteration.
Proof.
  induction ids as [|id r IH]; intros tl calls; simpl; [discriminate|].
  destruct (tick_one cfg tl id) as [[tl' c] abort] eqn:E.
  destruct abort as [res|]; [|apply IH]. simpl.
  unfold tick_one in E. destruct (find_track id (tracks tl)) as [tr|]; [|inversion E].
  destruct (track_tick_a cfg (now tl) tr (dev_calls tl)) as [[[tr1 c'] n'] res'].
  destruct res'; try (inversion E; fail).
  - destruct (ignore_exc cfg); inversion E; discriminate.
  - destruct (nth cb (cbs cfg) (CbNone, [])) as [rk ops]. inversion E.
  - inversion E; discriminate.
Qed.

Theorem stop_means_silent w cfg tl :
  let '(tl', _, res) := tl_tick cfg tl in
  res = RStopIteration -> tracks tl' = [] /\ actions tl' = [] /\ Pend w tl' = 0.
Proof.
  unfold tl_tick.
  destruct (phase_noteoffs (tracks tl)) as [trs1 c1].
  destruct (phase_actions (set_actions (set_tracks tl trs1) []) (actions (set_tracks tl trs1)) [] []) as [[tl2 kept] c3].
  pose proof (phase_tracks_not_stop cfg (map t_id (tracks (set_actions tl2 (kept ++ actions tl2)))) (set_actions tl2 (kept ++ actions tl2)) []) as NS.
  destruct (phase_tracks cfg (set_actions tl2 (kept ++ actions tl2)) (map t_id (tracks (set_actions tl2 (kept ++ actions tl2)))) []) as [[tl4 c4] res].
  simpl in NS. destruct res; try discriminate; try (intros H; contradiction).
  destruct (tracks tl4) as [|t r] eqn:Et; destruct (actions tl4) as [|a r'] eqn:Ea; simpl;
    try discriminate; destruct (stop_when_done cfg); try discriminate.
  intros _. unfold Pend. rewrite Et, Ea. repeat split.
Qed.

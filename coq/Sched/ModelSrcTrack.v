(* Sched/ModelSrcTrack.v — Track.tick (the non-interpolating branch) as translated from the SOURCE TEXT
   (Generated/TablesTrack.v src_track_tick_loop / src_track_tick_a / src_track_tick_b) against the model's pull_loop,
   track_tick_a and track_tick_b (Sched/Model.v).  docs/TRANSLATOR3.md.

   Read from the source: the `if not self.is_started: return`; the due test `round(self.current_time - self.next_event_time, 8) >= 0`
   (rendered exact) of the `if` and of the `while`; the loop body (get_next_event, whose StopIteration / exception leave the
   loop; next_event_time += duration); that perform_event(self.current_event) follows the loop inside the `if`; the handler
   `except StopIteration: if len(self.note_offs) == 0: self.is_finished = True`; the advance of the clock after the try.
   Trusted glue: Model.v perform_event (what performing an event does: device calls / the request to run a callback), the
   mapping of the outcomes (StopIteration -> TStop, any other exception -> TRaise, a callback -> TCallback: the callback
   itself runs in Sched/SrcGlue.v obj_tick), the fuel of the while loop, and that the interpolating branch is out of scope. *)
From Isobar Require Import Base.Prelude Sched.Model Sched.SrcGlue Generated.TablesTrack Sched.ModelSrc.
Local Open Scope Z_scope.

(* the voice loop of the note branch: the per-voice body is the source's (amp and gate tests, note_on, the NoteOffEvent with
   both clocks, append), the loop over the resolved voices is SrcGlue.v perform_note_with; together they are perform_voices *)
Lemma voice_loop_stopped fail nowT : forall vs tr calls n, fold_left (src_track_perform_voice fail nowT) vs (tr, calls, n, false) = (tr, calls, n, false).
Proof. induction vs as [|v vs IH]; intros tr calls n; cbn [fold_left]; [reflexivity|apply IH]. Qed.

Lemma set_offs_same tr : set_offs tr (t_offs tr) = tr.
Proof. destruct tr; reflexivity. Qed.

Lemma voice_loop_is fail nowT : forall vs tr calls n,
  fold_left (src_track_perform_voice fail nowT) vs (tr, calls, n, true)
  = let '(offs, c, n', ok) := perform_voices fail nowT (t_cur tr) vs n (t_offs tr) calls in (set_offs tr offs, c, n', ok).
Proof.
  induction vs as [|v vs IH]; intros tr calls n; cbn [fold_left perform_voices]; [rewrite set_offs_same; reflexivity|].
  unfold src_track_perform_voice at 2. unfold voice_on. cbn iota beta.
  destruct (v_amp v) as [a|]; [|apply IH]. rewrite Z.gtb_ltb. destruct (0 <? a); cbn [andb]; [|destruct (v_glen v); apply IH].
  destruct (v_glen v) as [l|]; [|apply IH]. rewrite Z.gtb_ltb. destruct (0 <? l); [|apply IH].
  destruct (dev_emit fail n).
  - rewrite IH. reflexivity.
  - rewrite voice_loop_stopped, set_offs_same. reflexivity.
Qed.

(* Track.perform_event: the guards `if not event.active: return`, `if self.is_muted: return`, the dispatch on event.type and
   the control / program-change branches are the source's; the action and note branches are SrcGlue.v's (= the model's) *)
Theorem src_track_perform_event_is fail nowT tr e n : src_track_perform_event fail nowT tr e n = perform_event fail nowT tr e n.
Proof.
  unfold src_track_perform_event, perform_event, perform_note_with, perform_action.
  destruct (e_active e); cbn [negb]; [|reflexivity]. destruct (t_muted tr); [reflexivity|].
  destruct (e_kind e) as [vs|cb|c v ch|p ch].
  - rewrite voice_loop_is. destruct (perform_voices fail nowT (t_cur tr) vs n (t_offs tr) []) as [[[offs calls] n'] ok]. reflexivity.
  - reflexivity.
  - destruct (dev_emit fail n); reflexivity.
  - destruct (dev_emit fail n); reflexivity.
Qed.

Lemma src_track_tick_loop_is : forall fuel tr last, src_track_tick_loop fuel tr last = pull_loop fuel tr last.
Proof.
  induction fuel as [|f IH]; intros tr last; cbn [src_track_tick_loop pull_loop]; [reflexivity|].
  destruct (t_next tr <=? t_cur tr); [|reflexivity].
  rewrite src_track_get_next_event_is. destruct (get_next_event tr) as [[e| |] tr']; [apply IH|reflexivity|reflexivity].
Qed.

Theorem src_track_tick_a_is cfg nowT tr n : src_track_tick_a cfg nowT tr n = track_tick_a cfg nowT tr n.
Proof.
  unfold src_track_tick_a, track_tick_a. destruct (t_started tr); cbn [negb]; [|reflexivity].
  destruct (t_next tr <=? t_cur tr); [|reflexivity].
  rewrite src_track_tick_loop_is. destruct (pull_loop (fuel cfg) tr None) as [[[e|]| | |] tr']; try reflexivity.
  rewrite src_track_perform_event_is.
  destruct (perform_event (dev_fail cfg) nowT tr' e n) as [[[tr'' c] n'] pf]. destruct pf; reflexivity.
Qed.

Theorem src_track_tick_b_is cfg tr st : src_track_tick_b cfg tr st = track_tick_b cfg tr st.
Proof. unfold src_track_tick_b, track_tick_b. destruct st; [|reflexivity]. destruct (t_offs tr); reflexivity. Qed.

(* the glue obj_tick (Sched/SrcGlue.v) composes exactly these two halves around the callback *)
Lemma obj_tick_not_started cfg tl tr : t_started tr = false -> obj_tick cfg tl tr = (set_dev (upd_track tl tr) (dev_calls tl), [], TickOk, tr).
Proof. intros H. unfold obj_tick, track_tick_a. rewrite H. reflexivity. Qed.

Print Assumptions src_track_perform_event_is.
Print Assumptions src_track_tick_a_is.
Print Assumptions src_track_tick_b_is.

(* Sched/InterpProofs.v — lemmas about the model of interpolated control tracks (Sched/Interp.v).
   Main result: [run_spec] — for every event stream the per-tick trace of the track machine is the list
   [spec] (a plain structural recursion over the stream: first value, then the step values of every
   consecutive pair of points), followed by silence.  The property theorems of Props/C15.v are list facts
   about [spec]. *)
From Isobar Require Import Base.Prelude Sched.Interp.
From Coq Require Import QArith Qround Qabs String Lqa Lra Psatz.
Local Notation length := List.length (only parsing).
Local Open Scope Z_scope.

(** * Traces *)

Section Traces.
Variable cospi : Q -> Q.
Variable tpb : Z.
Variable mode : imode.
Variable maxc : option Z.

Notation tickM := (tick cospi tpb mode maxc).
Notation runM := (run cospi tpb mode maxc).
Notation open_segmentM := (open_segment cospi tpb mode maxc).

(* n ticks of a track that sends L and then nothing *)
Definition pad (n : nat) (L : list outcome) : list outcome := firstn n L ++ repeat ONone (n - length L).

Definition traces (st : tstate) (L : list outcome) : Prop := forall n, runM n st = pad n L.
Definition emits (st : tstate) (L : list outcome) (st' : tstate) : Prop :=
  forall n, runM n st = firstn n L ++ runM (n - length L) st'.

Lemma run_S n st : runM (S n) st = fst (tickM st) :: runM n (snd (tickM st)).
Proof. simpl. destruct (tick cospi tpb mode maxc st); reflexivity. Qed.

Lemma traces_dead : traces dead [].
Proof.
  intros n. unfold pad. rewrite firstn_nil. simpl. rewrite Nat.sub_0_r.
  induction n; [reflexivity|]. rewrite run_S. simpl. f_equal. exact IHn.
Qed.

Lemma traces_tick st o st' L : tickM st = (o, st') -> traces st' L -> traces st (o :: L).
Proof.
  intros Ht H [|n]; [reflexivity|]. rewrite run_S, Ht. simpl. unfold pad. simpl. f_equal. apply H.
Qed.

Lemma traces_tick_none st st' : tickM st = (ONone, st') -> traces st' [] -> traces st [].
Proof.
  intros Ht H [|n]; [reflexivity|]. rewrite run_S, Ht. simpl.
  rewrite (H n). unfold pad. rewrite !firstn_nil. simpl. rewrite Nat.sub_0_r. reflexivity.
Qed.

Lemma emits_nil st : emits st [] st.
Proof. intros n. rewrite firstn_nil. simpl. rewrite Nat.sub_0_r. reflexivity. Qed.

Lemma emits_tick st o st' L st'' : tickM st = (o, st') -> emits st' L st'' -> emits st (o :: L) st''.
Proof.
  intros Ht H [|n]; [reflexivity|]. rewrite run_S, Ht. simpl. f_equal. apply H.
Qed.

Lemma emits_traces st L1 st1 L2 : emits st L1 st1 -> traces st1 L2 -> traces st (L1 ++ L2).
Proof.
  intros H1 H2 n. rewrite (H1 n), (H2 (n - length L1)%nat). unfold pad.
  rewrite firstn_app, app_length, <- app_assoc. f_equal. f_equal. f_equal. lia.
Qed.

(** * PInterpolate over one segment *)

Section Segment.
Variable D : Z.
Hypothesis HD : 1 <= D.

(* the state of PInterpolate(PSequence([a, b], 1), D, mode) after it has returned a (j = 0) and then j step values *)
Definition seg_state (j : nat) (a b : Q) : pistate :=
  match j with
  | O => mkPi [b] a [a] 1
  | S i => mkPi [] (step_value cospi mode a b D i) (step_table cospi mode a b D) (S i)
  end.

Lemma table_length a b : length (step_table cospi mode a b D) = Z.to_nat D.
Proof. unfold step_table. rewrite map_length, seq_length. reflexivity. Qed.

Lemma table_nth a b j : (j < Z.to_nat D)%nat ->
  nth j (step_table cospi mode a b D) 0%Q = step_value cospi mode a b D j.
Proof.
  intros Hj. unfold step_table.
  rewrite (nth_indep _ 0%Q (step_value cospi mode a b D 0)) by (rewrite map_length, seq_length; exact Hj).
  rewrite map_nth. rewrite seq_nth by exact Hj. reflexivity.
Qed.

Lemma pi_fresh_next a b : pi_next cospi mode D (pi_fresh a b) = PVal (a, seg_state 0 a b).
Proof. reflexivity. Qed.

Lemma pi_seg_next a b j : (j < Z.to_nat D)%nat ->
  pi_next cospi mode D (seg_state j a b) = PVal (step_value cospi mode a b D j, seg_state (S j) a b).
Proof.
  intros Hj. destruct j as [|i].
  - unfold pi_next, seg_state. cbn [pi_pos pi_tab pi_pat pi_val List.length Nat.eqb].
    destruct (D =? 0) eqn:E; [lia|].
    unfold step_table. destruct (Z.to_nat D) as [|m] eqn:Em; [lia|]. reflexivity.
  - unfold pi_next, seg_state. cbn [pi_pos pi_tab pi_pat pi_val].
    rewrite table_length. destruct (Nat.eqb_spec (S i) (Z.to_nat D)) as [E|E]; [lia|].
    rewrite table_nth by exact Hj. reflexivity.
Qed.

Lemma pi_seg_stop a b : pi_next cospi mode D (seg_state (Z.to_nat D) a b) = PStop.
Proof.
  destruct (Z.to_nat D) as [|m] eqn:Em; [lia|].
  unfold pi_next, seg_state. cbn [pi_pos pi_tab pi_pat pi_val].
  rewrite table_length, Em, Nat.eqb_refl. destruct (D =? 0) eqn:E; [lia|]. reflexivity.
Qed.

(** * PDict over the fields of one segment *)

(* build_fields with an arbitrary PInterpolate state in place of the fresh one *)
Fixpoint build_with (mk : Q -> Q -> pistate) (cur nxt : list (string * fval)) : option (list (string * fstate)) :=
  match cur with
  | [] => Some []
  | (k, VOpq t) :: r => option_map (cons (k, FConst (VOpq t))) (build_with mk r nxt)
  | (k, VNum a) :: r =>
      match lookup k nxt with
      | Some (VNum b) => option_map (cons (k, FInterp (mk a b))) (build_with mk r nxt)
      | _ => None
      end
  end.

(* the dict one __next__ returns: number fields through [val], the others unchanged *)
Fixpoint vals_with (val : Q -> Q -> Q) (cur nxt : list (string * fval)) : list (string * fval) :=
  match cur with
  | [] => []
  | (k, VOpq t) :: r => (k, VOpq t) :: vals_with val r nxt
  | (k, VNum a) :: r =>
      match lookup k nxt with
      | Some (VNum b) => (k, VNum (val a b)) :: vals_with val r nxt
      | _ => []
      end
  end.

Definition has_num (fs : list (string * fval)) : bool :=
  existsb (fun kv => match snd kv with VNum _ => true | VOpq _ => false end) fs.

Lemma build_fields_with cur nxt : build_fields cur nxt = build_with pi_fresh cur nxt.
Proof.
  induction cur as [|[k [a|t]] r IH]; simpl; [reflexivity| |rewrite IH; reflexivity].
  destruct (lookup k nxt) as [[b|]|]; try reflexivity. rewrite IH. reflexivity.
Qed.

Lemma build_with_shape mk mk' cur nxt fs :
  build_with mk cur nxt = Some fs -> exists fs', build_with mk' cur nxt = Some fs'.
Proof.
  revert fs. induction cur as [|[k [a|t]] r IH]; simpl; intros fs H.
  - eexists; reflexivity.
  - destruct (lookup k nxt) as [[b|]|]; try discriminate.
    destruct (build_with mk r nxt) as [x|]; [|discriminate].
    destruct (IH _ eq_refl) as [y ->]. eexists; reflexivity.
  - destruct (build_with mk r nxt) as [x|]; [|discriminate].
    destruct (IH _ eq_refl) as [y ->]. eexists; reflexivity.
Qed.

Lemma pd_step mk mk' val nxt :
  (forall a b, pi_next cospi mode D (mk a b) = PVal (val a b, mk' a b)) ->
  forall cur fs, build_with mk cur nxt = Some fs ->
  exists fs', pd_next cospi mode D fs = PVal (vals_with val cur nxt, fs') /\ build_with mk' cur nxt = Some fs'.
Proof.
  intros Hpi. induction cur as [|[k [a|t]] r IH]; simpl; intros fs H.
  - inversion H; subst. eexists; split; reflexivity.
  - destruct (lookup k nxt) as [[b|]|]; try discriminate.
    destruct (build_with mk r nxt) as [x|]; [|discriminate]. inversion H; subst.
    destruct (IH _ eq_refl) as [y [E1 E2]]. simpl. rewrite Hpi, E1, E2. eexists; split; reflexivity.
  - destruct (build_with mk r nxt) as [x|]; [|discriminate]. inversion H; subst.
    destruct (IH _ eq_refl) as [y [E1 E2]]. simpl. rewrite E1, E2. eexists; split; reflexivity.
Qed.

Lemma pd_stop mk nxt :
  (forall a b, pi_next cospi mode D (mk a b) = PStop) ->
  forall cur fs, has_num cur = true -> build_with mk cur nxt = Some fs -> pd_next cospi mode D fs = PStop.
Proof.
  intros Hpi. induction cur as [|[k [a|t]] r IH]; simpl; intros fs Hn H; [discriminate| |].
  - destruct (lookup k nxt) as [[b|]|]; try discriminate.
    destruct (build_with mk r nxt) as [x|]; [|discriminate]. inversion H; subst.
    simpl. rewrite Hpi. reflexivity.
  - destruct (build_with mk r nxt) as [x|]; [|discriminate]. inversion H; subst.
    simpl. unfold has_num in IH. rewrite (IH _ Hn eq_refl). reflexivity.
Qed.

End Segment.

(** * The track: what a stream of events makes it send *)

Notation dsteps e := (dur_steps tpb (e_dur e)).

(* the control call made from the dict in which every number field (a at this point, b at the next) is val a b *)
Definition emit (val : Q -> Q -> Q) (cur nxt : event) : outcome :=
  perform (vals_with val (e_fields cur) (e_fields nxt)).
Definition raw_val (a b : Q) : Q := a.
Definition seg_outs (cur nxt : event) : list outcome :=
  map (fun j => emit (fun a b => step_value cospi mode a b (dsteps cur) j) cur nxt)
      (seq 0 (Z.to_nat (dsteps cur))).

(* the events get_next_event hands out, given the event-count limit *)
Fixpoint eff (count : Z) (stream : list event) : list event :=
  match stream with
  | [] => []
  | e :: r => if limit_reached maxc count then [] else e :: eff (count + 1) r
  end.

(* what the track sends from the moment cur becomes the current point; rest = the points after it *)
Fixpoint spec_open (first : bool) (cur : event) (rest : list event) : list outcome :=
  match rest with
  | [] => []
  | nxt :: rest' =>
      if dsteps cur <=? 0 then spec_open first nxt rest'
      else if negb (e_ctl cur && e_ctl nxt) then [OInvalid]
      else match build_fields (e_fields cur) (e_fields nxt) with
           | None => [OErr]
           | Some _ => (if first then [emit raw_val cur nxt] else [])
                       ++ seg_outs cur nxt ++ spec_open false nxt rest'
           end
  end.
Definition spec (events : list event) : list outcome :=
  match events with [] => [] | e :: r => spec_open true e r end.

Lemma seg_emits cur nxt s c nx : 1 <= dsteps cur ->
  forall m j fs, (j + m = Z.to_nat (dsteps cur))%nat ->
  build_with (seg_state (dsteps cur) j) (e_fields cur) (e_fields nxt) = Some fs ->
  exists fs', build_with (seg_state (dsteps cur) (Z.to_nat (dsteps cur))) (e_fields cur) (e_fields nxt) = Some fs' /\
    emits (mkT s c nx (Some (dsteps cur, fs)) false)
          (map (fun j => emit (fun a b => step_value cospi mode a b (dsteps cur) j) cur nxt) (seq j m))
          (mkT s c nx (Some (dsteps cur, fs')) false).
Proof.
  intros HD. induction m as [|m IH]; intros j fs Hj Hb.
  - replace j with (Z.to_nat (dsteps cur)) in Hb by lia. exists fs. split; [exact Hb|]. apply emits_nil.
  - destruct (pd_step (dsteps cur) (seg_state (dsteps cur) j) (seg_state (dsteps cur) (S j))
                (fun a b => step_value cospi mode a b (dsteps cur) j) (e_fields nxt)
                ltac:(intros a b; apply pi_seg_next; [exact HD|lia]) _ _ Hb) as [fs1 [E1 E2]].
    destruct (IH (S j) fs1 ltac:(lia) E2) as [fs' [E3 E4]].
    exists fs'. split; [exact E3|]. simpl. eapply emits_tick; [|exact E4].
    unfold tick. cbn [t_dead t_ie t_stream t_count t_next]. rewrite E1. reflexivity.
Qed.

Definition good (p : outcome * tstate) (L : list outcome) : Prop :=
  (L = [] /\ fst p = ONone /\ traces (snd p) []) \/ (exists L', L = fst p :: L' /\ traces (snd p) L').

Lemma tick_good st L : good (tickM st) L -> traces st L.
Proof.
  destruct (tick cospi tpb mode maxc st) as [o st'] eqn:Et. intros [[-> [Ho H]]|[L' [-> H]]]; simpl in *.
  - subst o. eapply traces_tick_none; eauto.
  - eapply traces_tick; eauto.
Qed.

Definition all_num (l : list event) : Prop := Forall (fun e => has_num (e_fields e) = true) l.

Lemma open_skip first cur nxt rest count :
  limit_reached maxc count = false -> (dsteps cur <=? 0) = true ->
  open_segmentM first cur (nxt :: rest) count = open_segmentM first nxt rest (count + 1).
Proof.
  intros El Ez. unfold open_segment, get_next. rewrite El.
  destruct rest as [|e r]; simpl; rewrite Ez; destruct (limit_reached maxc (count + 1)); reflexivity.
Qed.

Lemma open_segment_good : forall stream first cur count,
  has_num (e_fields cur) = true -> all_num stream ->
  good (open_segmentM first cur stream count) (spec_open first cur (eff count stream)).
Proof.
  induction stream as [|nxt rest IH]; intros first cur count Hc Hs.
  - left. unfold open_segment, get_next. simpl. destruct (limit_reached maxc count); simpl;
      (split; [reflexivity|split; [reflexivity|apply traces_dead]]).
  - simpl eff. destruct (limit_reached maxc count) eqn:El.
    + left. unfold open_segment, get_next. rewrite El. simpl.
      split; [reflexivity|split; [reflexivity|apply traces_dead]].
    + inversion Hs as [|x y Hn Hr]; subst.
      cbn [spec_open]. destruct (dsteps cur <=? 0) eqn:Ez.
      * rewrite open_skip by assumption. apply IH; assumption.
      * assert (HD : 1 <= dsteps cur) by lia.
        unfold open_segment, get_next. rewrite El.
        assert (Esk : skip_zero tpb maxc cur nxt rest (count + 1) = Some (cur, nxt, rest, count + 1))
          by (destruct rest; simpl; rewrite Ez; reflexivity).
        rewrite Esk; clear Esk.
        destruct (negb (e_ctl cur && e_ctl nxt)) eqn:Ectl;
          [right; exists []; split; [reflexivity|apply traces_dead]|].
        rewrite build_fields_with.
        destruct (build_with pi_fresh (e_fields cur) (e_fields nxt)) as [fs|] eqn:Eb;
          [|right; exists []; split; [reflexivity|apply traces_dead]].
        right.
        destruct (pd_step (dsteps cur) pi_fresh (seg_state (dsteps cur) 0) raw_val (e_fields nxt)
                    ltac:(intros a b; apply pi_fresh_next) _ _ Eb) as [fs0 [E1 E2]].
        (* the boundary tick after the segment, shared by all cases *)
        assert (Hboundary : forall fsD,
                 build_with (seg_state (dsteps cur) (Z.to_nat (dsteps cur))) (e_fields cur) (e_fields nxt) = Some fsD ->
                 traces (mkT rest (count + 1) (Some nxt) (Some (dsteps cur, fsD)) false)
                        (spec_open false nxt (eff (count + 1) rest)))
          by (intros fsD HfsD; apply tick_good; unfold tick; cbn [t_dead t_ie t_stream t_count t_next];
              rewrite (pd_stop (dsteps cur) _ (e_fields nxt) ltac:(intros a b; apply pi_seg_stop; exact HD) _ _ Hc HfsD);
              unfold advance; cbn [t_next t_stream t_count]; apply IH; assumption).
        destruct first.
        -- (* first segment: the raw first value, then all D steps *)
           rewrite E1.
           destruct (seg_emits cur nxt rest (count + 1) (Some nxt) HD (Z.to_nat (dsteps cur)) 0%nat fs0 ltac:(lia) E2)
             as [fsD [E3 E4]].
           eexists. split; [reflexivity|]. cbn [snd]. eapply emits_traces; [exact E4|]. apply Hboundary. exact E3.
        -- (* later segment: drop the repeated first value, send step 0 on this tick *)
           rewrite E1.
           destruct (pd_step (dsteps cur) (seg_state (dsteps cur) 0) (seg_state (dsteps cur) 1)
                       (fun a b => step_value cospi mode a b (dsteps cur) 0) (e_fields nxt)
                       ltac:(intros a b; apply pi_seg_next; [exact HD|lia]) _ _ E2) as [fs1 [E5 E6]].
           rewrite E5.
           destruct (seg_emits cur nxt rest (count + 1) (Some nxt) HD (Z.to_nat (dsteps cur) - 1)%nat 1%nat fs1 ltac:(lia) E6)
             as [fsD [E3 E4]].
           unfold seg_outs. destruct (Z.to_nat (dsteps cur)) as [|m] eqn:Em; [lia|].
           cbn [seq map app fst snd]. eexists. split; [reflexivity|].
           replace (S m - 1)%nat with m in E4 by lia.
           eapply emits_traces; [exact E4|]. apply Hboundary. exact E3.
Qed.

(* MAIN: the per-tick trace of a track started on [events] is [spec] of the events the count limit lets through,
   followed by silence *)
Theorem run_spec events : all_num events -> traces (init events) (spec (eff 0 events)).
Proof.
  intros Hn. apply tick_good. unfold tick, init. cbn [t_dead t_ie]. unfold advance. cbn [t_next t_stream t_count].
  destruct events as [|e r].
  - left. unfold get_next. destruct (limit_reached maxc 0); simpl;
      (split; [reflexivity|split; [reflexivity|apply traces_dead]]).
  - unfold get_next. simpl eff. destruct (limit_reached maxc 0) eqn:El.
    + left. split; [reflexivity|split; [reflexivity|apply traces_dead]].
    + inversion Hn; subst. simpl spec. apply open_segment_good; assumption.
Qed.

(** * Well-formed streams: control events whose number fields are numbers at the next point too *)

Definition pair_ok (cur nxt : event) : bool :=
  e_ctl cur && e_ctl nxt &&
  match build_fields (e_fields cur) (e_fields nxt) with Some _ => true | None => false end.
Fixpoint chain_ok (cur : event) (rest : list event) : bool :=
  match rest with
  | [] => true
  | nxt :: r => pair_ok cur nxt && chain_ok nxt r
  end.

Fixpoint all_segs (cur : event) (rest : list event) : list outcome :=
  match rest with
  | [] => []
  | nxt :: r => seg_outs cur nxt ++ all_segs nxt r
  end.
(* the first message: the raw value of the first point that has a positive length and a successor *)
Fixpoint first_part (first : bool) (cur : event) (rest : list event) : list outcome :=
  match rest with
  | [] => []
  | nxt :: r => if dsteps cur <=? 0 then first_part first nxt r
                else if first then [emit raw_val cur nxt] else []
  end.

Lemma first_part_false cur rest : first_part false cur rest = [].
Proof. revert cur. induction rest as [|n r IH]; intros cur; simpl; [reflexivity|]. destruct (dsteps cur <=? 0); auto. Qed.

Lemma seg_outs_length cur nxt : length (seg_outs cur nxt) = Z.to_nat (dsteps cur).
Proof. unfold seg_outs. rewrite map_length, seq_length. reflexivity. Qed.

Lemma seg_outs_zero cur nxt : dsteps cur <= 0 -> seg_outs cur nxt = [].
Proof. intros H. unfold seg_outs. replace (Z.to_nat (dsteps cur)) with 0%nat by lia. reflexivity. Qed.

Lemma spec_open_ok : forall rest first cur, chain_ok cur rest = true ->
  spec_open first cur rest = first_part first cur rest ++ all_segs cur rest.
Proof.
  induction rest as [|nxt r IH]; intros first cur H; [reflexivity|].
  simpl in H. apply andb_true_iff in H as [Hp Hc]. unfold pair_ok in Hp.
  apply andb_true_iff in Hp as [Hctl Hb].
  cbn [spec_open first_part all_segs]. destruct (dsteps cur <=? 0) eqn:Ez.
  - rewrite seg_outs_zero by lia. simpl. apply IH. exact Hc.
  - rewrite Hctl. simpl negb. cbv iota.
    destruct (build_fields (e_fields cur) (e_fields nxt)); [|discriminate].
    rewrite (IH false nxt Hc), first_part_false. simpl. reflexivity.
Qed.

(* ticks taken by a list of points *)
Definition ticks_of (l : list event) : nat := fold_right (fun e acc => (Z.to_nat (dsteps e) + acc)%nat) 0%nat l.

Lemma ticks_of_app l1 l2 : ticks_of (l1 ++ l2) = (ticks_of l1 + ticks_of l2)%nat.
Proof. induction l1; simpl; [reflexivity|]. rewrite IHl1. lia. Qed.

Lemma all_segs_length : forall rest cur, length (all_segs cur rest) = ticks_of (removelast (cur :: rest)).
Proof.
  induction rest as [|nxt r IH]; intros cur; [reflexivity|].
  cbn [all_segs]. rewrite app_length, seg_outs_length, IH. reflexivity.
Qed.

Lemma first_part_length : forall rest cur,
  length (first_part true cur rest) = if (ticks_of (removelast (cur :: rest)) =? 0)%nat then 0%nat else 1%nat.
Proof.
  induction rest as [|nxt r IH]; intros cur; [reflexivity|].
  cbn [first_part]. destruct (dsteps cur <=? 0) eqn:Ez.
  - rewrite IH. change (removelast (cur :: nxt :: r)) with (cur :: removelast (nxt :: r)).
    cbn [ticks_of fold_right]. replace (Z.to_nat (dsteps cur)) with 0%nat by lia. reflexivity.
  - change (removelast (cur :: nxt :: r)) with (cur :: removelast (nxt :: r)).
    cbn [ticks_of fold_right].
    destruct (Nat.eqb_spec (Z.to_nat (dsteps cur) + fold_right (fun e acc => (Z.to_nat (dsteps e) + acc)%nat) 0%nat (removelast (nxt :: r)))%nat 0%nat); [lia|reflexivity].
Qed.

Lemma all_segs_app : forall l1 cur nxt l2,
  all_segs cur (l1 ++ nxt :: l2) = all_segs cur (l1 ++ [nxt]) ++ all_segs nxt l2.
Proof.
  induction l1 as [|x l1 IH]; intros cur nxt l2; simpl.
  - rewrite app_nil_r. reflexivity.
  - rewrite IH, app_assoc. reflexivity.
Qed.

Definition segs (l : list event) : list outcome := match l with [] => [] | e :: r => all_segs e r end.

Lemma segs_split pre cur nxt post :
  segs (pre ++ cur :: nxt :: post) = segs (pre ++ [cur]) ++ seg_outs cur nxt ++ all_segs nxt post.
Proof.
  destruct pre as [|p pre]; simpl; [reflexivity|]. rewrite all_segs_app. reflexivity.
Qed.

Lemma segs_length l : length (segs l) = ticks_of (removelast l).
Proof. destruct l; [reflexivity|]. apply all_segs_length. Qed.

(** * The control call of an interpolated dict *)

Definition field_val (val : Q -> Q -> Q) (cur nxt : list (string * fval)) (k : string) : option fval :=
  match lookup k cur with
  | Some (VOpq t) => Some (VOpq t)
  | Some (VNum a) => match lookup k nxt with Some (VNum b) => Some (VNum (val a b)) | _ => None end
  | None => None
  end.

Lemma lookup_vals_with val k nxt : forall cur fs, build_fields cur nxt = Some fs ->
  lookup k (vals_with val cur nxt) = field_val val cur nxt k.
Proof.
  unfold field_val. induction cur as [|[k' [a|t]] r IH]; simpl; intros fs H; [reflexivity| |].
  - destruct (lookup k' nxt) as [[b|]|] eqn:El; try discriminate.
    destruct (build_fields r nxt) as [x|]; [|discriminate]. simpl.
    destruct (String.eqb_spec k k') as [->|Hne].
    + rewrite El. reflexivity.
    + apply (IH _ eq_refl).
  - destruct (build_fields r nxt) as [x|]; [|discriminate]. simpl.
    destruct (String.eqb k k'); [reflexivity|apply (IH _ eq_refl)].
Qed.

Lemma emit_call val cur nxt fs : build_fields (e_fields cur) (e_fields nxt) = Some fs ->
  emit val cur nxt =
  match field_val val (e_fields cur) (e_fields nxt) "control", field_val val (e_fields cur) (e_fields nxt) "value",
        field_val val (e_fields cur) (e_fields nxt) "channel" with
  | Some c, Some v, Some h => OCall c v h
  | _, _, _ => OErr
  end.
Proof.
  intros H. unfold emit, perform. rewrite !(lookup_vals_with val _ _ _ _ H). reflexivity.
Qed.

(** * Pointwise view: the message of the k-th tick *)

Lemma nth_repeat_none k n : nth k (repeat ONone n) ONone = ONone.
Proof. revert k. induction n; intros [|k]; simpl; auto. Qed.

Lemma nth_pad : forall n k L, (k < n)%nat -> nth k (pad n L) ONone = nth k L ONone.
Proof.
  induction n as [|n IH]; intros k L Hk; [lia|].
  destruct L as [|x L].
  - unfold pad. rewrite firstn_nil. cbn [app length]. destruct k; [destruct n; reflexivity|]. rewrite nth_repeat_none. reflexivity.
  - unfold pad. simpl. destruct k as [|k]; [reflexivity|]. apply (IH k L). lia.
Qed.

(* what the track sends on its k-th tick (k = 0: the tick on which it starts) *)
Definition msg (events : list event) (k : nat) : outcome := nth k (spec (eff 0 events)) ONone.

Theorem run_msg events n k : all_num events -> (k < n)%nat ->
  nth k (runM n (init events)) ONone = msg events k.
Proof. intros Hn Hk. rewrite (run_spec events Hn n). apply nth_pad. exact Hk. Qed.

Definition chain_ok_list (l : list event) : bool := match l with [] => true | e :: r => chain_ok e r end.
Definition first_list (l : list event) : list outcome := match l with [] => [] | e :: r => first_part true e r end.

Lemma spec_ok l : chain_ok_list l = true -> spec l = first_list l ++ segs l.
Proof. destruct l as [|e r]; [reflexivity|]. apply spec_open_ok. Qed.

Lemma first_list_length l : length (first_list l) = if (ticks_of (removelast l) =? 0)%nat then 0%nat else 1%nat.
Proof. destruct l as [|e r]; [reflexivity|]. apply first_part_length. Qed.

Lemma seg_outs_nth cur nxt j : (j < Z.to_nat (dsteps cur))%nat ->
  nth j (seg_outs cur nxt) ONone = emit (fun a b => step_value cospi mode a b (dsteps cur) j) cur nxt.
Proof.
  intros Hj. unfold seg_outs.
  rewrite (nth_indep _ ONone (emit (fun a b => step_value cospi mode a b (dsteps cur) 0) cur nxt))
    by (rewrite map_length, seq_length; exact Hj).
  rewrite (map_nth (fun j => emit (fun a b => step_value cospi mode a b (dsteps cur) j) cur nxt)).
  rewrite seq_nth by exact Hj. reflexivity.
Qed.

Lemma removelast_mid (pre : list event) cur nxt post :
  removelast (pre ++ cur :: nxt :: post) = pre ++ cur :: removelast (nxt :: post).
Proof.
  rewrite removelast_app by discriminate. reflexivity.
Qed.

(* the message j steps (0-based) into the segment cur -> nxt *)
Lemma msg_segment l pre cur nxt post j :
  l = pre ++ cur :: nxt :: post -> chain_ok_list l = true -> (j < Z.to_nat (dsteps cur))%nat ->
  nth (1 + ticks_of pre + j) (spec l) ONone = emit (fun a b => step_value cospi mode a b (dsteps cur) j) cur nxt.
Proof.
  intros -> Hok Hj. rewrite (spec_ok _ Hok), segs_split.
  assert (HF : length (first_list (pre ++ cur :: nxt :: post)) = 1%nat).
  { rewrite first_list_length, removelast_mid, ticks_of_app. cbn [ticks_of fold_right].
    destruct (Nat.eqb_spec (ticks_of pre + (Z.to_nat (dsteps cur) + fold_right (fun e acc => (Z.to_nat (dsteps e) + acc)%nat) 0%nat (removelast (nxt :: post))))%nat 0%nat); [lia|reflexivity]. }
  assert (HA : length (segs (pre ++ [cur])) = ticks_of pre).
  { rewrite segs_length, removelast_last. reflexivity. }
  replace (1 + ticks_of pre + j)%nat with (length (first_list (pre ++ cur :: nxt :: post)) + (length (segs (pre ++ [cur])) + j))%nat by lia.
  rewrite app_nth2_plus, app_nth2_plus, app_nth1 by (rewrite seg_outs_length; exact Hj).
  apply seg_outs_nth. exact Hj.
Qed.

(* the first message *)
Lemma msg_first l pre cur nxt post :
  l = pre ++ cur :: nxt :: post -> chain_ok_list l = true -> ticks_of pre = 0%nat -> 1 <= dsteps cur ->
  nth 0 (spec l) ONone = emit raw_val cur nxt.
Proof.
  intros -> Hok Hz HD. rewrite (spec_ok _ Hok).
  assert (E : first_list (pre ++ cur :: nxt :: post) = [emit raw_val cur nxt]).
  { clear Hok. destruct pre as [|p pre].
    - simpl. destruct (dsteps cur <=? 0) eqn:E; [lia|reflexivity].
    - simpl. revert p Hz. induction pre as [|x pre IH]; intros p Hz.
      + simpl in *. destruct (dsteps p <=? 0) eqn:E; [|lia]. destruct (dsteps cur <=? 0) eqn:E2; [lia|reflexivity].
      + simpl in *. destruct (dsteps p <=? 0) eqn:E; [|lia]. apply IH. lia. }
  rewrite E. reflexivity.
Qed.

(* all messages of a well-formed stream are control calls *)
Definition has_keys (e : event) : bool :=
  match lookup "control" (e_fields e), lookup "value" (e_fields e), lookup "channel" (e_fields e) with
  | Some _, Some _, Some _ => true
  | _, _, _ => false
  end.
Definition is_call (o : outcome) : Prop := exists c v h, o = OCall c v h.

Lemma build_lookup_num k nxt : forall cur fs a, build_fields cur nxt = Some fs -> lookup k cur = Some (VNum a) ->
  exists b, lookup k nxt = Some (VNum b).
Proof.
  induction cur as [|[k' [a'|t]] r IH]; simpl; intros fs a H Hl; [discriminate| |].
  - destruct (lookup k' nxt) as [[b|]|] eqn:El; try discriminate.
    destruct (build_fields r nxt) as [x|]; [|discriminate].
    destruct (String.eqb_spec k k') as [->|Hne]; [eexists; exact El|]. eapply IH; eauto.
  - destruct (build_fields r nxt) as [x|]; [|discriminate].
    destruct (String.eqb k k'); [discriminate|]. eapply IH; eauto.
Qed.

Lemma field_val_some val cur nxt fs k x : build_fields cur nxt = Some fs -> lookup k cur = Some x ->
  exists y, field_val val cur nxt k = Some y.
Proof.
  intros Hb Hl. unfold field_val. rewrite Hl. destruct x as [a|t]; [|eexists; reflexivity].
  destruct (build_lookup_num k nxt cur fs a Hb Hl) as [b ->]. eexists; reflexivity.
Qed.

Lemma emit_is_call val cur nxt : pair_ok cur nxt = true -> has_keys cur = true -> is_call (emit val cur nxt).
Proof.
  unfold pair_ok, has_keys. intros Hp Hk. apply andb_true_iff in Hp as [_ Hb].
  destruct (build_fields (e_fields cur) (e_fields nxt)) as [fs|] eqn:Eb; [|discriminate].
  rewrite (emit_call val cur nxt fs Eb).
  destruct (lookup "control" (e_fields cur)) as [c|] eqn:E1; [|discriminate].
  destruct (lookup "value" (e_fields cur)) as [v|] eqn:E2; [|discriminate].
  destruct (lookup "channel" (e_fields cur)) as [h|] eqn:E3; [|discriminate].
  destruct (field_val_some val _ _ _ _ _ Eb E1) as [c' ->].
  destruct (field_val_some val _ _ _ _ _ Eb E2) as [v' ->].
  destruct (field_val_some val _ _ _ _ _ Eb E3) as [h' ->].
  do 3 eexists; reflexivity.
Qed.

Lemma all_segs_calls : forall rest cur, chain_ok cur rest = true -> Forall (fun e => has_keys e = true) (cur :: rest) ->
  Forall is_call (all_segs cur rest).
Proof.
  induction rest as [|nxt r IH]; intros cur Hc Hk; [constructor|].
  simpl in Hc. apply andb_true_iff in Hc as [Hp Hc]. inversion Hk; subst.
  cbn [all_segs]. apply Forall_app. split; [|apply IH; assumption].
  unfold seg_outs. apply Forall_forall. intros o Ho. apply in_map_iff in Ho as [j [<- _]].
  apply emit_is_call; assumption.
Qed.

Lemma first_part_calls : forall rest cur, chain_ok cur rest = true -> Forall (fun e => has_keys e = true) (cur :: rest) ->
  Forall is_call (first_part true cur rest).
Proof.
  induction rest as [|nxt r IH]; intros cur Hc Hk; [constructor|].
  simpl in Hc. apply andb_true_iff in Hc as [Hp Hc]. inversion Hk; subst.
  cbn [first_part]. destruct (dsteps cur <=? 0); [apply IH; assumption|].
  constructor; [|constructor]. apply emit_is_call; assumption.
Qed.

(* a segment with a non-control end: everything before it, then InvalidEventException, then nothing *)
Lemma spec_open_invalid cur nxt post : 1 <= dsteps cur -> e_ctl cur && e_ctl nxt = false ->
  forall pre p first, chain_ok p (pre ++ [cur]) = true ->
  spec_open first p (pre ++ cur :: nxt :: post) =
  first_part first p (pre ++ [cur]) ++ all_segs p (pre ++ [cur]) ++ [OInvalid].
Proof.
  intros HD Hctl.
  assert (Hcur : forall first, spec_open first cur (nxt :: post) = [OInvalid]).
  { intros first. cbn [spec_open]. destruct (dsteps cur <=? 0) eqn:E; [lia|]. rewrite Hctl. reflexivity. }
  remember (nxt :: post) as tl eqn:Etl. clear Etl.
  induction pre as [|x pre IH]; intros p first Hc.
  - simpl in Hc. rewrite andb_true_r in Hc. unfold pair_ok in Hc.
    apply andb_true_iff in Hc as [Hc Hb].
    simpl app. cbn [spec_open first_part all_segs]. destruct (dsteps p <=? 0) eqn:Ez.
    + rewrite Hcur, seg_outs_zero by lia. reflexivity.
    + rewrite Hc. simpl negb. cbv iota.
      destruct (build_fields (e_fields p) (e_fields cur)); [|discriminate].
      rewrite Hcur. destruct first; simpl; rewrite ?app_nil_r; reflexivity.
  - simpl in Hc. apply andb_true_iff in Hc as [Hp Hc]. unfold pair_ok in Hp.
    apply andb_true_iff in Hp as [Hp Hb].
    simpl app. cbn [spec_open first_part all_segs]. destruct (dsteps p <=? 0) eqn:Ez.
    + rewrite (IH x first Hc), seg_outs_zero by lia. reflexivity.
    + rewrite Hp. simpl negb. cbv iota.
      destruct (build_fields (e_fields p) (e_fields x)); [|discriminate].
      rewrite (IH x false Hc), first_part_false. destruct first; simpl; rewrite <- ?app_assoc; reflexivity.
Qed.

(* the event-count limit is a prefix of the stream *)
Lemma eff_unlimited : (maxc = None \/ maxc = Some 0) -> forall stream count, eff count stream = stream.
Proof.
  intros H. induction stream as [|e r IH]; intros count; simpl; [reflexivity|].
  replace (limit_reached maxc count) with false by (destruct H as [-> | ->]; reflexivity).
  rewrite IH. reflexivity.
Qed.

Lemma eff_firstn m : maxc = Some m -> 0 < m -> forall stream count,
  eff count stream = firstn (Z.to_nat (m - count)) stream.
Proof.
  intros H Hm. induction stream as [|e r IH]; intros count; simpl; [rewrite firstn_nil; reflexivity|].
  unfold limit_reached. rewrite H.
  destruct (m =? 0) eqn:E0; [lia|]. simpl. destruct (m <=? count) eqn:E.
  - replace (Z.to_nat (m - count)) with 0%nat by lia. reflexivity.
  - replace (Z.to_nat (m - count)) with (S (Z.to_nat (m - (count + 1)))) by lia. simpl. rewrite IH. reflexivity.
Qed.

End Traces.

(** * Arithmetic of the step values *)

Lemma step_value_linear cospi a b D j : 1 <= D ->
  (step_value cospi Linear a b D j == a + (b - a) * ((Z.of_nat j + 1) # Z.to_pos D))%Q.
Proof.
  intros HD. unfold step_value. rewrite (Qmake_Qdiv (Z.of_nat j + 1) (Z.to_pos D)).
  rewrite Z2Pos.id by lia. unfold Qdiv. ring.
Qed.

Lemma step_value_cosine cospi a b D j :
  (step_value cospi Cosine a b D j == a + (b - a) * ((1 - cospi ((Z.of_nat j + 1) # Z.to_pos D)) / 2))%Q.
Proof. unfold step_value. field. Qed.

Lemma frac_unit (j : nat) D : 1 <= D -> (j < Z.to_nat D)%nat ->
  (0 <= (Z.of_nat j + 1) # Z.to_pos D)%Q /\ ((Z.of_nat j + 1) # Z.to_pos D <= 1)%Q.
Proof.
  intros HD Hj. unfold Qle. simpl. rewrite Z2Pos.id by lia. split; lia.
Qed.

Lemma frac_last D : 1 <= D -> ((Z.of_nat (Z.to_nat D - 1) + 1) # Z.to_pos D == 1)%Q.
Proof.
  intros HD. unfold Qeq. simpl. rewrite Z2Pos.id by lia. lia.
Qed.

Lemma lerp_between (a b t : Q) : (0 <= t)%Q -> (t <= 1)%Q ->
  ((a <= b -> a <= a + (b - a) * t /\ a + (b - a) * t <= b) /\
   (b <= a -> b <= a + (b - a) * t /\ a + (b - a) * t <= a))%Q.
Proof. intros H0 H1. split; intros Hab; split; nra. Qed.

(** * Durations in ticks *)

Lemma Qfloor_unique z y : (inject_Z z <= y)%Q -> (y < inject_Z (z + 1))%Q -> Qfloor y = z.
Proof.
  intros H1 H2. pose proof (Qfloor_le y) as A. pose proof (Qlt_floor y) as B.
  assert (Qfloor y < z + 1) by (rewrite Zlt_Qlt; eapply Qle_lt_trans; eauto).
  assert (z < Qfloor y + 1) by (rewrite Zlt_Qlt; eapply Qle_lt_trans; eauto).
  lia.
Qed.

(* a product duration * ticks_per_beat within 5e-9 of the whole number D counts as D ticks *)
Lemma dur_steps_whole tpb d D :
  (inject_Z D - (1 # 200000000) < d * inject_Z tpb)%Q -> (d * inject_Z tpb < inject_Z D + (1 # 200000000))%Q ->
  dur_steps tpb d = D.
Proof.
  intros H1 H2. unfold dur_steps, round8. set (x := (d * inject_Z tpb)%Q) in *.
  assert (E : Qfloor (x * (100000000 # 1) + (1 # 2)) = D * 100000000).
  { apply Qfloor_unique.
    - rewrite inject_Z_mult. change (inject_Z 100000000) with (100000000 # 1)%Q. lra.
    - rewrite inject_Z_plus, inject_Z_mult. change (inject_Z 100000000) with (100000000 # 1)%Q.
      change (inject_Z 1) with 1%Q. lra. }
  rewrite E. unfold Qfloor. simpl. apply Z.div_mul. lia.
Qed.

(** * The timeline around the track *)

Lemma timeline_run_started cospi n tpb mode maxc s q d events t0 :
  start_tick (S n) tpb s q d = Some t0 ->
  timeline_run cospi n tpb mode maxc s q d events =
  repeat ONone (Nat.min n (Z.to_nat t0)) ++ run cospi tpb mode maxc (n - Nat.min n (Z.to_nat t0)) (init events).
Proof. intros H. unfold timeline_run. rewrite H. reflexivity. Qed.

(** * Values and pass-through of one message *)

Lemma emit_value val cur nxt a b : pair_ok cur nxt = true -> has_keys cur = true ->
  lookup "value" (e_fields cur) = Some (VNum a) -> lookup "value" (e_fields nxt) = Some (VNum b) ->
  exists c h, emit val cur nxt = OCall c (VNum (val a b)) h
    /\ field_val val (e_fields cur) (e_fields nxt) "control" = Some c
    /\ field_val val (e_fields cur) (e_fields nxt) "channel" = Some h.
Proof.
  unfold pair_ok, has_keys. intros Hp Hk Ha Hb. apply andb_true_iff in Hp as [_ Hbf].
  destruct (build_fields (e_fields cur) (e_fields nxt)) as [fs|] eqn:Eb; [|discriminate].
  rewrite (emit_call val cur nxt fs Eb).
  destruct (lookup "control" (e_fields cur)) as [c|] eqn:E1; [|discriminate].
  destruct (lookup "channel" (e_fields cur)) as [h|] eqn:E3; [|rewrite Ha in Hk; discriminate].
  destruct (field_val_some val _ _ _ _ _ Eb E1) as [c' Ec].
  destruct (field_val_some val _ _ _ _ _ Eb E3) as [h' Eh].
  rewrite Ec, Eh. unfold field_val at 1. rewrite Ha, Hb. exists c', h'. repeat split.
Qed.

Lemma chain_ok_app : forall l1 p x y l2, chain_ok p (l1 ++ x :: y :: l2) = true -> pair_ok x y = true.
Proof.
  induction l1 as [|z l1 IH]; intros p x y l2 H; simpl in H.
  - apply andb_true_iff in H as [_ H]. apply andb_true_iff in H as [H _]. exact H.
  - apply andb_true_iff in H as [_ H]. eapply IH; eauto.
Qed.

Lemma chain_ok_mid pre x y post : chain_ok_list (pre ++ x :: y :: post) = true -> pair_ok x y = true.
Proof.
  destruct pre as [|p pre]; simpl; intros H.
  - apply andb_true_iff in H as [H _]. exact H.
  - eapply chain_ok_app; eauto.
Qed.

Lemma step_value_flat cospi mode a b D j : (a == b)%Q -> (step_value cospi mode a b D j == a)%Q.
Proof.
  intros H. unfold step_value. destruct mode; rewrite <- H; unfold Qdiv; ring.
Qed.

(* Sched/ReachProofs.v — the states a performance can be in: every history from the empty timeline, and inside a tick
   the state phase 4 starts from and the state after any turn.  On all of them track ids are distinct and below next_id
   ([wf] of Sched/TickFrame.v), which discharges the NoDup hypothesis of the per-turn theorems. *)
From Isobar Require Import Base.Prelude Sched.Model Sched.NoteOffProofs Sched.TimeProofs Sched.TickFrame Sched.MergeProofs.

(* the state phase 4 (the loop over the tracks) of Timeline.tick starts from *)
Definition tick_pre (tl : timeline) : timeline :=
  let '(trs1, _) := phase_noteoffs (tracks tl) in
  let '(tl2, kept, _) := phase_actions (set_actions (set_tracks tl trs1) []) (actions (set_tracks tl trs1)) [] [] in
  set_actions tl2 (kept ++ actions tl2).

Inductive reachable (cfg : config) : timeline -> Prop :=
| R_init : reachable cfg tl0
| R_step tl o : reachable cfg tl -> reachable cfg (fst (fst (step cfg tl o)))     (* between operations *)
| R_pre tl : reachable cfg tl -> reachable cfg (tick_pre tl)                      (* inside a tick, before the first turn *)
| R_turn tl id : reachable cfg tl -> reachable cfg (fst (fst (tick_one cfg tl id))).   (* inside a tick, after a turn *)

Lemma reachable_run cfg h : forall tl, reachable cfg tl -> reachable cfg (run_state cfg tl h).
Proof.
  induction h as [|o r IH]; intros tl R; [exact R|]. cbn [run_state].
  pose proof (R_step cfg tl o R) as R1. destruct (step cfg tl o) as [[tl' c] res]. apply IH. exact R1.
Qed.
Theorem history_reachable cfg h : reachable cfg (run_state cfg tl0 h).
Proof. apply reachable_run. constructor. Qed.

Lemma phase_actions_ids todo : forall tl kept calls,
  map t_id (tracks (fst (fst (phase_actions tl todo kept calls)))) = map t_id (tracks tl).
Proof.
  induction todo as [|a r IH]; intros tl kept calls; [reflexivity|]. cbn [phase_actions].
  destruct (a_time a <=? now tl); [|apply IH].
  destruct (fire_action_ids tl a) as [F1 _]. destruct (fire_action tl a) as [tl' c]. cbn [fst] in F1.
  rewrite IH. exact F1.
Qed.

Lemma tick_pre_wf tl : wf tl -> wf (tick_pre tl).
Proof.
  unfold tick_pre. pose proof (phase_noteoffs_ids (tracks tl)) as P1. destruct (phase_noteoffs (tracks tl)) as [trs1 c1].
  cbn [fst] in P1.
  pose proof (phase_actions_ids (actions (set_tracks tl trs1)) (set_actions (set_tracks tl trs1) []) [] []) as P2.
  pose proof (phase_actions_next (actions (set_tracks tl trs1)) (set_actions (set_tracks tl trs1) []) [] []) as P3.
  destruct (phase_actions (set_actions (set_tracks tl trs1) []) (actions (set_tracks tl trs1)) [] []) as [[tl2 kept] c3].
  cbn [fst set_actions set_tracks tracks next_id] in P2, P3.
  apply wf_same; cbn [set_actions tracks next_id]; [rewrite P2, P1; reflexivity|lia].
Qed.

Lemma tl_tick_wf cfg tl : wf tl -> wf (fst (fst (tl_tick cfg tl))).
Proof.
  intros W. pose proof (tick_pre_wf tl W) as W3. unfold tl_tick. unfold tick_pre in W3.
  destruct (phase_noteoffs (tracks tl)) as [trs1 c1].
  destruct (phase_actions (set_actions (set_tracks tl trs1) []) (actions (set_tracks tl trs1)) [] []) as [[tl2 kept] c3].
  pose proof (phase_tracks_wf cfg (map t_id (tracks (set_actions tl2 (kept ++ actions tl2)))) (set_actions tl2 (kept ++ actions tl2)) [] W3) as W4.
  destruct (phase_tracks cfg (set_actions tl2 (kept ++ actions tl2)) (map t_id (tracks (set_actions tl2 (kept ++ actions tl2)))) []) as [[tl4 c4] res].
  cbn [fst] in W4. destruct res; cbn [fst]; try exact W4. destruct (_ && _); cbn [fst]; exact W4.
Qed.

Lemma step_wf cfg tl o : wf tl -> wf (fst (fst (step cfg tl o))).
Proof.
  intros W. destruct o; [exact (tl_tick_wf cfg tl W)|..];
    (unfold step; match goal with |- context [exec_op ?c ?t ?o] =>
       pose proof (exec_op_wf c t o W) as H; destruct (exec_op c t o) as [tl' r]; exact H end).
Qed.

Lemma tick_one_wf cfg tl id : wf tl -> wf (fst (fst (tick_one cfg tl id))).
Proof.
  intros W. pose proof (phase_tracks_wf cfg [id] tl [] W) as H. cbn [phase_tracks] in H.
  destruct (tick_one cfg tl id) as [[tl' c] ab]. destruct ab; exact H.
Qed.

(* track ids are distinct and below next_id in every reachable state *)
Theorem reachable_wf cfg tl : reachable cfg tl -> wf tl.
Proof.
  induction 1 as [|tl o R IH|tl R IH|tl id R IH]; [exact wf_tl0|apply step_wf|apply tick_pre_wf|apply tick_one_wf]; exact IH.
Qed.

(* Sched/SchedTimeSrc.v — the scheduled time computed by the SOURCE of Timeline._schedule_action
   (Generated/TablesSched.v, rewritten from the source text by harness/gen_tables_sched.py on every run of ./check C05)
   against the model's sched_time (Sched/Model.v).  A change of the source expression breaks this file, i.e. a proof
   obligation of C05.

   DIFFERENCE found between source and model.  The source computes
       quantize * math.ceil(round(float(current_time) / quantize, 8)) + delay
   the model  q * ceil(t / q) + d  with the exact ceiling: the model has NO round(., 8).  With times as integer numerators
   t, q (any common denominator) the two agree whenever 0 < q < 2 * 10^8 (src_sched_time_is): the quotient t/q exceeds an
   integer by at least 1/q, which survives rounding to 8 decimals iff 1/q > 0.5 * 10^-8.  They DIFFER beyond that bound
   (src_sched_time_differs): t = 1, q = 3 * 10^8: round(1 / (3 * 10^8), 8) = 0.0, so the source schedules at time 0 -
   BEFORE the current time - where the model (and the property: "the least multiple of q that is >= t") has q.
   In real units: a current time that lies less than 0.5 * 10^-8 * quantize after a multiple of quantize is treated as
   being on it.  With the tick grids of the checks (ticks per beat * quantize in beats far below 2 * 10^8) the bound
   always holds; it is a hypothesis of the theorems below, not of the model's. *)
From Isobar Require Import Base.Prelude Base.Round8 Sched.Model Sched.OnsetProofs Generated.TablesSched.
Local Open Scope Z_scope.

(* the source expression, flattened *)
Lemma src_sched_time_unfold t q d :
  src_sched_time t q d = (if negb (q =? 0) then q * py_ceil8 (r8 q t) else t) + d.
Proof. unfold src_sched_time. destruct (q =? 0); reflexivity. Qed.

(* ceil(round(t / q, 8)) is the exact ceiling for 0 < q < 2 * 10^8 *)
Lemma ceil_round8_exact t q : 0 < q < 2 * 10 ^ 8 -> py_ceil8 (r8 q t) = cdiv t q.
Proof.
  intros Hq. unfold py_ceil8, r8.
  pose proof (rhe_bounds (t * 10 ^ 8) q ltac:(lia)) as B.
  pose proof (cdiv_spec t q ltac:(lia)) as C.
  set (n := rhe (t * 10 ^ 8) q) in *. set (m := cdiv t q) in *.
  assert (H8 : 10 ^ 8 = 100000000) by reflexivity. rewrite H8 in *.
  assert (L : (m - 1) * 100000000 < n) by nia.
  assert (U : n <= m * 100000000) by nia.
  assert (E : (- n) / 100000000 = - m).
  { symmetry. apply Z.div_unique with (r := m * 100000000 - n); lia. }
  rewrite E. lia.
Qed.

Theorem src_sched_time_is t q d : 0 <= q < 2 * 10 ^ 8 -> src_sched_time t q d = sched_time t q d.
Proof.
  intros Hq. rewrite src_sched_time_unfold. unfold sched_time.
  destruct (q =? 0) eqn:E; cbn [negb]; [reflexivity|]. rewrite ceil_round8_exact by lia. reflexivity.
Qed.

Example src_sched_time_differs :
  src_sched_time 1 300000000 0 = 0 /\ sched_time 1 300000000 0 = 300000000.
Proof. split; vm_compute; reflexivity. Qed.

(* the reading of round(t / q, 8) is the faithful one (q > 0) on every input with q >= 0 *)
Lemma src_sched_time_defined_ok t q d : 0 <= q -> src_sched_time_defined t q d = true.
Proof.
  intros Hq. unfold src_sched_time_defined. destruct (q =? 0) eqn:E; cbn [negb]; [reflexivity|].
  destruct (0 <? q) eqn:E2; [reflexivity|lia].
Qed.

Print Assumptions src_sched_time_is.

(* Sched/ModelSrcSched.v — Timeline.schedule as translated from the SOURCE TEXT (Generated/TablesTrack.v src_timeline_schedule)
   against the model's exec_op (OSchedule ..) (Sched/Model.v).  docs/TRANSLATOR3.md.

   Read from the source: the order of the tests (`replace and name is not None` first, then the track limit), the loop that
   finds the FIRST track of that name and updates it in place (update, current_event_count = 0, unmute, return), the limit test
   `self.max_tracks and len(self.tracks) >= self.max_tracks`, the construction of the new Track with count / remove_when_done /
   name, its update WITHOUT a count, the append.  Trusted: Sched/SrcGlue.v name_is, register_track (object identity = a fresh
   id), upd_track as the write-back of an element mutated through the loop variable; `params` is an already built stream; the
   branch `isinstance(params, Track)` and the arguments interpolate / output_device / track_index are outside the model.

   DIFFERENCE in shape: the source writes the updated track back where the OBJECT is (identity), the model's put_named where the
   first track of that NAME is; the same place when ids are distinct (hypothesis wf). *)
From Isobar Require Import Base.Prelude Sched.Model Sched.NoteOffProofs Sched.TickFrame Sched.SrcGlue Generated.TablesTrack Sched.ModelSrc.
Local Open Scope Z_scope.

Lemma find_named_in nm : forall l tr, find_named nm l = Some tr -> In tr l /\ name_is tr nm = true.
Proof.
  induction l as [|x l IH]; intros tr H; cbn [find_named] in H; [discriminate|]. unfold name_is.
  destruct (t_name x) as [n|] eqn:N.
  - destruct (n =? nm) eqn:E.
    + inversion H; subst. split; [left; reflexivity|]. rewrite N. exact E.
    + destruct (IH tr H) as [A B]. split; [right; exact A|exact B].
  - destruct (IH tr H) as [A B]. split; [right; exact A|exact B].
Qed.

Lemma put_track_put_named nm X : forall l tr, NoDup (map t_id l) -> find_named nm l = Some tr -> t_id X = t_id tr ->
  put_track X l = put_named nm X l.
Proof.
  induction l as [|x l IH]; intros tr ND F I; [discriminate|]. cbn [find_named put_named put_track] in *.
  inversion ND as [|? ? Hn Hr]; subst.
  assert (Other : find_named nm l = Some tr -> (t_id x =? t_id X)%nat = false).
  { intros F'. apply Nat.eqb_neq. intros E. apply Hn. rewrite E, I. apply in_map. apply (find_named_in nm l tr F'). }
  destruct (t_name x) as [n|].
  - destruct (n =? nm).
    + inversion F; subst. rewrite I, Nat.eqb_refl. reflexivity.
    + rewrite (Other F). f_equal. apply (IH tr Hr F I).
  - rewrite (Other F). f_equal. apply (IH tr Hr F I).
Qed.

Section Loop.
  Variables (cfg : config) (s : stream) (q d count : option Z) (nm : Z).
  Let step := fun (st0 : timeline * bool) (x : track) => let '(self, done) := st0 in
    if done then (self, done) else
    if name_is x nm then
      let '(self, x) := src_track_update cfg self x s q d count in
      let x := w_t_count x 0 in let x := src_track_unmute x in (upd_track self x, true)
    else (self, done).

  Lemma sched_loop_done : forall l tl, fold_left step l (tl, true) = (tl, true).
  Proof. induction l as [|x l IH]; intros tl; cbn [fold_left]; [reflexivity|apply IH]. Qed.

  Lemma sched_loop : forall l tl,
    fold_left step l (tl, false) =
    match find_named nm l with
    | Some tr => let '(tl1, tr1) := track_update cfg tl tr s q d count in (upd_track tl1 (set_muted (set_count tr1 0) false), true)
    | None => (tl, false)
    end.
  Proof.
    induction l as [|x l IH]; intros tl; cbn [fold_left find_named]; [reflexivity|].
    unfold step at 2. unfold name_is. destruct (t_name x) as [n|]; [|apply IH].
    destruct (n =? nm); [|apply IH].
    rewrite src_track_update_is. destruct (track_update cfg tl x s q d count) as [tl1 tr1]. apply sched_loop_done.
  Qed.
End Loop.

Theorem src_timeline_schedule_is cfg tl s q d count rwd name replace : NoDup (map t_id (tracks tl)) ->
  src_timeline_schedule cfg tl s q d count rwd name replace = exec_op cfg tl (OSchedule s q d count rwd name replace).
Proof.
  intros ND. unfold src_timeline_schedule. cbn [exec_op].
  assert (New : forall nmo,
    (if negb (max_tracks cfg =? 0)
     then if Z.of_nat (length (tracks tl)) >=? max_tracks cfg then (tl, RTrackLimit)
          else let track := new_track (next_id tl) count rwd nmo in
               let '(self, track) := src_track_update cfg tl track s q d None in let self := register_track self track in (self, ROk)
     else let track := new_track (next_id tl) count rwd nmo in
          let '(self, track) := src_track_update cfg tl track s q d None in let self := register_track self track in (self, ROk))
    = (if negb (max_tracks cfg =? 0) && (max_tracks cfg <=? Z.of_nat (length (tracks tl))) then (tl, RTrackLimit)
       else let tr := new_track (next_id tl) count rwd nmo in
            let '(tl1, tr1) := track_update cfg tl tr s q d None in
            (mkTL (now tl1) (tracks tl1 ++ [tr1]) (actions tl1) (S (next_id tl1)) (def_q tl1) (def_d tl1) (dev_calls tl1), ROk))).
  { intros nmo. rewrite Z.geb_leb. cbv zeta. rewrite src_track_update_is.
    destruct (negb (max_tracks cfg =? 0)); cbn [andb]; [destruct (max_tracks cfg <=? Z.of_nat (length (tracks tl))); [reflexivity|]|];
      destruct (track_update cfg tl (new_track (next_id tl) count rwd nmo) s q d None) as [tl1 tr1]; reflexivity. }
  destruct replace.
  - destruct name as [nm|]; [|apply New].
    match goal with |- context [fold_left ?f (tracks tl) (tl, false)] => change f with
      (fun (st0 : timeline * bool) (x : track) => let '(self, done) := st0 in if done then (self, done) else
         if name_is x nm then let '(self, x) := src_track_update cfg self x s q d count in
           let x := w_t_count x 0 in let x := src_track_unmute x in (upd_track self x, true) else (self, done)) end.
    rewrite (sched_loop cfg s q d count nm (tracks tl) tl).
    destruct (find_named nm (tracks tl)) as [tr|] eqn:F; [|apply New].
    pose proof (track_update_sched cfg tl tr s q d count) as U.
    destruct (track_update cfg tl tr s q d count) as [tl1 tr1]. destruct U as [U1 [_ [U3 _]]].
    cbv iota beta. unfold upd_track. f_equal. f_equal.
    apply put_track_put_named with (tr := tr); [rewrite U1; exact ND|rewrite U1; exact F|exact U3].
  - destruct name; apply New.
Qed.

Print Assumptions src_timeline_schedule_is.

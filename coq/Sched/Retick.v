(* Sched/Retick.v — C01, two more dimensions of a history (definitions only; proofs in RetickProofs.v):

   (e) the resolution is re-configured in the middle of a run.  `timeline.ticks_per_beat = N` (timeline.py
       set_ticks_per_beat -> clock_source.ticks_per_beat) changes what Timeline.tick_duration returns from then on;
       nothing else of the timeline's state is touched.  In the model the tick length is the field [tau] of the
       configuration, so a re-configuration is a change of configuration between two segments of the history:
       [run_segs [(cfg1, ops1); (cfg2, ops2); ...]].  The most general form lets the configuration differ on every
       tick: [ticks_v cf tl j0 j] runs ticks j0, j0+1, ..., j0+j-1 with configuration [cf i] in force during tick i.
       Time is cumulative and exact: the beginning of tick j lies [Tm cf j] = tau (cf 0) + ... + tau (cf (j-1))
       after the beginning of tick 0 (Track.tick / Timeline.tick: "current_time advances by one tick_duration per tick").

   (f) re-entrant calls: the action of an event of a track calls nudge() on that same track while the event is being
       performed (Track.tick -> perform_event -> event.action() -> track.nudge(x)).  Model.v already describes this:
       tick_one writes the track back (upd_track tl tr1, next_event_time already advanced by the loop) BEFORE the
       callback's operations run (exec_cb_ops), and finishes the tick on the track as the callback left it.
       What is added here is the vocabulary for the theorem: [nx k] is the amount by which event k nudges its own
       track, [NX ev nx k] the exact time of event k = sum over the earlier events of (duration + own nudge). *)
From Isobar Require Import Base.Prelude Sched.Model Sched.Obs.

(** * (e) histories in segments *)
Fixpoint run_segs (segs : list (config * list op)) (tl : timeline) : list obs :=
  match segs with
  | [] => []
  | (cfg, ops) :: r => run cfg tl ops ++ run_segs r (run_state cfg tl ops)
  end.
Fixpoint run_state_segs (segs : list (config * list op)) (tl : timeline) : timeline :=
  match segs with
  | [] => tl
  | (cfg, ops) :: r => run_state_segs r (run_state cfg tl ops)
  end.

(* literals written by the harness: one segment = configuration + history with repeat counts *)
Definition seg (cfg : config) (h : list (op * Z)) : config * list op := (cfg, expand h).
Definition agrees_segs (segs : list (config * list op)) (expected : list sobs) : bool :=
  list_eqb sobs_eqb (sparse (run_segs segs tl0)) expected.
Definition out_of_fuel_segs (segs : list (config * list op)) : bool :=
  existsb (fun o => opres_eqb (snd (fst o)) ROutOfFuel) (run_segs segs tl0).

(** * the configuration may change before every tick *)
Fixpoint ticks_v (cf : nat -> config) (tl : timeline) (j0 j : nat) : timeline :=
  match j with
  | O => tl
  | S j' => ticks_v cf (fst (fst (tl_tick (cf j0) tl))) (S j0) j'
  end.

(* beginning of tick j, relative to the beginning of tick 0: exact sum of the tick lengths *)
Fixpoint Tm (cf : nat -> config) (j : nat) : Z :=
  match j with O => 0 | S j' => Tm cf j' + tau (cf j') end.
(* length of the tick that precedes tick j (tick 0 counts as preceded by a tick of its own length) *)
Definition gap (cf : nat -> config) (j : nat) : Z :=
  match j with O => tau (cf 0%nat) | S j' => tau (cf j') end.

(* two segments as a schedule *)
Definition two_cfg (cfg1 cfg2 : config) (n1 : nat) : nat -> config :=
  fun i => if (i <? n1)%nat then cfg1 else cfg2.

(** * (f) events that nudge their own track *)
(* exact time of event k when event i, while being performed, nudges its own track by nx i *)
Fixpoint NX (ev : nat -> event) (nx : nat -> Z) (k : nat) : Z :=
  match k with O => 0 | S k' => NX ev nx k' + e_dur (ev k') + nx k' end.
(* the nudges alone *)
Fixpoint XS (nx : nat -> Z) (k : nat) : Z :=
  match k with O => 0 | S k' => XS nx k' + nx k' end.

(* event k of track [id] nudges that track by nx k, under every configuration of the schedule:
   an active action event runs callback cb = "track.nudge(nx k)"; every other event leaves the track alone *)
Definition self_nudge (cf : nat -> config) (id : nat) (ev : nat -> event) (nx : nat -> Z) (k : nat) : Prop :=
  match e_kind (ev k) with
  | KAction cb =>
      if e_active (ev k) then forall j, nth cb (cbs (cf j)) (CbNone, []) = (CbNone, [ONudge id (nx k)])
      else nx k = 0
  | _ => nx k = 0
  end.

(** * the starting point of the theorems: a timeline whose only track has been started, nothing pending;
      sh = next_event_time - current_time (0 right after start(); x after a nudge(x)) *)
Definition single_started (tl : timeline) (tr : track) (id : nat) (sh : Z) : Prop :=
  tracks tl = [tr] /\ actions tl = [] /\ t_id tr = id /\ t_started tr = true /\ t_muted tr = false /\
  t_finished tr = false /\ t_next tr = t_cur tr + sh /\ (t_max tr = None \/ t_max tr = Some 0).

(* an event that is not an (active) action: performing it runs no user code *)
Definition plain_event (e : event) : Prop :=
  match e_kind e with KAction _ => e_active e = false | _ => True end.

(* Sched/EventSpec.v — what docs/events/*.md (and the property statement) say an event dictionary means,
   written without reference to how Event.__init__ computes it.  Sched/EventProofs.v relates the model
   (Sched/Event.v) to these definitions. *)
From Isobar Require Import Base.Prelude Tonal.Key Generated.Tables Generated.TablesC03 Sched.Event.
From Coq Require Import String QArith Qround.
Local Open Scope Z_scope.
Local Notation length := List.length (only parsing).

(** ** Pitch (docs/events/note.md, "Keys and Scales"): degree d of a key with tonic t, semitones s (n of them) and
       octave size o is  t + s[d mod n] + o * floor(d / n);  "octave" transposes by 12 semitones per unit (a MIDI
       octave), "transpose" by semitones.  Negative degrees descend (floor division). *)
Definition spec_pitch (k : key) (d oct tr : Z) : Z :=
  tonic k + znth (semis (kscale k)) (d mod slen (kscale k)) + osize (kscale k) * (d / slen (kscale k))
  + 12 * oct + tr.
Definition spec_note_pitch (n oct tr : Z) : Z := n + 12 * oct + tr.

(* the whole-number part of a degree: an int is itself, a non-negative float is floored *)
Definition degree_floor (v : val) : option Z :=
  match v with
  | VInt z => Some z
  | VFlt q => if Qle_bool 0 q then Some (Qfloor q) else None
  | _ => None
  end.
Fixpoint degree_floors (l : list val) : option (list Z) :=
  match l with
  | [] => Some []
  | v :: r => match degree_floor v, degree_floors r with
              | Some z, Some zs => Some (z :: zs)
              | _, _ => None
              end
  end.

(** ** Where a parameter comes from: the event (through its synonyms: a legacy or synonym key stands for the
       canonical one), else the current value of the timeline default, else the library default (a fresh
       EventDefaults holds the library defaults, so "the timeline default" covers both). *)
Fixpoint first_present (d : dict) (ks : list string) : option val :=
  match ks with
  | [] => None
  | k :: r => match dget d k with Some v => Some v | None => first_present d r end
  end.
Definition spec_param (defs d : dict) (names : list string) (p : string) : option val :=
  match first_present d names with
  | Some v => Some v
  | None => match dget defs p with
            | Some v => match pvalue v with Ok v' => Some v' | _ => None end
            | None => None
            end
  end.
(* the names under which each parameter may be given; when several are given the implementation takes the first
   of this list (the documentation only says they are synonyms) *)
Definition amplitude_names := [K_VELOCITY; K_AMPLITUDE_LEGACY; K_AMPLITUDE].
Definition duration_names := [K_DURATION_LEGACY; K_DURATION].

(* exactly one name of a synonym group is given *)
Definition only_given (d : dict) (names : list string) (k : string) : Prop :=
  In k names /\ forall k', In k' names -> k' <> k -> dget d k' = None.

(** ** Event type: the first key present of this list selects the type (docs/events/index.md and the precedence
       stated in the property) *)
Definition type_keys := [K_ACTION; K_PATCH; K_CONTROL; K_PROGRAM_CHANGE; K_OSC_ADDRESS; K_SUPERCOLLIDER_SYNTH].
Definition spec_selecting_key (has : string -> bool) : option string :=
  match find has type_keys with
  | Some k => Some k
  | None => if has K_NOTE || has K_DEGREE then Some K_NOTE else None
  end.
(* which key selected a classified event *)
Definition body_key (b : ebody) : string :=
  match b with
  | BAction _ _ => K_ACTION | BPatch _ _ _ _ _ _ => K_PATCH | BControl _ _ _ => K_CONTROL
  | BProgram _ _ => K_PROGRAM_CHANGE | BOsc _ _ => K_OSC_ADDRESS | BSynth _ _ => K_SUPERCOLLIDER_SYNTH
  | BNote _ _ _ _ _ => K_NOTE
  end.
(* Event.type for the types the property names *)
Definition type_name (k : string) : option string :=
  if String.eqb k K_ACTION then Some T_ACTION
  else if String.eqb k K_CONTROL then Some T_CONTROL
  else if String.eqb k K_PROGRAM_CHANGE then Some T_PROGRAM_CHANGE
  else if String.eqb k K_OSC_ADDRESS then Some T_OSC
  else if String.eqb k K_SUPERCOLLIDER_SYNTH then Some T_SUPERCOLLIDER
  else if String.eqb k K_NOTE then Some T_NOTE
  else None.

(** ** the attributes an EventDefaults object has (its __setattr__ refuses any other) *)
Definition defaults_shape (defs : dict) : Prop := map fst defs = map fst library_defaults.
(* every default can be evaluated (no exhausted pattern) *)
Definition defaults_ready (defs : dict) : Prop := forall k v, In (k, v) defs -> exists v', pvalue v = Ok v'.

(** ** per-voice parameters of a chord: a tuple gives one value per voice, anything else is shared *)
Definition pv (v : val) (i : nat) : val := match v with VTup l => nth i l VNone | _ => v end.
Definition covers (v : val) (n : nat) : Prop := match v with VTup l => (n <= length l)%nat | _ => True end.

(** ** the device calls of a chord: voice i is switched on with its own (or the shared) amplitude and channel and
       released duration * gate_i beats later *)
Definition note_len (dur g : val) : val := match py_mul dur g with Ok v => v | _ => VNone end.
Fixpoint voice_calls (notes : list val) (i : nat) (amp chan : val) : list call :=
  match notes with
  | [] => []
  | n :: r => Call "note_on" [n; pv amp i; pv chan i] :: voice_calls r (S i) amp chan
  end.
Fixpoint voice_offs (notes : list val) (i : nat) (gate chan dur : val) : list noteoff :=
  match notes with
  | [] => []
  | n :: r => (note_len dur (pv gate i), n, pv chan i) :: voice_offs r (S i) gate chan dur
  end.
(* how a key is given: a Key object or its name *)
Definition key_denotes (kv : val) (k : key) : Prop :=
  match kv with VKey k' => k' = k | VStr s => key_of_name s = Ok k | _ => False end.

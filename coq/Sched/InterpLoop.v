(* Sched/InterpLoop.v - a looped sequence of control points (the stream of PSequence([p0, ..., pm], n), PLoop, or a dict of
   PSequence(values, n)): definitions.  The track machine is that of Sched/Interp.v; nothing is re-defined.
   (The model is functional: the events of the second pass ARE the events of the first pass, there is no object identity, so
   a track that writes into the dicts it is handed cannot be expressed here - that part is covered by the correspondence
   check and the oracle, stratum "supply" of harness/c15.py.) *)
From Isobar Require Import Base.Prelude Sched.Interp Sched.InterpProofs.
From Coq Require Import QArith String.
Local Open Scope Z_scope.

(* the event stream of n passes over the points of cyc *)
Definition looped (cyc : list event) (n : nat) : list event := List.concat (repeat cyc n).

(* the messages of ONE full pass over the cycle e :: r : every segment of the cycle, including the segment that leads from
   its last point back to its first point *)
Definition pass_curve (cospi : Q -> Q) (tpb : Z) (mode : imode) (e : event) (r : list event) : list outcome :=
  all_segs cospi tpb mode e (r ++ [e]).

(* the tick (counted from the track's first tick) on which the message j of pass k is due, for a pass of P ticks *)
Definition pass_tick (P k j : nat) : nat := (1 + k * P + j)%nat.

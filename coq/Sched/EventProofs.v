(* Sched/EventProofs.v — lemmas relating the model of Event.__init__ / Track.perform_event (Sched/Event.v) to the
   documentation-shaped specification (Sched/EventSpec.v).  The property theorems are in Props/C03.v. *)
From Isobar Require Import Base.Prelude Tonal.Key Generated.Tables Generated.TablesC03 Sched.Event Sched.EventSpec.
From Coq Require Import String QArith Qround.
Local Open Scope Z_scope.
Local Notation length := List.length (only parsing).

Lemma eqb_sym_s a b : String.eqb a b = String.eqb b a.
Proof. destruct (String.eqb_spec a b), (String.eqb_spec b a); congruence. Qed.

Lemma dget_dset d k v k' : dget (dset d k v) k' = if String.eqb k' k then Some v else dget d k'.
Proof.
  induction d as [|[k0 v0] r IH]; simpl.
  - destruct (String.eqb k' k); reflexivity.
  - destruct (String.eqb_spec k k0) as [->|Hn]; simpl.
    + destruct (String.eqb k' k0); reflexivity.
    + rewrite IH. destruct (String.eqb_spec k' k0) as [->|Hn'].
      * destruct (String.eqb_spec k0 k); [congruence|reflexivity].
      * reflexivity.
Qed.

Lemma dget_app d1 d2 k : dget (d1 ++ d2) k = match dget d1 k with Some v => Some v | None => dget d2 k end.
Proof. induction d1 as [|[k0 v0] r IH]; simpl; [reflexivity|]. destruct (String.eqb k k0); [reflexivity|exact IH]. Qed.

Lemma dget_dsetdefault d k v k' :
  dget (dsetdefault d k v) k' = match dget d k' with Some x => Some x | None => if String.eqb k' k then Some v else None end.
Proof.
  unfold dsetdefault, dhas. destruct (dget d k) eqn:E.
  - destruct (dget d k') eqn:E'; [reflexivity|]. destruct (String.eqb_spec k' k); [congruence|reflexivity].
  - rewrite dget_app. simpl. destruct (dget d k'); reflexivity.
Qed.

Lemma dhas_dget d k : dhas d k = match dget d k with Some _ => true | None => false end.
Proof. reflexivity. Qed.

Lemma dget_keys d k : dhas d k = existsb (String.eqb k) (map fst d).
Proof. unfold dhas. induction d as [|[k0 v0] r IH]; simpl; [reflexivity|]. destruct (String.eqb k k0); [reflexivity|exact IH]. Qed.

Lemma dget_In d k v : dget d k = Some v -> In (k, v) d.
Proof.
  induction d as [|[k0 v0] r IH]; simpl; [discriminate|].
  destruct (String.eqb_spec k k0) as [->|]; intros H; [inversion H; auto|auto].
Qed.
Ltac keq := repeat match goal with
  | |- context [String.eqb ?a ?b] =>
      let r := eval vm_compute in (String.eqb a b) in
      match r with true => change (String.eqb a b) with true | false => change (String.eqb a b) with false end
  end.
Ltac keq_in H := repeat match type of H with
  | context [String.eqb ?a ?b] =>
      let r := eval vm_compute in (String.eqb a b) in
      match r with true => change (String.eqb a b) with true in H | false => change (String.eqb a b) with false in H end
  end.

Lemma fold_one_get d from to p :
  dget (fold_one d from to) p =
  if String.eqb p to then match dget d from with Some v => Some v | None => dget d to end else dget d p.
Proof.
  unfold fold_one. destruct (dget d from) eqn:E.
  - rewrite dget_dset. reflexivity.
  - destruct (String.eqb_spec p to) as [->|]; reflexivity.
Qed.

Lemma fs_amp d : dget (fold_synonyms d) K_AMPLITUDE = first_present d amplitude_names.
Proof. unfold fold_synonyms, amplitude_names, first_present. rewrite !fold_one_get. keq. 
  destruct (dget d K_VELOCITY); [reflexivity|]. destruct (dget d K_AMPLITUDE_LEGACY); [reflexivity|].
  destruct (dget d K_AMPLITUDE); reflexivity. Qed.
Lemma fs_dur d : dget (fold_synonyms d) K_DURATION = first_present d duration_names.
Proof. unfold fold_synonyms, duration_names, first_present. rewrite !fold_one_get. keq.
  destruct (dget d K_DURATION_LEGACY); [reflexivity|]. destruct (dget d K_DURATION); reflexivity. Qed.
Lemma fs_other d p : p <> K_AMPLITUDE -> p <> K_DURATION -> dget (fold_synonyms d) p = dget d p.
Proof.
  intros H1 H2. unfold fold_synonyms. rewrite !fold_one_get.
  destruct (String.eqb_spec p K_AMPLITUDE); [contradiction|]. destruct (String.eqb_spec p K_DURATION); [contradiction|]. reflexivity.
Qed.

Definition current (defs : dict) (p : string) : option val :=
  match dget defs p with Some v => match pvalue v with Ok v' => Some v' | _ => None end | None => None end.

Lemma apply_defaults_get defs : forall d d' p, apply_defaults defs d = Ok d' ->
  dget d' p = match dget d p with Some v => Some v | None => current defs p end.
Proof.
  unfold current. induction defs as [|[k v] r IH]; simpl; intros d d' p H.
  - inversion H; subst. destruct (dget d' p); reflexivity.
  - destruct (pvalue v) as [v'| |] eqn:Ev; simpl in H; try discriminate.
    rewrite (IH _ _ p H). rewrite dget_dsetdefault.
    destruct (dget d p); [reflexivity|]. destruct (String.eqb p k); [rewrite Ev|]; reflexivity.
Qed.

Lemma apply_defaults_ready defs : defaults_ready defs -> forall d, exists d', apply_defaults defs d = Ok d'.
Proof.
  induction defs as [|[k v] r IH]; simpl; intros Hr d; [eauto|].
  destruct (Hr k v (or_introl eq_refl)) as [v' Ev]. rewrite Ev. simpl.
  apply IH. intros k0 v0 Hin. apply (Hr k0 v0). right; exact Hin.
Qed.
Ltac inv_ok := repeat match goal with
  | H : Unmodelled = Ok _ |- _ => discriminate H
  | H : Raise _ = Ok _ |- _ => discriminate H
  | H : Ok _ = Ok _ |- _ => inversion H; subst; clear H
  | H : bind ?o _ = Ok _ |- _ => destruct o eqn:?; simpl in H; try discriminate
  | H : (if ?b then _ else _) = Ok _ |- _ => destruct b eqn:?; try discriminate
  | H : match ?x with _ => _ end = Ok _ |- _ => destruct x eqn:?; try discriminate
  end.

(* the stages of resolve, exposed *)
Lemma resolve_inv defs d0 e : resolve defs d0 = Ok e ->
  exists d1 d2 d3 tb,
    validate d0 = Ok d0 /\ apply_defaults defs (fold_synonyms d0) = Ok d1
    /\ (dhas d1 K_NOTE && dhas d1 K_DEGREE = false)
    /\ degree_to_note d1 = Ok d2 /\ transpose_note d2 = Ok d3 /\ classify d3 = Ok tb
    /\ dget d3 K_DURATION = Some (e_duration e) /\ dget d3 K_ACTIVE = Some (e_active e)
    /\ e_type e = fst tb /\ e_body e = snd tb /\ e_fields e = d3.
Proof.
  unfold resolve. intros H.
  destruct (validate d0) as [dv| |] eqn:E0; simpl in H; try discriminate.
  assert (dv = d0) by (unfold validate in E0; destruct (forallb _ d0); inversion E0; reflexivity). subst dv.
  destruct (apply_defaults defs (fold_synonyms d0)) as [d1| |] eqn:E1; simpl in H; try discriminate.
  unfold check_note_degree in H. destruct (dhas d1 K_NOTE && dhas d1 K_DEGREE) eqn:E2; simpl in H; try discriminate.
  destruct (degree_to_note d1) as [d2| |] eqn:E3; simpl in H; try discriminate.
  destruct (transpose_note d2) as [d3| |] eqn:E4; simpl in H; try discriminate.
  destruct (classify d3) as [tb| |] eqn:E5; simpl in H; try discriminate.
  unfold dreq in H.
  destruct (dget d3 K_DURATION) eqn:E6; simpl in H; try discriminate.
  destruct (dget d3 K_ACTIVE) eqn:E7; simpl in H; try discriminate.
  inversion H; subst; simpl. exists d1, d2, d3, tb. repeat split; auto.
Qed.

(* degree_to_note only writes "note" *)
Lemma degree_to_note_frame d d' p : degree_to_note d = Ok d' -> p <> K_NOTE -> dget d' p = dget d p.
Proof.
  unfold degree_to_note. intros H Hp.
  assert (F : forall v, dget (dset d K_NOTE v) p = dget d p).
  { intros v. rewrite dget_dset. destruct (String.eqb_spec p K_NOTE); [contradiction|reflexivity]. }
  destruct (dget d K_DEGREE) as [dv|]; [|inversion H; reflexivity].
  destruct dv; inv_ok; try apply F; reflexivity.
Qed.
Lemma degree_to_note_has d d' : degree_to_note d = Ok d' -> dhas d' K_NOTE = dhas d K_NOTE || dhas d K_DEGREE.
Proof.
  unfold degree_to_note. intros H.
  assert (F : forall v, dhas (dset d K_NOTE v) K_NOTE = true).
  { intros v. unfold dhas. rewrite dget_dset. rewrite String.eqb_refl. reflexivity. }
  unfold dhas at 3. destruct (dget d K_DEGREE) as [dv|].
  - rewrite orb_true_r. destruct dv; inv_ok; apply F.
  - inversion H; subst. rewrite orb_false_r. reflexivity.
Qed.
Lemma degree_to_note_id d : dhas d K_DEGREE = false -> degree_to_note d = Ok d.
Proof. unfold degree_to_note, dhas. destruct (dget d K_DEGREE); [discriminate|reflexivity]. Qed.

(* transpose_note only writes "note" and, for a rest, "amplitude" and "gate" *)
Lemma transpose_note_frame d d' p : transpose_note d = Ok d' ->
  p <> K_NOTE -> p <> K_AMPLITUDE -> p <> K_GATE -> dget d' p = dget d p.
Proof.
  unfold transpose_note. intros H H1 H2 H3.
  assert (F : forall d0 k v, k = K_NOTE \/ k = K_AMPLITUDE \/ k = K_GATE -> dget (dset d0 k v) p = dget d0 p).
  { intros d0 k v Hk. rewrite dget_dset. destruct (String.eqb_spec p k); [|reflexivity]. subst. intuition congruence. }
  destruct (dget d K_NOTE) as [nv|]; [|inversion H; reflexivity].
  destruct nv; inv_ok; rewrite ?F by auto; reflexivity.
Qed.
Lemma transpose_note_has d d' : transpose_note d = Ok d' -> dhas d' K_NOTE = dhas d K_NOTE.
Proof.
  unfold transpose_note. intros H. unfold dhas at 2.
  assert (F : forall d0 v, dhas (dset d0 K_NOTE v) K_NOTE = true).
  { intros d0 v. unfold dhas. rewrite dget_dset. rewrite String.eqb_refl. reflexivity. }
  assert (G : forall d0 k v, dhas d0 K_NOTE = true -> dhas (dset d0 k v) K_NOTE = true).
  { intros d0 k v. unfold dhas. rewrite dget_dset. destruct (String.eqb K_NOTE k); [reflexivity|auto]. }
  destruct (dget d K_NOTE) as [nv|] eqn:En.
  - destruct nv; inv_ok; auto using F, G.
  - inversion H; subst. unfold dhas. rewrite En. reflexivity.
Qed.
Lemma transpose_note_id d : dhas d K_NOTE = false -> transpose_note d = Ok d.
Proof. unfold transpose_note, dhas. destruct (dget d K_NOTE); [discriminate|reflexivity]. Qed.
Lemma shape_has defs p : defaults_shape defs -> dhas defs p = existsb (String.eqb p) (map fst library_defaults).
Proof. intros H. rewrite dget_keys, H. reflexivity. Qed.

Lemma stage1_get defs d0 d1 p : apply_defaults defs (fold_synonyms d0) = Ok d1 ->
  p <> K_AMPLITUDE -> p <> K_DURATION -> dhas defs p = false -> dget d1 p = dget d0 p.
Proof.
  intros H H1 H2 H3. rewrite (apply_defaults_get _ _ _ p H), fs_other by assumption.
  unfold current. unfold dhas in H3. destruct (dget defs p); [discriminate|]. destruct (dget d0 p); reflexivity.
Qed.

(* a key that is neither a default nor amplitude/duration nor note is carried unchanged to the classified fields *)
Ltac not_default Hs := rewrite (shape_has _ _ Hs); vm_compute; reflexivity.

Lemma reject_unknown defs d k v : In (k, v) d -> known_param k = false -> resolve defs d = Raise ValueError.
Proof.
  intros Hin Hk. unfold resolve, validate.
  assert (forallb (fun kv => known_param (fst kv)) d = false) as ->; [|reflexivity].
  destruct (forallb _ d) eqn:E; [|reflexivity]. rewrite forallb_forall in E. specialize (E _ Hin). simpl in E. congruence.
Qed.

Lemma validate_ok d : (forall k v, In (k, v) d -> known_param k = true) -> validate d = Ok d.
Proof.
  intros H. unfold validate. assert (forallb (fun kv => known_param (fst kv)) d = true) as ->; [|reflexivity].
  apply forallb_forall. intros [k v] Hin. simpl. eauto.
Qed.

Lemma reject_note_degree defs d : defaults_shape defs -> defaults_ready defs ->
  (forall k v, In (k, v) d -> known_param k = true) ->
  dhas d K_NOTE = true -> dhas d K_DEGREE = true -> resolve defs d = Raise InvalidEventException.
Proof.
  intros Hs Hr Hk Hn Hd. unfold resolve. rewrite (validate_ok _ Hk). simpl.
  destruct (apply_defaults_ready defs Hr (fold_synonyms d)) as [d1 E1]. rewrite E1. simpl.
  unfold check_note_degree.
  assert (dhas d1 K_NOTE = true) as ->.
  { unfold dhas. rewrite (stage1_get defs d d1 K_NOTE E1); [exact Hn|discriminate|discriminate|not_default Hs]. }
  assert (dhas d1 K_DEGREE = true) as ->.
  { unfold dhas. rewrite (stage1_get defs d d1 K_DEGREE E1); [exact Hd|discriminate|discriminate|not_default Hs]. }
  reflexivity.
Qed.

Definition no_type_key (d : dict) : Prop :=
  forallb (fun k => negb (dhas d k)) (type_keys ++ [K_NOTE; K_DEGREE]) = true.

Lemma reject_no_type defs d : defaults_shape defs -> defaults_ready defs ->
  (forall k v, In (k, v) d -> known_param k = true) ->
  no_type_key d -> resolve defs d = Raise InvalidEventException.
Proof.
  intros Hs Hr Hk Hn. unfold resolve. rewrite (validate_ok _ Hk). simpl.
  destruct (apply_defaults_ready defs Hr (fold_synonyms d)) as [d1 E1]. rewrite E1. simpl.
  unfold no_type_key in Hn. rewrite forallb_forall in Hn.
  assert (G : forall p, In p (type_keys ++ [K_NOTE; K_DEGREE]) -> dhas d1 p = false).
  { intros p Hp. specialize (Hn p Hp). apply negb_true_iff in Hn. unfold dhas.
    rewrite (stage1_get defs d d1 p E1); [exact Hn| | |];
      simpl in Hp; repeat (destruct Hp as [<-|Hp]; [first [discriminate | not_default Hs]|]); contradiction. }
  unfold check_note_degree. rewrite (G K_NOTE) by (simpl; tauto). simpl.
  rewrite degree_to_note_id by (apply G; simpl; tauto). simpl.
  rewrite transpose_note_id by (apply G; simpl; tauto). simpl.
  unfold classify. rewrite !G by (simpl; tauto). reflexivity.
Qed.

(* a rejected dictionary reaches no device method, alone or as the next event of a track *)
Lemma perform_raise defs muted d c : resolve defs d = Raise c -> perform defs muted d = mkPerf [] [] (Raise c).
Proof. intros H. unfold perform. rewrite H. reflexivity. Qed.

Lemma run_track_raise N muted n defs d rest c : resolve defs d = Raise c -> String.eqb c StopIteration = false ->
  run_track N muted (S n) ((defs, d) :: rest) = ([], Raise c).
Proof.
  intros H Hc. unfold run_track. cbn [play t_pend t_next t_stream filter map tag app length fetch].
  assert (Qle_bool 0 (0 # N) = true) as -> by reflexivity.
  rewrite H, Hc. reflexivity.
Qed.
(* presence of the type-selecting keys is the same in the dictionary and in the classified fields *)
Lemma carried defs d0 d1 d2 d3 p : defaults_shape defs ->
  apply_defaults defs (fold_synonyms d0) = Ok d1 -> degree_to_note d1 = Ok d2 -> transpose_note d2 = Ok d3 ->
  p <> K_NOTE -> p <> K_AMPLITUDE -> p <> K_GATE -> p <> K_DURATION ->
  existsb (String.eqb p) (map fst library_defaults) = false ->
  dget d3 p = dget d0 p.
Proof.
  intros Hs E1 E3 E4 H1 H2 H3 H4 H5.
  rewrite (transpose_note_frame _ _ p E4), (degree_to_note_frame _ _ p E3), (stage1_get defs d0 d1 p E1); auto.
  rewrite (shape_has _ _ Hs). exact H5.
Qed.

Lemma precedence defs d e : defaults_shape defs -> resolve defs d = Ok e ->
  spec_selecting_key (dhas d) = Some (body_key (e_body e))
  /\ (body_key (e_body e) <> K_PATCH -> option_map VStr (type_name (body_key (e_body e))) = Some (e_type e)).
Proof.
  intros Hs H. destruct (resolve_inv _ _ _ H) as (d1 & d2 & d3 & tb & E0 & E1 & E2 & E3 & E4 & E5 & E6 & E7 & Et & Eb & Ef).
  rewrite Et, Eb. clear Et Eb Ef E6 E7 H.
  assert (C : forall p, In p type_keys -> dhas d3 p = dhas d p).
  { intros p Hp. unfold dhas. rewrite (carried defs d d1 d2 d3 p Hs E1 E3 E4); [reflexivity| | | | |];
      simpl in Hp; repeat (destruct Hp as [<-|Hp]; [first [discriminate | vm_compute; reflexivity]|]); contradiction. }
  assert (N : dhas d3 K_NOTE = dhas d K_NOTE || dhas d K_DEGREE).
  { rewrite (transpose_note_has _ _ E4), (degree_to_note_has _ _ E3). unfold dhas.
    rewrite (stage1_get defs d d1 K_NOTE E1); [|discriminate|discriminate|not_default Hs].
    rewrite (stage1_get defs d d1 K_DEGREE E1); [|discriminate|discriminate|not_default Hs]. reflexivity. }
  unfold classify in E5. rewrite N in E5. rewrite !C in E5 by (simpl; tauto).
  unfold spec_selecting_key, type_keys, find.
  destruct (dhas d K_ACTION). { inv_ok; simpl; (split; [reflexivity|intros _; reflexivity]). }
  destruct (dhas d K_PATCH). { inv_ok; simpl; (split; [reflexivity|intros X; exfalso; apply X; reflexivity]). }
  destruct (dhas d K_CONTROL). { inv_ok; simpl; (split; [reflexivity|intros _; reflexivity]). }
  destruct (dhas d K_PROGRAM_CHANGE). { inv_ok; simpl; (split; [reflexivity|intros _; reflexivity]). }
  destruct (dhas d K_OSC_ADDRESS). { inv_ok; simpl; (split; [reflexivity|intros _; reflexivity]). }
  destruct (dhas d K_SUPERCOLLIDER_SYNTH). { inv_ok; simpl; (split; [reflexivity|intros _; reflexivity]). }
  destruct (dhas d K_NOTE || dhas d K_DEGREE). { inv_ok; simpl; (split; [reflexivity|intros _; reflexivity]). }
  discriminate.
Qed.
(* transpose_note leaves amplitude and gate alone unless the note is a rest *)
Lemma transpose_note_frame2 d d' p nv : transpose_note d = Ok d' -> dget d K_NOTE = Some nv -> nv <> VNone ->
  p <> K_NOTE -> dget d' p = dget d p.
Proof.
  unfold transpose_note. intros H En Hnv Hp. rewrite En in H.
  assert (F : forall d0 v, dget (dset d0 K_NOTE v) p = dget d0 p).
  { intros d0 v. rewrite dget_dset. destruct (String.eqb_spec p K_NOTE); [contradiction|reflexivity]. }
  destruct nv; try congruence; inv_ok; rewrite ?F; reflexivity.
Qed.

(* where each field of the classified event comes from, for every parameter that is not rewritten *)
Lemma param_get defs d0 d1 d2 d3 p :
  apply_defaults defs (fold_synonyms d0) = Ok d1 -> degree_to_note d1 = Ok d2 -> transpose_note d2 = Ok d3 ->
  p <> K_NOTE -> p <> K_AMPLITUDE -> p <> K_GATE -> p <> K_DURATION ->
  dget d3 p = spec_param defs d0 [p] p.
Proof.
  intros E1 E3 E4 H1 H2 H3 H4.
  rewrite (transpose_note_frame _ _ p E4), (degree_to_note_frame _ _ p E3), (apply_defaults_get _ _ _ p E1), fs_other by auto.
  unfold spec_param, first_present, current. destruct (dget d0 p); reflexivity.
Qed.
Lemma duration_get defs d0 d1 d2 d3 :
  apply_defaults defs (fold_synonyms d0) = Ok d1 -> degree_to_note d1 = Ok d2 -> transpose_note d2 = Ok d3 ->
  dget d3 K_DURATION = spec_param defs d0 duration_names K_DURATION.
Proof.
  intros E1 E3 E4.
  rewrite (transpose_note_frame _ _ K_DURATION E4), (degree_to_note_frame _ _ K_DURATION E3),
          (apply_defaults_get _ _ _ K_DURATION E1), fs_dur by discriminate.
  unfold spec_param, current. destruct (first_present d0 duration_names); reflexivity.
Qed.

(* the note the track will play is not a rest when neither note nor degree is None *)
Lemma not_rest d1 d2 : degree_to_note d1 = Ok d2 ->
  dget d1 K_NOTE <> Some VNone -> dget d1 K_DEGREE <> Some VNone -> dget d2 K_NOTE <> Some VNone.
Proof.
  unfold degree_to_note. intros H Hn Hd.
  destruct (dget d1 K_DEGREE) as [dv|]; [|inversion H; subst; exact Hn].
  assert (F : forall n, n <> VNone -> dget (dset d1 K_NOTE n) K_NOTE <> Some VNone).
  { intros n Hx. rewrite dget_dset, String.eqb_refl. congruence. }
  destruct dv; try congruence; inv_ok; apply F; unfold degree_notes in *; inv_ok; discriminate.
Qed.

Lemma amp_gate_get defs d0 d1 d2 d3 : defaults_shape defs ->
  apply_defaults defs (fold_synonyms d0) = Ok d1 -> degree_to_note d1 = Ok d2 -> transpose_note d2 = Ok d3 ->
  dget d0 K_NOTE <> Some VNone -> dget d0 K_DEGREE <> Some VNone -> dhas d3 K_NOTE = true ->
  dget d3 K_AMPLITUDE = spec_param defs d0 amplitude_names K_AMPLITUDE
  /\ dget d3 K_GATE = spec_param defs d0 [K_GATE] K_GATE.
Proof.
  intros Hs E1 E3 E4 Hn Hd Hh.
  assert (Hn1 : dget d1 K_NOTE <> Some VNone).
  { rewrite (stage1_get defs d0 d1 K_NOTE E1); [exact Hn|discriminate|discriminate|not_default Hs]. }
  assert (Hd1 : dget d1 K_DEGREE <> Some VNone).
  { rewrite (stage1_get defs d0 d1 K_DEGREE E1); [exact Hd|discriminate|discriminate|not_default Hs]. }
  pose proof (not_rest _ _ E3 Hn1 Hd1) as Hn2.
  rewrite (transpose_note_has _ _ E4) in Hh. unfold dhas in Hh.
  destruct (dget d2 K_NOTE) as [nv|] eqn:En2; [|discriminate].
  assert (nv <> VNone) by congruence.
  split.
  - rewrite (transpose_note_frame2 _ _ K_AMPLITUDE nv E4 En2), (degree_to_note_frame _ _ K_AMPLITUDE E3),
            (apply_defaults_get _ _ _ K_AMPLITUDE E1), fs_amp by (auto; discriminate).
    unfold spec_param, current. destruct (first_present d0 amplitude_names); reflexivity.
  - rewrite (transpose_note_frame2 _ _ K_GATE nv E4 En2), (degree_to_note_frame _ _ K_GATE E3),
            (apply_defaults_get _ _ _ K_GATE E1), fs_other by (auto; discriminate).
    unfold spec_param, first_present, current. destruct (dget d0 K_GATE); reflexivity.
Qed.

(** the parameters of a note event *)
Lemma note_params defs d e : defaults_shape defs -> resolve defs d = Ok e ->
  spec_selecting_key (dhas d) = Some K_NOTE ->
  exists n a g ch pb, e_body e = BNote n a g ch pb /\ e_type e = VStr T_NOTE
    /\ Some (e_duration e) = spec_param defs d duration_names K_DURATION
    /\ Some ch = spec_param defs d [K_CHANNEL] K_CHANNEL
    /\ Some pb = spec_param defs d [K_PITCHBEND] K_PITCHBEND
    /\ Some (e_active e) = spec_param defs d [K_ACTIVE] K_ACTIVE
    /\ (dget d K_NOTE <> Some VNone -> dget d K_DEGREE <> Some VNone ->
        Some a = spec_param defs d amplitude_names K_AMPLITUDE /\ Some g = spec_param defs d [K_GATE] K_GATE)
    /\ (dget d K_NOTE = Some VNone \/ dget d K_DEGREE = Some VNone -> n = VInt 0 /\ a = VInt 0 /\ g = VInt 0).
Proof.
  intros Hs H Hsel. destruct (precedence _ _ _ Hs H) as [P1 P2]. rewrite Hsel in P1. inversion P1 as [Hb].
  destruct (resolve_inv _ _ _ H) as (d1 & d2 & d3 & tb & E0 & E1 & E2 & E3 & E4 & E5 & E6 & E7 & Et & Eb & Ef).
  clear Ef. destruct (e_body e) as [| | | | | |n a g ch pb] eqn:Ebody; try discriminate Hb.
  exists n, a, g, ch, pb. split; [reflexivity|].
  assert (Ety : e_type e = VStr T_NOTE). { specialize (P2 ltac:(discriminate)). simpl in P2. congruence. }
  split; [exact Ety|].
  rewrite <- (duration_get defs d d1 d2 d3 E1 E3 E4), E6. split; [reflexivity|].
  (* the body is what classify read from d3 *)
  assert (B : dhas d3 K_NOTE = true /\ dget d3 K_NOTE = Some n /\ dget d3 K_AMPLITUDE = Some a /\ dget d3 K_GATE = Some g
              /\ dget d3 K_CHANNEL = Some ch /\ dget d3 K_PITCHBEND = Some pb).
  { unfold classify, dreq in E5. destruct tb as [ty b]. simpl in Eb. subst b.
    repeat match type of E5 with
    | (if ?b then _ else _) = Ok _ => destruct b eqn:?
    end; try discriminate; inv_ok; simpl in *; try discriminate.
    repeat split; assumption. }
  destruct B as (Bh & Bn & Ba & Bg & Bc & Bp).
  rewrite <- (param_get defs d d1 d2 d3 K_CHANNEL E1 E3 E4), Bc by discriminate. split; [reflexivity|].
  rewrite <- (param_get defs d d1 d2 d3 K_PITCHBEND E1 E3 E4), Bp by discriminate. split; [reflexivity|].
  rewrite <- (param_get defs d d1 d2 d3 K_ACTIVE E1 E3 E4), E7 by discriminate. split; [reflexivity|].
  split.
  - intros Hn Hd. destruct (amp_gate_get defs d d1 d2 d3 Hs E1 E3 E4 Hn Hd Bh) as [A G]. rewrite <- A, <- G, Ba, Bg. split; reflexivity.
  - intros Hrest.
    assert (R : dget d2 K_NOTE = Some VNone).
    { destruct Hrest as [Hn|Hd].
      - assert (Hn1 : dget d1 K_NOTE = Some VNone).
        { rewrite (stage1_get defs d d1 K_NOTE E1); [exact Hn|discriminate|discriminate|not_default Hs]. }
        assert (dhas d1 K_DEGREE = false).
        { unfold dhas in E2 at 1. rewrite Hn1 in E2. exact E2. }
        rewrite degree_to_note_id in E3 by assumption. inversion E3; subst. exact Hn1.
      - assert (Hd1 : dget d1 K_DEGREE = Some VNone).
        { rewrite (stage1_get defs d d1 K_DEGREE E1); [exact Hd|discriminate|discriminate|not_default Hs]. }
        unfold degree_to_note in E3. rewrite Hd1 in E3. inversion E3; subst.
        rewrite dget_dset, String.eqb_refl. reflexivity. }
    unfold transpose_note in E4. rewrite R in E4. inversion E4; subst. clear E4.
    rewrite !dget_dset in Bn, Ba, Bg. keq_in Bn. keq_in Ba. keq_in Bg.
    inversion Bn; inversion Ba; inversion Bg. auto.
Qed.
(** dispatch of the non-note types *)
Lemma classified defs d e : resolve defs d = Ok e ->
  exists d1 d2 d3, apply_defaults defs (fold_synonyms d) = Ok d1 /\ degree_to_note d1 = Ok d2 /\ transpose_note d2 = Ok d3
    /\ classify d3 = Ok (e_type e, e_body e) /\ dget d3 K_ACTIVE = Some (e_active e) /\ dget d3 K_DURATION = Some (e_duration e).
Proof.
  intros H. destruct (resolve_inv _ _ _ H) as (d1 & d2 & d3 & tb & E0 & E1 & E2 & E3 & E4 & E5 & E6 & E7 & Et & Eb & Ef).
  exists d1, d2, d3. destruct tb; simpl in *; subst. auto 10.
Qed.

Ltac classify_at E5 :=
  unfold classify, dreq in E5;
  repeat match type of E5 with (if ?b then _ else _) = Ok _ => destruct b eqn:? end; try discriminate; inv_ok.

Ltac fin_dispatch Hact Ebody :=
  unfold dispatch; rewrite Hact, Ebody;
  match goal with Hx : VStr _ = e_type _ |- _ => rewrite <- Hx end; reflexivity.

Lemma sel_control d : dhas d K_ACTION = false -> dhas d K_PATCH = false -> dhas d K_CONTROL = true ->
  spec_selecting_key (dhas d) = Some K_CONTROL.
Proof. intros A B C. unfold spec_selecting_key, type_keys, find. rewrite A, B, C. reflexivity. Qed.

Lemma dispatch_control defs d e : defaults_shape defs -> resolve defs d = Ok e ->
  spec_selecting_key (dhas d) = Some K_CONTROL -> truthy (e_active e) = Ok true ->
  exists c v ch, dget d K_CONTROL = Some c /\ dget d K_VALUE = Some v
    /\ spec_param defs d [K_CHANNEL] K_CHANNEL = Some ch
    /\ dispatch false e = perf_ok [Call "control" [c; v; ch]] [].
Proof.
  intros Hs H Hsel Hact. destruct (precedence _ _ _ Hs H) as [P1 _]. rewrite Hsel in P1. inversion P1 as [Hb].
  destruct (classified _ _ _ H) as (d1 & d2 & d3 & E1 & E3 & E4 & E5 & _).
  assert (G : forall p, p <> K_NOTE -> p <> K_AMPLITUDE -> p <> K_GATE -> p <> K_DURATION ->
              existsb (String.eqb p) (map fst library_defaults) = false -> dget d3 p = dget d p).
  { intros. apply (carried defs d d1 d2 d3 p); auto. }
  destruct (e_body e) as [| |c v ch| | | |] eqn:Ebody; try discriminate Hb.
  classify_at E5. exists c, v, ch.
  rewrite <- (G K_CONTROL), <- (G K_VALUE) by (first [discriminate | vm_compute; reflexivity]).
  rewrite <- (param_get defs d d1 d2 d3 K_CHANNEL E1 E3 E4) by discriminate.
  repeat split; try assumption.
  fin_dispatch Hact Ebody.
Qed.

Lemma dispatch_program defs d e : defaults_shape defs -> resolve defs d = Ok e ->
  spec_selecting_key (dhas d) = Some K_PROGRAM_CHANGE -> truthy (e_active e) = Ok true ->
  exists p ch, dget d K_PROGRAM_CHANGE = Some p /\ spec_param defs d [K_CHANNEL] K_CHANNEL = Some ch
    /\ dispatch false e = perf_ok [Call "program_change" [p; ch]] [].
Proof.
  intros Hs H Hsel Hact. destruct (precedence _ _ _ Hs H) as [P1 _]. rewrite Hsel in P1. inversion P1 as [Hb].
  destruct (classified _ _ _ H) as (d1 & d2 & d3 & E1 & E3 & E4 & E5 & _).
  destruct (e_body e) as [| | |p ch| | |] eqn:Ebody; try discriminate Hb.
  classify_at E5. exists p, ch.
  rewrite <- (carried defs d d1 d2 d3 K_PROGRAM_CHANGE Hs E1 E3 E4) by (first [discriminate | vm_compute; reflexivity]).
  rewrite <- (param_get defs d d1 d2 d3 K_CHANNEL E1 E3 E4) by discriminate.
  repeat split; try assumption.
  fin_dispatch Hact Ebody.
Qed.

(* list(osc_params) of a list or tuple; an event without osc_params sends the empty dict the code uses *)
Definition osc_list (v : option val) : option val :=
  match v with
  | None => Some (VDict [])
  | Some (VTup l) | Some (VList l) => Some (VList l)
  | Some (VDict kv) => Some (VList (map (fun e => VStr (fst e)) kv))
  | _ => None
  end.
Lemma dispatch_osc defs d e : defaults_shape defs -> resolve defs d = Ok e ->
  spec_selecting_key (dhas d) = Some K_OSC_ADDRESS -> truthy (e_active e) = Ok true ->
  exists a ps, dget d K_OSC_ADDRESS = Some a /\ osc_list (dget d K_OSC_PARAMS) = Some ps
    /\ dispatch false e = perf_ok [Call "send" [a; ps]] [].
Proof.
  intros Hs H Hsel Hact. destruct (precedence _ _ _ Hs H) as [P1 _]. rewrite Hsel in P1. inversion P1 as [Hb].
  destruct (classified _ _ _ H) as (d1 & d2 & d3 & E1 & E3 & E4 & E5 & _).
  destruct (e_body e) as [| | | |a ps| |] eqn:Ebody; try discriminate Hb.
  pose proof (carried defs d d1 d2 d3 K_OSC_ADDRESS Hs E1 E3 E4) as G1.
  pose proof (carried defs d d1 d2 d3 K_OSC_PARAMS Hs E1 E3 E4) as G2.
  rewrite <- G1, <- G2 by (first [discriminate | vm_compute; reflexivity]).
  classify_at E5; exists a; eexists; (split; [reflexivity|]); (split; [reflexivity|]); fin_dispatch Hact Ebody.
Qed.

Lemma dispatch_synth defs d e : defaults_shape defs -> resolve defs d = Ok e ->
  spec_selecting_key (dhas d) = Some K_SUPERCOLLIDER_SYNTH -> truthy (e_active e) = Ok true ->
  exists n ps, dget d K_SUPERCOLLIDER_SYNTH = Some n
    /\ (dget d K_SUPERCOLLIDER_SYNTH_PARAMS = Some ps \/ dget d K_SUPERCOLLIDER_SYNTH_PARAMS = None /\ ps = VDict [])
    /\ (exists kv, ps = VDict kv)
    /\ dispatch false e = perf_ok [Call "create" [n; ps]] [].
Proof.
  intros Hs H Hsel Hact. destruct (precedence _ _ _ Hs H) as [P1 _]. rewrite Hsel in P1. inversion P1 as [Hb].
  destruct (classified _ _ _ H) as (d1 & d2 & d3 & E1 & E3 & E4 & E5 & _).
  destruct (e_body e) as [| | | | |n ps|] eqn:Ebody; try discriminate Hb.
  pose proof (carried defs d d1 d2 d3 K_SUPERCOLLIDER_SYNTH Hs E1 E3 E4) as G1.
  pose proof (carried defs d d1 d2 d3 K_SUPERCOLLIDER_SYNTH_PARAMS Hs E1 E3 E4) as G2.
  rewrite <- G1, <- G2 by (first [discriminate | vm_compute; reflexivity]).
  classify_at E5; exists n; eexists; (split; [reflexivity|]);
    (split; [first [left; reflexivity | right; split; reflexivity]|]);
    (split; [eexists; reflexivity|]); fin_dispatch Hact Ebody.
Qed.

(* every argument is resolved exactly once, in order, keys kept *)
Lemma resolve_args_spec kv kv' : resolve_args kv = Ok kv' ->
  Forall2 (fun a b => fst a = fst b /\ pvalue (snd a) = Ok (snd b)) kv kv'.
Proof.
  revert kv'. induction kv as [|[k v] r IH]; simpl; intros kv' H.
  - inversion H. constructor.
  - inv_ok. constructor; [simpl; auto|]. apply IH. reflexivity.
Qed.

Lemma dispatch_action defs d e : defaults_shape defs -> resolve defs d = Ok e ->
  spec_selecting_key (dhas d) = Some K_ACTION -> truthy (e_active e) = Ok true ->
  exists fn args, dget d K_ACTION = Some fn
    /\ match dget d K_ACTION_ARGS with
       | None => args = []
       | Some (VDict kv) => Forall2 (fun a b => fst a = fst b /\ pvalue (snd a) = Ok (snd b)) kv args
       | Some _ => False
       end
    /\ forall id ps, fn = VObj "fun" id ps ->
         dispatch false e = if all_in (map fst args) ps then perf_ok [Call "action" [fn; VDict args]] [] else perf_ok [] [].
Proof.
  intros Hs H Hsel Hact. destruct (precedence _ _ _ Hs H) as [P1 _]. rewrite Hsel in P1. inversion P1 as [Hb].
  destruct (classified _ _ _ H) as (d1 & d2 & d3 & E1 & E3 & E4 & E5 & _).
  destruct (e_body e) as [fn args| | | | | |] eqn:Ebody; try discriminate Hb.
  pose proof (carried defs d d1 d2 d3 K_ACTION Hs E1 E3 E4) as G1.
  pose proof (carried defs d d1 d2 d3 K_ACTION_ARGS Hs E1 E3 E4) as G2.
  rewrite <- G1, <- G2 by (first [discriminate | vm_compute; reflexivity]).
  exists fn, args.
  classify_at E5; (split; [reflexivity|]);
    (split; [first [reflexivity | apply resolve_args_spec; assumption]|]);
    intros id ps ->; fin_dispatch Hact Ebody.
Qed.
(** pitch *)
Lemma py_int_floor v z : degree_floor v = Some z -> py_int v = Ok z.
Proof.
  destruct v; simpl; try discriminate.
  - intros H; inversion H; reflexivity.
  - destruct (Qle_bool 0 q) eqn:E; [|discriminate]. intros H; inversion H; subst. clear H.
    destruct q as [n dn]. unfold Qle_bool in E. simpl in *. unfold Qfloor.
    rewrite Z.quot_div_nonneg; [reflexivity|lia|lia].
Qed.

Lemma py_ints_floors l zs : degree_floors l = Some zs ->
  existsb is_unmodelled (map py_int l) = false /\ all_ok (map py_int l) = Ok zs.
Proof.
  revert zs. induction l as [|v r IH]; simpl; intros zs H.
  - inversion H. split; reflexivity.
  - destruct (degree_floor v) as [z|] eqn:Ev; [|discriminate].
    destruct (degree_floors r) as [zr|] eqn:Er; [|discriminate]. inversion H; subst.
    rewrite (py_int_floor _ _ Ev). destruct (IH _ eq_refl) as [A B]. simpl. rewrite A, B. split; reflexivity.
Qed.

Lemma key_gets k zs ns : all_ok (map (key_get_chk k) zs) = Ok ns -> ns = map (key_get k) zs.
Proof.
  revert ns. induction zs as [|z r IH]; simpl; intros ns H.
  - inversion H; reflexivity.
  - unfold key_get_chk at 1 in H. destruct (slen (kscale k) =? 0); simpl in H; [discriminate|].
    destruct (all_ok (map (key_get_chk k) r)) eqn:E; simpl in H; try discriminate.
    inversion H; subst. f_equal. apply IH. reflexivity.
Qed.

Lemma ints_back ns : existsb is_unmodelled (map py_int (map VInt ns)) = false /\ all_ok (map py_int (map VInt ns)) = Ok ns.
Proof. induction ns as [|n r [A B]]; simpl; [split; reflexivity|]. rewrite A, B. split; reflexivity. Qed.

Lemma spec_pitch_key_get k z oc tr : key_get k z + oc * 12 + tr = spec_pitch k z oc tr.
Proof. unfold spec_pitch, key_get, scale_get. lia. Qed.

Lemma key_of defs d0 d1 kv : apply_defaults defs (fold_synonyms d0) = Ok d1 ->
  spec_param defs d0 [K_KEY] K_KEY = Some kv -> dget d1 K_KEY = Some kv.
Proof.
  intros E1 H. rewrite (apply_defaults_get _ _ _ K_KEY E1), fs_other by discriminate.
  unfold spec_param, first_present, current in *. destruct (dget d0 K_KEY); exact H.
Qed.

(* the notes a degree event plays, for a chord given as a tuple or a list *)
Lemma degree_chord_pitch defs d e l zs kv k ov tv oc tr :
  defaults_shape defs -> resolve defs d = Ok e ->
  dget d K_NOTE = None -> (dget d K_DEGREE = Some (VTup l) \/ dget d K_DEGREE = Some (VList l)) -> l <> [] ->
  degree_floors l = Some zs ->
  spec_param defs d [K_KEY] K_KEY = Some kv -> key_denotes kv k ->
  spec_param defs d [K_OCTAVE] K_OCTAVE = Some ov -> py_int ov = Ok oc ->
  spec_param defs d [K_TRANSPOSE] K_TRANSPOSE = Some tv -> py_int tv = Ok tr ->
  dget (e_fields e) K_NOTE = Some (VList (map (fun z => VInt (spec_pitch k z oc tr)) zs)).
Proof.
  intros Hs H Hn Hd Hne Hf Hk Hkd Ho Hoi Ht Hti.
  destruct (resolve_inv _ _ _ H) as (d1 & d2 & d3 & tb & E0 & E1 & E2 & E3 & E4 & E5 & E6 & E7 & Et & Eb & Ef).
  rewrite Ef. clear Ef Et Eb E5 E6 E7.
  assert (Hd1 : dget d1 K_DEGREE = Some (VTup l) \/ dget d1 K_DEGREE = Some (VList l)).
  { rewrite (stage1_get defs d d1 K_DEGREE E1); [exact Hd|discriminate|discriminate|not_default Hs]. }
  pose proof (key_of _ _ _ _ E1 Hk) as Hk1.
  destruct (py_ints_floors _ _ Hf) as [U A].
  (* degree -> note *)
  assert (N2 : dget d2 K_NOTE = Some (VList (map VInt (map (key_get k) zs)))
               /\ forall p, p <> K_NOTE -> dget d2 p = dget d1 p).
  { split; [|intros p Hp; apply (degree_to_note_frame _ _ p E3 Hp)].
    unfold degree_to_note in E3.
    assert (X : int_degrees (VTup l) = Ok (DList zs) /\ int_degrees (VList l) = Ok (DList zs)).
    { unfold int_degrees. rewrite U, A. split; reflexivity. }
    destruct X as [X1 X2].
    assert (Y : forall dv, dv = VTup l \/ dv = VList l -> dget d1 K_DEGREE = Some dv ->
              dget d2 K_NOTE = Some (VList (map VInt (map (key_get k) zs)))).
    { intros dv Hdv Edv. rewrite Edv in E3.
      assert (int_degrees dv = Ok (DList zs)) as I by (destruct Hdv; subst; assumption).
      assert (E3' : (do dg <- int_degrees dv; do kv0 <- dreq d1 K_KEY; do n <- degree_notes kv0 dg; Ok (dset d1 K_NOTE n)) = Ok d2).
      { destruct Hdv; subst dv; exact E3. }
      rewrite I in E3'. unfold dreq in E3'. rewrite Hk1 in E3'. simpl in E3'.
      unfold degree_notes in E3'.
      destruct kv; simpl in Hkd; try contradiction.
      - rewrite Hkd in E3'. simpl in E3'. destruct (all_ok (map (key_get_chk k) zs)) as [ns| |] eqn:En; simpl in E3'; try discriminate.
        inversion E3'; subst. rewrite dget_dset, String.eqb_refl. rewrite (key_gets _ _ _ En). reflexivity.
      - subst k0. simpl in E3'. destruct (all_ok (map (key_get_chk k) zs)) as [ns| |] eqn:En; simpl in E3'; try discriminate.
        inversion E3'; subst. rewrite dget_dset, String.eqb_refl. rewrite (key_gets _ _ _ En). reflexivity. }
    destruct Hd1 as [Hd1|Hd1]; [apply (Y (VTup l))|apply (Y (VList l))]; auto. }
  destruct N2 as [N2 F2].
  (* transposition *)
  unfold transpose_note in E4. rewrite N2 in E4.
  assert (Zne : zs <> []).
  { destruct l; [congruence|]. simpl in Hf. destruct (degree_floor v); [|discriminate]. destruct (degree_floors l); [|discriminate].
    inversion Hf. discriminate. }
  destruct zs as [|z0 zr]; [congruence|].
  cbn [map] in E4.
  unfold dreq in E4.
  rewrite (F2 K_OCTAVE), (F2 K_TRANSPOSE) in E4 by discriminate.
  rewrite (apply_defaults_get _ _ _ K_OCTAVE E1), (apply_defaults_get _ _ _ K_TRANSPOSE E1), !fs_other in E4 by discriminate.
  assert (O1 : match dget d K_OCTAVE with Some v => Some v | None => current defs K_OCTAVE end = Some ov).
  { unfold spec_param, first_present, current in *. destruct (dget d K_OCTAVE); exact Ho. }
  assert (T1 : match dget d K_TRANSPOSE with Some v => Some v | None => current defs K_TRANSPOSE end = Some tv).
  { unfold spec_param, first_present, current in *. destruct (dget d K_TRANSPOSE); exact Ht. }
  rewrite O1, T1 in E4. cbn [bind] in E4. rewrite Hoi, Hti in E4.
  change (VInt (key_get k z0) :: map VInt (map (key_get k) zr)) with (map VInt (map (key_get k) (z0 :: zr))) in E4.
  destruct (ints_back (map (key_get k) (z0 :: zr))) as [U' A']. cbn [map] in U', A', E4. rewrite U', A' in E4. cbn [orb is_unmodelled] in E4.
  inversion E4; subst. rewrite dget_dset, String.eqb_refl. f_equal. f_equal.
  rewrite map_map. cbn [map]. f_equal; [rewrite spec_pitch_key_get; reflexivity|]. apply map_ext. intros z. rewrite spec_pitch_key_get. reflexivity.
Qed.
Lemma oct_tr defs d d1 ov tv : apply_defaults defs (fold_synonyms d) = Ok d1 ->
  spec_param defs d [K_OCTAVE] K_OCTAVE = Some ov -> spec_param defs d [K_TRANSPOSE] K_TRANSPOSE = Some tv ->
  dget d1 K_OCTAVE = Some ov /\ dget d1 K_TRANSPOSE = Some tv.
Proof.
  intros E1 Ho Ht.
  rewrite (apply_defaults_get _ _ _ K_OCTAVE E1), (apply_defaults_get _ _ _ K_TRANSPOSE E1), !fs_other by discriminate.
  unfold spec_param, first_present, current in *. destruct (dget d K_OCTAVE), (dget d K_TRANSPOSE); auto.
Qed.

(* a single degree *)
Lemma degree_scalar_pitch defs d e dv z kv k ov tv oc tr :
  defaults_shape defs -> resolve defs d = Ok e ->
  dget d K_NOTE = None -> dget d K_DEGREE = Some dv -> degree_floor dv = Some z ->
  spec_param defs d [K_KEY] K_KEY = Some kv -> key_denotes kv k ->
  spec_param defs d [K_OCTAVE] K_OCTAVE = Some ov -> py_int ov = Ok oc ->
  spec_param defs d [K_TRANSPOSE] K_TRANSPOSE = Some tv -> py_int tv = Ok tr ->
  dget (e_fields e) K_NOTE = Some (VInt (spec_pitch k z oc tr)).
Proof.
  intros Hs H Hn Hd Hf Hk Hkd Ho Hoi Ht Hti.
  destruct (resolve_inv _ _ _ H) as (d1 & d2 & d3 & tb & E0 & E1 & E2 & E3 & E4 & E5 & E6 & E7 & Et & Eb & Ef).
  rewrite Ef. clear Ef Et Eb E5 E6 E7.
  assert (Hd1 : dget d1 K_DEGREE = Some dv).
  { rewrite (stage1_get defs d d1 K_DEGREE E1); [exact Hd|discriminate|discriminate|not_default Hs]. }
  pose proof (key_of _ _ _ _ E1 Hk) as Hk1.
  destruct (oct_tr _ _ _ _ _ E1 Ho Ht) as [O1 T1].
  assert (I : int_degrees dv = Ok (DScalar z) /\ dv <> VNone).
  { destruct dv; simpl in Hf; try discriminate; (split; [|discriminate]).
    - inversion Hf; reflexivity.
    - unfold int_degrees. rewrite (py_int_floor (VFlt q) z); [reflexivity|exact Hf]. }
  destruct I as [I Hnn].
  assert (N2 : dget d2 K_NOTE = Some (VInt (key_get k z))).
  { unfold degree_to_note in E3. rewrite Hd1 in E3.
    assert (E3' : (do dg <- int_degrees dv; do kv0 <- dreq d1 K_KEY; do n <- degree_notes kv0 dg; Ok (dset d1 K_NOTE n)) = Ok d2).
    { destruct dv; try exact E3; congruence. }
    rewrite I in E3'. unfold dreq in E3'. rewrite Hk1 in E3'. simpl in E3'. unfold degree_notes in E3'.
    destruct kv; simpl in Hkd; try contradiction; [rewrite Hkd in E3'|subst k0]; simpl in E3';
      unfold key_get_chk in E3'; destruct (slen (kscale k) =? 0); simpl in E3'; try discriminate;
      inversion E3'; subst; rewrite dget_dset, String.eqb_refl; reflexivity. }
  unfold transpose_note in E4. rewrite N2 in E4. unfold dreq in E4.
  rewrite (degree_to_note_frame _ _ K_OCTAVE E3), (degree_to_note_frame _ _ K_TRANSPOSE E3), O1, T1 in E4 by discriminate.
  cbn [bind] in E4. rewrite Hoi, Hti in E4. simpl in E4. inversion E4; subst.
  rewrite dget_dset, String.eqb_refl. f_equal. f_equal. unfold spec_pitch, key_get, scale_get. lia.
Qed.

(* notes given directly *)
Lemma note_chord_pitch defs d e ns ov tv oc tr :
  defaults_shape defs -> resolve defs d = Ok e -> ns <> [] ->
  (dget d K_NOTE = Some (VTup (map VInt ns)) \/ dget d K_NOTE = Some (VList (map VInt ns))) ->
  spec_param defs d [K_OCTAVE] K_OCTAVE = Some ov -> py_int ov = Ok oc ->
  spec_param defs d [K_TRANSPOSE] K_TRANSPOSE = Some tv -> py_int tv = Ok tr ->
  dget (e_fields e) K_NOTE = Some (VList (map (fun n => VInt (spec_note_pitch n oc tr)) ns)).
Proof.
  intros Hs H Hne Hn Ho Hoi Ht Hti.
  destruct (resolve_inv _ _ _ H) as (d1 & d2 & d3 & tb & E0 & E1 & E2 & E3 & E4 & E5 & E6 & E7 & Et & Eb & Ef).
  rewrite Ef. clear Ef Et Eb E5 E6 E7.
  assert (Hn1 : dget d1 K_NOTE = Some (VTup (map VInt ns)) \/ dget d1 K_NOTE = Some (VList (map VInt ns))).
  { rewrite (stage1_get defs d d1 K_NOTE E1); [exact Hn|discriminate|discriminate|not_default Hs]. }
  assert (Hnd : dhas d1 K_DEGREE = false).
  { unfold dhas in E2 at 1. destruct Hn1 as [X|X]; rewrite X in E2; exact E2. }
  rewrite degree_to_note_id in E3 by exact Hnd. inversion E3; subst d2. clear E3.
  destruct (oct_tr _ _ _ _ _ E1 Ho Ht) as [O1 T1].
  destruct ns as [|n0 nr]; [congruence|].
  destruct (ints_back (n0 :: nr)) as [U' A']. cbn [map] in U', A', Hn1.
  unfold transpose_note in E4.
  assert (E4' : (do ov0 <- dreq d1 K_OCTAVE; do tv0 <- dreq d1 K_TRANSPOSE;
            let os := map py_int (VInt n0 :: map VInt nr) in let oo := py_int ov0 in let ot := py_int tv0 in
            if existsb is_unmodelled os || is_unmodelled oo || is_unmodelled ot then Unmodelled
            else match all_ok os, oo, ot with
                 | Ok zs, Ok o, Ok t => Ok (dset d1 K_NOTE (VList (map (fun z => VInt (z + o * 12 + t)) zs)))
                 | _, _, _ => Raise TypeError end) = Ok d3).
  { destruct Hn1 as [X|X]; rewrite X in E4; exact E4. }
  clear E4. unfold dreq in E4'. rewrite O1, T1 in E4'. cbn [bind map] in E4'. rewrite Hoi, Hti in E4'.
  rewrite U', A' in E4'. cbn [orb is_unmodelled] in E4'. inversion E4'; subst.
  rewrite dget_dset, String.eqb_refl. f_equal. f_equal. change (VInt (n0 + oc * 12 + tr) :: map (fun z : Z => VInt (z + oc * 12 + tr)) nr) with (map (fun z : Z => VInt (z + oc * 12 + tr)) (n0 :: nr)). apply map_ext. intros z. unfold spec_note_pitch. f_equal. lia.
Qed.

Lemma note_scalar_pitch defs d e n ov tv oc tr :
  defaults_shape defs -> resolve defs d = Ok e -> dget d K_NOTE = Some (VInt n) ->
  spec_param defs d [K_OCTAVE] K_OCTAVE = Some ov -> py_int ov = Ok oc ->
  spec_param defs d [K_TRANSPOSE] K_TRANSPOSE = Some tv -> py_int tv = Ok tr ->
  dget (e_fields e) K_NOTE = Some (VInt (spec_note_pitch n oc tr)).
Proof.
  intros Hs H Hn Ho Hoi Ht Hti.
  destruct (resolve_inv _ _ _ H) as (d1 & d2 & d3 & tb & E0 & E1 & E2 & E3 & E4 & E5 & E6 & E7 & Et & Eb & Ef).
  rewrite Ef. clear Ef Et Eb E5 E6 E7.
  assert (Hn1 : dget d1 K_NOTE = Some (VInt n)).
  { rewrite (stage1_get defs d d1 K_NOTE E1); [exact Hn|discriminate|discriminate|not_default Hs]. }
  assert (Hnd : dhas d1 K_DEGREE = false).
  { unfold dhas in E2 at 1. rewrite Hn1 in E2; exact E2. }
  rewrite degree_to_note_id in E3 by exact Hnd. inversion E3; subst d2. clear E3.
  destruct (oct_tr _ _ _ _ _ E1 Ho Ht) as [O1 T1].
  unfold transpose_note in E4. rewrite Hn1 in E4. unfold dreq in E4. rewrite O1, T1 in E4.
  cbn [bind] in E4. rewrite Hoi, Hti in E4. simpl in E4. inversion E4; subst.
  rewrite dget_dset, String.eqb_refl. f_equal. f_equal. unfold spec_note_pitch. lia.
Qed.

(* the note field is the note attribute of a note event *)
Lemma note_field defs d e : defaults_shape defs -> resolve defs d = Ok e -> spec_selecting_key (dhas d) = Some K_NOTE ->
  exists n a g ch pb, e_body e = BNote n a g ch pb /\ dget (e_fields e) K_NOTE = Some n.
Proof.
  intros Hs H Hsel. destruct (precedence _ _ _ Hs H) as [P1 _]. rewrite Hsel in P1. inversion P1 as [Hb].
  destruct (resolve_inv _ _ _ H) as (d1 & d2 & d3 & tb & E0 & E1 & E2 & E3 & E4 & E5 & E6 & E7 & Et & Eb & Ef).
  rewrite Ef. destruct (e_body e) as [| | | | | |n a g ch pb] eqn:Ebody; try discriminate Hb.
  exists n, a, g, ch, pb. split; [reflexivity|].
  destruct tb as [ty b]. simpl in Eb. subst b. classify_at E5. first [assumption|reflexivity].
Qed.
(** the loop over chord voices *)
Lemma voice_param_pv v i : covers v (S i) -> voice_param v i = Ok (pv v i).
Proof.
  destruct v; simpl; try reflexivity. intros H.
  destruct (nth_error l i) eqn:E.
  - rewrite (nth_error_nth _ _ VNone E). reflexivity.
  - apply nth_error_None in E. lia.
Qed.

Lemma covers_le v n m : (m <= n)%nat -> covers v n -> covers v m.
Proof. destruct v; simpl; auto. intros; lia. Qed.

Lemma voices_all notes : forall i amp gate chan dur cs offs last,
  covers amp (i + length notes) -> covers gate (i + length notes) -> covers chan (i + length notes) ->
  (forall j, (i <= j < i + length notes)%nat ->
     audible (pv amp j) (pv gate j) = Ok true /\ exists len, py_mul dur (pv gate j) = Ok len) ->
  fst (voices notes i amp gate chan dur cs offs last) =
    perf_ok (cs ++ voice_calls notes i amp chan) (offs ++ voice_offs notes i gate chan dur)
  /\ (notes <> [] -> snd (voices notes i amp gate chan dur cs offs last) = Some (pv chan (i + length notes - 1))).
Proof.
  induction notes as [|n r IH]; intros i amp gate chan dur cs offs last Ca Cg Cc Hv.
  - simpl. rewrite !app_nil_r. split; [reflexivity|congruence].
  - cbn [length] in *. cbn [voices voice_calls voice_offs].
    rewrite (voice_param_pv amp i), (voice_param_pv chan i), (voice_param_pv gate i)
      by (eapply covers_le; [|eassumption]; lia).
    destruct (Hv i ltac:(lia)) as [Au [len Hl]]. rewrite Au, Hl.
    assert (Ca' : covers amp (S i + length r)) by (eapply covers_le; [|exact Ca]; lia).
    assert (Cg' : covers gate (S i + length r)) by (eapply covers_le; [|exact Cg]; lia).
    assert (Cc' : covers chan (S i + length r)) by (eapply covers_le; [|exact Cc]; lia).
    assert (Hv' : forall j, (S i <= j < S i + length r)%nat ->
               audible (pv amp j) (pv gate j) = Ok true /\ exists len, py_mul dur (pv gate j) = Ok len).
    { intros j Hj. apply Hv. lia. }
    destruct (IH (S i) amp gate chan dur (cs ++ [Call "note_on" [n; pv amp i; pv chan i]])
                 (offs ++ [(len, n, pv chan i)]) (Some (pv chan i)) Ca' Cg' Cc' Hv') as [I1 I2].
    split.
    + rewrite I1. unfold note_len. rewrite Hl. rewrite <- !app_assoc. reflexivity.
    + intros _. destruct r as [|n' r'].
      * simpl. replace (i + 1 - 1)%nat with i by lia. reflexivity.
      * rewrite I2 by discriminate. f_equal. f_equal. cbn [length]. lia.
Qed.

(* a chord of an active, un-muted note event without pitch bend: one note_on per voice, in order, each with its own
   (or the shared) amplitude and channel; each voice is released after duration * its gate *)
Lemma dispatch_note e notes amp gate chan :
  e_body e = BNote (VList notes) amp gate chan VNone -> e_type e = VStr T_NOTE ->
  truthy (e_active e) = Ok true ->
  (match amp with VTup _ => True | _ => py_gt0 amp = Ok true end) ->
  covers amp (length notes) -> covers gate (length notes) -> covers chan (length notes) ->
  (forall j, (j < length notes)%nat ->
     audible (pv amp j) (pv gate j) = Ok true /\ exists len, py_mul (e_duration e) (pv gate j) = Ok len) ->
  dispatch false e = perf_ok (voice_calls notes 0 amp chan) (voice_offs notes 0 gate chan (e_duration e)).
Proof.
  intros Eb Et Ha Hamp Ca Cg Cc Hv. unfold dispatch. rewrite Ha, Eb, Et.
  assert (G : (match amp with VTup _ => Ok true | _ => py_gt0 amp end) = Ok true).
  { destruct amp; auto. }
  rewrite G.
  destruct (voices_all notes 0 amp gate chan (e_duration e) [] [] None Ca Cg Cc) as [V1 _].
  { intros j Hj. apply Hv. lia. }
  destruct (voices notes 0 amp gate chan (e_duration e) [] [] None) as [p lc]. simpl in V1. subst p. reflexivity.
Qed.

(* a rest, an inactive event and a muted track play nothing *)
Lemma dispatch_inactive muted e : truthy (e_active e) = Ok false -> dispatch muted e = perf_ok [] [].
Proof. intros H. unfold dispatch. rewrite H. reflexivity. Qed.
Lemma dispatch_muted e b : truthy (e_active e) = Ok b -> dispatch true e = perf_ok [] [].
Proof. intros H. unfold dispatch. rewrite H. destruct b; reflexivity. Qed.
Lemma dispatch_rest e ch pb : e_body e = BNote (VInt 0) (VInt 0) (VInt 0) ch pb -> e_type e = VStr T_NOTE ->
  truthy (e_active e) = Ok true -> dispatch false e = perf_ok [] [].
Proof. intros Eb Et Ha. unfold dispatch. rewrite Ha, Eb, Et. reflexivity. Qed.

(** synonyms and explicit values *)
Lemma first_present_only d names k x : only_given d names k -> dget d k = Some x -> first_present d names = Some x.
Proof.
  intros [Hin Ho] Hk. induction names as [|k0 r IH]; [contradiction|]. simpl.
  destruct (String.eqb_spec k0 k) as [->|Hne].
  - rewrite Hk. reflexivity.
  - rewrite (Ho k0 (or_introl eq_refl) Hne). apply IH.
    + destruct Hin; [congruence|assumption].
    + intros k' Hk' Hn'. apply Ho; [right; assumption|assumption].
Qed.
Lemma spec_param_given defs d names p k x : only_given d names k -> dget d k = Some x -> spec_param defs d names p = Some x.
Proof. intros H1 H2. unfold spec_param. rewrite (first_present_only _ _ _ _ H1 H2). reflexivity. Qed.
Lemma spec_param_explicit defs d p x : dget d p = Some x -> spec_param defs d [p] p = Some x.
Proof. intros H. unfold spec_param, first_present. rewrite H. reflexivity. Qed.
Lemma first_present_none d names : (forall k, In k names -> dget d k = None) -> first_present d names = None.
Proof. induction names as [|k r IH]; intros H; [reflexivity|]. simpl. rewrite (H k (or_introl eq_refl)). apply IH. intros; apply H; right; assumption. Qed.
Lemma spec_param_default defs d names p v v' : (forall k, In k names -> dget d k = None) ->
  dget defs p = Some v -> pvalue v = Ok v' -> spec_param defs d names p = Some v'.
Proof. intros H1 H2 H3. unfold spec_param. rewrite (first_present_none _ _ H1), H2, H3. reflexivity. Qed.

(* Sched/StaticMultiProofs.v — C07, shared static objects read from several timelines: every read is served with the
   position of the timeline that makes it (never with the position of a timeline that read the object before); a program
   over several timelines IS a program of Sched/Static.v whose reads carry their readers' positions, so every theorem of
   Sched/StaticProofs.v applies to it; what one performance leaves in a static pattern is an ordinary state of that
   pattern for the next timeline. *)
From Isobar Require Import Base.Prelude Sched.Static Sched.StaticProofs Sched.StaticMulti.

(** * Timelines do not move each other *)
Lemma tick_tl_length k : forall tls, length (tick_tl k tls) = length tls.
Proof. induction k as [|k IH]; intros [|t r]; simpl; try reflexivity. rewrite IH. reflexivity. Qed.
Lemma tick_tl_other j : forall k tls, j <> k -> nth_tl k (tick_tl j tls) = nth_tl k tls.
Proof.
  unfold nth_tl. induction j as [|j IH]; intros k [|t r] N; simpl; try reflexivity.
  - destruct k; [contradiction|reflexivity].
  - destruct k; [reflexivity|]. apply IH. intros E. apply N. rewrite E. reflexivity.
Qed.
Lemma tick_tl_same k : forall tls, (k < length tls)%nat ->
  nth_tl k (tick_tl k tls) = mkMtl (m_U (nth_tl k tls)) (m_pos (nth_tl k tls) + 1).
Proof.
  unfold nth_tl. induction k as [|k IH]; intros [|t r] L; simpl in *; try lia; [reflexivity|]. apply IH. lia.
Qed.
Lemma pos5_other j k tls : j <> k -> pos5 k (tick_tl j tls) = pos5 k tls.
Proof. intros N. unfold pos5. rewrite (tick_tl_other j k tls N). reflexivity. Qed.

(** * PCurrentTime: the position of the reader's timeline *)
(* the number of ticks timeline k has made before each of ITS reads of a PCurrentTime object, starting from n *)
Fixpoint tick_counts (k : nat) (p : list mact) (n : Z) : list Z :=
  match p with
  | [] => []
  | MTick j :: r => tick_counts k r (if (j =? k)%nat then n + 1 else n)
  | MTime j :: r => if (j =? k)%nat then n :: tick_counts k r n else tick_counts k r n
  | _ :: r => tick_counts k r n
  end.

(* For EVERY program over any number of timelines: the values a PCurrentTime object shows to the tracks of timeline k
   are timeline k's own positions (start position + its own ticks so far), rounded as the code rounds - whatever the
   other timelines did in between and whichever timeline read the object before. *)
Theorem times_are_own_positions k p : forall tls, (k < length tls)%nat ->
  times_of k tls p = map (r5 (m_U (nth_tl k tls))) (tick_counts k p (m_pos (nth_tl k tls))).
Proof.
  induction p as [|a r IH]; intros tls L; [reflexivity|]. destruct a as [j|j|j|key d|key v]; cbn [times_of tick_counts]; try (apply IH; exact L).
  - destruct (j =? k)%nat eqn:E.
    + apply Nat.eqb_eq in E. subst j. rewrite (IH (tick_tl k tls)) by (rewrite tick_tl_length; exact L).
      rewrite (tick_tl_same k tls L). reflexivity.
    + apply Nat.eqb_neq in E. rewrite (IH (tick_tl j tls)) by (rewrite tick_tl_length; exact L).
      rewrite (tick_tl_other j k tls E). reflexivity.
  - destruct (j =? k)%nat; [|apply IH; exact L]. cbn [map]. rewrite (IH tls L). reflexivity.
Qed.

(* hence: deleting everything that does not concern timeline k changes nothing for it *)
Lemma tick_counts_proj k p : forall n, tick_counts k (filter (on_tl k) p) n = tick_counts k p n.
Proof.
  induction p as [|a r IH]; intros n; [reflexivity|]. destruct a as [j|j|j|key d|key v]; cbn [filter on_tl tick_counts]; try apply IH.
  - destruct (j =? k)%nat eqn:E; [cbn [tick_counts]; rewrite E|]; apply IH.
  - destruct (j =? k)%nat eqn:E; [cbn [tick_counts]; rewrite E, IH; reflexivity|apply IH].
Qed.
Theorem times_projection k p tls : (k < length tls)%nat -> times_of k tls (filter (on_tl k) p) = times_of k tls p.
Proof. intros L. rewrite !times_are_own_positions by exact L. rewrite tick_counts_proj. reflexivity. Qed.

(* the outputs of run_multi at the MTime positions are these values *)
Fixpoint time_outs (k : nat) (p : list mact) (o : list out) : list out :=
  match p, o with
  | MTime j :: r, x :: xs => if (j =? k)%nat then x :: time_outs k r xs else time_outs k r xs
  | _ :: r, _ :: xs => time_outs k r xs
  | _, _ => []
  end.
Theorem run_multi_times k p : forall tls s g, time_outs k p (run_multi tls s g p) = map OVal (times_of k tls p).
Proof.
  induction p as [|a r IH]; intros tls s g; [reflexivity|]. destruct a as [j|j|j|key d|key v]; cbn [run_multi time_outs times_of]; try apply IH.
  - destruct (static_read FUEL (pos5 j tls) s) as [res s']. cbn [time_outs]. apply IH.
  - destruct (j =? k)%nat eqn:E; [|apply IH]. apply Nat.eqb_eq in E. subst j. cbn [map]. rewrite IH. reflexivity.
Qed.

(** * A program over several timelines is a program of Sched/Static.v *)
Theorem multi_linear p : forall tls s g, drop_ticks p (run_multi tls s g p) = run_prog s g (linearize tls p).
Proof.
  induction p as [|a r IH]; intros tls s g; [reflexivity|]. destruct a as [j|j|j|key d|key v]; cbn [run_multi linearize drop_ticks is_tick run_prog].
  - apply IH.
  - destruct (static_read FUEL (pos5 j tls) s) as [res s']. cbn [drop_ticks is_tick]. rewrite IH. reflexivity.
  - rewrite IH. reflexivity.
  - rewrite IH. reflexivity.
  - rewrite IH. reflexivity.
Qed.

(* one timeline: the old semantics (position = number of ticks made) *)
Fixpoint single (U : Z) (t : Z) (p : list mact) : list act :=
  match p with
  | [] => []
  | MTick _ :: r => single U (t + 1) r
  | MRead _ :: r => ARead (r5 U t) :: single U t r
  | MTime _ :: r => ATime U t :: single U t r
  | MGet key d :: r => AGet key d :: single U t r
  | MSet key v :: r => ASet key v :: single U t r
  end.
Definition only_tl0 (a : mact) : bool := match a with MTick j | MRead j | MTime j => (j =? 0)%nat | _ => true end.
Theorem multi_single p : forall U t, forallb only_tl0 p = true -> linearize [mkMtl U t] p = single U t p.
Proof.
  induction p as [|a r IH]; intros U t H; [reflexivity|]. cbn [forallb] in H. apply andb_true_iff in H as [H1 H2].
  destruct a as [j|j|j|key d|key v]; cbn [only_tl0] in H1; try (apply Nat.eqb_eq in H1; subst j); cbn [linearize single tick_tl];
    unfold pos5, nth_tl; cbn [nth m_U m_pos]; rewrite ?IH by exact H2; reflexivity.
Qed.

(** * Composition: what a performance leaves behind is the state the next one starts from *)
Fixpoint globals_after (g : globals) (p : list mact) : globals :=
  match p with
  | [] => g
  | MSet key v :: r => globals_after (gset key v g) r
  | _ :: r => globals_after g r
  end.
Theorem run_multi_app p1 : forall p2 tls s g,
  run_multi tls s g (p1 ++ p2)
  = run_multi tls s g p1 ++ run_multi (tls_after tls p1) (static_after tls s p1) (globals_after g p1) p2.
Proof.
  induction p1 as [|a r IH]; intros p2 tls s g; [reflexivity|].
  destruct a as [j|j|j|key d|key v]; cbn [app run_multi tls_after static_after globals_after].
  - rewrite IH. reflexivity.
  - destruct (static_read FUEL (pos5 j tls) s) as [res s'] eqn:E. cbn [snd app]. rewrite IH. reflexivity.
  - rewrite IH. reflexivity.
  - rewrite IH. reflexivity.
  - rewrite IH. reflexivity.
Qed.

(* the positions at which the static pattern is read, whoever reads *)
Fixpoint read_positions (tls : list mtl) (p : list mact) : list Z :=
  match p with
  | [] => []
  | MTick k :: r => read_positions (tick_tl k tls) r
  | MRead k :: r => pos5 k tls :: read_positions tls r
  | _ :: r => read_positions tls r
  end.
Fixpoint read_outs (p : list mact) (o : list out) : list out :=
  match p, o with
  | MRead _ :: r, x :: xs => x :: read_outs r xs
  | _ :: r, _ :: xs => read_outs r xs
  | _, _ => []
  end.

(* a value carried over from an earlier performance (any start time st - e.g. a position of ANOTHER timeline - and span)
   is shown to every reader of every timeline, unchanged, as long as the READER's position is before the end of the
   span: however many timelines read it, however often *)
Theorem carried_value_held p : forall tls s g st v, sv_start s = Some st -> sv_value s = Some v ->
  Forall (fun now => now - st < sv_dur s) (read_positions tls p) ->
  read_outs p (run_multi tls s g p) = repeat (OVal v) (length (read_positions tls p)) /\ static_after tls s p = s.
Proof.
  induction p as [|a r IH]; intros tls s g st v Hs Hv H; [split; reflexivity|].
  destruct a as [j|j|j|key d|key v0]; cbn [run_multi read_outs read_positions static_after] in *; try (apply (IH _ _ _ st v Hs Hv H)).
  inversion H as [|x l H1 H2]; subst.
  unfold FUEL. rewrite (static_hold 3 (pos5 j tls) s st v Hs Hv H1). cbn [read_outs snd length repeat].
  destruct (IH tls s g st v Hs Hv H2) as [I1 I2]. rewrite I1, I2. split; reflexivity.
Qed.

(* two readers - of the same or of different timelines - whose timelines are at the same position see the same value *)
Theorem same_position_same_value j k tls s g v :
  Forall (fun d => 0 < d) (sv_durs s) -> pos5 j tls = pos5 k tls ->
  nth 0 (run_multi tls s g [MRead j; MRead k]) ONone = OVal v -> nth 1 (run_multi tls s g [MRead j; MRead k]) ONone = OVal v.
Proof.
  intros Hd E. cbn [run_multi]. destruct (static_read FUEL (pos5 j tls) s) as [res s'] eqn:R.
  cbn [nth]. destruct res as [v0| |]; try discriminate. intros H. inversion H; subst v0.
  rewrite <- E. unfold FUEL in *. rewrite (static_same_time 3 4 (pos5 j tls) s v s' Hd R). reflexivity.
Qed.

(* Sched/Obs.v — decidable equality on observations and the sparse form of a run used by the
   correspondence check (only operations that produced a call, a non-ok result, or a change of the
   scheduled-track list are listed, with their index in the history). *)
From Isobar Require Import Base.Prelude Sched.Model.

Definition call_eqb (a b : call) : bool :=
  match a, b with
  | CNoteOn n v c, CNoteOn n' v' c' => (n =? n') && (v =? v') && (c =? c')
  | CNoteOff n c, CNoteOff n' c' => (n =? n') && (c =? c')
  | CControl k v c, CControl k' v' c' => (k =? k') && (v =? v') && (c =? c')
  | CProgram p c, CProgram p' c' => (p =? p') && (c =? c')
  | CCallback i, CCallback i' => (i =? i')%nat
  | _, _ => false
  end.
Definition opres_eqb (a b : opres) : bool :=
  match a, b with
  | ROk, ROk | RStopIteration, RStopIteration | RException, RException
  | RTrackLimit, RTrackLimit | RTrackNotFound, RTrackNotFound | ROutOfFuel, ROutOfFuel => true
  | _, _ => false
  end.

Definition sobs := (Z * list call * opres * list nat)%type.
Definition sobs_eqb (a b : sobs) : bool :=
  let '(i, c, r, t) := a in let '(i', c', r', t') := b in
  (i =? i') && list_eqb call_eqb c c' && opres_eqb r r' && list_eqb Nat.eqb t t'.

Fixpoint sparse_from (i : Z) (prev : list nat) (l : list obs) : list sobs :=
  match l with
  | [] => []
  | (c, r, t) :: rest =>
      let keep := negb (match c with [] => true | _ => false end)
                  || negb (opres_eqb r ROk) || negb (list_eqb Nat.eqb t prev) in
      if keep then (i, c, r, t) :: sparse_from (i + 1) t rest else sparse_from (i + 1) t rest
  end.
Definition sparse (l : list obs) : list sobs := sparse_from 0 [] l.

(* histories are written with repeat counts *)
Fixpoint expand (l : list (op * Z)) : list op :=
  match l with
  | [] => []
  | (o, n) :: r => repeat o (Z.to_nat n) ++ expand r
  end.

(* typed constructors for the literals the harness writes (a tuple inside a long list literal makes Coq's
   elaboration quadratic; an application of a fully typed function does not) *)
Definition so (i : Z) (c : list call) (r : opres) (t : list nat) : sobs := (i, c, r, t).
Definition hop (o : op) (n : Z) : op * Z := (o, n).
Definition cbk (r : craise) (ops : list op) : craise * list op := (r, ops).
(* [n] consecutive operations i, i+1, ... with the same observation *)
Fixpoint so_rep (n : nat) (i : Z) (c : list call) (r : opres) (t : list nat) : list sobs :=
  match n with O => [] | S m => (i, c, r, t) :: so_rep m (i + 1) c r t end.

Definition agrees (cfg : config) (h : list (op * Z)) (expected : list sobs) : bool :=
  list_eqb sobs_eqb (sparse (run cfg tl0 (expand h))) expected.

(* did the model run out of fuel somewhere in this history?  (then it does not describe the run: the case is discarded) *)
Definition out_of_fuel (cfg : config) (h : list (op * Z)) : bool :=
  existsb (fun o => opres_eqb (snd (fst o)) ROutOfFuel) (run cfg tl0 (expand h)).

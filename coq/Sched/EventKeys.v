(* Sched/EventKeys.v — the event keys the DOCUMENTATION knows, written by hand from the documentation and NOT from
   isobar/constants.py (whose ALL_EVENT_PARAMETERS is regenerated into Generated/TablesC03.v on every run).
   Props/C03Keys.v proves that the generated table is exactly this list; the check's oracle reads THIS list, so a source
   whose whitelist grows or shrinks is contradicted by a list it cannot influence.  No proofs here.

   Where each key is documented:
     docs/events/note.md (property table)   note amplitude duration gate key scale degree transpose octave active
     property C03 / docs/events (synonyms)  dur amp velocity; channel (per-voice amplitude / gate / channel)
     docs/events/control.md                 control value; docs/events/index.md: program_change; pitchbend ("pitchwheel")
     docs/events/action.md                  action args
     docs/devices/osc.md                    osc_address osc_params
     docs/devices/supercollider.md          synth params
     docs/devices/signalflow.md             patch params type output trigger_name trigger_value
     docs/timelines/index.md (schedule())   quantize delay
     Track / Timeline event stream keys     event time   (isobar/timelines/track.py: generic-event devices, event time) *)
From Coq Require Import List String.
Import ListNotations.
Local Open Scope string_scope.

Definition documented_event_keys : list string := [
  "note"; "amplitude"; "duration"; "gate"; "key"; "scale"; "degree"; "transpose"; "octave"; "active";
  "dur"; "amp"; "velocity"; "channel";
  "control"; "value"; "program_change"; "pitchbend";
  "action"; "args";
  "osc_address"; "osc_params";
  "synth"; "params";
  "patch"; "type"; "output"; "trigger_name"; "trigger_value";
  "quantize"; "delay";
  "event"; "time"
].
Definition documented_key (k : string) : bool := existsb (String.eqb k) documented_event_keys.

(* Sched/TransitProofs.v — C06: operations that reach a track in the very tick in which it finishes.

   The removal of a finished remove_when_done track happens INSIDE its own turn of the track loop of Timeline.tick
   (Model.finish_track / tick_one), not in a sweep after the loop.  Consequence, stated here as an invariant of every
   reachable timeline AND of every state between two turns of one tick: Timeline.tracks never contains a "zombie" - a
   track that is finished and to be removed when done.  So whatever a LATER track's action callback does in that tick
   (schedule under the name of the track that just finished, update, unschedule, mute, ...) cannot land on the finished
   track: a named re-schedule finds no track of that name and creates a new one (C06_named_replace / C06_refused decide
   by the CURRENT list), and a track that a named re-schedule did update is not swept away by anybody else's finishing
   step.  The model (Sched/Model.v) is unchanged. *)
From Isobar Require Import Base.Prelude Sched.Model Sched.NoteOffProofs Sched.TickFrame Sched.LifecycleProofs.

Definition zombie (t : track) : bool := t_finished t && t_rwd t.
Definition no_zombie (l : list track) : bool := forallb (fun t => negb (zombie t)) l.

(** * Lists *)
Lemma nz_put t' l : no_zombie l = true -> zombie t' = false -> no_zombie (put_track t' l) = true.
Proof.
  unfold no_zombie. intros H Z. induction l as [|x r IH]; simpl in *; [reflexivity|]. apply andb_true_iff in H as [H1 H2].
  destruct (t_id x =? t_id t')%nat; simpl; [rewrite Z, H2|rewrite H1, (IH H2)]; reflexivity.
Qed.
Lemma nz_del id l : no_zombie l = true -> no_zombie (del_track id l) = true.
Proof.
  unfold no_zombie. intros H. induction l as [|x r IH]; simpl in *; [reflexivity|]. apply andb_true_iff in H as [H1 H2].
  destruct (t_id x =? id)%nat; simpl; [exact H2|rewrite H1, (IH H2); reflexivity].
Qed.
Lemma nz_find id l t : no_zombie l = true -> find_track id l = Some t -> zombie t = false.
Proof.
  unfold no_zombie. intros H. induction l as [|x r IH]; simpl in *; [discriminate|]. apply andb_true_iff in H as [H1 H2].
  destruct (t_id x =? id)%nat; [intros E; inversion E; subst; apply negb_true_iff; exact H1|apply IH; exact H2].
Qed.
Lemma nz_find_named nm l t : no_zombie l = true -> find_named nm l = Some t -> zombie t = false.
Proof.
  unfold no_zombie. intros H. induction l as [|x r IH]; simpl in *; [discriminate|]. apply andb_true_iff in H as [H1 H2].
  destruct (t_name x) as [n|]; [destruct (n =? nm)|]; try (apply IH; exact H2).
  intros E; inversion E; subst. apply negb_true_iff. exact H1.
Qed.
Lemma nz_put_named nm t' l : no_zombie l = true -> zombie t' = false -> no_zombie (put_named nm t' l) = true.
Proof.
  unfold no_zombie. intros H Z. induction l as [|x r IH]; simpl in *; [reflexivity|]. apply andb_true_iff in H as [H1 H2].
  destruct (t_name x) as [n|]; [destruct (n =? nm)|]; simpl; rewrite ?Z, ?H1, ?H2, ?(IH H2); reflexivity.
Qed.
Lemma nz_app l1 l2 : no_zombie l1 = true -> no_zombie l2 = true -> no_zombie (l1 ++ l2) = true.
Proof. unfold no_zombie. intros A B. rewrite forallb_app, A, B. reflexivity. Qed.
(* replacing a track by its finished version and removing it is removing it *)
Lemma del_put t' l : del_track (t_id t') (put_track t' l) = del_track (t_id t') l.
Proof.
  induction l as [|x r IH]; simpl; [reflexivity|]. destruct (t_id x =? t_id t')%nat eqn:E; simpl.
  - rewrite Nat.eqb_refl. reflexivity.
  - rewrite E, IH. reflexivity.
Qed.

(** * Nothing but track_tick_b sets is_finished; nothing changes remove_when_done *)
Lemma gne_flags tr : t_finished (snd (get_next_event tr)) = t_finished tr /\ t_rwd (snd (get_next_event tr)) = t_rwd tr.
Proof. unfold get_next_event. destruct (count_exhausted tr); [split; reflexivity|]. destruct (pull (t_stream tr)) as [[| |e] s']; split; reflexivity. Qed.
Lemma pull_loop_flags fu : forall tr last, t_finished (snd (pull_loop fu tr last)) = t_finished tr /\ t_rwd (snd (pull_loop fu tr last)) = t_rwd tr.
Proof.
  induction fu as [|f IH]; intros tr last; simpl; [split; reflexivity|].
  destruct (t_next tr <=? t_cur tr); [|split; reflexivity].
  pose proof (gne_flags tr) as G. destruct (get_next_event tr) as [[e| |] tr']; simpl in G; try exact G.
  destruct (IH (set_next tr' (t_next tr' + e_dur e)) (Some e)) as [I1 I2]. simpl in I1, I2. destruct G as [G1 G2]. split; congruence.
Qed.
Lemma perform_flags fail nowT tr e n :
  let tr' := fst (fst (fst (perform_event fail nowT tr e n))) in t_finished tr' = t_finished tr /\ t_rwd tr' = t_rwd tr.
Proof.
  unfold perform_event. destruct (negb (e_active e)); [split; reflexivity|]. destruct (t_muted tr); [split; reflexivity|].
  destruct (e_kind e) as [vs|cb|c v ch|p ch].
  - destruct (perform_voices fail nowT (t_cur tr) vs n (t_offs tr) []) as [[[offs calls] n'] ok]. split; reflexivity.
  - split; reflexivity.
  - destruct (dev_emit fail n); split; reflexivity.
  - destruct (dev_emit fail n); split; reflexivity.
Qed.
Lemma tick_a_flags cfg nowT tr n :
  let tr' := fst (fst (fst (track_tick_a cfg nowT tr n))) in t_finished tr' = t_finished tr /\ t_rwd tr' = t_rwd tr.
Proof.
  unfold track_tick_a. destruct (negb (t_started tr)); [split; reflexivity|]. destruct (t_next tr <=? t_cur tr); [|split; reflexivity].
  pose proof (pull_loop_flags (fuel cfg) tr None) as P. destruct (pull_loop (fuel cfg) tr None) as [[[e|]| | |] tr1]; simpl in P; try exact P.
  pose proof (perform_flags (dev_fail cfg) nowT tr1 e n) as F. destruct (perform_event (dev_fail cfg) nowT tr1 e n) as [[[tr2 c] n'] pf].
  simpl in F. destruct P, F. split; simpl; congruence.
Qed.
Lemma zombie_tick_a cfg nowT tr n : zombie (fst (fst (fst (track_tick_a cfg nowT tr n)))) = zombie tr.
Proof. unfold zombie. destruct (tick_a_flags cfg nowT tr n) as [A B]. rewrite A, B. reflexivity. Qed.
Lemma track_update_flags cfg tl tr s q d c :
  zombie (snd (track_update cfg tl tr s q d c)) = zombie tr /\ tracks (fst (track_update cfg tl tr s q d c)) = tracks tl.
Proof. unfold track_update. destruct ((_ =? 0) && (_ =? 0)); destruct c; split; reflexivity. Qed.

(** * Operations *)
Lemma nz_remove tl id : no_zombie (tracks tl) = true -> no_zombie (tracks (remove_track tl id)) = true.
Proof. intros H. rewrite remove_track_tracks. apply nz_del. exact H. Qed.
Lemma nz_clear l : forall tl, no_zombie (tracks tl) = true -> no_zombie (tracks (fold_left (fun tl' tr => remove_track tl' (t_id tr)) l tl)) = true.
Proof. induction l as [|x r IH]; intros tl H; simpl; [exact H|]. apply IH. apply nz_remove. exact H. Qed.

Theorem exec_op_no_zombie cfg tl o : no_zombie (tracks tl) = true -> no_zombie (tracks (fst (exec_op cfg tl o))) = true.
Proof.
  intros H. destruct o as [|s q d c rwd nm rp|t s q d c|t| |t|t|t x|q d]; cbn [exec_op fst]; try exact H.
  - set (ex := match nm with Some n => if rp then match find_named n (tracks tl) with Some tr => Some (n, tr) | None => None end else None | None => None end).
    destruct ex as [[n tr]|] eqn:E.
    + assert (F : find_named n (tracks tl) = Some tr).
      { subst ex. destruct nm as [n0|]; [|discriminate]. destruct rp; [|discriminate].
        destruct (find_named n0 (tracks tl)) eqn:F; [|discriminate]. inversion E; subst. exact F. }
      pose proof (track_update_flags cfg tl tr s q d c) as U. destruct (track_update cfg tl tr s q d c) as [tl1 tr1].
      cbn [fst snd] in *. destruct U as [U1 U2]. cbn [tracks set_tracks]. rewrite U2. apply nz_put_named; [exact H|].
      change (zombie (set_muted (set_count tr1 0) false)) with (zombie tr1). rewrite U1. apply (nz_find_named n _ _ H F).
    + destruct (negb (max_tracks cfg =? 0) && (max_tracks cfg <=? Z.of_nat (length (tracks tl)))); [exact H|].
      pose proof (track_update_flags cfg tl (new_track (next_id tl) c rwd nm) s q d None) as U.
      destruct (track_update cfg tl (new_track (next_id tl) c rwd nm) s q d None) as [tl1 tr1]. cbn [fst snd] in *. destruct U as [U1 U2].
      cbn [tracks]. rewrite U2. apply nz_app; [exact H|]. unfold no_zombie. cbn [forallb]. rewrite U1. reflexivity.
  - destruct (find_track t (tracks tl)) as [tr|] eqn:F.
    + pose proof (track_update_flags cfg tl tr s q d c) as U. destruct (track_update cfg tl tr s q d c) as [tl1 tr1].
      cbn [fst snd] in *. destruct U as [U1 U2]. cbn [tracks upd_track set_tracks]. rewrite U2. apply nz_put; [exact H|].
      rewrite U1. apply (nz_find t _ _ H F).
    + destruct (t <? next_id tl)%nat; [|exact H].
      pose proof (track_update_flags cfg tl (new_track t None true None) s q d c) as U.
      destruct (track_update cfg tl (new_track t None true None) s q d c) as [tl1 tr1]. cbn [fst snd] in *. destruct U as [_ U2]. rewrite U2. exact H.
  - destruct (find_track t (tracks tl)); cbn [fst]; [apply nz_remove|]; exact H.
  - apply nz_clear. exact H.
  - destruct (find_track t (tracks tl)) as [tr|] eqn:F; cbn [fst]; [|exact H]. apply nz_put; [exact H|]. exact (nz_find t _ _ H F).
  - destruct (find_track t (tracks tl)) as [tr|] eqn:F; cbn [fst]; [|exact H]. apply nz_put; [exact H|]. exact (nz_find t _ _ H F).
  - destruct (find_track t (tracks tl)) as [tr|] eqn:F; cbn [fst]; [|exact H]. apply nz_put; [exact H|]. exact (nz_find t _ _ H F).
Qed.

Lemma cb_ops_no_zombie cfg ops : forall tl, no_zombie (tracks tl) = true -> no_zombie (tracks (exec_cb_ops cfg tl ops)) = true.
Proof.
  induction ops as [|o r IH]; intros tl H; [exact H|]. cbn [exec_cb_ops].
  pose proof (exec_op_no_zombie cfg tl o H) as E. destruct (exec_op cfg tl o) as [tl1 res]. cbn [fst] in E.
  destruct res; try exact E. apply IH. exact E.
Qed.

(** * One turn, the whole phase, the whole tick, every history *)
Lemma finish_no_zombie cfg tl id st : no_zombie (tracks tl) = true -> no_zombie (tracks (finish_track cfg tl id st)) = true.
Proof.
  intros H. unfold finish_track. destruct (find_track id (tracks tl)) as [tr2|] eqn:F; [|exact H].
  pose proof (find_track_id _ _ _ F) as Hid.
  destruct (t_finished (track_tick_b cfg tr2 st) && t_rwd (track_tick_b cfg tr2 st)) eqn:Z.
  - rewrite remove_track_tracks. cbn [tracks upd_track set_tracks].
    rewrite <- Hid, <- (tick_b_id cfg tr2 st), del_put. apply nz_del. exact H.
  - cbn [tracks upd_track set_tracks]. apply nz_put; [exact H|exact Z].
Qed.
Lemma end_stream_no_zombie tl id : no_zombie (tracks tl) = true -> no_zombie (tracks (end_stream tl id)) = true.
Proof.
  intros H. unfold end_stream. destruct (find_track id (tracks tl)) as [t|] eqn:F; [|exact H].
  cbn [tracks upd_track set_tracks]. apply nz_put; [exact H|]. exact (nz_find id _ _ H F).
Qed.

Theorem tick_one_no_zombie cfg tl id : no_zombie (tracks tl) = true -> no_zombie (tracks (fst (fst (tick_one cfg tl id)))) = true.
Proof.
  intros H. unfold tick_one. destruct (find_track id (tracks tl)) as [tr|] eqn:F; [|exact H].
  pose proof (zombie_tick_a cfg (now tl) tr (dev_calls tl)) as Z. pose proof (tick_a_id cfg (now tl) tr (dev_calls tl)) as I.
  destruct (track_tick_a cfg (now tl) tr (dev_calls tl)) as [[[tr1 c] n'] res]. cbn [fst] in Z, I.
  rewrite (nz_find id _ _ H F) in Z.
  assert (U : no_zombie (tracks (set_dev (upd_track tl tr1) n')) = true) by (cbn [tracks set_dev upd_track set_tracks]; apply nz_put; assumption).
  destruct res; cbn [fst].
  - unfold zombie in Z. rewrite Z. exact U.
  - apply finish_no_zombie. exact U.
  - apply finish_no_zombie. exact U.
  - destruct (ignore_exc cfg); cbn [fst]; [apply nz_remove|]; exact U.
  - destruct (nth cb (cbs cfg) (CbNone, [])) as [rk ops]. cbn [fst]. apply finish_no_zombie.
    pose proof (cb_ops_no_zombie cfg ops _ U) as C.
    destruct (match rk with CbStop => cb_completes cfg (set_dev (upd_track tl tr1) n') ops | _ => false end); [apply end_stream_no_zombie|]; exact C.
  - exact U.
Qed.

(* between ANY two turns of a tick (phase_tracks over any prefix of the snapshot) the list holds no finished-and-removable track *)
Theorem phase_tracks_no_zombie cfg ids : forall tl c, no_zombie (tracks tl) = true ->
  no_zombie (tracks (fst (fst (phase_tracks cfg tl ids c)))) = true.
Proof.
  induction ids as [|id r IH]; intros tl c H; [exact H|]. cbn [phase_tracks].
  pose proof (tick_one_no_zombie cfg tl id H) as T. destruct (tick_one cfg tl id) as [[tl' c'] ab]. cbn [fst] in T.
  destruct ab; [exact T|]. apply IH. exact T.
Qed.

Lemma phase_noteoffs_no_zombie l : no_zombie l = true -> no_zombie (fst (phase_noteoffs l)) = true.
Proof.
  unfold no_zombie. induction l as [|x r IH]; intros H; [reflexivity|]. cbn [phase_noteoffs forallb] in *. apply andb_true_iff in H as [H1 H2].
  specialize (IH H2). destruct (process_note_offs x) as [x' cx] eqn:P. destruct (phase_noteoffs r) as [r' cr]. cbn [fst forallb] in *.
  unfold process_note_offs in P. inversion P; subst x'. change (zombie (set_offs x _)) with (zombie x). rewrite H1, IH. reflexivity.
Qed.
Lemma fire_no_zombie tl a : no_zombie (tracks tl) = true -> no_zombie (tracks (fst (fire_action tl a))) = true.
Proof.
  intros H. destruct a as [t id s|t n c]; cbn [fire_action]; [|exact H].
  destruct (find_track id (tracks tl)) as [tr|] eqn:F; [|exact H]. cbn [fst tracks upd_track set_tracks]. apply nz_put; [exact H|].
  change (zombie (track_start tr s)) with (zombie tr). exact (nz_find id _ _ H F).
Qed.
Lemma phase_actions_no_zombie todo : forall tl kept calls, no_zombie (tracks tl) = true ->
  no_zombie (tracks (fst (fst (phase_actions tl todo kept calls)))) = true.
Proof.
  induction todo as [|a r IH]; intros tl kept calls H; [exact H|]. cbn [phase_actions]. destruct (a_time a <=? now tl); [|apply IH; exact H].
  pose proof (fire_no_zombie tl a H) as F. destruct (fire_action tl a) as [tl' c]. apply IH. exact F.
Qed.

Theorem tl_tick_no_zombie cfg tl : no_zombie (tracks tl) = true -> no_zombie (tracks (fst (fst (tl_tick cfg tl)))) = true.
Proof.
  intros H. unfold tl_tick. pose proof (phase_noteoffs_no_zombie _ H) as N. destruct (phase_noteoffs (tracks tl)) as [trs1 c1]. cbn [fst] in N.
  pose proof (phase_actions_no_zombie (actions (set_tracks tl trs1)) (set_actions (set_tracks tl trs1) []) [] [] N) as A.
  destruct (phase_actions (set_actions (set_tracks tl trs1) []) (actions (set_tracks tl trs1)) [] []) as [[tl2 kept] c3]. cbn [fst] in A.
  pose proof (phase_tracks_no_zombie cfg (map t_id (tracks (set_actions tl2 (kept ++ actions tl2)))) (set_actions tl2 (kept ++ actions tl2)) [] A) as P.
  destruct (phase_tracks cfg (set_actions tl2 (kept ++ actions tl2)) (map t_id (tracks (set_actions tl2 (kept ++ actions tl2)))) []) as [[tl4 c4] res].
  cbn [fst] in P. destruct res; cbn [fst]; try exact P. destruct (_ && _); exact P.
Qed.

Theorem run_no_zombie cfg ops : forall tl, no_zombie (tracks tl) = true -> no_zombie (tracks (run_state cfg tl ops)) = true.
Proof.
  induction ops as [|o r IH]; intros tl H; [exact H|]. cbn [run_state].
  assert (E : no_zombie (tracks (fst (fst (step cfg tl o)))) = true).
  { destruct o; try (unfold step; match goal with |- context [exec_op ?c ?t ?o] =>
      pose proof (exec_op_no_zombie c t o H) as X; destruct (exec_op c t o) as [tl' r0]; exact X end).
    apply tl_tick_no_zombie. exact H. }
  destruct (step cfg tl o) as [[tl' c] res]. apply IH. exact E.
Qed.

(** * What it means for a schedule call made in the tick in which the named track finishes *)
(* a track that finished in its turn (remove_when_done) is not in the list any more when that turn ends *)
Theorem finished_turn_leaves cfg tl id st tr : NoDup (map t_id (tracks tl)) -> find_track id (tracks tl) = Some tr ->
  zombie (track_tick_b cfg tr st) = true -> find_track id (tracks (finish_track cfg tl id st)) = None.
Proof.
  intros ND F Z. unfold finish_track. rewrite F. unfold zombie in Z. rewrite Z. rewrite remove_track_tracks. cbn [tracks upd_track set_tracks].
  pose proof (find_track_id _ _ _ F) as Hid. rewrite <- Hid at 2. rewrite <- (tick_b_id cfg tr st), del_put, tick_b_id, Hid.
  apply find_del_same. exact ND.
Qed.

(* the track a named re-schedule lands on is never a finished-and-removable one; after the call it is listed, not finished-and-
   removable, and the finishing step of ANOTHER track's turn (the caller's, e.g.) leaves it in the list *)
Theorem named_replace_survives cfg tl s q d count rwd nm tr id' st :
  no_zombie (tracks tl) = true -> find_named nm (tracks tl) = Some tr -> t_id tr <> id' ->
  let tl' := fst (exec_op cfg tl (OSchedule s q d count rwd (Some nm) true)) in
  zombie tr = false
  /\ (exists tr', find_named nm (tracks tl') = Some tr' /\ t_id tr' = t_id tr /\ zombie tr' = false)
  /\ (forall t0, find_track (t_id tr) (tracks tl') = Some t0 -> find_track (t_id tr) (tracks (finish_track cfg tl' id' st)) = Some t0).
Proof.
  intros H F Ne tl'. split; [exact (nz_find_named nm _ _ H F)|]. split.
  - subst tl'. cbn [exec_op]. rewrite F.
    pose proof (track_update_flags cfg tl tr s q d count) as U. pose proof (track_update_sched cfg tl tr s q d count) as V.
    destruct (track_update cfg tl tr s q d count) as [tl1 tr1]. cbn [fst snd tracks set_tracks] in *. destruct U as [U1 U2].
    destruct V as [_ [_ [V3 [V4 _]]]].
    exists (set_muted (set_count tr1 0) false). split; [|split].
    + rewrite U2. apply (find_put_named nm _ _ tr F). cbn. rewrite V4. apply (find_named_name nm _ _ F).
    + exact V3.
    + change (zombie (set_muted (set_count tr1 0) false)) with (zombie tr1). rewrite U1. exact (nz_find_named nm _ _ H F).
  - intros t0 F0. unfold finish_track. destruct (find_track id' (tracks tl')) as [tr2|] eqn:F2; [|exact F0].
    pose proof (find_track_id _ _ _ F2) as Hid.
    assert (P : find_track (t_id tr) (tracks (upd_track tl' (track_tick_b cfg tr2 st))) = Some t0).
    { cbn [tracks upd_track set_tracks]. rewrite find_put_other; [exact F0|]. rewrite tick_b_id, Hid. intros E. apply Ne. symmetry. exact E. }
    destruct (t_finished (track_tick_b cfg tr2 st) && t_rwd (track_tick_b cfg tr2 st)); [|exact P].
    rewrite remove_track_tracks. rewrite find_del_other; [exact P|]. intros E. apply Ne. symmetry. exact E.
Qed.

(** * Scene changes: a callback that removes tracks and schedules as many new ones *)
(* whatever LIST of operations a callback goes on to perform - e.g. schedule exactly as many tracks as it removed, so that the
   length of the track list is back at its value from the start of the tick - a track that is out of the list stays out *)
Lemma cb_ops_gone_stays cfg ops : forall tl, gone_stays tl (exec_cb_ops cfg tl ops).
Proof.
  induction ops as [|o r IH]; intros tl; [apply gs_refl|]. cbn [exec_cb_ops].
  pose proof (exec_op_gs cfg o tl) as E. destruct (exec_op cfg tl o) as [tl1 res]. cbn [fst] in E.
  destruct res; try exact E. apply (gs_trans _ _ _ E). apply IH.
Qed.
Theorem removed_by_callback_takes_no_turn cfg tl id ops : wf tl -> (id < next_id tl)%nat -> find_track id (tracks tl) = None ->
  find_track id (tracks (exec_cb_ops cfg tl ops)) = None
  /\ tick_one cfg (exec_cb_ops cfg tl ops) id = (exec_cb_ops cfg tl ops, [], None).
Proof.
  intros W L F. destruct (cb_ops_gone_stays cfg ops tl W) as [_ [_ G]]. pose proof (G id L F) as N.
  split; [exact N|apply absent_no_turn; exact N].
Qed.
(* the operation that removes it: after unschedule (the track was listed) or clear, the hypothesis above holds *)
Theorem unschedule_then_anything cfg tl id tr ops : wf tl -> find_track id (tracks tl) = Some tr ->
  let tl1 := fst (exec_op cfg tl (OUnschedule id)) in
  find_track id (tracks (exec_cb_ops cfg tl1 ops)) = None
  /\ tick_one cfg (exec_cb_ops cfg tl1 ops) id = (exec_cb_ops cfg tl1 ops, [], None).
Proof.
  intros W F tl1. pose proof (unschedule_spec cfg tl id W) as U. rewrite F in U. destruct U as [U1 [U2 _]].
  assert (E : tl1 = remove_track tl id) by (subst tl1; rewrite U1; reflexivity).
  rewrite E. apply removed_by_callback_takes_no_turn; [apply wf_remove; exact W| |exact U2].
  replace (next_id (remove_track tl id)) with (next_id tl) by (unfold remove_track; destruct (find_track id (tracks tl)); reflexivity).
  apply (scheduled_below tl id tr W F).
Qed.

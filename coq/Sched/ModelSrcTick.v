(* Sched/ModelSrcTick.v — Timeline.tick as translated from the SOURCE TEXT (Generated/TablesTrack.v src_timeline_tick and the
   bodies of its three loops src_timeline_tick_loop1/2/3) against the model's tl_tick (Sched/Model.v).  docs/TRANSLATOR3.md.

   What is read from the source: the order of the phases; the note-off loop; the action loop (copy, due test, call,
   remove); the track loop (snapshot, `track not in self.tracks` skip, try/except around track.tick() with
   ignore_exceptions, removal + release of a failing track, removal of a finished remove_when_done track), the
   stop_when_done test, the advance of the clock.  Trusted glue: Sched/SrcGlue.v obj_tick (what track.tick() does, the
   callback mechanism) and Model.v fire_action (what a stored closure does).

   DIFFERENCE between source and model, found here.  When a finished remove_when_done track leaves in its own turn the
   source only does `self.tracks.remove(track)`; the model's finish_track / tick_one call remove_track, which ALSO hands
   the track's pending note-offs to the timeline (release_actions).  The two agree because such a track has no pending
   note-off: is_finished is only set when len(note_offs) == 0 (track_tick_b), and a track that was finished AND
   remove_when_done before its turn is not in Timeline.tracks (the no_zombie invariant of Sched/TransitProofs.v, which
   holds on every reachable timeline).  Hence the hypothesis no_zombie below; on a timeline that violates it (not
   reachable through the API) the source would drop the pending note-offs of the zombie where the model releases them. *)
From Isobar Require Import Base.Prelude Sched.Model Sched.NoteOffProofs Sched.TimeProofs Sched.TickFrame Sched.LifecycleProofs
  Sched.MergeProofs Sched.ReachProofs Sched.TransitProofs Sched.SrcGlue Generated.TablesTrack Sched.ModelSrc.
Local Open Scope Z_scope.

(** * Phase 1: `for track in self.tracks[:]: track.process_note_offs()` *)
Lemma src_loop1_is cfg : forall l st calls,
  fold_left (src_timeline_tick_loop1 cfg) l (st, calls) = (st ++ fst (phase_noteoffs l), calls ++ snd (phase_noteoffs l)).
Proof.
  induction l as [|t r IH]; intros st calls; cbn [fold_left phase_noteoffs].
  - cbn [fst snd]. rewrite !app_nil_r. reflexivity.
  - unfold src_timeline_tick_loop1 at 2. rewrite src_track_process_note_offs_is.
    destruct (process_note_offs t) as [t' c]. rewrite IH. destruct (phase_noteoffs r) as [r' cs]. cbn [fst snd].
    rewrite <- !app_assoc. reflexivity.
Qed.

(** * Phase 3: the due actions.  source: loop over a copy, remove each fired action from self.actions;
     model: self.actions emptied, the kept ones collected, requests made while firing appended behind them *)
Lemma fire_set_actions tl a l :
  fire_action (set_actions tl l) a = (set_actions (fst (fire_action tl a)) l, snd (fire_action tl a)).
Proof.
  destruct a as [t id s|t n c]; cbn [fire_action]; [|reflexivity].
  cbn [tracks set_actions]. destruct (find_track id (tracks tl)); reflexivity.
Qed.
Lemma fire_actions_now tl a : actions (fst (fire_action tl a)) = actions tl /\ now (fst (fire_action tl a)) = now tl.
Proof. destruct a as [t id s|t n c]; cbn [fire_action]; [destruct (find_track id (tracks tl))|]; split; reflexivity. Qed.

Lemma not_due_not_in nw (a : action) kept :
  (a_time a <=? nw) = true -> Forall (fun x => (a_time x <=? nw) = false) kept -> ~ In a kept.
Proof. intros D F I. rewrite Forall_forall in F. specialize (F a I). congruence. Qed.

Lemma src_loop2_is cfg : forall todo kept tl calls, Forall (fun x => (a_time x <=? now tl) = false) kept ->
  fold_left (src_timeline_tick_loop2 cfg) todo (set_actions tl (kept ++ todo ++ actions tl), calls)
  = let '(tl2, kept2, c2) := phase_actions tl todo kept calls in (set_actions tl2 (kept2 ++ actions tl2), c2).
Proof.
  induction todo as [|a todo IH]; intros kept tl calls K; cbn [fold_left phase_actions]; [reflexivity|].
  unfold src_timeline_tick_loop2 at 2. cbn [now set_actions].
  destruct (a_time a <=? now tl) eqn:D.
  - rewrite fire_set_actions. destruct (fire_actions_now tl a) as [FA FN].
    destruct (fire_action tl a) as [tl' c]. cbn [fst snd] in *. cbn [actions set_actions].
    change ((a :: todo) ++ actions tl) with (a :: (todo ++ actions tl)).
    rewrite (remove_first_skip action_dec kept a (todo ++ actions tl) (not_due_not_in _ _ _ D K)).
    rewrite <- FA. specialize (IH kept tl' (calls ++ c)). rewrite FN in IH.
    replace (w_actions (set_actions tl' (kept ++ a :: todo ++ actions tl')) (kept ++ todo ++ actions tl'))
      with (set_actions tl' (kept ++ todo ++ actions tl')) by reflexivity.
    apply IH. exact K.
  - specialize (IH (kept ++ [a]) tl calls). rewrite <- app_assoc in IH. apply IH.
    apply Forall_app. split; [exact K|constructor; [exact D|constructor]].
Qed.

(** * Phase 4: one track's turn *)
Lemma cb_ops_wf cfg ops : forall tl, wf tl -> wf (exec_cb_ops cfg tl ops).
Proof.
  induction ops as [|o r IH]; intros tl W; cbn [exec_cb_ops]; [exact W|].
  pose proof (exec_op_wf cfg tl o W) as E. destruct (exec_op cfg tl o) as [tl' res]. cbn [fst] in E.
  destruct res; try exact E. apply IH. exact E.
Qed.
Lemma end_stream_wf tl id : wf tl -> wf (end_stream tl id).
Proof. intros W. unfold end_stream. destruct (find_track id (tracks tl)); [apply wf_upd|]; exact W. Qed.

(* a track that becomes finished-and-to-be-removed in track_tick_b has no pending note-off *)
Lemma tick_b_zombie_offs cfg tr st : zombie tr = false -> zombie (track_tick_b cfg tr st) = true -> t_offs (track_tick_b cfg tr st) = [].
Proof.
  unfold zombie, track_tick_b. intros Z H. destruct st; cbn [andb] in *.
  - destruct (t_offs tr) eqn:O; cbn in *; [rewrite O; reflexivity|congruence].
  - cbn in H. congruence.
Qed.

(* the end of a turn as the source has it (`if track.is_finished and track.remove_when_done and track in self.tracks:
   self.tracks.remove(track)`) is the model's finish_track *)
Lemma finish_src cfg tl id st tr2 : find_track id (tracks tl) = Some tr2 -> zombie tr2 = false ->
  let tr3 := track_tick_b cfg tr2 st in
  let tl3 := upd_track tl tr3 in
  (if t_finished tr3 && t_rwd tr3 && track_in tr3 (tracks tl3) then w_tracks tl3 (tracks_remove tr3 (tracks tl3)) else tl3)
  = finish_track cfg tl id st.
Proof.
  intros F Z tr3 tl3. unfold finish_track. rewrite F. fold tr3. fold tl3.
  pose proof (find_track_id _ _ _ F) as I. pose proof (tick_b_id cfg tr2 st) as I3. fold tr3 in I3.
  assert (F3 : find_track (t_id tr3) (tracks tl3) = Some tr3).
  { subst tl3. cbn [tracks upd_track set_tracks]. apply find_put_same with (tr := tr2). rewrite I3, I. exact F. }
  unfold track_in. rewrite F3, andb_true_r.
  destruct (t_finished tr3 && t_rwd tr3) eqn:Z3; [|reflexivity].
  unfold remove_track. assert (E : id = t_id tr3) by congruence. rewrite E, F3.
  unfold release_actions. replace (t_offs tr3) with (@nil noteoff) by (symmetry; apply (tick_b_zombie_offs cfg tr2 st Z Z3)). cbn [map]. rewrite app_nil_r.
  unfold tracks_remove. destruct tl3; reflexivity.
Qed.

Definition turn_result (x : timeline * list call * option opres) (calls : list call) : timeline * list call * opres :=
  let '(tl', c, ab) := x in (tl', calls ++ c, match ab with None => ROk | Some r => r end).

Theorem src_loop3_is cfg tl calls x : wf tl -> no_zombie (tracks tl) = true ->
  src_timeline_tick_loop3 cfg (tl, calls, ROk) x = turn_result (tick_one cfg tl (t_id x)) calls.
Proof.
  intros W NZ. unfold src_timeline_tick_loop3, tick_one, turn_result.
  destruct (find_track (t_id x) (tracks tl)) as [tr|] eqn:F; [|rewrite app_nil_r; reflexivity].
  pose proof (find_track_id _ _ _ F) as I. unfold obj_tick. rewrite I.
  pose proof (zombie_tick_a cfg (now tl) tr (dev_calls tl)) as Z. pose proof (tick_a_id cfg (now tl) tr (dev_calls tl)) as I1.
  destruct (track_tick_a cfg (now tl) tr (dev_calls tl)) as [[[tr1 c] n'] res]. cbn [fst] in Z, I1.
  rewrite (nz_find _ _ _ NZ F) in Z. rewrite I in I1.
  set (tl1 := set_dev (upd_track tl tr1) n').
  assert (F1 : find_track (t_id x) (tracks tl1) = Some tr1).
  { subst tl1. cbn [tracks set_dev upd_track set_tracks]. rewrite <- I1. apply find_put_same with (tr := tr). rewrite I1. exact F. }
  assert (W1 : wf tl1) by (subst tl1; apply wf_same with (tl := upd_track tl tr1); [reflexivity|cbn; lia|apply wf_upd; exact W]).
  assert (NZ1 : no_zombie (tracks tl1) = true) by (subst tl1; cbn [tracks set_dev upd_track set_tracks]; apply nz_put; assumption).
  destruct res.
  - (* not started *)
    unfold zombie in Z. rewrite Z. reflexivity.
  - (* normal *)
    rewrite F1. rewrite <- (finish_src cfg tl1 (t_id x) false tr1 F1 Z). cbv zeta. destruct (_ && _ && _); reflexivity.
  - (* StopIteration *)
    rewrite F1. rewrite <- (finish_src cfg tl1 (t_id x) true tr1 F1 Z). cbv zeta. destruct (_ && _ && _); reflexivity.
  - (* an exception *)
    destruct (ignore_exc cfg); [|reflexivity].
    unfold track_in at 1. rewrite I1, F1. rewrite src_timeline_release_pending_notes_is.
    unfold track_in, tracks_remove. cbn [t_id set_offs tracks set_actions w_tracks t_finished t_rwd].
    rewrite I1, (find_del_same (t_id x) (tracks tl1) (proj1 W1)), andb_false_r.
    unfold remove_track. rewrite F1. reflexivity.
  - (* a callback *)
    destruct (nth cb (cbs cfg) (CbNone, [])) as [rk ops].
    set (stop := match rk with CbStop => cb_completes cfg tl1 ops | _ => false end).
    set (tl2 := if stop then end_stream (exec_cb_ops cfg tl1 ops) (t_id x) else exec_cb_ops cfg tl1 ops).
    assert (NZ2 : no_zombie (tracks tl2) = true).
    { subst tl2. pose proof (cb_ops_no_zombie cfg ops _ NZ1). destruct stop; [apply end_stream_no_zombie|]; assumption. }
    destruct (find_track (t_id x) (tracks tl2)) as [tr2|] eqn:F2.
    + rewrite <- (finish_src cfg tl2 (t_id x) stop tr2 F2 (nz_find _ _ _ NZ2 F2)). cbv zeta. destruct (_ && _ && _); reflexivity.
    + unfold finish_track. rewrite F2. unfold track_in. rewrite tick_b_id, I1, F2, andb_false_r. reflexivity.
  - reflexivity.
Qed.

Lemma tick_one_abort cfg tl id tl' c r : tick_one cfg tl id = (tl', c, Some r) -> r <> ROk.
Proof.
  unfold tick_one. destruct (find_track id (tracks tl)); [|discriminate].
  destruct (track_tick_a cfg (now tl) t (dev_calls tl)) as [[[tr1 c1] n'] res].
  destruct res; try discriminate.
  - destruct (ignore_exc cfg); [discriminate|]. intros E; inversion E; discriminate.
  - destruct (nth cb (cbs cfg) (CbNone, [])); discriminate.
  - intros E; inversion E; discriminate.
Qed.

Lemma src_loop3_aborted cfg : forall l tl calls r, r <> ROk -> fold_left (src_timeline_tick_loop3 cfg) l (tl, calls, r) = (tl, calls, r).
Proof. induction l as [|x l IH]; intros tl calls r H; cbn [fold_left]; [reflexivity|]. rewrite <- (IH tl calls r H) at 2. destruct r; try reflexivity. congruence. Qed.

Lemma tick_one_wf cfg tl id : wf tl -> wf (fst (fst (tick_one cfg tl id))).
Proof.
  intros W. pose proof (phase_tracks_wf cfg [id] tl [] W) as P. cbn [phase_tracks] in P.
  destruct (tick_one cfg tl id) as [[tl' c] [r|]]; exact P.
Qed.

Theorem src_phase_tracks_is cfg : forall l tl calls, wf tl -> no_zombie (tracks tl) = true ->
  fold_left (src_timeline_tick_loop3 cfg) l (tl, calls, ROk) = phase_tracks cfg tl (map t_id l) calls.
Proof.
  induction l as [|x l IH]; intros tl calls W NZ; cbn [fold_left map phase_tracks]; [reflexivity|].
  rewrite (src_loop3_is cfg tl calls x W NZ). unfold turn_result.
  pose proof (tick_one_wf cfg tl (t_id x) W) as W'. pose proof (tick_one_no_zombie cfg tl (t_id x) NZ) as NZ'.
  destruct (tick_one cfg tl (t_id x)) as [[tl' c] [r|]] eqn:T; cbn [fst] in W', NZ'.
  - apply src_loop3_aborted. eapply tick_one_abort. exact T.
  - apply IH; assumption.
Qed.

(** * Timeline.tick *)
Lemma both_empty (a : list track) (b : list action) :
  ((Z.of_nat (length a) =? 0) && (Z.of_nat (length b) =? 0)) = match a, b with [], [] => true | _, _ => false end.
Proof. destruct a, b; reflexivity. Qed.

(* the source threads ONE list of calls through the phases; the model concatenates the lists of the phases *)
Lemma phase_actions_prefix : forall todo tl kept calls pre,
  phase_actions tl todo kept (pre ++ calls) = let '(a, b, c) := phase_actions tl todo kept calls in (a, b, pre ++ c).
Proof.
  induction todo as [|x r IH]; intros tl kept calls pre; cbn [phase_actions]; [reflexivity|].
  destruct (a_time x <=? now tl); [|apply IH]. destruct (fire_action tl x) as [tl' c]. rewrite <- app_assoc. apply IH.
Qed.
Lemma phase_tracks_prefix cfg : forall ids tl calls pre,
  phase_tracks cfg tl ids (pre ++ calls) = let '(a, c, r) := phase_tracks cfg tl ids calls in (a, pre ++ c, r).
Proof.
  induction ids as [|id r IH]; intros tl calls pre; cbn [phase_tracks]; [reflexivity|].
  destruct (tick_one cfg tl id) as [[tl' c] [res|]]; rewrite <- app_assoc; [reflexivity|apply IH].
Qed.

Theorem src_timeline_tick_is cfg tl : wf tl -> no_zombie (tracks tl) = true -> src_timeline_tick cfg tl = tl_tick cfg tl.
Proof.
  intros W NZ. unfold src_timeline_tick, tl_tick.
  pose proof (tick_pre_wf tl W) as W3. unfold tick_pre in W3.
  pose proof (phase_noteoffs_no_zombie _ NZ) as N1.
  rewrite (src_loop1_is cfg). destruct (phase_noteoffs (tracks tl)) as [trs1 c1]. cbn [fst snd app] in *.
  change (w_tracks tl trs1) with (set_tracks tl trs1).
  set (tl1 := set_tracks tl trs1) in *.
  assert (N1' : no_zombie (tracks (set_actions tl1 [])) = true) by exact N1.
  pose proof (phase_actions_no_zombie (actions tl1) (set_actions tl1 []) [] [] N1') as N2.
  pose proof (src_loop2_is cfg (actions tl1) [] (set_actions tl1 []) c1 ltac:(constructor)) as L2.
  cbn [app actions set_actions] in L2. rewrite app_nil_r in L2.
  replace (set_actions (set_actions tl1 []) (actions tl1)) with tl1 in L2 by (destruct tl1; reflexivity).
  rewrite L2. clear L2.
  rewrite <- (app_nil_r c1) at 1. rewrite phase_actions_prefix.
  destruct (phase_actions (set_actions tl1 []) (actions tl1) [] []) as [[tl2 kept] c3]. cbn [fst] in N2.
  set (tl3 := set_actions tl2 (kept ++ actions tl2)) in *.
  rewrite (src_phase_tracks_is cfg (tracks tl3) tl3 (c1 ++ c3) W3 N2).
  rewrite <- (app_nil_r (c1 ++ c3)) at 1. rewrite phase_tracks_prefix.
  destruct (phase_tracks cfg tl3 (map t_id (tracks tl3)) []) as [[tl4 c4] res].
  rewrite <- app_assoc.
  destruct res; try reflexivity.
  rewrite both_empty. destruct (_ && stop_when_done cfg); reflexivity.
Qed.

Print Assumptions src_loop3_is.
Print Assumptions src_timeline_tick_is.

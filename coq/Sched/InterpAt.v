(* Sched/InterpAt.v — the closed form of Sched/InterpProofs.v ([spec]) READ AT ONE TICK: [spec_at events k] is the k-th
   outcome of the track, computed by walking over the control points and subtracting segment lengths, without building the
   list.  For segments longer than any internal limit of the library (Pattern.LENGTH_MAX ticks and more) the list form is
   of no use to a check (67 200 exact rationals), the pointwise form is: the value on tick k costs one pass over the points.
   [spec_at_nth]: it IS the k-th element of [spec], for every stream and every k; hence (C15_trace) the k-th outcome of the
   track machine.  No bound on the segment lengths anywhere. *)
From Isobar Require Import Base.Prelude Sched.Interp Sched.InterpProofs.
From Coq Require Import QArith String.
Local Notation length := List.length (only parsing).
Local Open Scope Z_scope.

Section At.
Variable cospi : Q -> Q.
Variable tpb : Z.
Variable mode : imode.

Notation dsteps e := (dur_steps tpb (e_dur e)).

(* the k-th element (k >= 0) of [spec_open first cur rest] *)
Fixpoint at_open (first : bool) (cur : event) (rest : list event) (k : Z) : outcome :=
  match rest with
  | [] => ONone
  | nxt :: rest' =>
      if dsteps cur <=? 0 then at_open first nxt rest' k
      else if negb (e_ctl cur && e_ctl nxt) then (if k =? 0 then OInvalid else ONone)
      else match build_fields (e_fields cur) (e_fields nxt) with
           | None => if k =? 0 then OErr else ONone
           | Some _ =>
               let k' := if first then k - 1 else k in
               if first && (k =? 0) then emit raw_val cur nxt
               else if k' <? dsteps cur
                    then emit (fun a b => step_value cospi mode a b (dsteps cur) (Z.to_nat k')) cur nxt
                    else at_open false nxt rest' (k' - dsteps cur)
           end
  end.

Definition spec_at (events : list event) (k : Z) : outcome :=
  match events with [] => ONone | e :: r => at_open true e r k end.

(* number of ticks from the first point to the last one *)
Definition span (events : list event) : Z :=
  fold_right (fun e acc => Z.max 0 (dsteps e) + acc) 0 (removelast events).

Lemma nth_single (x : outcome) k : 0 <= k -> nth (Z.to_nat k) [x] ONone = if k =? 0 then x else ONone.
Proof.
  intros Hk. destruct (k =? 0) eqn:E.
  - assert (k = 0) by lia. subst. reflexivity.
  - destruct (Z.to_nat k) as [|n] eqn:N; [lia|]. destruct n; reflexivity.
Qed.

Lemma at_open_nth : forall rest first cur k, 0 <= k ->
  nth (Z.to_nat k) (spec_open cospi tpb mode first cur rest) ONone = at_open first cur rest k.
Proof.
  induction rest as [|nxt rest IH]; intros first cur k Hk; cbn [spec_open at_open].
  - destruct (Z.to_nat k); reflexivity.
  - destruct (dsteps cur <=? 0) eqn:Ed; [apply IH; exact Hk|].
    destruct (negb (e_ctl cur && e_ctl nxt)); [apply nth_single; exact Hk|].
    destruct (build_fields (e_fields cur) (e_fields nxt)); [|apply nth_single; exact Hk].
    assert (HD : 0 < dsteps cur) by lia.
    destruct first; cbn [andb app].
    + destruct (k =? 0) eqn:E0.
      * assert (k = 0) by lia. subst. reflexivity.
      * replace (Z.to_nat k) with (S (Z.to_nat (k - 1))) by lia. cbn [nth].
        destruct (k - 1 <? dsteps cur) eqn:El.
        -- rewrite app_nth1 by (rewrite seg_outs_length; lia). apply seg_outs_nth. lia.
        -- rewrite app_nth2 by (rewrite seg_outs_length; lia). rewrite seg_outs_length.
           replace (Z.to_nat (k - 1) - Z.to_nat (dsteps cur))%nat with (Z.to_nat (k - 1 - dsteps cur)) by lia.
           apply IH. lia.
    + destruct (k <? dsteps cur) eqn:El.
      * rewrite app_nth1 by (rewrite seg_outs_length; lia). apply seg_outs_nth. lia.
      * rewrite app_nth2 by (rewrite seg_outs_length; lia). rewrite seg_outs_length.
        replace (Z.to_nat k - Z.to_nat (dsteps cur))%nat with (Z.to_nat (k - dsteps cur)) by lia.
        apply IH. lia.
Qed.

Lemma spec_at_nth events k : 0 <= k -> nth (Z.to_nat k) (spec cospi tpb mode events) ONone = spec_at events k.
Proof.
  intros Hk. destruct events as [|e r]; cbn [spec spec_at]; [destruct (Z.to_nat k); reflexivity | apply at_open_nth; exact Hk].
Qed.

End At.

(* Sched/Event.v — executable model of isobar/timelines/event.py (EventDefaults, Event.__init__) and of
   Track.perform_event / the part of Track.tick + Timeline.tick that turns one track's event dictionaries into
   device calls (isobar/timelines/track.py), over a small type of Python values.

   No proofs here.  Every definition names the Python lines it mirrors.  The parameter names (K_xxx), the event
   type names (T_xxx), ALL_EVENT_PARAMETERS and the library defaults come from Generated/TablesC03.v, which is
   regenerated from the sources under test on every run.

   Outcomes: [Ok v] normal result, [Raise cls] a Python exception of class [cls] escapes,
   [Unmodelled] the model does not vouch for this input (strings converted by int(), objects iterated through
   __getitem__, ...): such cases are discarded by the harness and excluded by hypothesis in the theorems. *)
From Isobar Require Import Base.Prelude Tonal.Key Generated.Tables Generated.TablesC03.
From Coq Require Import String Ascii QArith.
Local Open Scope Z_scope.
Local Notation length := List.length (only parsing).

(** * Python values *)
Inductive val :=
| VNone
| VBool (b : bool)
| VInt (z : Z)
| VFlt (q : Q)                         (* a float whose value is the rational q (harness: small dyadic rationals only) *)
| VStr (s : string)
| VTup (l : list val)
| VList (l : list val)
| VDict (kv : list (string * val))     (* insertion-ordered, keys are strings *)
| VKey (k : key)                       (* an isobar.Key with an int tonic *)
| VObj (kind : string) (id : Z) (ps : list string)
     (* opaque object; kind "fun": a callable whose signature has the parameter names ps; "class": a class
        (patch spec); "patch_trigger"/"patch_set": patch objects with / without trigger_node; "scale"; "obj" *)
| VPat (vs : list val).                (* a Pattern whose next values are vs (finite); [] = exhausted *)

Definition dict := list (string * val).

Inductive outcome (A : Type) := Ok (a : A) | Raise (cls : string) | Unmodelled.
Arguments Ok {A} a. Arguments Raise {A} cls. Arguments Unmodelled {A}.

Definition bind {A B} (o : outcome A) (f : A -> outcome B) : outcome B :=
  match o with Ok a => f a | Raise c => Raise c | Unmodelled => Unmodelled end.
Notation "'do' x <- o ; f" := (bind o (fun x => f)) (at level 200, x name, o at level 100, f at level 200).

Definition TypeError : string := "TypeError".
Definition ValueError : string := "ValueError".
Definition KeyError : string := "KeyError".
Definition IndexError : string := "IndexError".
Definition AttributeError : string := "AttributeError".
Definition StopIteration : string := "StopIteration".
Definition InvalidEventException : string := "InvalidEventException".
Definition UnknownNoteName : string := "UnknownNoteName".
Definition UnknownScaleName : string := "UnknownScaleName".
Definition ZeroDivisionError : string := "ZeroDivisionError".
Definition UnboundLocalError : string := "UnboundLocalError".

(** structural equality with type tags ([1], [1.0], [True] are different observations); floats by value *)
Definition scale_eqb (a b : scale) : bool := list_eqb Z.eqb (semis a) (semis b) && (osize a =? osize b).
Definition key_eqb (a b : key) : bool := (tonic a =? tonic b) && scale_eqb (kscale a) (kscale b).

Fixpoint val_eqb (a b : val) : bool :=
  match a, b with
  | VNone, VNone => true
  | VBool x, VBool y => Bool.eqb x y
  | VInt x, VInt y => x =? y
  | VFlt x, VFlt y => Qeq_bool x y
  | VStr x, VStr y => String.eqb x y
  | VTup x, VTup y | VList x, VList y | VPat x, VPat y =>
      (fix go (x y : list val) : bool :=
         match x, y with
         | [], [] => true
         | a :: r, b :: s => val_eqb a b && go r s
         | _, _ => false
         end) x y
  | VDict x, VDict y =>
      (fix go (x y : list (string * val)) : bool :=
         match x, y with
         | [], [] => true
         | (k, a) :: r, (k', b) :: s => String.eqb k k' && val_eqb a b && go r s
         | _, _ => false
         end) x y
  | VKey k, VKey k' => key_eqb k k'
  | VObj k i _, VObj k' i' _ => String.eqb k k' && (i =? i')
  | _, _ => false
  end.

(** * dict operations (Python dict with string keys; insertion order kept) *)
Fixpoint dget (d : dict) (k : string) : option val :=
  match d with
  | [] => None
  | (k', v) :: r => if String.eqb k k' then Some v else dget r k
  end.
Definition dhas (d : dict) (k : string) : bool := match dget d k with Some _ => true | None => false end.
(* d[k] = v *)
Fixpoint dset (d : dict) (k : string) (v : val) : dict :=
  match d with
  | [] => [(k, v)]
  | (k', v') :: r => if String.eqb k k' then (k', v) :: r else (k', v') :: dset r k v
  end.
(* d.setdefault(k, v) *)
Definition dsetdefault (d : dict) (k : string) (v : val) : dict := if dhas d k then d else d ++ [(k, v)].
(* d[k] where a missing key raises KeyError *)
Definition dreq (d : dict) (k : string) : outcome val :=
  match dget d k with Some v => Ok v | None => Raise KeyError end.

Definition raw_val (r : raw) : val :=
  match r with
  | RNone => VNone | RBool b => VBool b | RInt z => VInt z | RFlt n d => VFlt (n # d)
  | RKey t s o => VKey (mkKey t (mkScale s o))
  end.
(* the attributes of a fresh EventDefaults() *)
Definition lib_defaults : dict := map (fun kv => (fst kv, raw_val (snd kv))) library_defaults.

(** * Pattern.value (pattern/core.py): a Pattern yields (recursively) its next value, a tuple is resolved
      element-wise, anything else is returned unchanged.  An exhausted pattern raises StopIteration. *)
Fixpoint pvalue (v : val) : outcome val :=
  match v with
  | VPat [] => Raise StopIteration
  | VPat (x :: _) => pvalue x
  | VTup l =>
      do l' <- (fix go (l : list val) : outcome (list val) :=
                  match l with
                  | [] => Ok []
                  | x :: r => do x' <- pvalue x; do r' <- go r; Ok (x' :: r')
                  end) l;
      Ok (VTup l')
  | _ => Ok v
  end.

(** * Python builtins on values *)
(* int(v): truncation toward zero for floats; None/containers raise TypeError; strings and objects are not modelled *)
Definition py_int (v : val) : outcome Z :=
  match v with
  | VInt z => Ok z
  | VBool b => Ok (if b then 1 else 0)
  | VFlt q => Ok (Z.quot (Qnum q) (Zpos (Qden q)))
  | VNone | VTup _ | VList _ | VDict _ => Raise TypeError
  | VStr _ | VKey _ | VObj _ _ _ | VPat _ => Unmodelled
  end.
(* float(v) *)
Definition py_float (v : val) : outcome Q :=
  match v with
  | VInt z => Ok (inject_Z z)
  | VBool b => Ok (if b then 1%Q else 0%Q)
  | VFlt q => Ok q
  | VNone | VTup _ | VList _ | VDict _ | VKey _ => Raise TypeError
  | VStr _ | VObj _ _ _ | VPat _ => Unmodelled
  end.
(* bool(v) / truthiness *)
Definition truthy (v : val) : outcome bool :=
  match v with
  | VNone => Ok false
  | VBool b => Ok b
  | VInt z => Ok (negb (z =? 0))
  | VFlt q => Ok (negb (Qeq_bool q 0))
  | VStr s => Ok (negb (String.eqb s ""))
  | VTup l | VList l => Ok (match l with [] => false | _ => true end)
  | VDict l => Ok (match l with [] => false | _ => true end)
  | VKey _ => Ok true
  | VObj _ _ _ => Ok true
  | VPat _ => Unmodelled                       (* Pattern.__len__ consumes the pattern *)
  end.
(* v > 0 *)
Definition py_gt0 (v : val) : outcome bool :=
  match v with
  | VInt z => Ok (0 <? z)
  | VBool b => Ok b
  | VFlt q => Ok (negb (Qle_bool q 0))
  | VNone | VStr _ | VTup _ | VList _ | VDict _ | VKey _ => Raise TypeError
  | VObj _ _ _ | VPat _ => Unmodelled
  end.
Definition is_int (v : val) : option Z :=
  match v with VInt z => Some z | VBool b => Some (if b then 1 else 0) | _ => None end.
(* a * b on numbers (int * int is an int, anything with a float is a float) *)
Definition py_mul (a b : val) : outcome val :=
  match is_int a, is_int b with
  | Some x, Some y => Ok (VInt (x * y))
  | _, _ =>
    match a, b with
    | (VInt _ | VBool _ | VFlt _), (VInt _ | VBool _ | VFlt _) =>
        do x <- py_float a; do y <- py_float b; Ok (VFlt (Qred (x * y)))
    | (VStr _ | VTup _ | VList _), (VInt _ | VBool _) | (VInt _ | VBool _), (VStr _ | VTup _ | VList _) => Unmodelled
    | (VObj _ _ _ | VPat _), _ | _, (VObj _ _ _ | VPat _) => Unmodelled
    | _, _ => Raise TypeError
    end
  end.
(* v + z for an int z (the scalar branch "note += int(octave) * 12 + int(transpose)") *)
Definition py_add_int (v : val) (z : Z) : outcome val :=
  match v with
  | VInt x => Ok (VInt (x + z))
  | VBool b => Ok (VInt ((if b then 1 else 0) + z))
  | VFlt q => Ok (VFlt (Qred (q + inject_Z z)))
  | _ => Raise TypeError
  end.

Fixpoint all_ok {A} (l : list (outcome A)) : outcome (list A) :=
  match l with
  | [] => Ok []
  | o :: r => do a <- o; do r' <- all_ok r; Ok (a :: r')
  end.
Definition is_unmodelled {A} (o : outcome A) : bool := match o with Unmodelled => true | _ => false end.
Definition is_raise {A} (o : outcome A) : bool := match o with Raise _ => true | _ => false end.

(** * Key(name) (isobar/key.py Key.__init__ with a str tonic; scale defaults to Scale.major) *)
Fixpoint count_spaces (cs : list ascii) : nat :=
  match cs with [] => O | c :: r => ((if Ascii.eqb c " " then 1 else 0) + count_spaces r)%nat end.
Fixpoint split_space (cs : list ascii) (acc : list ascii) : list ascii * list ascii :=
  match cs with
  | [] => (rev acc, [])
  | c :: r => if Ascii.eqb c " " then (rev acc, r) else split_space r (c :: acc)
  end.
(* util.note_name_to_midi_note with the exception classes it raises: name[-1] / name[-2] on too short a string
   raise IndexError, an unknown name raises UnknownNoteName *)
Definition note_of_name (name : string) : outcome Z :=
  match note_name_to_midi_note note_names name with
  | Some n => Ok n
  | None =>
      match list_ascii_of_string name with
      | [] => Raise IndexError
      | [c] => if is_digit c then Raise IndexError else Raise UnknownNoteName
      | _ => Raise UnknownNoteName
      end
  end.
Definition scale_byname (name : string) : outcome scale :=
  match find (fun ns => String.eqb (fst ns) name) builtin_scales with
  | Some (_, s) => Ok s
  | None => Raise UnknownScaleName
  end.
Definition key_of_name (name : string) : outcome key :=
  let cs := list_ascii_of_string name in
  match count_spaces cs with
  | O => do t <- note_of_name name; do s <- scale_byname "major"; Ok (mkKey t s)
  | S O => let '(a, b) := split_space cs [] in
           do t <- note_of_name (string_of_list_ascii a);
           do s <- scale_byname (string_of_list_ascii b);
           Ok (mkKey t s)
  | _ => Raise ValueError                       (* tonic_str, scale_str = tuple(tonic.split(" ")) *)
  end.

(* key[n] = Key.get(n) = Scale.get(n) + tonic; an empty scale divides by zero *)
Definition key_get_chk (k : key) (n : Z) : outcome Z :=
  if slen (kscale k) =? 0 then Raise ZeroDivisionError else Ok (key_get k n).

(** * Event.__init__ *)

(* "for key in event_values.keys(): if key not in ALL_EVENT_PARAMETERS: raise ValueError" *)
Definition known_param (k : string) : bool := existsb (String.eqb k) all_event_parameters.
Definition validate (d : dict) : outcome dict :=
  if forallb (fun kv => known_param (fst kv)) d then Ok d else Raise ValueError.

(* legacy keys dur / amp, then the synonym velocity, overwrite duration / amplitude *)
Definition fold_one (d : dict) (from to : string) : dict :=
  match dget d from with Some v => dset d to v | None => d end.
Definition fold_synonyms (d : dict) : dict :=
  fold_one (fold_one (fold_one d K_DURATION_LEGACY K_DURATION) K_AMPLITUDE_LEGACY K_AMPLITUDE) K_VELOCITY K_AMPLITUDE.

(* "for key, value in defaults.__dict__.items(): event_values.setdefault(key, Pattern.value(value))":
   every default is evaluated, whether it is used or not *)
Fixpoint apply_defaults (defs : dict) (d : dict) : outcome dict :=
  match defs with
  | [] => Ok d
  | (k, v) :: r => do v' <- pvalue v; apply_defaults r (dsetdefault d k v')
  end.

Definition check_note_degree (d : dict) : outcome dict :=
  if dhas d K_NOTE && dhas d K_DEGREE then Raise InvalidEventException else Ok d.

(* "try: degree = [int(degree) for degree in degree]  except: degree = int(degree)" *)
Inductive degs := DList (l : list Z) | DScalar (z : Z).
Definition int_degrees (v : val) : outcome degs :=
  match v with
  | VTup l | VList l =>
      let os := map py_int l in
      if existsb is_unmodelled os then Unmodelled
      else match all_ok os with
           | Ok zs => Ok (DList zs)
           | _ => Raise TypeError                 (* bare except, then int(<tuple>) raises TypeError *)
           end
  | VStr _ | VDict _ | VKey _ | VObj _ _ _ | VPat _ => Unmodelled   (* iterable through __iter__/__getitem__ *)
  | _ => do z <- py_int v; Ok (DScalar z)
  end.

(* "key = event_values[EVENT_KEY]; if isinstance(key, str): key = Key(key)";
   "try: note = [key[n] for n in degree]  except TypeError: note = key[degree]" *)
Definition degree_notes (kv : val) (dg : degs) : outcome val :=
  match kv with
  | VStr _ | VKey _ =>
      do k <- match kv with VStr s => key_of_name s | VKey k => Ok k | _ => Unmodelled end;
      match dg with
      | DList zs => do ns <- all_ok (map (key_get_chk k) zs); Ok (VList (map VInt ns))
      | DScalar z => do n <- key_get_chk k z; Ok (VInt n)
      end
  | VNone | VBool _ | VInt _ | VFlt _ =>            (* not subscriptable: TypeError twice *)
      match dg with DList [] => Ok (VList []) | _ => Raise TypeError end
  | _ => Unmodelled                                 (* lists, dicts, scales... can be subscripted *)
  end.

Definition degree_to_note (d : dict) : outcome dict :=
  match dget d K_DEGREE with
  | None => Ok d
  | Some VNone => Ok (dset d K_NOTE VNone)
  | Some dv =>
      do dg <- int_degrees dv;
      do kv <- dreq d K_KEY;
      do n <- degree_notes kv dg;
      Ok (dset d K_NOTE n)
  end.

(* rest handling and "+ int(octave) * 12 + int(transpose)" on a list (each element through int()) or a scalar *)
Definition transpose_note (d : dict) : outcome dict :=
  match dget d K_NOTE with
  | None => Ok d
  | Some VNone => Ok (dset (dset (dset d K_NOTE (VInt 0)) K_AMPLITUDE (VInt 0)) K_GATE (VInt 0))
  | Some (VTup [] | VList []) => Ok (dset d K_NOTE (VList []))      (* octave / transpose never evaluated *)
  | Some ((VTup l | VList l) as nv) =>
      do ov <- dreq d K_OCTAVE; do tv <- dreq d K_TRANSPOSE;
      let os := map py_int l in
      let oo := py_int ov in let ot := py_int tv in
      if existsb is_unmodelled os || is_unmodelled oo || is_unmodelled ot then Unmodelled
      else match all_ok os, oo, ot with
           | Ok zs, Ok o, Ok t => Ok (dset d K_NOTE (VList (map (fun z => VInt (z + o * 12 + t)) zs)))
           | _, _, _ => Raise TypeError             (* TypeError in the comprehension, then again in "+=" *)
           end
  | Some ((VStr _ | VDict _ | VKey _ | VObj _ _ _ | VPat _)) => Unmodelled   (* iterable *)
  | Some nv =>
      do ov <- dreq d K_OCTAVE; do tv <- dreq d K_TRANSPOSE;
      do o <- py_int ov; do t <- py_int tv;
      do n <- py_add_int nv (o * 12 + t);
      Ok (dset d K_NOTE n)
  end.

(** the classified event: Event.type and the attributes Event.__init__ sets for that type *)
Inductive ebody :=
| BAction (fn : val) (args : dict)
| BPatch (patch output params : val) (note : option val) (trig_name trig_value : val)
| BControl (control value channel : val)
| BProgram (program channel : val)
| BOsc (address params : val)
| BSynth (name params : val)
| BNote (note amplitude gate channel pitchbend : val).
Record event := mkEvent { e_type : val; e_body : ebody; e_duration : val; e_active : val; e_fields : dict }.

Definition dget_or (d : dict) (k : string) (dflt : val) : val := match dget d k with Some v => v | None => dflt end.

Fixpoint resolve_args (kv : dict) : outcome dict :=
  match kv with
  | [] => Ok []
  | (k, v) :: r => do v' <- pvalue v; do r' <- resolve_args r; Ok ((k, v') :: r')
  end.

Definition classify (d : dict) : outcome (val * ebody) :=
  if dhas d K_ACTION then
    do fn <- dreq d K_ACTION;
    do args <- match dget d K_ACTION_ARGS with
               | None => Ok []
               | Some (VDict kv) => resolve_args kv
               | Some (VObj _ _ _ | VPat _) => Unmodelled
               | Some _ => Raise AttributeError        (* .items() on a non-dict *)
               end;
    Ok (VStr T_ACTION, BAction fn args)
  else if dhas d K_PATCH then
    do p <- dreq d K_PATCH;
    do ty <- match dget d K_TYPE with
             | Some t => Ok t
             | None => match p with
                       | VObj kind _ _ =>
                           if String.eqb kind "class" then Ok (VStr T_PATCH_CREATE)
                           else if String.eqb kind "patch_trigger" then Ok (VStr T_PATCH_TRIGGER)
                           else if String.eqb kind "patch_set" then Ok (VStr T_PATCH_SET)
                           else Unmodelled
                       | VPat _ => Unmodelled
                       | _ => Ok (VStr T_PATCH_SET)          (* no trigger_node attribute *)
                       end
             end;
    Ok (ty, BPatch p (dget_or d K_PATCH_OUTPUT VNone) (dget_or d K_PATCH_PARAMS (VDict []))
                   (dget d K_NOTE) (dget_or d K_TRIGGER_NAME VNone) (dget_or d K_TRIGGER_VALUE VNone))
  else if dhas d K_CONTROL then
    do c <- dreq d K_CONTROL; do v <- dreq d K_VALUE; do ch <- dreq d K_CHANNEL;
    Ok (VStr T_CONTROL, BControl c v ch)
  else if dhas d K_PROGRAM_CHANGE then
    do p <- dreq d K_PROGRAM_CHANGE; do ch <- dreq d K_CHANNEL;
    Ok (VStr T_PROGRAM_CHANGE, BProgram p ch)
  else if dhas d K_OSC_ADDRESS then
    do a <- dreq d K_OSC_ADDRESS;
    do ps <- match dget d K_OSC_PARAMS with
             | None => Ok (VDict [])
             | Some (VTup l | VList l) => Ok (VList l)                       (* list(params) *)
             | Some (VDict kv) => Ok (VList (map (fun e => VStr (fst e)) kv))
             | Some (VNone | VBool _ | VInt _ | VFlt _ | VKey _) => Raise ValueError   (* not an Iterable *)
             | Some _ => Unmodelled
             end;
    Ok (VStr T_OSC, BOsc a ps)
  else if dhas d K_SUPERCOLLIDER_SYNTH then
    do n <- dreq d K_SUPERCOLLIDER_SYNTH;
    do ps <- match dget d K_SUPERCOLLIDER_SYNTH_PARAMS with
             | None => Ok (VDict [])
             | Some (VDict kv) => Ok (VDict kv)
             | Some (VObj _ _ _ | VPat _) => Unmodelled
             | Some _ => Raise ValueError                                    (* not a dict *)
             end;
    Ok (VStr T_SUPERCOLLIDER, BSynth n ps)
  else if dhas d K_NOTE then
    do n <- dreq d K_NOTE; do a <- dreq d K_AMPLITUDE; do g <- dreq d K_GATE;
    do ch <- dreq d K_CHANNEL; do pb <- dreq d K_PITCHBEND;
    Ok (VStr T_NOTE, BNote n a g ch pb)
  else Raise InvalidEventException.

(* Event(event_values, defaults) *)
Definition resolve (defs : dict) (d0 : dict) : outcome event :=
  do d <- validate d0;
  do d <- apply_defaults defs (fold_synonyms d);
  do d <- check_note_degree d;
  do d <- degree_to_note d;
  do d <- transpose_note d;
  do tb <- classify d;
  do dur <- dreq d K_DURATION;
  do act <- dreq d K_ACTIVE;
  Ok (mkEvent (fst tb) (snd tb) dur act d).

(** * Track.perform_event *)
Inductive call := Call (method : string) (args : list val).
(* a pending note-off: (note length in beats = duration * gate, note, channel) *)
Definition noteoff := (val * val * val)%type.

Record perf := mkPerf { p_calls : list call; p_offs : list noteoff; p_end : outcome unit }.
Definition perf_ok (cs : list call) (offs : list noteoff) := mkPerf cs offs (Ok tt).
Definition perf_stop {A} (cs : list call) (offs : list noteoff) (o : outcome A) : perf :=
  mkPerf cs offs (match o with Ok _ => Ok tt | Raise c => Raise c | Unmodelled => Unmodelled end).

(* x[index] if isinstance(x, tuple) else x *)
Definition voice_param (v : val) (i : nat) : outcome val :=
  match v with
  | VTup l => match nth_error l i with Some x => Ok x | None => Raise IndexError end
  | _ => Ok v
  end.

(* (amp is not None and amp > 0) and (gate is not None and gate > 0) *)
Definition audible (amp gate : val) : outcome bool :=
  match amp with
  | VNone => Ok false
  | _ => do a <- py_gt0 amp;
         if a then match gate with VNone => Ok false | _ => py_gt0 gate end else Ok false
  end.

(* the loop over the voices of a note event; [last_ch] is Python's loop variable "channel" after the loop *)
Fixpoint voices (notes : list val) (i : nat) (amp gate chan dur : val)
                (cs : list call) (offs : list noteoff) (last_ch : option val) : perf * option val :=
  match notes with
  | [] => (perf_ok cs offs, last_ch)
  | n :: r =>
      match voice_param amp i with
      | Ok a =>
        match voice_param chan i with
        | Ok ch =>
          match voice_param gate i with
          | Ok g =>
            match audible a g with
            | Ok true =>
                let cs' := cs ++ [Call "note_on" [n; a; ch]] in
                match py_mul dur g with
                | Ok len => voices r (S i) amp gate chan dur cs' (offs ++ [(len, n, ch)]) (Some ch)
                | o => (perf_stop cs' offs o, Some ch)
                end
            | Ok false => voices r (S i) amp gate chan dur cs offs (Some ch)
            | o => (perf_stop cs offs o, Some ch)
            end
          | o => (perf_stop cs offs o, Some ch)
          end
        | o => (perf_stop cs offs o, last_ch)
        end
      | o => (perf_stop cs offs o, last_ch)
      end
  end.

Definition all_in (ks : list string) (ps : list string) : bool :=
  forallb (fun k => existsb (String.eqb k) ps) ks.

(* perform_event on a device that has note_on/note_off/control/program_change/send/create/pitch_bend
   and no "event" method; [muted] = Track.is_muted *)
Definition dispatch (muted : bool) (e : event) : perf :=
  match truthy (e_active e) with
  | Ok false => perf_ok [] []
  | Ok true =>
    if muted then perf_ok [] [] else
    match e_body e, e_type e with
    | BAction fn args, VStr _ =>
        (* inspect.signature(fn): every named argument must be a parameter, else the exception is printed and
           swallowed; a non-callable action is swallowed in the same way *)
        match fn with
        | VObj kind id ps =>
            if String.eqb kind "fun" then
              if all_in (map fst args) ps then perf_ok [Call "action" [fn; VDict args]] [] else perf_ok [] []
            else mkPerf [] [] Unmodelled
        | VPat _ => mkPerf [] [] Unmodelled
        | _ => perf_ok [] []
        end
    | BControl c v ch, VStr _ => perf_ok [Call "control" [c; v; ch]] []
    | BProgram p ch, VStr _ => perf_ok [Call "program_change" [p; ch]] []
    | BOsc a ps, VStr _ => perf_ok [Call "send" [a; ps]] []
    | BSynth n ps, VStr _ => perf_ok [Call "create" [n; ps]] []
    | BNote note amp gate chan pb, VStr _ =>
        let go := match amp with
                  | VTup _ => Ok true
                  | _ => py_gt0 amp
                  end in
        match go with
        | Ok false => perf_ok [] []
        | Ok true =>
            let notes := match note with VList l | VTup l => l | _ => [note] end in
            let '(p, last_ch) := voices notes 0 amp gate chan (e_duration e) [] [] None in
            match p_end p with
            | Ok _ =>
                match pb with
                | VNone => p
                | _ => match last_ch with
                       | Some ch => mkPerf (p_calls p ++ [Call "pitch_bend" [pb; ch]]) (p_offs p) (Ok tt)
                       | None => mkPerf (p_calls p) (p_offs p) (Raise UnboundLocalError)
                       end
                end
            | _ => p
            end
        | o => perf_stop [] [] o
        end
    | BPatch _ _ _ _ _ _, _ => mkPerf [] [] Unmodelled      (* SignalFlow patches: classified, not dispatched *)
    | _, _ => mkPerf [] [] Unmodelled
    end
  | o => perf_stop [] [] o
  end.

(* Event(...) then perform_event: what one event dictionary makes the device receive *)
Definition perform (defs : dict) (muted : bool) (d : dict) : perf :=
  match resolve defs d with
  | Ok e => dispatch muted e
  | Raise c => mkPerf [] [] (Raise c)
  | Unmodelled => mkPerf [] [] Unmodelled
  end.

(** * One track on a timeline: Timeline.tick = note-offs that are due, then Track.tick
      (fetch events while current_time >= next_event_time, perform the last one fetched).
      Time is exact: tick t of a clock with N ticks per beat is the rational t/N (isobar compares
      round(., 8) of binary floats; the harness keeps every time on the 1/256 grid, where both agree). *)
Record tstate := mkT { t_next : Q; t_pend : list (Q * val * val); t_stream : list (dict * dict) }.

(* the while loop of Track.tick: returns the last event fetched (None: the stream ended inside the loop,
   StopIteration, nothing is performed) *)
Fixpoint fetch (fuel : nat) (now : Q) (st : tstate) (cur : option event) : outcome (option event * tstate) :=
  match fuel with
  | O => Unmodelled
  | S f =>
      if Qle_bool (t_next st) now then
        match t_stream st with
        | [] => Ok (None, st)
        | (defs, d) :: rest =>
            match resolve defs d with
            | Ok e => do dur <- py_float (e_duration e);
                      fetch f now (mkT (Qred (t_next st + dur)) (t_pend st) rest) (Some e)
            | Raise c => if String.eqb c StopIteration then Unmodelled else Raise c
            | Unmodelled => Unmodelled
            end
        end
      else Ok (cur, st)
  end.

Definition trace := list (Z * call).
Definition tag (t : Z) (cs : list call) : trace := map (fun c => (t, c)) cs.

Fixpoint play (N : positive) (muted : bool) (nticks : nat) (t : Z) (st : tstate) : trace * outcome unit :=
  match nticks with
  | O => ([], Ok tt)
  | S n =>
      let now := t # N in
      (* Track.process_note_offs *)
      let due := filter (fun p => Qle_bool (fst (fst p)) now) (t_pend st) in
      let keep := filter (fun p => negb (Qle_bool (fst (fst p)) now)) (t_pend st) in
      let offs := map (fun p => Call "note_off" [snd (fst p); snd p]) due in
      let st := mkT (t_next st) keep (t_stream st) in
      match fetch (S (length (t_stream st))) now st None with
      | Ok (None, st') =>
          let '(tr, o) := play N muted n (t + 1) st' in (tag t offs ++ tr, o)
      | Ok (Some e, st') =>
          let p := dispatch muted e in
          match all_ok (map (fun x => do len <- py_float (fst (fst x)); Ok (Qred (now + len), snd (fst x), snd x)) (p_offs p)) with
          | Ok pend' =>
              match p_end p with
              | Ok _ =>
                  let '(tr, o) := play N muted n (t + 1) (mkT (t_next st') (t_pend st' ++ pend') (t_stream st')) in
                  (tag t (offs ++ p_calls p) ++ tr, o)
              | Raise c => (tag t (offs ++ p_calls p), Raise c)
              | Unmodelled => (tag t offs, Unmodelled)
              end
          | _ => (tag t offs, Unmodelled)
          end
      | Raise c => (tag t offs, Raise c)
      | Unmodelled => (tag t offs, Unmodelled)
      end
  end.

(* a track scheduled at time 0 with these (defaults, dictionary) pairs as its successive events *)
Definition run_track (N : positive) (muted : bool) (nticks : nat) (evs : list (dict * dict)) : trace * outcome unit :=
  play N muted nticks 0 (mkT 0 [] evs).

(** * views used by the correspondence check *)
Definition opt_val (o : option val) : val := match o with Some v => VTup [v] | None => VNone end.
Definition body_view (b : ebody) : val :=
  match b with
  | BAction fn args => VTup [fn; VDict args]
  | BPatch p o ps n tn tv => VTup [p; o; ps; opt_val n; tn; tv]
  | BControl c v ch => VTup [c; v; ch]
  | BProgram p ch => VTup [p; ch]
  | BOsc a ps => VTup [a; ps]
  | BSynth n ps => VTup [n; ps]
  | BNote n a g ch pb => VTup [n; a; g; ch; pb]
  end.
Definition event_view (e : event) : val := VTup [e_type e; body_view (e_body e); e_duration e; e_active e].

Definition call_eqb (a b : call) : bool :=
  match a, b with Call m xs, Call m' ys => String.eqb m m' && list_eqb val_eqb xs ys end.
Definition trace_eqb (a b : trace) : bool := list_eqb (fun x y => (fst x =? fst y) && call_eqb (snd x) (snd y)) a b.

(* expected outcome of Event(...): exception class name, or the view *)
Definition resolve_agrees (defs d : dict) (exp_exn : option string) (exp_view : val) : option bool :=
  match resolve defs d, exp_exn with
  | Unmodelled, _ => None
  | Raise c, Some c' => Some (String.eqb c c')
  | Ok e, None => Some (val_eqb (event_view e) exp_view)
  | _, _ => Some false
  end.
Definition track_agrees (N : positive) (muted : bool) (nticks : nat) (evs : list (dict * dict))
                        (exp_exn : option string) (exp : trace) : option bool :=
  match run_track N muted nticks evs, exp_exn with
  | (_, Unmodelled), _ => None
  | (tr, Raise c), Some c' => Some (String.eqb c c' && trace_eqb tr exp)
  | (tr, Ok _), None => Some (trace_eqb tr exp)
  | _, _ => Some false
  end.

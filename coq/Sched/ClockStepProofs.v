(* Sched/ClockStepProofs.v — C01: the clocks of the scheduled tracks stay in step with the timeline's, in EVERY history
   (several tracks, callbacks that schedule / update / unschedule / clear, faults of the device, of patterns and of
   callbacks, tolerant or not).

   Track.tick advances Track.current_time in its last statement (Model.track_tick_b, called by finish_track); an exception
   that leaves Track.tick skips it.  The invariant proved here is that this never shows on a track that stays scheduled:

     [tick_advances_survivors]  after a Timeline.tick that completes (result ROk), every track that was started before the
     tick and is still scheduled after it has had its clock advanced by exactly one tick length in that tick (once, not
     twice, and no other operation touched it) - a track whose tick was cut short has been removed (tolerant mode), or the
     tick did not complete (the exception left Timeline.tick: intolerant mode, out of fuel).

     [clocks_in_step]  hence after any history whose ticks all complete, a track that was started at the beginning and is still
     scheduled at the end has advanced exactly as much as the timeline: Track.current_time = Timeline.current_time - start.

   The proof is a frame argument: [adv P d a b] says that between a and b the clocks of the started tracks in P advanced by d
   and no other clock of a track known to a changed, that no track known to a re-appears, and that started tracks stay started. *)
From Isobar Require Import Base.Prelude Sched.Model Sched.OnsetProofs Sched.TimeProofs Sched.NoteOffProofs
  Sched.TickFrame Sched.QuantizeProofs Sched.LifecycleProofs.
#[local] Arguments Z.mul : simpl never.
#[local] Arguments Z.add : simpl never.
#[local] Arguments Z.of_nat : simpl never.

Definition adv (P : nat -> Prop) (d : Z) (a b : timeline) : Prop :=
  wf a -> wf b /\ (next_id a <= next_id b)%nat /\
  forall id tr', (id < next_id a)%nat -> find_track id (tracks b) = Some tr' ->
    exists tr, find_track id (tracks a) = Some tr
      /\ (t_started tr = true -> t_started tr' = true)
      /\ (P id -> t_started tr = true -> t_cur tr' = t_cur tr + d)
      /\ (~ P id -> t_cur tr' = t_cur tr).

(* nothing advanced *)
Definition keep (a b : timeline) : Prop := adv (fun _ => False) 0 a b.

Lemma keep_any (P : nat -> Prop) d a b : keep a b -> (forall id tr, P id -> find_track id (tracks a) = Some tr -> t_started tr = false) -> adv P d a b.
Proof.
  intros K HP W. destruct (K W) as [Wb [N F]]. split; [exact Wb|]. split; [exact N|].
  intros id tr' Hid Fb. destruct (F id tr' Hid Fb) as [tr [Fa [S [_ C]]]].
  exists tr. split; [exact Fa|]. split; [exact S|]. split.
  - intros Hp St. rewrite (HP id tr Hp Fa) in St. discriminate.
  - intros _. apply C. tauto.
Qed.
Lemma keep_none d a b : keep a b -> adv (fun _ => False) d a b.
Proof. intros K. apply keep_any; [exact K|]. intros id tr []. Qed.

Lemma adv_ext (P P' : nat -> Prop) d a b : (forall id, P id <-> P' id) -> adv P d a b -> adv P' d a b.
Proof.
  intros E A W. destruct (A W) as [Wb [N F]]. split; [exact Wb|]. split; [exact N|].
  intros id tr' Hid Fb. destruct (F id tr' Hid Fb) as [tr [Fa [S [C1 C2]]]].
  exists tr. split; [exact Fa|]. split; [exact S|]. split.
  - intros Hp. apply C1. apply E. exact Hp.
  - intros Hn. apply C2. intros Hp. apply Hn. apply E. exact Hp.
Qed.

Lemma adv_comp (P Q : nat -> Prop) d a b c : (forall id, P id -> Q id -> False) ->
  adv P d a b -> adv Q d b c -> adv (fun id => P id \/ Q id) d a c.
Proof.
  intros Dj A B W. destruct (A W) as [Wb [N1 F1]]. destruct (B Wb) as [Wc [N2 F2]].
  split; [exact Wc|]. split; [lia|].
  intros id tr' Hid Fc. destruct (F2 id tr' ltac:(lia) Fc) as [trb [Fb [S2 [Q1 Q2]]]].
  destruct (F1 id trb Hid Fb) as [tra [Fa [S1 [P1 P2]]]].
  exists tra. split; [exact Fa|]. split; [auto|]. split.
  - intros [Hp|Hq] St.
    + rewrite Q2 by (intros Hq; exact (Dj id Hp Hq)). apply P1; assumption.
    + rewrite (Q1 Hq (S1 St)). rewrite P2 by (intros Hp; exact (Dj id Hp Hq)). reflexivity.
  - intros Hn. rewrite Q2 by tauto. apply P2. tauto.
Qed.

Lemma keep_refl a : keep a a.
Proof.
  intros W. split; [exact W|]. split; [lia|]. intros id tr' _ F. exists tr'. repeat split; auto. intros [].
Qed.
Lemma keep_trans a b c : keep a b -> keep b c -> keep a c.
Proof.
  intros A B. apply (adv_ext (fun id => False \/ False)); [tauto|]. apply (adv_comp _ _ 0 a b c); auto.
Qed.
Lemma adv_keep_l (P : nat -> Prop) d a b c : keep a b -> adv P d b c -> adv P d a c.
Proof.
  intros A B. apply (adv_ext (fun id => False \/ P id)); [tauto|].
  apply (adv_comp _ _ d a b c); [tauto|apply keep_none; exact A|exact B].
Qed.
Lemma adv_keep_r (P : nat -> Prop) d a b c : adv P d a b -> keep b c -> adv P d a c.
Proof.
  intros A B. apply (adv_ext (fun id => P id \/ False)); [tauto|].
  apply (adv_comp _ _ d a b c); [tauto|exact A|apply keep_none; exact B].
Qed.

(** * primitive steps *)
Lemma keep_find a b : (wf a -> wf b) -> (next_id a <= next_id b)%nat ->
  (forall id tr', (id < next_id a)%nat -> find_track id (tracks b) = Some tr' ->
     exists tr, find_track id (tracks a) = Some tr /\ t_cur tr' = t_cur tr /\ (t_started tr = true -> t_started tr' = true)) ->
  keep a b.
Proof.
  intros HW N F W. split; [apply HW; exact W|]. split; [exact N|].
  intros id tr' Hid Fb. destruct (F id tr' Hid Fb) as [tr [Fa [C S]]].
  exists tr. split; [exact Fa|]. split; [exact S|]. split; [intros []|intros _; exact C].
Qed.

Lemma keep_same a b : tracks b = tracks a -> next_id b = next_id a -> keep a b.
Proof.
  intros E N. apply keep_find.
  - apply wf_same; [rewrite E; reflexivity|lia].
  - lia.
  - intros id tr' _ F. rewrite E in F. exists tr'. auto.
Qed.

Lemma keep_upd tl tr tr' : find_track (t_id tr') (tracks tl) = Some tr -> t_cur tr' = t_cur tr ->
  (t_started tr = true -> t_started tr' = true) -> keep tl (upd_track tl tr').
Proof.
  intros F C S. apply keep_find; [apply wf_upd|cbn; lia|].
  intros id x _ Fx. cbn [upd_track set_tracks tracks] in Fx.
  destruct (Nat.eq_dec (t_id tr') id) as [E|E].
  - subst id. rewrite (find_put_same tr' (tracks tl) tr F) in Fx. inversion Fx; subst x. exists tr. auto.
  - rewrite (find_put_other tr' (tracks tl) id E) in Fx. exists x. auto.
Qed.

Lemma keep_remove tl id : keep tl (remove_track tl id).
Proof.
  intros W. pose proof (wf_remove tl id W) as W'. split; [exact W'|]. split.
  - unfold remove_track. destruct (find_track id (tracks tl)); cbn; lia.
  - intros i x _ Fx. rewrite remove_track_tracks in Fx.
    destruct (Nat.eq_dec id i) as [E|E].
    + subst i. rewrite (find_del_same id (tracks tl) (proj1 W)) in Fx. discriminate.
    + rewrite (find_del_other id (tracks tl) i E) in Fx. exists x. repeat split; auto. intros [].
Qed.

Lemma keep_clear l : forall tl, keep tl (fold_left (fun tl' tr => remove_track tl' (t_id tr)) l tl).
Proof.
  induction l as [|x r IH]; intros tl; simpl; [apply keep_refl|].
  apply (keep_trans _ (remove_track tl (t_id x))); [apply keep_remove|apply IH].
Qed.

Lemma find_app id l l' : find_track id (l ++ l') = match find_track id l with Some t => Some t | None => find_track id l' end.
Proof. induction l as [|x r IH]; simpl; [reflexivity|]. destruct (t_id x =? id)%nat; [reflexivity|exact IH]. Qed.

Lemma find_put_named_cases nm t' l tr id x : find_named nm l = Some tr -> t_id t' = t_id tr ->
  find_track id (put_named nm t' l) = Some x ->
  exists y, find_track id l = Some y /\ (x = y \/ (x = t' /\ y = tr)).
Proof.
  induction l as [|h r IH]; simpl; [discriminate|].
  destruct (t_name h) as [n|] eqn:En.
  - destruct (n =? nm) eqn:E2.
    + intros H Eid. inversion H; subst h. simpl. rewrite Eid.
      destruct (t_id tr =? id)%nat; intros Fx.
      * inversion Fx; subst x. exists tr. auto.
      * exists x. auto.
    + intros H Eid. simpl. destruct (t_id h =? id)%nat; intros Fx.
      * exists h. inversion Fx. auto.
      * apply IH; assumption.
  - intros H Eid. simpl. destruct (t_id h =? id)%nat; intros Fx.
    + exists h. inversion Fx. auto.
    + apply IH; assumption.
Qed.

Lemma track_update_clock cfg tl tr s q d c :
  let '(_, tr1) := track_update cfg tl tr s q d c in
  t_cur tr1 = t_cur tr /\ (t_started tr = true -> t_started tr1 = true).
Proof. unfold track_update. destruct ((_ =? 0) && (_ =? 0)); destruct c; simpl; auto. Qed.

(** every operation other than a tick leaves every clock alone *)
Lemma exec_op_keep cfg o tl : keep tl (fst (exec_op cfg tl o)).
Proof.
  intros W. destruct (exec_op_gs cfg o tl W) as [Wb [N _]]. split; [exact Wb|]. split; [exact N|].
  revert Wb N.
  destruct o as [|s q d count rwd name replace|t s q d count|t| |t|t|t x|q d]; cbn [exec_op fst]; intros Wb N id y Hid Fy;
    try (exists y; repeat split; auto; intros []).
  - fold (named_target tl name replace) in *. destruct (named_target tl name replace) as [[nm tr]|] eqn:NT.
    + apply named_target_find in NT as [_ [_ F]].
      pose proof (track_update_sched cfg tl tr s q d count) as U.
      pose proof (track_update_clock cfg tl tr s q d count) as C.
      destruct (track_update cfg tl tr s q d count) as [tl1 tr1]. destruct U as [U1 [U2 [U3 _]]]. destruct C as [C1 C2].
      cbn [fst tracks set_tracks] in Fy. rewrite U1 in Fy.
      destruct (find_put_named_cases nm (set_muted (set_count tr1 0) false) (tracks tl) tr id y F U3 Fy) as [z [Fz [E|[E1 E2]]]].
      * subst z. exists y. repeat split; auto. intros [].
      * subst y z. exists tr. split; [exact Fz|]. split; [exact C2|]. split; [intros []|intros _; exact C1].
    + destruct (negb (max_tracks cfg =? 0) && (max_tracks cfg <=? Z.of_nat (length (tracks tl)))) eqn:L.
      * cbn [fst] in Fy. exists y. repeat split; auto. intros [].
      * pose proof (track_update_sched cfg tl (new_track (next_id tl) count rwd name) s q d None) as U.
        destruct (track_update cfg tl (new_track (next_id tl) count rwd name) s q d None) as [tl1 tr1].
        destruct U as [U1 [U2 [U3 _]]]. cbn [fst tracks] in Fy. rewrite U1, find_app in Fy.
        destruct (find_track id (tracks tl)) as [z|] eqn:Fz.
        -- inversion Fy; subst z. exists y. repeat split; auto. intros [].
        -- simpl in Fy. rewrite U3 in Fy. cbn [new_track t_id] in Fy.
           destruct (next_id tl =? id)%nat eqn:E; [apply Nat.eqb_eq in E; lia|discriminate].
  - destruct (find_track t (tracks tl)) as [tr|] eqn:Ft.
    + pose proof (track_update_sched cfg tl tr s q d count) as U.
      pose proof (track_update_clock cfg tl tr s q d count) as C.
      destruct (track_update cfg tl tr s q d count) as [tl1 tr1]. destruct U as [U1 [U2 [U3 _]]]. destruct C as [C1 C2].
      cbn [fst upd_track set_tracks tracks] in Fy. rewrite U1 in Fy.
      assert (Et : t_id tr1 = t) by (rewrite U3; apply (find_track_id _ _ _ Ft)).
      destruct (Nat.eq_dec t id) as [E|E].
      * subst id. pose proof Ft as Ft'. rewrite <- Et in Fy, Ft'. rewrite (find_put_same tr1 (tracks tl) tr Ft') in Fy. inversion Fy; subst y.
        exists tr. split; [exact Ft|]. split; [exact C2|]. split; [intros []|intros _; exact C1].
      * rewrite (find_put_other tr1 (tracks tl) id ltac:(congruence)) in Fy. exists y. repeat split; auto. intros [].
    + destruct (t <? next_id tl)%nat.
      * pose proof (track_update_sched cfg tl (new_track t None true None) s q d count) as U.
        destruct (track_update cfg tl (new_track t None true None) s q d count) as [tl1 tr1]. destruct U as [U1 _].
        cbn [fst] in Fy. rewrite U1 in Fy. exists y. repeat split; auto. intros [].
      * cbn [fst] in Fy. exists y. repeat split; auto. intros [].
  - destruct (find_track t (tracks tl)); cbn [fst] in Fy.
    + destruct (keep_remove tl t W) as [_ [_ K]]. apply K; assumption.
    + exists y. repeat split; auto. intros [].
  - destruct (keep_clear (tracks tl) tl W) as [_ [_ K]]. apply K; assumption.
  - destruct (find_track t (tracks tl)) as [tr|] eqn:Ft; cbn [fst] in Fy.
    + assert (Et : t_id (set_muted tr true) = t) by (simpl; apply (find_track_id _ _ _ Ft)).
      destruct (keep_upd tl tr (set_muted tr true) ltac:(rewrite Et; exact Ft) eq_refl ltac:(auto) W) as [_ [_ K]]. apply K; assumption.
    + exists y. repeat split; auto. intros [].
  - destruct (find_track t (tracks tl)) as [tr|] eqn:Ft; cbn [fst] in Fy.
    + assert (Et : t_id (set_muted tr false) = t) by (simpl; apply (find_track_id _ _ _ Ft)).
      destruct (keep_upd tl tr (set_muted tr false) ltac:(rewrite Et; exact Ft) eq_refl ltac:(auto) W) as [_ [_ K]]. apply K; assumption.
    + exists y. repeat split; auto. intros [].
  - destruct (find_track t (tracks tl)) as [tr|] eqn:Ft; cbn [fst] in Fy.
    + assert (Et : t_id (set_next tr (t_next tr + x)) = t) by (simpl; apply (find_track_id _ _ _ Ft)).
      destruct (keep_upd tl tr (set_next tr (t_next tr + x)) ltac:(rewrite Et; exact Ft) eq_refl ltac:(auto) W) as [_ [_ K]]. apply K; assumption.
    + exists y. repeat split; auto. intros [].
Qed.

Lemma exec_cb_ops_keep cfg ops : forall tl, keep tl (exec_cb_ops cfg tl ops).
Proof.
  induction ops as [|o r IH]; intros tl; simpl; [apply keep_refl|].
  pose proof (exec_op_keep cfg o tl) as H. destruct (exec_op cfg tl o) as [tl' res]. cbn [fst] in H.
  destruct res; try exact H. apply (keep_trans _ _ _ H). apply IH.
Qed.

(** * the try-block of Track.tick touches neither the clock nor the started flag *)
Lemma gne_started tr : t_started (snd (get_next_event tr)) = t_started tr.
Proof.
  unfold get_next_event. destruct (count_exhausted tr); [reflexivity|].
  destruct (pull (t_stream tr)) as [[| |e] s']; reflexivity.
Qed.
Lemma pull_loop_started fu : forall tr last, t_started (snd (pull_loop fu tr last)) = t_started tr.
Proof.
  induction fu as [|f IH]; intros tr last; simpl; [reflexivity|].
  destruct (t_next tr <=? t_cur tr); [|reflexivity].
  pose proof (gne_started tr) as G. destruct (get_next_event tr) as [[e| |] tr']; simpl in G |- *; try exact G.
  rewrite IH. simpl. exact G.
Qed.
Lemma tick_a_clock cfg nowT tr n :
  let '(tr1, _, _, res) := track_tick_a cfg nowT tr n in
  t_cur tr1 = t_cur tr /\ t_started tr1 = t_started tr /\ (res = TNotStarted -> t_started tr = false).
Proof.
  unfold track_tick_a. destruct (t_started tr) eqn:St; cbn [negb]; [|auto].
  destruct (t_next tr <=? t_cur tr); [|split; [reflexivity|split; [exact St|discriminate]]].
  pose proof (pull_loop_cur (fuel cfg) tr None) as C. pose proof (pull_loop_started (fuel cfg) tr None) as S.
  destruct (pull_loop (fuel cfg) tr None) as [[[e|]| | |] tr']; cbn [snd] in C, S;
    try (split; [exact C|split; [congruence|discriminate]]).
  pose proof (perform_keeps (dev_fail cfg) nowT tr' e n) as K.
  destruct (perform_event (dev_fail cfg) nowT tr' e n) as [[[tr'' calls] n'] pf].
  destruct K as [K1 [K2 _]]. split; [congruence|]. split; [congruence|]. destruct pf; discriminate.
Qed.

(** * the second half of Track.tick: the only place where a clock moves *)
Lemma tick_b_clock cfg tr st :
  t_cur (track_tick_b cfg tr st) = t_cur tr + tau cfg /\ t_started (track_tick_b cfg tr st) = t_started tr.
Proof. unfold track_tick_b. destruct (st && _); split; reflexivity. Qed.

Lemma adv_upd_self tl tr tr' d : find_track (t_id tr') (tracks tl) = Some tr -> t_cur tr' = t_cur tr + d ->
  (t_started tr = true -> t_started tr' = true) -> adv (fun id => id = t_id tr') d tl (upd_track tl tr').
Proof.
  intros F C S W. split; [apply wf_upd; exact W|]. split; [cbn; lia|].
  intros id x _ Fx. cbn [upd_track set_tracks tracks] in Fx.
  destruct (Nat.eq_dec (t_id tr') id) as [E|E].
  - subst id. rewrite (find_put_same tr' (tracks tl) tr F) in Fx. inversion Fx; subst x.
    exists tr. split; [exact F|]. split; [exact S|]. split; [intros _ _; exact C|intros H; exfalso; apply H; reflexivity].
  - rewrite (find_put_other tr' (tracks tl) id E) in Fx. exists x. repeat split; auto. intros H. congruence.
Qed.

Lemma finish_adv cfg tl id st : adv (fun i => i = id) (tau cfg) tl (finish_track cfg tl id st).
Proof.
  unfold finish_track. destruct (find_track id (tracks tl)) as [tr2|] eqn:F.
  - destruct (tick_b_clock cfg tr2 st) as [C S].
    assert (Eid : t_id (track_tick_b cfg tr2 st) = id) by (rewrite tick_b_id; apply (find_track_id _ _ _ F)).
    assert (A : adv (fun i => i = id) (tau cfg) tl (upd_track tl (track_tick_b cfg tr2 st))).
    { apply (adv_ext (fun i => i = t_id (track_tick_b cfg tr2 st))); [intros i; rewrite Eid; tauto|].
      apply (adv_upd_self tl tr2); [rewrite Eid; exact F|exact C|congruence]. }
    destruct (t_finished (track_tick_b cfg tr2 st) && t_rwd (track_tick_b cfg tr2 st)); [|exact A].
    apply (adv_keep_r _ _ _ _ _ A). apply keep_remove.
  - apply keep_any; [apply keep_refl|]. intros i tr -> Fi. congruence.
Qed.

Lemma end_stream_keep tl id : keep tl (end_stream tl id).
Proof.
  unfold end_stream. destruct (find_track id (tracks tl)) as [t|] eqn:F; [|apply keep_refl].
  apply (keep_upd tl t); [simpl; rewrite (find_track_id _ _ _ F); exact F|reflexivity|auto].
Qed.

(* an id that is not scheduled in b: any claim about it is vacuous *)
Lemma keep_absent (P : nat -> Prop) d a b : keep a b -> (forall id, P id -> find_track id (tracks b) = None) -> adv P d a b.
Proof.
  intros K HP W. destruct (K W) as [Wb [N F]]. split; [exact Wb|]. split; [exact N|].
  intros id tr' Hid Fb. destruct (F id tr' Hid Fb) as [tr [Fa [S [_ C]]]].
  exists tr. split; [exact Fa|]. split; [exact S|]. split.
  - intros Hp. rewrite (HP id Hp) in Fb. discriminate.
  - intros _. apply C. tauto.
Qed.

(** * one track's turn: if the tick goes on, the track's clock has advanced by one tick, or the track is gone *)
Theorem tick_one_adv cfg tl id :
  wf tl ->
  let '(tl', _, abort) := tick_one cfg tl id in
  (abort = None -> adv (fun i => i = id) (tau cfg) tl tl') /\ (forall res, abort = Some res -> res <> ROk).
Proof.
  intros W. unfold tick_one. destruct (find_track id (tracks tl)) as [tr|] eqn:F.
  2: { split; [|discriminate]. intros _. apply keep_any; [apply keep_refl|]. intros i t -> Fi. congruence. }
  pose proof (tick_a_clock cfg (now tl) tr (dev_calls tl)) as A.
  pose proof (tick_a_id cfg (now tl) tr (dev_calls tl)) as Aid.
  destruct (track_tick_a cfg (now tl) tr (dev_calls tl)) as [[[tr1 c] n'] res]. cbn [fst] in Aid. destruct A as [A1 [A2 A3]].
  assert (Eid : t_id tr1 = id) by (rewrite Aid; apply (find_track_id _ _ _ F)).
  assert (K1 : keep tl (set_dev (upd_track tl tr1) n')).
  { apply (keep_trans _ (upd_track tl tr1)); [|apply keep_same; reflexivity].
    apply (keep_upd tl tr); [rewrite Eid; exact F|exact A1|congruence]. }
  destruct res.
  - split; [|discriminate]. intros _. apply keep_any.
    + destruct (t_finished tr1 && t_rwd tr1); [|exact K1]. apply (keep_trans _ _ _ K1). apply keep_remove.
    + intros i t -> Fi. rewrite F in Fi. inversion Fi; subst t. apply A3. reflexivity.
  - split; [|discriminate]. intros _. apply (adv_keep_l _ _ _ _ _ K1). apply finish_adv.
  - split; [|discriminate]. intros _. apply (adv_keep_l _ _ _ _ _ K1). apply finish_adv.
  - destruct (ignore_exc cfg); [|split; [discriminate|intros r E; inversion E; discriminate]].
    split; [|discriminate]. intros _. apply keep_absent.
    + apply (keep_trans _ _ _ K1). apply keep_remove.
    + intros i ->. rewrite remove_track_tracks. apply find_del_same. destruct (K1 W) as [[ND _] _]. exact ND.
  - destruct (nth cb (cbs cfg) (CbNone, [])) as [rk ops]. split; [|discriminate]. intros _.
    apply (adv_keep_l _ _ _ _ _ K1).
    set (tl1 := set_dev (upd_track tl tr1) n').
    assert (K2 : keep tl1 (exec_cb_ops cfg tl1 ops)) by apply exec_cb_ops_keep.
    apply (adv_keep_l _ _ _ _ _ K2).
    destruct (match rk with CbStop => cb_completes cfg tl1 ops | _ => false end).
    + apply (adv_keep_l _ _ _ (end_stream (exec_cb_ops cfg tl1 ops) id) _); [apply end_stream_keep|apply finish_adv].
    + apply finish_adv.
  - split; [discriminate|intros r E; inversion E; discriminate].
Qed.

(** * the loop over the tracks: every track of the snapshot gets exactly one turn *)
Lemma phase_adv cfg ids : forall (P : nat -> Prop) a b calls, NoDup ids -> (forall i, In i ids -> ~ P i) ->
  wf a -> adv P (tau cfg) a b ->
  let '(c, _, res) := phase_tracks cfg b ids calls in
  res = ROk -> adv (fun i => P i \/ In i ids) (tau cfg) a c.
Proof.
  induction ids as [|id r IH]; intros P a b calls ND Dj Wa A.
  - cbn [phase_tracks]. intros _. apply (adv_ext P); [intros i; simpl; tauto|exact A].
  - cbn [phase_tracks]. destruct (A Wa) as [Wb _].
    pose proof (tick_one_adv cfg b id Wb) as T. destruct (tick_one cfg b id) as [[b' cc] abort]. destruct T as [T1 T2].
    destruct abort as [res|].
    + intros E. exfalso. apply (T2 res eq_refl). exact E.
    + inversion ND as [|x l Hni ND']; subst.
      assert (A' : adv (fun i => P i \/ i = id) (tau cfg) a b').
      { apply (adv_comp P (fun i => i = id) (tau cfg) a b b'); [|exact A|apply T1; reflexivity].
        intros i Hp ->. apply (Dj id (or_introl eq_refl) Hp). }
      pose proof (IH (fun i => P i \/ i = id) a b' (calls ++ cc) ND') as H.
      specialize (H ltac:(intros i Hi [Hp| ->]; [apply (Dj i (or_intror Hi) Hp)|exact (Hni Hi)]) Wa A').
      destruct (phase_tracks cfg b' r (calls ++ cc)) as [[c cs] res]. intros E.
      apply (adv_ext (fun i => (P i \/ i = id) \/ In i r)); [intros i; simpl; intuition congruence|exact (H E)].
Qed.

(** * what Timeline.tick does before the tracks get their turn moves no clock *)
Lemma tick_pre_keep tl : keep tl (fst (tick_pre tl)).
Proof.
  destruct (tick_pre_spec tl) as [_ [Ni [_ [Ids Fd]]]].
  apply keep_find; [apply tick_pre_wf|lia|].
  intros id x _ Fx. rewrite Fd in Fx. destruct (find_track id (tracks tl)) as [tr|]; [|discriminate].
  cbn [option_map] in Fx. inversion Fx; subst x. exists tr. split; [reflexivity|].
  unfold started_with. destruct (last_start (now tl) id (actions tl) None); simpl; auto.
Qed.

(** * Timeline.tick: every started track that is still scheduled after a completed tick has advanced by exactly one tick *)
Theorem tick_advances_survivors cfg tl : wf tl ->
  let '(tl', _, res) := tl_tick cfg tl in
  res = ROk ->
  now tl' = now tl + tau cfg /\ wf tl' /\ (next_id tl <= next_id tl')%nat /\
  forall id tr tr', find_track id (tracks tl) = Some tr -> t_started tr = true ->
    find_track id (tracks tl') = Some tr' -> t_cur tr' = t_cur tr + tau cfg /\ t_started tr' = true.
Proof.
  intros W. pose proof (tl_tick_now cfg tl) as Nw. rewrite tl_tick_pre in *.
  pose proof (tick_pre_keep tl) as K. pose proof (tick_pre_wf tl W) as W3.
  destruct (tick_pre_spec tl) as [_ [_ [_ [Ids _]]]].
  destruct (tick_pre tl) as [tl3 c13]. cbn [fst] in K, W3, Ids.
  pose proof (phase_adv cfg (map t_id (tracks tl3)) (fun _ => False) tl3 tl3 [] (proj1 W3) ltac:(tauto) W3
                (keep_none (tau cfg) tl3 tl3 (keep_refl tl3))) as PA.
  destruct (phase_tracks cfg tl3 (map t_id (tracks tl3)) []) as [[tl4 c4] res].
  destruct res; try discriminate.
  destruct ((match tracks tl4, actions tl4 with [], [] => true | _, _ => false end) && stop_when_done cfg); [discriminate|].
  intros _. split; [exact Nw|].
  assert (A : adv (fun i => In i (map t_id (tracks tl3))) (tau cfg) tl tl4).
  { apply (adv_keep_l _ _ _ _ _ K). apply (adv_ext (fun i => False \/ In i (map t_id (tracks tl3)))); [tauto|]. apply PA. reflexivity. }
  destruct (A W) as [W4 [N4 H]].
  split; [exact W4|]. split; [exact N4|].
  intros id tr tr' F St F'. cbn [tracks] in F'.
  destruct (H id tr' (scheduled_below tl id tr W F) F') as [tr0 [F0 [S0 [C0 _]]]].
  rewrite F in F0. inversion F0; subst tr0. split; [|auto].
  apply C0; [|exact St]. rewrite Ids, <- (find_track_id _ _ _ F). apply in_map. apply (find_some_in _ _ _ F).
Qed.

(** * histories: a started track that is still scheduled has advanced exactly as much as the timeline *)
Lemma op_eq_tick (o : op) : o = OTick \/ o <> OTick.
Proof. destruct o; [left; reflexivity|..]; right; discriminate. Qed.
Lemma step_other cfg tl o : o <> OTick -> step cfg tl o = (fst (exec_op cfg tl o), [], snd (exec_op cfg tl o)).
Proof. destruct o; try contradiction; intros _; unfold step; destruct (exec_op cfg tl _); reflexivity. Qed.

Theorem clocks_in_step cfg ops : forall tl, wf tl -> all_ticks_ok cfg tl ops = true ->
  forall id tr tr', find_track id (tracks tl) = Some tr -> t_started tr = true ->
  find_track id (tracks (run_state cfg tl ops)) = Some tr' ->
  t_cur tr' - t_cur tr = now (run_state cfg tl ops) - now tl /\ t_started tr' = true.
Proof.
  induction ops as [|o r IH]; intros tl W OK id tr tr' F St F'.
  - cbn [run_state] in *. rewrite F in F'. inversion F'; subst. split; [lia|exact St].
  - cbn [run_state all_ticks_ok] in *.
    pose proof (scheduled_below tl id tr W F) as Hid.
    (* one step: the track is still there with the right clock, or it is gone for good *)
    assert (S1 : let '(tl1, _, _) := step cfg tl o in
                 wf tl1 /\ (next_id tl <= next_id tl1)%nat /\
                 forall tr1, find_track id (tracks tl1) = Some tr1 ->
                   t_cur tr1 - t_cur tr = now tl1 - now tl /\ t_started tr1 = true).
    { destruct (op_eq_tick o) as [E|E].
      - subst o. cbn [step]. pose proof (tick_advances_survivors cfg tl W) as T.
        cbn [step] in OK. destruct (tl_tick cfg tl) as [[tl1 c] res].
        destruct res; try discriminate OK. destruct (T eq_refl) as [Nw [W1 [N1 H]]].
        split; [exact W1|]. split; [exact N1|]. intros tr1 F1. destruct (H id tr tr1 F St F1) as [C S]. split; [lia|exact S].
      - rewrite (step_other cfg tl o E). destruct (exec_op_keep cfg o tl W) as [W1 [N1 K]].
        pose proof (exec_op_now cfg tl o) as Nw.
        split; [exact W1|]. split; [exact N1|]. intros tr1 F1.
        destruct (K id tr1 Hid F1) as [tr0 [F0 [S0 [_ C0]]]]. rewrite F in F0. inversion F0; subst tr0.
        rewrite (C0 ltac:(tauto)). split; [lia|auto]. }
    destruct (step cfg tl o) as [[tl1 c] res] eqn:Es. destruct S1 as [W1 [N1 H1]].
    apply andb_true_iff in OK as [_ OK].
    destruct (find_track id (tracks tl1)) as [tr1|] eqn:F1.
    + destruct (H1 tr1 eq_refl) as [C1 S1]. destruct (IH tl1 W1 OK id tr1 tr' F1 S1 F') as [C2 S2]. split; [lia|exact S2].
    + rewrite (gone_for_good cfg r tl1 id W1 ltac:(lia) F1) in F'. discriminate.
Qed.

(* Sched/ReconfProofs.v — C17 for histories that re-configure the tolerance switch (Sched/Reconf.v):
   containment / removal / propagation / clock / non-interference hold segment by segment, from ANY state the earlier
   segments (run under the other mode) may have left behind. *)
From Isobar Require Import Base.Prelude Sched.Model Sched.Obs Sched.NoteOffProofs Sched.TimeProofs Sched.TickFrame Sched.MergeProofs
  Sched.FaultProofs Sched.ReachProofs Sched.Reconf.

(** * The switch is one field; nothing else changes *)
Lemma set_ignore_flag cfg b : ignore_exc (set_ignore cfg b) = b.
Proof. reflexivity. Qed.
Lemma set_ignore_twice cfg a b : set_ignore (set_ignore cfg a) b = set_ignore cfg b.
Proof. reflexivity. Qed.
Lemma set_ignore_same cfg : set_ignore cfg (ignore_exc cfg) = cfg.
Proof. destruct cfg; reflexivity. Qed.

(** * Histories without a flip are the histories of Sched/Model.v; a flip separates two of its runs *)
Lemma rrun_no_flags cfg ops : forall tl, rrun cfg tl (map RO ops) = run cfg tl ops.
Proof. induction ops as [|o r IH]; intros tl; [reflexivity|]. cbn [map rrun run]. destruct (step cfg tl o) as [[tl' c] res]. rewrite IH. reflexivity. Qed.
Lemma rrun_state_no_flags cfg ops : forall tl, rrun_state cfg tl (map RO ops) = run_state cfg tl ops.
Proof. induction ops as [|o r IH]; intros tl; [reflexivity|]. cbn [map rrun_state run_state]. destruct (step cfg tl o) as [[tl' c] res]. apply IH. Qed.
Lemma rrun_cfg_no_flags cfg ops : rrun_cfg cfg (map RO ops) = cfg.
Proof. induction ops as [|o r IH]; [reflexivity|exact IH]. Qed.

Lemma rrun_app l1 : forall cfg tl l2,
  rrun cfg tl (l1 ++ l2) = rrun cfg tl l1 ++ rrun (rrun_cfg cfg l1) (rrun_state cfg tl l1) l2.
Proof.
  induction l1 as [|[o|b] r IH]; intros cfg tl l2; [reflexivity| |].
  - cbn [app rrun rrun_cfg rrun_state]. destruct (step cfg tl o) as [[tl' c] res]. rewrite IH. reflexivity.
  - cbn [app rrun rrun_cfg rrun_state]. rewrite IH. reflexivity.
Qed.
Lemma rrun_state_app l1 : forall cfg tl l2,
  rrun_state cfg tl (l1 ++ l2) = rrun_state (rrun_cfg cfg l1) (rrun_state cfg tl l1) l2.
Proof.
  induction l1 as [|[o|b] r IH]; intros cfg tl l2; [reflexivity| |].
  - cbn [app rrun_cfg rrun_state]. destruct (step cfg tl o) as [[tl' c] res]. apply IH.
  - cbn [app rrun_cfg rrun_state]. apply IH.
Qed.
Lemma rrun_cfg_app l1 : forall cfg l2, rrun_cfg cfg (l1 ++ l2) = rrun_cfg (rrun_cfg cfg l1) l2.
Proof. induction l1 as [|[o|b] r IH]; intros cfg l2; [reflexivity|apply IH|apply IH]. Qed.

(* a history run under cfg, the assignment `ignore_exceptions = b`, a second history: the second segment is Sched/Model.v's
   run under the re-configured cfg FROM THE STATE THE FIRST SEGMENT LEFT *)
Theorem rrun_two_segments cfg tl ops1 b ops2 :
  rrun cfg tl (map RO ops1 ++ RFlag b :: map RO ops2) =
    run cfg tl ops1 ++ ([], ROk, map t_id (tracks (run_state cfg tl ops1)))
                    :: run (set_ignore cfg b) (run_state cfg tl ops1) ops2.
Proof.
  rewrite rrun_app, rrun_no_flags, rrun_cfg_no_flags, rrun_state_no_flags. cbn [rrun]. rewrite rrun_no_flags. reflexivity.
Qed.

(* the mode in force after a history is the last one assigned (the constructor's if there was no assignment);
   nothing else in the configuration has changed *)
Lemma rrun_cfg_is_set_ignore l : forall cfg, rrun_cfg cfg l = set_ignore cfg (ignore_exc (rrun_cfg cfg l)).
Proof.
  induction l as [|[o|b] r IH]; intros cfg; cbn [rrun_cfg]; [symmetry; apply set_ignore_same|apply IH|].
  rewrite (IH (set_ignore cfg b)) at 1. apply set_ignore_twice.
Qed.
Lemma rrun_cfg_last_flag cfg l b : ignore_exc (rrun_cfg cfg (l ++ [RFlag b])) = b.
Proof. rewrite rrun_cfg_app. reflexivity. Qed.

(** * Containment: no tick performed while the switch is on returns an exception *)
Lemma exec_op_not_exception cfg tl o : snd (exec_op cfg tl o) <> RException.
Proof.
  destruct o as [|s q d count rwd name replace|t s q d count|t| |t|t|t x|q d]; cbn [exec_op]; try discriminate.
  - destruct (match name with
              | Some nm => if replace then match find_named nm (tracks tl) with Some tr => Some (nm, tr) | None => None end else None
              | None => None end) as [[nm tr]|].
    + destruct (track_update cfg tl tr s q d count). discriminate.
    + destruct (negb (max_tracks cfg =? 0) && (max_tracks cfg <=? Z.of_nat (length (tracks tl)))); [discriminate|].
      destruct (track_update cfg tl (new_track (next_id tl) count rwd name) s q d None). discriminate.
  - destruct (find_track t (tracks tl)).
    + destruct (track_update cfg tl t0 s q d count). discriminate.
    + destruct (t <? next_id tl)%nat; [|discriminate].
      destruct (track_update cfg tl (new_track t None true None) s q d count). discriminate.
  - destruct (find_track t (tracks tl)); discriminate.
  - destruct (find_track t (tracks tl)); discriminate.
  - destruct (find_track t (tracks tl)); discriminate.
  - destruct (find_track t (tracks tl)); discriminate.
Qed.

Lemma step_tolerant cfg tl o : ignore_exc cfg = true -> snd (step cfg tl o) <> RException.
Proof.
  intros H. destruct o; [exact (tl_tick_tolerant cfg H tl)|..];
    (unfold step; match goal with |- context [exec_op ?c ?t ?o] =>
       pose proof (exec_op_not_exception c t o) as E; destruct (exec_op c t o) as [tl' r]; exact E end).
Qed.

(* for EVERY history with any number of flips, from any state: an observation made while the switch is on is never an
   exception *)
Theorem rrun_contained l : forall cfg tl,
  Forall2 (fun (f : bool) (o : obs) => f = true -> snd (fst o) <> RException) (rflags cfg l) (rrun cfg tl l).
Proof.
  induction l as [|[o|b] r IH]; intros cfg tl; cbn [rflags rrun]; [constructor| |].
  - pose proof (step_tolerant cfg tl o) as T. destruct (step cfg tl o) as [[tl' c] res]. constructor; [|apply IH].
    intros H. exact (T H).
  - constructor; [intros _; discriminate|apply IH].
Qed.

(* the two-segment form: the switch is turned on after a history run with the switch in any position; from whatever
   state that history left, no operation of the second segment returns an exception *)
Corollary flip_on_contained cfg tl ops1 ops2 :
  Forall (fun o : obs => snd (fst o) <> RException) (run (set_ignore cfg true) (run_state cfg tl ops1) ops2).
Proof.
  generalize (run_state cfg tl ops1). induction ops2 as [|o r IH]; intros t; cbn [run]; [constructor|].
  pose proof (step_tolerant (set_ignore cfg true) t o eq_refl) as T.
  destruct (step (set_ignore cfg true) t o) as [[tl' c] res]. constructor; [exact T|apply IH].
Qed.

(** * Reachable states under re-configuration: ids stay distinct, so the per-turn theorems apply *)
(* [rreachable cfg0 cfg tl]: starting from the empty timeline built with cfg0, tl is a state of the performance and
   cfg the configuration in force - after any operation, after any assignment of the switch, and inside a tick before
   the first turn and after any turn *)
Inductive rreachable (cfg0 : config) : config -> timeline -> Prop :=
| RR_init : rreachable cfg0 cfg0 tl0
| RR_step cfg tl o : rreachable cfg0 cfg tl -> rreachable cfg0 cfg (fst (fst (step cfg tl o)))
| RR_flag cfg tl b : rreachable cfg0 cfg tl -> rreachable cfg0 (set_ignore cfg b) tl
| RR_pre cfg tl : rreachable cfg0 cfg tl -> rreachable cfg0 cfg (tick_pre tl)
| RR_turn cfg tl id : rreachable cfg0 cfg tl -> rreachable cfg0 cfg (fst (fst (tick_one cfg tl id))).

Lemma rreachable_run cfg0 l : forall cfg tl, rreachable cfg0 cfg tl -> rreachable cfg0 (rrun_cfg cfg l) (rrun_state cfg tl l).
Proof.
  induction l as [|[o|b] r IH]; intros cfg tl R; [exact R| |].
  - cbn [rrun_cfg rrun_state]. pose proof (RR_step cfg0 cfg tl o R) as R1. destruct (step cfg tl o) as [[tl' c] res]. apply IH. exact R1.
  - cbn [rrun_cfg rrun_state]. apply IH. apply RR_flag. exact R.
Qed.
Theorem rhistory_reachable cfg l : rreachable cfg (rrun_cfg cfg l) (rrun_state cfg tl0 l).
Proof. apply rreachable_run. constructor. Qed.

Theorem rreachable_wf cfg0 cfg tl : rreachable cfg0 cfg tl -> wf tl.
Proof.
  induction 1 as [|cfg tl o R IH|cfg tl b R IH|cfg tl R IH|cfg tl id R IH];
    [exact wf_tl0|apply step_wf; exact IH|exact IH|apply tick_pre_wf; exact IH|apply tick_one_wf; exact IH].
Qed.
(* only the switch differs from the constructor's configuration *)
Theorem rreachable_cfg cfg0 cfg tl : rreachable cfg0 cfg tl -> forall b, set_ignore cfg b = set_ignore cfg0 b.
Proof.
  induction 1 as [|cfg tl o R IH|cfg tl b R IH|cfg tl R IH|cfg tl id R IH]; intros b'; [reflexivity|apply IH| |apply IH|apply IH].
  rewrite set_ignore_twice. apply IH.
Qed.

(* the switch is on NOW (whatever it was at construction and however often it was flipped): the turn of a track that
   faults, at any site, removes that track only and the loop over the tracks goes on *)
Theorem reconf_fault_removed cfg0 cfg tl id tr tr1 c n1 : rreachable cfg0 cfg tl -> ignore_exc cfg = true ->
  find_track id (tracks tl) = Some tr ->
  track_tick_a cfg (now tl) tr (dev_calls tl) = (tr1, c, n1, TRaise) ->
  let '(tl', c', ab) := tick_one cfg tl id in
  ab = None /\ c' = c
  /\ find_track id (tracks tl') = None
  /\ (forall id', id' <> id -> find_track id' (tracks tl') = find_track id' (tracks tl))
  /\ actions tl' = actions tl ++ release_actions tr1
  /\ now tl' = now tl.
Proof. intros R H F. exact (fault_turn cfg H tl id tr tr1 c n1 F (proj1 (rreachable_wf cfg0 cfg tl R))). Qed.

(* the switch is off NOW: the same fault aborts the loop with the exception, also when the timeline was constructed
   tolerant *)
Theorem reconf_fault_propagates cfg0 cfg tl id r tr tr1 c n1 calls : rreachable cfg0 cfg tl -> ignore_exc cfg = false ->
  find_track id (tracks tl) = Some tr ->
  track_tick_a cfg (now tl) tr (dev_calls tl) = (tr1, c, n1, TRaise) ->
  phase_tracks cfg tl (id :: r) calls = (set_dev (upd_track tl tr1) n1, calls ++ c, RException).
Proof. intros _ H. exact (fault_propagates cfg H tl id r tr tr1 c n1 calls). Qed.

(** * The clock *)
Theorem rrun_now l : forall cfg tl, rall_ticks_ok cfg tl l = true ->
  now (rrun_state cfg tl l) = now tl + rticks_in l * tau cfg.
Proof.
  induction l as [|[o|b] r IH]; intros cfg tl H; [simpl; lia| |].
  - cbn [rrun_state rall_ticks_ok] in *. pose proof (step_now cfg tl o) as S. destruct (step cfg tl o) as [[tl' c] res].
    apply andb_true_iff in H as [H1 H2]. rewrite (IH cfg tl' H2).
    destruct o; cbn [rticks_in]; try (rewrite S; lia).
    destruct res; try discriminate. rewrite S. lia.
  - cbn [rrun_state rall_ticks_ok rticks_in] in *. rewrite (IH _ tl H). reflexivity.
Qed.

(* without stop-when-done, a tick performed while the switch is on completes (the model's fuel bound aside) *)
Theorem rtolerant_all_ok l : forall cfg tl, stop_when_done cfg = false ->
  rticks_tolerant cfg l = true -> rno_fuel_out cfg tl l = true -> rall_ticks_ok cfg tl l = true.
Proof.
  induction l as [|[o|b] r IH]; intros cfg tl W T F; [reflexivity| |].
  - cbn [rno_fuel_out rall_ticks_ok] in *.
    destruct o; try (cbn [rticks_tolerant] in T; destruct (step cfg tl _) as [[tl' c] res];
                     apply andb_true_iff in F as [_ F2]; rewrite (IH cfg tl' W T F2); reflexivity).
    cbn [rticks_tolerant] in T. apply andb_true_iff in T as [T1 T2].
    cbn [step] in *. pose proof (tl_tick_tolerant_outcomes cfg T1 tl) as O. cbv zeta in O.
    destruct (tl_tick cfg tl) as [[tl' c] res]. simpl in O. apply andb_true_iff in F as [F1 F2]. rewrite (IH cfg tl' W T2 F2).
    destruct O as [O|[[O X]|O]]; rewrite O in *; [reflexivity|congruence|discriminate].
  - cbn [rticks_tolerant rno_fuel_out rall_ticks_ok] in *. apply IH; assumption.
Qed.

(** * Non-interference: the merge theorem of C07 under re-configuration *)
(* the solo history of track i keeps every assignment of the switch *)
Section RMerge.
  Variable i : nat.
  Variables (pc : Z -> bool) (pb : nat -> bool).

  Fixpoint rsolo (k : nat) (h : list rop) : list rop :=
    match h with
    | [] => []
    | RO o :: r => (if op_keep i k o then [RO o] else []) ++ rsolo (op_next k o) r
    | RFlag b :: r => RFlag b :: rsolo k r
    end.
  Fixpoint rhist_wf (k : nat) (h : list rop) : bool :=
    match h with
    | [] => true
    | RO o :: r => op_wf i pc pb k o && rhist_wf (op_next k o) r
    | RFlag _ :: r => rhist_wf k r
    end.

  Theorem rmerge_run h : forall cfg J S,
    dev_fail cfg = None -> (forall cb, snd (nth cb (cbs cfg) (CbNone, [])) = []) -> stop_when_done cfg = false -> max_tracks cfg = 0 ->
    sim i pc pb J S -> nid_rel i J S -> rhist_wf (next_id J) h = true -> rall_ticks_ok cfg J h = true ->
    rtick_calls cfg S (rsolo (next_id J) h) = map (filter (call_ok pc pb)) (rtick_calls cfg J h)
    /\ sim i pc pb (rrun_state cfg J h) (rrun_state cfg S (rsolo (next_id J) h))
    /\ rall_ticks_ok cfg S (rsolo (next_id J) h) = true.
  Proof.
    induction h as [|[o|b] r IH]; intros cfg J S Hdev Hcb Hswd Hmax H N W A; [simpl; exact (conj eq_refl (conj H eq_refl))| |].
    2: { cbn [rhist_wf rsolo rtick_calls rrun_state rall_ticks_ok] in *. apply IH; assumption. }
    cbn [rhist_wf] in W. apply andb_true_iff in W as [W1 W2]. cbn [rsolo].
    destruct o as [|s q d c rwd nm rp|t s q d c|t| |t|t|t x|q d].
    1: { (* a tick *)
      cbn [op_keep op_next app]. cbn [rtick_calls rrun_state rall_ticks_ok step] in *.
      pose proof (tl_tick_sim i pc pb cfg Hdev Hcb Hswd J S H) as T.
      pose proof (tl_tick_next cfg Hcb J) as NJ. pose proof (tl_tick_next cfg Hcb S) as NS.
      destruct (tl_tick cfg J) as [[J' cJ] rJ]. destruct (tl_tick cfg S) as [[S' cS] rS]. simpl in NJ, NS.
      apply andb_true_iff in A as [A1 A2]. destruct rJ; try discriminate.
      destruct (T eq_refl) as [-> [T2 ->]].
      assert (N' : nid_rel i J' S') by (eapply nid_same; eassumption).
      rewrite <- NJ in W2. destruct (IH cfg J' S' Hdev Hcb Hswd Hmax T2 N' W2 A2) as [I1 [I2 I3]]. rewrite NJ in *.
      cbn [app map]. rewrite I1, I3. exact (conj eq_refl (conj I2 eq_refl)). }
    all: match goal with |- context [op_keep _ _ ?o] =>
           pose proof (exec_op_sim i pc pb cfg Hcb Hmax J S o H N W1) as E; cbv zeta in E;
           cbn [rtick_calls rrun_state rall_ticks_ok step] in A |- *;
           destruct (exec_op cfg J o) as [J' rJ] eqn:EJ; cbn [fst] in E;
           destruct (op_keep i (next_id J) o) eqn:K;
           [ cbn [app rtick_calls rrun_state rall_ticks_ok step]; destruct (exec_op cfg S o) as [S' rS] eqn:ES; cbn [fst] in E
           | cbn [app] ];
           destruct E as [E1 [E2 E3]]; rewrite <- E3 in W2 |- *;
           simpl in A; (specialize (IH cfg _ _ Hdev Hcb Hswd Hmax E1 E2 W2 A)); destruct IH as [I1 [I2 I3]];
           cbn [app map]; rewrite ?I1, ?I3; exact (conj eq_refl (conj I2 eq_refl))
         end.
  Qed.
End RMerge.

(* from the empty timeline: in a configuration without deliberate coupling, with the switch flipped any number of times,
   the calls of track i in every tick of the joint run are those of its solo run under the same flips *)
Theorem rmerge_from_empty i pc pb cfg h :
  uncoupled cfg = true -> rhist_wf i pc pb 0 h = true -> rall_ticks_ok cfg tl0 h = true ->
  rtick_calls cfg (tl_at i) (rsolo i 0 h) = map (filter (call_ok pc pb)) (rtick_calls cfg tl0 h)
  /\ sim i pc pb (rrun_state cfg tl0 h) (rrun_state cfg (tl_at i) (rsolo i 0 h)).
Proof.
  unfold uncoupled. intros U W A. apply andb_true_iff in U as [U U4]. apply andb_true_iff in U as [U U3].
  apply andb_true_iff in U as [U1 U2]. destruct (dev_fail cfg) eqn:D; [discriminate|].
  apply negb_true_iff in U3. apply Z.eqb_eq in U4.
  destruct (rmerge_run i pc pb h cfg tl0 (tl_at i) D (cb_noops_nth cfg U2) U3 U4) as [M [S _]]; try assumption.
  - constructor; reflexivity.
  - unfold nid_rel. reflexivity.
  - exact (conj M S).
Qed.

(* hence two joint histories (with their flips) in which track i has the same solo history - the history with the
   failing track and the one without it - make the same calls for track i in every tick *)
Corollary rsame_solo_same_calls i pc pb cfg h h' :
  uncoupled cfg = true -> rhist_wf i pc pb 0 h = true -> rhist_wf i pc pb 0 h' = true ->
  rall_ticks_ok cfg tl0 h = true -> rall_ticks_ok cfg tl0 h' = true -> rsolo i 0 h = rsolo i 0 h' ->
  map (filter (call_ok pc pb)) (rtick_calls cfg tl0 h) = map (filter (call_ok pc pb)) (rtick_calls cfg tl0 h').
Proof.
  intros U W W' A A' E.
  destruct (rmerge_from_empty i pc pb cfg h U W A) as [M _]. destruct (rmerge_from_empty i pc pb cfg h' U W' A') as [M' _].
  rewrite <- M, <- M', E. reflexivity.
Qed.

(* Sched/LifecycleProofs.v — C06: track lifecycle (counts, completion, removal, stop-when-done, limits, names,
   unschedule / clear / mute).  Statements over the executable scheduler model (Sched/Model.v). *)
From Isobar Require Import Base.Prelude Sched.Model Sched.OnsetProofs Sched.TimeProofs Sched.NoteOffProofs
  Sched.TickFrame Sched.QuantizeProofs.
#[local] Arguments Z.mul : simpl never.
#[local] Arguments Z.add : simpl never.
#[local] Arguments Z.of_nat : simpl never.

(** * histories: a relation preserved by every operation and by the phases of a tick is preserved by every history *)
Section Histories.
  Variable cfg : config.
  Variable Q : timeline -> timeline -> Prop.
  Hypothesis Q_refl : forall tl, Q tl tl.
  Hypothesis Q_trans : forall a b c, Q a b -> Q b c -> Q a c.
  Hypothesis Q_op : forall o tl, Q tl (fst (exec_op cfg tl o)).
  Hypothesis Q_upd : forall tl id tr tr', find_track id (tracks tl) = Some tr -> t_id tr' = id -> Q tl (upd_track tl tr').
  Hypothesis Q_rm : forall tl id, Q tl (remove_track tl id).
  (* only the scheduling part of the state matters: tracks (up to replacing tracks by same-id versions), next_id *)
  Hypothesis Q_pre : forall tl, Q tl (fst (tick_pre tl)).
  Hypothesis Q_ext : forall tl tl', tracks tl' = tracks tl -> next_id tl' = next_id tl -> Q tl tl'.

  Lemma Q_tl_tick tl : Q tl (fst (fst (tl_tick cfg tl))).
  Proof.
    pose proof (tl_tick_result cfg tl) as R. pose proof (Q_pre tl) as P.
    destruct (tick_pre tl) as [tl3 c13]. cbn [fst] in *. destruct R as [R1 [_ R3]].
    apply (Q_trans _ _ _ P).
    apply (Q_trans _ (fst (fst (phase_tracks cfg tl3 (map t_id (tracks tl3)) [])))).
    - apply (Q_phase_tracks cfg Q (fun _ _ => True));
        [exact Q_refl|exact Q_trans|intros cb o tl0 _; apply Q_op|intros; eapply Q_upd; eauto|exact Q_rm
        |intros; apply Q_ext; reflexivity|auto|auto|auto].
    - apply Q_ext; [exact R1|exact R3].
  Qed.
  Lemma Q_step tl o : Q tl (fst (fst (step cfg tl o))).
  Proof.
    destruct o; try (unfold step; match goal with |- context [exec_op ?c ?t ?o] =>
      pose proof (Q_op o t) as H; destruct (exec_op c t o) as [tl' r0]; exact H end).
    apply Q_tl_tick.
  Qed.
  Theorem Q_run ops : forall tl, Q tl (run_state cfg tl ops).
  Proof.
    induction ops as [|o r IH]; intros tl; [apply Q_refl|]. cbn [run_state].
    pose proof (Q_step tl o) as H. destruct (step cfg tl o) as [[tl' c] res]. cbn [fst] in H.
    apply (Q_trans _ _ _ H). apply IH.
  Qed.
End Histories.

(** * 4. max_tracks *)
Definition within (M : Z) (tl tl' : timeline) : Prop :=
  Z.of_nat (length (tracks tl)) <= M -> Z.of_nat (length (tracks tl')) <= M.

Lemma ids_length (l l' : list track) : map t_id l' = map t_id l -> length l' = length l.
Proof. intros H. rewrite <- (map_length t_id l'), H. apply map_length. Qed.

Lemma clear_tracks l : forall tl, tracks tl = l ->
  tracks (fold_left (fun tl' tr => remove_track tl' (t_id tr)) l tl) = [].
Proof.
  induction l as [|x r IH]; intros tl H; simpl; [exact H|]. apply IH.
  rewrite remove_track_tracks, H. simpl. rewrite Nat.eqb_refl. reflexivity.
Qed.

Lemma exec_op_within cfg o tl : 0 < max_tracks cfg -> within (max_tracks cfg) tl (fst (exec_op cfg tl o)).
Proof.
  intros HM W.
  destruct o as [|s q d count rwd name replace|t s q d count|t| |t|t|t x|q d]; cbn [exec_op fst]; try exact W.
  - fold (named_target tl name replace). destruct (named_target tl name replace) as [[nm tr]|] eqn:NT.
    + pose proof (track_update_sched cfg tl tr s q d count) as U.
      destruct (track_update cfg tl tr s q d count) as [tl1 tr1]. destruct U as [U1 _]. cbn [fst tracks set_tracks].
      rewrite put_named_length, U1. exact W.
    + destruct (negb (max_tracks cfg =? 0) && (max_tracks cfg <=? Z.of_nat (length (tracks tl)))) eqn:L; [exact W|].
      pose proof (track_update_sched cfg tl (new_track (next_id tl) count rwd name) s q d None) as U.
      destruct (track_update cfg tl (new_track (next_id tl) count rwd name) s q d None) as [tl1 tr1].
      destruct U as [U1 _]. cbn [fst tracks]. rewrite U1, app_length. simpl. lia.
  - destruct (find_track t (tracks tl)) as [tr|].
    + pose proof (track_update_sched cfg tl tr s q d count) as U.
      destruct (track_update cfg tl tr s q d count) as [tl1 tr1]. destruct U as [U1 _]. cbn [fst upd_track tracks set_tracks].
      rewrite put_length, U1. exact W.
    + destruct (t <? next_id tl)%nat; [|exact W].
      pose proof (track_update_sched cfg tl (new_track t None true None) s q d count) as U.
      destruct (track_update cfg tl (new_track t None true None) s q d count) as [tl1 tr1]. destruct U as [U1 _]. cbn [fst].
      rewrite U1. exact W.
  - destruct (find_track t (tracks tl)); cbn [fst]; [|exact W].
    rewrite remove_track_tracks. pose proof (del_length_le t (tracks tl)). lia.
  - rewrite (clear_tracks (tracks tl) tl eq_refl). simpl. lia.
  - destruct (find_track t (tracks tl)); cbn [fst upd_track tracks set_tracks]; [rewrite put_length|]; exact W.
  - destruct (find_track t (tracks tl)); cbn [fst upd_track tracks set_tracks]; [rewrite put_length|]; exact W.
  - destruct (find_track t (tracks tl)); cbn [fst upd_track tracks set_tracks]; [rewrite put_length|]; exact W.
Qed.

Theorem max_tracks_invariant cfg ops tl : 0 < max_tracks cfg ->
  Z.of_nat (length (tracks tl)) <= max_tracks cfg ->
  Z.of_nat (length (tracks (run_state cfg tl ops))) <= max_tracks cfg.
Proof.
  intros HM. apply (Q_run cfg (within (max_tracks cfg))).
  - intros tl0 H. exact H.
  - intros a b c H1 H2 H. apply H2, H1, H.
  - intros o tl0. apply exec_op_within. exact HM.
  - intros tl0 id tr tr' _ _ H. cbn [upd_track tracks set_tracks]. rewrite put_length. exact H.
  - intros tl0 id H. rewrite remove_track_tracks. pose proof (del_length_le id (tracks tl0)). lia.
  - intros tl0 H. destruct (tick_pre_spec tl0) as [_ [_ [_ [Ids _]]]]. rewrite (ids_length _ _ Ids). exact H.
  - intros tl0 tl' E _ H. rewrite E. exact H.
Qed.

(* the refused call: TrackLimitReachedException, nothing changes *)
Lemma schedule_refused cfg tl s q d count rwd name replace :
  named_target tl name replace = None -> accepts_new cfg tl = false ->
  exec_op cfg tl (OSchedule s q d count rwd name replace) = (tl, RTrackLimit).
Proof.
  intros Hn Hacc. unfold accepts_new in Hacc. apply negb_false_iff in Hacc. cbn [exec_op].
  fold (named_target tl name replace). rewrite Hn, Hacc. reflexivity.
Qed.
Lemma accepts_new_iff cfg tl : accepts_new cfg tl = false <->
  max_tracks cfg <> 0 /\ max_tracks cfg <= Z.of_nat (length (tracks tl)).
Proof. unfold accepts_new. rewrite negb_false_iff, andb_true_iff, negb_true_iff, Z.eqb_neq, Z.leb_le. tauto. Qed.

(** * 5. named replace *)
Lemma find_named_name nm l tr : find_named nm l = Some tr -> t_name tr = Some nm.
Proof.
  induction l as [|x r IH]; simpl; [discriminate|].
  destruct (t_name x) as [n|] eqn:E; [|exact IH].
  destruct (n =? nm) eqn:E2; [|exact IH]. intros H. inversion H; subst. rewrite E. f_equal. lia.
Qed.
Lemma find_put_named nm t' l tr : find_named nm l = Some tr -> t_name t' = Some nm ->
  find_named nm (put_named nm t' l) = Some t'.
Proof.
  induction l as [|x r IH]; simpl; [discriminate|].
  destruct (t_name x) as [n|] eqn:E.
  - destruct (n =? nm) eqn:E2; intros H Hn; simpl.
    + rewrite Hn, Z.eqb_refl. reflexivity.
    + rewrite E, E2. apply IH; assumption.
  - intros H Hn. simpl. rewrite E. apply IH; assumption.
Qed.

Theorem named_replace cfg tl s q d count rwd name replace nm tr :
  named_target tl name replace = Some (nm, tr) ->
  let '(tl', res) := exec_op cfg tl (OSchedule s q d count rwd name replace) in
  res = ROk /\ length (tracks tl') = length (tracks tl) /\ map t_id (tracks tl') = map t_id (tracks tl)
  /\ next_id tl' = next_id tl
  /\ exists tr', find_named nm (tracks tl') = Some tr' /\ t_id tr' = t_id tr /\ t_count tr' = 0 /\ t_muted tr' = false
       /\ t_offs tr' = t_offs tr
       /\ tr' = set_muted (set_count (snd (track_update cfg tl tr s q d count)) 0) false.
Proof.
  intros NT. cbn [exec_op]. fold (named_target tl name replace). rewrite NT.
  apply named_target_find in NT as [_ [_ F]].
  pose proof (track_update_sched cfg tl tr s q d count) as U.
  assert (Ho : t_offs (snd (track_update cfg tl tr s q d count)) = t_offs tr).
  { rewrite track_update_spec. destruct (immediate cfg tl q d); destruct count; reflexivity. }
  destruct (track_update cfg tl tr s q d count) as [tl1 tr1]. destruct U as [U1 [U2 [U3 [U4 _]]]]. cbn [snd] in Ho.
  cbn [tracks set_tracks next_id]. split; [reflexivity|].
  split; [rewrite put_named_length, U1; reflexivity|].
  split; [rewrite U1; apply (put_named_ids _ _ _ tr F); exact U3|].
  split; [exact U2|].
  eexists. split; [|split; [|split; [|split; [|split]]]]; [| | | | |reflexivity].
  - rewrite U1. apply (find_put_named _ _ _ tr F). cbn [t_name set_muted set_count]. rewrite U4. apply (find_named_name _ _ _ F).
  - exact U3.
  - reflexivity.
  - reflexivity.
  - exact Ho.
Qed.

(** * 6. unschedule, clear: gone for good *)
Lemma unschedule_spec cfg tl t : wf tl ->
  match find_track t (tracks tl) with
  | Some tr => exec_op cfg tl (OUnschedule t) = (remove_track tl t, ROk)
               /\ find_track t (tracks (remove_track tl t)) = None
               /\ actions (remove_track tl t) = actions tl ++ release_actions tr
  | None => exec_op cfg tl (OUnschedule t) = (tl, RTrackNotFound)
  end.
Proof.
  intros W. cbn [exec_op]. destruct (find_track t (tracks tl)) as [tr|] eqn:F; [|reflexivity].
  split; [reflexivity|]. split.
  - rewrite remove_track_tracks. apply find_del_same. exact (proj1 W).
  - unfold remove_track. rewrite F. reflexivity.
Qed.
Lemma clear_spec cfg tl : tracks (fst (exec_op cfg tl OClear)) = [] /\ snd (exec_op cfg tl OClear) = ROk.
Proof. cbn [exec_op fst snd]. split; [apply clear_tracks; reflexivity|reflexivity]. Qed.

(* ids are never reused: a track id below next_id that is not scheduled is never scheduled again *)
Definition gone_stays (tl tl' : timeline) : Prop :=
  wf tl -> wf tl' /\ (next_id tl <= next_id tl')%nat
           /\ forall id, (id < next_id tl)%nat -> find_track id (tracks tl) = None -> find_track id (tracks tl') = None.
Lemma gs_refl tl : gone_stays tl tl.
Proof. intros W. split; [exact W|]. split; [lia|auto]. Qed.
Lemma gs_trans a b c : gone_stays a b -> gone_stays b c -> gone_stays a c.
Proof.
  intros H1 H2 W. destruct (H1 W) as [Wb [N1 G1]]. destruct (H2 Wb) as [Wc [N2 G2]].
  split; [exact Wc|]. split; [lia|]. intros id Hid F. apply G2; [lia|]. apply G1; assumption.
Qed.
Lemma gs_ids tl tl' : (forall id, find_track id (tracks tl) = None -> find_track id (tracks tl') = None) ->
  (wf tl -> wf tl') -> next_id tl' = next_id tl -> gone_stays tl tl'.
Proof. intros H HW N W. split; [apply HW; exact W|]. split; [lia|]. intros id _ F. apply H. exact F. Qed.
Lemma find_none_ids (l l' : list track) : map t_id l' = map t_id l ->
  forall id, find_track id l = None -> find_track id l' = None.
Proof. intros E id. rewrite !find_none_notin, E. auto. Qed.
Lemma del_find_none id' l id : find_track id l = None -> find_track id (del_track id' l) = None.
Proof. rewrite !find_none_notin. intros H Hi. apply H. apply (del_ids_incl id' l). exact Hi. Qed.

Lemma gs_remove tl id : gone_stays tl (remove_track tl id).
Proof.
  apply gs_ids.
  - intros i F. rewrite remove_track_tracks. apply del_find_none. exact F.
  - apply wf_remove.
  - unfold remove_track. destruct (find_track id (tracks tl)); reflexivity.
Qed.
Lemma gs_upd tl tr' : gone_stays tl (upd_track tl tr').
Proof.
  apply gs_ids; [|apply wf_upd|reflexivity].
  intros i. apply find_none_ids. apply put_ids.
Qed.
Lemma gs_clear l : forall tl, gone_stays tl (fold_left (fun tl' tr => remove_track tl' (t_id tr)) l tl).
Proof.
  induction l as [|x r IH]; intros tl; simpl; [apply gs_refl|].
  apply (gs_trans _ (remove_track tl (t_id x))); [apply gs_remove|apply IH].
Qed.

Lemma exec_op_gs cfg o tl : gone_stays tl (fst (exec_op cfg tl o)).
Proof.
  destruct o as [|s q d count rwd name replace|t s q d count|t| |t|t|t x|q d]; cbn [exec_op fst]; try apply gs_refl.
  - fold (named_target tl name replace). destruct (named_target tl name replace) as [[nm tr]|] eqn:NT.
    + apply named_target_find in NT as [_ [_ F]].
      pose proof (track_update_sched cfg tl tr s q d count) as U.
      destruct (track_update cfg tl tr s q d count) as [tl1 tr1]. destruct U as [U1 [U2 [U3 _]]]. cbn [fst].
      assert (E : map t_id (put_named nm (set_muted (set_count tr1 0) false) (tracks tl1)) = map t_id (tracks tl)).
      { rewrite U1. apply (put_named_ids _ _ _ tr F). exact U3. }
      apply gs_ids; cbn [tracks set_tracks next_id].
      * intros i. apply find_none_ids. exact E.
      * apply wf_same; cbn [tracks set_tracks next_id]; [exact E|lia].
      * exact U2.
    + destruct (negb (max_tracks cfg =? 0) && (max_tracks cfg <=? Z.of_nat (length (tracks tl)))) eqn:L; [apply gs_refl|].
      intros W. split; [|split].
      * pose proof (exec_op_wf cfg tl (OSchedule s q d count rwd name replace) W) as H.
        cbn [exec_op] in H. fold (named_target tl name replace) in H. rewrite NT, L in H. exact H.
      * pose proof (track_update_sched cfg tl (new_track (next_id tl) count rwd name) s q d None) as U.
        destruct (track_update cfg tl (new_track (next_id tl) count rwd name) s q d None) as [tl1 tr1].
        destruct U as [_ [U2 _]]. cbn [fst next_id]. lia.
      * intros id Hid F.
        pose proof (track_update_sched cfg tl (new_track (next_id tl) count rwd name) s q d None) as U.
        destruct (track_update cfg tl (new_track (next_id tl) count rwd name) s q d None) as [tl1 tr1].
        destruct U as [U1 [U2 [U3 _]]]. cbn [fst tracks]. rewrite U1.
        apply find_none_notin. rewrite map_app, in_app_iff. cbn [map In]. rewrite U3. cbn [new_track t_id].
        apply find_none_notin in F. intros [Hi|[Hi|[]]]; [contradiction|lia].
  - destruct (find_track t (tracks tl)) as [tr|].
    + pose proof (track_update_sched cfg tl tr s q d count) as U.
      destruct (track_update cfg tl tr s q d count) as [tl1 tr1]. destruct U as [U1 [U2 _]]. cbn [fst].
      apply (gs_trans _ tl1); [|apply gs_upd].
      apply gs_ids; [rewrite U1; auto|apply wf_same; [rewrite U1; reflexivity|lia]|exact U2].
    + destruct (t <? next_id tl)%nat; [|apply gs_refl].
      pose proof (track_update_sched cfg tl (new_track t None true None) s q d count) as U.
      destruct (track_update cfg tl (new_track t None true None) s q d count) as [tl1 tr1]. destruct U as [U1 [U2 _]]. cbn [fst].
      apply gs_ids; [rewrite U1; auto|apply wf_same; [rewrite U1; reflexivity|lia]|exact U2].
  - destruct (find_track t (tracks tl)); cbn [fst]; [apply gs_remove|apply gs_refl].
  - apply gs_clear.
  - destruct (find_track t (tracks tl)); cbn [fst]; [apply gs_upd|apply gs_refl].
  - destruct (find_track t (tracks tl)); cbn [fst]; [apply gs_upd|apply gs_refl].
  - destruct (find_track t (tracks tl)); cbn [fst]; [apply gs_upd|apply gs_refl].
  - apply gs_ids; auto.
Qed.

Theorem gone_for_good cfg ops tl id : wf tl -> (id < next_id tl)%nat -> find_track id (tracks tl) = None ->
  find_track id (tracks (run_state cfg tl ops)) = None.
Proof.
  intros W Hid F.
  assert (G : gone_stays tl (run_state cfg tl ops)).
  { apply (Q_run cfg gone_stays).
    - apply gs_refl.
    - apply gs_trans.
    - intros o tl0. apply exec_op_gs.
    - intros tl0 i tr tr' _ _. apply gs_upd.
    - apply gs_remove.
    - intros tl0. destruct (tick_pre_spec tl0) as [_ [Ni [_ [Ids _]]]].
      apply gs_ids; [intros i; apply find_none_ids; exact Ids|apply tick_pre_wf|exact Ni].
    - intros tl0 tl' E N. apply gs_ids; [rewrite E; auto|apply wf_same; [rewrite E; reflexivity|lia]|exact N]. }
  destruct (G W) as [_ [_ H]]. apply H; assumption.
Qed.

(* a track that is not scheduled takes no turn: no call, no effect *)
Lemma absent_no_turn cfg tl id : find_track id (tracks tl) = None -> tick_one cfg tl id = (tl, [], None).
Proof. intros F. unfold tick_one. rewrite F. reflexivity. Qed.

(* the scheduled ids are below next_id: an id that has been handed out and is not scheduled now *)
Lemma scheduled_below tl id tr : wf tl -> find_track id (tracks tl) = Some tr -> (id < next_id tl)%nat.
Proof.
  intros [_ W] F. rewrite Forall_forall in W. apply W.
  rewrite <- (find_track_id _ _ _ F). apply in_map. apply (find_some_in _ _ _ F).
Qed.

(** * 3. stop-when-done *)
Theorem stop_iff cfg tl :
  let '(tl', _, res) := tl_tick cfg tl in
  (res = RStopIteration -> tracks tl' = [] /\ actions tl' = [] /\ stop_when_done cfg = true /\ now tl' = now tl)
  /\ (res = ROk -> ~ (tracks tl' = [] /\ actions tl' = [] /\ stop_when_done cfg = true) /\ now tl' = now tl + tau cfg).
Proof.
  pose proof (tl_tick_now cfg tl) as Nw. rewrite tl_tick_pre in *.
  destruct (tick_pre tl) as [tl3 c13].
  pose proof (phase_tracks_not_stop cfg (map t_id (tracks tl3)) tl3 []) as NS.
  destruct (phase_tracks cfg tl3 (map t_id (tracks tl3)) []) as [[tl4 c4] res]. cbn [snd] in NS.
  destruct res; try (split; intros H; [discriminate H|discriminate H]); try (split; intros H; [contradiction|discriminate H]).
  destruct (match tracks tl4, actions tl4 with [], [] => true | _, _ => false end) eqn:E;
    destruct (stop_when_done cfg) eqn:S; cbn [andb] in *.
  - split; [intros _|intros H; discriminate H].
    destruct (tracks tl4); [|discriminate E]. destruct (actions tl4); [|discriminate E]. auto.
  - split; [intros H; discriminate H|intros _]. split; [|exact Nw]. cbn [tracks actions]. intros [_ [_ H]]. discriminate H.
  - split; [intros H; discriminate H|intros _]. split; [|exact Nw]. cbn [tracks actions]. intros [H1 [H2 _]].
    rewrite H1, H2 in E. discriminate E.
  - split; [intros H; discriminate H|intros _]. split; [|exact Nw]. cbn [tracks actions]. intros [_ [_ H]]. discriminate H.
Qed.

Lemma never_stops_when_off cfg tl : stop_when_done cfg = false -> snd (tl_tick cfg tl) <> RStopIteration.
Proof.
  intros S. pose proof (stop_iff cfg tl) as H. destruct (tl_tick cfg tl) as [[tl' c] res]. cbn [snd].
  intros E. destruct H as [H _]. destruct (H E) as [_ [_ [H3 _]]]. congruence.
Qed.

(** * 2. finished, removed *)
(* Track.tick's except clause: finished iff StopIteration was raised while no note-off is pending (or finished before) *)
Lemma tick_b_finished cfg tr st :
  t_finished (track_tick_b cfg tr st) = t_finished tr || (st && match t_offs tr with [] => true | _ => false end).
Proof.
  unfold track_tick_b. destruct st; cbn [andb].
  - destruct (t_offs tr); cbn [t_finished set_cur set_finished]; [destruct (t_finished tr); reflexivity|rewrite orb_false_r; reflexivity].
  - cbn [t_finished set_cur]. rewrite orb_false_r. reflexivity.
Qed.
Lemma tick_b_keeps cfg tr st : let tr' := track_tick_b cfg tr st in
  t_rwd tr' = t_rwd tr /\ t_offs tr' = t_offs tr /\ t_count tr' = t_count tr /\ t_stream tr' = t_stream tr
  /\ t_cur tr' = t_cur tr + tau cfg /\ t_max tr' = t_max tr /\ t_muted tr' = t_muted tr.
Proof. unfold track_tick_b. destruct (st && _); repeat split. Qed.

Lemma tick_b_keeps2 cfg tr st : t_started (track_tick_b cfg tr st) = t_started tr /\ t_next (track_tick_b cfg tr st) = t_next tr.
Proof. unfold track_tick_b. destruct (st && _); split; reflexivity. Qed.

(* StopIteration leaves Track.tick's try block exactly when the due track's loop meets the end of the stream or the
   count limit (a callback raising StopIteration is the other source: tick_one's TCallback branch) *)
Lemma tick_a_stop_iff cfg nowT tr n :
  snd (track_tick_a cfg nowT tr n) = TStop <->
  t_started tr = true /\ t_next tr <= t_cur tr /\ fst (pull_loop (fuel cfg) tr None) = PStop.
Proof.
  unfold track_tick_a. destruct (t_started tr); cbn [negb]; [|split; [discriminate|intros [H _]; discriminate H]].
  destruct (t_next tr <=? t_cur tr) eqn:D; [|split; [discriminate|intros [_ [H _]]; lia]].
  destruct (pull_loop (fuel cfg) tr None) as [[[e|]| | |] tr'] eqn:P; cbn [fst snd];
    try (split; [discriminate|intros [_ [_ H]]; discriminate H]).
  - destruct (perform_event (dev_fail cfg) nowT tr' e n) as [[[tr'' calls] n'] pf]. cbn [snd].
    split; [destruct pf; discriminate|intros [_ [_ H]]; discriminate H].
  - split; [intros _; repeat split; lia|reflexivity].
Qed.
(* the first thing the loop meets *)
Lemma pull_loop_stop_first fu tr last : (1 <= fu)%nat -> t_next tr <= t_cur tr ->
  fst (get_next_event tr) = GStop -> fst (pull_loop fu tr last) = PStop.
Proof.
  intros Hf D G. destruct fu as [|f]; [lia|]. cbn [pull_loop]. replace (t_next tr <=? t_cur tr) with true by lia.
  destruct (get_next_event tr) as [[e| |] tr']; cbn [fst] in *; try discriminate. reflexivity.
Qed.
Lemma gne_stop_iff tr : fst (get_next_event tr) = GStop <->
  count_exhausted tr = true \/ fst (pull (t_stream tr)) = RStopIter.
Proof.
  unfold get_next_event. destruct (count_exhausted tr); [split; [auto|reflexivity]|].
  destruct (pull (t_stream tr)) as [[| |e] s']; cbn [fst]; split; auto; try discriminate; intros [H|H]; discriminate H.
Qed.

(* the end of a track's turn: with StopIteration and nothing sounding the track is finished, and a remove_when_done
   track is removed in that very turn; otherwise it stays *)
Theorem finish_track_spec cfg tl id tr stopped : wf tl -> find_track id (tracks tl) = Some tr ->
  let tr' := track_tick_b cfg tr stopped in
  let tl' := finish_track cfg tl id stopped in
  t_finished tr' = t_finished tr || (stopped && match t_offs tr with [] => true | _ => false end)
  /\ (t_finished tr' && t_rwd tr = true -> find_track id (tracks tl') = None /\ actions tl' = actions tl ++ release_actions tr')
  /\ (t_finished tr' && t_rwd tr = false -> find_track id (tracks tl') = Some tr' /\ actions tl' = actions tl).
Proof.
  intros W F tr' tl'. split; [apply tick_b_finished|].
  assert (Eid : t_id tr' = id) by (unfold tr'; rewrite tick_b_id; apply (find_track_id _ _ _ F)).
  assert (Er : t_rwd tr' = t_rwd tr) by apply (tick_b_keeps cfg tr stopped).
  assert (F' : find_track id (tracks (upd_track tl tr')) = Some tr').
  { cbn [upd_track tracks set_tracks]. rewrite <- Eid. apply (find_put_same _ _ tr). rewrite Eid. exact F. }
  unfold tl', finish_track. rewrite F. fold tr'. rewrite Er.
  split; intros H; rewrite H.
  - split.
    + rewrite remove_track_tracks. apply find_del_same. apply (wf_upd tl tr' W).
    + unfold remove_track. rewrite F'. reflexivity.
  - split; [exact F'|reflexivity].
Qed.

(** * 6'. muted *)
Lemma muted_silent fail nowT tr e n : t_muted tr = true -> perform_event fail nowT tr e n = (tr, [], n, PfOk).
Proof. intros H. apply perform_silent. right. exact H. Qed.
Lemma mute_spec cfg tl t tr : find_track t (tracks tl) = Some tr ->
  find_track t (tracks (fst (exec_op cfg tl (OMute t)))) = Some (set_muted tr true)
  /\ find_track t (tracks (fst (exec_op cfg tl (OUnmute t)))) = Some (set_muted tr false).
Proof.
  intros F. pose proof (find_track_id _ _ _ F) as Eid. cbn [exec_op]. rewrite F. cbn [fst upd_track tracks set_tracks].
  split.
  - replace t with (t_id (set_muted tr true)) at 1 by exact Eid. apply (find_put_same _ _ tr). cbn [t_id set_muted]. rewrite Eid. exact F.
  - replace t with (t_id (set_muted tr false)) at 1 by exact Eid. apply (find_put_same _ _ tr). cbn [t_id set_muted]. rewrite Eid. exact F.
Qed.

(** * 1. event counts *)
(* Track.get_next_event: StopIteration without touching anything once the count limit is reached; otherwise one
   pull, and the count goes up by exactly one per event delivered *)
Lemma gne_spec tr :
  (count_exhausted tr = true -> get_next_event tr = (GStop, tr))
  /\ (count_exhausted tr = false ->
      match fst (pull (t_stream tr)) with
      | REvent e => get_next_event tr = (GEvent e, set_count (set_stream tr (snd (pull (t_stream tr)))) (t_count tr + 1))
      | RStopIter => get_next_event tr = (GStop, set_stream tr (snd (pull (t_stream tr))))
      | RRaise => get_next_event tr = (GRaise, set_stream tr (snd (pull (t_stream tr))))
      end).
Proof.
  unfold get_next_event. split; intros ->; [reflexivity|].
  destruct (pull (t_stream tr)) as [[| |e] s']; reflexivity.
Qed.
Lemma count_exhausted_iff tr : count_exhausted tr = true <->
  exists m, t_max tr = Some m /\ m <> 0 /\ m <= t_count tr.
Proof.
  unfold count_exhausted. destruct (t_max tr) as [m|].
  - rewrite andb_true_iff, negb_true_iff, Z.eqb_neq, Z.leb_le. split.
    + intros [H1 H2]. exists m. auto.
    + intros [m' [E [H1 H2]]]. inversion E; subst. auto.
  - split; [discriminate|intros [m [E _]]; discriminate E].
Qed.

(* the number of ticks, among the first j, on which an event was handed to perform_event *)
Fixpoint perf_run (cfg : config) (nowT : Z) (tr : track) (n : nat) (j : nat) : Z :=
  match j with
  | O => 0
  | S j' => let '(tr', _, n', _) := track_tick cfg nowT tr n in
            (match tick_event cfg tr with Some _ => 1 | None => 0 end) + perf_run cfg (nowT + tau cfg) tr' n' j'
  end.

Lemma track_run_add cfg : forall a b nowT tr n,
  track_run cfg nowT tr n (a + b) =
  track_run cfg (nowT + Z.of_nat a * tau cfg) (fst (track_run cfg nowT tr n a)) (snd (track_run cfg nowT tr n a)) b.
Proof.
  induction a as [|a IH]; intros b nowT tr n.
  - simpl. replace (nowT + Z.of_nat 0 * tau cfg) with nowT by lia. reflexivity.
  - cbn [Nat.add track_run]. destruct (track_tick cfg nowT tr n) as [[[tr' c] n'] res].
    rewrite IH. replace (nowT + tau cfg + Z.of_nat a * tau cfg) with (nowT + Z.of_nat (S a) * tau cfg) by lia. reflexivity.
Qed.

Section Count.
  Variable cfg : config.
  Variable items : list evres.           (* the stream: one pass (or cycle) of results of next() *)
  Variable cyclic : bool.
  Variable mx : option Z.                (* max_event_count *)
  Variable c0 : Z.                       (* current_event_count when the stream starts *)
  Hypothesis Htau : 0 < tau cfg.
  Hypothesis Hfuel : (2 <= fuel cfg)%nat.
  Hypothesis Hfail : dev_fail cfg = None.
  Hypothesis Hitems : forall i, (i < length items)%nat ->
    exists e, nth i items RStopIter = REvent e /\ tau cfg <= e_dur e.
  Hypothesis Hc0 : 0 <= c0.

  Definition endless : bool := cyclic && (0 <? length items)%nat.
  Definition cap : option Z :=
    match mx with Some m => if m =? 0 then None else Some (Z.max 0 (m - c0)) | None => None end.
  (* how many events the track will perform from here: min(count left, stream length); None = unbounded *)
  Definition lim : option Z :=
    match cap, endless with
    | Some a, true => Some a
    | Some a, false => Some (Z.min a (Z.of_nat (length items)))
    | None, true => None
    | None, false => Some (Z.of_nat (length items))
    end.
  Definition below (p : Z) : Prop := match lim with Some l => p < l | None => True end.

  Record CInv (p : Z) (tr : track) : Prop := {
    c_started : t_started tr = true;
    c_items : s_items (t_stream tr) = items;
    c_cyc : s_cyclic (t_stream tr) = cyclic;
    c_pos : if endless then (s_pos (t_stream tr) < length items)%nat else Z.of_nat (s_pos (t_stream tr)) = p;
    c_count : t_count tr = c0 + p;
    c_max : t_max tr = mx;
    c_p : 0 <= p;
    c_le : match lim with Some l => p <= l | None => True end;
    c_due : below p -> t_cur tr - tau cfg < t_next tr }.

  Lemma below_dec p : {below p} + {lim = Some p \/ exists l, lim = Some l /\ l < p}.
  Proof.
    unfold below. destruct lim as [l|]; [|left; exact I].
    destruct (Z_lt_dec p l); [left; assumption|]. right.
    destruct (Z.eq_dec p l); [left; congruence|right; exists l; split; [reflexivity|lia]].
  Qed.

  Lemma below_not_exhausted p tr : CInv p tr -> below p -> count_exhausted tr = false.
  Proof.
    intros I B. destruct (count_exhausted tr) eqn:E; [|reflexivity]. exfalso.
    apply count_exhausted_iff in E as [m [E1 [E2 E3]]].
    rewrite (c_max _ _ I) in E1. rewrite (c_count _ _ I) in E3. pose proof (c_p _ _ I).
    unfold below, lim, cap in B. rewrite E1 in B. replace (m =? 0) with false in B by lia.
    destruct endless; lia.
  Qed.
  Lemma below_pos p tr : CInv p tr -> below p -> (s_pos (t_stream tr) < length items)%nat.
  Proof.
    intros I B. pose proof (c_pos _ _ I) as P. pose proof (c_p _ _ I).
    unfold below, lim in B. destruct endless; [exact P|]. destruct cap; lia.
  Qed.

  (* below the limit the next event is delivered and lasts at least a tick *)
  Lemma gne_below p tr : CInv p tr -> below p ->
    exists e tr1, get_next_event tr = (GEvent e, tr1) /\ tau cfg <= e_dur e
      /\ t_started tr1 = true /\ s_items (t_stream tr1) = items /\ s_cyclic (t_stream tr1) = cyclic
      /\ (if endless then (s_pos (t_stream tr1) < length items)%nat else Z.of_nat (s_pos (t_stream tr1)) = p + 1)
      /\ t_count tr1 = c0 + (p + 1) /\ t_max tr1 = mx /\ t_cur tr1 = t_cur tr /\ t_next tr1 = t_next tr.
  Proof.
    intros I B. pose proof (below_not_exhausted p tr I B) as NE. pose proof (below_pos p tr I B) as Hpos.
    destruct (Hitems _ Hpos) as [e [He Hd]].
    pose proof (c_items _ _ I) as Ci. pose proof (c_cyc _ _ I) as Cc. pose proof (c_pos _ _ I) as Cp.
    assert (P : pull (t_stream tr) = (REvent e,
              mkStream items (if cyclic && (S (s_pos (t_stream tr)) =? length items)%nat then 0%nat else S (s_pos (t_stream tr))) cyclic)).
    { unfold pull. rewrite Ci, Cc. replace (s_pos (t_stream tr) <? length items)%nat with true by lia. rewrite He. reflexivity. }
    destruct (gne_spec tr) as [_ G]. specialize (G NE). rewrite P in G. cbn [fst snd] in G.
    eexists. eexists. split; [exact G|]. split; [exact Hd|].
    cbn [t_started t_stream t_count t_max t_cur t_next set_count set_stream s_items s_cyclic s_pos].
    split; [apply (c_started _ _ I)|]. split; [reflexivity|]. split; [reflexivity|].
    split; [|split; [rewrite (c_count _ _ I); lia|split; [apply (c_max _ _ I)|split; reflexivity]]].
    unfold endless in *. destruct cyclic; cbn [andb] in *.
    - destruct (0 <? length items)%nat eqn:Z0.
      + destruct (S (s_pos (t_stream tr)) =? length items)%nat eqn:E; lia.
      + lia.
    - lia.
  Qed.

  (* at the limit: StopIteration, and the track is as it was *)
  Lemma gne_at_lim p tr : CInv p tr -> lim = Some p ->
    fst (get_next_event tr) = GStop /\ CInv p (snd (get_next_event tr))
    /\ t_cur (snd (get_next_event tr)) = t_cur tr /\ t_next (snd (get_next_event tr)) = t_next tr
    /\ t_offs (snd (get_next_event tr)) = t_offs tr.
  Proof.
    intros I Lp. destruct (gne_spec tr) as [G1 G2].
    destruct (count_exhausted tr) eqn:E.
    - rewrite (G1 eq_refl). cbn [fst snd]. auto.
    - specialize (G2 eq_refl).
      assert (P : pull (t_stream tr) = (RStopIter, t_stream tr)).
      { pose proof (c_pos _ _ I) as Cp. pose proof (c_items _ _ I) as Ci. pose proof (c_count _ _ I) as Cn.
        pose proof (c_max _ _ I) as Cm. pose proof (c_p _ _ I) as C0.
        assert (NE : ~ (exists m, t_max tr = Some m /\ m <> 0 /\ m <= t_count tr)).
        { intros H. apply count_exhausted_iff in H. congruence. }
        unfold pull. rewrite Ci.
        assert (Hge : (length items <= s_pos (t_stream tr))%nat).
        { unfold lim, cap in Lp. rewrite Cm, Cn in NE.
          destruct mx as [m|].
          - destruct (m =? 0) eqn:M0.
            + destruct endless; [discriminate|]. inversion Lp. lia.
            + destruct endless.
              * exfalso. apply NE. exists m. split; [reflexivity|]. inversion Lp. lia.
              * inversion Lp as [Lp']. destruct (Z_le_gt_dec (Z.max 0 (m - c0)) (Z.of_nat (length items))).
                -- exfalso. apply NE. exists m. split; [reflexivity|]. lia.
                -- lia.
          - destruct endless; [discriminate|]. inversion Lp. lia. }
        replace (s_pos (t_stream tr) <? length items)%nat with false by lia. reflexivity. }
      rewrite P in G2. cbn [fst snd] in G2. rewrite G2. cbn [fst snd].
      split; [reflexivity|]. split; [|repeat split].
      destruct I. constructor; auto.
  Qed.

  (* one Track.tick *)
  Lemma count_tick p tr nowT n : CInv p tr ->
    let '(tr', _, _, _) := track_tick cfg nowT tr n in
    exists p', CInv p' tr'
      /\ p' = p + (match tick_event cfg tr with Some _ => 1 | None => 0 end)
      /\ t_cur tr' = t_cur tr + tau cfg
      /\ (t_cur tr < t_next tr -> t_next tr' = t_next tr).
  Proof.
    intros I. pose proof (c_started _ _ I) as Hs.
    destruct (Z_lt_le_dec (t_cur tr) (t_next tr)) as [Hidle|Hdue].
    - (* nothing due *)
      assert (D : (t_next tr <=? t_cur tr) = false) by lia.
      unfold track_tick, track_tick_a, tick_event. rewrite Hs, D. cbn [negb].
      exists p. split; [|split; [lia|split; [reflexivity|intros _; reflexivity]]].
      destruct I. constructor; auto. intros B. cbn [t_cur t_next track_tick_b set_cur andb]. lia.
    - assert (D : (t_next tr <=? t_cur tr) = true) by lia.
      destruct (below_dec p) as [B|[Lp|[l [Ll Hl]]]].
      + (* an event is due and delivered: exactly one pull, performed *)
        destruct (gne_below p tr I B) as [e [tr1 [G [Hd [S1 [I1 [C1 [P1 [N1 [M1 [Cu1 Nx1]]]]]]]]]]].
        pose proof (c_due _ _ I B) as Hnd.
        assert (D2 : (t_next tr1 + e_dur e <=? t_cur tr1) = false) by lia.
        pose proof (pull_loop_once (fuel cfg) tr e tr1 Hfuel D G D2) as PL.
        unfold track_tick, track_tick_a, tick_event. rewrite Hs, D, PL, Hfail. cbn [negb].
        pose proof (perform_keeps None nowT (set_next tr1 (t_next tr1 + e_dur e)) e n) as K.
        pose proof (perform_no_raise nowT (set_next tr1 (t_next tr1 + e_dur e)) e n) as NR.
        destruct (perform_event None nowT (set_next tr1 (t_next tr1 + e_dur e)) e n) as [[[tr2 calls] n'] pf].
        destruct K as [K1 [K2 [K3 [K4 [K5 K6]]]]]. cbn [t_started t_cur t_next t_stream t_max t_count set_next] in *.
        assert (Goal : exists p', CInv p' (track_tick_b cfg tr2 false) /\ p' = p + 1
                       /\ t_cur (track_tick_b cfg tr2 false) = t_cur tr + tau cfg
                       /\ (t_cur tr < t_next tr -> t_next (track_tick_b cfg tr2 false) = t_next tr)).
        { exists (p + 1). split; [|split; [reflexivity|split; [cbn [track_tick_b andb set_cur t_cur]; lia|intros; lia]]].
          constructor; cbn [track_tick_b andb set_cur t_started t_stream t_count t_max t_cur t_next]; try congruence.
          - rewrite K4. exact P1.
          - pose proof (c_p _ _ I). lia.
          - unfold below in B. destruct lim; [lia|trivial].
          - intros _. lia. }
        destruct pf; try exact Goal. congruence.
      + (* the limit has been reached: StopIteration, nothing performed, nothing changes but the clock *)
        destruct (gne_at_lim p tr I Lp) as [G [I' [Cu [Nx Of]]]].
        destruct (get_next_event tr) as [g tr1] eqn:GE. cbn [fst snd] in *. subst g.
        unfold track_tick, track_tick_a, tick_event. rewrite Hs, D. cbn [negb].
        destruct (fuel cfg) as [|f]; [lia|]. cbn [pull_loop]. rewrite D, GE.
        destruct (tick_b_keeps cfg tr1 true) as [_ [_ [Kc [Ks [Kcu [Km _]]]]]].
        destruct (tick_b_keeps2 cfg tr1 true) as [Kst Knx].
        exists p. split; [|split; [lia|split; [rewrite Kcu; lia|intros; lia]]].
        destruct I'. constructor; try (rewrite ?Kc, ?Ks, ?Km, ?Kst; assumption).
        intros B; exfalso; unfold below in B; rewrite Lp in B; lia.
      + exfalso. pose proof (c_le _ _ I) as H. rewrite Ll in H. lia.
  Qed.

  (** over any number of ticks: performed = pulled = count - c0, never above the limit *)
  Theorem count_run : forall j p tr nowT n, CInv p tr ->
    exists p', CInv p' (fst (track_run cfg nowT tr n j)) /\ p' = p + perf_run cfg nowT tr n j.
  Proof.
    induction j as [|j IH]; intros p tr nowT n I; [exists p; split; [exact I|simpl; lia]|].
    cbn [track_run perf_run]. pose proof (count_tick p tr nowT n I) as T.
    destruct (track_tick cfg nowT tr n) as [[[tr' c] n'] res]. destruct T as [p1 [I1 [E1 _]]].
    destruct (IH p1 tr' (nowT + tau cfg) n' I1) as [p2 [I2 E2]]. exists p2. split; [exact I2|lia].
  Qed.

  (* progress: below the limit the next event comes after finitely many ticks *)
  Lemma count_progress : forall k p tr nowT n, CInv p tr -> below p -> t_next tr <= t_cur tr + Z.of_nat k * tau cfg ->
    exists j, CInv (p + 1) (fst (track_run cfg nowT tr n j)).
  Proof.
    induction k as [|k IH]; intros p tr nowT n I B Hk.
    - exists 1%nat. cbn [track_run]. pose proof (count_tick p tr nowT n I) as T.
      destruct (track_tick cfg nowT tr n) as [[[tr' c] n'] res] eqn:TT. destruct T as [p1 [I1 [E1 _]]]. cbn [fst].
      assert (TE : exists e, tick_event cfg tr = Some e).
      { destruct (gne_below p tr I B) as [e [tr1 [G [Hd [_ [_ [_ [_ [_ [_ [Cu1 Nx1]]]]]]]]]]].
        exists e. unfold tick_event. rewrite (c_started _ _ I). cbn [negb].
        assert (D : (t_next tr <=? t_cur tr) = true) by lia. rewrite D.
        pose proof (c_due _ _ I B).
        rewrite (pull_loop_once (fuel cfg) tr e tr1 Hfuel D G); [reflexivity|lia]. }
      destruct TE as [e TE]. rewrite TE in E1. subst p1. exact I1.
    - destruct (Z_lt_le_dec (t_cur tr) (t_next tr)) as [Hidle|Hdue].
      + pose proof (count_tick p tr nowT n I) as T.
        destruct (track_tick cfg nowT tr n) as [[[tr' c] n'] res] eqn:TT. destruct T as [p1 [I1 [E1 [Cu Nx]]]].
        assert (TE : tick_event cfg tr = None).
        { unfold tick_event. rewrite (c_started _ _ I). cbn [negb]. replace (t_next tr <=? t_cur tr) with false by lia. reflexivity. }
        rewrite TE in E1. assert (Ep : p1 = p) by lia. clear E1. subst p1.
        destruct (IH p tr' (nowT + tau cfg) n' I1 B) as [j Hj]; [rewrite Cu, (Nx Hidle); lia|].
        exists (S j). cbn [track_run]. rewrite TT. exact Hj.
      + apply (IH p tr nowT n I B). lia.
  Qed.

  (* hence a bounded track reaches its limit; and from then on performs nothing more (count_run: p' <= lim) *)
  Theorem count_reaches : forall l, lim = Some l -> forall d p tr nowT n, CInv p tr -> l - p = Z.of_nat d ->
    exists j, CInv l (fst (track_run cfg nowT tr n j)).
  Proof.
    intros l Ll. induction d as [|d IH]; intros p tr nowT n I Hd.
    - exists 0%nat. cbn [track_run fst]. replace l with p by lia. exact I.
    - assert (B : below p) by (unfold below; rewrite Ll; lia).
      destruct (count_progress (Z.to_nat (t_next tr - t_cur tr)) p tr nowT n I B) as [j1 I1]; [nia|].
      destruct (IH (p + 1) (fst (track_run cfg nowT tr n j1)) (nowT + Z.of_nat j1 * tau cfg) (snd (track_run cfg nowT tr n j1)) I1 ltac:(lia)) as [j2 I2].
      exists (j1 + j2)%nat. rewrite track_run_add. exact I2.
  Qed.
End Count.

(* a fresh start satisfies the invariant *)
Lemma count_start cfg items cyclic mx c0 tr :
  0 <= c0 -> t_started tr = true -> t_next tr = t_cur tr -> t_stream tr = mkStream items 0 cyclic ->
  t_count tr = c0 -> t_max tr = mx -> 0 < tau cfg ->
  CInv cfg items cyclic mx c0 0 tr.
Proof.
  intros Hc Hs Hn Hst Hcnt Hm Htau. constructor; auto; try (rewrite Hst; reflexivity); try lia.
  - rewrite Hst. cbn [s_pos]. unfold endless. destruct cyclic; cbn [andb]; [|reflexivity].
    destruct (0 <? length items)%nat eqn:E; [lia|reflexivity].
  - unfold lim, cap. destruct mx as [m|]; [destruct (m =? 0)|]; destruct (endless items cyclic); lia.
Qed.

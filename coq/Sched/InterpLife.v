(* Sched/InterpLife.v — lifecycle operations applied to an INTERPOLATING track (C06, widening of Sched/Interp.v):
     isobar/timelines/track.py     Track.mute / Track.unmute (the is_muted flag), perform_event ("if self.is_muted: return"
                                   in front of every device call), Track.tick: "if not self.is_started: return"
     isobar/timelines/timeline.py  Timeline.unschedule / Timeline.clear (the track leaves Timeline.tracks and is never ticked
                                   again), the deferred start of Track.update (the track is ticked but not yet started)
   The track itself is Sched/Interp.v's state machine [tick] (interpolating branch of Track.tick), unchanged.

   Mute.  Every device call of the interpolating branch is made by perform_event, as the LAST statement of its path
   (after next(self.interpolating_event), after the new segment has been opened and the event count advanced).
   perform_event returns before the call when the track is muted; nothing else in Track.tick looks at the flag.  So a
   muted tick is the unmuted tick with the control call suppressed ([silence]); exceptions raised by tick itself
   (InvalidEventException: raised before perform_event) are not affected.
   No proofs in this file. *)
From Isobar Require Import Base.Prelude Sched.Interp.
From Coq Require Import QArith String.
Local Notation length := List.length (only parsing).
Local Open Scope Z_scope.

(* the history alphabet: one tick of the timeline, or a call made between two ticks *)
Inductive lop :=
| LTick
| LMute              (* track.mute() *)
| LUnmute            (* track.unmute() *)
| LUnschedule.       (* timeline.unschedule(track) / track.stop() / timeline.clear() *)

Record lstate := mkL {
  l_track : tstate;      (* the interpolating track (Sched/Interp.v) *)
  l_muted : bool;        (* track.is_muted *)
  l_sched : bool;        (* track in timeline.tracks *)
  l_wait : nat           (* ticks left until the deferred start() fires (0: started) *)
}.

(* perform_event with is_muted set: no device call *)
Definition silence (o : outcome) : outcome :=
  match o with OCall _ _ _ => ONone | x => x end.

Section Life.
Variable cospi : Q -> Q.
Variable tpb : Z.
Variable mode : imode.
Variable maxc : option Z.

Definition lstep (st : lstate) (o : lop) : option outcome * lstate :=
  match o with
  | LTick =>
      if negb (l_sched st) then (Some ONone, st)                 (* not in Timeline.tracks: no turn *)
      else match l_wait st with
           | S w => (Some ONone, mkL (l_track st) (l_muted st) true w)     (* if not self.is_started: return *)
           | O =>
               let (out, tr') := tick cospi tpb mode maxc (l_track st) in
               (Some (if l_muted st then silence out else out), mkL tr' (l_muted st) true O)
           end
  | LMute => (None, mkL (l_track st) true (l_sched st) (l_wait st))
  | LUnmute => (None, mkL (l_track st) false (l_sched st) (l_wait st))
  | LUnschedule => (None, mkL (l_track st) (l_muted st) false (l_wait st))
  end.

(* the per-tick outcomes of a history *)
Fixpoint ltrace (h : list lop) (st : lstate) : list outcome :=
  match h with
  | [] => []
  | o :: r => let (out, st') := lstep st o in
              match out with Some x => x :: ltrace r st' | None => ltrace r st' end
  end.

Fixpoint lfinal (h : list lop) (st : lstate) : lstate :=
  match h with
  | [] => st
  | o :: r => lfinal r (snd (lstep st o))
  end.

(* a track scheduled (unmuted) whose start is deferred by [wait] ticks *)
Definition life_init (wait : nat) (events : list event) : lstate := mkL (init events) false true wait.

End Life.

(** * The gate: what the history alone says about each tick *)
(* GOff: the track takes no turn or is not started (unscheduled / waiting): nothing can happen;
   GOn m: the track runs this tick with is_muted = m *)
Inductive gate := GOff | GOn (muted : bool).

Fixpoint gates (h : list lop) (muted sched : bool) (wait : nat) : list gate :=
  match h with
  | [] => []
  | LTick :: r =>
      if negb sched then GOff :: gates r muted sched wait
      else match wait with
           | S w => GOff :: gates r muted sched w
           | O => GOn muted :: gates r muted sched O
           end
  | LMute :: r => gates r true sched wait
  | LUnmute :: r => gates r false sched wait
  | LUnschedule :: r => gates r muted false wait
  end.

Definition running (g : gate) : bool := match g with GOn _ => true | GOff => false end.
Definition audible (g : gate) : bool := match g with GOn false => true | _ => false end.

(* the ticks of the never-muted, never-unscheduled, immediately started track are handed out, one per running tick *)
Fixpoint apply_gates (g : list gate) (outs : list outcome) : list outcome :=
  match g with
  | [] => []
  | GOff :: r => ONone :: apply_gates r outs
  | GOn m :: r =>
      match outs with
      | o :: outs' => (if m then silence o else o) :: apply_gates r outs'
      | [] => ONone :: apply_gates r []
      end
  end.

Definition n_running (g : list gate) : nat := List.length (filter running g).

(* index, among the running ticks, of tick k (how many running ticks precede it) *)
Definition run_index (g : list gate) (k : nat) : nat := n_running (firstn k g).

Definition is_call (o : outcome) : bool := match o with OCall _ _ _ => true | _ => false end.

(* Sched/StaticProofs.v — C07, shared static state: a static pattern shows one value between element boundaries however
   often it is read, to every reader; a value is held for at least its duration; PGlobals returns the latest value set
   or the default; PCurrentTime is the position rounded to 5 places. *)
From Isobar Require Import Base.Prelude Sched.Static.

(** * PStaticPattern *)
(* a read before the boundary returns the held value and changes nothing *)
Lemma static_hold f now s st v : sv_start s = Some st -> sv_value s = Some v -> now - st < sv_dur s ->
  static_read (S f) now s = (SVal v, s).
Proof.
  intros Hs Hv Hd. cbn [static_read]. unfold expired. rewrite Hs. replace (sv_dur s <=? now - st) with false by lia.
  rewrite Hv. reflexivity.
Qed.

(* any number of reads, at any positions before the boundary, in any order: the same value, the state untouched *)
Fixpoint read_many (f : nat) (times : list Z) (s : static) : list sres * static :=
  match times with
  | [] => ([], s)
  | t :: r => let '(x, s') := static_read f t s in let '(xs, s'') := read_many f r s' in (x :: xs, s'')
  end.
Theorem static_hold_many f times s st v : sv_start s = Some st -> sv_value s = Some v ->
  Forall (fun t => t - st < sv_dur s) times ->
  read_many (S f) times s = (repeat (SVal v) (length times), s).
Proof.
  intros Hs Hv. induction times as [|t r IH]; intros H; [reflexivity|]. inversion H as [|a b H1 H2]; subst.
  cbn [read_many]. rewrite (static_hold f t s st v Hs Hv H1), (IH H2). reflexivity.
Qed.

(* what a successful read establishes: the value is held, and it is not expired at the position of the read *)
Lemma read_post fuel : forall now s v s', Forall (fun d => 0 < d) (sv_durs s) ->
  static_read fuel now s = (SVal v, s') ->
  sv_value s' = Some v /\ expired now s' = false /\ sv_durs s' = sv_durs s.
Proof.
  induction fuel as [|f IH]; intros now s v s' Hd H; [discriminate|]. cbn [static_read] in H.
  destruct (expired now s) eqn:E.
  - destruct (seq_next (sv_vals s) (sv_vpos s) (sv_vcyc s)) as [[v0 vp]|]; [|discriminate].
    destruct (seq_next (sv_durs s) (sv_dpos s) true) as [[d dp]|] eqn:D; [|discriminate].
    apply IH in H; [exact H|exact Hd].
  - destruct (sv_value s) as [v0|] eqn:V; [|discriminate]. inversion H; subst. repeat split; assumption.
Qed.

(* all readers at one position see one value: a second read at the same position returns the same value, state untouched *)
Theorem static_same_time f fuel now s v s' : Forall (fun d => 0 < d) (sv_durs s) ->
  static_read fuel now s = (SVal v, s') -> static_read (S f) now s' = (SVal v, s').
Proof.
  intros Hd H. destruct (read_post fuel now s v s' Hd H) as [V [E _]]. cbn [static_read]. rewrite E, V. reflexivity.
Qed.

(* the state (hence the value) changes only on a read at or after the boundary: the value is kept for at least its duration *)
Theorem static_changes_only_at_boundary fuel now s r s' : static_read fuel now s = (r, s') -> s' <> s ->
  match sv_start s with None => True | Some st => sv_dur s <= now - st end.
Proof.
  intros H N. destruct fuel as [|f]; [simpl in H; inversion H; subst; contradiction|]. cbn [static_read] in H.
  unfold expired in H. destruct (sv_start s) as [st|]; [|exact I].
  destruct (sv_dur s <=? now - st) eqn:E; [lia|]. inversion H; subst. contradiction.
Qed.

(* a read at or after the boundary moves to the next element, which then starts at the position of that read *)
Theorem static_advances f now s v vp d dp : expired now s = true -> 0 < d ->
  seq_next (sv_vals s) (sv_vpos s) (sv_vcyc s) = Some (v, vp) -> seq_next (sv_durs s) (sv_dpos s) true = Some (d, dp) ->
  static_read (S (S f)) now s = (SVal v, mkStatic (sv_vals s) vp (sv_vcyc s) (sv_durs s) dp (Some v) (Some now) d).
Proof.
  intros E Hd V D. cbn [static_read]. rewrite E, V, D. cbn [static_read]. unfold expired. cbn [sv_start sv_dur sv_value].
  replace (d <=? now - now) with false by lia. reflexivity.
Qed.

(** * Globals / PGlobals *)
Theorem gget_set_same k v d g : gget k d (gset k v g) = v.
Proof. cbn [gget gset]. rewrite Z.eqb_refl. reflexivity. Qed.
Theorem gget_set_other k k' v d g : k <> k' -> gget k' d (gset k v g) = gget k' d g.
Proof. intros N. cbn [gget gset]. destruct (Z.eqb_spec k k'); [contradiction|reflexivity]. Qed.
Theorem gget_default k d : gget k d [] = d.
Proof. reflexivity. Qed.
(* after any sequence of assignments: the value of the last assignment to that name, or the default if there was none *)
Fixpoint last_set (k : Z) (sets : list (Z * Z)) : option Z :=
  match sets with
  | [] => None
  | (k', v) :: r => match last_set k r with Some x => Some x | None => if k' =? k then Some v else None end
  end.
Theorem gget_latest k d sets : forall g,
  gget k d (fold_left (fun g' kv => gset (fst kv) (snd kv) g') sets g)
  = match last_set k sets with Some v => v | None => gget k d g end.
Proof.
  induction sets as [|[k' v] r IH]; intros g; [reflexivity|]. cbn [fold_left last_set fst snd]. rewrite IH.
  destruct (last_set k r); [reflexivity|]. cbn [gget gset]. destruct (k' =? k); reflexivity.
Qed.

(** * PCurrentTime *)
(* on a grid whose positions are whole multiples of 10^-5 beat the rounding is exact *)
Theorem r5_exact U t : 0 < U -> (t * 100000) mod U = 0 -> r5 U t * U = t * 100000.
Proof.
  intros HU H. unfold r5. apply Z.mod_divide in H; [|lia]. destruct H as [q Hq].
  replace (2 * t * 100000 + U) with (q * (2 * U) + U) by lia. rewrite Z.div_add_l by lia. rewrite Z.div_small by lia. lia.
Qed.
Theorem r5_monotone U t t' : 0 < U -> t <= t' -> r5 U t <= r5 U t'.
Proof. intros HU H. unfold r5. apply Z.div_le_mono; lia. Qed.
(* in general it is the nearest multiple of 10^-5 *)
Theorem r5_nearest U t : 0 < U -> - U <= 2 * (r5 U t * U - t * 100000) <= U.
Proof.
  intros HU. unfold r5. pose proof (Z.div_mod (2 * t * 100000 + U) (2 * U) ltac:(lia)) as E.
  pose proof (Z.mod_pos_bound (2 * t * 100000 + U) (2 * U) ltac:(lia)) as B.
  set (x := (2 * t * 100000 + U) / (2 * U)) in *. set (r := (2 * t * 100000 + U) mod (2 * U)) in *. lia.
Qed.

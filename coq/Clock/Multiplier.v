(* Clock/Multiplier.v — model of isobar/util.py `make_clock_multiplier` and of the device-clock phase of
   `Timeline.tick` (isobar/timelines/timeline.py).  No proofs here.

   Python (util.py, as repaired by 4b1dd74):
       multiple = (1, 1)
       if output_clock_rate and input_clock_rate:
           if output_clock_rate % input_clock_rate != 0 and input_clock_rate % output_clock_rate != 0:
               raise ClockException(...)                  # generator body: raised by the FIRST next()
           multiple = (output_clock_rate, input_clock_rate)
       pos = 1
       while True:
           rv = 0
           pos += multiple
           while round(pos, 8) > 1:
               pos -= 1
               rv += 1
           yield rv
   (the source text itself is translated on every run: Generated/TablesMult.v, tied to this file by Clock/MultiplierSrc.v)

   Time/phase is exact here: `multiple` is the rational a/b (a = output rate, b = input rate, or 1/1 when a rate
   is None/0) and `pos` is kept as an integer numerator over the denominator b.  The code's `round(pos, 8) > 1`
   test is kept ([r8]); Clock/MultiplierProofs.v shows it agrees with the exact comparison `pos > 1` whenever
   b < 10^8.  The divisibility test is the one of the source, on the integer rates themselves (the pinned code evaluated
   `1/multiple != int(1/multiple)` in floats and refused 693 dividing pairs up to 1920; repaired by 4b1dd74). *)
From Isobar Require Import Base.Prelude.

(** a clock rate as Python sees it: None, or an integer (0 is falsy like None) *)
Definition rate := option Z.
Definition truthy (r : rate) : bool := match r with Some x => negb (x =? 0) | None => false end.

(** `multiple` as an exact fraction (numerator, denominator) *)
Definition multiple_of (out inn : rate) : Z * Z :=
  match out, inn with
  | Some a, Some b => if truthy out && truthy inn then (a, b) else (1, 1)
  | _, _ => (1, 1)
  end.

(** the refusal test, as the source has it: `output % input != 0 and input % output != 0` — neither rate divides the other
    (Python's % on ints is Z.modulo; both rates are non-zero here, see multiple_of) *)
Definition refuses (a b : Z) : bool := negb (a mod b =? 0) && negb (b mod a =? 0).

(** round(p/U, 8) in units of 10^-8 (nearest; the tie rule is irrelevant for the `> 1` test, see r8_gt_iff) *)
Definition S8 : Z := 100000000.
Definition r8 (U p : Z) : Z := (2 * p * S8 + U) / (2 * U).

(** inner loop `while round(pos, 8) > 1: pos -= 1; rv += 1`; None = out of fuel *)
Fixpoint drain (fuel : nat) (U pos rv : Z) : option (Z * Z) :=
  if r8 U pos >? S8 then
    match fuel with
    | O => None
    | S f => drain f U (pos - U) (rv + 1)
    end
  else Some (pos, rv).

(** generator state: not started / running with `pos` numerator / finished (after the exception) *)
Inductive mstate := MNew | MRun (pos : Z) | MDone.

(** outcome of one next(): rv / ClockException / StopIteration (finished generator) / model out of fuel *)
Inductive mres := MTicks (n : Z) | MClockErr | MStop | MFuel.

Definition mult_body (a b pos : Z) : mres * mstate :=
  let pos1 := pos + a in
  match drain (Z.to_nat (pos1 / b) + 1) b pos1 0 with
  | Some (pos2, rv) => (MTicks rv, MRun pos2)
  | None => (MFuel, MDone)
  end.

Definition mult_next (out inn : rate) (st : mstate) : mres * mstate :=
  let '(a, b) := multiple_of out inn in
  match st with
  | MNew => if refuses a b then (MClockErr, MDone) else mult_body a b b       (* pos = 1 *)
  | MRun pos => mult_body a b pos
  | MDone => (MStop, MDone)
  end.

(** The same step with the `round(pos, 8) > 1` loop replaced by its closed form (rv = ceil(pos) - 1 whole units are
    taken off).  MultiplierProofs.mult_next_x_eq proves [mult_next_x = mult_next] for 0 < rates < 10^8; the harness
    uses it for the exhaustive sweep because it evaluates about 20x faster inside coqc. *)
Definition mult_body_x (a b pos : Z) : mres * mstate :=
  let pos1 := pos + a in
  let rv := (pos1 - 1) / b in
  (MTicks rv, MRun (pos1 - rv * b)).
Definition mult_next_x (out inn : rate) (st : mstate) : mres * mstate :=
  let '(a, b) := multiple_of out inn in
  match st with
  | MNew => if refuses a b then (MClockErr, MDone) else mult_body_x a b b
  | MRun pos => mult_body_x a b pos
  | MDone => (MStop, MDone)
  end.
Fixpoint mult_run_x (out inn : rate) (st : mstate) (n : nat) : list mres :=
  match n with
  | O => []
  | S k => let '(r, st') := mult_next_x out inn st in r :: mult_run_x out inn st' k
  end.

(** n successive next() calls *)
Fixpoint mult_run (out inn : rate) (st : mstate) (n : nat) : list mres :=
  match n with
  | O => []
  | S k => let '(r, st') := mult_next out inn st in r :: mult_run out inn st' k
  end.

(** total number of device ticks in a result list (errors count 0) *)
Definition ticks_of (r : mres) : Z := match r with MTicks n => n | _ => 0 end.
Definition total_ticks (l : list mres) : Z := fold_right (fun r acc => ticks_of r + acc) 0 l.

(** ---- correspondence encodings (used by the harness) ---- *)
Definition mres_code (r : mres) : Z :=
  match r with MTicks n => n | MClockErr => -1 | MStop => -2 | MFuel => -3 end.

(** sparse form of a run: (index, code) of the entries whose code is not [dflt] *)
Fixpoint sparse_from (i : Z) (dflt : Z) (l : list Z) : list (Z * Z) :=
  match l with
  | [] => []
  | x :: r => if x =? dflt then sparse_from (i + 1) dflt r else (i, x) :: sparse_from (i + 1) dflt r
  end.
Definition pair_eqb (p q : Z * Z) : bool := (fst p =? fst q) && (snd p =? snd q).

(** the run compared by the harness stops after the first error (what follows an error is not fixed by the property) *)
Fixpoint cut_at_error (l : list Z) : list Z :=
  match l with
  | [] => []
  | x :: r => if x <? 0 then [x] else x :: cut_at_error r
  end.
Definition mult_codes (out inn : rate) (n : nat) : list Z :=
  cut_at_error (map mres_code (mult_run out inn MNew n)).
Definition sparse_ok (c : list Z) (dflt : Z) (len : Z) (expected : list (Z * Z)) : bool :=
  (Z.of_nat (List.length c) =? len) && list_eqb pair_eqb (sparse_from 0 dflt c) expected.

(** The same comparison fused with the run (no intermediate lists; this is what the exhaustive sweep evaluates):
    the code of step j must be the value [expected] gives for index j, or [dflt] when j is not listed; the run ends
    after [n] steps or after the first error code, and must then have exactly [len] entries and no expectation left. *)
Definition is_nil {A} (l : list A) : bool := match l with [] => true | _ => false end.
Fixpoint run_check (step : mstate -> mres * mstate) (n : nat) (j : Z) (st : mstate)
         (dflt len : Z) (expected : list (Z * Z)) : bool :=
  match n with
  | O => is_nil expected && (j =? len)
  | S k =>
      let '(r, st') := step st in
      let c := mres_code r in
      let '(want, rest) := match expected with
                           | (i, v) :: rest => if i =? j then (v, rest) else (dflt, expected)
                           | [] => (dflt, [])
                           end in
      (c =? want) &&
      (if c <? 0 then is_nil rest && (j + 1 =? len) else run_check step k (j + 1) st' dflt len rest)
  end.
Definition mult_sparse_ok (out inn : rate) (n : Z) (dflt : Z) (len : Z) (expected : list (Z * Z)) : bool :=
  run_check (mult_next out inn) (Z.to_nat n) 0 MNew dflt len expected.
Definition mult_sparse_ok_x (out inn : rate) (n : Z) (dflt : Z) (len : Z) (expected : list (Z * Z)) : bool :=
  run_check (mult_next_x out inn) (Z.to_nat n) 0 MNew dflt len expected.

(** ---- the device-clock phase of Timeline.tick ----
    for device in self.output_devices:
        ticks = next(self.clock_multipliers[device])
        for tick in range(ticks): device.tick()
   A timeline holds one multiplier per device (created by add_output_device with (device rate, timeline rate)).
   One timeline tick returns the device.tick() calls in order (device index), or stops at the first device whose
   multiplier raises (the exception leaves Timeline.tick; devices before it have been ticked). *)
Record dev := mkDev { d_rate : rate; d_state : mstate }.

Inductive tlres := TLOk | TLClockErr | TLStop | TLFuel.

Fixpoint tl_devices (inn : rate) (i : Z) (ds : list dev) : list Z * list dev * tlres :=
  match ds with
  | [] => ([], [], TLOk)
  | d :: rest =>
      let '(r, st') := mult_next (d_rate d) inn (d_state d) in
      let d' := mkDev (d_rate d) st' in
      match r with
      | MTicks n =>
          let '(calls, rest', res) := tl_devices inn (i + 1) rest in
          (repeat i (Z.to_nat n) ++ calls, d' :: rest', res)
      | MClockErr => ([], d' :: rest, TLClockErr)
      | MStop => ([], d' :: rest, TLStop)
      | MFuel => ([], d' :: rest, TLFuel)
      end
  end.

(** n timeline ticks: per tick the list of device indices ticked, in call order; stops after the first error *)
Fixpoint tl_run (inn : rate) (ds : list dev) (n : nat) : list (list Z) * tlres :=
  match n with
  | O => ([], TLOk)
  | S k =>
      let '(calls, ds', res) := tl_devices inn 0 ds in
      match res with
      | TLOk => let '(more, res') := tl_run inn ds' k in (calls :: more, res')
      | _ => ([calls], res)
      end
  end.

Definition tl_new (rates : list rate) : list dev := map (fun r => mkDev r MNew) rates.

(** per-device tick counts of one timeline tick's call list *)
Definition count_dev (i : Z) (calls : list Z) : Z := Z.of_nat (List.length (filter (Z.eqb i) calls)).

Definition tlres_code (r : tlres) : Z := match r with TLOk => 0 | TLClockErr => -1 | TLStop => -2 | TLFuel => -3 end.

(** harness encoding of one timeline tick's call list (device indices 0..2) as a base-4 number *)
Definition enc_calls (l : list Z) : Z := fold_left (fun v c => v * 4 + (c + 1)) l 0.
Definition tl_sparse_ok (inn : rate) (rates : list rate) (n dflt len : Z) (expected : list (Z * Z)) (code : Z) : bool :=
  let '(o, r) := tl_run inn (tl_new rates) (Z.to_nat n) in
  sparse_ok (map enc_calls o) dflt len expected && (tlres_code r =? code).

(* Clock/ClockRunProofs.v — lemmas about Clock/ClockRun.v (the internal clock, Clock.run). *)
From Isobar Require Import Base.Prelude Clock.Multiplier Clock.MultiplierProofs Clock.ClockRun.

(** readings that never go back: each one is >= the previous one (prev = the reading before the list) *)
Fixpoint nondecr (prev : Z) (ts : list Z) : Prop :=
  match ts with
  | [] => True
  | t :: r => prev <= t /\ nondecr t r
  end.

Definition plain (ts : list Z) : list (Z * option Z) := map (fun t => (t, None)) ts.

Lemma owed_mono a b n n' : 0 < a -> 0 < b -> n <= n' -> owed a b n <= owed a b n'.
Proof. intros Ha Hb H. unfold owed. apply Z.div_le_mono; nia. Qed.

Section Clock.
  Variables (out inn : rate) (a b : Z).
  Hypothesis Ho : rate_ok out.
  Hypothesis Hi : rate_ok inn.
  Hypothesis M : multiple_of out inn = (a, b).
  Hypothesis R : refuses a b = false.
  Variable cb : list (Z * Z).

  Let Hab : 0 < a < S8 /\ 0 < b < S8 := multiple_of_pos _ _ _ _ Ho Hi M.

  (** generator state after j next() calls *)
  Definition ms (j : Z) : mstate := if j =? 0 then MNew else MRun (phase a b j).

  Lemma mult_next_ms j : 0 <= j ->
    mult_next out inn (ms j) = (MTicks (owed a b (j + 1) - owed a b j), ms (j + 1)).
  Proof.
    intros Hj. destruct Hab as [Ha Hb]. unfold ms.
    destruct (j + 1 =? 0) eqn:E1; [lia|].
    destruct (j =? 0) eqn:E0.
    - assert (j = 0) by lia. subst j. unfold mult_next. rewrite M, R.
      rewrite mult_body_eq by lia.
      replace (mult_body_x a b b) with (mult_body_x a b (phase a b 0)) by (rewrite phase_0 by lia; reflexivity).
      apply body_x_phase. lia.
    - unfold mult_next. rewrite M. pose proof (phase_bounds a b j ltac:(lia)).
      rewrite mult_body_eq by lia. apply body_x_phase. lia.
  Qed.

  (** quiescent clock state: anchor c, duration d (current = original), j iterations done, T target ticks made *)
  Definition P (c d j T : Z) : cstate := mkC c d d (ms j) T.

  Lemma deliver_none : forall k s,
    (forall x, c_total s <= x < c_total s + Z.of_nat k -> lookup x cb = None) ->
    deliver cb k s = mkC (c_clock0 s) (c_dur s) (c_orig s) (c_mult s) (c_total s + Z.of_nat k).
  Proof.
    induction k as [|k IH]; intros s H.
    - cbn [deliver]. destruct s; cbn. f_equal. lia.
    - cbn [deliver]. rewrite (H (c_total s)) by lia.
      rewrite IH; cbn [c_clock0 c_dur c_orig c_mult c_total].
      + f_equal. lia.
      + intros x Hx. apply H. lia.
  Qed.

  (** number of iterations of the inner while for reading t, threshold ntd, anchor c, duration d *)
  Definition iters (t ntd c d : Z) : Z := if t - c >=? ntd then (t - c - ntd) / d + 1 else 0.

  Lemma iters_nonneg t ntd c d : 0 < d -> 0 <= iters t ntd c d.
  Proof.
    intros Hd. unfold iters. destruct (t - c >=? ntd) eqn:E; [|lia].
    assert (0 <= (t - c - ntd) / d) by (apply Z.div_pos; lia). lia.
  Qed.

  (** one burst: K iterations, each advancing the anchor by d; no tempo change among the ticks delivered *)
  Lemma burst_gen t ntd d : 0 < d -> forall k fuel c j T,
    0 <= j -> Z.to_nat (iters t ntd c d) = k -> (k < fuel)%nat ->
    (forall x, T <= x < T + (owed a b (j + Z.of_nat k) - owed a b j) -> lookup x cb = None) ->
    burst out inn cb fuel t ntd (P c d j T)
    = (P (c + Z.of_nat k * d) d (j + Z.of_nat k) (T + (owed a b (j + Z.of_nat k) - owed a b j)), COk).
  Proof.
    intros Hd. destruct Hab as [Ha Hb].
    induction k as [|k IH]; intros fuel c j T Hj HK Hf Hcb.
    - assert (E : (t - c >=? ntd) = false).
      { pose proof (iters_nonneg t ntd c d Hd). unfold iters in *. destruct (t - c >=? ntd) eqn:E; [|reflexivity].
        assert (0 <= (t - c - ntd) / d) by (apply Z.div_pos; lia). lia. }
      replace (j + Z.of_nat 0) with j by lia. replace (c + Z.of_nat 0 * d) with c by lia.
      replace (T + (owed a b j - owed a b j)) with T by lia.
      destruct fuel; unfold P; cbn [burst c_clock0]; rewrite E; reflexivity.
    - assert (E : (t - c >=? ntd) = true).
      { unfold iters in HK. destruct (t - c >=? ntd) eqn:E; [reflexivity | cbn in HK; lia]. }
      destruct fuel as [|f]; [lia|].
      unfold P at 1. cbn [burst c_clock0 c_mult c_dur c_orig c_total]. rewrite E.
      rewrite (mult_next_ms j Hj).
      set (e := owed a b (j + 1) - owed a b j).
      assert (He : 0 <= e) by (unfold e; pose proof (owed_mono a b j (j + 1)); lia).
      assert (Hle : owed a b (j + 1) <= owed a b (j + Z.of_nat (S k))) by (apply owed_mono; lia).
      rewrite deliver_none; cbn [c_clock0 c_dur c_orig c_mult c_total].
      2:{ intros x Hx. apply Hcb. rewrite Z2Nat.id in Hx by lia. unfold e in *. lia. }
      rewrite Z2Nat.id by lia.
      change (mkC (c + d) d d (ms (j + 1)) (T + e)) with (P (c + d) d (j + 1) (T + e)).
      assert (HK' : Z.to_nat (iters t ntd (c + d) d) = k).
      { unfold iters in *. rewrite E in HK.
        assert (0 <= (t - c - ntd) / d) by (apply Z.div_pos; lia).
        destruct (t - (c + d) >=? ntd) eqn:E2.
        - replace (t - (c + d) - ntd) with (t - c - ntd + (-1) * d) by ring.
          rewrite Z.div_add by lia. lia.
        - assert ((t - c - ntd) / d = 0) by (apply Z.div_small; lia). lia. }
      rewrite (IH f (c + d) (j + 1) (T + e)); [| lia | exact HK' | lia |].
      + replace (j + 1 + Z.of_nat k) with (j + Z.of_nat (S k)) by lia.
        replace (c + d + Z.of_nat k * d) with (c + Z.of_nat (S k) * d) by lia.
        replace (T + e + (owed a b (j + Z.of_nat (S k)) - owed a b (j + 1)))
          with (T + (owed a b (j + Z.of_nat (S k)) - owed a b j)) by (unfold e; lia).
        reflexivity.
      + intros x Hx. apply Hcb. unfold e in *.
        replace (j + 1 + Z.of_nat k) with (j + Z.of_nat (S k)) in Hx by lia. lia.
  Qed.
End Clock.

(** ** No tempo change inside the ticks (cb = []) *)
Section Steady.
  Variables (out inn : rate) (a b : Z).
  Hypothesis Ho : rate_ok out.
  Hypothesis Hi : rate_ok inn.
  Hypothesis M : multiple_of out inn = (a, b).
  Hypothesis R : refuses a b = false.

  Let Hab : 0 < a < S8 /\ 0 < b < S8 := multiple_of_pos _ _ _ _ Ho Hi M.

  (** one wake-up from a quiescent state whose anchor is not in the future: floor((t - c)/d) iterations *)
  Lemma step_steady dmin d c j T t chg :
    0 < dmin -> 0 <= j -> c <= t ->
    let d' := match chg with Some x => x | None => d end in
    dmin <= d' ->
    clock_step out inn [] dmin (t, chg) (P a b c d j T)
    = (P a b (c + (t - c) / d' * d') d' (j + (t - c) / d') (T + (owed a b (j + (t - c) / d') - owed a b j)), COk).
  Proof.
    intros Hm Hj Hc d' Hd. unfold clock_step.
    assert (Hs : (match chg with Some x => set_tempo x (P a b c d j T) | None => P a b c d j T end) = P a b c d' j T).
    { unfold d'. destruct chg; reflexivity. }
    rewrite Hs. cbn [P c_clock0 c_dur]. fold (P a b c d' j T).
    assert (Hd' : 0 < d') by lia.
    set (K := (t - c) / d').
    assert (HK0 : 0 <= K) by (apply Z.div_pos; lia).
    assert (HI : iters t d' c d' = K).
    { unfold iters, K. destruct (t - c >=? d') eqn:E.
      - replace (t - c - d') with (t - c + (-1) * d') by ring. rewrite Z.div_add by lia. ring.
      - symmetry. apply Z.div_small. lia. }
    assert (HKf : K <= (t - c) / dmin).
    { unfold K. apply Z.div_le_compat_l; lia. }
    rewrite (burst_gen out inn a b Ho Hi M R [] t d' d' Hd' (Z.to_nat K)); try rewrite Z2Nat.id by lia;
      try reflexivity; try lia.
  Qed.

  (** a whole sequence of wake-ups without further tempo change *)
  Lemma steps_steady dmin d : 0 < dmin -> dmin <= d -> forall ts c j T prev,
    0 <= j -> c <= prev -> nondecr prev ts ->
    clock_steps out inn [] dmin (plain ts) (P a b c d j T)
    = (map (fun t => T + (owed a b (j + (t - c) / d) - owed a b j)) ts, COk).
  Proof.
    intros Hm Hd. induction ts as [|t ts IH]; intros c j T prev Hj Hc Hs; [reflexivity|].
    destruct Hs as [Hpt Hs]. cbn [plain map clock_steps].
    rewrite (step_steady dmin d c j T t None Hm Hj ltac:(lia)); [|cbn; lia]. cbv zeta.
    set (K := (t - c) / d).
    assert (HK0 : 0 <= K) by (apply Z.div_pos; lia).
    assert (Hrem : c + K * d <= t).
    { unfold K. pose proof (Z.div_mod (t - c) d ltac:(lia)). pose proof (Z.mod_pos_bound (t - c) d ltac:(lia)). nia. }
    fold (plain ts). rewrite (IH (c + K * d) (j + K) _ t ltac:(lia) Hrem Hs).
    cbn [P c_total]. f_equal. f_equal.
    apply map_ext_in. intros t' _.
    replace (t' - (c + K * d)) with (t' - c + (- K) * d) by ring. rewrite Z.div_add by lia.
    replace (j + K + ((t' - c) / d + - K)) with (j + (t' - c) / d) by ring. ring.
  Qed.
End Steady.

(** min over a script that only contains the initial duration *)
Lemma dmin_plain d ts : script_dmin d [] (plain ts) = d.
Proof.
  unfold script_dmin, plain. cbn [map app].
  induction ts as [|t ts IH]; [reflexivity|]. cbn [map flat_map snd app]. exact IH.
Qed.

Lemma min_list_le d l : min_list d l <= d.
Proof. unfold min_list. induction l as [|x l IH]; cbn [fold_right]; lia. Qed.
Lemma min_list_in d l x : In x l -> min_list d l <= x.
Proof.
  unfold min_list. induction l as [|y l IH]; intros H; [destruct H|].
  cbn [fold_right]. destruct H as [H|H]; [subst; lia | specialize (IH H); lia].
Qed.
Lemma min_list_pos d l : 0 < d -> (forall x, In x l -> 0 < x) -> 0 < min_list d l.
Proof.
  intros Hd. unfold min_list. induction l as [|y l IH]; intros H; [exact Hd|].
  cbn [fold_right]. pose proof (H y (or_introl eq_refl)). specialize (IH (fun x Hx => H x (or_intror Hx))). lia.
Qed.

(** ** The fast variant used by the harness is the same function *)
Section FastEq.
  Variables (out inn : rate).
  Hypothesis Ho : rate_ok out.
  Hypothesis Hi : rate_ok inn.
  Variable cb : list (Z * Z).

  Lemma deliver_mult : forall k s, c_mult (deliver cb k s) = c_mult s.
  Proof.
    induction k as [|k IH]; intros s; [reflexivity|].
    cbn [deliver]. rewrite IH. cbn [c_mult]. destruct (lookup (c_total s) cb); reflexivity.
  Qed.

  Lemma burst_x_eq : forall fuel t ntd s, st_ok (c_mult s) ->
    burst out inn cb fuel t ntd s = burst_x out inn cb fuel t ntd s
    /\ st_ok (c_mult (fst (burst_x out inn cb fuel t ntd s))).
  Proof.
    induction fuel as [|f IH]; intros t ntd s Hs; cbn [burst burst_x].
    - destruct (t - c_clock0 s >=? ntd); split; try reflexivity; exact Hs.
    - destruct (t - c_clock0 s >=? ntd); [|split; [reflexivity | exact Hs]].
      destruct (mult_next_x_eq out inn (c_mult s) Ho Hi Hs) as [E K]. rewrite E.
      destruct (mult_next_x out inn (c_mult s)) as [r m']. cbn [snd] in K.
      destruct r; try (split; [reflexivity | exact K]).
      apply IH. cbn [c_mult]. rewrite deliver_mult. exact K.
  Qed.

  Lemma clock_steps_x_eq dmin : forall rds s, st_ok (c_mult s) ->
    clock_steps out inn cb dmin rds s = clock_steps_x out inn cb dmin rds s.
  Proof.
    induction rds as [|[t chg] rds IH]; intros s Hs; [reflexivity|].
    cbn [clock_steps clock_steps_x]. unfold clock_step, clock_step_x.
    set (s' := match chg with Some d => set_tempo d s | None => s end).
    assert (Hs' : st_ok (c_mult s')) by (unfold s'; destruct chg; exact Hs).
    destruct (burst_x_eq (Z.to_nat ((t - c_clock0 s') / dmin) + 1) t (c_dur s') s' Hs') as [E K].
    rewrite E. destruct (burst_x out inn cb (Z.to_nat ((t - c_clock0 s') / dmin) + 1) t (c_dur s') s') as [s2 r].
    cbn [fst] in K. destruct r; try reflexivity. rewrite (IH s2 K). reflexivity.
  Qed.

  Lemma clock_run_x_eq d0 t0 rds : clock_run out inn cb d0 t0 rds = clock_run_x out inn cb d0 t0 rds.
  Proof. unfold clock_run, clock_run_x. apply clock_steps_x_eq. exact I. Qed.
End FastEq.

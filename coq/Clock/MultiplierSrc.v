(* Clock/MultiplierSrc.v — the definitions translated from the BODY of isobar/util.py make_clock_multiplier
   (Generated/TablesMult.v, rewritten from the source text by harness/gen_tables_mult.py on every run of ./check C14) are the
   model of Clock/Multiplier.v.  A change of the source (the divisibility test, `multiple`, the loop) breaks this file,
   i.e. a proof obligation of C14.

   What the source gives                       what the model has
   src_mult_init  (statements before the loop)   multiple_of + refuses + `pos = 1`        src_mult_init_is (rates >= 0; see below)
   src_mult_enter (the int 1 as a real)          pos numerator b                          by reflexivity inside src_next_sim
   src_mult_body  (loop body up to the yield)    mult_body (drain)                        src_mult_body_is
   The generator protocol (first next() runs the function up to the first yield, later ones resume after it, an exception
   finishes the generator) is written here by hand: src_mult_next.  Its frame keeps `multiple` (the model recomputes it
   from the two rates), hence the simulation src_next_sim rather than an equality of step functions.

   The refusal test.  The source refuses when  output % input != 0 and input % output != 0  (src_refuses below); the model's
   `refuses` is now that very expression (it had kept the shape of the pinned code, `(a > b and a mod b != 0) or (a < b and b mod a
   != 0)`, equal for positive rates - MultiplierProofs.refuses_pinned_shape - and different for negative ones: (-4, 2) is accepted
   by the source and was refused by the old definition).  src_refuses_is is by reflexivity, for ALL integers, and the tie of
   the statements before the loop (src_mult_init_is) no longer needs the rates to be non-negative. *)
From Isobar Require Import Base.Prelude Base.PyLoop Clock.Multiplier Clock.MultiplierProofs Generated.TablesMult.
Local Open Scope Z_scope.

(** * The statements before the loop *)
Definition src_refuses (a b : Z) : bool := negb (a mod b =? 0) && negb (b mod a =? 0).

Definition model_init (out inn : rate) : option ((Z * Z) * Z) :=
  let '(a, b) := multiple_of out inn in if refuses a b then None else Some ((a, b), 1).

Definition rate_nonneg (r : rate) : Prop := match r with Some x => 0 <= x | None => True end.

Lemma src_refuses_eq a b : src_refuses a b = refuses a b.
Proof. reflexivity. Qed.

(* (kept with its hypotheses for the users in Props/C14Src.v) *)
Lemma src_refuses_is a b : 0 < a -> 0 < b -> src_refuses a b = refuses a b.
Proof. intros _ _. reflexivity. Qed.

(* negative rates too: what the source accepts the model accepts *)
Example src_refuses_agrees_negative : src_refuses (-4) 2 = false /\ refuses (-4) 2 = false /\ refuses (-4) 3 = true.
Proof. repeat split; vm_compute; reflexivity. Qed.

(* the source, read with the exact test it contains, for all rates (also negative ones) *)
Lemma src_mult_init_exact out inn :
  src_mult_init out inn =
  match out, inn with
  | Some a, Some b => if negb (a =? 0) && negb (b =? 0) then (if src_refuses a b then None else Some ((a, b), 1)) else Some ((1, 1), 1)
  | _, _ => Some ((1, 1), 1)
  end.
Proof.
  unfold src_mult_init, src_refuses. destruct out as [a|], inn as [b|]; try reflexivity.
  - destruct (a =? 0); destruct (b =? 0); reflexivity.
  - destruct (a =? 0); reflexivity.
Qed.

(* for ALL rates, negative ones included *)
Lemma src_mult_init_eq out inn : src_mult_init out inn = model_init out inn.
Proof.
  rewrite src_mult_init_exact. unfold model_init, multiple_of, truthy.
  destruct out as [a|], inn as [b|]; try reflexivity.
  destruct (a =? 0) eqn:Ea; destruct (b =? 0) eqn:Eb; reflexivity.
Qed.

Lemma src_mult_init_is out inn : rate_nonneg out -> rate_nonneg inn -> src_mult_init out inn = model_init out inn.
Proof. intros _ _. apply src_mult_init_eq. Qed.

(* no `%` or `/` by zero on any path: the truthiness test protects them *)
Lemma src_mult_init_always_defined out inn : src_mult_init_defined out inn = true.
Proof.
  unfold src_mult_init_defined. destruct out as [a|], inn as [b|]; try reflexivity.
  - destruct (a =? 0) eqn:Ea; [reflexivity|]. destruct (b =? 0) eqn:Eb; [reflexivity|]. cbn [negb andb].
    destruct (negb (a mod b =? 0)); destruct (negb (b mod a =? 0)); reflexivity.
  - destruct (a =? 0); reflexivity.
Qed.

(** * The loop body *)
Lemma src_drain_is U : forall fuel pos rv,
  while_fuel (fun '(pos, rv) => r8 U pos >? 1 * S8) (fun '(pos, rv) => let pos := pos - 1 * U in let rv := rv + 1 in (pos, rv)) fuel (pos, rv)
  = drain fuel U pos rv.
Proof.
  intros fuel pos rv.
  rewrite (while_fuel_ext _ (fun s => r8 U (fst s) >? S8) _ (fun s => (fst s - U, snd s + 1)));
    [| intros [p r]; reflexivity | intros [p r]; cbn [fst snd]; rewrite Z.mul_1_l; reflexivity].
  revert pos rv. induction fuel as [|f IH]; intros pos rv; cbn [while_fuel drain fst snd].
  - reflexivity.
  - destruct (r8 U pos >? S8); [|reflexivity]. apply IH.
Qed.

Lemma src_mult_body_is fuel a b pos :
  src_mult_body fuel (a, b) pos =
  match drain fuel b (pos + a) 0 with Some (pos2, rv) => Some (rv, pos2) | None => None end.
Proof. unfold src_mult_body. cbn [fst snd]. cbv zeta. rewrite src_drain_is. destruct (drain fuel b (pos + a) 0) as [[p r]|]; reflexivity. Qed.

(* the inner loop ends, and its result does not depend on the fuel: closed form of one next() *)
Lemma src_mult_body_closed fuel a U pos : 0 < a -> 0 < U < S8 -> 1 <= pos -> (pos + a - 1) / U < Z.of_nat fuel ->
  src_mult_body fuel (a, U) pos = Some ((pos + a - 1) / U, pos + a - (pos + a - 1) / U * U).
Proof.
  intros Ha HU Hp Hf. rewrite src_mult_body_is. rewrite (drain_spec U HU) by lia. f_equal.
Qed.

(** * The generator protocol *)
Inductive sstate := SNew | SRun (multiple : Z * Z) (pos : Z) | SDone.

Definition src_fuel (multiple : Z * Z) (pos : Z) : nat := Z.to_nat ((pos + fst multiple) / snd multiple) + 1.

Definition src_resume (multiple : Z * Z) (pos : Z) : mres * sstate :=
  match src_mult_body (src_fuel multiple pos) multiple pos with
  | Some (rv, pos') => (MTicks rv, SRun multiple pos')
  | None => (MFuel, SDone)
  end.

Definition src_mult_next (out inn : rate) (st : sstate) : mres * sstate :=
  match st with
  | SNew => match src_mult_init out inn with
            | None => (MClockErr, SDone)
            | Some (multiple, pos) => src_resume multiple (src_mult_enter multiple pos)
            end
  | SRun multiple pos => src_resume multiple pos
  | SDone => (MStop, SDone)
  end.

Fixpoint src_mult_run (out inn : rate) (st : sstate) (n : nat) : list mres :=
  match n with
  | O => []
  | S k => let '(r, st') := src_mult_next out inn st in r :: src_mult_run out inn st' k
  end.

Definition sim (out inn : rate) (s : sstate) (m : mstate) : Prop :=
  match s, m with
  | SNew, MNew => True
  | SRun mu p, MRun p' => mu = multiple_of out inn /\ p = p'
  | SDone, MDone => True
  | _, _ => False
  end.

Lemma src_resume_sim out inn a b pos : multiple_of out inn = (a, b) ->
  fst (src_resume (a, b) pos) = fst (mult_body a b pos) /\ sim out inn (snd (src_resume (a, b) pos)) (snd (mult_body a b pos)).
Proof.
  intros M. unfold src_resume, mult_body, src_fuel. cbn [fst snd]. cbv zeta. rewrite src_mult_body_is.
  destruct (drain (Z.to_nat ((pos + a) / b) + 1) b (pos + a) 0) as [[p r]|]; cbn; auto.
Qed.

Lemma src_next_sim out inn s m : rate_nonneg out -> rate_nonneg inn -> sim out inn s m ->
  fst (src_mult_next out inn s) = fst (mult_next out inn m)
  /\ sim out inn (snd (src_mult_next out inn s)) (snd (mult_next out inn m)).
Proof.
  intros Ho Hi R. destruct s as [|mu p|], m as [|p'|]; cbn in R; try contradiction.
  - unfold src_mult_next, mult_next. rewrite src_mult_init_is by assumption. unfold model_init.
    destruct (multiple_of out inn) as [a b] eqn:M. destruct (refuses a b); [cbn; auto|].
    unfold src_mult_enter. cbn [snd]. rewrite Z.mul_1_l. apply src_resume_sim. exact M.
  - destruct R as [-> ->]. unfold src_mult_next, mult_next. destruct (multiple_of out inn) as [a b] eqn:M.
    apply src_resume_sim. exact M.
  - unfold src_mult_next, mult_next. destruct (multiple_of out inn). cbn; auto.
Qed.

Lemma src_run_sim out inn : rate_nonneg out -> rate_nonneg inn -> forall n s m, sim out inn s m ->
  src_mult_run out inn s n = mult_run out inn m n.
Proof.
  intros Ho Hi. induction n as [|n IH]; intros s m R; [reflexivity|]. cbn [src_mult_run mult_run].
  destruct (src_next_sim out inn s m Ho Hi R) as [E R'].
  destruct (src_mult_next out inn s) as [r s'], (mult_next out inn m) as [r' m']. cbn in E, R'. subst r'.
  f_equal. apply IH. exact R'.
Qed.

(** n successive next() calls on a fresh generator, as the source computes them, are the model's *)
Theorem src_mult_run_is out inn n : rate_nonneg out -> rate_nonneg inn ->
  src_mult_run out inn SNew n = mult_run out inn MNew n.
Proof. intros Ho Hi. apply src_run_sim; [assumption | assumption | exact I]. Qed.

Print Assumptions src_mult_run_is.

(* Clock/MidiInProofs.v — lemmas about Clock/MidiIn.v (external MIDI clock). *)
From Isobar Require Import Base.Prelude Clock.Multiplier Clock.MidiIn.

Definition count_if (p : msg -> bool) (ms : list msg) : Z := Z.of_nat (List.length (filter p ms)).
Definition is_start (m : msg) : bool := match m with Start => true | _ => false end.
Definition is_stop (m : msg) : bool := match m with Stop => true | _ => false end.
Definition is_songpos0 (m : msg) : bool := match m with SongPos p => p =? 0 | _ => false end.

Lemma count_call_app c l1 l2 : count_call c (l1 ++ l2) = count_call c l1 + count_call c l2.
Proof. unfold count_call. rewrite filter_app, app_length. lia. Qed.

Lemma count_if_cons p m ms : count_if p (m :: ms) = (if p m then 1 else 0) + count_if p ms.
Proof. unfold count_if. cbn [filter]. destruct (p m); cbn [List.length]; lia. Qed.

(** per kind of call: as many calls as messages of the corresponding kind, for every message sequence *)
Lemma calls_counts ms :
  count_call CTick (midi_in_calls true ms) = count_if is_clock ms
  /\ count_call CStart (midi_in_calls true ms) = count_if is_start ms
  /\ count_call CStop (midi_in_calls true ms) = count_if is_stop ms
  /\ count_call CReset (midi_in_calls true ms) = count_if is_songpos0 ms.
Proof.
  unfold midi_in_calls. induction ms as [|m ms IH]; [repeat split|].
  cbn [flat_map]. rewrite !count_call_app, !count_if_cons.
  destruct IH as [I1 [I2 [I3 I4]]]. rewrite I1, I2, I3, I4.
  destruct m as [| | |p|i|i]; cbn [target_calls is_clock is_start is_stop is_songpos0];
    try (destruct (p =? 0)); cbn; repeat split; lia.
Qed.

Lemma no_target_no_calls ms : midi_in_calls false ms = [].
Proof. unfold midi_in_calls. induction ms as [|m ms IH]; [reflexivity|]. cbn [flat_map target_calls app]. exact IH. Qed.

(** the calls are made in message order: the call list of a concatenation is the concatenation *)
Lemma calls_app t ms1 ms2 : midi_in_calls t (ms1 ++ ms2) = midi_in_calls t ms1 ++ midi_in_calls t ms2.
Proof. unfold midi_in_calls. apply flat_map_app. Qed.

(** every note-like message reaches the user exactly once: the callback if set, otherwise the queue *)
Lemma user_or_queue ms :
  midi_in_queue true ms = [] /\ midi_in_user false ms = [].
Proof.
  unfold midi_in_queue, midi_in_user. split; induction ms as [|m ms IH]; try reflexivity;
    cbn [flat_map]; rewrite IH; destruct m; reflexivity.
Qed.

(** a Timeline clocked by the MIDI input: position after each message (in ticks) *)
Fixpoint positions (pos : Z) (ms : list msg) : list Z :=
  match ms with
  | [] => []
  | Clock :: r => (pos + 1) :: positions (pos + 1) r
  | SongPos p :: r => (if p =? 0 then 0 else pos) :: positions (if p =? 0 then 0 else pos) r
  | _ :: r => pos :: positions pos r
  end.

Lemma midi_tl_positions : forall ms ds pos obs,
  midi_tl_run ds pos ms = (obs, TLOk) -> map snd obs = positions pos ms.
Proof.
  induction ms as [|m ms IH]; intros ds pos obs H.
  - cbn in H. inversion H. reflexivity.
  - destruct m as [| | |p|i|i]; cbn [midi_tl_run positions] in *.
    + destruct (tl_devices (Some MIDI_PPQN) 0 ds) as [[calls ds'] res] eqn:E.
      destruct res; try (inversion H; fail).
      destruct (midi_tl_run ds' (pos + 1) ms) as [more r] eqn:E2. inversion H; subst.
      cbn [map snd]. f_equal. eapply IH. exact E2.
    + destruct (midi_tl_run ds pos ms) as [more r] eqn:E2. inversion H; subst. cbn [map snd]. f_equal. eapply IH; exact E2.
    + destruct (midi_tl_run ds pos ms) as [more r] eqn:E2. inversion H; subst. cbn [map snd]. f_equal. eapply IH; exact E2.
    + destruct (midi_tl_run ds (if p =? 0 then 0 else pos) ms) as [more r] eqn:E2. inversion H; subst.
      cbn [map snd]. f_equal. eapply IH; exact E2.
    + destruct (midi_tl_run ds pos ms) as [more r] eqn:E2. inversion H; subst. cbn [map snd]. f_equal. eapply IH; exact E2.
    + destruct (midi_tl_run ds pos ms) as [more r] eqn:E2. inversion H; subst. cbn [map snd]. f_equal. eapply IH; exact E2.
Qed.

(** without song-position messages the timeline has advanced by exactly one tick per clock message *)
Fixpoint no_songpos (ms : list msg) : bool :=
  match ms with [] => true | SongPos _ :: _ => false | _ :: r => no_songpos r end.

Lemma last_cons_default : forall (l : list Z) x d, last (x :: l) d = last l x.
Proof.
  induction l as [|y l IH]; intros x d; [reflexivity|].
  change (last (x :: y :: l) d) with (last (y :: l) d). rewrite (IH y d), (IH y x). reflexivity.
Qed.

Lemma positions_last : forall ms pos, no_songpos ms = true ->
  last (positions pos ms) pos = pos + count_if is_clock ms.
Proof.
  induction ms as [|m ms IH]; intros pos H; [cbn; unfold count_if; cbn; lia|].
  rewrite count_if_cons.
  destruct m as [| | |p|i|i]; cbn [no_songpos positions is_clock] in *; try discriminate;
    rewrite last_cons_default, IH by exact H; lia.
Qed.

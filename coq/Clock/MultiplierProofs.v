(* Clock/MultiplierProofs.v — lemmas about Clock/Multiplier.v (make_clock_multiplier, Timeline device-clock phase). *)
From Isobar Require Import Base.Prelude Clock.Multiplier.

(** ** The rounding test agrees with the exact comparison for denominators below 10^8 *)
Lemma r8_gt_iff U p : 0 < U < S8 -> (r8 U p >? S8) = (p >? U).
Proof.
  intros HU. unfold r8. unfold S8 in *.
  destruct (p >? U) eqn:E.
  - assert (100000000 + 1 <= (2 * p * 100000000 + U) / (2 * U)).
    { apply Z.div_le_lower_bound; nia. }
    lia.
  - assert ((2 * p * 100000000 + U) / (2 * U) < 100000000 + 1).
    { apply Z.div_lt_upper_bound; nia. }
    lia.
Qed.

(** ** The inner loop takes off the whole units above 1 *)
Lemma drain_spec U : 0 < U < S8 -> forall fuel pos rv,
  1 <= pos -> (pos - 1) / U < Z.of_nat fuel ->
  drain fuel U pos rv = Some (pos - (pos - 1) / U * U, rv + (pos - 1) / U).
Proof.
  intros HU. induction fuel as [|f IH]; intros pos rv Hp Hf.
  - exfalso. assert (0 <= (pos - 1) / U) by (apply Z.div_pos; lia). lia.
  - cbn [drain]. rewrite (r8_gt_iff U pos HU).
    destruct (pos >? U) eqn:E.
    + assert (Hq : (pos - U - 1) / U = (pos - 1) / U - 1).
      { replace (pos - U - 1) with (pos - 1 + (-1) * U) by ring. rewrite Z.div_add by lia. ring. }
      rewrite IH; [| lia | rewrite Hq; lia].
      rewrite Hq. f_equal. f_equal; ring.
    + assert (Hq : (pos - 1) / U = 0) by (apply Z.div_small; lia).
      rewrite Hq. f_equal. f_equal; ring.
Qed.

Lemma drain_small U : 0 < U < S8 -> forall fuel pos rv, pos <= U -> drain fuel U pos rv = Some (pos, rv).
Proof.
  intros HU fuel pos rv Hp. destruct fuel; cbn [drain]; rewrite (r8_gt_iff U pos HU);
    destruct (pos >? U) eqn:E; try lia; reflexivity.
Qed.

(** ** The step in closed form *)
Definition st_ok (st : mstate) : Prop := match st with MRun p => 1 <= p | _ => True end.
Definition rate_ok (r : rate) : Prop := match r with Some x => 0 <= x < S8 | None => True end.

Lemma multiple_of_pos out inn a b :
  rate_ok out -> rate_ok inn -> multiple_of out inn = (a, b) -> 0 < a < S8 /\ 0 < b < S8.
Proof.
  unfold multiple_of, rate_ok, truthy, S8. intros Ho Hi H.
  destruct out as [x|], inn as [y|]; try (inversion H; subst; lia).
  destruct (negb (x =? 0) && negb (y =? 0)) eqn:E; inversion H; subst; lia.
Qed.

Lemma mult_body_eq a b pos : 0 < a -> 0 < b < S8 -> 1 <= pos ->
  mult_body a b pos = mult_body_x a b pos.
Proof.
  intros Ha Hb Hp. unfold mult_body, mult_body_x. cbv zeta.
  rewrite (drain_spec b Hb); [reflexivity | lia |].
  assert ((pos + a - 1) / b <= (pos + a) / b) by (apply Z.div_le_mono; lia).
  assert (0 <= (pos + a) / b) by (apply Z.div_pos; lia).
  lia.
Qed.

Lemma mult_body_x_ok a b pos : 0 < a -> 0 < b -> 1 <= pos -> st_ok (snd (mult_body_x a b pos)).
Proof.
  intros Ha Hb Hp. unfold mult_body_x. cbn [snd st_ok].
  pose proof (Z.mod_pos_bound (pos + a - 1) b Hb). pose proof (Z.div_mod (pos + a - 1) b ltac:(lia)). nia.
Qed.

Lemma mult_next_x_eq out inn st : rate_ok out -> rate_ok inn -> st_ok st ->
  mult_next out inn st = mult_next_x out inn st /\ st_ok (snd (mult_next_x out inn st)).
Proof.
  intros Ho Hi Hs. unfold mult_next, mult_next_x.
  destruct (multiple_of out inn) as [a b] eqn:M.
  destruct (multiple_of_pos _ _ _ _ Ho Hi M) as [Ha Hb].
  destruct st as [|p|].
  - destruct (refuses a b); [split; [reflexivity | exact I]|].
    split; [apply mult_body_eq; lia | apply mult_body_x_ok; lia].
  - cbn [st_ok] in Hs. split; [apply mult_body_eq; lia | apply mult_body_x_ok; lia].
  - split; [reflexivity | exact I].
Qed.

Lemma mult_run_x_eq out inn : rate_ok out -> rate_ok inn -> forall n st, st_ok st ->
  mult_run out inn st n = mult_run_x out inn st n.
Proof.
  intros Ho Hi. induction n as [|n IH]; intros st Hs; [reflexivity|].
  cbn [mult_run mult_run_x]. destruct (mult_next_x_eq out inn st Ho Hi Hs) as [E K].
  rewrite E. destruct (mult_next_x out inn st) as [r st']. cbn [snd] in K. rewrite (IH st' K). reflexivity.
Qed.

Lemma run_check_x_eq out inn : rate_ok out -> rate_ok inn -> forall n j st dflt len expected, st_ok st ->
  run_check (mult_next out inn) n j st dflt len expected = run_check (mult_next_x out inn) n j st dflt len expected.
Proof.
  intros Ho Hi. induction n as [|n IH]; intros j st dflt len expected Hs; [reflexivity|].
  cbn [run_check]. destruct (mult_next_x_eq out inn st Ho Hi Hs) as [E K]. rewrite E.
  destruct (mult_next_x out inn st) as [r st']. cbn [snd] in K.
  destruct (match expected with
            | [] => (dflt, [])
            | (i, v) :: rest => if i =? j then (v, rest) else (dflt, expected)
            end) as [want rest].
  rewrite (IH (j + 1) st' dflt len rest K). reflexivity.
Qed.

(** ** Closed form: after n timeline ticks the device has received ceil(n*a/b) ticks *)
Definition owed (a b n : Z) : Z := (n * a + b - 1) / b.          (* = ceil(n*a/b) for n >= 0 *)

Lemma owed_ceil a b n : 0 < b -> b * (owed a b n - 1) < n * a <= b * owed a b n.
Proof.
  intros Hb. unfold owed. pose proof (Z.div_mod (n * a + b - 1) b ltac:(lia)).
  pose proof (Z.mod_pos_bound (n * a + b - 1) b Hb). nia.
Qed.

Lemma owed_0 a b : 0 < b -> owed a b 0 = 0.
Proof. intros. unfold owed. apply Z.div_small. lia. Qed.

Definition phase (a b j : Z) : Z := j * a + b - owed a b j * b.   (* numerator of `pos` after j steps *)

Lemma phase_bounds a b j : 0 < b -> 1 <= phase a b j <= b.
Proof. intros Hb. unfold phase. pose proof (owed_ceil a b j Hb). nia. Qed.

Lemma body_x_phase a b j : 0 < b ->
  mult_body_x a b (phase a b j) = (MTicks (owed a b (j + 1) - owed a b j), MRun (phase a b (j + 1))).
Proof.
  intros Hb. unfold mult_body_x. cbv zeta.
  assert (Hq : (phase a b j + a - 1) / b = owed a b (j + 1) - owed a b j).
  { unfold phase, owed at 2.
    replace (j * a + b - owed a b j * b + a - 1) with ((j + 1) * a + b - 1 + (- owed a b j) * b) by ring.
    rewrite Z.div_add by lia. ring. }
  rewrite Hq. f_equal. f_equal. unfold phase. ring.
Qed.

Fixpoint spec_run (a b j : Z) (n : nat) : list mres :=
  match n with
  | O => []
  | S k => MTicks (owed a b (j + 1) - owed a b j) :: spec_run a b (j + 1) k
  end.

Lemma mult_run_x_phase out inn a b : multiple_of out inn = (a, b) -> 0 < b ->
  forall n j, mult_run_x out inn (MRun (phase a b j)) n = spec_run a b j n.
Proof.
  intros M Hb. induction n as [|n IH]; intros j; [reflexivity|].
  cbn [mult_run_x spec_run]. unfold mult_next_x. rewrite M. rewrite (body_x_phase a b j Hb).
  rewrite IH. reflexivity.
Qed.

Lemma phase_0 a b : 0 < b -> phase a b 0 = b.
Proof. intros Hb. unfold phase. rewrite owed_0 by lia. ring. Qed.

Lemma mult_run_x_new out inn a b : multiple_of out inn = (a, b) -> 0 < b -> refuses a b = false ->
  forall n, mult_run_x out inn MNew n = spec_run a b 0 n.
Proof.
  intros M Hb R n. destruct n as [|n]; [reflexivity|].
  cbn [mult_run_x spec_run]. unfold mult_next_x. rewrite M, R.
  replace (mult_body_x a b b) with (mult_body_x a b (phase a b 0)) by (rewrite phase_0 by lia; reflexivity).
  rewrite (body_x_phase a b 0 Hb).
  rewrite (mult_run_x_phase out inn a b M Hb). reflexivity.
Qed.

(** the run of the real model (with the rounding test) from a fresh generator *)
Theorem mult_run_spec out inn a b : rate_ok out -> rate_ok inn ->
  multiple_of out inn = (a, b) -> refuses a b = false ->
  forall n, mult_run out inn MNew n = spec_run a b 0 n.
Proof.
  intros Ho Hi M R n. destruct (multiple_of_pos _ _ _ _ Ho Hi M) as [Ha Hb].
  rewrite (mult_run_x_eq out inn Ho Hi n MNew I). apply mult_run_x_new; [exact M | lia | exact R].
Qed.

Lemma total_spec_run a b : forall n j, total_ticks (spec_run a b j n) = owed a b (j + Z.of_nat n) - owed a b j.
Proof.
  induction n as [|n IH]; intros j.
  - cbn. replace (j + 0) with j by ring. ring.
  - cbn [spec_run total_ticks fold_right ticks_of]. fold (total_ticks (spec_run a b (j + 1) n)).
    rewrite IH. replace (j + 1 + Z.of_nat n) with (j + Z.of_nat (S n)) by lia. ring.
Qed.

Lemma nth_spec_run a b : forall n j i, (i < n)%nat ->
  nth_error (spec_run a b j n) i = Some (MTicks (owed a b (j + Z.of_nat i + 1) - owed a b (j + Z.of_nat i))).
Proof.
  induction n as [|n IH]; intros j i Hi; [lia|].
  destruct i as [|i]; cbn [spec_run nth_error].
  - replace (j + Z.of_nat 0) with j by lia. reflexivity.
  - rewrite IH by lia. replace (j + 1 + Z.of_nat i) with (j + Z.of_nat (S i)) by lia. reflexivity.
Qed.

(** ** Arithmetic of the closed form *)
(* out | in (b = m*a): ceil(n*a/b) = ceil(n/m) *)
Lemma owed_div a m n : 0 < a -> 0 < m -> owed a (m * a) n = (n + m - 1) / m.
Proof.
  intros Ha Hm. unfold owed.
  pose proof (Z.div_mod (n + m - 1) m ltac:(lia)) as D. pose proof (Z.mod_pos_bound (n + m - 1) m Hm) as B.
  set (q := (n + m - 1) / m) in *. set (r := (n + m - 1) mod m) in *.
  symmetry. apply Z.div_unique_pos with (r := a * (r + 1) - 1); [split; nia | nia].
Qed.

(* one tick on timeline tick 0 and then on every m-th *)
Lemma owed_div_step a m j : 0 < a -> 0 < m ->
  owed a (m * a) (j + 1) - owed a (m * a) j = if j mod m =? 0 then 1 else 0.
Proof.
  intros Ha Hm. rewrite !owed_div by lia.
  replace (j + 1 + m - 1) with (j + m - 1 + 1) by ring.
  destruct (Z.eq_dec ((j + m - 1) mod m) (m - 1)) as [W|W].
  - destruct (divmod_succ_wrap (j + m - 1) m Hm W) as [Q _]. rewrite Q.
    assert (j mod m = 0).
    { pose proof (Z.div_mod (j + m - 1) m ltac:(lia)) as D. rewrite W in D.
      symmetry. apply Z.mod_unique_pos with (q := (j + m - 1) / m); lia. }
    destruct (j mod m =? 0) eqn:E; lia.
  - destruct (divmod_succ_nowrap (j + m - 1) m Hm W) as [Q _]. rewrite Q.
    assert (j mod m <> 0).
    { intro Z0. apply W.
      pose proof (Z.div_mod j m ltac:(lia)) as D. rewrite Z0 in D.
      symmetry. apply Z.mod_unique_pos with (q := j / m); lia. }
    destruct (j mod m =? 0) eqn:E; lia.
Qed.

(* in | out (a = k*b): exactly k per tick *)
Lemma owed_mul b k n : 0 < b -> owed (k * b) b n = n * k.
Proof.
  intros Hb. unfold owed. symmetry. apply Z.div_unique with (r := b - 1); [lia | ring].
Qed.

(* any window of b timeline ticks (one beat) holds exactly a device ticks *)
Lemma owed_window a b n : 0 < b -> owed a b (n + b) - owed a b n = a.
Proof.
  intros Hb. unfold owed. replace ((n + b) * a + b - 1) with (n * a + b - 1 + a * b) by ring.
  rewrite Z.div_add by lia. ring.
Qed.

(** ** Refusal *)
Lemma refuses_iff_all a b : refuses a b = negb ((a mod b =? 0) || (b mod a =? 0)).
Proof. unfold refuses. rewrite negb_orb. reflexivity. Qed.

Lemma refuses_iff a b : 0 < a -> 0 < b ->
  refuses a b = negb ((a mod b =? 0) || (b mod a =? 0)).
Proof. intros _ _. apply refuses_iff_all. Qed.

(** for positive rates this is the test in the shape of the pinned code: (a > b and b does not divide a) or (a < b and a
    does not divide b) *)
Lemma refuses_pinned_shape a b : 0 < a -> 0 < b ->
  refuses a b = ((a >? b) && negb (a mod b =? 0)) || ((a <? b) && negb (b mod a =? 0)).
Proof.
  intros Ha Hb. unfold refuses.
  destruct (Z.lt_trichotomy a b) as [L|[L|L]].
  - rewrite (Z.mod_small a b) by lia.
    destruct (a >? b) eqn:E1; [lia|]. destruct (a <? b) eqn:E2; [|lia].
    destruct (a =? 0) eqn:E3; [lia|]. destruct (b mod a =? 0); reflexivity.
  - subst b. rewrite Z.mod_same by lia.
    destruct (a >? a) eqn:E1; [lia|]. destruct (a <? a) eqn:E2; [lia|]. reflexivity.
  - rewrite (Z.mod_small b a) by lia.
    destruct (a >? b) eqn:E1; [|lia]. destruct (a <? b) eqn:E2; [lia|].
    destruct (b =? 0) eqn:E3; [lia|]. destruct (a mod b =? 0); reflexivity.
Qed.

Lemma refuses_false_cases a b : 0 < a -> 0 < b -> refuses a b = false ->
  (exists m, 0 < m /\ b = m * a) \/ (exists k, 0 < k /\ a = k * b).
Proof.
  intros Ha Hb R. rewrite refuses_iff in R by lia.
  apply negb_false_iff in R. apply orb_true_iff in R. destruct R as [R|R].
  - right. exists (a / b). pose proof (Z.div_mod a b ltac:(lia)).
    assert (a mod b = 0) by lia. split; [|lia]. nia.
  - left. exists (b / a). pose proof (Z.div_mod b a ltac:(lia)).
    assert (b mod a = 0) by lia. split; [|lia]. nia.
Qed.

(** a run never contains an error once the first step is accepted, and never runs out of fuel *)
Lemma spec_run_all_ticks a b : forall n j r, In r (spec_run a b j n) -> exists k, r = MTicks k.
Proof.
  induction n as [|n IH]; intros j r H; [destruct H|].
  destruct H as [H|H]; [eexists; symmetry; exact H | eapply IH; exact H].
Qed.

(** ** The device-clock phase of Timeline.tick: every device is served by its own multiplier, in order *)
Definition dev_ok (d : dev) : Prop := rate_ok (d_rate d) /\ st_ok (d_state d).

(* the calls of one timeline tick, device by device, when no multiplier raises *)
Fixpoint tl_calls_spec (inn : rate) (i : Z) (ds : list dev) : list Z :=
  match ds with
  | [] => []
  | d :: rest => repeat i (Z.to_nat (ticks_of (fst (mult_next (d_rate d) inn (d_state d))))) ++ tl_calls_spec inn (i + 1) rest
  end.
Definition dev_step (inn : rate) (d : dev) : dev := mkDev (d_rate d) (snd (mult_next (d_rate d) inn (d_state d))).
Definition dev_accepts (inn : rate) (d : dev) : Prop := exists k, fst (mult_next (d_rate d) inn (d_state d)) = MTicks k.

Lemma tl_devices_ok inn : forall ds i, Forall (dev_accepts inn) ds ->
  tl_devices inn i ds = (tl_calls_spec inn i ds, map (dev_step inn) ds, TLOk).
Proof.
  induction ds as [|d rest IH]; intros i H; [reflexivity|].
  inversion H as [|? ? [k Hk] Hr]; subst.
  cbn [tl_devices tl_calls_spec map]. unfold dev_step at 1.
  destruct (mult_next (d_rate d) inn (d_state d)) as [r st'] eqn:E. cbn [fst snd] in *. subst r.
  rewrite (IH (i + 1) Hr). reflexivity.
Qed.

Lemma count_repeat_same i n : count_dev i (repeat i n) = Z.of_nat n.
Proof.
  unfold count_dev. induction n as [|n IH]; [reflexivity|].
  cbn [repeat filter]. rewrite Z.eqb_refl. cbn [List.length]. lia.
Qed.
Lemma count_repeat_other i j n : i <> j -> count_dev i (repeat j n) = 0.
Proof.
  intros H. unfold count_dev. induction n as [|n IH]; [reflexivity|].
  cbn [repeat filter]. destruct (Z.eqb i j) eqn:E; [lia | exact IH].
Qed.
Lemma count_app i l1 l2 : count_dev i (l1 ++ l2) = count_dev i l1 + count_dev i l2.
Proof. unfold count_dev. rewrite filter_app, app_length. lia. Qed.

Lemma count_tl_calls_below inn : forall ds i0 i, i < i0 -> count_dev i (tl_calls_spec inn i0 ds) = 0.
Proof.
  induction ds as [|d rest IH]; intros i0 i H; [reflexivity|].
  cbn [tl_calls_spec]. rewrite count_app, count_repeat_other by lia. rewrite IH by lia. reflexivity.
Qed.

(* device number k (0-based) is ticked exactly as often as its own multiplier says, whatever the other devices do *)
Lemma count_tl_calls inn : forall ds i0 k d, nth_error ds k = Some d ->
  (forall d', In d' ds -> 0 <= ticks_of (fst (mult_next (d_rate d') inn (d_state d')))) ->
  count_dev (i0 + Z.of_nat k) (tl_calls_spec inn i0 ds) = ticks_of (fst (mult_next (d_rate d) inn (d_state d))).
Proof.
  induction ds as [|d0 rest IH]; intros i0 k d Hk Hpos; [destruct k; discriminate|].
  cbn [tl_calls_spec]. rewrite count_app. destruct k as [|k].
  - cbn in Hk. inversion Hk; subst d0. replace (i0 + Z.of_nat 0) with i0 by lia.
    rewrite count_repeat_same, count_tl_calls_below by lia.
    specialize (Hpos d (or_introl eq_refl)). lia.
  - cbn in Hk. rewrite count_repeat_other by lia.
    replace (i0 + Z.of_nat (S k)) with (i0 + 1 + Z.of_nat k) by lia.
    rewrite (IH (i0 + 1) k d Hk); [lia|]. intros d' Hd'. apply Hpos. right. exact Hd'.
Qed.

(* Clock/MidiIn.v — model of isobar/io/midi/input.py `MidiInputDevice._callback` (external MIDI clock) and of a
   Timeline driven by it.  No proofs here.

   Python:
       if message.type == 'clock':      (tempo estimate bookkeeping);  if clock_target: clock_target.tick()
       elif message.type == 'start':    if clock_target: clock_target.start()
       elif message.type == 'stop':     if clock_target: clock_target.stop()
       elif message.type == 'songpos':  if message.pos == 0: (if clock_target: clock_target.reset()) else: warning
       elif message.type in ['note_on', 'note_off', 'control_change', 'pitchwheel']:
           if self.callback: self.callback(message) else: self.queue.put(message)
       (anything else is ignored)                                                                              *)
From Isobar Require Import Base.Prelude Clock.Multiplier.

Inductive msg :=
| Clock | Start | Stop
| SongPos (pos : Z)
| NoteLike (id : Z)       (* note_on / note_off / control_change / pitchwheel; id identifies the message *)
| Other (id : Z).         (* continue, program_change, aftertouch, sysex, active_sensing, ... *)

Inductive call := CTick | CStart | CStop | CReset.

(** calls made on the clock target by one message *)
Definition target_calls (has_target : bool) (m : msg) : list call :=
  if has_target then
    match m with
    | Clock => [CTick]
    | Start => [CStart]
    | Stop => [CStop]
    | SongPos p => if p =? 0 then [CReset] else []
    | NoteLike _ | Other _ => []
    end
  else [].

(** messages handed to the user callback / put on the queue *)
Definition to_user (has_cb : bool) (m : msg) : list Z :=
  match m with NoteLike i => if has_cb then [i] else [] | _ => [] end.
Definition to_queue (has_cb : bool) (m : msg) : list Z :=
  match m with NoteLike i => if has_cb then [] else [i] | _ => [] end.

Definition midi_in_calls (has_target : bool) (ms : list msg) : list call := flat_map (target_calls has_target) ms.
Definition midi_in_user (has_cb : bool) (ms : list msg) : list Z := flat_map (to_user has_cb) ms.
Definition midi_in_queue (has_cb : bool) (ms : list msg) : list Z := flat_map (to_queue has_cb) ms.

Definition call_code (c : call) : Z := match c with CTick => 0 | CStart => 1 | CStop => 2 | CReset => 3 end.
Definition count_call (c : call) (l : list call) : Z :=
  Z.of_nat (List.length (filter (fun x => call_code x =? call_code c) l)).
Definition is_clock (m : msg) : bool := match m with Clock => true | _ => false end.
Definition count_clock (ms : list msg) : Z := Z.of_nat (List.length (filter is_clock ms)).

(** A Timeline whose clock source is the MIDI input (timeline rate = MIDI_CLOCK_TICKS_PER_BEAT = 24):
    every 'clock' message is one Timeline.tick() (device-clock phase as in Multiplier.tl_devices, position + 1 tick),
    'songpos 0' is Timeline.reset() (position := 0; the device multipliers keep their phase); other messages do not
    move the timeline.  ('start'/'stop' reach Timeline.start/stop, which spawn a thread / silence the devices; they
    are exercised on a recording target only.)  Observed per message: the device ticks made and the position in ticks. *)
Definition MIDI_PPQN : Z := 24.

Fixpoint midi_tl_run (ds : list dev) (pos : Z) (ms : list msg) : list (list Z * Z) * tlres :=
  match ms with
  | [] => ([], TLOk)
  | Clock :: rest =>
      let '(calls, ds', res) := tl_devices (Some MIDI_PPQN) 0 ds in
      match res with
      | TLOk => let '(more, r) := midi_tl_run ds' (pos + 1) rest in ((calls, pos + 1) :: more, r)
      | _ => ([(calls, pos)], res)
      end
  | SongPos p :: rest =>
      let pos' := if p =? 0 then 0 else pos in
      let '(more, r) := midi_tl_run ds pos' rest in (([], pos') :: more, r)
  | _ :: rest =>
      let '(more, r) := midi_tl_run ds pos rest in (([], pos) :: more, r)
  end.

(** harness encodings *)
Definition obs_eqb (x y : list Z * Z) : bool := list_eqb Z.eqb (fst x) (fst y) && (snd x =? snd y).
Definition midi_tl_ok (rates : list rate) (ms : list msg) (expected : list (list Z * Z)) (code : Z) : bool :=
  let '(o, r) := midi_tl_run (tl_new rates) 0 ms in
  list_eqb obs_eqb o expected && (tlres_code r =? code).
Definition midi_in_ok (has_target has_cb : bool) (ms : list msg) (calls user queue : list Z) : bool :=
  list_eqb Z.eqb (map call_code (midi_in_calls has_target ms)) calls
  && list_eqb Z.eqb (midi_in_user has_cb ms) user
  && list_eqb Z.eqb (midi_in_queue has_cb ms) queue.

(* Clock/MidiInWired.v — the MIDI input device WIRED to a real Timeline as its clock target (`Timeline(clock_source=midi_in)`,
   i.e. `midi_in.clock_target = timeline` and `timeline.clock_source = midi_in`): the callback state machine of
   Clock/MidiInTimed.v composed with the Timeline's reaction to each call, INCLUDING the calls the Timeline makes back
   on the device while it reacts (re-entry).  No proofs here.

   Python (isobar/timelines/timeline.py, isobar/io/midi/input.py):

       MidiInputDevice._callback        'clock' -> clock_target.tick(); 'start' -> clock_target.start();
                                        'stop' -> clock_target.stop(); 'songpos 0' -> clock_target.reset()
       Timeline.tick()                  (tracks ...) for device in output_devices: next(multiplier) x device.tick();
                                        current_time += one tick
       Timeline.start()                 background(): a thread running Timeline.run():
                                            for device in output_devices: device.start()
                                            running = True;  clock_source.run()          # MidiInputDevice.run()
       Timeline.stop()                  for device in output_devices: device.all_notes_off(); device.stop()
                                        clock_source.stop()                               # MidiInputDevice.stop()
       Timeline.reset()                 current_time = 0 (tracks reset)
       MidiInputDevice.stop()           pass
       MidiInputDevice.run()            while True: time.sleep(0.1)       (touches no state, never returns)

   An event is a MIDI message handled by the callback (with its wall-clock readings, as in MidiInTimed.v) or a
   user-level call `timeline.stop()` / `timeline.start()` / `timeline.reset()` made between two messages.
   Observed per event: the calls the Timeline made while reacting (device.tick / all_notes_off / stop / start per
   device index, clock_source.stop / run), the timeline position in ticks and the cumulative number of
   Timeline.tick() calls.  The device's own state is the estimator state of MidiInTimed.v; `src_stop` / `src_run`
   are what MidiInputDevice.stop() / run() do to it (nothing). *)
From Coq Require Import QArith.
From Isobar Require Import Base.Prelude Clock.Multiplier Clock.MidiIn Clock.MidiInTimed.
Local Open Scope Z_scope.

Inductive ev :=
| EvMsg (x : timed)            (* a MIDI message delivered to MidiInputDevice._callback *)
| EvUserStop                   (* timeline.stop() called by the user between two messages *)
| EvUserStart                  (* timeline.start() *)
| EvUserReset.                 (* timeline.reset() *)

(** calls made by the Timeline while it reacts *)
Inductive rcall :=
| RDevTick (i : Z) | RNotesOff (i : Z) | RDevStop (i : Z) | RDevStart (i : Z)   (* on output device number i *)
| RSrcStop | RSrcRun.                                                         (* back on the MIDI input device *)

Definition rcall_code (c : rcall) : Z :=
  match c with
  | RDevTick i => i | RNotesOff i => 10 + i | RDevStop i => 20 + i | RDevStart i => 30 + i
  | RSrcStop => 40 | RSrcRun => 41
  end.

(** MidiInputDevice.stop(): `pass`;  MidiInputDevice.run(): sleeps for ever — neither touches the device's state *)
Definition src_stop (s : tstate) : tstate := s.
Definition src_run (s : tstate) : tstate := s.

(** the timeline (device multipliers, position in ticks, number of Timeline.tick() calls so far) and the MIDI input
    device (estimator state) *)
Record wstate := WS { w_devs : list dev; w_pos : Z; w_ticks : Z; w_src : tstate }.

Fixpoint stop_calls (i : Z) (ds : list dev) : list rcall :=
  match ds with [] => [] | _ :: r => RNotesOff i :: RDevStop i :: stop_calls (i + 1) r end.
Fixpoint start_calls (i : Z) (ds : list dev) : list rcall :=
  match ds with [] => [] | _ :: r => RDevStart i :: start_calls (i + 1) r end.

(** the Timeline's reaction to one call made on it *)
Definition react (w : wstate) (c : call) : wstate * list rcall * tlres :=
  match c with
  | CTick =>
      let '(calls, ds', res) := tl_devices (Some MIDI_PPQN) 0 (w_devs w) in
      match res with
      | TLOk => (WS ds' (w_pos w + 1) (w_ticks w + 1) (w_src w), map RDevTick calls, TLOk)
      | _ => (WS ds' (w_pos w) (w_ticks w + 1) (w_src w), map RDevTick calls, res)    (* the exception leaves Timeline.tick *)
      end
  | CStart => (WS (w_devs w) (w_pos w) (w_ticks w) (src_run (w_src w)), start_calls 0 (w_devs w) ++ [RSrcRun], TLOk)
  | CStop => (WS (w_devs w) (w_pos w) (w_ticks w) (src_stop (w_src w)), stop_calls 0 (w_devs w) ++ [RSrcStop], TLOk)
  | CReset => (WS (w_devs w) 0 (w_ticks w) (w_src w), [], TLOk)
  end.

Fixpoint react_all (w : wstate) (cs : list call) : wstate * list rcall * tlres :=
  match cs with
  | [] => (w, [], TLOk)
  | c :: r =>
      let '(w1, l1, res) := react w c in
      match res with
      | TLOk => let '(w2, l2, res2) := react_all w1 r in (w2, l1 ++ l2, res2)
      | _ => (w1, l1, res)
      end
  end.

(** what an event makes the device do: its new state and the calls it makes on its clock target (the timeline);
    a user-level call goes to the timeline directly *)
Definition ev_calls (unit : Z) (s : tstate) (e : ev) : tstate * list call :=
  match e with
  | EvMsg x => cb_step unit true s x
  | EvUserStop => (s, [CStop])
  | EvUserStart => (s, [CStart])
  | EvUserReset => (s, [CReset])
  end.

Definition set_src (w : wstate) (s : tstate) : wstate := WS (w_devs w) (w_pos w) (w_ticks w) s.

Definition wired_step (unit : Z) (w : wstate) (e : ev) : wstate * list rcall * tlres :=
  let '(s', calls) := ev_calls unit (w_src w) e in react_all (set_src w s') calls.

(** observation after one event *)
Record wobs := WO { o_calls : list rcall; o_pos : Z; o_ticks : Z }.

(** a whole history; it ends at the first exception leaving Timeline.tick (a refused device rate) *)
Fixpoint wired_run (unit : Z) (w : wstate) (evs : list ev) : list wobs * wstate * tlres :=
  match evs with
  | [] => ([], w, TLOk)
  | e :: rest =>
      let '(w', calls, res) := wired_step unit w e in
      let o := WO calls (w_pos w') (w_ticks w') in
      match res with
      | TLOk => let '(more, wf, r) := wired_run unit w' rest in (o :: more, wf, r)
      | _ => ([o], w', res)
      end
  end.

Definition w_new (rates : list rate) : wstate := WS (tl_new rates) 0 0 ts0.

(** projections used by the theorems *)
Definition is_clock_ev (e : ev) : bool := match e with EvMsg (TM _ _ Clock) => true | _ => false end.
Definition is_reset_ev (e : ev) : bool :=
  match e with EvMsg (TM _ _ (SongPos p)) => p =? 0 | EvUserReset => true | _ => false end.
Definition dev_ticks_of (l : list rcall) : list Z :=
  flat_map (fun c => match c with RDevTick i => [i] | _ => [] end) l.
Definition msgs_of (evs : list ev) : list timed :=
  flat_map (fun e => match e with EvMsg x => [x] | _ => [] end) evs.

(** ---- harness encodings ----
    events as two flat lists: kind codes (0 clock, 1 start, 2 stop, 3 songpos with position `arg`, 4 note-like, 5 other,
    6 user stop, 7 user start, 8 user reset) with an argument, and the instant of each *)
Definition mk_ev (intra : Z) (k arg t : Z) : ev :=
  let tm := TM t (t + intra) in
  if k =? 0 then EvMsg (tm Clock) else if k =? 1 then EvMsg (tm Start) else if k =? 2 then EvMsg (tm Stop)
  else if k =? 3 then EvMsg (tm (SongPos arg)) else if k =? 4 then EvMsg (tm (NoteLike arg))
  else if k =? 5 then EvMsg (tm (Other arg)) else if k =? 6 then EvUserStop else if k =? 7 then EvUserStart
  else EvUserReset.
Fixpoint mk_evs (intra : Z) (ks args ts : list Z) : list ev :=
  match ks, args, ts with
  | k :: kr, a :: ar, t :: tr => mk_ev intra k a t :: mk_evs intra kr ar tr
  | _, _, _ => []
  end.

Definition wobs_eqb (o : wobs) (x : list Z * (Z * Z)) : bool :=
  list_eqb Z.eqb (map rcall_code (o_calls o)) (fst x) && (o_pos o =? fst (snd x)) && (o_ticks o =? snd (snd x)).
Fixpoint wobs_all (os : list wobs) (xs : list (list Z * (Z * Z))) : bool :=
  match os, xs with
  | [], [] => true
  | o :: orr, x :: xr => wobs_eqb o x && wobs_all orr xr
  | _, _ => false
  end.
Definition wired_ok (unit : Z) (rates : list rate) (intra : Z) (ks args ts : list Z)
           (expected : list (list Z * (Z * Z))) (code : Z) : bool :=
  let '(os, _, r) := wired_run unit (w_new rates) (mk_evs intra ks args ts) in
  (List.length ks =? List.length ts)%nat && (List.length ks =? List.length args)%nat
  && wobs_all os expected && (tlres_code r =? code).

(* Clock/Rerun.v — ONE Clock object run several times (run, stop, time passes, run again ...).  No proofs here.

   Python (isobar/timelines/clock.py): everything `Clock.run` keeps between two runs lives on the instance —
   tick_duration_seconds / tick_duration_seconds_orig (the tempo), clock_multiplier (the rate-converter generator, which
   goes on where it was) and, on the target's side, the number of tick() calls made.  The tick deadline does NOT:

       def run(self):
           clock0 = clock1 = time.time() * self.accelerate        # locals: every run starts from "now"
           self.running = True
           while self.running: ...

   so a run that begins at reading t0 owes floor((t - t0) / tick duration) ticks at reading t, however long the clock was
   stopped before (the time spent stopped is not caught up).  `stop()` only clears `self.running`: the wake-up in
   progress finishes its catch-up burst, sleeps, reads the time once more and the loop ends — a run is a list of
   wake-ups, whether it was ended from a tick callback or from outside.

   The model re-uses Clock/ClockRun.v unchanged: a segment is run with [clock_step] from the state the previous segment
   left, with the anchor replaced by the segment's first reading ([reanchor]).  The tempo may be changed while stopped. *)
From Isobar Require Import Base.Prelude Clock.Multiplier Clock.ClockRun.

(** one run of the clock: tempo change made while it was stopped (if any), the reading taken on entry to run(), and
    the wake-ups (reading, tempo change made by another thread while asleep) *)
Record segment := mkSeg { sg_chg : option Z; sg_t0 : Z; sg_rds : list (Z * option Z) }.

(** entry to run(): clock0 = clock1 = t0; tempo, converter state and tick count are the instance's *)
Definition reanchor (t0 : Z) (chg : option Z) (s : cstate) : cstate :=
  let s' := match chg with Some d => set_tempo d s | None => s end in
  mkC t0 (c_dur s') (c_orig s') (c_mult s') (c_total s').

Section Rerun.
  Variables (out inn : rate).
  Variable cb : list (Z * Z).          (* target tick index (counted over ALL runs) -> new tick duration *)
  Variable dmin : Z.

  (** [clock_steps] that also returns the state the run leaves behind *)
  Fixpoint steps_st (rds : list (Z * option Z)) (s : cstate) : cstate * (list Z * cres) :=
    match rds with
    | [] => (s, ([], COk))
    | rd :: rest =>
        let '(s', r) := clock_step out inn cb dmin rd s in
        match r with
        | COk => let '(sf, (more, r')) := steps_st rest s' in (sf, (c_total s' :: more, r'))
        | _ => (s', ([c_total s'], r))
        end
    end.

  (** the runs one after the other: per run the cumulative number of target ticks after each wake-up (cumulative over
      the life of the object); stops at the first exception *)
  Fixpoint run_segments (segs : list segment) (s : cstate) : list (list Z) * cres :=
    match segs with
    | [] => ([], COk)
    | sg :: rest =>
        let '(sf, (counts, r)) := steps_st (sg_rds sg) (reanchor (sg_t0 sg) (sg_chg sg) s) in
        match r with
        | COk => let '(more, r') := run_segments rest sf in (counts :: more, r')
        | _ => ([counts], r)
        end
    end.
End Rerun.

Definition opt_list (o : option Z) : list Z := match o with Some d => [d] | None => [] end.
Definition rerun_dmin (d0 : Z) (cb : list (Z * Z)) (segs : list segment) : Z :=
  min_list d0 (map snd cb ++ flat_map (fun sg => opt_list (sg_chg sg) ++ flat_map (fun rd => opt_list (snd rd)) (sg_rds sg)) segs).

(** a fresh clock (tick duration d0) run on the segments; the anchor of the fresh state is never read *)
Definition clock_rerun (out inn : rate) (cb : list (Z * Z)) (d0 : Z) (segs : list segment) : list (list Z) * cres :=
  run_segments out inn cb (rerun_dmin d0 cb segs) segs (clock_init 0 d0).

(** what the harness compares *)
Definition rerun_ok (out inn : rate) (cb : list (Z * Z)) (d0 : Z) (segs : list segment)
           (counts : list (list Z)) (code : Z) : bool :=
  let '(c, r) := clock_rerun out inn cb d0 segs in
  list_eqb (list_eqb Z.eqb) c counts && (cres_code r =? code).

(* Clock/MidiInTimed.v — `MidiInputDevice._callback` with the wall clock it reads: every message arrives with the
   readings of `time.time()` the callback takes while handling it.  No proofs here.

   Python (isobar/io/midi/input.py, the 'clock' branch; the other branches never read the clock):

       if message.type == 'clock':
           if self.last_clock_time is not None:
               dt = time.time() - self.last_clock_time                      # reading t1
               tick_estimate = (120 / 48) * 1.0 / dt                        # = 2.5 / dt  (24 clocks per beat)
               if self.estimated_tempo is None: self.estimated_tempo = tick_estimate
               else: smoothing = 0.95
                     self.estimated_tempo = smoothing * self.estimated_tempo + (1.0 - smoothing) * tick_estimate
               self.last_clock_time = time.time()                           # reading t2
           else:
               self.last_clock_time = time.time()                           # reading t1
           if self.clock_target is not None: self.clock_target.tick()

   Instants are integers in a unit of 1/`unit` seconds (the harness uses unit = 2^20, so that every reading is an
   exactly representable float); the estimate is an exact rational (the code's floats are compared with a relative
   tolerance).  The readings are DATA: any integers — equal (a coarse timer: time standing still), decreasing
   (the system clock was set back), microseconds or hours apart.

   Where the code divides by `dt`: at dt = 0 Python raises ZeroDivisionError BEFORE `clock_target.tick()` (the tick of
   that message is lost: a defect w.r.t. the property, see docs/C14.md), at dt < 0 it stores a negative "tempo".  The
   property fixes only that the tick is delivered whatever the readings are; the model therefore delivers the tick
   and leaves the estimate unchanged when dt <= 0 (the harness compares the estimate only while the clock readings
   are strictly increasing). *)
From Coq Require Import QArith Qabs.
From Isobar Require Import Base.Prelude Clock.Multiplier Clock.MidiIn.
Local Open Scope Z_scope.

Record tstate := TS { last_clock : option Z; est : option Q }.
Definition ts0 : tstate := TS None None.

(** 2.5 / dt for dt > 0 units: (5 * unit) / (2 * dt) beats per minute *)
Definition tick_estimate (unit dt : Z) : Q := Qmake (5 * unit) (Z.to_pos (2 * dt)).

Definition smooth (e te : Q) : Q := ((19 # 20) * e + (1 # 20) * te)%Q.

(** the tempo-estimate bookkeeping of one 'clock' message with readings t1 (and t2) *)
Definition est_update (unit : Z) (s : tstate) (t1 t2 : Z) : tstate :=
  match last_clock s with
  | None => TS (Some t1) (est s)
  | Some l =>
      let dt := t1 - l in
      if dt <=? 0 then TS (Some t2) (est s)
      else
        let te := tick_estimate unit dt in
        TS (Some t2) (Some (match est s with None => te | Some e => smooth e te end))
  end.

(** a message with the two clock readings available to the callback while it handles it *)
Inductive timed := TM (t1 t2 : Z) (m : msg).
Definition msg_of (x : timed) : msg := match x with TM _ _ m => m end.

(** one callback: new estimator state, calls made on the clock target *)
Definition cb_step (unit : Z) (has_target : bool) (s : tstate) (x : timed) : tstate * list call :=
  match x with
  | TM t1 t2 Clock =>
      let s' := est_update unit s t1 t2 in
      (s', if has_target then [CTick] else [])
  | TM _ _ m => (s, target_calls has_target m)
  end.

(** a whole sequence: per message, the calls made on the target and the estimate (`MidiInputDevice.tempo`) afterwards *)
Fixpoint cb_run (unit : Z) (has_target : bool) (s : tstate) (xs : list timed) : list (list call * option Q) :=
  match xs with
  | [] => []
  | x :: r => let '(s', calls) := cb_step unit has_target s x in (calls, est s') :: cb_run unit has_target s' r
  end.

Definition timed_calls (unit : Z) (has_target : bool) (s : tstate) (xs : list timed) : list call :=
  flat_map fst (cb_run unit has_target s xs).

(** the estimates after each 'clock' message, in order *)
Fixpoint clock_estimates (xs : list timed) (obs : list (list call * option Q)) : list (option Q) :=
  match xs, obs with
  | TM _ _ Clock :: r, (_, e) :: o => e :: clock_estimates r o
  | _ :: r, _ :: o => clock_estimates r o
  | _, _ => []
  end.

(** harness encodings: the code's float against the exact value, relative tolerance 1e-9 *)
(*   |m - o| <= 1e-9 |m|  with m = a/b, o = c/d  <=>  |a d - c b| * 10^9 <= |a| d   (only big-by-small products) *)
Definition q_close (m o : Q) : bool :=
  let a := Qnum m in let b := Z.pos (Qden m) in let c := Qnum o in let d := Z.pos (Qden o) in
  Z.abs (a * d - c * b) * 1000000000 <=? Z.abs a * d.
Definition est_close (o m : option Q) : bool :=
  match o, m with
  | None, None => true
  | Some a, Some b => q_close b a
  | _, _ => false
  end.
(** every observed entry must agree with the model entry at the same position (the harness passes a prefix) *)
Fixpoint prefix_ok {A B} (ok : A -> B -> bool) (obs : list A) (model : list B) : bool :=
  match obs, model with
  | [] , _ => true
  | a :: o, b :: m => ok a b && prefix_ok ok o m
  | _ :: _, [] => false
  end.

(** flat encodings (nested list literals are slow to elaborate): the calls of one message as one number in base 5;
    instants and messages as two lists; the observed floats as [num; k] pairs meaning num / 2^k, k < 0 for None *)
Definition enc_calls (l : list call) : Z := fold_left (fun v c => v * 5 + (call_code c + 1)) l 0.
Fixpoint mk_timed (intra : Z) (ts : list Z) (ms : list msg) : list timed :=
  match ts, ms with
  | t :: tr, m :: mr => TM t (t + intra) m :: mk_timed intra tr mr
  | _, _ => []
  end.
Fixpoint dec_tempos (l : list Z) : list (option Q) :=
  match l with
  | n :: k :: r => (if k <? 0 then None else Some (Qmake n (Pos.shiftl 1 (Z.to_N k)))) :: dec_tempos r
  | _ => []
  end.

(** per message the calls (whole sequence; by `cb_run_calls` these ARE the calls of `cb_run`) and, on the first k
    messages, the estimates after each 'clock' (the exact rationals grow by about 10 + log2 dt bits per clock message:
    the harness bounds k so that they stay below ~1500 bits) *)
Definition midi_in_timed_ok (unit : Z) (has_target : bool) (intra : Z) (ts : list Z) (ms : list msg) (k : nat)
           (per_msg : list Z) (tempos : list Z) : bool :=
  let xs := mk_timed intra ts ms in
  let pre := firstn k xs in
  let r := cb_run unit has_target ts0 pre in
  (List.length ts =? List.length ms)%nat
  && list_eqb Z.eqb (map (fun m => enc_calls (target_calls has_target m)) (map msg_of xs)) per_msg
  && list_eqb Z.eqb (map (fun p => enc_calls (fst p)) r) (firstn k per_msg)
  && prefix_ok est_close (dec_tempos tempos) (clock_estimates pre r).

(* Clock/MidiInTimed.v — `MidiInputDevice._callback` with the wall clock it reads: every message arrives with the
   readings of `time.time()` the callback takes while handling it.  No proofs here.

   Python (isobar/io/midi/input.py, the 'clock' branch; the other branches never read the clock):

       if message.type == 'clock':
           if self.last_clock_time is not None:
               dt = time.time() - self.last_clock_time                      # reading t1
               tick_estimate = (120 / 48) * 1.0 / dt                        # = 2.5 / dt  (24 clocks per beat)
               if self.estimated_tempo is None: self.estimated_tempo = tick_estimate
               else: smoothing = 0.95
                     self.estimated_tempo = smoothing * self.estimated_tempo + (1.0 - smoothing) * tick_estimate
               self.last_clock_time = time.time()                           # reading t2
           else:
               self.last_clock_time = time.time()                           # reading t1
           if self.clock_target is not None: self.clock_target.tick()

   Instants are integers in a unit of 1/`unit` seconds (the harness uses unit = 2^20, so that every reading is an
   exactly representable float); the estimate is an exact rational (the code's floats are compared with a relative
   tolerance).  The readings are DATA: any integers — equal (a coarse timer: time standing still), decreasing
   (the system clock was set back), microseconds or hours apart.

   Where the code divides by `dt`: at dt = 0 Python raises ZeroDivisionError BEFORE `clock_target.tick()` (the tick of
   that message is lost: a defect w.r.t. the property, see docs/C14.md), at dt < 0 it stores a negative "tempo".  The
   property fixes only that the tick is delivered whatever the readings are; the model therefore delivers the tick
   and leaves the estimate unchanged when dt <= 0 (the harness compares the estimate only while the clock readings
   are strictly increasing). *)
From Coq Require Import QArith Qabs.
From Isobar Require Import Base.Prelude Clock.Multiplier Clock.MidiIn.
Local Open Scope Z_scope.

Record tstate := TS { last_clock : option Z; est : option Q }.
Definition ts0 : tstate := TS None None.

(** 2.5 / dt for dt > 0 units: (5 * unit) / (2 * dt) beats per minute *)
Definition tick_estimate (unit dt : Z) : Q := Qmake (5 * unit) (Z.to_pos (2 * dt)).

Definition smooth (e te : Q) : Q := ((19 # 20) * e + (1 # 20) * te)%Q.

(** the tempo-estimate bookkeeping of one 'clock' message with readings t1 (and t2) *)
Definition est_update (unit : Z) (s : tstate) (t1 t2 : Z) : tstate :=
  match last_clock s with
  | None => TS (Some t1) (est s)
  | Some l =>
      let dt := t1 - l in
      if dt <=? 0 then TS (Some t2) (est s)
      else
        let te := tick_estimate unit dt in
        TS (Some t2) (Some (match est s with None => te | Some e => smooth e te end))
  end.

(** a message with the two clock readings available to the callback while it handles it *)
Inductive timed := TM (t1 t2 : Z) (m : msg).
Definition msg_of (x : timed) : msg := match x with TM _ _ m => m end.

(** one callback: new estimator state, calls made on the clock target *)
Definition cb_step (unit : Z) (has_target : bool) (s : tstate) (x : timed) : tstate * list call :=
  match x with
  | TM t1 t2 Clock =>
      let s' := est_update unit s t1 t2 in
      (s', if has_target then [CTick] else [])
  | TM _ _ m => (s, target_calls has_target m)
  end.

(** a whole sequence: per message, the calls made on the target and the estimate (`MidiInputDevice.tempo`) afterwards *)
Fixpoint cb_run (unit : Z) (has_target : bool) (s : tstate) (xs : list timed) : list (list call * option Q) :=
  match xs with
  | [] => []
  | x :: r => let '(s', calls) := cb_step unit has_target s x in (calls, est s') :: cb_run unit has_target s' r
  end.

Definition timed_calls (unit : Z) (has_target : bool) (s : tstate) (xs : list timed) : list call :=
  flat_map fst (cb_run unit has_target s xs).

(** the estimates after each 'clock' message, in order *)
Fixpoint clock_estimates (xs : list timed) (obs : list (list call * option Q)) : list (option Q) :=
  match xs, obs with
  | TM _ _ Clock :: r, (_, e) :: o => e :: clock_estimates r o
  | _ :: r, _ :: o => clock_estimates r o
  | _, _ => []
  end.

(** harness encodings: the code's float against the exact value, relative tolerance 1e-9 *)
Definition q_close (m o : Q) : bool := Qle_bool (Qabs (m - o) * (1000000000 # 1)) (Qabs m).
Definition est_close (o m : option Q) : bool :=
  match o, m with
  | None, None => true
  | Some a, Some b => q_close b a
  | _, _ => false
  end.
(** every observed entry must agree with the model entry at the same position (the harness passes a prefix) *)
Fixpoint prefix_ok {A B} (ok : A -> B -> bool) (obs : list A) (model : list B) : bool :=
  match obs, model with
  | [] , _ => true
  | a :: o, b :: m => ok a b && prefix_ok ok o m
  | _ :: _, [] => false
  end.

Definition midi_in_timed_ok (unit : Z) (has_target : bool) (xs : list timed)
           (per_msg : list (list Z)) (tempos : list (option Q)) : bool :=
  let r := cb_run unit has_target ts0 xs in
  list_eqb (list_eqb Z.eqb) (map (fun p => map call_code (fst p)) r) per_msg
  && prefix_ok est_close tempos (clock_estimates xs r).

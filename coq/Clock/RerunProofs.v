(* Clock/RerunProofs.v — lemmas about Clock/Rerun.v (one Clock object run several times). *)
From Isobar Require Import Base.Prelude Clock.Multiplier Clock.MultiplierProofs Clock.ClockRun Clock.ClockRunProofs Clock.Rerun.

(** [steps_st] is [clock_steps] plus the state left behind *)
Lemma steps_st_snd out inn cb dmin : forall rds s,
  snd (steps_st out inn cb dmin rds s) = clock_steps out inn cb dmin rds s.
Proof.
  induction rds as [|rd rds IH]; intros s; [reflexivity|].
  cbn [steps_st clock_steps]. destruct (clock_step out inn cb dmin rd s) as [s' r].
  destruct r; try reflexivity.
  specialize (IH s'). destruct (steps_st out inn cb dmin rds s') as [sf [more r']]. cbn [snd] in IH.
  rewrite <- IH. reflexivity.
Qed.

(** entry to run() forgets the old anchor: whatever the previous runs left in clock0 (and hence however long the clock
    was stopped) plays no role *)
Lemma reanchor_forgets t0 chg c1 c2 d o m T :
  reanchor t0 chg (mkC c1 d o m T) = reanchor t0 chg (mkC c2 d o m T).
Proof. unfold reanchor. destruct chg; reflexivity. Qed.

Lemma run_segments_anchor_irrelevant out inn cb dmin sg segs c1 c2 d o m T :
  run_segments out inn cb dmin (sg :: segs) (mkC c1 d o m T) = run_segments out inn cb dmin (sg :: segs) (mkC c2 d o m T).
Proof. cbn [run_segments]. rewrite (reanchor_forgets _ _ c1 c2). reflexivity. Qed.

(** the last reading of a run that began at x *)
Fixpoint last_or (x : Z) (ts : list Z) : Z := match ts with [] => x | t :: r => last_or t r end.

Lemma nondecr_weaken ts p p' : p' <= p -> nondecr p ts -> nondecr p' ts.
Proof. destruct ts as [|t r]; cbn [nondecr]; [trivial|]. intros H [H1 H2]. split; [lia | exact H2]. Qed.

Lemma last_or_ge : forall ts x, nondecr x ts -> x <= last_or x ts.
Proof.
  induction ts as [|t r IH]; intros x H; cbn [last_or]; [lia|].
  destruct H as [H1 H2]. specialize (IH t H2). lia.
Qed.

(** a run described by plain data: tempo change made while stopped, first reading, the wake-up readings *)
Definition plain_seg (x : option Z * Z * list Z) : segment :=
  let '(chg, t0, ts) := x in mkSeg chg t0 (plain ts).

(** what the property demands of the runs, for converter (a, b), tick duration d, j clock ticks and T target ticks so
    far: in EVERY run the count after a wake-up at t is the count on entry plus the ticks owed for floor((t - t0) / d')
    more clock ticks, t0 = the first reading of THAT run, d' = the duration in force in that run *)
Fixpoint expect_segments (a b d j T : Z) (segs : list (option Z * Z * list Z)) : list (list Z) :=
  match segs with
  | [] => []
  | (chg, t0, ts) :: rest =>
      let d' := match chg with Some x => x | None => d end in
      let n := (last_or t0 ts - t0) / d' in
      map (fun t => T + (owed a b (j + (t - t0) / d') - owed a b j)) ts
      :: expect_segments a b d' (j + n) (T + (owed a b (j + n) - owed a b j)) rest
  end.

(** hypotheses: within a run the readings never go back; durations are at least dmin.  NOTHING relates the readings of
    one run to those of another (any pause) *)
Fixpoint segs_ok (dmin d : Z) (segs : list (option Z * Z * list Z)) : Prop :=
  match segs with
  | [] => True
  | (chg, t0, ts) :: rest =>
      let d' := match chg with Some x => x | None => d end in
      dmin <= d' /\ nondecr t0 ts /\ segs_ok dmin d' rest
  end.

Section Steady.
  Variables (out inn : rate) (a b : Z).
  Hypothesis Ho : rate_ok out.
  Hypothesis Hi : rate_ok inn.
  Hypothesis M : multiple_of out inn = (a, b).
  Hypothesis R : refuses a b = false.

  Lemma steps_st_steady dmin d : 0 < dmin -> dmin <= d -> forall ts c j T,
    0 <= j -> nondecr c ts ->
    steps_st out inn [] dmin (plain ts) (P a b c d j T)
    = (P a b (c + (last_or c ts - c) / d * d) d (j + (last_or c ts - c) / d)
         (T + (owed a b (j + (last_or c ts - c) / d) - owed a b j)),
       (map (fun t => T + (owed a b (j + (t - c) / d) - owed a b j)) ts, COk)).
  Proof.
    intros Hm Hd. induction ts as [|t ts IH]; intros c j T Hj Hs.
    - cbn [plain map steps_st last_or]. replace (c - c) with 0 by lia. rewrite Z.div_0_l by lia.
      replace (c + 0 * d) with c by lia. replace (j + 0) with j by lia.
      replace (T + (owed a b j - owed a b j)) with T by lia. reflexivity.
    - destruct Hs as [Hct Hs]. cbn [plain map steps_st last_or].
      rewrite (step_steady out inn a b Ho Hi M R dmin d c j T t None Hm Hj Hct); [|cbn; lia].
      cbv beta iota zeta.
      set (K := (t - c) / d).
      assert (HK0 : 0 <= K) by (apply Z.div_pos; lia).
      assert (Hrem : c + K * d <= t).
      { unfold K. pose proof (Z.div_mod (t - c) d ltac:(lia)). pose proof (Z.mod_pos_bound (t - c) d ltac:(lia)). nia. }
      fold (plain ts).
      rewrite (IH (c + K * d) (j + K) (T + (owed a b (j + K) - owed a b j)) ltac:(lia) (nondecr_weaken ts t _ Hrem Hs)).
      cbv beta iota zeta.
      assert (HL : (last_or (c + K * d) ts - (c + K * d)) / d = (last_or t ts - c) / d - K).
      { destruct ts as [|t' ts'].
        - cbn [last_or]. replace (c + K * d - (c + K * d)) with 0 by lia. rewrite Z.div_0_l by lia. unfold K. lia.
        - cbn [last_or]. replace (last_or t' ts' - (c + K * d)) with (last_or t' ts' - c + (- K) * d) by ring.
          rewrite Z.div_add by lia. lia. }
      rewrite HL. set (L := (last_or t ts - c) / d).
      replace (j + K + (L - K)) with (j + L) by ring.
      replace (c + K * d + (L - K) * d) with (c + L * d) by ring.
      replace (T + (owed a b (j + K) - owed a b j) + (owed a b (j + L) - owed a b (j + K)))
        with (T + (owed a b (j + L) - owed a b j)) by ring.
      f_equal. f_equal. cbn [P c_total]. f_equal.
      apply map_ext. intros t'.
      replace (t' - (c + K * d)) with (t' - c + (- K) * d) by ring. rewrite Z.div_add by lia.
      replace (j + K + ((t' - c) / d + - K)) with (j + (t' - c) / d) by ring. ring.
  Qed.

  (** ALL runs: any number of them, any pauses (the stale anchor c of the state never shows on the right) *)
  Lemma run_segments_steady dmin : 0 < dmin -> forall segs c d j T, 0 <= j -> segs_ok dmin d segs ->
    run_segments out inn [] dmin (map plain_seg segs) (P a b c d j T) = (expect_segments a b d j T segs, COk).
  Proof.
    intros Hm. induction segs as [|[[chg t0] ts] rest IH]; intros c d j T Hj Hok; [reflexivity|].
    cbn [segs_ok] in Hok. cbv zeta in Hok. destruct Hok as [Hd [Hs Hrest]].
    cbn [map plain_seg run_segments sg_rds sg_t0 sg_chg expect_segments]. cbv zeta.
    set (d' := match chg with Some x => x | None => d end) in *.
    assert (Hre : reanchor t0 chg (P a b c d j T) = P a b t0 d' j T).
    { unfold reanchor, d', P. destruct chg; reflexivity. }
    rewrite Hre. rewrite (steps_st_steady dmin d' Hm Hd ts t0 j T Hj Hs).
    cbv beta iota zeta.
    set (n := (last_or t0 ts - t0) / d').
    assert (Hn : 0 <= n).
    { unfold n. apply Z.div_pos; [|lia]. pose proof (last_or_ge ts t0 Hs). lia. }
    rewrite (IH (t0 + n * d') d' (j + n) (T + (owed a b (j + n) - owed a b j)) ltac:(lia) Hrest).
    reflexivity.
  Qed.
End Steady.

(** the ticks delivered WITHIN a run at the clock's own rate (converter 1:1): floor(elapsed in that run / duration) *)
Lemma expect_unit_head d j T chg t0 ts rest :
  let d' := match chg with Some x => x | None => d end in
  hd [] (expect_segments 1 1 d j T ((chg, t0, ts) :: rest)) = map (fun t => T + (t - t0) / d') ts.
Proof.
  cbn [expect_segments hd]. cbv zeta. apply map_ext. intros t.
  rewrite (owed_mul 1 1) by lia. rewrite (owed_mul 1 1) by lia. lia.
Qed.

(** a script without tempo changes: the smallest duration is the initial one *)
Lemma rerun_dmin_plain d0 : forall segs, (forall x, In x segs -> fst (fst x) = None) ->
  rerun_dmin d0 [] (map plain_seg segs) = d0.
Proof.
  intros segs H. unfold rerun_dmin. cbn [map app].
  assert (E : flat_map (fun sg => opt_list (sg_chg sg) ++ flat_map (fun rd => opt_list (snd rd)) (sg_rds sg)) (map plain_seg segs) = []).
  { induction segs as [|[[chg t0] ts] rest IH]; [reflexivity|].
    cbn [map plain_seg flat_map sg_chg sg_rds].
    pose proof (H (chg, t0, ts) (or_introl eq_refl)) as Hc. cbn [fst] in Hc. subst chg. cbn [opt_list app].
    rewrite IH by (intros x Hx; apply H; right; exact Hx).
    assert (E2 : flat_map (fun rd : Z * option Z => opt_list (snd rd)) (plain ts) = []).
    { clear H IH. unfold plain. induction ts as [|t ts IHt]; [reflexivity|]. cbn [map flat_map snd opt_list app]. exact IHt. }
    rewrite E2. reflexivity. }
  rewrite E. reflexivity.
Qed.

(* Clock/MidiInTimedProofs.v — lemmas about Clock/MidiInTimed.v: the readings of the wall clock never decide whether a
   'clock' message ticks the target; what the tempo estimate is on a steady / bounded clock. *)
From Coq Require Import QArith Qabs Lqa.
From Isobar Require Import Base.Prelude Clock.Multiplier Clock.MidiIn Clock.MidiInProofs Clock.MidiInTimed.
Local Open Scope Z_scope.

(** 1. the calls of one callback do not depend on the readings nor on the estimator state *)
Lemma cb_step_calls unit ht s x : snd (cb_step unit ht s x) = target_calls ht (msg_of x).
Proof. destruct x as [t1 t2 m]; destruct m; reflexivity. Qed.

Lemma cb_run_calls : forall xs unit ht s,
  map fst (cb_run unit ht s xs) = map (target_calls ht) (map msg_of xs).
Proof.
  induction xs as [|x xs IH]; intros unit ht s; [reflexivity|].
  cbn [cb_run map]. pose proof (cb_step_calls unit ht s x) as H.
  destruct (cb_step unit ht s x) as [s' calls]. cbn [snd] in H. cbn [map fst]. rewrite H, IH. reflexivity.
Qed.

Lemma cb_run_length : forall xs unit ht s, List.length (cb_run unit ht s xs) = List.length xs.
Proof.
  induction xs as [|x xs IH]; intros; [reflexivity|]. cbn [cb_run].
  destruct (cb_step unit ht s x) as [s' calls]. cbn [List.length]. rewrite IH. reflexivity.
Qed.

Lemma flat_map_map_fst {A B} (l : list (list A * B)) : flat_map fst l = concat (map fst l).
Proof. induction l as [|a l IH]; [reflexivity|]. cbn. rewrite IH. reflexivity. Qed.

Lemma timed_calls_untimed unit ht s xs : timed_calls unit ht s xs = midi_in_calls ht (map msg_of xs).
Proof.
  unfold timed_calls, midi_in_calls. rewrite flat_map_map_fst, cb_run_calls, flat_map_concat_map. reflexivity.
Qed.

(** two histories with the same messages — whatever their readings, units and estimator states — make the same
    calls, message by message *)
Lemma cb_run_time_irrelevant u1 u2 ht s1 s2 xs ys :
  map msg_of xs = map msg_of ys ->
  map fst (cb_run u1 ht s1 xs) = map fst (cb_run u2 ht s2 ys).
Proof. intros H. rewrite !cb_run_calls, H. reflexivity. Qed.

Lemma timed_tick_count unit s xs :
  count_call CTick (timed_calls unit true s xs) = count_if is_clock (map msg_of xs)
  /\ timed_calls unit false s xs = [].
Proof.
  rewrite !timed_calls_untimed. split; [apply (calls_counts (map msg_of xs)) | apply no_target_no_calls].
Qed.

(** 2. the estimate *)
Lemma tick_estimate_anti unit a b : 0 <= unit -> 0 < a <= b ->
  (tick_estimate unit b <= tick_estimate unit a)%Q.
Proof.
  intros Hu Hab. unfold tick_estimate, Qle. cbn [Qnum Qden].
  rewrite !Z2Pos.id by lia. nia.
Qed.

Lemma smooth_between lo hi e te :
  (lo <= e)%Q -> (e <= hi)%Q -> (lo <= te)%Q -> (te <= hi)%Q ->
  (lo <= smooth e te)%Q /\ (smooth e te <= hi)%Q.
Proof. intros. unfold smooth. split; lra. Qed.

(** every interval between the reading that closed one 'clock' callback and the first reading of the next lies in
    [lo, hi] *)
Fixpoint intervals_within (lo hi l : Z) (xs : list timed) : Prop :=
  match xs with
  | [] => True
  | TM t1 t2 Clock :: r => lo <= t1 - l <= hi /\ intervals_within lo hi t2 r
  | _ :: r => intervals_within lo hi l r
  end.

Definition est_within (qlo qhi : Q) (oe : option Q) : Prop :=
  match oe with None => True | Some e => (qlo <= e)%Q /\ (e <= qhi)%Q end.
Definition est_is_within (qlo qhi : Q) (oe : option Q) : Prop :=
  exists e, oe = Some e /\ (qlo <= e)%Q /\ (e <= qhi)%Q.

Lemma est_bounded : forall xs unit ht lo hi l s,
  0 <= unit -> 0 < lo <= hi ->
  intervals_within lo hi l xs ->
  last_clock s = Some l ->
  est_within (tick_estimate unit hi) (tick_estimate unit lo) (est s) ->
  Forall (est_is_within (tick_estimate unit hi) (tick_estimate unit lo))
         (clock_estimates xs (cb_run unit ht s xs)).
Proof.
  induction xs as [|x xs IH]; intros unit ht lo hi l s Hu Hlh Hw Hl He; [constructor|].
  destruct x as [t1 t2 m].
  destruct m as [| | |p|i|i];
    try (cbn [cb_run cb_step clock_estimates]; eapply IH; eauto; fail).
  cbn [intervals_within] in Hw. destruct Hw as [Hd Hw].
  cbn [cb_run cb_step clock_estimates].
  assert (Hs : est_update unit s t1 t2
               = TS (Some t2) (Some (match est s with None => tick_estimate unit (t1 - l)
                                                | Some e => smooth e (tick_estimate unit (t1 - l)) end))).
  { unfold est_update. rewrite Hl. destruct (t1 - l <=? 0) eqn:E; [lia | reflexivity]. }
  rewrite Hs. cbn [est].
  assert (Hte : (tick_estimate unit hi <= tick_estimate unit (t1 - l))%Q
                /\ (tick_estimate unit (t1 - l) <= tick_estimate unit lo)%Q).
  { split; apply tick_estimate_anti; lia. }
  destruct Hte as [T1 T2].
  assert (Hnew : (tick_estimate unit hi <= match est s with None => tick_estimate unit (t1 - l)
                                                     | Some e => smooth e (tick_estimate unit (t1 - l)) end)%Q
                 /\ (match est s with None => tick_estimate unit (t1 - l)
                               | Some e => smooth e (tick_estimate unit (t1 - l)) end <= tick_estimate unit lo)%Q).
  { destruct (est s) as [e|]; [|split; assumption].
    cbn [est_within] in He. destruct He as [E1 E2]. apply smooth_between; assumption. }
  constructor.
  - eexists. split; [reflexivity | exact Hnew].
  - eapply IH; eauto; cbn [est est_within]; exact Hnew.
Qed.

(** a steady clock: every interval is exactly d > 0.  From the second 'clock' message on the estimate is exactly
    2.5 / d beats per minute (= 60 / (24 d)), whatever other messages are interleaved *)
Lemma est_steady unit ht d l s xs :
  0 <= unit -> 0 < d ->
  intervals_within d d l xs ->
  last_clock s = Some l ->
  (match est s with None => True | Some e => (e == tick_estimate unit d)%Q end) ->
  Forall (fun oe => exists e, oe = Some e /\ (e == tick_estimate unit d)%Q)
         (clock_estimates xs (cb_run unit ht s xs)).
Proof.
  intros Hu Hd Hw Hl He.
  assert (B := est_bounded xs unit ht d d l s Hu (conj Hd (Z.le_refl d)) Hw Hl).
  assert (Hin : est_within (tick_estimate unit d) (tick_estimate unit d) (est s)).
  { destruct (est s) as [e|]; cbn [est_within]; [|exact I]. split; rewrite He; apply Qle_refl. }
  specialize (B Hin). eapply Forall_impl; [|exact B].
  intros oe [e [E1 [E2 E3]]]. exists e. split; [exact E1 | apply Qle_antisym; assumption].
Qed.

(** from a fresh device: the first 'clock' message only arms the estimator *)
Lemma first_clock_arms unit s t1 t2 : last_clock s = None ->
  est_update unit s t1 t2 = TS (Some t1) (est s).
Proof. intros H. unfold est_update. rewrite H. reflexivity. Qed.

Fixpoint no_clock (xs : list timed) : bool :=
  match xs with [] => true | TM _ _ Clock :: _ => false | _ :: r => no_clock r end.

Lemma est_steady_fresh : forall pre unit ht d t0 t0' xs,
  0 <= unit -> 0 < d -> no_clock pre = true ->
  intervals_within d d t0 xs ->
  Forall (fun oe => exists e, oe = Some e /\ (e == tick_estimate unit d)%Q)
         (tl (clock_estimates (pre ++ TM t0 t0' Clock :: xs) (cb_run unit ht ts0 (pre ++ TM t0 t0' Clock :: xs)))).
Proof.
  induction pre as [|x pre IH]; intros unit ht d t0 t0' xs Hu Hd Hp Hw.
  - cbn [app cb_run cb_step clock_estimates tl]. rewrite first_clock_arms by reflexivity.
    eapply est_steady; eauto. cbn. exact I.
  - destruct x as [a b m]. destruct m; cbn [no_clock] in Hp; try discriminate;
      cbn [app cb_run cb_step clock_estimates]; apply IH; assumption.
Qed.

(* Clock/ReconfigProofs.v — lemmas about Clock/Reconfig.v: after the timeline's rate has changed, the devices are ticked exactly as
   on a timeline that was built at the new rate; switching clock output on or off never changes which device.tick() calls are
   made; a Clock made without a target ticks its timeline once per period whatever rate the timeline had before. *)
From Isobar Require Import Base.Prelude Clock.Multiplier Clock.MultiplierProofs Clock.ClockRun Clock.ClockRunProofs Clock.Reconfig.

Lemma rate_eqb_refl r : rate_eqb r r = true.
Proof. destruct r as [z|]; cbn; [apply Z.eqb_refl | reflexivity]. Qed.

Lemma tl_devices_length inn : forall ds i, List.length (snd (fst (tl_devices inn i ds))) = List.length ds.
Proof.
  induction ds as [|d ds IH]; intros i; [reflexivity|]. cbn [tl_devices].
  destruct (mult_next (d_rate d) inn (d_state d)) as [r st']. destruct r; cbn [fst snd List.length]; try reflexivity.
  specialize (IH (i + 1)). destruct (tl_devices inn (i + 1) ds) as [[calls rest'] res]. cbn [fst snd List.length] in *. lia.
Qed.

Lemma rejoin_devs : forall ds ds', List.length ds' = List.length ds -> map a_dev (rejoin ds ds') = ds'.
Proof.
  induction ds as [|a ds IH]; intros [|d ds'] H; cbn in *; try reflexivity; try discriminate. f_equal. apply IH. lia.
Qed.

Lemma calls_of_mark ds calls : calls_of_obs (map (mark ds) calls) = calls.
Proof. unfold calls_of_obs. rewrite map_map. cbn. apply map_id. Qed.

(** the pulses on the ports: the device.tick() calls of the devices whose clock output is on *)
Lemma pulses_of_mark ds calls :
  pulses_of_obs (map (mark ds) calls) = filter (fun i => a_on (nth (Z.to_nat i) ds (fresh None false))) calls.
Proof.
  unfold pulses_of_obs. induction calls as [|c calls IH]; [reflexivity|]. cbn [map filter mark snd fst].
  destruct (a_on (nth (Z.to_nat c) ds (fresh None false))); cbn [map fst]; rewrite IH; reflexivity.
Qed.

Definition run_calls (x : list (list (Z * bool)) * gstate * tlres) : list (list Z) * tlres :=
  (map calls_of_obs (fst (fst x)), snd x).

(** n ticks with converters that are in tune: the device-clock phase of an ordinary timeline *)
Lemma ticks_in_tune : forall n r ds,
  run_calls (grun (GS r r ds) (repeat GTick n)) = tl_run r (map a_dev ds) n.
Proof.
  induction n as [|n IH]; intros r ds; [reflexivity|].
  cbn [repeat grun gstep g_rate g_conv_rate g_devs tl_run]. rewrite rate_eqb_refl.
  pose proof (tl_devices_length r (map a_dev ds) 0) as L.
  destruct (tl_devices r 0 (map a_dev ds)) as [[calls ds'] res]. cbn [fst snd] in L. rewrite map_length in L.
  destruct res; try (unfold run_calls; cbn [fst snd map]; rewrite calls_of_mark; reflexivity).
  specialize (IH r (rejoin ds ds')). rewrite rejoin_devs in IH by exact L.
  destruct (grun (GS r r (rejoin ds ds')) (repeat GTick n)) as [[more sf] rr].
  destruct (tl_run r ds' n) as [m2 r2]. unfold run_calls in *. cbn [fst snd map] in *.
  rewrite calls_of_mark. inversion IH; subst. reflexivity.
Qed.

Lemma a_dev_retune ds : map a_dev (retune ds) = tl_new (map (fun a => d_rate (a_dev a)) ds).
Proof. unfold retune, tl_new. rewrite !map_map. reflexivity. Qed.

(** after the rate has changed (the converters were made for another rate): the next n ticks are those of a timeline built at
    the new rate with the same devices — whatever happened before *)
Lemma ticks_after_rate_change n r c ds :
  rate_eqb c r = false ->
  run_calls (grun (GS r c ds) (repeat GTick n)) = tl_run r (tl_new (map (fun a => d_rate (a_dev a)) ds)) n.
Proof.
  intros H. destruct n as [|n]; [reflexivity|].
  rewrite <- a_dev_retune, <- ticks_in_tune.
  cbn [repeat grun gstep g_rate g_conv_rate g_devs]. rewrite H, rate_eqb_refl. reflexivity.
Qed.

(** ---- switching clock output never changes the device.tick() calls ---- *)
Definition same_conv (s1 s2 : gstate) : Prop :=
  g_rate s1 = g_rate s2 /\ g_conv_rate s1 = g_conv_rate s2 /\ map a_dev (g_devs s1) = map a_dev (g_devs s2).

Definition is_send_clock (e : gev) : bool := match e with GSendClock _ _ => true | _ => false end.

Lemma a_dev_set_on : forall ds i on, map a_dev (set_on i on ds) = map a_dev ds.
Proof.
  induction ds as [|a ds IH]; intros i on; [reflexivity|]. cbn [set_on]. destruct (i =? 0); cbn [map a_dev]; [reflexivity|].
  rewrite IH. reflexivity.
Qed.

Lemma a_dev_retune_map ds : map a_dev (retune ds) = map (fun d => mkDev (d_rate d) MNew) (map a_dev ds).
Proof. unfold retune. rewrite !map_map. reflexivity. Qed.

Lemma map_a_dev_nil_iff (l1 l2 : list adev) : map a_dev l1 = map a_dev l2 -> (l1 = [] <-> l2 = []).
Proof. destruct l1, l2; cbn; intros H; try discriminate; split; intros; try reflexivity; discriminate. Qed.

Lemma gstep_same_conv s1 s2 e : same_conv s1 s2 -> is_send_clock e = false ->
  let '(t1, o1, r1) := gstep s1 e in let '(t2, o2, r2) := gstep s2 e in
  same_conv t1 t2 /\ option_map calls_of_obs o1 = option_map calls_of_obs o2 /\ r1 = r2.
Proof.
  intros [A [B C]] N. destruct e as [|r|r on|r on|i on]; try discriminate; cbn [gstep].
  - rewrite <- A, <- B.
    set (d1 := if rate_eqb (g_conv_rate s1) (g_rate s1) then g_devs s1 else retune (g_devs s1)).
    set (d2 := if rate_eqb (g_conv_rate s1) (g_rate s1) then g_devs s2 else retune (g_devs s2)).
    assert (E : map a_dev d1 = map a_dev d2).
    { unfold d1, d2. destruct (rate_eqb (g_conv_rate s1) (g_rate s1)); [exact C|]. rewrite !a_dev_retune_map, C. reflexivity. }
    rewrite <- E. pose proof (tl_devices_length (g_rate s1) (map a_dev d1) 0) as L.
    destruct (tl_devices (g_rate s1) 0 (map a_dev d1)) as [[calls ds'] res]. cbn [fst snd] in L.
    repeat split; cbn [g_rate g_conv_rate g_devs option_map].
    + rewrite !rejoin_devs; [reflexivity | rewrite L, E, map_length; reflexivity | rewrite L, map_length; reflexivity].
    + rewrite !calls_of_mark. reflexivity.
  - repeat split; cbn [g_rate g_conv_rate g_devs]; assumption.
  - repeat split; cbn [g_rate g_conv_rate g_devs]; try assumption.
    + pose proof (map_a_dev_nil_iff _ _ C) as X. destruct (g_devs s1), (g_devs s2); try assumption;
        try (exfalso; destruct X as [X1 X2]; (discriminate (X1 eq_refl) || discriminate (X2 eq_refl))).
    + rewrite !map_app, C. reflexivity.
  - repeat split; cbn [g_rate g_conv_rate g_devs]; assumption.
Qed.

Lemma gstep_send_clock s i on : same_conv (fst (fst (gstep s (GSendClock i on)))) s.
Proof. cbn. repeat split. cbn. apply a_dev_set_on. Qed.

Lemma same_conv_trans s1 s2 s3 : same_conv s1 s2 -> same_conv s2 s3 -> same_conv s1 s3.
Proof. intros [A [B C]] [D [E F]]. repeat split; congruence. Qed.
Lemma same_conv_sym s1 s2 : same_conv s1 s2 -> same_conv s2 s1.
Proof. intros [A [B C]]. repeat split; congruence. Qed.

(** the device.tick() calls of a history are those of the history with every `send_clock = ...` removed (and do not depend
    on the flags the devices were attached with) *)
Lemma send_clock_transparent : forall es s1 s2, same_conv s1 s2 ->
  run_calls (grun s1 es) = run_calls (grun s2 (filter (fun e => negb (is_send_clock e)) es)).
Proof.
  induction es as [|e es IH]; intros s1 s2 H; [reflexivity|].
  destruct (is_send_clock e) eqn:K.
  - destruct e; try discriminate. cbn [filter is_send_clock negb]. cbn [grun].
    pose proof (gstep_send_clock s1 i on) as G. cbn [gstep fst] in G |- *.
    specialize (IH _ s2 (same_conv_trans _ _ _ G H)).
    destruct (grun (GS (g_rate s1) (g_conv_rate s1) (set_on i on (g_devs s1))) es) as [[more sf] rr]. exact IH.
  - cbn [filter]. rewrite K. cbn [negb grun].
    pose proof (gstep_same_conv s1 s2 e H K) as G.
    destruct (gstep s1 e) as [[t1 o1] r1]. destruct (gstep s2 e) as [[t2 o2] r2]. destruct G as [G1 [G2 G3]]. subst r2.
    destruct r1.
    + specialize (IH t1 t2 G1).
      destruct (grun t1 es) as [[m1 f1] q1]. destruct (grun t2 (filter (fun e => negb (is_send_clock e)) es)) as [[m2 f2] q2].
      unfold run_calls in *. cbn [fst snd] in *. inversion IH; subst.
      destruct o1, o2; cbn [option_map] in G2; try discriminate; cbn [map]; [inversion G2; congruence | congruence].
    + unfold run_calls. cbn [fst snd]. destruct o1, o2; cbn [option_map] in G2; try discriminate; cbn [map]; [inversion G2; congruence | congruence].
    + unfold run_calls. cbn [fst snd]. destruct o1, o2; cbn [option_map] in G2; try discriminate; cbn [map]; [inversion G2; congruence | congruence].
    + unfold run_calls. cbn [fst snd]. destruct o1, o2; cbn [option_map] in G2; try discriminate; cbn [map]; [inversion G2; congruence | congruence].
Qed.

(** ---- a Clock made without a target, given to a timeline of ANY previous rate: one timeline tick per period ---- *)
Lemma owed_same n k : 0 < n -> owed n n k = k.
Proof. intros H. pose proof (owed_mul n 1 k H) as E. replace (1 * n) with n in E by lia. lia. Qed.


(* Clock/Reconfig.v — a timeline that is RE-CONFIGURED after construction: its clock source is replaced (another PPQN, the same
   PPQN; Clock / DummyClock / MidiInputDevice) or `ticks_per_beat` is assigned, output devices are added or replaced while it
   runs, and the clock output of a MIDI device (`send_clock`) is switched on and off after the device was attached.
   No proofs here.

   Python (isobar/timelines/timeline.py, isobar/timelines/clock.py, isobar/io/midi/output.py):

       Timeline.ticks_per_beat            = self.clock_source.ticks_per_beat             (the timeline has no rate of its own)
       Timeline.set_clock_source(c)       c.clock_target = self;  self._clock_source = c   (in this order)
       Timeline.add_output_device(d)      output_devices.append(d); clock_multipliers[d] = make_clock_multiplier(d.ticks_per_beat, self.ticks_per_beat)
       Timeline.set_output_device(d)      output_devices = []; add_output_device(d)
       Timeline.tick()                    for d in output_devices: next(clock_multipliers[d]) x d.tick()
       Clock.__init__(target, tempo, n)   clock_multiplier = make_clock_multiplier(target.ticks_per_beat if target else n, n)   (made ONCE;
                                          `clock_target` is a plain attribute: assigning it later does not touch the converter)
       MidiOutputDevice.ticks_per_beat    24, whatever send_clock is;   MidiOutputDevice.tick(): sends 'clock' iff self.send_clock (read on every call)

   What the property demands: a device receives rate_out / rate_in ticks per timeline tick for the rate the timeline HAS — so when
   the timeline's rate has changed since the converters were made, they are made anew for the new rate (`retune`, done by the
   first tick after the change; a replacement that keeps the rate keeps the converters and their phase).  The unchanged code never
   re-makes them (findings/C14-stale-device-converter.md).  Switching `send_clock` never touches a converter: it decides only
   whether device.tick() puts a 'clock' message on the port. *)
From Isobar Require Import Base.Prelude Clock.Multiplier.

(** an attached device: its rate converter, and whether its clock output is on (a recording device: always on) *)
Record adev := AD { a_dev : dev; a_on : bool }.

Inductive gev :=
| GTick                                (* Timeline.tick() *)
| GSetRate (r : rate)                  (* timeline.clock_source = <a clock of rate r>  /  timeline.ticks_per_beat = r *)
| GAddDev (r : rate) (on : bool)       (* timeline.add_output_device(d), d.ticks_per_beat = r *)
| GSetDev (r : rate) (on : bool)       (* timeline.output_device = d *)
| GSendClock (i : Z) (on : bool).      (* timeline.output_devices[i].send_clock = on *)

(** the timeline: its current rate, the rate its converters were made for, the attached devices *)
Record gstate := GS { g_rate : rate; g_conv_rate : rate; g_devs : list adev }.

Definition rate_eqb (a b : rate) : bool := option_eqb Z.eqb a b.
Definition fresh (r : rate) (on : bool) : adev := AD (mkDev r MNew) on.
Definition retune (ds : list adev) : list adev := map (fun a => fresh (d_rate (a_dev a)) (a_on a)) ds.
Fixpoint set_on (i : Z) (on : bool) (ds : list adev) : list adev :=
  match ds with
  | [] => []
  | a :: r => if i =? 0 then AD (a_dev a) on :: r else a :: set_on (i - 1) on r
  end.

(** put the new converter states back, keeping the flags *)
Fixpoint rejoin (ds : list adev) (ds' : list dev) : list adev :=
  match ds, ds' with
  | a :: r, d :: r' => AD d (a_on a) :: rejoin r r'
  | _, _ => []
  end.

(** what one tick shows: every device.tick() call in call order, with whether it put a 'clock' message on the port *)
Definition mark (ds : list adev) (i : Z) : Z * bool := (i, a_on (nth (Z.to_nat i) ds (fresh None false))).

Definition gstep (s : gstate) (e : gev) : gstate * option (list (Z * bool)) * tlres :=
  match e with
  | GTick =>
      let ds := if rate_eqb (g_conv_rate s) (g_rate s) then g_devs s else retune (g_devs s) in
      let '(calls, ds', res) := tl_devices (g_rate s) 0 (map a_dev ds) in
      (GS (g_rate s) (g_rate s) (rejoin ds ds'), Some (map (mark ds) calls), res)
  | GSetRate r => (GS r (g_conv_rate s) (g_devs s), None, TLOk)
  | GAddDev r on =>
      let ds := g_devs s ++ [fresh r on] in
      (GS (g_rate s) (match g_devs s with [] => g_rate s | _ => g_conv_rate s end) ds, None, TLOk)
  | GSetDev r on => (GS (g_rate s) (g_rate s) [fresh r on], None, TLOk)
  | GSendClock i on => (GS (g_rate s) (g_conv_rate s) (set_on i on (g_devs s)), None, TLOk)
  end.

(** a history: the observations of its ticks, in order; it ends at the first exception leaving Timeline.tick() *)
Fixpoint grun (s : gstate) (es : list gev) : list (list (Z * bool)) * gstate * tlres :=
  match es with
  | [] => ([], s, TLOk)
  | e :: r =>
      let '(s', o, res) := gstep s e in
      match res with
      | TLOk => let '(more, sf, rr) := grun s' r in ((match o with Some x => x :: more | None => more end), sf, rr)
      | _ => ((match o with Some x => [x] | None => [] end), s', res)
      end
  end.

Definition g_new (r : rate) (devs : list (rate * bool)) : gstate := GS r r (map (fun p => fresh (fst p) (snd p)) devs).

Definition calls_of_obs (o : list (Z * bool)) : list Z := map fst o.
Definition pulses_of_obs (o : list (Z * bool)) : list Z := map fst (filter snd o).

(** ---- the internal clock that replaces another ----
    Clock(clock_target, tempo, n) makes its converter once, for (the target's rate at that moment, or n without a target; n);
    `timeline.clock_source = clock` stores the clock and does not re-make it.  (out, inn) are the arguments of
    Clock/ClockRun.v `clock_run`. *)
Definition clock_conv (target_rate_at_construction : option rate) (n : Z) : rate * rate :=
  (match target_rate_at_construction with Some r => r | None => Some n end, Some n).

(** ---- harness encodings ---- *)
Definition orate (z : Z) : rate := if z <? 0 then None else Some z.
Definition gev_of (l : list Z) : list gev :=
  match l with
  | [0; n] => repeat GTick (Z.to_nat n)
  | [1; r] => [GSetRate (orate r)]
  | [2; r; on] => [GAddDev (orate r) (0 <? on)]
  | [3; r; on] => [GSetDev (orate r) (0 <? on)]
  | [4; i; on] => [GSendClock i (0 <? on)]
  | _ => []
  end.
Definition enc_obs (o : list (Z * bool)) : Z := fold_left (fun (v : Z) (p : Z * bool) => v * 8 + (2 * fst p + (if snd p then 1 else 0) + 1)) o 0.
Definition reconfig_ok (r : Z) (devs : list (Z * Z)) (es : list (list Z)) (dflt len : Z) (expected : list (Z * Z)) (code : Z) : bool :=
  let '(o, _, res) := grun (g_new (orate r) (map (fun p => (orate (fst p), 0 <? snd p)) devs)) (flat_map gev_of es) in
  sparse_ok (map enc_obs o) dflt len expected && (tlres_code res =? code).

(* Clock/MidiInWiredProofs.v — lemmas about Clock/MidiInWired.v: a MIDI input device wired to a real Timeline.
   Whatever transport messages (start / stop / song position / anything else) and user-level timeline.stop() /
   start() / reset() calls lie between them, every 'clock' message is exactly one Timeline.tick(); the calls the
   Timeline makes back on the device (clock_source.stop(), clock_source.run()) change nothing. *)
From Coq Require Import QArith.
From Isobar Require Import Base.Prelude Clock.Multiplier Clock.MidiIn Clock.MidiInProofs Clock.MidiInTimed
     Clock.MidiInTimedProofs Clock.MidiInWired.
Local Open Scope Z_scope.

Lemma dev_ticks_of_app l1 l2 : dev_ticks_of (l1 ++ l2) = dev_ticks_of l1 ++ dev_ticks_of l2.
Proof. unfold dev_ticks_of. apply flat_map_app. Qed.

Lemma dev_ticks_of_ticks calls : dev_ticks_of (map RDevTick calls) = calls.
Proof. induction calls as [|c r IH]; [reflexivity|]. cbn. f_equal. exact IH. Qed.

Lemma dev_ticks_of_stop : forall ds i, dev_ticks_of (stop_calls i ds) = [].
Proof. induction ds as [|d r IH]; intros i; [reflexivity|]. cbn. apply IH. Qed.

Lemma dev_ticks_of_start : forall ds i, dev_ticks_of (start_calls i ds) = [].
Proof. induction ds as [|d r IH]; intros i; [reflexivity|]. cbn. apply IH. Qed.

Definition b2z (b : bool) : Z := if b then 1 else 0.

(** one event whose reaction raised nothing *)
Lemma wired_step_ok unit w e w' l :
  wired_step unit w e = (w', l, TLOk) ->
  w_ticks w' = w_ticks w + b2z (is_clock_ev e)
  /\ w_pos w' = (if is_clock_ev e then w_pos w + 1 else if is_reset_ev e then 0 else w_pos w)
  /\ w_src w' = fst (ev_calls unit (w_src w) e)
  /\ (if is_clock_ev e
      then tl_devices (Some MIDI_PPQN) 0 (w_devs w) = (dev_ticks_of l, w_devs w', TLOk)
      else w_devs w' = w_devs w /\ dev_ticks_of l = []).
Proof.
  intros H. destruct e as [[t1 t2 m]| | |].
  - destruct m as [| | |p|i|i]; unfold wired_step, ev_calls, cb_step, target_calls in H.
    + cbn [react_all react set_src w_devs w_pos w_ticks w_src] in H.
      destruct (tl_devices (Some MIDI_PPQN) 0 (w_devs w)) as [[calls ds'] res] eqn:E.
      destruct res; inversion H; subst; clear H.
      cbn [w_ticks w_pos w_src w_devs is_clock_ev is_reset_ev b2z ev_calls cb_step fst].
      rewrite app_nil_r, dev_ticks_of_ticks. repeat split; reflexivity.
    + cbn in H. inversion H; subst; clear H. cbn. rewrite app_nil_r, dev_ticks_of_app, dev_ticks_of_start.
      repeat split; try reflexivity; lia.
    + cbn in H. inversion H; subst; clear H. cbn. rewrite app_nil_r, dev_ticks_of_app, dev_ticks_of_stop.
      repeat split; try reflexivity; lia.
    + cbn [is_clock_ev is_reset_ev b2z ev_calls cb_step target_calls fst].
      destruct (p =? 0) eqn:P; cbn in H; inversion H; subst; clear H; cbn; repeat split; try reflexivity; lia.
    + cbn in H. inversion H; subst; clear H. cbn. repeat split; try reflexivity; lia.
    + cbn in H. inversion H; subst; clear H. cbn. repeat split; try reflexivity; lia.
  - cbn in H. inversion H; subst; clear H. cbn. rewrite app_nil_r, dev_ticks_of_app, dev_ticks_of_stop.
    repeat split; try reflexivity; lia.
  - cbn in H. inversion H; subst; clear H. cbn. rewrite app_nil_r, dev_ticks_of_app, dev_ticks_of_start.
    repeat split; try reflexivity; lia.
  - cbn in H. inversion H; subst; clear H. cbn. repeat split; try reflexivity; lia.
Qed.

(** running number of 'clock' messages / position of a timeline that advances by one tick per 'clock' message and
    rewinds on 'songpos 0' and timeline.reset() — nothing else moves it *)
Fixpoint tick_counts (n : Z) (evs : list ev) : list Z :=
  match evs with
  | [] => []
  | e :: r => (n + b2z (is_clock_ev e)) :: tick_counts (n + b2z (is_clock_ev e)) r
  end.
Definition next_pos (p : Z) (e : ev) : Z := if is_clock_ev e then p + 1 else if is_reset_ev e then 0 else p.
Fixpoint wpositions (p : Z) (evs : list ev) : list Z :=
  match evs with
  | [] => []
  | e :: r => next_pos p e :: wpositions (next_pos p e) r
  end.
Definition count_clock_ev (evs : list ev) : nat := List.length (filter is_clock_ev evs).

(** the device ticks observed on the 'clock' events, in order; and: no other event carries a device tick *)
Fixpoint clock_dev_ticks (evs : list ev) (obs : list wobs) : list (list Z) :=
  match evs, obs with
  | e :: r, o :: orr => if is_clock_ev e then dev_ticks_of (o_calls o) :: clock_dev_ticks r orr else clock_dev_ticks r orr
  | _, _ => []
  end.
Fixpoint others_quiet (evs : list ev) (obs : list wobs) : Prop :=
  match evs, obs with
  | e :: r, o :: orr => (is_clock_ev e = false -> dev_ticks_of (o_calls o) = []) /\ others_quiet r orr
  | _, _ => True
  end.

(** the device's state if only its callback ran on the messages (no timeline attached to react) *)
Definition cb_state (unit : Z) (s : tstate) (xs : list timed) : tstate :=
  fold_left (fun s x => fst (cb_step unit true s x)) xs s.

Lemma wired_run_spec : forall evs unit w obs wf,
  wired_run unit w evs = (obs, wf, TLOk) ->
  map o_ticks obs = tick_counts (w_ticks w) evs
  /\ map o_pos obs = wpositions (w_pos w) evs
  /\ w_ticks wf = w_ticks w + Z.of_nat (count_clock_ev evs)
  /\ tl_run (Some MIDI_PPQN) (w_devs w) (count_clock_ev evs) = (clock_dev_ticks evs obs, TLOk)
  /\ others_quiet evs obs
  /\ w_src wf = cb_state unit (w_src w) (msgs_of evs).
Proof.
  induction evs as [|e evs IH]; intros unit w obs wf H.
  - cbn in H. inversion H; subst. cbn. repeat split; try reflexivity; lia.
  - cbn [wired_run] in H.
    destruct (wired_step unit w e) as [[w' l] res] eqn:St.
    destruct res; try (inversion H; fail).
    destruct (wired_run unit w' evs) as [[more wf'] r] eqn:R. inversion H; subst; clear H.
    destruct (IH unit w' more wf R) as [I1 [I2 [I3 [I4 [I5 I6]]]]].
    destruct (wired_step_ok unit w e w' l St) as [T1 [T2 [T3 T4]]].
    cbn [map o_ticks o_pos tick_counts wpositions clock_dev_ticks others_quiet o_calls].
    unfold next_pos. rewrite <- T1, <- T2, I1, I2.
    assert (C : count_clock_ev (e :: evs) = (if is_clock_ev e then S (count_clock_ev evs) else count_clock_ev evs)).
    { unfold count_clock_ev. cbn [filter]. destruct (is_clock_ev e); reflexivity. }
    rewrite C.
    assert (M : cb_state unit (w_src w) (msgs_of (e :: evs)) = cb_state unit (w_src w') (msgs_of evs)).
    { rewrite T3. destruct e as [x| | |]; reflexivity. }
    rewrite M.
    destruct (is_clock_ev e) eqn:K.
    + repeat split; try reflexivity; try assumption.
      * cbn [b2z] in T1. lia.
      * cbn [tl_run]. rewrite T4, I4. reflexivity.
      * discriminate.
    + destruct T4 as [T4 T5]. repeat split; try reflexivity; try assumption.
      * cbn [b2z] in T1. lia.
      * rewrite <- T4. exact I4.
      * intros _. exact T5.
Qed.

(** the last entry of the running tick count *)
Lemma tick_counts_last : forall evs n, last (tick_counts n evs) n = n + Z.of_nat (count_clock_ev evs).
Proof.
  induction evs as [|e evs IH]; intros n; [cbn; lia|].
  cbn [tick_counts]. rewrite last_cons_default, IH. unfold count_clock_ev. cbn [filter].
  destruct (is_clock_ev e); cbn [b2z List.length]; lia.
Qed.

(** two histories with the same 'clock' messages in the same order — whatever else lies between them — tick the
    devices identically: transport and user-level calls are transparent for the clock domain *)
Lemma wired_transport_transparent unit1 unit2 w1 w2 evs1 evs2 obs1 obs2 wf1 wf2 :
  w_devs w1 = w_devs w2 ->
  count_clock_ev evs1 = count_clock_ev evs2 ->
  wired_run unit1 w1 evs1 = (obs1, wf1, TLOk) ->
  wired_run unit2 w2 evs2 = (obs2, wf2, TLOk) ->
  clock_dev_ticks evs1 obs1 = clock_dev_ticks evs2 obs2.
Proof.
  intros D C H1 H2.
  destruct (wired_run_spec evs1 unit1 w1 obs1 wf1 H1) as [_ [_ [_ [A _]]]].
  destruct (wired_run_spec evs2 unit2 w2 obs2 wf2 H2) as [_ [_ [_ [B _]]]].
  rewrite D, C in A. rewrite A in B. inversion B. reflexivity.
Qed.

(* Clock/ClockRun.v — model of isobar/timelines/clock.py `Clock.run` (the internal clock).  No proofs here.

   Python:
       clock0 = clock1 = time.time() * self.accelerate
       self.running = True
       while self.running:
           (log a warning when late by more than two ticks)
           next_tick_duration = self.tick_duration_seconds            # captured once per wake-up
           (jitter: absent, self.jitter == 0)
           while clock1 - clock0 >= next_tick_duration:
               ticks = next(self.clock_multiplier)
               for _ in range(ticks):
                   self.clock_target.tick()                           # may set clock.tempo (from an event action)
               clock0 += self.tick_duration_seconds                   # the duration in force NOW
               self.tick_duration_seconds = self.tick_duration_seconds_orig
               (warpers: absent)
           time.sleep(0.0001)
           clock1 = time.time() * self.accelerate                     # another thread may have set the tempo meanwhile

   `set_tempo` sets both tick_duration_seconds and tick_duration_seconds_orig to 60 / (tempo * ticks_per_beat).

   Time is exact: all instants and durations are integers in one (arbitrary, as fine as needed) unit, so every
   rational script can be expressed.  The environment (operating system, other threads, callbacks) enters as data:
     * the clock readings, one per wake-up (any list: the theorems ask only that they do not decrease),
     * an optional tempo change attached to a reading (made by another thread while the clock slept),
     * `cb`: tempo changes made from inside clock_target.tick(), keyed by the index of that target tick. *)
From Isobar Require Import Base.Prelude Clock.Multiplier.

Record cstate := mkC {
  c_clock0 : Z;        (* clock0: ideal time of the last delivered tick *)
  c_dur : Z;           (* tick_duration_seconds *)
  c_orig : Z;          (* tick_duration_seconds_orig *)
  c_mult : mstate;     (* self.clock_multiplier (target rate, clock rate) *)
  c_total : Z          (* number of clock_target.tick() calls made so far *)
}.

Inductive cres := COk | CClockErr | CStopIter | CFuel.

Definition set_tempo (d : Z) (s : cstate) : cstate :=
  mkC (c_clock0 s) d d (c_mult s) (c_total s).

Fixpoint lookup (k : Z) (l : list (Z * Z)) : option Z :=
  match l with
  | [] => None
  | (i, v) :: r => if i =? k then Some v else lookup k r
  end.

Section Run.
  Variables (out inn : rate).          (* clock_target.ticks_per_beat, clock.ticks_per_beat *)
  Variable cb : list (Z * Z).          (* target tick index -> new tick duration set from inside that tick() *)

  (** `for _ in range(ticks): self.clock_target.tick()` *)
  Fixpoint deliver (k : nat) (s : cstate) : cstate :=
    match k with
    | O => s
    | S k' =>
        let s1 := match lookup (c_total s) cb with Some d => set_tempo d s | None => s end in
        deliver k' (mkC (c_clock0 s1) (c_dur s1) (c_orig s1) (c_mult s1) (c_total s1 + 1))
    end.

  (** the inner `while clock1 - clock0 >= next_tick_duration` for one reading t *)
  Fixpoint burst (fuel : nat) (t ntd : Z) (s : cstate) : cstate * cres :=
    if t - c_clock0 s >=? ntd then
      match fuel with
      | O => (s, CFuel)
      | S f =>
          let '(r, m') := mult_next out inn (c_mult s) in
          let s0 := mkC (c_clock0 s) (c_dur s) (c_orig s) m' (c_total s) in
          match r with
          | MTicks n =>
              let s1 := deliver (Z.to_nat n) s0 in
              burst f t ntd (mkC (c_clock0 s1 + c_dur s1) (c_orig s1) (c_orig s1) (c_mult s1) (c_total s1))
          | MClockErr => (s0, CClockErr)
          | MStop => (s0, CStopIter)
          | MFuel => (s0, CFuel)
          end
      end
    else (s, COk).

  (** one wake-up: the tempo change made while asleep (if any), then the reading *)
  Definition clock_step (dmin : Z) (rd : Z * option Z) (s : cstate) : cstate * cres :=
    let '(t, chg) := rd in
    let s' := match chg with Some d => set_tempo d s | None => s end in
    burst (Z.to_nat ((t - c_clock0 s') / dmin) + 1) t (c_dur s') s'.

  (** the whole run: cumulative number of target ticks after each wake-up; stops at the first exception *)
  Fixpoint clock_steps (dmin : Z) (rds : list (Z * option Z)) (s : cstate) : list Z * cres :=
    match rds with
    | [] => ([], COk)
    | rd :: rest =>
        let '(s', r) := clock_step dmin rd s in
        match r with
        | COk => let '(more, r') := clock_steps dmin rest s' in (c_total s' :: more, r')
        | _ => ([c_total s'], r)
        end
    end.
End Run.

(** smallest duration occurring in a script (bounds the number of iterations of a burst) *)
Definition min_list (d : Z) (l : list Z) : Z := fold_right Z.min d l.
Definition script_dmin (d0 : Z) (cb : list (Z * Z)) (rds : list (Z * option Z)) : Z :=
  min_list d0 (map snd cb ++ flat_map (fun rd => match snd rd with Some d => [d] | None => [] end) rds).

(** `run()`: clock0 = clock1 = first reading t0; that first pass delivers nothing; then one step per wake-up *)
Definition clock_init (t0 d : Z) : cstate := mkC t0 d d MNew 0.
Definition clock_run (out inn : rate) (cb : list (Z * Z)) (d0 t0 : Z) (rds : list (Z * option Z)) : list Z * cres :=
  clock_steps out inn cb (script_dmin d0 cb rds) rds (clock_init t0 d0).

(** ---- the same clock with the multiplier step in closed form ([mult_next_x]) ----
    ClockRunProofs.clock_run_x_eq proves [clock_run_x = clock_run] for rates below 10^8; the harness evaluates this
    variant because the `round(pos, 8)` arithmetic of [mult_next] costs ~10x more per tick inside coqc. *)
Section RunX.
  Variables (out inn : rate).
  Variable cb : list (Z * Z).
  Fixpoint burst_x (fuel : nat) (t ntd : Z) (s : cstate) : cstate * cres :=
    if t - c_clock0 s >=? ntd then
      match fuel with
      | O => (s, CFuel)
      | S f =>
          let '(r, m') := mult_next_x out inn (c_mult s) in
          let s0 := mkC (c_clock0 s) (c_dur s) (c_orig s) m' (c_total s) in
          match r with
          | MTicks n =>
              let s1 := deliver cb (Z.to_nat n) s0 in
              burst_x f t ntd (mkC (c_clock0 s1 + c_dur s1) (c_orig s1) (c_orig s1) (c_mult s1) (c_total s1))
          | MClockErr => (s0, CClockErr)
          | MStop => (s0, CStopIter)
          | MFuel => (s0, CFuel)
          end
      end
    else (s, COk).
  Definition clock_step_x (dmin : Z) (rd : Z * option Z) (s : cstate) : cstate * cres :=
    let '(t, chg) := rd in
    let s' := match chg with Some d => set_tempo d s | None => s end in
    burst_x (Z.to_nat ((t - c_clock0 s') / dmin) + 1) t (c_dur s') s'.
  Fixpoint clock_steps_x (dmin : Z) (rds : list (Z * option Z)) (s : cstate) : list Z * cres :=
    match rds with
    | [] => ([], COk)
    | rd :: rest =>
        let '(s', r) := clock_step_x dmin rd s in
        match r with
        | COk => let '(more, r') := clock_steps_x dmin rest s' in (c_total s' :: more, r')
        | _ => ([c_total s'], r)
        end
    end.
End RunX.
Definition clock_run_x (out inn : rate) (cb : list (Z * Z)) (d0 t0 : Z) (rds : list (Z * option Z)) : list Z * cres :=
  clock_steps_x out inn cb (script_dmin d0 cb rds) rds (clock_init t0 d0).

Definition cres_code (r : cres) : Z := match r with COk => 0 | CClockErr => -1 | CStopIter => -2 | CFuel => -3 end.

(** what the harness compares: cumulative counts and the way the run ended *)
Definition clock_ok (out inn : rate) (cb : list (Z * Z)) (d0 t0 : Z) (rds : list (Z * option Z))
           (counts : list Z) (code : Z) : bool :=
  let '(c, r) := clock_run out inn cb d0 t0 rds in
  list_eqb Z.eqb c counts && (cres_code r =? code).
Definition clock_ok_x (out inn : rate) (cb : list (Z * Z)) (d0 t0 : Z) (rds : list (Z * option Z))
           (counts : list Z) (code : Z) : bool :=
  let '(c, r) := clock_run_x out inn cb d0 t0 rds in
  list_eqb Z.eqb c counts && (cres_code r =? code).
